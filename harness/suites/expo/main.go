// Suite expo (C35): exposition formats are parsed faithfully and consistently.
//
// A case is either a set of generated metric families (client protobuf types), encoded with the REAL
// prometheus/common expfmt encoders (text, OpenMetrics without/with _created lines, protobuf delimited) and
// parsed back with the REAL textparse parsers under several option combinations, or an arbitrary / mutated
// byte string fed to the text and OpenMetrics parsers.
//
//	fam <type> <name> <help|-> <unit|->                   -> -      (one generated family; help/unit "=<hex>")
//	m <kind> <labels> <ts|-> <created|-> <fields…>          -> -      (one metric of the family above)
//	enc text|om0|om1                                        -> <hex>  bytes written by the real encoder | encerr
//	parse <text|om> tu=<b> skip=<b> st=<b> src=<tag> <hex>  -> entry stream of the real parser, " ; "-joined
//	pproto tu=<b> src=proto <hex> :: <entry stream of the real protobuf parser>  -> -   (judge only)
//
// Entry stream: type/help/unit <name> <text> | comment <text> | series <bytes> <labels> <valbits> <ts|->
// <exemplar|-> <st> | hist … | eof | err | panic.
package main

import (
	"bufio"
	"bytes"
	"errors"
	"fmt"
	"io"
	"math"
	"os"
	"os/exec"
	"strconv"
	"strings"
	"time"

	dto "github.com/prometheus/client_model/go"
	"github.com/prometheus/common/expfmt"
	"github.com/prometheus/common/model"
	"google.golang.org/protobuf/types/known/timestamppb"

	"github.com/prometheus/prometheus/model/exemplar"
	"github.com/prometheus/prometheus/model/histogram"
	"github.com/prometheus/prometheus/model/labels"
	"github.com/prometheus/prometheus/model/textparse"

	"verif/harness/h"
)

// ---------------------------------------------------------------- family specs

type lp struct{ n, v string }

type exSpec struct {
	lbls  []lp
	val   uint64
	hasTs bool
	sec   int64
	nanos int32
}

type bucketSpec struct {
	ub, cc, ccf uint64
	ex          *exSpec
}

type metricSpec struct {
	kind    string // c g u s h
	lbls    []lp
	ts      *int64
	created *[2]int64
	val     uint64
	ex      *exSpec
	count   uint64
	countF  uint64
	sum     uint64
	quants  [][2]uint64
	buckets []bucketSpec
}

type famSpec struct {
	typ     string
	name    string
	help    *string
	unit    *string
	metrics []metricSpec
}

func optS(s *string) string {
	if s == nil {
		return "-"
	}
	return "=" + h.HexS(*s)
}

func lblsS(ls []lp) string {
	if len(ls) == 0 {
		return "-"
	}
	parts := make([]string, len(ls))
	for i, l := range ls {
		parts[i] = h.HexS(l.n) + ":" + h.HexS(l.v)
	}
	return strings.Join(parts, ",")
}

func b16(u uint64) string { return fmt.Sprintf("%016x", u) }

func tsS(sec int64, nanos int32) string { return fmt.Sprintf("%d_%d", sec, nanos) }

func exS(e *exSpec) string {
	if e == nil {
		return "-"
	}
	t := "-"
	if e.hasTs {
		t = tsS(e.sec, e.nanos)
	}
	return lblsS(e.lbls) + "/" + b16(e.val) + "/" + t
}

func (f *famSpec) line() string {
	return "fam " + f.typ + " " + h.HexS(f.name) + " " + optS(f.help) + " " + optS(f.unit)
}

func (m *metricSpec) line() string {
	ts := "-"
	if m.ts != nil {
		ts = strconv.FormatInt(*m.ts, 10)
	}
	cr := "-"
	if m.created != nil {
		cr = tsS(m.created[0], int32(m.created[1]))
	}
	s := "m " + m.kind + " " + lblsS(m.lbls) + " " + ts + " " + cr + " "
	switch m.kind {
	case "c":
		s += b16(m.val) + " " + exS(m.ex)
	case "g", "u":
		s += b16(m.val)
	case "s":
		q := "-"
		if len(m.quants) > 0 {
			parts := make([]string, len(m.quants))
			for i, x := range m.quants {
				parts[i] = b16(x[0]) + "=" + b16(x[1])
			}
			q = strings.Join(parts, ",")
		}
		s += strconv.FormatUint(m.count, 10) + " " + b16(m.sum) + " " + q
	case "h":
		b := "-"
		if len(m.buckets) > 0 {
			parts := make([]string, len(m.buckets))
			for i, x := range m.buckets {
				parts[i] = b16(x.ub) + "=" + strconv.FormatUint(x.cc, 10) + "=" + b16(x.ccf) + "=" + exS(x.ex)
			}
			b = strings.Join(parts, ";")
		}
		s += strconv.FormatUint(m.count, 10) + " " + b16(m.countF) + " " + b16(m.sum) + " " + b
	}
	return s
}

// ---- parsing the lines back (replay, and the one path from spec to dto)

func unOpt(s string) *string {
	if s == "-" {
		return nil
	}
	v := string(h.UnHex(s[1:]))
	return &v
}

func unLbls(s string) []lp {
	if s == "-" {
		return nil
	}
	var out []lp
	for _, p := range strings.Split(s, ",") {
		kv := strings.SplitN(p, ":", 2)
		if len(kv) != 2 {
			continue
		}
		out = append(out, lp{string(h.UnHex(kv[0])), string(h.UnHex(kv[1]))})
	}
	return out
}

func unB16(s string) uint64 { u, _ := strconv.ParseUint(s, 16, 64); return u }
func unU(s string) uint64   { u, _ := strconv.ParseUint(s, 10, 64); return u }

func unTs(s string) (int64, int32, bool) {
	if s == "-" {
		return 0, 0, false
	}
	p := strings.SplitN(s, "_", 2)
	if len(p) != 2 {
		return 0, 0, false
	}
	a, _ := strconv.ParseInt(p[0], 10, 64)
	b, _ := strconv.ParseInt(p[1], 10, 32)
	return a, int32(b), true
}

func unEx(s string) *exSpec {
	if s == "-" {
		return nil
	}
	p := strings.Split(s, "/")
	if len(p) != 3 {
		return nil
	}
	e := &exSpec{lbls: unLbls(p[0]), val: unB16(p[1])}
	e.sec, e.nanos, e.hasTs = unTs(p[2])
	return e
}

func parseFamLine(tok []string) *famSpec {
	if len(tok) != 5 {
		return nil
	}
	return &famSpec{typ: tok[1], name: string(h.UnHex(tok[2])), help: unOpt(tok[3]), unit: unOpt(tok[4])}
}

func parseMetricLine(tok []string) *metricSpec {
	if len(tok) < 6 {
		return nil
	}
	m := &metricSpec{kind: tok[1], lbls: unLbls(tok[2])}
	if tok[3] != "-" {
		t, _ := strconv.ParseInt(tok[3], 10, 64)
		m.ts = &t
	}
	if s, n, ok := unTs(tok[4]); ok {
		m.created = &[2]int64{s, int64(n)}
	}
	f := tok[5:]
	switch m.kind {
	case "c":
		if len(f) != 2 {
			return nil
		}
		m.val, m.ex = unB16(f[0]), unEx(f[1])
	case "g", "u":
		if len(f) != 1 {
			return nil
		}
		m.val = unB16(f[0])
	case "s":
		if len(f) != 3 {
			return nil
		}
		m.count, m.sum = unU(f[0]), unB16(f[1])
		if f[2] != "-" {
			for _, q := range strings.Split(f[2], ",") {
				kv := strings.SplitN(q, "=", 2)
				if len(kv) == 2 {
					m.quants = append(m.quants, [2]uint64{unB16(kv[0]), unB16(kv[1])})
				}
			}
		}
	case "h":
		if len(f) != 4 {
			return nil
		}
		m.count, m.countF, m.sum = unU(f[0]), unB16(f[1]), unB16(f[2])
		if f[3] != "-" {
			for _, b := range strings.Split(f[3], ";") {
				x := strings.SplitN(b, "=", 4)
				if len(x) == 4 {
					m.buckets = append(m.buckets, bucketSpec{ub: unB16(x[0]), cc: unU(x[1]), ccf: unB16(x[2]), ex: unEx(x[3])})
				}
			}
		}
	default:
		return nil
	}
	return m
}

// ---- spec -> dto

func fb(u uint64) *float64 { f := math.Float64frombits(u); return &f }

func dtoLabels(ls []lp) []*dto.LabelPair {
	var out []*dto.LabelPair
	for _, l := range ls {
		n, v := l.n, l.v
		out = append(out, &dto.LabelPair{Name: &n, Value: &v})
	}
	return out
}

func dtoEx(e *exSpec) *dto.Exemplar {
	if e == nil {
		return nil
	}
	x := &dto.Exemplar{Label: dtoLabels(e.lbls), Value: fb(e.val)}
	if e.hasTs {
		x.Timestamp = &timestamppb.Timestamp{Seconds: e.sec, Nanos: e.nanos}
	}
	return x
}

func dtoType(t string) dto.MetricType {
	switch t {
	case "counter":
		return dto.MetricType_COUNTER
	case "gauge":
		return dto.MetricType_GAUGE
	case "summary":
		return dto.MetricType_SUMMARY
	case "histogram":
		return dto.MetricType_HISTOGRAM
	case "gaugehistogram":
		return dto.MetricType_GAUGE_HISTOGRAM
	}
	return dto.MetricType_UNTYPED
}

func kindOf(t string) string {
	switch t {
	case "counter":
		return "c"
	case "gauge":
		return "g"
	case "summary":
		return "s"
	case "histogram", "gaugehistogram":
		return "h"
	}
	return "u"
}

func toDto(f *famSpec) *dto.MetricFamily {
	name := f.name
	t := dtoType(f.typ)
	mf := &dto.MetricFamily{Name: &name, Type: &t, Help: f.help, Unit: f.unit}
	for i := range f.metrics {
		m := &f.metrics[i]
		if m.kind != kindOf(f.typ) {
			continue
		}
		d := &dto.Metric{Label: dtoLabels(m.lbls), TimestampMs: m.ts}
		var cr *timestamppb.Timestamp
		if m.created != nil {
			cr = &timestamppb.Timestamp{Seconds: m.created[0], Nanos: int32(m.created[1])}
		}
		switch m.kind {
		case "c":
			d.Counter = &dto.Counter{Value: fb(m.val), Exemplar: dtoEx(m.ex), CreatedTimestamp: cr}
		case "g":
			d.Gauge = &dto.Gauge{Value: fb(m.val)}
		case "u":
			d.Untyped = &dto.Untyped{Value: fb(m.val)}
		case "s":
			c := m.count
			s := &dto.Summary{SampleCount: &c, SampleSum: fb(m.sum), CreatedTimestamp: cr}
			for _, q := range m.quants {
				s.Quantile = append(s.Quantile, &dto.Quantile{Quantile: fb(q[0]), Value: fb(q[1])})
			}
			d.Summary = s
		case "h":
			c := m.count
			hh := &dto.Histogram{SampleCount: &c, SampleSum: fb(m.sum), CreatedTimestamp: cr}
			if m.countF != 0 {
				hh.SampleCountFloat = fb(m.countF)
			}
			for _, b := range m.buckets {
				cc := b.cc
				bb := &dto.Bucket{UpperBound: fb(b.ub), CumulativeCount: &cc, Exemplar: dtoEx(b.ex)}
				if b.ccf != 0 {
					bb.CumulativeCountFloat = fb(b.ccf)
				}
				hh.Bucket = append(hh.Bucket, bb)
			}
			d.Histogram = hh
		}
		mf.Metric = append(mf.Metric, d)
	}
	return mf
}

// ---------------------------------------------------------------- real encoders

func encode(fams []*famSpec, which string) ([]byte, bool) {
	var buf bytes.Buffer
	ok := true
	pan, _ := h.Try(func() {
		for _, f := range fams {
			mf := toDto(f)
			var err error
			switch which {
			case "text":
				_, err = expfmt.MetricFamilyToText(&buf, mf)
			case "om0":
				_, err = expfmt.MetricFamilyToOpenMetrics(&buf, mf)
			case "om1":
				_, err = expfmt.MetricFamilyToOpenMetrics(&buf, mf, expfmt.WithCreatedLines())
			case "proto":
				enc := expfmt.NewEncoder(&buf, expfmt.NewFormat(expfmt.TypeProtoDelim).WithEscapingScheme(model.NoEscaping))
				err = enc.Encode(mf)
			}
			if err != nil {
				ok = false
				return
			}
		}
		if which == "om0" || which == "om1" {
			expfmt.FinalizeOpenMetrics(&buf)
		}
	})
	if pan {
		return nil, false
	}
	return buf.Bytes(), ok
}

// ---------------------------------------------------------------- real parsers -> entry stream

func bits(f float64) string { return fmt.Sprintf("%016x", math.Float64bits(f)) }

func lblStr(l labels.Labels) string {
	var parts []string
	l.Range(func(x labels.Label) { parts = append(parts, h.HexS(x.Name)+":"+h.HexS(x.Value)) })
	if len(parts) == 0 {
		return "-"
	}
	return strings.Join(parts, ",")
}

func tsStr(ts *int64) string {
	if ts == nil {
		return "-"
	}
	return strconv.FormatInt(*ts, 10)
}

func exStr(es []exemplar.Exemplar) string {
	if len(es) == 0 {
		return "-"
	}
	parts := make([]string, len(es))
	for i, e := range es {
		t := "-"
		if e.HasTs {
			t = strconv.FormatInt(e.Ts, 10)
		}
		parts[i] = lblStr(e.Labels) + "/" + bits(e.Value) + "/" + t
	}
	return strings.Join(parts, "~")
}

func join[T any](xs []T, f func(T) string) string {
	if len(xs) == 0 {
		return "-"
	}
	parts := make([]string, len(xs))
	for i, x := range xs {
		parts[i] = f(x)
	}
	return strings.Join(parts, ",")
}

func spanStr(s histogram.Span) string { return fmt.Sprintf("%d/%d", s.Offset, s.Length) }

func histStr(hh *histogram.Histogram, fh *histogram.FloatHistogram) string {
	i64 := func(x int64) string { return strconv.FormatInt(x, 10) }
	if hh != nil {
		return strings.Join([]string{"I", strconv.Itoa(int(hh.Schema)), strconv.FormatUint(hh.Count, 10), bits(hh.Sum),
			bits(hh.ZeroThreshold), strconv.FormatUint(hh.ZeroCount, 10), join(hh.CustomValues, bits),
			join(hh.PositiveSpans, spanStr), join(hh.PositiveBuckets, i64), join(hh.NegativeSpans, spanStr),
			join(hh.NegativeBuckets, i64), strconv.Itoa(int(hh.CounterResetHint))}, ":")
	}
	if fh != nil {
		return strings.Join([]string{"F", strconv.Itoa(int(fh.Schema)), bits(fh.Count), bits(fh.Sum),
			bits(fh.ZeroThreshold), bits(fh.ZeroCount), join(fh.CustomValues, bits),
			join(fh.PositiveSpans, spanStr), join(fh.PositiveBuckets, bits), join(fh.NegativeSpans, spanStr),
			join(fh.NegativeBuckets, bits), strconv.Itoa(int(fh.CounterResetHint))}, ":")
	}
	return "nil"
}

const maxEntries = 4000

// drive runs a parser to the end (or the first error) and prints its entry stream. The calls per series
// follow the scrape loop: Series, Labels, StartTimestamp (if st), then Exemplar until false.
func drive(p textparse.Parser, st bool) string {
	var parts []string
	pan, val := h.Try(func() {
		for len(parts) < maxEntries {
			e, err := p.Next()
			if errors.Is(err, io.EOF) {
				parts = append(parts, "eof")
				return
			}
			if err != nil {
				parts = append(parts, "err")
				return
			}
			switch e {
			case textparse.EntryType:
				n, t := p.Type()
				parts = append(parts, "type "+h.Hex(n)+" "+h.HexS(string(t)))
			case textparse.EntryHelp:
				n, t := p.Help()
				parts = append(parts, "help "+h.Hex(n)+" "+h.Hex(t))
			case textparse.EntryUnit:
				n, t := p.Unit()
				parts = append(parts, "unit "+h.Hex(n)+" "+h.Hex(t))
			case textparse.EntryComment:
				parts = append(parts, "comment "+h.Hex(p.Comment()))
			case textparse.EntrySeries:
				b, ts, v := p.Series()
				sb := h.Hex(b)
				tss := tsStr(ts)
				var l labels.Labels
				p.Labels(&l)
				var stv int64
				if st {
					stv = p.StartTimestamp()
				}
				var exs []exemplar.Exemplar
				for len(exs) < 50 {
					var ex exemplar.Exemplar
					if !p.Exemplar(&ex) {
						break
					}
					exs = append(exs, ex)
				}
				parts = append(parts, "series "+sb+" "+lblStr(l)+" "+bits(v)+" "+tss+" "+exStr(exs)+" "+strconv.FormatInt(stv, 10))
			case textparse.EntryHistogram:
				b, ts, hh, fh := p.Histogram()
				sb := h.Hex(b)
				tss := tsStr(ts)
				hs := histStr(hh, fh)
				var l labels.Labels
				p.Labels(&l)
				var stv int64
				if st {
					stv = p.StartTimestamp()
				}
				var exs []exemplar.Exemplar
				for len(exs) < 50 {
					var ex exemplar.Exemplar
					if !p.Exemplar(&ex) {
						break
					}
					exs = append(exs, ex)
				}
				parts = append(parts, "hist "+sb+" "+lblStr(l)+" "+tss+" "+hs+" "+exStr(exs)+" "+strconv.FormatInt(stv, 10))
			default:
				parts = append(parts, "entry?")
				return
			}
		}
	})
	if pan {
		_ = val
		parts = append(parts, "panic")
	}
	return strings.Join(parts, " ; ")
}

type popts struct {
	parser       string // text om
	tu, skip, st bool
	src          string
}

func b01(b bool) string {
	if b {
		return "1"
	}
	return "0"
}

func (o popts) opLine(payload []byte) string {
	return "parse " + o.parser + " tu=" + b01(o.tu) + " skip=" + b01(o.skip) + " st=" + b01(o.st) + " src=" + o.src + " " + h.Hex(payload)
}

// parseInProcess runs one real parser over the payload and returns its entry stream.
func parseInProcess(parser string, tu, skip, st bool, payload []byte) string {
	ct := "text/plain"
	switch parser {
	case "om":
		ct = "application/openmetrics-text"
	case "proto":
		ct = "application/vnd.google.protobuf"
	}
	// the parsers keep references into the buffer (and the text parser appends to it): private copy
	buf := append(make([]byte, 0, len(payload)+1), payload...)
	var out string
	pan, _ := h.Try(func() {
		p, err := textparse.New(buf, ct, labels.NewSymbolTable(), textparse.ParserOptions{
			EnableTypeAndUnitLabels: tu, OpenMetricsSkipSTSeries: skip,
		})
		if p == nil || err != nil {
			out = "noparser"
			return
		}
		out = drive(p, st)
	})
	if pan {
		out = "panic"
	}
	return out
}

// The real parsers can spin forever (finding: OpenMetricsParser.StartTimestamp peeking over a malformed
// exemplar), which cannot be interrupted in-process: every parse runs in a worker child process with a
// watchdog; a parse that does not answer in time is reported as `hang` and the worker is replaced.
type worker struct {
	cmd *exec.Cmd
	in  io.WriteCloser
	out *bufio.Reader
}

var theWorker *worker

const (
	hangCPUTicks = 300 // 3 s of CPU time spent on one payload of a few hundred bytes
	hangWallCap  = 5 * time.Minute
)

func startWorker() *worker {
	cmd := exec.Command(os.Args[0])
	cmd.Env = append(os.Environ(), "EXPO_WORKER=1")
	in, err := cmd.StdinPipe()
	if err != nil {
		panic(err)
	}
	out, err := cmd.StdoutPipe()
	if err != nil {
		panic(err)
	}
	cmd.Stderr = os.Stderr
	if err := cmd.Start(); err != nil {
		panic(err)
	}
	w := &worker{cmd: cmd, in: in, out: bufio.NewReaderSize(out, 1<<20)}
	// handshake: process start-up (runtime and package initialisation) must not count against the first payload
	if l, err := w.out.ReadString('\n'); err != nil || strings.TrimSpace(l) != "ready" {
		panic("expo worker did not start: " + l)
	}
	return w
}

func stopWorker() {
	if theWorker != nil {
		theWorker.in.Close()
		theWorker.cmd.Process.Kill()
		theWorker.cmd.Wait()
		theWorker = nil
	}
}

func workerMain() {
	rd := bufio.NewReaderSize(os.Stdin, 1<<20)
	wr := bufio.NewWriter(os.Stdout)
	fmt.Fprintln(wr, "ready")
	wr.Flush()
	for {
		line, err := rd.ReadString('\n')
		if err != nil {
			return
		}
		tok := strings.Fields(line)
		if len(tok) != 5 {
			fmt.Fprintln(wr, "badreq")
			wr.Flush()
			continue
		}
		out := parseInProcess(tok[0], tok[1] == "1", tok[2] == "1", tok[3] == "1", h.UnHex(tok[4]))
		fmt.Fprintln(wr, out)
		wr.Flush()
	}
}

func parseGuarded(parser string, tu, skip, st bool, payload []byte) string {
	if theWorker == nil {
		theWorker = startWorker()
	}
	w := theWorker
	req := parser + " " + b01(tu) + " " + b01(skip) + " " + b01(st) + " " + h.Hex(payload) + "\n"
	if _, err := io.WriteString(w.in, req); err != nil {
		stopWorker()
		return "workererr"
	}
	ch := make(chan string, 1)
	go func() {
		l, err := w.out.ReadString('\n')
		if err != nil {
			ch <- "workererr"
			return
		}
		ch <- strings.TrimRight(l, "\n")
	}()
	// The watchdog counts the worker's CPU time, not wall-clock time: on a loaded machine a trivial parse may
	// wait seconds for a CPU, while a spinning parser burns CPU whenever it runs.
	cpu0 := procCPUTicks(w.cmd.Process.Pid)
	start := time.Now()
	tick := time.NewTicker(50 * time.Millisecond)
	defer tick.Stop()
	for {
		select {
		case l := <-ch:
			if l == "workererr" {
				stopWorker()
			}
			return l
		case <-tick.C:
			used := procCPUTicks(w.cmd.Process.Pid) - cpu0
			if used >= hangCPUTicks || time.Since(start) > hangWallCap {
				stopWorker()
				return "hang"
			}
		}
	}
}

// procCPUTicks returns utime+stime of a process in clock ticks (100 Hz on Linux).
func procCPUTicks(pid int) int64 {
	b, err := os.ReadFile("/proc/" + strconv.Itoa(pid) + "/stat")
	if err != nil {
		return 0
	}
	// the command name (field 2) is in parentheses and may contain spaces
	i := bytes.LastIndexByte(b, ')')
	if i < 0 {
		return 0
	}
	f := strings.Fields(string(b[i+1:]))
	if len(f) < 13 {
		return 0
	}
	u, _ := strconv.ParseInt(f[11], 10, 64)
	st, _ := strconv.ParseInt(f[12], 10, 64)
	return u + st
}

func doParse(c *h.Ctx, o popts, payload []byte) {
	out := parseGuarded(o.parser, o.tu, o.skip, o.st, payload)
	c.Count("parse:" + o.parser + ":" + o.src)
	switch {
	case strings.HasSuffix(out, "err"):
		c.Count("result:" + o.parser + ":err")
	case strings.HasSuffix(out, "panic"):
		c.Count("result:" + o.parser + ":panic")
	case out == "hang":
		c.Count("result:" + o.parser + ":hang")
	default:
		c.Count("result:" + o.parser + ":ok")
	}
	c.Op(o.opLine(payload), out)
}

func doProto(c *h.Ctx, tu bool, payload []byte) {
	out := parseGuarded("proto", tu, false, true, payload)
	c.Count("parse:proto")
	c.Op("pproto tu="+b01(tu)+" src=proto "+h.Hex(payload)+" :: "+out, "-")
}

// ---------------------------------------------------------------- generator

var (
	legacyNames = []string{"m", "x:y0", "http_requests", "a_b_c", "up", "rpc_duration", "temp", "_u", "Z9"}
	utf8Names   = []string{"my.metric", "λ", "a b", "dash-ed", "1digit", "ü€😀", "a{b}", "x=y", "a,b", "#hash"}
	evilNames   = []string{"q\"uote", "back\\slash", "new\nline", "tr\\"}
	units       = []string{"seconds", "bytes", "ratio", "s", "total", "x_y"}
	legacyLbls  = []string{"a", "b", "job", "instance", "le", "quantile", "code", "_x", "B2", "method"}
	utf8Lbls    = []string{"la.bel", "ü", "a b", "0start", "x-y", "q\"l", "b\\l"}
	colonLbls   = []string{"a:b", ":", "x:"}
	lblValues   = []string{"", "x", "val ue", "\\", "\"", "\n", "a\\nb", "ü€😀", "{}", "#", ",=", "x\\", "\\\\\"", "1", "-1", "+Inf", "0.5", "1e3", "é\"\\\n",
		" lead", "trail ", "\t", "a\x00b", "} 1", "\",b=\"", "a]b[", "~\x7f|z{", "!$%&'()*+-./:;<>?@^_`"}
	helps = []string{"", "help text", " lead", "trail ", "   ", " ", "\t", "with \\ and \n and \"", "tab\tin", "ü€", "\\n", "\\\\", "a\\", "# HELP x y", "x\x00y", "\"q\""}
	floats = []uint64{
		0, 0x8000000000000000, 0x3ff0000000000000, 0xbff0000000000000, 0x7ff0000000000000, 0xfff0000000000000,
		0x7ff8000000000001, 0x7ff8000000000000, 0xfff8000000000001, 0x7ff0000000000001, 0x7ff4000000000002,
		0x0000000000000001, 0x000fffffffffffff, 0x0010000000000000, 0x7fefffffffffffff, 0xffefffffffffffff,
		0x3fe0000000000000, 0x3fb999999999999a, 0x4024000000000000, 0x412e848000000000, 0x40f869f000000000, 0x3f1a36e2eb1c432d,
		0x3ee4f8b588e368f1, 0x4340000000000000, 0x433fffffffffffff, 0x43e0000000000000, 0x4059000000000000, 0x3fefae147ae147ae,
		0x3fd3333333333333, 0x444b1ae4d6e2ef50, 0x3eb0c6f7a0b5ed8d,
	}
	tsPool = []int64{0, 1, -1, 1000, 1234567890123, 1700000000000, 1700000000001, -276438, 999, 1001, 9007199254740993, 4503599627370497,
		1 << 41, -(1 << 41), math.MaxInt64, math.MinInt64, 1234567890122, 1609459200123, 253402300799999}
	counts = []uint64{0, 1, 2, 10, 100, 1 << 53, 1<<53 + 1, math.MaxUint64, 12345678901234567, 999999, 1000000}
)

func genFloat(r *h.Rng) uint64 {
	switch k := r.Intn(10); {
	case k < 4:
		return h.Pick(r, floats)
	case k < 6:
		return math.Float64bits(float64(r.Range(-1000, 100000)))
	case k < 8:
		return math.Float64bits(float64(r.Range(-1_000_000, 1_000_000)) / float64(h.PickI64(r, []int64{2, 4, 8, 10, 100, 1000, 1 << 20, 3, 7})))
	case k < 9:
		return r.U64()
	default:
		// random finite double with a random exponent
		return (r.U64() & 0x800fffffffffffff) | (uint64(r.Intn(2047)) << 52)
	}
}

func genName(r *h.Rng, wf bool) string {
	switch k := r.Intn(20); {
	case k < 12:
		return h.Pick(r, legacyNames)
	case k < 18 || wf:
		return h.Pick(r, utf8Names)
	default:
		return h.Pick(r, evilNames)
	}
}

func genLabels(r *h.Rng, max int, exclude string, wf bool) []lp {
	n := r.Intn(max + 1)
	var out []lp
	used := map[string]bool{exclude: true}
	for i := 0; i < n; i++ {
		var name string
		switch k := r.Intn(20); {
		case k < 14:
			name = h.Pick(r, legacyLbls)
		case k < 19 || wf || r.Chance(70):
			name = h.Pick(r, utf8Lbls)
		default:
			name = h.Pick(r, colonLbls)
		}
		if used[name] && r.Chance(97) {
			continue
		}
		used[name] = true
		out = append(out, lp{name, h.Pick(r, lblValues)})
	}
	return out
}

// omSafe: the millisecond timestamp survives OpenMetrics' float-seconds transport (finding: many do not).
func omSafe(t int64) bool { return int64(float64(t)/1000*1000) == t }

func genTs(r *h.Rng) *int64 {
	if r.Chance(55) {
		return nil
	}
	var t int64
	for try := 0; try < 20; try++ {
		switch k := r.Intn(10); {
		case k < 4:
			t = h.PickI64(r, tsPool)
		case k < 8:
			t = r.Range(0, 1<<41)
		default:
			t = r.Range(-(1 << 41), 1<<41)
		}
		// negative timestamps (finding F21) and OM-lossy timestamps only now and then
		if (t < 0 || !omSafe(t)) && !r.Chance(4) {
			continue
		}
		break
	}
	return &t
}

// genStamp prefers stamps whose millisecond value survives the float-seconds transport of OpenMetrics.
func genStamp(r *h.Rng) (int64, int32) {
	for try := 0; try < 20; try++ {
		s, n := genStamp0(r)
		if int64(float64(s*1000000000+int64(n))/1e9*1000) == s*1000+int64(n)/1000000 || r.Chance(5) {
			return s, n
		}
	}
	return 1700000000, 0
}

func genStamp0(r *h.Rng) (int64, int32) {
	switch r.Intn(6) {
	case 0:
		return 0, 0
	case 1:
		return 1700000000, 123000000
	case 2:
		return r.Range(0, 4000000000), int32(r.Range(0, 999)) * 1000000
	case 3:
		return r.Range(0, 4000000000), int32(r.Range(0, 999999999))
	case 4:
		return r.Range(0, 1000000), int32(r.Range(0, 999999999))
	default:
		return 1234567890, 123456789
	}
}

func genEx(r *h.Rng, p int) *exSpec {
	if !r.Chance(p) {
		return nil
	}
	e := &exSpec{val: genFloat(r)}
	n := r.Intn(3)
	if r.Chance(85) && n == 0 {
		n = 1
	}
	names := []string{"trace_id", "span_id", "a", "ü.x", "le"}
	for i := 0; i < n; i++ {
		v := h.Pick(r, lblValues)
		if strings.ContainsRune(v, 0) && r.Chance(90) {
			v = "nul-free"
		}
		if strings.ContainsAny(v, "\\\"\n") && r.Chance(90) {
			v = "esc-free"
		}
		e.lbls = append(e.lbls, lp{names[(i+r.Intn(2))%len(names)], v})
	}
	if r.Chance(60) {
		e.hasTs = true
		e.sec, e.nanos = genStamp(r)
	}
	return e
}

func genFamily(r *h.Rng, idx int, wf bool) *famSpec {
	f := &famSpec{}
	f.typ = h.Pick(r, []string{"counter", "counter", "gauge", "gauge", "untyped", "summary", "histogram", "histogram", "gaugehistogram"})
	f.name = genName(r, wf)
	if idx > 0 || r.Chance(30) {
		f.name += strconv.Itoa(idx)
	}
	if r.Chance(35) {
		u := h.Pick(r, units)
		f.unit = &u
		if r.Chance(92) {
			f.name += "_" + u
		}
		if r.Chance(5) {
			e := ""
			f.unit = &e
		}
	}
	if f.typ == "counter" && r.Chance(75) {
		f.name += "_total"
	}
	if r.Chance(75) {
		hl := h.Pick(r, helps)
		if strings.Trim(hl, " \t") == "" && hl != "" && !r.Chance(8) {
			hl = "plain help"
		}
		f.help = &hl
	}
	kind := kindOf(f.typ)
	nm := 1 + r.Intn(3)
	if r.Chance(3) {
		nm = 0
	}
	excl := ""
	if kind == "h" {
		excl = "le"
	}
	if kind == "s" {
		excl = "quantile"
	}
	for i := 0; i < nm; i++ {
		m := metricSpec{kind: kind, lbls: genLabels(r, 3, excl, wf), ts: genTs(r)}
		if i > 0 {
			m.lbls = append(m.lbls, lp{"idx", strconv.Itoa(i)})
		}
		if kind == "c" || kind == "s" || kind == "h" {
			if r.Chance(40) {
				s, n := genStamp(r)
				m.created = &[2]int64{s, int64(n)}
			}
		}
		switch kind {
		case "c":
			m.val = genFloat(r)
			m.ex = genEx(r, 35)
		case "g", "u":
			m.val = genFloat(r)
		case "s":
			m.count = h.Pick(r, counts)
			m.sum = genFloat(r)
			for j, nq := 0, r.Intn(4); j < nq; j++ {
				q := h.Pick(r, []uint64{0x3fe0000000000000, 0x3feccccccccccccd, 0x3fefae147ae147ae, 0x3ff0000000000000, 0, 0xbff0000000000000, 0x7ff8000000000001, 0x3fb999999999999a})
				if r.Chance(15) {
					q = genFloat(r)
				}
				m.quants = append(m.quants, [2]uint64{q, genFloat(r)})
			}
		case "h":
			m.count = h.Pick(r, counts)
			if r.Chance(8) {
				m.countF = math.Float64bits(float64(r.Range(1, 1000)) / 2)
			}
			m.sum = genFloat(r)
			nb := r.Intn(5)
			ub := float64(r.Range(-3, 2))
			var cum uint64
			for j := 0; j < nb; j++ {
				b := bucketSpec{ub: math.Float64bits(ub)}
				ub += float64(r.Range(1, 20)) / float64(h.PickI64(r, []int64{1, 2, 4, 10}))
				cum += uint64(r.Intn(5))
				b.cc = cum
				if r.Chance(6) {
					b.ub = genFloat(r)
				}
				if r.Chance(5) {
					b.ccf = math.Float64bits(float64(cum) + 0.5)
				}
				if j == nb-1 && r.Chance(50) {
					b.ub = 0x7ff0000000000000
				}
				b.ex = genEx(r, 25)
				m.buckets = append(m.buckets, b)
			}
		}
		f.metrics = append(f.metrics, m)
	}
	return f
}

// ---- mutation / raw payloads

var snippets = []string{
	"a 1\n", "a{b=\"c\"} 1 2\n", "a{b=\"c\",} 1\n", "a { b = \"c\" , } 1 5\n", "# HELP a x\n# TYPE a counter\na 1\n",
	"#comment\n", "# comment\n", "#\n", "# \n", "# HELP\n", "# HELP a\n", "# HELP a \n", "# TYPE a gauge \n", "# TYPE a  histogram\na_bucket{le=\"1\"} 2\n",
	"a 1 -5\n", "a 1 +5\n", "a +Inf\n", "a -inf\n", "a nan\n", "a NaN 1\n", "a 0x1p3\n", "a 1_0\n", "a 1e400\n", "a .5\n", "a 5.\n", "a .\n", "a 1e\n", "a infinity\n", "a +nan\n", "a inFiNity\n",
	"{\"a\"} 1\n", "{\"a.b\",c=\"d\"} 1\n", "{c=\"d\",\"a.b\"} 1\n", "{\"a\",\"b\"} 1\n", "{\"a\"=\"b\"} 1\n", "{} 1\n", "a{} 1\n", "a{\"b.c\"=\"d\"} 1\n",
	"a 1\n\x00b 2\n", "# \x00\n", "# H\x00ELP a b\n", "a{b=\"\x00c\"\x00} 1\n", "a{b=\"c\"\x00\x00,d=\"e\"} 1\n", "# HELP a \x00b\n",
	"# TYPE a summary\na{quantile=\"1\"} 1\na{quantile=\"0.50\"} 1\na{quantile=\"x\"} 1\na{quantile=\"1e3\"} 2\na{quantile=\"0x10\"} 2\na{quantile=\"1_0\"} 2\n",
	"# TYPE a histogram\na_bucket{le=\"-1\"} 1\na_bucket{le=\"+inf\"} 1\na_bucket{le=\"1e-7\"} 1\na_bucket{le=\"123456789\"} 1\na_bucket{le=\"0.1\"} 1\na_bucket{le=\"1e21\"} 1\na_bucket{le=\"100000\"} 1\na_bucket{le=\"1000000\"} 1\n",
	"a{b=\"\\\"\\\\\\n\\x\"} 1\n", "# TYPE a histogram\na_bucket{le=\"1_0\"} 1\na_bucket{le=\"_1\"} 1\na_bucket{le=\"1_\"} 1\na_bucket{le=\"1__0\"} 1\na_bucket{le=\"1_0.0_1e1_0\"} 1\na_bucket{le=\"1_.0\"} 1\na_bucket{le=\"in_f\"} 1\na_bucket{le=\"-1_0\"} 1\n", "a{b=\"c\"d=\"e\"} 1\n", "a{b=\"c\" d=\"e\"} 1\n", "a{,} 1\n", "a{b=\"c\",,} 1\n",
	"a\t1\t2\n", "a  1  2 \n", "a 1 2 3\n", "a\n", "a{b=\"c\"}\n", "a 1 99999999999999999999\n", "a 1 9223372036854775807\n",
	"# TYPE a_total counter\n# TYPE a weird\n", "# TYPE \"a.b\" counter\n# HELP \"a.b\" h\n{\"a.b\"} 1\n", "# TYPE \"a\\\"b\" counter\n",
	"a{b=\"\xff\"} 1\n", "# HELP a \xff\n", "a\xff 1\n", "a{le=\"1\"} 1\n",
}

var omSnippets = []string{
	"# EOF", "# EOF\n", "# EOF\n\n", "a 1\n# EOF\n", "a 1\n", "", "\n", "a 1 2\n# EOF\n", "a 1 2.5\n# EOF\n", "a 1 -2.5\n# EOF\n", "a 1 1e300\n# EOF\n", "a 1 NaN\n# EOF\n",
	"# TYPE a counter\n# HELP a h\n# UNIT a \na_total 1 # {t=\"x\"} 2 3\n# EOF\n", "# TYPE a counter\na_total 1 # {t=\"x\"} 2\n# EOF\n", "a 1 # {} 2\n# EOF\n",
	"a 1 #  {t=\"x\"} 2\n# EOF\n", "a 1 # x\n# EOF\n", "a 1 #x\n# EOF\n", "a 1 #\n# EOF\n", "a 1 # {\"t\"=\"x\"} 2\n# EOF\n", "a 1 # {\"t\"} 2\n# EOF\n",
	"# UNIT a_seconds seconds\n# EOF\n", "# UNIT a seconds\n# EOF\n", "# UNIT seconds seconds\n# EOF\n", "# UNIT _seconds seconds\n# EOF\n", "# UNIT a_seconds \n# EOF\n",
	"# TYPE a counter\na_total 1\na_created 1.5\n# EOF\n", "# TYPE a counter\na_total{b=\"c\"} 1\na_created{b=\"c\"} 1000\na_total{b=\"d\"} 2\na_created{b=\"d\"} 2000\n# EOF\n",
	"# TYPE a counter\na_total{b=\"c\"} 1\na_created{b=\"d\"} 1000\n# EOF\n", "# TYPE aaaaaaaaaaaaaaaaaaaaaaaaaaaaaaaaaaaaaaaa counter\nx 1\n# EOF\n",
	"# TYPE a summary\na{quantile=\"0.5\"} 1\na_sum 2\na_count 3\na_created 12.25\n# EOF\n", "# TYPE a histogram\na_bucket{le=\"1\"} 1\na_bucket{le=\"+Inf\"} 1\na_sum 2\na_count 1\na_created 1e9\n# TYPE b gauge\nb 1\n# EOF\n",
	"# TYPE a counter\n{\"a_total\",b=\"c\"} 1\n{\"a_created\",b=\"c\"} 5\n# EOF\n", "# TYPE \"a.b\" counter\n{\"a.b_total\"} 1\n{\"a.b_created\"} 5\n# EOF\n",
	"# TYPE abc counter\n{b=\"c\",\"abc_total\"} 1\n# EOF\n", "# TYPE a counter\na_created 5\n# EOF\n", "# TYPE a counter\na_total 1\n# TYPE b gauge\nb 1\n# EOF\n",
	"# TYPE a info\na_info{x=\"y\"} 1\n# TYPE b stateset\nb{b=\"x\"} 1\n# TYPE c gaugehistogram\nc_gcount 1\n# TYPE d unknown\nd 1\n# EOF\n",
	"# HELP a x\\\"y\\\\z\\nw\n# EOF\n", "# HELP a\n# EOF\n", "# HELP a \n# EOF\n", "# HELP a  two\n# EOF\n", "#  HELP a x\n# EOF\n", "# FOO\n# EOF\n", "#EOF\n",
	"a{b=\"c\",d=\"e\"} 1\n# EOF\n", "a{b=\"c\", d=\"e\"} 1\n# EOF\n", "a{b=\"c\"}  1\n# EOF\n", "a{b=\"c\"} 1 \n# EOF\n", "a\t1\n# EOF\n", "a 1\t2\n# EOF\n",
	"a{b=\"x\ny\"} 1\n# EOF\n", "a 1\n# EOF\nb 2\n", "a 1\n# EOF \n", "a 1\n\n# EOF\n", "# TYPE a counter\na_total 1 2 # {x=\"y\"} 3 4\n# EOF\n", "a 1 # {x=\"y\"} 3 4 5\n# EOF\n",
	"a 1 # {x=\"y\"} 3 NaN\n# EOF\n", "a 1 # {x=\"y\"} 3 1e400\n# EOF\n", "a 1 # {x=\"y\"} Inf\n# EOF\n", "a 1 # {x=\"y\"}\n# EOF\n",
	"# TYPE a counter\na_total 1 # {x=\"y\"} 1 1\na_created 7\n# EOF\n", "# TYPE a counter\na_total 1\nb 2\na_created 7\n# EOF\n",
	"# TYPE a counter\na_total 1\na_created 7", "# TYPE a counter\na_total 1\na_created 7\n", "# TYPE a counter\na_total 1\na_created x\n# EOF\n",
	"# TYPE a_created counter\na_created 1\na_created_created 7\n# EOF\n", "# TYPE a counter\na_total 1\n_created 7\n# EOF\n",
}

var mutBytes = []byte("\"\\{}=,# \n\t\x00aZ_:019.+-eEnN\x80\xff")

func mutate(r *h.Rng, b []byte) []byte {
	out := append([]byte(nil), b...)
	for k, n := 0, 1+r.Intn(3); k < n; k++ {
		if len(out) == 0 {
			out = append(out, h.Pick(r, mutBytes))
			continue
		}
		pos := r.Intn(len(out))
		switch r.Intn(6) {
		case 0, 1:
			out[pos] = h.Pick(r, mutBytes)
		case 2:
			out = append(out[:pos], append([]byte{h.Pick(r, mutBytes)}, out[pos:]...)...)
		case 3:
			out = append(out[:pos], out[pos+1:]...)
		case 4:
			if r.Chance(30) {
				out = out[:pos]
			} else {
				out[pos] ^= 1 << uint(r.Intn(8))
			}
		case 5:
			// duplicate or drop a whole line
			ls := bytes.SplitAfter(out, []byte("\n"))
			i := r.Intn(len(ls))
			var nb []byte
			for j, l := range ls {
				if j == i {
					if r.Bool() {
						nb = append(nb, l...)
						nb = append(nb, l...)
					}
					continue
				}
				nb = append(nb, l...)
			}
			out = nb
		}
	}
	return out
}

// ---------------------------------------------------------------- cases

func emitFamilies(c *h.Ctx, fams []*famSpec) []*famSpec {
	// write the lines, and rebuild the specs from the lines (the same path a replay takes)
	var back []*famSpec
	for _, f := range fams {
		l := f.line()
		c.Op(l, "-")
		nf := parseFamLine(strings.Fields(l))
		for i := range f.metrics {
			ml := f.metrics[i].line()
			c.Op(ml, "-")
			if m := parseMetricLine(strings.Fields(ml)); m != nil {
				nf.metrics = append(nf.metrics, *m)
			}
		}
		back = append(back, nf)
	}
	return back
}

func runFamilies(c *h.Ctx, fams []*famSpec, r *h.Rng) map[string][]byte {
	encs := map[string][]byte{}
	for _, w := range []string{"text", "om0", "om1"} {
		b, ok := encode(fams, w)
		if !ok {
			c.Op("enc "+w, "encerr")
			c.Count("enc:" + w + ":err")
			continue
		}
		c.Op("enc "+w, h.Hex(b))
		c.Count("enc:" + w + ":ok")
		encs[w] = b
	}
	if b, ok := encs["text"]; ok {
		doParse(c, popts{parser: "text", tu: false, src: "text"}, b)
		doParse(c, popts{parser: "text", tu: true, st: true, src: "text"}, b)
	}
	if b, ok := encs["om0"]; ok {
		doParse(c, popts{parser: "om", src: "om0"}, b)
		doParse(c, popts{parser: "om", tu: true, skip: true, st: true, src: "om0"}, b)
	}
	if b, ok := encs["om1"]; ok {
		doParse(c, popts{parser: "om", src: "om1"}, b)
		doParse(c, popts{parser: "om", skip: true, st: true, src: "om1"}, b)
		doParse(c, popts{parser: "om", skip: r.Bool(), st: r.Bool(), tu: r.Bool(), src: "om1"}, b)
	}
	if b, ok := encode(fams, "proto"); ok {
		doProto(c, false, b)
	}
	return encs
}

func replayCase(c *h.Ctx, lines []string) {
	var fams []*famSpec
	for _, l := range lines {
		tok := strings.Fields(l)
		if len(tok) == 0 {
			continue
		}
		switch tok[0] {
		case "fam":
			if f := parseFamLine(tok); f != nil {
				fams = append(fams, f)
				c.Op(f.line(), "-")
			}
		case "m":
			if m := parseMetricLine(tok); m != nil && len(fams) > 0 {
				fams[len(fams)-1].metrics = append(fams[len(fams)-1].metrics, *m)
				c.Op(m.line(), "-")
			}
		case "enc":
			if len(tok) != 2 {
				continue
			}
			b, ok := encode(fams, tok[1])
			if !ok {
				c.Op("enc "+tok[1], "encerr")
			} else {
				c.Op("enc "+tok[1], h.Hex(b))
			}
		case "parse":
			if len(tok) != 7 {
				continue
			}
			o := popts{parser: tok[1], tu: tok[2] == "tu=1", skip: tok[3] == "skip=1", st: tok[4] == "st=1", src: strings.TrimPrefix(tok[5], "src=")}
			payload := h.UnHex(tok[6])
			if o.src == "text" || o.src == "om0" || o.src == "om1" {
				// generated payloads are re-encoded from the (possibly shrunk) families
				b, ok := encode(fams, o.src)
				if !ok {
					continue
				}
				payload = b
			}
			doParse(c, o, payload)
		case "pproto":
			if len(tok) < 4 {
				continue
			}
			b, ok := encode(fams, "proto")
			if !ok {
				continue
			}
			doProto(c, tok[1] == "tu=1", b)
		}
	}
}

func main() {
	if os.Getenv("EXPO_WORKER") == "1" {
		workerMain()
		return
	}
	c := h.Init()
	defer stopWorker()
	if c.Replay != "" {
		for _, cs := range c.ReplayCases() {
			c.Case(strings.TrimPrefix(cs[0], "case "))
			replayCase(c, cs[1:])
		}
		c.Finish()
		return
	}
	r := c.Rng
	for i := 0; i < c.N; i++ {
		c.Case(fmt.Sprintf("%d-%d", c.Seed, i))
		switch k := r.Intn(10); {
		case k < 5:
			// generated families through all encoders and parsers
			wf := r.Chance(70)
			var fams []*famSpec
			for j, n := 0, 1+r.Intn(3); j < n; j++ {
				fams = append(fams, genFamily(r, j, wf))
			}
			fams = emitFamilies(c, fams)
			runFamilies(c, fams, r)
			var key strings.Builder
			for _, f := range fams {
				key.WriteString(f.line())
				for i := range f.metrics {
					key.WriteString(f.metrics[i].line())
				}
			}
			c.NonTrivial(key.String())
			c.Count("case:families")
		case k < 8:
			// mutated encoder output
			var fams []*famSpec
			for j, n := 0, 1+r.Intn(2); j < n; j++ {
				fams = append(fams, genFamily(r, j, true))
			}
			which := h.Pick(r, []string{"text", "om0", "om1", "om1"})
			b, ok := encode(fams, which)
			if !ok {
				b = []byte(h.Pick(r, snippets))
			}
			for j := 0; j < 3; j++ {
				mb := mutate(r, b)
				o := popts{parser: "text", tu: r.Chance(30), skip: r.Bool(), st: r.Chance(60), src: "mut"}
				if which != "text" && r.Chance(85) || which == "text" && r.Chance(15) {
					o.parser = "om"
				}
				doParse(c, o, mb)
				c.NonTrivial(o.opLine(mb))
			}
			c.Count("case:mutated")
		default:
			// hand-written tricky snippets, alone, concatenated and mutated
			for j := 0; j < 3; j++ {
				om := r.Bool()
				var b []byte
				pool := snippets
				if om {
					pool = omSnippets
				}
				b = []byte(h.Pick(r, pool))
				if r.Chance(40) {
					b2 := []byte(h.Pick(r, snippets))
					b = append(append([]byte(nil), b2...), b...)
				}
				if r.Chance(50) {
					b = mutate(r, b)
				}
				o := popts{parser: "text", tu: r.Chance(30), skip: r.Bool(), st: r.Chance(60), src: "raw"}
				if om {
					o.parser = "om"
				}
				doParse(c, o, b)
				if r.Chance(30) {
					o2 := o
					if o.parser == "om" {
						o2.parser = "text"
					} else {
						o2.parser = "om"
					}
					doParse(c, o2, b)
				}
				c.NonTrivial(o.opLine(b))
			}
			c.Count("case:snippets")
		}
	}
	c.Finish()
}
