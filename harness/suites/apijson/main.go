// Suite apijson (C51): the query API's JSON codec (web/api/v1/json_codec.go + util/jsonutil) on
// generated timestamps, floats, histograms, vectors, matrices, scalars and strings.
//
// ops (every op is independent; a case is a handful of ops):
//   ts <t>                      jsonutil.MarshalTimestamp on a jsoniter stream
//   fl <F>                      jsonutil.MarshalFloat
//   hist <H>                    jsonutil.MarshalHistogram
//   vector <sample>*            JSONCodec.Encode(&Response{Status:"success",Data:&QueryData{vector,…}})
//   matrix <series>*            … matrix
//   scalar <t> <TF> <F>         … scalar; TF = float64(t)/1000 with its shortest digits
//   string <t> <TF> <hex>       … string
// F      = <bits16hex>:<digits>:<exp>   digits/exp from strconv.FormatFloat(|f|,'e',-1,64) (d.ddd e exp);
//          NaN/Inf carry digits "-" and exp 0
// H      = <spec>|<countF>|<sumF>|<bucket>;<bucket>…      (bucket list "-" when empty)
// spec   = schema~zt~zc~pspans~nspans~pbuckets~nbuckets~custom   (bits in hex, lists joined by _ , spans off.len)
// bucket = <lowerF>,<upperF>,<li>,<ui>,<countF>   exactly what FloatHistogram.AllBucketIterator yields (incl. empty)
// sample = <labels>@<t>@f<F> | <labels>@<t>@h<H>
// series = <labels>(@<t>#f<F>)*(@<t>#h<H>)*
// labels = hexname:hexvalue,…  (sorted by name) | -
//
// out: <hex of the bytes written> <values recovered from those bytes by encoding/json + strconv + big.Rat>
package main

import (
	"bytes"
	"encoding/json"
	"fmt"
	"math"
	"math/big"
	"sort"
	"strconv"
	"strings"

	jsoniter "github.com/json-iterator/go"

	"github.com/prometheus/prometheus/model/histogram"
	"github.com/prometheus/prometheus/model/labels"
	"github.com/prometheus/prometheus/promql"
	"github.com/prometheus/prometheus/promql/parser"
	"github.com/prometheus/prometheus/util/jsonutil"
	v1 "github.com/prometheus/prometheus/web/api/v1"

	"verif/harness/h"
)

// ---------------------------------------------------------------- tokens

func fTok(f float64) string {
	bits := math.Float64bits(f)
	if math.IsNaN(f) || math.IsInf(f, 0) {
		return fmt.Sprintf("%016x:-:0", bits)
	}
	s := strconv.FormatFloat(math.Abs(f), 'e', -1, 64)
	i := strings.IndexByte(s, 'e')
	mant, exp := s[:i], s[i+1:]
	mant = strings.Replace(mant, ".", "", 1)
	e, err := strconv.Atoi(exp)
	if err != nil {
		panic(err)
	}
	return fmt.Sprintf("%016x:%s:%d", bits, mant, e)
}

func parseF(tok string) float64 {
	p := strings.SplitN(tok, ":", 2)
	b, err := strconv.ParseUint(p[0], 16, 64)
	if err != nil {
		panic(err)
	}
	return math.Float64frombits(b)
}

func bitsTok(f float64) string { return fmt.Sprintf("%016x", math.Float64bits(f)) }
func bitsOf(s string) float64 {
	b, err := strconv.ParseUint(s, 16, 64)
	if err != nil {
		panic(err)
	}
	return math.Float64frombits(b)
}

func specTok(fh *histogram.FloatHistogram) string {
	spans := func(ss []histogram.Span) string {
		if len(ss) == 0 {
			return "-"
		}
		var p []string
		for _, s := range ss {
			p = append(p, fmt.Sprintf("%d.%d", s.Offset, s.Length))
		}
		return strings.Join(p, "_")
	}
	fl := func(fs []float64) string {
		if len(fs) == 0 {
			return "-"
		}
		var p []string
		for _, f := range fs {
			p = append(p, bitsTok(f))
		}
		return strings.Join(p, "_")
	}
	return fmt.Sprintf("%d~%s~%s~%s~%s~%s~%s~%s", fh.Schema, bitsTok(fh.ZeroThreshold), bitsTok(fh.ZeroCount),
		spans(fh.PositiveSpans), spans(fh.NegativeSpans), fl(fh.PositiveBuckets), fl(fh.NegativeBuckets), fl(fh.CustomValues))
}

func parseSpec(spec string, count, sum float64) *histogram.FloatHistogram {
	p := strings.Split(spec, "~")
	if len(p) != 8 {
		panic("bad spec " + spec)
	}
	schema, err := strconv.Atoi(p[0])
	if err != nil {
		panic(err)
	}
	spans := func(s string) []histogram.Span {
		if s == "-" {
			return nil
		}
		var out []histogram.Span
		for _, x := range strings.Split(s, "_") {
			i := strings.LastIndexByte(x, '.')
			o, _ := strconv.Atoi(x[:i])
			l, _ := strconv.Atoi(x[i+1:])
			out = append(out, histogram.Span{Offset: int32(o), Length: uint32(l)})
		}
		return out
	}
	fl := func(s string) []float64 {
		if s == "-" {
			return nil
		}
		var out []float64
		for _, x := range strings.Split(s, "_") {
			out = append(out, bitsOf(x))
		}
		return out
	}
	return &histogram.FloatHistogram{Schema: int32(schema), ZeroThreshold: bitsOf(p[1]), ZeroCount: bitsOf(p[2]), Count: count, Sum: sum,
		PositiveSpans: spans(p[3]), NegativeSpans: spans(p[4]), PositiveBuckets: fl(p[5]), NegativeBuckets: fl(p[6]), CustomValues: fl(p[7])}
}

func b01(b bool) string {
	if b {
		return "1"
	}
	return "0"
}

// hTok renders the histogram with the bucket list its AllBucketIterator yields right now.
func hTok(fh *histogram.FloatHistogram) string {
	var bs []string
	it := fh.AllBucketIterator()
	for it.Next() {
		b := it.At()
		bs = append(bs, fmt.Sprintf("%s,%s,%s,%s,%s", fTok(b.Lower), fTok(b.Upper), b01(b.LowerInclusive), b01(b.UpperInclusive), fTok(b.Count)))
	}
	bl := "-"
	if len(bs) > 0 {
		bl = strings.Join(bs, ";")
	}
	return fmt.Sprintf("%s|%s|%s|%s", specTok(fh), fTok(fh.Count), fTok(fh.Sum), bl)
}

func parseH(tok string) *histogram.FloatHistogram {
	p := strings.Split(tok, "|")
	if len(p) != 4 {
		panic("bad hist " + tok)
	}
	return parseSpec(p[0], parseF(p[1]), parseF(p[2]))
}

type lbl struct{ n, v string }

func lTok(ls []lbl) string {
	if len(ls) == 0 {
		return "-"
	}
	var p []string
	for _, l := range ls {
		p = append(p, h.HexS(l.n)+":"+h.HexS(l.v))
	}
	return strings.Join(p, ",")
}

func parseL(tok string) labels.Labels {
	if tok == "-" {
		return labels.EmptyLabels()
	}
	var kv []string
	for _, x := range strings.Split(tok, ",") {
		p := strings.SplitN(x, ":", 2)
		kv = append(kv, string(h.UnHex(p[0])), string(h.UnHex(p[1])))
	}
	return labels.FromStrings(kv...)
}

// ---------------------------------------------------------------- independent decoding (encoding/json + strconv + big.Rat)

func recF(s string) string {
	f, err := strconv.ParseFloat(s, 64)
	if err != nil {
		return "badfloat"
	}
	if math.IsNaN(f) {
		return "nan"
	}
	return bitsTok(f)
}

// recT: exact decimal value of the JSON number times 1000, if that is an integer.
func recT(n json.Number) string {
	r, ok := new(big.Rat).SetString(string(n))
	if !ok {
		return "badnum"
	}
	r.Mul(r, big.NewRat(1000, 1))
	if !r.IsInt() {
		return "inexact"
	}
	return r.Num().String()
}

func recH(v any) string {
	m, ok := v.(map[string]any)
	if !ok {
		return "badhist"
	}
	c, ok1 := m["count"].(string)
	s, ok2 := m["sum"].(string)
	if !ok1 || !ok2 {
		return "badhist"
	}
	out := recF(c) + "|" + recF(s) + "|"
	bsv, has := m["buckets"]
	n := 2
	if has {
		n = 3
	}
	if len(m) != n {
		return "badhist"
	}
	if !has {
		return out + "-"
	}
	arr, ok := bsv.([]any)
	if !ok || len(arr) == 0 {
		return "badhist"
	}
	var bs []string
	for _, bv := range arr {
		b, ok := bv.([]any)
		if !ok || len(b) != 4 {
			return "badhist"
		}
		code, ok0 := b[0].(json.Number)
		lo, ok1 := b[1].(string)
		up, ok2 := b[2].(string)
		cn, ok3 := b[3].(string)
		if !ok0 || !ok1 || !ok2 || !ok3 {
			return "badhist"
		}
		var li, ui string
		switch string(code) { // the documented meaning of the boundary code
		case "0":
			li, ui = "0", "1"
		case "1":
			li, ui = "1", "0"
		case "2":
			li, ui = "0", "0"
		case "3":
			li, ui = "1", "1"
		default:
			return "badhist"
		}
		bs = append(bs, fmt.Sprintf("%s,%s,%s,%s,%s", recF(lo), recF(up), li, ui, recF(cn)))
	}
	return out + strings.Join(bs, ";")
}

func recL(v any) (string, bool) {
	m, ok := v.(map[string]any)
	if !ok {
		return "", false
	}
	var ls []lbl
	for k, x := range m {
		s, ok := x.(string)
		if !ok {
			return "", false
		}
		ls = append(ls, lbl{k, s})
	}
	sort.Slice(ls, func(i, j int) bool { return ls[i].n < ls[j].n })
	return lTok(ls), true
}

func decodeAny(b []byte) (any, bool) {
	d := json.NewDecoder(bytes.NewReader(b))
	d.UseNumber()
	var v any
	if err := d.Decode(&v); err != nil {
		return nil, false
	}
	if d.More() {
		return nil, false
	}
	return v, true
}

func recPoint(v any) (string, string, bool) { // [ts, "float"] or [ts, {hist}]
	a, ok := v.([]any)
	if !ok || len(a) != 2 {
		return "", "", false
	}
	n, ok := a[0].(json.Number)
	if !ok {
		return "", "", false
	}
	switch x := a[1].(type) {
	case string:
		return recT(n), "f" + recF(x), true
	case map[string]any:
		return recT(n), "h" + recH(x), true
	}
	return "", "", false
}

func recEnvelope(b []byte) string {
	v, ok := decodeAny(b)
	if !ok {
		return "undecodable"
	}
	top, ok := v.(map[string]any)
	if !ok || top["status"] != "success" || len(top) != 2 {
		return "badenvelope"
	}
	data, ok := top["data"].(map[string]any)
	if !ok || len(data) != 2 {
		return "badenvelope"
	}
	rt, _ := data["resultType"].(string)
	res := data["result"]
	var out []string
	switch rt {
	case "vector":
		arr, ok := res.([]any)
		if !ok {
			return "badenvelope"
		}
		for _, sv := range arr {
			s, ok := sv.(map[string]any)
			if !ok || len(s) != 2 {
				return "badsample"
			}
			ls, ok := recL(s["metric"])
			if !ok {
				return "badsample"
			}
			var pv any
			var want byte
			if x, has := s["value"]; has {
				pv, want = x, 'f'
			} else if x, has := s["histogram"]; has {
				pv, want = x, 'h'
			} else {
				return "badsample"
			}
			t, val, ok := recPoint(pv)
			if !ok || val[0] != want {
				return "badsample"
			}
			out = append(out, ls+"@"+t+"@"+val)
		}
	case "matrix":
		arr, ok := res.([]any)
		if !ok {
			return "badenvelope"
		}
		for _, sv := range arr {
			s, ok := sv.(map[string]any)
			if !ok {
				return "badseries"
			}
			ls, ok := recL(s["metric"])
			if !ok {
				return "badseries"
			}
			n := 1
			tok := ls
			for _, key := range []string{"values", "histograms"} {
				x, has := s[key]
				if !has {
					continue
				}
				n++
				pts, ok := x.([]any)
				if !ok || len(pts) == 0 {
					return "badseries"
				}
				for _, pv := range pts {
					t, val, ok := recPoint(pv)
					if !ok || (key == "values") != (val[0] == 'f') {
						return "badseries"
					}
					tok += "@" + t + "#" + val
				}
			}
			if len(s) != n {
				return "badseries"
			}
			out = append(out, tok)
		}
	case "scalar":
		t, val, ok := recPoint(res)
		if !ok || val[0] != 'f' {
			return "badscalar"
		}
		out = append(out, t, val[1:])
	case "string":
		a, ok := res.([]any)
		if !ok || len(a) != 2 {
			return "badstring"
		}
		n, ok1 := a[0].(json.Number)
		s, ok2 := a[1].(string)
		if !ok1 || !ok2 {
			return "badstring"
		}
		out = append(out, recT(n), h.HexS(s))
	default:
		return "badenvelope"
	}
	return strings.TrimSpace("rt=" + rt + " " + strings.Join(out, " "))
}

// ---------------------------------------------------------------- running the real code

func withStream(f func(s *jsoniter.Stream)) []byte {
	s := jsoniter.ConfigCompatibleWithStandardLibrary.BorrowStream(nil)
	defer jsoniter.ConfigCompatibleWithStandardLibrary.ReturnStream(s)
	f(s)
	return append([]byte(nil), s.Buffer()...)
}

func encode(rt parser.ValueType, v parser.Value) []byte {
	b, err := v1.JSONCodec{}.Encode(&v1.Response{Status: "success", Data: &v1.QueryData{ResultType: rt, Result: v}})
	if err != nil {
		return []byte("error")
	}
	return b
}

func parseTS(s string) int64 {
	t, err := strconv.ParseInt(s, 10, 64)
	if err != nil {
		panic(err)
	}
	return t
}

// runOp executes one op line against the real code; returns the canonical (re-derived) op line and output.
func runOp(op string) (string, string) {
	f := strings.Fields(op)
	switch f[0] {
	case "ts":
		t := parseTS(f[1])
		b := withStream(func(s *jsoniter.Stream) { jsonutil.MarshalTimestamp(t, s) })
		rec := "undecodable"
		if v, ok := decodeAny(b); ok {
			if n, ok := v.(json.Number); ok {
				rec = recT(n)
			}
		}
		return op, h.Hex(b) + " " + rec
	case "fl":
		x := parseF(f[1])
		b := withStream(func(s *jsoniter.Stream) { jsonutil.MarshalFloat(x, s) })
		rec := "undecodable"
		if v, ok := decodeAny(b); ok {
			if s, ok := v.(string); ok {
				rec = recF(s)
			}
		}
		return "fl " + fTok(x), h.Hex(b) + " " + rec
	case "hist":
		fh := parseH(f[1])
		b := withStream(func(s *jsoniter.Stream) { jsonutil.MarshalHistogram(fh, s) })
		rec := "undecodable"
		if v, ok := decodeAny(b); ok {
			rec = recH(v)
		}
		return "hist " + hTok(fh), h.Hex(b) + " " + rec
	case "vector":
		vec := promql.Vector{}
		toks := []string{"vector"}
		for _, st := range f[1:] {
			p := strings.SplitN(st, "@", 3)
			s := promql.Sample{Metric: parseL(p[0]), T: parseTS(p[1])}
			if p[2][0] == 'f' {
				s.F = parseF(p[2][1:])
				toks = append(toks, p[0]+"@"+p[1]+"@f"+fTok(s.F))
			} else {
				s.H = parseH(p[2][1:])
				toks = append(toks, p[0]+"@"+p[1]+"@h"+hTok(s.H))
			}
			vec = append(vec, s)
		}
		b := encode(parser.ValueTypeVector, vec)
		return strings.Join(toks, " "), h.Hex(b) + " " + recEnvelope(b)
	case "matrix":
		mat := promql.Matrix{}
		toks := []string{"matrix"}
		for _, st := range f[1:] {
			p := strings.Split(st, "@")
			s := promql.Series{Metric: parseL(p[0])}
			tok := p[0]
			for _, pt := range p[1:] {
				q := strings.SplitN(pt, "#", 2)
				t := parseTS(q[0])
				if q[1][0] == 'f' {
					x := parseF(q[1][1:])
					s.Floats = append(s.Floats, promql.FPoint{T: t, F: x})
					tok += "@" + q[0] + "#f" + fTok(x)
				} else {
					fh := parseH(q[1][1:])
					s.Histograms = append(s.Histograms, promql.HPoint{T: t, H: fh})
					tok += "@" + q[0] + "#h" + hTok(fh)
				}
			}
			mat = append(mat, s)
			toks = append(toks, tok)
		}
		b := encode(parser.ValueTypeMatrix, mat)
		return strings.Join(toks, " "), h.Hex(b) + " " + recEnvelope(b)
	case "scalar":
		t := parseTS(f[1])
		x := parseF(f[3])
		b := encode(parser.ValueTypeScalar, promql.Scalar{T: t, V: x})
		return fmt.Sprintf("scalar %d %s %s", t, fTok(float64(t)/1000), fTok(x)), h.Hex(b) + " " + recEnvelope(b)
	case "string":
		t := parseTS(f[1])
		s := string(h.UnHex(f[3]))
		b := encode(parser.ValueTypeString, promql.String{T: t, V: s})
		return fmt.Sprintf("string %d %s %s", t, fTok(float64(t)/1000), f[3]), h.Hex(b) + " " + recEnvelope(b)
	}
	panic("unknown op " + op)
}

func runCase(c *h.Ctx, ops []string) {
	for _, op := range ops {
		var cop, out string
		if p, v := h.Try(func() { cop, out = runOp(op) }); p {
			cop, out = op, "panic"
			_ = v
			c.Count("out:panic")
		}
		c.Count("op:" + strings.Fields(op)[0])
		c.Op(cop, out)
	}
}

// ---------------------------------------------------------------- generators

var tsEdges = []int64{math.MinInt64, math.MinInt64 + 1, math.MinInt64 + 808, math.MinInt64 + 809, -9223372036854775000, -9223372036854774999,
	-1000001, -1000000, -999999, -100000, -10001, -10000, -9999, -1001, -1000, -999, -101, -100, -99, -11, -10, -9, -1, 0, 1, 9, 10, 11, 99, 100, 101, 999, 1000, 1001,
	1010, 1100, 1999, 2000, 9999, 10000, 10001, 1435781451781, 1435781451000, 1 << 53, 1<<53 + 1, 1<<53 - 1, 8796093022208000, 8796093022208001, 8796093022207999,
	9223372036854775000, 9223372036854774999, math.MaxInt64 - 1, math.MaxInt64}

func genTS(r *h.Rng) int64 {
	switch r.Intn(10) {
	case 0, 1, 2:
		return h.PickI64(r, tsEdges)
	case 3:
		return r.Range(-2000, 2000)
	case 4:
		return int64(r.U64())
	case 5:
		return r.Range(-5, 5)*1000 + h.PickI64(r, []int64{0, 1, 9, 10, 99, 100, 999, -1, -10, -100})
	case 6:
		return int64(r.U64() >> uint(r.Intn(64)))
	case 7:
		return -int64(r.U64() >> uint(1+r.Intn(63)))
	default:
		return r.Range(1400000000000, 1800000000000)
	}
}

// API-reachable timestamps for scalar/string results (bounded so float64(t)/1000 is ms-exact) plus far ones.
func genScalarTS(r *h.Rng) int64 {
	switch r.Intn(8) {
	case 0:
		return h.PickI64(r, tsEdges)
	case 1:
		return int64(r.U64())
	case 2:
		return r.Range(-8796093022208000, 8796093022208000)
	default:
		t := genTS(r)
		if t > 8796093022208000 || t < -8796093022208000 {
			t /= 2048
		}
		return t
	}
}

func ulp(f float64, k int) float64 { return math.Float64frombits(uint64(int64(math.Float64bits(f)) + int64(k))) }

var fEdges = func() []float64 {
	base := []float64{0, math.Copysign(0, -1), 1, -1, 0.1, 0.5, 1.5, 2, 10, 100, 123.456, 1e-6, 1e21, 1e-7, 1e20, 1e22, 1e-5, 999999999999999868928, 1e15, 1e16, 1e17,
		math.MaxFloat64, math.SmallestNonzeroFloat64, 2.2250738585072014e-308, 2.225073858507201e-308, math.Float64frombits(0x000fffffffffffff),
		math.Inf(1), math.Inf(-1), math.NaN(), math.Float64frombits(0xfff8000000000001), math.Float64frombits(0x7ff0000000000001), math.Float64frombits(0x7ff8000000000000 | 0xdead),
		9007199254740992, 9007199254740993, 4503599627370496.5, 0.3, 1.0 / 3, 5e-324, 1e100, 1e-100, 1e23, 8.41e21, 2.5e-8, 0.000001, 0.0000011, 1234567, 42}
	var out []float64
	for _, b := range base {
		out = append(out, b, -b)
	}
	for _, c := range []float64{1e-6, 1e21, 1e-7, 1e20, 1, 1e22, 9.5e-7, 1e-5} {
		for k := -2; k <= 2; k++ {
			out = append(out, ulp(c, k), -ulp(c, k))
		}
	}
	return out
}()

func genF(r *h.Rng) float64 {
	switch r.Intn(12) {
	case 0, 1, 2:
		return h.Pick(r, fEdges)
	case 3:
		return math.Float64frombits(r.U64())
	case 4:
		return float64(r.Range(-1000, 1000))
	case 5:
		return float64(r.Range(-100000, 100000)) / 1000
	case 6: // near the 'f'/'e' switch points
		c := h.Pick(r, []float64{1e-6, 1e21})
		return ulp(c, int(r.Range(-40, 40))) * h.Pick(r, []float64{1, -1})
	case 7: // subnormals
		return math.Float64frombits(r.U64()>>uint(12+r.Intn(52))) * h.Pick(r, []float64{1, -1})
	case 8: // powers of ten, positive and negative exponents
		f, _ := strconv.ParseFloat(fmt.Sprintf("%de%d", r.Range(1, 9999), r.Range(-330, 310)), 64)
		return f * h.Pick(r, []float64{1, -1})
	case 9: // exponent range around the switches
		return math.Float64frombits(uint64(r.Range(0x3e8, 0x450))<<52|r.U64()>>12) * h.Pick(r, []float64{1, -1})
	case 10:
		return r.Float() * 10
	default:
		return math.Float64frombits(r.U64()>>uint(r.Intn(64))<<uint(r.Intn(40)))
	}
}

func genCount(r *h.Rng) float64 {
	switch r.Intn(8) {
	case 0:
		return 0
	case 1:
		return genF(r)
	case 2:
		return float64(r.Range(1, 5)) + 0.5
	default:
		return float64(r.Range(0, 50))
	}
}

func genSpans(r *h.Rng, first int32, maxBuckets int) ([]histogram.Span, int) {
	var spans []histogram.Span
	n := 0
	ns := r.Intn(4)
	for i := 0; i < ns && n < maxBuckets; i++ {
		off := int32(r.Range(0, 4))
		if i == 0 {
			off = first
		} else if r.Chance(20) {
			off = int32(r.Range(5, 300))
		}
		l := int(r.Range(1, 4))
		if n+l > maxBuckets {
			l = maxBuckets - n
		}
		spans = append(spans, histogram.Span{Offset: off, Length: uint32(l)})
		n += l
	}
	return spans, n
}

func genH(c *h.Ctx, r *h.Rng) *histogram.FloatHistogram {
	fh := &histogram.FloatHistogram{Count: genCount(r), Sum: genF(r)}
	kind := r.Intn(10)
	switch {
	case kind == 0: // empty
		c.Count("hist:empty")
		return fh
	case kind <= 3: // custom buckets
		c.Count("hist:custom")
		fh.Schema = histogram.CustomBucketsSchema
		n := r.Intn(6)
		cur := float64(r.Range(-10, 3))
		if r.Chance(15) {
			cur = genF(r)
			if math.IsNaN(cur) || math.IsInf(cur, 0) {
				cur = -2.5
			}
		}
		for i := 0; i < n; i++ {
			fh.CustomValues = append(fh.CustomValues, cur)
			cur += float64(r.Range(1, 8)) / 4
		}
		var nb int
		off := int32(0)
		if n > 0 && r.Chance(40) {
			off = int32(r.Intn(n + 1))
		}
		fh.PositiveSpans, nb = genSpansCustom(r, off, n+1)
		for i := 0; i < nb; i++ {
			fh.PositiveBuckets = append(fh.PositiveBuckets, genCount(r))
		}
		return fh
	default: // exponential
		c.Count("hist:exp")
		fh.Schema = int32(r.Range(-4, 8))
		if r.Chance(70) {
			fh.ZeroThreshold = h.Pick(r, []float64{0, 0.001, 0.5, 1, 1.2, 2.938735877055719e-39, 3})
			fh.ZeroCount = genCount(r)
			if fh.ZeroCount > 0 {
				c.Count("hist:zerobucket")
			}
		}
		first := func() int32 {
			if r.Chance(15) {
				return int32(r.Range(-3000, 3000))
			}
			return int32(r.Range(-12, 12))
		}
		if r.Chance(80) {
			var nb int
			fh.PositiveSpans, nb = genSpans(r, first(), 8)
			for i := 0; i < nb; i++ {
				fh.PositiveBuckets = append(fh.PositiveBuckets, genCount(r))
			}
		}
		if r.Chance(60) {
			var nb int
			fh.NegativeSpans, nb = genSpans(r, first(), 8)
			for i := 0; i < nb; i++ {
				fh.NegativeBuckets = append(fh.NegativeBuckets, genCount(r))
			}
			if nb > 0 {
				c.Count("hist:negbuckets")
			}
		}
		return fh
	}
}

// custom-bucket spans must stay inside [0, nBounds]
func genSpansCustom(r *h.Rng, first int32, total int) ([]histogram.Span, int) {
	var spans []histogram.Span
	pos, n := int(first), 0
	if pos >= total {
		return nil, 0
	}
	for i := 0; i < 3 && pos < total; i++ {
		off := 0
		if i == 0 {
			off = int(first)
		} else {
			off = int(r.Range(1, 2))
			pos += off
			if pos >= total {
				break
			}
		}
		l := int(r.Range(1, int64(total-pos)))
		spans = append(spans, histogram.Span{Offset: int32(off), Length: uint32(l)})
		pos += l
		n += l
	}
	return spans, n
}

var strPieces = []string{"a", "job", "__name__", "instance", "le", "up", "x", "0", "_", ":", " ", "\"", "\\", "/", "<", ">", "&", "'", "\x00", "\x01", "\x07", "\b", "\t", "\n", "\f", "\r",
	"\x1b", "\x1f", "\x7f", "é", "ß", "世界", " ", " ", "�", "\u0080", "߿", "ࠀ", "￿", "😀", "\U0010ffff", "{", "}", "[", "]", ",", "=", "\\u0041", "\\n", "localhost:9090"}

func genStr(r *h.Rng) string {
	n := r.Intn(5)
	if r.Chance(10) {
		n = r.Intn(12)
	}
	var sb strings.Builder
	for i := 0; i < n; i++ {
		if r.Chance(15) {
			sb.WriteByte(byte(r.Intn(128)))
		} else {
			sb.WriteString(h.Pick(r, strPieces))
		}
	}
	return sb.String()
}

func genLabels(r *h.Rng) []lbl {
	n := r.Intn(4)
	seen := map[string]bool{}
	var ls []lbl
	for i := 0; i < n; i++ {
		name := genStr(r)
		if seen[name] {
			continue
		}
		seen[name] = true
		ls = append(ls, lbl{name, genStr(r)})
	}
	sort.Slice(ls, func(i, j int) bool { return ls[i].n < ls[j].n })
	return ls
}

func genOp(c *h.Ctx, r *h.Rng) string {
	switch k := r.Intn(20); {
	case k < 4:
		return fmt.Sprintf("ts %d", genTS(r))
	case k < 8:
		return "fl " + fTok(genF(r))
	case k < 10:
		return "hist " + hTok(genH(c, r))
	case k < 14:
		n := r.Intn(4)
		toks := []string{"vector"}
		for i := 0; i < n; i++ {
			if r.Chance(65) {
				toks = append(toks, fmt.Sprintf("%s@%d@f%s", lTok(genLabels(r)), genTS(r), fTok(genF(r))))
			} else {
				toks = append(toks, fmt.Sprintf("%s@%d@h%s", lTok(genLabels(r)), genTS(r), hTok(genH(c, r))))
			}
		}
		return strings.Join(toks, " ")
	case k < 17:
		n := r.Intn(3)
		toks := []string{"matrix"}
		for i := 0; i < n; i++ {
			tok := lTok(genLabels(r))
			nf, nh := r.Intn(4), 0
			if r.Chance(35) {
				nh = r.Intn(3)
			}
			if r.Chance(15) {
				nf = 0
			}
			for j := 0; j < nf; j++ {
				tok += fmt.Sprintf("@%d#f%s", genTS(r), fTok(genF(r)))
			}
			for j := 0; j < nh; j++ {
				tok += fmt.Sprintf("@%d#h%s", genTS(r), hTok(genH(c, r)))
			}
			toks = append(toks, tok)
		}
		return strings.Join(toks, " ")
	case k < 19:
		t := genScalarTS(r)
		return fmt.Sprintf("scalar %d %s %s", t, fTok(float64(t)/1000), fTok(genF(r)))
	default:
		t := genScalarTS(r)
		return fmt.Sprintf("string %d %s %s", t, fTok(float64(t)/1000), h.HexS(genStr(r)))
	}
}

func main() {
	c := h.Init()
	defer c.Finish()
	if c.Replay != "" {
		for _, cs := range c.ReplayCases() {
			c.Case(strings.TrimPrefix(cs[0], "case "))
			runCase(c, cs[1:])
		}
		return
	}
	r := c.Rng
	// Stream 1: every boundary timestamp and float once (deterministic).
	c.Case("edges-ts")
	var ops []string
	for _, t := range tsEdges {
		ops = append(ops, fmt.Sprintf("ts %d", t))
	}
	runCase(c, ops)
	c.Case("edges-fl")
	ops = nil
	for _, f := range fEdges {
		ops = append(ops, "fl "+fTok(f))
	}
	runCase(c, ops)
	// Stream 2: random cases of 1-6 independent ops.
	for i := 0; i < c.N; i++ {
		c.Case(fmt.Sprintf("r%d", i))
		n := 1 + r.Intn(6)
		ops = nil
		for k := 0; k < n; k++ {
			ops = append(ops, genOp(c, r))
		}
		c.NonTrivial(strings.Join(ops, ";"))
		runCase(c, ops)
	}
}
