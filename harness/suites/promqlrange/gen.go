package main

import (
	"fmt"
	"math"
	"strconv"
	"strings"

	"verif/harness/h"
)

const staleBits = 0x7ff0000000000002

// ---------------------------------------------------------------- data

type gctx struct {
	r      *h.Rng
	c      *h.Ctx
	t0, t1 int64   // data span
	ats    []int64 // interesting absolute times (sample timestamps, edges)
	hasNH  bool
	core   bool // restrict to the Lean-modelled core language
	// parameter series kk / kr / kq (see params.go): sample interval and the samples of each
	piv      int64
	lookback int64
	pser     map[string][]ppoint
}

func fbits(f float64) uint64 { return math.Float64bits(f) }

func genValue(r *h.Rng, kind int) float64 {
	switch x := r.Intn(100); {
	case x < 55:
		return float64(r.Range(0, 3)) // tiny domain: ties between series are common
	case x < 70:
		return float64(r.Range(-4, 12))
	case x < 85:
		return float64(r.Range(-64, 640)) / float64(int64(1)<<uint(r.Range(0, 4)))
	case x < 88 && kind == 1:
		return math.NaN()
	case x < 90 && kind == 1:
		return math.Inf(1)
	case x < 91 && kind == 1:
		return math.Inf(-1)
	case x < 93 && kind == 1:
		return 0.1 * float64(r.Range(1, 50))
	default:
		return float64(r.Range(0, 100))
	}
}

// genTimes: irregular scrape timestamps with jitter, gaps longer than the lookback, and clusters.
func genTimes(g *gctx, base int64, lookback int64) []int64 {
	r := g.r
	iv := h.PickI64(r, []int64{5000, 10000, 15000, 15000, 30000})
	t := g.t0 + r.Range(0, iv)
	if r.Chance(30) {
		t = g.t0 + r.Range(0, (g.t1-g.t0)/2) // series starts late
	}
	end := g.t1
	if r.Chance(25) {
		end = g.t0 + r.Range((g.t1-g.t0)/2, g.t1-g.t0) // series ends early
	}
	var ts []int64
	for t <= end && len(ts) < 80 {
		ts = append(ts, t)
		switch x := r.Intn(100); {
		case x < 60:
			t += iv
		case x < 75:
			t += iv + r.Range(-iv/10, iv/10)
		case x < 82:
			t += 2 * iv
		case x < 88:
			t += lookback + r.Range(-2, 2) // gap right at the lookback boundary
		case x < 92:
			t += lookback + r.Range(1, 3*iv)
		case x < 96:
			t += r.Range(1, 3)
		default:
			t += r.Range(1, 3*iv)
		}
	}
	_ = base
	return ts
}

func (g *gctx) series(name, lbls string, lookback int64, counter bool, core bool) string {
	r := g.r
	ts := genTimes(g, g.t0, lookback)
	kind := 0
	if !core && r.Chance(25) {
		kind = 1
	}
	var parts []string
	v := float64(r.Range(0, 5))
	for i, t := range ts {
		if counter {
			if r.Chance(8) {
				v = float64(r.Range(0, 2))
			} else if !r.Chance(15) {
				v += float64(r.Range(0, 16)) / float64(int64(1)<<uint(r.Range(0, 2)))
			}
		} else if !r.Chance(35) { // repeats are common
			v = genValue(r, kind)
		}
		bits := fbits(v)
		if i > 0 && r.Chance(7) {
			bits = staleBits
		}
		if r.Chance(30) {
			g.ats = append(g.ats, t)
		}
		parts = append(parts, fmt.Sprintf("%d:%016x", t, bits))
	}
	p := "-"
	if len(parts) > 0 {
		p = strings.Join(parts, ",")
	}
	return fmt.Sprintf("ser %s %s %s", name, lbls, p)
}

func (g *gctx) hseries(name, lbls string, lookback int64) string {
	r := g.r
	ts := genTimes(g, g.t0, lookback)
	var parts []string
	k := r.Range(0, 3)
	for i, t := range ts {
		if r.Chance(10) {
			k = r.Range(0, 2)
		} else if !r.Chance(20) {
			k += r.Range(0, 2)
		}
		if i > 0 && r.Chance(6) {
			parts = append(parts, fmt.Sprintf("%d:-1", t))
			continue
		}
		parts = append(parts, fmt.Sprintf("%d:%d", t, k))
	}
	p := "-"
	if len(parts) > 0 {
		p = strings.Join(parts, ",")
	}
	return fmt.Sprintf("hser %s %s %s", name, lbls, p)
}

// ---------------------------------------------------------------- queries

var rangePool = []int64{1000, 5000, 10000, 15000, 20000, 30000, 45000, 60000, 61000, 90000, 120000, 300000}
var offPool = []int64{1000, 5000, 10000, 15000, 30000, 60000, 1, 999, 120000, -5000, -15000, -30000, -1}

func num(f float64) *Node { return &Node{K: "num", Bits: fbits(f)} }

func (g *gctx) pickAt() string {
	r := g.r
	switch x := r.Intn(100); {
	case x < 78:
		return "-"
	case x < 90:
		if len(g.ats) > 0 && r.Chance(60) {
			return strconv.FormatInt(h.PickI64(r, g.ats)+r.Range(-1, 1)*int64(r.Intn(2)), 10)
		}
		return strconv.FormatInt(r.Range(g.t0-30000, g.t1+30000), 10)
	case x < 95:
		return "start"
	default:
		return "end"
	}
}

func (g *gctx) pickOff() int64 {
	if g.r.Chance(70) {
		return 0
	}
	return h.PickI64(g.r, offPool)
}

type vexpr struct {
	n      *Node
	schema string // label names besides __name__: "ab" "a" "b" "" "ale" "other"
	hist   bool   // native histogram valued
}

func (g *gctx) matchers(schema string) string {
	r := g.r
	if r.Chance(65) {
		return "-"
	}
	var ms []string
	if strings.Contains(schema, "a") {
		switch r.Intn(5) {
		case 0:
			ms = append(ms, "a=x")
		case 1:
			ms = append(ms, "a!x")
		case 2:
			if !g.core {
				ms = append(ms, "a~x|y")
			} else {
				ms = append(ms, "a=y")
			}
		case 3:
			if !g.core {
				ms = append(ms, "a^z")
			}
		}
	}
	if schema == "ab" && r.Chance(40) {
		ms = append(ms, "b="+h.Pick(r, []string{"p", "q"}))
	}
	if len(ms) == 0 {
		return "-"
	}
	return strings.Join(ms, ",")
}

func (g *gctx) selector(want string) vexpr {
	r := g.r
	var name, schema string
	hist := false
	switch want {
	case "a":
		name, schema = "c_total", "a"
		if g.hasNH && !g.core && r.Chance(25) {
			name, hist = "nh", true
		}
	case "ab":
		name, schema = h.Pick(r, []string{"m1", "m2"}), "ab"
	default:
		switch x := r.Intn(100); {
		case x < 40:
			name, schema = "m1", "ab"
		case x < 70:
			name, schema = "m2", "ab"
		case x < 90 || !g.hasNH || g.core:
			name, schema = "c_total", "a"
		default:
			name, schema, hist = "nh", "a", true
		}
	}
	return vexpr{&Node{K: "sel", Name: name, Ms: g.matchers(schema), Off: g.pickOff(), At: g.pickAt()}, schema, hist}
}

func (g *gctx) matrixOf(depth int, want string) (*Node, string, bool) {
	r := g.r
	if depth > 0 && r.Chance(45) {
		inner := g.genV(depth-1, want)
		st := h.PickI64(r, []int64{0, 1000, 5000, 7000, 10000, 15000, 30000})
		rg := h.PickI64(r, rangePool)
		if st > 0 && rg/st > 40 {
			rg = st * 40
		}
		if st == 0 && rg/15000 > 40 {
			rg = 300000
		}
		g.c.Count("q:subquery")
		return &Node{K: "subq", Range: rg, Step: st, Off: g.pickOff(), At: g.pickAt(), Args: []*Node{inner.n}}, inner.schema, inner.hist
	}
	s := g.selector(want)
	n := *s.n
	n.K = "msel"
	n.Range = h.PickI64(r, rangePool)
	return &n, s.schema, s.hist
}

var overTimeCore = []string{"count_over_time", "sum_over_time", "min_over_time", "max_over_time", "last_over_time"}
var overTimeFloat = []string{"count_over_time", "sum_over_time", "min_over_time", "max_over_time", "last_over_time", "avg_over_time",
	"stddev_over_time", "stdvar_over_time", "present_over_time", "rate", "increase", "delta", "irate", "idelta", "changes", "resets", "deriv",
	"first_over_time", "ts_of_last_over_time", "ts_of_max_over_time", "mad_over_time"}
var overTimeHist = []string{"count_over_time", "last_over_time", "sum_over_time", "avg_over_time", "rate", "increase", "irate", "present_over_time", "changes", "resets"}
var elemFns = []string{"abs", "ceil", "floor", "sgn", "exp", "sqrt", "round", "sort", "sort_desc"}
var aggPlain = []string{"sum", "avg", "min", "max", "count", "group", "stddev", "stdvar"}
var aggCore = []string{"sum", "min", "max", "count"}
var arith = []string{"+", "-", "*", "/", "%", "^"}
var cmp = []string{"==", "!=", ">", "<", ">=", "<="}

func grouping(r *h.Rng, schema string) (grp, gl, out string) {
	if schema != "ab" && schema != "a" {
		if r.Chance(50) {
			return "-", "-", ""
		}
		return "wo", "-", schema
	}
	switch x := r.Intn(100); {
	case x < 25:
		return "-", "-", ""
	case x < 45:
		return "by", "a", "a"
	case x < 55 && schema == "ab":
		return "by", "b", "b"
	case x < 65 && schema == "ab":
		return "by", "a,b", "ab"
	case x < 80 && schema == "ab":
		return "wo", "b", "a"
	case x < 88 && schema == "ab":
		return "wo", "a", "b"
	case x < 94:
		return "wo", "-", schema
	default:
		return "by", "-", ""
	}
}

func (g *gctx) genV(depth int, want string) vexpr {
	for try := 0; try < 12; try++ {
		v := g.genV1(depth, want)
		if want == "" || v.schema == want {
			return v
		}
	}
	return g.selector(want)
}

func (g *gctx) genV1(depth int, want string) vexpr {
	r := g.r
	if depth <= 0 {
		return g.selector(want)
	}
	if g.core {
		switch x := r.Intn(100); {
		case x < 20:
			return g.selector(want)
		case x < 40:
			m, sch, _ := g.matrixOf(depth, want)
			return vexpr{&Node{K: "call", Fn: h.Pick(r, overTimeCore), Args: []*Node{m}}, sch, false}
		case x < 60:
			in := g.genV(depth-1, "")
			grp, gl, out := grouping(r, in.schema)
			return vexpr{&Node{K: "agg", Fn: h.Pick(r, aggCore), Grp: grp, GL: gl, Args: []*Node{in.n}}, out, false}
		case x < 80:
			in := g.genV(depth-1, want)
			s := g.genS(depth-1)
			op := h.Pick(r, []string{"+", "-", "*", ">", "<", ">=", "==", "!="})
			b := strings.ContainsAny(op, "<>=!") && r.Chance(40)
			if r.Bool() {
				return vexpr{&Node{K: "bin", Fn: op, Bool: b, MK: "-", ML: "-", Card: "11", Incl: "-", Args: []*Node{in.n, s}}, in.schema, false}
			}
			return vexpr{&Node{K: "bin", Fn: op, Bool: b, MK: "-", ML: "-", Card: "11", Incl: "-", Args: []*Node{s, in.n}}, in.schema, false}
		default:
			l := g.genV(depth-1, want)
			rr := g.genV(depth-1, l.schema)
			op := h.Pick(r, []string{"+", "-", "*", ">", "<", "=="})
			b := strings.ContainsAny(op, "<>=!") && r.Chance(40)
			return vexpr{&Node{K: "bin", Fn: op, Bool: b, MK: "-", ML: "-", Card: "11", Incl: "-", Args: []*Node{l.n, rr.n}}, l.schema, false}
		}
	}
	switch x := r.Intn(100); {
	case x < 10:
		return g.selector(want)
	case x < 28: // range-vector function
		m, sch, hist := g.matrixOf(depth, want)
		if hist {
			fn := h.Pick(r, overTimeHist)
			return vexpr{&Node{K: "call", Fn: fn, Args: []*Node{m}}, sch, fn != "count_over_time" && fn != "present_over_time" && fn != "changes" && fn != "resets"}
		}
		switch y := r.Intn(100); {
		case y < 8:
			if r.Chance(50) {
				return vexpr{&Node{K: "call", Fn: "quantile_over_time", Args: []*Node{g.varParam("q"), m}}, sch, false}
			}
			return vexpr{&Node{K: "call", Fn: "quantile_over_time", Args: []*Node{g.genS(depth - 1), m}}, sch, false}
		case y < 14:
			return vexpr{&Node{K: "call", Fn: "predict_linear", Args: []*Node{m, g.genS(depth - 1)}}, sch, false}
		case y < 17:
			return vexpr{&Node{K: "call", Fn: "absent_over_time", Args: []*Node{m}}, "other", false}
		}
		return vexpr{&Node{K: "call", Fn: h.Pick(r, overTimeFloat), Args: []*Node{m}}, sch, false}
	case x < 46: // aggregation
		in := g.genV(depth-1, "")
		grp, gl, out := grouping(r, in.schema)
		if in.hist {
			fn := h.Pick(r, []string{"sum", "avg", "count", "group"})
			return vexpr{&Node{K: "agg", Fn: fn, Grp: grp, GL: gl, Args: []*Node{in.n}}, out, fn == "sum" || fn == "avg"}
		}
		switch y := r.Intn(100); {
		case y < 30:
			op := h.Pick(r, []string{"topk", "bottomk", "limitk"})
			// k-selecting aggregations over a non-selector operand are order-sensitive (finding F12): keep them
			// where a tie only permutes series (outermost / under element-wise nodes), which is what the caller does
			// by never nesting them under another aggregation: see noKSel.
			g.c.Count("q:" + op)
			return vexpr{&Node{K: "agg", Fn: op, Grp: grp, GL: gl, Param: g.aggParam("k", depth-1), Args: []*Node{in.n}}, in.schema, false}
		case y < 36:
			return vexpr{&Node{K: "agg", Fn: "quantile", Grp: grp, GL: gl, Param: g.aggParam("q", depth-1), Args: []*Node{in.n}}, out, false}
		case y < 42:
			return vexpr{&Node{K: "agg", Fn: "count_values", Grp: grp, GL: gl, Param: &Node{K: "str", Strs: []string{"v"}}, Args: []*Node{in.n}}, "other", false}
		case y < 47:
			return vexpr{&Node{K: "agg", Fn: "limit_ratio", Grp: grp, GL: gl, Param: g.aggParam("r", depth-1), Args: []*Node{in.n}}, in.schema, false}
		}
		return vexpr{&Node{K: "agg", Fn: h.Pick(r, aggPlain), Grp: grp, GL: gl, Args: []*Node{in.n}}, out, false}
	case x < 58: // vector-scalar
		in := g.genV(depth-1, want)
		s := g.genS(depth - 1)
		var op string
		b := false
		if in.hist {
			op = h.Pick(r, []string{"*", "/"})
			return vexpr{&Node{K: "bin", Fn: op, MK: "-", ML: "-", Card: "11", Incl: "-", Args: []*Node{in.n, s}}, in.schema, true}
		}
		if r.Chance(55) {
			op = h.Pick(r, arith)
		} else {
			op = h.Pick(r, cmp)
			b = r.Chance(40)
		}
		if r.Bool() {
			return vexpr{&Node{K: "bin", Fn: op, Bool: b, MK: "-", ML: "-", Card: "11", Incl: "-", Args: []*Node{in.n, s}}, in.schema, false}
		}
		return vexpr{&Node{K: "bin", Fn: op, Bool: b, MK: "-", ML: "-", Card: "11", Incl: "-", Args: []*Node{s, in.n}}, in.schema, false}
	case x < 76: // vector-vector
		l := g.genV(depth-1, want)
		if l.hist {
			rr := g.genV(depth-1, l.schema)
			if rr.hist {
				return vexpr{&Node{K: "bin", Fn: h.Pick(r, []string{"+", "-"}), MK: "-", ML: "-", Card: "11", Incl: "-", Args: []*Node{l.n, rr.n}}, l.schema, true}
			}
			return l
		}
		sch := strings.TrimSuffix(l.schema, "!k")
		n := &Node{K: "bin", MK: "-", ML: "-", Card: "11", Incl: "-"}
		outSchema := l.schema
		y := r.Intn(100)
		switch {
		case y < 30: // set operators
			n.Fn = h.Pick(r, []string{"and", "or", "unless"})
			rr := g.genV(depth-1, "")
			if rr.hist {
				rr = g.selector("ab")
			}
			rs := strings.TrimSuffix(rr.schema, "!k")
			if rs != sch {
				if strings.Contains(sch, "a") && strings.Contains(rs, "a") {
					n.MK, n.ML = "on", "a"
				} else {
					n.MK, n.ML = "on", "-"
				}
			} else if r.Chance(30) && sch == "ab" {
				n.MK, n.ML = h.Pick(r, []string{"on", "ign"}), h.Pick(r, []string{"a", "b"})
			}
			n.Args = []*Node{l.n, rr.n}
			if n.Fn == "or" && rs != sch {
				outSchema = "other"
			}
		default:
			if r.Chance(60) {
				n.Fn = h.Pick(r, arith)
			} else {
				n.Fn = h.Pick(r, cmp)
				n.Bool = r.Chance(40)
			}
			switch {
			case sch == "ab" && y < 50:
				rr := g.genV(depth-1, "a")
				if rr.hist {
					rr = vexpr{&Node{K: "sel", Name: "c_total", Ms: "-", At: "-"}, "a", false}
				}
				if r.Bool() {
					n.MK, n.ML = "on", "a"
				} else {
					n.MK, n.ML = "ign", "b"
				}
				n.Card = "gl"
				n.Args = []*Node{l.n, rr.n}
			case sch == "a" && y < 50:
				rr := g.genV(depth-1, "ab")
				n.MK, n.ML, n.Card = "on", "a", "gr"
				n.Args = []*Node{l.n, rr.n}
				outSchema = "ab"
			default:
				rr := g.genV(depth-1, l.schema)
				if rr.hist {
					rr = g.selector("ab")
				}
				if strings.TrimSuffix(rr.schema, "!k") != sch {
					n.MK, n.ML = "on", "a"
					if !(n.Fn[0] == '=' || n.Fn[0] == '!' || n.Fn[0] == '<' || n.Fn[0] == '>') || n.Bool {
						outSchema = "a"
					}
				} else if sch == "ab" && r.Chance(20) {
					n.MK, n.ML = h.Pick(r, []string{"on", "ign"}), h.Pick(r, []string{"a", "b", "a,b"})
					outSchema = "other"
				}
				n.Args = []*Node{l.n, rr.n}
			}
		}
		return vexpr{n, outSchema, false}
	case x < 92: // functions of instant vectors
		in := g.genV(depth-1, want)
		if in.hist {
			fn := h.Pick(r, []string{"histogram_count", "histogram_sum", "histogram_avg", "histogram_quantile", "histogram_fraction"})
			switch fn {
			case "histogram_quantile":
				return vexpr{&Node{K: "call", Fn: fn, Args: []*Node{num(h.Pick(r, []float64{0.5, 0.9, 0, 1})), in.n}}, in.schema, false}
			case "histogram_fraction":
				return vexpr{&Node{K: "call", Fn: fn, Args: []*Node{num(0), num(2), in.n}}, in.schema, false}
			}
			return vexpr{&Node{K: "call", Fn: fn, Args: []*Node{in.n}}, in.schema, false}
		}
		switch y := r.Intn(100); {
		case y < 12:
			return vexpr{&Node{K: "call", Fn: "timestamp", Args: []*Node{in.n}}, in.schema, false}
		case y < 22:
			return vexpr{&Node{K: "call", Fn: "absent", Args: []*Node{in.n}}, "other", false}
		case y < 32:
			return vexpr{&Node{K: "call", Fn: "clamp", Args: []*Node{in.n, g.genS(depth - 1), g.genS(depth - 1)}}, in.schema, false}
		case y < 40:
			return vexpr{&Node{K: "call", Fn: h.Pick(r, []string{"clamp_min", "clamp_max"}), Args: []*Node{in.n, g.genS(depth - 1)}}, in.schema, false}
		case y < 52:
			// injective: new label c copied from a
			return vexpr{&Node{K: "call", Fn: "label_replace", Strs: []string{"c", "$1", "a", "(.*)"}, Args: []*Node{in.n}}, "other", false}
		case y < 57:
			return vexpr{&Node{K: "call", Fn: "label_join", Strs: []string{"c", "-", "a", "b"}, Args: []*Node{in.n}}, "other", false}
		case y < 67:
			// classic histogram quantile over bucket series (rate or raw)
			var b *Node
			if r.Bool() {
				b = &Node{K: "sel", Name: "hb_bucket", Ms: "-", Off: g.pickOff(), At: g.pickAt()}
			} else {
				b = &Node{K: "call", Fn: "rate", Args: []*Node{{K: "msel", Name: "hb_bucket", Ms: "-", Off: g.pickOff(), At: g.pickAt(), Range: h.PickI64(r, rangePool)}}}
			}
			if r.Chance(40) {
				b = &Node{K: "agg", Fn: "sum", Grp: "by", GL: "le", Args: []*Node{b}}
				return vexpr{&Node{K: "call", Fn: "histogram_quantile", Args: []*Node{num(h.Pick(r, []float64{0.5, 0.9, 0.99})), b}}, "", false}
			}
			if r.Chance(40) {
				return vexpr{&Node{K: "call", Fn: "histogram_quantile", Args: []*Node{g.varParam("q"), b}}, "a", false}
			}
			return vexpr{&Node{K: "call", Fn: "histogram_quantile", Args: []*Node{g.genS(0), b}}, "a", false}
		}
		return vexpr{&Node{K: "call", Fn: h.Pick(r, elemFns), Args: []*Node{in.n}}, in.schema, false}
	case x < 96:
		in := g.genV(depth-1, want)
		return vexpr{&Node{K: "neg", Args: []*Node{in.n}}, in.schema, in.hist}
	default:
		return vexpr{&Node{K: "call", Fn: "vector", Args: []*Node{g.genS(depth - 1)}}, "", false}
	}
}

func (g *gctx) genS(depth int) *Node {
	r := g.r
	x := r.Intn(100)
	if depth <= 0 && x >= 60 {
		x = r.Intn(60)
	}
	switch {
	case x < 40:
		if g.core {
			return num(float64(r.Range(-3, 6)))
		}
		switch y := r.Intn(100); {
		case y < 70:
			return num(float64(r.Range(-3, 6)))
		case y < 85:
			return num(h.Pick(r, []float64{0.5, 0.25, 1.5, 0.9, 100, 1e6}))
		case y < 90:
			return num(math.NaN())
		case y < 95:
			return num(math.Inf(1))
		default:
			return num(math.Copysign(0, -1))
		}
	case x < 60:
		return &Node{K: "call", Fn: "time"}
	case x < 80:
		if g.core {
			return &Node{K: "call", Fn: "time"}
		}
		in := g.genV(depth-1, "")
		if in.hist {
			in = g.selector("ab")
		}
		if r.Chance(70) {
			in = vexpr{&Node{K: "agg", Fn: h.Pick(r, aggPlain), Grp: "-", GL: "-", Args: []*Node{in.n}}, "", false}
		}
		return &Node{K: "call", Fn: "scalar", Args: []*Node{in.n}}
	default:
		ops := arith
		if g.core {
			ops = []string{"+", "-", "*"}
		}
		return &Node{K: "bin", Fn: h.Pick(r, ops), MK: "-", ML: "-", Card: "11", Incl: "-", Args: []*Node{g.genS(depth - 1), g.genS(depth - 1)}}
	}
}

// kSelNested: a topk/bottomk/limitk whose result feeds an aggregation, scalar() or a vector matching: a tie would then
// change values, not only permute series, and the judge's F12 classification (same multiset of values) would not
// recognise it. Such shapes are regenerated unless the k-selection's operand is a plain selector (fixed order).
func kSelNested(n *Node, under bool) bool {
	if n.K == "agg" && (n.Fn == "topk" || n.Fn == "bottomk" || n.Fn == "limitk") {
		if under && n.Args[0].K != "sel" {
			return true
		}
	}
	u := under
	switch n.K {
	case "agg":
		u = true
	case "call":
		if n.Fn == "scalar" || n.Fn == "absent" || n.Fn == "histogram_quantile" {
			u = true
		}
	case "subq":
		u = true
	case "bin":
		if n.Args[0].K != "num" && n.Args[1].K != "num" {
			u = true
		}
	}
	if n.Param != nil && kSelNested(n.Param, u) {
		return true
	}
	for _, a := range n.Args {
		if kSelNested(a, u) {
			return true
		}
	}
	return false
}

func genCase(c *h.Ctx, r *h.Rng) []string {
	g := &gctx{r: r, c: c}
	g.t0 = 1_000_000 + r.Range(0, 20)*5000 + r.Range(0, 1)*r.Range(0, 999)
	g.t1 = g.t0 + h.PickI64(r, []int64{120_000, 300_000, 600_000, 600_000})
	lookback := h.PickI64(r, []int64{300_000, 60_000, 45_000, 20_000})
	g.core = r.Chance(35)
	g.hasNH = !g.core && r.Chance(40)
	g.lookback = lookback
	ops := []string{fmt.Sprintf("cfg %d", lookback)}
	as := []string{"x", "y", "z"}
	bs := []string{"p", "q"}
	na := int(r.Range(1, 3))
	for _, m := range []string{"m1", "m2"} {
		for i := 0; i < na; i++ {
			for _, b := range bs {
				if r.Chance(12) {
					continue
				}
				ops = append(ops, g.series(m, fmt.Sprintf("a:%s,b:%s", as[i], b), lookback, false, g.core))
			}
		}
	}
	for i := 0; i < na; i++ {
		ops = append(ops, g.series("c_total", "a:"+as[i], lookback, true, g.core))
	}
	if !g.core {
		for i := 0; i < 2; i++ {
			for _, le := range []string{"0.1", "1", "10", "+Inf"} {
				ops = append(ops, g.series("hb_bucket", fmt.Sprintf("a:%s,le:%s", as[i], le), lookback, true, false))
			}
		}
	}
	if g.hasNH {
		for i := 0; i < 2; i++ {
			ops = append(ops, g.hseries("nh", "a:"+as[i], lookback))
		}
	}
	ops = append(ops, g.paramSeries()...)
	g.ats = append(g.ats, g.t0, g.t1)
	nq := int(r.Range(3, 6))
	// directed queries first: an aggregation whose parameter varies from step to step and crosses its boundaries
	ndir := 0
	if r.Chance(70) {
		ndir = int(r.Range(1, 2))
	}
	for k := 0; k < nq; k++ {
		var tree *Node
		var start, end, step, nsteps int64
		if k < ndir {
			tree, start, step, nsteps = g.directedQuery()
			end = start + (nsteps-1)*step
			if r.Chance(20) {
				end += r.Range(0, step-1)
			}
			c.Count("q:directed-param")
		} else {
			for {
				depth := int(r.Range(0, 3))
				if r.Chance(85) {
					tree = g.genV(depth, "").n
				} else {
					tree = g.genS(depth)
				}
				if !kSelNested(tree, false) {
					break
				}
			}
			step = h.PickI64(r, []int64{1000, 5000, 10000, 15000, 15000, 30000, 60000, 60000, 120000, 7000, 61000, 1})
			nsteps = r.Range(1, 12)
			if r.Chance(5) {
				nsteps = 1
			}
			start = r.Range(g.t0-60000, g.t1)
			if r.Chance(40) {
				start = start / 5000 * 5000
			}
			if r.Chance(15) && len(g.ats) > 0 {
				start = h.PickI64(r, g.ats)
			}
			end = start + (nsteps-1)*step
			if r.Chance(30) {
				end += r.Range(0, step-1) // end not on the step grid
			}
		}
		if g.core {
			c.Count("q:core")
		}
		ops = append(ops, fmt.Sprintf("rq %d %d %d %s", start, end, step, tree.String()))
		for i := int64(0); i < nsteps; i++ {
			ops = append(ops, fmt.Sprintf("iq %d", i))
		}
		if tree.shiftEligible() {
			for j := 0; j < 2; j++ {
				d := h.PickI64(r, []int64{1000, 5000, 15000, 60000, -5000, 1, 123456})
				ops = append(ops, fmt.Sprintf("oq %d %d", r.Range(0, nsteps-1), d))
			}
		}
		c.Count(fmt.Sprintf("steps:%d", nsteps))
	}
	return ops
}
