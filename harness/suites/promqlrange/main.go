// Suite promqlrange (C27): a range query evaluated by the real promql.Engine over a real TSDB must equal,
// step by step, the instant queries at start + i*step.
//
// ops:  cfg <lookback_ms>                                    engine lookback delta of this case (first line)
//       ser <name> <labels|-> <t:bits,t:bits,...|->          one float series (labels `a:x,b:p`; bits 7ff0000000000002 = stale marker)
//       hser <name> <labels|-> <t:i,t:i,...|->               one native-histogram series (i = tsdbutil.GenerateTestHistogram(i))
//       rq <start> <end> <step> <expr tokens...> [obs=..]    range query; expr in prefix form (see render / PromModel/Promql/RangeEval.lean)
//       iq <i> [obs=..]                                      instant query of the latest rq's expr at start + i*step
//                                                            (`@ start()` / `@ end()` replaced by the range query's literal start / end)
//       oq <i> <d> [obs=..]                                  instant query at start + i*step + d of the latest rq's expr with every
//                                                            top-level selector/subquery offset increased by d  (offset-shift clause)
// out:  ser/hser -> ok | err ;  cfg -> ok
//       rq/iq/oq -> the canonical result, the same string that is recorded as obs= in the op line:
//          variants joined by `~` (each query is evaluated several times; distinct results in order of first appearance)
//          variant = E:<class> | steps joined by `|` ; step = `-` | elements joined by `;` (sorted) ; element = <labels>=<16 hex value bits | H<hash>>
//          labels = `l:v,l:v` sorted by name (empty for a scalar)
//
// Generator: gen.go (data + random type-correct queries) and params.go (per-step VARYING aggregation parameters:
// the parameter metrics kk/kr/kq, directed queries aligned with the parameter's changes, and one case per run that
// enumerates every short history of parameter values).
package main

import (
	"context"
	"fmt"
	"hash/fnv"
	"math"
	"os"
	"sort"
	"strconv"
	"strings"
	"time"

	"github.com/prometheus/prometheus/model/histogram"
	"github.com/prometheus/prometheus/model/labels"
	"github.com/prometheus/prometheus/model/value"
	"github.com/prometheus/prometheus/promql"
	"github.com/prometheus/prometheus/promql/parser"
	"github.com/prometheus/prometheus/tsdb"
	"github.com/prometheus/prometheus/tsdb/tsdbutil"
	"github.com/prometheus/prometheus/util/teststorage"

	"verif/harness/h"
)

// ---------------------------------------------------------------- expression trees

type Node struct {
	K     string // sel msel subq num call bin agg neg
	Name  string
	Ms    string // matchers token: `-` or `l=v,l!v,l~v`
	Off   int64
	At    string // `-` | start | end | <ms>
	Range int64
	Step  int64
	Bits  uint64
	Fn    string   // call: function name; bin/agg: operator
	Strs  []string // call: string arguments (label_replace, count_values label)
	Bool  bool
	MK    string // bin: `-` | on | ign
	ML    string // bin: matching labels `a,b` or `-`
	Card  string // 11 | gl | gr
	Incl  string // include labels or `-`
	Grp   string // agg: `-` | by | wo
	GL    string // agg: labels or `-`
	Param *Node
	Args  []*Node
}

func (n *Node) toks(out *[]string) {
	a := func(s ...string) { *out = append(*out, s...) }
	i := func(v int64) string { return strconv.FormatInt(v, 10) }
	switch n.K {
	case "sel":
		a("sel", n.Name, n.Ms, i(n.Off), n.At)
	case "msel":
		a("msel", n.Name, n.Ms, i(n.Off), n.At, i(n.Range))
	case "subq":
		a("subq", i(n.Range), i(n.Step), i(n.Off), n.At)
		n.Args[0].toks(out)
	case "num":
		a("num", fmt.Sprintf("%016x", n.Bits))
	case "call":
		strs := "-"
		if len(n.Strs) > 0 {
			var hs []string
			for _, s := range n.Strs {
				hs = append(hs, h.HexS(s))
			}
			strs = strings.Join(hs, ",")
		}
		a("call", n.Fn, strs, strconv.Itoa(len(n.Args)))
		for _, x := range n.Args {
			x.toks(out)
		}
	case "bin":
		b := "0"
		if n.Bool {
			b = "1"
		}
		a("bin", n.Fn, b, n.MK, n.ML, n.Card, n.Incl)
		n.Args[0].toks(out)
		n.Args[1].toks(out)
	case "agg":
		p := "-"
		if n.Param != nil {
			p = "p"
		}
		a("agg", n.Fn, n.Grp, n.GL, p)
		if n.Param != nil {
			n.Param.toks(out)
		}
		n.Args[0].toks(out)
	case "neg":
		a("neg")
		n.Args[0].toks(out)
	case "str":
		a("str", h.HexS(n.Strs[0]))
	}
}

func (n *Node) String() string {
	var t []string
	n.toks(&t)
	return strings.Join(t, " ")
}

type parseErr struct{}

func parseTree(t []string) (n *Node, rest []string, ok bool) {
	defer func() {
		if r := recover(); r != nil {
			n, rest, ok = nil, nil, false
		}
	}()
	n, rest = parseNode(t)
	return n, rest, true
}

func pi64(s string) int64 {
	v, err := strconv.ParseInt(s, 10, 64)
	if err != nil {
		panic(parseErr{})
	}
	return v
}

func parseNode(t []string) (*Node, []string) {
	if len(t) == 0 {
		panic(parseErr{})
	}
	switch t[0] {
	case "sel":
		return &Node{K: "sel", Name: t[1], Ms: t[2], Off: pi64(t[3]), At: t[4]}, t[5:]
	case "msel":
		return &Node{K: "msel", Name: t[1], Ms: t[2], Off: pi64(t[3]), At: t[4], Range: pi64(t[5])}, t[6:]
	case "subq":
		n := &Node{K: "subq", Range: pi64(t[1]), Step: pi64(t[2]), Off: pi64(t[3]), At: t[4]}
		c, rest := parseNode(t[5:])
		n.Args = []*Node{c}
		return n, rest
	case "num":
		b, err := strconv.ParseUint(t[1], 16, 64)
		if err != nil {
			panic(parseErr{})
		}
		return &Node{K: "num", Bits: b}, t[2:]
	case "call":
		n := &Node{K: "call", Fn: t[1]}
		if t[2] != "-" {
			for _, x := range strings.Split(t[2], ",") {
				n.Strs = append(n.Strs, string(h.UnHex(x)))
			}
		}
		k, err := strconv.Atoi(t[3])
		if err != nil || k < 0 || k > 8 {
			panic(parseErr{})
		}
		rest := t[4:]
		for j := 0; j < k; j++ {
			var c *Node
			c, rest = parseNode(rest)
			n.Args = append(n.Args, c)
		}
		return n, rest
	case "bin":
		n := &Node{K: "bin", Fn: t[1], Bool: t[2] == "1", MK: t[3], ML: t[4], Card: t[5], Incl: t[6]}
		l, rest := parseNode(t[7:])
		r, rest := parseNode(rest)
		n.Args = []*Node{l, r}
		return n, rest
	case "agg":
		n := &Node{K: "agg", Fn: t[1], Grp: t[2], GL: t[3]}
		rest := t[5:]
		if t[4] == "p" {
			n.Param, rest = parseNode(rest)
		}
		c, rest := parseNode(rest)
		n.Args = []*Node{c}
		return n, rest
	case "neg":
		c, rest := parseNode(t[1:])
		return &Node{K: "neg", Args: []*Node{c}}, rest
	case "str":
		return &Node{K: "str", Strs: []string{string(h.UnHex(t[1]))}}, t[2:]
	}
	panic(parseErr{})
}

func durMs(ms int64) string { return strconv.FormatInt(ms, 10) + "ms" }

func atStr(at string, start, end int64, subst bool) string {
	switch at {
	case "-":
		return ""
	case "start":
		if subst {
			return fmt.Sprintf(" @ %d.%03d", start/1000, start%1000)
		}
		return " @ start()"
	case "end":
		if subst {
			return fmt.Sprintf(" @ %d.%03d", end/1000, end%1000)
		}
		return " @ end()"
	}
	ms := pi64(at)
	return fmt.Sprintf(" @ %d.%03d", ms/1000, ms%1000)
}

func matchersStr(name, ms string) string {
	s := name
	if ms != "-" {
		var parts []string
		for _, m := range strings.Split(ms, ",") {
			i := strings.IndexAny(m, "=!~^")
			if i < 0 {
				panic(parseErr{})
			}
			op := map[byte]string{'=': "=", '!': "!=", '~': "=~", '^': "!~"}[m[i]]
			parts = append(parts, fmt.Sprintf("%s%s%q", m[:i], op, m[i+1:]))
		}
		s += "{" + strings.Join(parts, ",") + "}"
	}
	return s
}

func lblList(s string) string {
	if s == "-" {
		return ""
	}
	return s
}

// render prints the PromQL text. subst: replace @ start()/end() by the literal times (instant queries).
// shift: added to the offset of every selector/subquery that is not nested inside a subquery.
func (n *Node) render(start, end int64, subst bool, shift int64) string {
	offStr := func(off int64) string {
		off += shift
		if off == 0 {
			return ""
		}
		return " offset " + durMs(off)
	}
	switch n.K {
	case "sel":
		return matchersStr(n.Name, n.Ms) + offStr(n.Off) + atStr(n.At, start, end, subst)
	case "msel":
		return matchersStr(n.Name, n.Ms) + "[" + durMs(n.Range) + "]" + offStr(n.Off) + atStr(n.At, start, end, subst)
	case "subq":
		st := ""
		if n.Step != 0 {
			st = durMs(n.Step)
		}
		return "(" + n.Args[0].render(start, end, subst, 0) + ")[" + durMs(n.Range) + ":" + st + "]" + offStr(n.Off) + atStr(n.At, start, end, subst)
	case "num":
		f := math.Float64frombits(n.Bits)
		switch {
		case math.IsNaN(f):
			return "NaN"
		case math.IsInf(f, 1):
			return "Inf"
		case math.IsInf(f, -1):
			return "(-Inf)"
		case f < 0 || (f == 0 && math.Signbit(f)):
			return "(" + strconv.FormatFloat(f, 'g', -1, 64) + ")"
		}
		return strconv.FormatFloat(f, 'g', -1, 64)
	case "str":
		return strconv.Quote(n.Strs[0])
	case "call":
		var as []string
		for _, x := range n.Args {
			as = append(as, x.render(start, end, subst, shift))
		}
		for _, s := range n.Strs {
			as = append(as, strconv.Quote(s))
		}
		return n.Fn + "(" + strings.Join(as, ", ") + ")"
	case "bin":
		op := n.Fn
		if n.Bool {
			op += " bool"
		}
		switch n.MK {
		case "on":
			op += " on(" + lblList(n.ML) + ")"
		case "ign":
			op += " ignoring(" + lblList(n.ML) + ")"
		}
		switch n.Card {
		case "gl":
			op += " group_left(" + lblList(n.Incl) + ")"
		case "gr":
			op += " group_right(" + lblList(n.Incl) + ")"
		}
		return "(" + n.Args[0].render(start, end, subst, shift) + ") " + op + " (" + n.Args[1].render(start, end, subst, shift) + ")"
	case "agg":
		s := n.Fn
		switch n.Grp {
		case "by":
			s += " by(" + lblList(n.GL) + ")"
		case "wo":
			s += " without(" + lblList(n.GL) + ")"
		}
		s += " ("
		if n.Param != nil {
			s += n.Param.render(start, end, subst, shift) + ", "
		}
		return s + n.Args[0].render(start, end, subst, shift) + ")"
	case "neg":
		return "-(" + n.Args[0].render(start, end, subst, shift) + ")"
	}
	panic(parseErr{})
}

func (n *Node) walk(f func(*Node, bool), inSubq bool) {
	f(n, inSubq)
	if n.Param != nil {
		n.Param.walk(f, inSubq)
	}
	for _, x := range n.Args {
		x.walk(f, inSubq || n.K == "subq")
	}
}

// shiftEligible: no @ modifier and no function of the evaluation time.
func (n *Node) shiftEligible() bool {
	ok := true
	n.walk(func(x *Node, _ bool) {
		switch x.K {
		case "sel", "msel", "subq":
			if x.At != "-" {
				ok = false
			}
		case "call":
			switch x.Fn {
			case "time", "predict_linear", "day_of_week", "hour", "minute":
				if x.Fn == "time" || x.Fn == "predict_linear" || len(x.Args) == 0 {
					ok = false
				}
			case "timestamp":
				if x.Args[0].K != "sel" {
					ok = false
				}
			}
		}
	}, false)
	return ok
}

// ---------------------------------------------------------------- engine + storage

type env struct {
	engs map[int64]*promql.Engine
	runs int
}

func (e *env) engine(lookback int64) *promql.Engine {
	if g, ok := e.engs[lookback]; ok {
		return g
	}
	g := promql.NewEngine(promql.EngineOpts{
		MaxSamples:               50000000,
		Timeout:                  100 * time.Second,
		NoStepSubqueryIntervalFn: func(int64) int64 { return 15000 },
		EnableAtModifier:         true,
		EnableNegativeOffset:     true,
		LookbackDelta:            time.Duration(lookback) * time.Millisecond,
		Parser:                   parser.NewParser(parser.Options{EnableExperimentalFunctions: true}),
	})
	e.engs[lookback] = g
	return g
}

func sanitize(s string) string {
	var b strings.Builder
	for i := 0; i < len(s); i++ {
		ch := s[i]
		if ch >= 'a' && ch <= 'z' || ch >= 'A' && ch <= 'Z' || ch >= '0' && ch <= '9' || ch == '_' || ch == '.' || ch == '+' || ch == '-' {
			b.WriteByte(ch)
		} else {
			fmt.Fprintf(&b, "%%%02X", ch)
		}
	}
	return b.String()
}

func lblStr(l labels.Labels) string {
	var parts []string
	l.Range(func(x labels.Label) {
		parts = append(parts, sanitize(x.Name)+":"+sanitize(x.Value))
	})
	sort.Strings(parts)
	return strings.Join(parts, ",")
}

func histHash(fh *histogram.FloatHistogram) string {
	hh := fnv.New64a()
	w := func(f float64) { fmt.Fprintf(hh, "%016x,", math.Float64bits(f)) }
	fmt.Fprintf(hh, "%d;%d;", fh.Schema, fh.CounterResetHint)
	w(fh.ZeroThreshold)
	w(fh.ZeroCount)
	w(fh.Count)
	w(fh.Sum)
	for _, s := range fh.PositiveSpans {
		fmt.Fprintf(hh, "p%d:%d,", s.Offset, s.Length)
	}
	for _, s := range fh.NegativeSpans {
		fmt.Fprintf(hh, "n%d:%d,", s.Offset, s.Length)
	}
	for _, b := range fh.PositiveBuckets {
		w(b)
	}
	fmt.Fprint(hh, "|")
	for _, b := range fh.NegativeBuckets {
		w(b)
	}
	fmt.Fprint(hh, "|")
	for _, b := range fh.CustomValues {
		w(b)
	}
	return fmt.Sprintf("H%016x", hh.Sum64())
}

func valStr(f float64, fh *histogram.FloatHistogram) string {
	if fh != nil {
		return histHash(fh)
	}
	return fmt.Sprintf("%016x", math.Float64bits(f))
}

func joinStep(el []string) string {
	if len(el) == 0 {
		return "-"
	}
	sort.Strings(el)
	return strings.Join(el, ";")
}

func errClass(err error) string {
	s := err.Error()
	switch {
	case strings.Contains(s, "many-to-many matching not allowed"):
		return "E:many-to-many"
	case strings.Contains(s, "multiple matches for labels"):
		return "E:multiple-matches"
	case strings.Contains(s, "same labelset"):
		return "E:duplicate-labelset"
	case strings.Contains(s, "parse error") || strings.Contains(s, "invalid"):
		return "E:parse"
	case strings.Contains(s, "runtime error") || strings.Contains(s, "unexpected error"):
		return "E:panic"
	}
	return "E:other"
}

func (e *env) runRange(eng *promql.Engine, st *teststorage.TestStorage, qs string, start, end, step int64) string {
	q, err := eng.NewRangeQuery(context.Background(), st, nil, qs, time.UnixMilli(start), time.UnixMilli(end), time.Duration(step)*time.Millisecond)
	if err != nil {
		return errClass(err)
	}
	defer q.Close()
	res := q.Exec(context.Background())
	if res.Err != nil {
		return errClass(res.Err)
	}
	n := int((end-start)/step) + 1
	steps := make([][]string, n)
	add := func(l labels.Labels, t int64, f float64, fh *histogram.FloatHistogram) {
		if t < start || (t-start)%step != 0 || int((t-start)/step) >= n {
			steps[0] = append(steps[0], "BADTS"+strconv.FormatInt(t, 10)+"="+valStr(f, fh))
			return
		}
		i := int((t - start) / step)
		steps[i] = append(steps[i], lblStr(l)+"="+valStr(f, fh))
	}
	switch v := res.Value.(type) {
	case promql.Matrix:
		for _, s := range v {
			for _, p := range s.Floats {
				add(s.Metric, p.T, p.F, nil)
			}
			for _, p := range s.Histograms {
				add(s.Metric, p.T, 0, p.H)
			}
		}
	default:
		return "E:type"
	}
	out := make([]string, n)
	for i := range steps {
		out[i] = joinStep(steps[i])
	}
	return strings.Join(out, "|")
}

func (e *env) runInstant(eng *promql.Engine, st *teststorage.TestStorage, qs string, ts int64) string {
	q, err := eng.NewInstantQuery(context.Background(), st, nil, qs, time.UnixMilli(ts))
	if err != nil {
		return errClass(err)
	}
	defer q.Close()
	res := q.Exec(context.Background())
	if res.Err != nil {
		return errClass(res.Err)
	}
	var el []string
	switch v := res.Value.(type) {
	case promql.Vector:
		for _, s := range v {
			el = append(el, lblStr(s.Metric)+"="+valStr(s.F, s.H))
		}
	case promql.Scalar:
		el = append(el, "="+valStr(v.V, nil))
	default:
		return "E:type"
	}
	return joinStep(el)
}

func variants(n int, f func() string) string {
	var vs []string
	for k := 0; k < n; k++ {
		var out string
		if p, _ := h.Try(func() { out = f() }); p {
			out = "E:panic"
		}
		seen := false
		for _, v := range vs {
			if v == out {
				seen = true
			}
		}
		if !seen {
			vs = append(vs, out)
		}
	}
	return strings.Join(vs, "~")
}

func stripObs(f []string) []string {
	var out []string
	for _, x := range f {
		if !strings.HasPrefix(x, "obs=") {
			out = append(out, x)
		}
	}
	return out
}

func parseLabels(name, ls string) (labels.Labels, bool) {
	b := labels.NewBuilder(labels.EmptyLabels())
	b.Set("__name__", name)
	if ls != "-" {
		for _, kv := range strings.Split(ls, ",") {
			i := strings.IndexByte(kv, ':')
			if i <= 0 {
				return labels.EmptyLabels(), false
			}
			b.Set(kv[:i], kv[i+1:])
		}
	}
	return b.Labels(), true
}

func (e *env) runCase(c *h.Ctx, ops []string) {
	st, err := teststorage.NewWithError(func(opt *tsdb.Options) {
		opt.WALSegmentSize = -1
		opt.EnableExemplarStorage = false
	})
	if err != nil {
		fmt.Fprintln(os.Stderr, "harness error:", err)
		os.Exit(3)
	}
	defer st.Close()
	st.DisableCompactions()
	lookback := int64(300000)
	var cur *Node
	var cs, ce, cstep int64
	for _, op := range ops {
		f := stripObs(strings.Fields(op))
		if len(f) == 0 {
			c.Op(op, "bad-op")
			continue
		}
		switch {
		case f[0] == "cfg" && len(f) == 2:
			v, err := strconv.ParseInt(f[1], 10, 64)
			if err != nil || v <= 0 {
				c.Op(op, "bad-op")
				continue
			}
			lookback = v
			c.Op(op, "ok")
		case (f[0] == "ser" || f[0] == "hser") && len(f) == 4:
			ls, ok := parseLabels(f[1], f[2])
			if !ok {
				c.Op(op, "bad-op")
				continue
			}
			out := "ok"
			app := st.Appender(context.Background())
			if f[3] != "-" {
				for _, p := range strings.Split(f[3], ",") {
					i := strings.IndexByte(p, ':')
					if i <= 0 {
						out = "err"
						break
					}
					t, e1 := strconv.ParseInt(p[:i], 10, 64)
					if e1 != nil {
						out = "err"
						break
					}
					if f[0] == "ser" {
						bits, e2 := strconv.ParseUint(p[i+1:], 16, 64)
						if e2 != nil {
							out = "err"
							break
						}
						if _, err := app.Append(0, ls, t, math.Float64frombits(bits)); err != nil {
							out = "err"
							break
						}
					} else {
						k, e2 := strconv.ParseInt(p[i+1:], 10, 64)
						if e2 != nil {
							out = "err"
							break
						}
						var err error
						if k < 0 {
							_, err = app.Append(0, ls, t, math.Float64frombits(value.StaleNaN))
						} else {
							_, err = app.AppendHistogram(0, ls, t, tsdbutil.GenerateTestHistogram(k), nil)
						}
						if err != nil {
							out = "err"
							break
						}
					}
				}
			}
			if out == "ok" {
				if err := app.Commit(); err != nil {
					out = "err"
				}
			} else {
				_ = app.Rollback()
			}
			c.Op(op, out)
		case f[0] == "rq" && len(f) >= 5:
			s0, e1 := strconv.ParseInt(f[1], 10, 64)
			e0, e2 := strconv.ParseInt(f[2], 10, 64)
			p0, e3 := strconv.ParseInt(f[3], 10, 64)
			n, rest, ok := parseTree(f[4:])
			if e1 != nil || e2 != nil || e3 != nil || !ok || len(rest) != 0 || p0 <= 0 || e0 < s0 || (e0-s0)/p0 > 64 {
				c.Op(op, "bad-op")
				cur = nil
				continue
			}
			cur, cs, ce, cstep = n, s0, e0, p0
			var qs string
			if p, _ := h.Try(func() { qs = n.render(s0, e0, false, 0) }); p {
				c.Op(op, "bad-op")
				cur = nil
				continue
			}
			eng := e.engine(lookback)
			out := variants(e.runs, func() string { return e.runRange(eng, st, qs, s0, e0, p0) })
			if strings.HasPrefix(out, "E:") {
				c.Count("rq:" + strings.SplitN(out, "~", 2)[0])
			} else {
				c.Count("rq:ok")
			}
			if strings.Contains(out, "~") {
				c.Count("rq:run-to-run-variation")
			}
			c.Op(strings.Join(f, " ")+" obs="+out, out)
		case f[0] == "iq" && len(f) == 2 && cur != nil:
			i, e1 := strconv.ParseInt(f[1], 10, 64)
			if e1 != nil || i < 0 || cs+i*cstep > ce {
				c.Op(op, "bad-op")
				continue
			}
			qs := cur.render(cs, ce, true, 0)
			eng := e.engine(lookback)
			out := variants(2, func() string { return e.runInstant(eng, st, qs, cs+i*cstep) })
			c.Op(strings.Join(f, " ")+" obs="+out, out)
		case f[0] == "oq" && len(f) == 3 && cur != nil:
			i, e1 := strconv.ParseInt(f[1], 10, 64)
			d, e2 := strconv.ParseInt(f[2], 10, 64)
			if e1 != nil || e2 != nil || i < 0 || cs+i*cstep > ce {
				c.Op(op, "bad-op")
				continue
			}
			qs := cur.render(cs, ce, true, d)
			eng := e.engine(lookback)
			out := variants(1, func() string { return e.runInstant(eng, st, qs, cs+i*cstep+d) })
			c.Count("oq")
			c.Op(strings.Join(f, " ")+" obs="+out, out)
		default:
			c.Op(op, "bad-op")
		}
	}
}

func main() {
	if st, err := os.Stat("/dev/shm"); err == nil && st.IsDir() {
		os.Setenv("TMPDIR", "/dev/shm")
	}
	c := h.Init()
	defer c.Finish()
	e := &env{engs: map[int64]*promql.Engine{}, runs: 3}
	if v, err := strconv.Atoi(c.Extra["runs"]); err == nil && v > 0 {
		e.runs = v
	}
	if c.Replay != "" {
		for _, cs := range c.ReplayCases() {
			c.Case(strings.TrimPrefix(cs[0], "case "))
			e.runCase(c, cs[1:])
		}
		return
	}
	if c.N > 0 {
		// every short history of parameter values (params.go); heavier alphabet in the thorough tier
		c.Case("enum-param-histories")
		ops := genEnumCase(c.Tier)
		c.NonTrivial(strings.Join(ops, ";"))
		e.runCase(c, ops)
	}
	for i := 0; i < c.N; i++ {
		c.Case(fmt.Sprintf("r%d", i))
		ops := genCase(c, c.Rng)
		c.NonTrivial(strings.Join(ops, ";"))
		e.runCase(c, ops)
	}
}
