package main

// Per-step VARYING aggregation parameters (topk/bottomk/limitk k, limit_ratio r, quantile φ).
//
// rangeEvalAgg evaluates the parameter expression once for all steps (fParams) and hands one value per step to
// aggregationK / aggregation, which walk the input series with per-series cursors (nextValues consumes the head
// point of a series only when its timestamp is the current step). Every early exit of a step (k < 1, r == 0, limitk
// having filled every group) therefore has to advance the remaining cursors, and every per-step quantity has to be
// recomputed per step: this is only observable when the parameter changes from step to step and crosses its
// boundaries at a first / middle / last step. Sources of variation:
//   scalar(kk|kr|kq)          dedicated single-series metrics sampled every piv ms with boundary values
//   time()-arithmetic         time() % n, (time()-c)*(time()-c), (time()-c)*0.5, ... (exact on whole-second grids)
//   scalar(kk) * (time() % 2) products, comparisons with bool
//   scalar(count(m1)) - j     data dependent
//   scalar(nosuch)            NaN at every step (the whole query fails: error iff error)
//   constants                 0, -1, 0.5, 1, 100 (> number of series), 1e19 (int64 overflow), NaN

import (
	"fmt"
	"math"
	"strings"

	"verif/harness/h"
)

type ppoint struct {
	t     int64
	v     float64
	stale bool
}

var kGood = []float64{1, 2, 3, 1, 2, 100, 1.5, 2.999, 4}
var kBad = []float64{0, 0, -1, 0.5, 0.999, math.Copysign(0, -1), -100, 0.001}
var rVals = []float64{0, 0, 0.5, -0.5, 1, -1, 1.5, -1.5, 0.3, -0.3, 0.999, 2, -2, 0.1, 0}
var qVals = []float64{0, 0.5, 1, -0.5, 1.5, 0.25, 0.9, -1, 2, 0.75}

func paramName(kind string) string {
	switch kind {
	case "k":
		return "kk"
	case "r":
		return "kr"
	}
	return "kq"
}

func (g *gctx) paramValue(kind string, prev float64, first bool) float64 {
	r := g.r
	if !first && r.Chance(10) {
		return prev
	}
	if !g.core && r.Chance(1) {
		switch kind {
		case "k":
			return h.Pick(r, []float64{math.NaN(), 1e19, -1e19, math.Inf(1)})
		case "r":
			return h.Pick(r, []float64{math.NaN(), math.Inf(1), math.Inf(-1)})
		default:
			return h.Pick(r, []float64{math.NaN(), math.Inf(1), math.Inf(-1)})
		}
	}
	switch kind {
	case "k":
		if r.Chance(55) {
			return h.Pick(r, kGood)
		}
		return h.Pick(r, kBad)
	case "r":
		return h.Pick(r, rVals)
	}
	return h.Pick(r, qVals)
}

// paramSeries emits the three parameter metrics of a case.
func (g *gctx) paramSeries() []string {
	r := g.r
	g.piv = h.PickI64(r, []int64{5000, 10000, 10000, 15000})
	g.pser = map[string][]ppoint{}
	var ops []string
	base := (g.t0 - 120000) / g.piv * g.piv
	for _, kind := range []string{"k", "r", "q"} {
		var pts []ppoint
		var parts []string
		v := 0.0
		for t := base; t <= g.t1+g.piv; t += g.piv {
			if len(pts) > 0 && r.Chance(3) {
				continue // a missed scrape
			}
			v = g.paramValue(kind, v, len(pts) == 0)
			p := ppoint{t: t, v: v}
			bits := fbits(v)
			if len(pts) > 0 && r.Chance(2) {
				p.stale, bits = true, staleBits
			}
			pts = append(pts, p)
			parts = append(parts, fmt.Sprintf("%d:%016x", t, bits))
		}
		g.pser[kind] = pts
		ops = append(ops, fmt.Sprintf("ser %s - %s", paramName(kind), strings.Join(parts, ",")))
	}
	return ops
}

// paramAt: what scalar(<param metric>) evaluates to at t (NaN when absent / stale).
func (g *gctx) paramAt(kind string, t int64) float64 {
	var last *ppoint
	pts := g.pser[kind]
	for i := range pts {
		if pts[i].t <= t {
			last = &pts[i]
		}
	}
	if last == nil || last.stale || last.t <= t-g.lookback {
		return math.NaN()
	}
	return last.v
}

func sc(n *Node) *Node     { return &Node{K: "call", Fn: "scalar", Args: []*Node{n}} }
func psel(nm string) *Node { return &Node{K: "sel", Name: nm, Ms: "-", At: "-"} }
func tm() *Node            { return &Node{K: "call", Fn: "time"} }
func sbin(op string, a, b *Node) *Node {
	return &Node{K: "bin", Fn: op, MK: "-", ML: "-", Card: "11", Incl: "-", Args: []*Node{a, b}}
}

func (g *gctx) timeMod(kind string) *Node {
	r := g.r
	switch kind {
	case "k":
		n := sbin("%", tm(), num(float64(r.Range(2, 4))))
		switch r.Intn(4) {
		case 0:
			return sbin("-", n, num(1))
		case 1:
			return sbin("*", n, num(2))
		}
		return n
	case "r":
		return sbin("*", sbin("-", sbin("%", tm(), num(3)), num(1)), num(h.Pick(r, []float64{0.75, 1, 1.5, 0.5})))
	}
	return sbin("-", sbin("/", sbin("%", tm(), num(4)), num(2)), num(0.5))
}

// centred: a parameter that crosses its boundary around the whole second c.
func (g *gctx) centred(kind string, c int64) *Node {
	d := sbin("-", tm(), num(float64(c)))
	switch kind {
	case "k":
		if g.r.Chance(65) {
			return sbin("*", d, d) // ... 4 1 0 1 4 ...
		}
		return d // negative, 0, then >= 1
	case "r":
		return sbin("*", d, num(h.Pick(g.r, []float64{0.5, 0.25, 1})))
	}
	return sbin("*", d, num(h.Pick(g.r, []float64{0.5, 0.25})))
}

// varParam: a scalar expression for an aggregation parameter of the given kind that (usually) varies per step.
func (g *gctx) varParam(kind string) *Node {
	r := g.r
	name := paramName(kind)
	switch x := r.Intn(100); {
	case x < 42:
		s := psel(name)
		if r.Chance(20) {
			s.Off = h.PickI64(r, []int64{g.piv, 2 * g.piv, 1, -g.piv, 999})
		}
		g.c.Count("param:scalar-series")
		return sc(s)
	case x < 47:
		s := psel(name)
		for s.At == "-" {
			s.At = g.pickAt()
		}
		g.c.Count("param:scalar-series-at")
		return sc(s)
	case x < 67:
		g.c.Count("param:time-mod")
		return g.timeMod(kind)
	case x < 77:
		g.c.Count("param:time-centred")
		return g.centred(kind, r.Range(g.t0/1000, g.t1/1000))
	case x < 86:
		g.c.Count("param:product")
		if kind == "k" && r.Chance(30) {
			n := sbin(">", sc(psel(name)), num(1))
			n.Bool = true
			return n
		}
		return sbin("*", sc(psel(name)), sbin("%", tm(), num(2)))
	case x < 93:
		g.c.Count("param:count-dependent")
		cnt := sc(&Node{K: "agg", Fn: "count", Grp: "-", GL: "-", Args: []*Node{psel(h.Pick(r, []string{"m1", "m2"}))}})
		if kind == "k" {
			return sbin("-", cnt, num(float64(r.Range(0, 4))))
		}
		return sbin("-", sbin("/", cnt, num(4)), num(0.5))
	case x < 96:
		g.c.Count("param:absent-nan")
		return sc(psel("nosuch"))
	default:
		g.c.Count("param:const")
		return g.constParam(kind)
	}
}

func (g *gctx) constParam(kind string) *Node {
	r := g.r
	switch kind {
	case "k":
		switch x := r.Intn(100); {
		case x < 60:
			return num(float64(r.Range(1, 3)))
		case x < 97:
			return num(h.Pick(r, []float64{0, 0, -1, 0.5, 0.999, 100, 1.5, 1e6}))
		default:
			return num(h.Pick(r, []float64{math.NaN(), 1e19, -1e19, math.Inf(1)}))
		}
	case "r":
		if r.Chance(3) {
			return num(math.NaN())
		}
		return num(h.Pick(r, []float64{0.5, -0.5, 0.3, 1, 0.9, 0, -1, 1.5, -1.5, -0.3, 0.001}))
	}
	if r.Chance(3) {
		return num(math.NaN())
	}
	return num(h.Pick(r, []float64{0, 0.25, 0.5, 0.9, 1, 1.5, -1, 2, -0.5}))
}

// aggParam: the parameter of an aggregation in the random part of the generator.
func (g *gctx) aggParam(kind string, depth int) *Node {
	r := g.r
	switch x := r.Intn(100); {
	case x < 45:
		return g.constParam(kind)
	case x < 92:
		g.c.Count("q:varying-param")
		return g.varParam(kind)
	default:
		return g.genS(depth)
	}
}

func isBadK(v float64) bool { return !(v >= 1) }

// directedQuery: an aggregation with a varying parameter over a selector, start/step aligned with the points at
// which the parameter changes; optionally grouped, wrapped, or inside a subquery.
func (g *gctx) directedQuery() (tree *Node, start, step, nsteps int64) {
	r := g.r
	op := h.Pick(r, []string{"topk", "topk", "bottomk", "limitk", "limitk", "limit_ratio", "limit_ratio", "quantile"})
	kind := "k"
	switch op {
	case "limit_ratio":
		kind = "r"
	case "quantile":
		kind = "q"
	}
	nsteps = r.Range(3, 9)
	var p *Node
	switch x := r.Intn(100); {
	case x < 50: // scalar(<param metric>), one fresh parameter sample per step
		pts := g.pser[kind]
		i := r.Intn(len(pts))
		for try := 0; try < 8 && (pts[i].t < g.t0-60000 || pts[i].t > g.t1-2*g.piv); try++ {
			i = r.Intn(len(pts))
		}
		start = pts[i].t + h.PickI64(r, []int64{0, 0, 0, 1, g.piv - 1})
		step = g.piv * h.PickI64(r, []int64{1, 1, 1, 2})
		if r.Chance(15) {
			step = g.piv / 5 // the parameter changes every 5th step
			nsteps = r.Range(6, 12)
		}
		s := psel(paramName(kind))
		if r.Chance(12) {
			s.Off = h.PickI64(r, []int64{g.piv, -g.piv, 1})
		}
		p = sc(s)
		g.c.Count("dparam:scalar-series")
		if kind == "k" && s.Off == 0 {
			// which boundary patterns does this query see?
			var bad []bool
			for j := int64(0); j < nsteps; j++ {
				bad = append(bad, isBadK(g.paramAt("k", start+j*step)))
			}
			n := len(bad)
			if bad[0] && !bad[n-1] {
				g.c.Count("dk:lt1-at-first-step")
			}
			if bad[n-1] && !bad[0] {
				g.c.Count("dk:lt1-at-last-step")
			}
			for j := 1; j+1 < n; j++ {
				if bad[j] && !bad[j-1] {
					for l := j + 1; l < n; l++ {
						if !bad[l] {
							g.c.Count("dk:ge1-lt1-ge1")
							j = n
							break
						}
					}
				}
			}
		}
	case x < 75: // time() % n on a whole-second grid
		start = r.Range((g.t0-30000)/1000, g.t1/1000) * 1000
		step = 1000 * h.PickI64(r, []int64{1, 1, 1, 2, 3, 5})
		if r.Chance(10) {
			start += 500
		}
		p = g.timeMod(kind)
		g.c.Count("dparam:time-mod")
	case x < 90: // boundary crossed around a chosen step
		start = r.Range((g.t0-30000)/1000, g.t1/1000) * 1000
		step = 1000 * h.PickI64(r, []int64{1, 1, 2})
		at := r.Range(0, nsteps-1) // first / middle / last
		p = g.centred(kind, (start+at*step)/1000)
		g.c.Count(fmt.Sprintf("dparam:time-centred-%s", map[bool]string{true: "edge", false: "mid"}[at == 0 || at == nsteps-1]))
	default:
		start = r.Range(g.t0-60000, g.t1) / 5000 * 5000
		step = h.PickI64(r, []int64{1000, 5000, 10000, 15000, 30000, 60000, 7000})
		p = g.varParam(kind)
		g.c.Count("dparam:other")
	}

	in := g.selector("")
	if in.hist && op != "limitk" && op != "limit_ratio" {
		in = g.selector("ab")
	}
	if in.n.At != "-" && !r.Chance(40) {
		// an `@` on the operand makes PreprocessExpr evaluate the whole aggregation once (finding C27-F2): keep it rare
		in.n.At = "-"
	}
	grp, gl, out := grouping(r, in.schema)
	agg := &Node{K: "agg", Fn: op, Grp: grp, GL: gl, Param: p, Args: []*Node{in.n}}
	schema := in.schema
	if op == "quantile" {
		schema = out
	}
	g.c.Count("dq:" + op)
	if grp != "-" {
		g.c.Count("dq:grouped")
	}
	switch x := r.Intn(100); {
	case x < 50:
		return agg, start, step, nsteps
	case x < 62:
		g2, gl2, _ := grouping(r, schema)
		fn := h.Pick(r, []string{"count", "sum", "max", "group"})
		if in.hist {
			fn = h.Pick(r, []string{"count", "group"})
		}
		g.c.Count("dq:under-aggregation")
		return &Node{K: "agg", Fn: fn, Grp: g2, GL: gl2, Args: []*Node{agg}}, start, step, nsteps
	case x < 80:
		fn := h.Pick(r, []string{"count_over_time", "last_over_time", "max_over_time", "sum_over_time", "min_over_time"})
		if in.hist {
			fn = h.Pick(r, []string{"count_over_time", "last_over_time"})
		}
		st := h.PickI64(r, []int64{0, g.piv, step, 1000, 5000})
		rg := h.PickI64(r, []int64{3 * g.piv, 30000, 60000, 4 * step, 20000})
		ss := st
		if ss == 0 {
			ss = 15000
		}
		if rg/ss > 40 {
			rg = ss * 40
		}
		g.c.Count("dq:in-subquery")
		sq := &Node{K: "subq", Range: rg, Step: st, Off: g.pickOff(), At: "-", Args: []*Node{agg}}
		return &Node{K: "call", Fn: fn, Args: []*Node{sq}}, start, step, nsteps
	case x < 86:
		if in.hist {
			return agg, start, step, nsteps
		}
		g.c.Count("dq:under-binop")
		if r.Bool() {
			return sbin("*", agg, num(2)), start, step, nsteps
		}
		return sbin(">=", agg, num(1)), start, step, nsteps
	case x < 92:
		if in.hist {
			return agg, start, step, nsteps
		}
		g.c.Count("dq:under-setop")
		n := sbin(h.Pick(r, []string{"and", "or", "unless"}), agg, g.selector("ab").n)
		n.MK, n.ML = "on", "a"
		return n, start, step, nsteps
	default:
		// a non-selector operand (evaluated by rangeEval; ties are order-sensitive = finding F12), outermost only
		var o *Node
		if r.Bool() {
			m := g.selector("ab").n
			mm := *m
			mm.K, mm.Range = "msel", h.PickI64(r, []int64{15000, 30000, 60000})
			o = &Node{K: "call", Fn: h.Pick(r, []string{"sum_over_time", "last_over_time", "rate", "max_over_time"}), Args: []*Node{&mm}}
		} else {
			o = sbin("+", g.selector("ab").n, num(1))
		}
		g.c.Count("dq:non-selector-operand")
		agg.Args = []*Node{o}
		return agg, start, step, nsteps
	}
}

// ---------------------------------------------------------------- exhaustive parameter histories

// deBruijn returns a cyclic sequence over {0..k-1} in which every word of length n occurs exactly once.
func deBruijn(k, n int) []int {
	a := make([]int, k*n)
	var seq []int
	var db func(t, p int)
	db = func(t, p int) {
		if t > n {
			if n%p == 0 {
				seq = append(seq, a[1:p+1]...)
			}
			return
		}
		a[t] = a[t-p]
		db(t+1, p)
		for j := a[t-p] + 1; j < k; j++ {
			a[t] = j
			db(t+1, t)
		}
	}
	db(1, 1)
	return seq
}

// genEnumCase: every history of `order` consecutive parameter values over a boundary alphabet, for each
// k-selecting aggregation (and limit_ratio / quantile): the parameter metrics carry a de Bruijn sequence, one
// value per 10 s, and one range query of `order` steps starts at every position. Fixed small data: two groups of two
// series, a tie, one series with a gap and one that ends early.
func genEnumCase(tier string) []string {
	order := 4
	kAlpha := []float64{0, 1, 3}
	rAlpha := []float64{0, 0.5, -1}
	qAlpha := []float64{0.5, -1, 2}
	if tier == "thorough" {
		kAlpha = []float64{0, 0.5, 1, 2, 100}
		rAlpha = []float64{0, 0.4, -0.4, 1, -2}
		qAlpha = []float64{0, 0.5, 1, -1, 2}
	}
	const t0, iv = int64(2_000_000), int64(10_000)
	ops := []string{"cfg 300000"}
	nwin := 1
	for i := 0; i < order; i++ {
		nwin *= len(kAlpha)
	}
	seqOf := func(alpha []float64) []float64 {
		db := deBruijn(len(alpha), order)
		var out []float64
		for i := 0; i < len(db)+order-1; i++ {
			out = append(out, alpha[db[i%len(db)]])
		}
		return out
	}
	total := nwin + order - 1
	for _, ps := range []struct {
		name  string
		alpha []float64
	}{{"kk", kAlpha}, {"kr", rAlpha}, {"kq", qAlpha}} {
		var parts []string
		for i, v := range seqOf(ps.alpha) {
			parts = append(parts, fmt.Sprintf("%d:%016x", t0+int64(i)*iv, fbits(v)))
		}
		ops = append(ops, fmt.Sprintf("ser %s - %s", ps.name, strings.Join(parts, ",")))
	}
	for si, sl := range []string{"a:x,b:p", "a:x,b:q", "a:y,b:p", "a:y,b:q"} {
		var parts []string
		for i := 0; i < total; i++ {
			if si == 1 && i%7 == 3 { // a gap of one scrape: the series is present (lookback) but its sample is older
				continue
			}
			if si == 3 && i%11 == 5 {
				parts = append(parts, fmt.Sprintf("%d:%016x", t0+int64(i)*iv, uint64(staleBits)))
				continue
			}
			v := float64((si*3+i)%5) + float64(si%2) // ties between series are common
			parts = append(parts, fmt.Sprintf("%d:%016x", t0+int64(i)*iv, fbits(v)))
		}
		ops = append(ops, "ser m1 "+sl+" "+strings.Join(parts, ","))
	}
	// m3: five series of one group; at tick i with phase f = i % 4 only the series j >= (f == 0 ? 0 : f+1) are present
	// (the others carry a staleness marker): after a step at which all are present (limitk fills its group early and
	// leaves the loop) come steps at which only series from the tail of the input matrix can be selected.
	for j := 0; j < 5; j++ {
		var parts []string
		for i := 0; i < total; i++ {
			f := i % 4
			bits := fbits(float64(j%3 + 1))
			if f != 0 && j < f+1 {
				bits = staleBits
			}
			parts = append(parts, fmt.Sprintf("%d:%016x", t0+int64(i)*iv, bits))
		}
		ops = append(ops, fmt.Sprintf("ser m3 a:x,b:s%d %s", j, strings.Join(parts, ",")))
	}
	type qd struct {
		op, pname, metric string
		k                 float64 // > 0: constant parameter
	}
	qs := []qd{{"topk", "kk", "m1", 0}, {"bottomk", "kk", "m1", 0}, {"limitk", "kk", "m1", 0}, {"limit_ratio", "kr", "m1", 0},
		{"quantile", "kq", "m1", 0}, {"limitk", "kk", "m3", 0}, {"limitk", "", "m3", 1}, {"limitk", "", "m3", 2}, {"topk", "kk", "m3", 0}}
	for w := 0; w < nwin; w++ {
		start := t0 + int64(w)*iv
		for qi, q := range qs {
			if q.k > 0 && w >= 8 {
				continue // constant parameter: one query per phase of m3 is enough
			}
			grp, gl := "-", "-"
			switch (w + qi) % 3 {
			case 1:
				grp, gl = "by", "a"
			case 2:
				grp, gl = "wo", "b"
			}
			param := num(q.k)
			if q.k == 0 {
				param = sc(psel(q.pname))
			}
			agg := &Node{K: "agg", Fn: q.op, Grp: grp, GL: gl, Param: param, Args: []*Node{psel(q.metric)}}
			ops = append(ops, fmt.Sprintf("rq %d %d %d %s", start, start+int64(order-1)*iv, iv, agg.String()))
			for i := 0; i < order; i++ {
				ops = append(ops, fmt.Sprintf("iq %d", i))
			}
		}
	}
	return ops
}
