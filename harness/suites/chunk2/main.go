// Suite chunk2 (C10): XOR2 float chunks, with and without start timestamps (ST), return exactly what was
// appended. Every case is one chunk history run against the real tsdb/chunkenc code in-process:
// appends (st, t, value bits), Bytes, full iteration, FromData/Pool.Get + Appender() resume, iterator
// creation/reuse, random Next/Seek scripts.
package main

import (
	"fmt"
	"math"
	"strconv"
	"strings"

	"github.com/prometheus/prometheus/tsdb/chunkenc"

	"verif/harness/h"
)

// judgeOnly: the observation travels in the op line (`op | out`) and the implementation column is `-`;
// otherwise the Lean model of XOR2 (PromModel/Tsdb/ChunkXor2.lean) has to reproduce every output line.
const judgeOnly = false

type state struct {
	chunk chunkenc.Chunk
	app   chunkenc.Appender
	it    chunkenc.Iterator
	pool  chunkenc.Pool
}

func showSample(it chunkenc.Iterator) string {
	t, v := it.At()
	return fmt.Sprintf("%d:%016x:%d", t, math.Float64bits(v), it.AtST())
}

func runCase(c *h.Ctx, ops []string) {
	st := &state{}
	for _, op := range ops {
		if i := strings.Index(op, " | "); i >= 0 {
			op = op[:i]
		}
		f := strings.Fields(op)
		out := "bad-op"
		p, pv := h.Try(func() {
			switch f[0] {
			case "new":
				if f[1] != "xor2" {
					return
				}
				ch, err := chunkenc.NewEmptyChunk(chunkenc.EncXOR2)
				if err != nil {
					panic(err)
				}
				st.chunk = ch
				st.app, err = ch.Appender()
				if err != nil {
					panic(err)
				}
				st.it = nil
				st.pool = nil
				out = "ok"
			case "app": // app <st> <t> <v>
				sT, _ := strconv.ParseInt(f[1], 10, 64)
				t, _ := strconv.ParseInt(f[2], 10, 64)
				vb, _ := strconv.ParseUint(f[3], 16, 64)
				st.app.Append(sT, t, math.Float64frombits(vb))
				out = "ok"
			case "bytes":
				out = h.Hex(st.chunk.Bytes())
			case "n":
				out = strconv.Itoa(st.chunk.NumSamples())
			case "iter":
				it := st.chunk.Iterator(nil)
				var parts []string
				for it.Next() != chunkenc.ValNone {
					parts = append(parts, showSample(it))
				}
				status := "ok"
				if it.Err() != nil {
					status = "err"
					c.Count("out:iter-err")
				}
				l := "-"
				if len(parts) > 0 {
					l = strings.Join(parts, ",")
				}
				out = fmt.Sprintf("%s n=%d %s", status, len(parts), l)
			case "reopen", "reopenpool":
				b := append([]byte{}, st.chunk.Bytes()...)
				var ch chunkenc.Chunk
				var err error
				if f[0] == "reopen" {
					ch, err = chunkenc.FromData(chunkenc.EncXOR2, b)
				} else {
					if st.pool == nil {
						st.pool = chunkenc.NewPool()
					}
					// hand the old object back first so that Get reuses it
					if err := st.pool.Put(st.chunk); err != nil {
						out = "err"
						return
					}
					ch, err = st.pool.Get(chunkenc.EncXOR2, b)
				}
				if err != nil {
					out = "err"
					return
				}
				app, err := ch.Appender()
				if err != nil {
					out = "err"
					c.Count("out:reopen-err")
					return
				}
				st.chunk, st.app = ch, app
				out = "ok"
			case "it":
				st.it = st.chunk.Iterator(nil)
				out = "ok"
			case "itreuse": // reuse the iterator object (Reset) whatever its position
				st.it = st.chunk.Iterator(st.it)
				out = "ok"
			case "next", "seek":
				if st.it == nil {
					return
				}
				var vt chunkenc.ValueType
				if f[0] == "next" {
					vt = st.it.Next()
				} else {
					t, _ := strconv.ParseInt(f[1], 10, 64)
					vt = st.it.Seek(t)
				}
				switch {
				case vt != chunkenc.ValNone:
					out = showSample(st.it)
				case st.it.Err() != nil:
					out = "err"
				default:
					out = "none"
				}
			}
		})
		if p {
			out = "panic"
			_ = pv
			c.Count("out:panic-" + f[0])
		}
		if judgeOnly {
			c.Op(op+" | "+out, "-")
		} else {
			c.Op(op, out)
		}
	}
}

// ---------------------------------------------------------------- generators

const two62 = int64(1) << 62
const staleNaN = uint64(0x7ff0000000000002)

var t0Pool = []int64{0, 1, -1, 1000, 1700000000000, 1700000000123, -1700000000000, -two62, -two62 + 1, two62 - 100000, 1 << 40, -(1 << 40), 63, 64, -64, -65, 8191, 8192}

// dod thresholds of XOR2 (13/20-bit symmetric ranges) and of classic XOR.
var dodEdges = []int64{
	0, 1, -1,
	-(1 << 12), -(1 << 12) - 1, -(1 << 12) + 1, 1<<12 - 1, 1 << 12, 1<<12 - 2, 1<<12 + 1,
	-(1 << 19), -(1 << 19) - 1, -(1 << 19) + 1, 1<<19 - 1, 1 << 19, 1<<19 - 2, 1<<19 + 1,
	-(1<<13 - 1), -(1 << 13), 1 << 13, 1<<13 - 1, 255, 256, -256, -257, 65535, 65536, -65536, -65537,
	-(1<<16 - 1), 1 << 16, -3, 4, -4, 5, -31, 32, -32, 33, -255, 257, -2047, 2048, -2048, 2049,
	1 << 31, -(1 << 31), 1 << 32, 1 << 40, -(1 << 40), 1 << 61, -(1 << 61),
}

// thresholds of putVarbitInt (ST delta-of-difference) and of the inlined ST paths of xor2Appender.Append.
var stEdges = []int64{
	0, 0, 0, 1, -1, -3, 4, -4, 5, -2, 3, -31, 32, -32, 33, -30, 31, -255, 256, -256, 257, -254, 255,
	-2047, 2048, -2048, 2049, -131071, 131072, -131072, 131073, -16777215, 16777216, -16777216, 16777217,
	-(1<<55 - 1), 1 << 55, -(1 << 55), 1<<55 + 1, 1 << 61, -(1 << 61), math.MaxInt64, math.MinInt64,
}

var valPool = []uint64{
	0, 0x8000000000000000, // ±0
	0x3ff0000000000000, 0x4000000000000000, 0x4008000000000000, 0x4059000000000000, // 1 2 3 100
	0x7ff0000000000000, 0xfff0000000000000, // ±Inf
	0x7ff8000000000001, staleNaN, // NaN, stale NaN
	0x7ff8000000000000, 0xfff8000000000001, 0x7ff0000000000001, 0x7ff0000000000003, 0xfff0000000000002, 0x7fffffffffffffff, 0xffffffffffffffff,
	1, 0x0010000000000000, 0x000fffffffffffff, 0x3fb999999999999a, 0x3fd3333333333333,
}

type tsGen struct {
	r      *h.Rng
	strict bool // keep the statement's hypotheses: strictly increasing, within ±2^62
	mode   int
	t      int64
	delta  int64
	n      int
	base   int64
}

func (g *tsGen) next(c *h.Ctx) (int64, bool) {
	r := g.r
	if g.n == 0 {
		g.n++
		g.t = h.PickI64(r, t0Pool)
		if r.Chance(30) {
			g.t = r.Range(-1<<41, 1<<41)
		}
		if !g.strict && r.Chance(40) {
			g.t = h.PickI64(r, h.I64Edges)
		}
		g.base = []int64{1, 10, 1000, 15000, 60000, 1 << 20}[r.Intn(6)]
		return g.t, true
	}
	var d int64
	if g.n == 1 {
		d = g.base
		if r.Chance(30) {
			d = []int64{1, 127, 128, 16383, 16384, 1 << 21, 1 << 35, 1 << 56, 1<<62 - 1, 1 << 62}[r.Intn(10)]
		}
	} else {
		var dod int64
		switch g.mode {
		case 0: // regular scrape, occasional jitter
			if r.Chance(15) {
				dod = r.Range(-20, 20)
			}
		case 1: // bucket boundaries
			if r.Chance(70) {
				dod = h.PickI64(r, dodEdges)
				c.Count("gen:dod-edge")
			}
		case 2: // arbitrary
			switch r.Intn(4) {
			case 0:
				dod = r.Range(-5000, 5000)
			case 1:
				dod = r.Range(-(1 << 20), 1<<20)
			case 2:
				dod = int64(r.U64() >> uint(r.Intn(40)))
				if r.Bool() {
					dod = -dod
				}
			}
		}
		d = g.delta + dod
	}
	if !g.strict {
		switch r.Intn(12) {
		case 0:
			d = 0
		case 1:
			d = -r.Range(1, 5000)
		case 2:
			d = int64(r.U64())
		}
		c.Count("gen:nonstrict-step")
	} else {
		if d <= 0 {
			// a negative dod that would cross zero: re-anchor on a delta large enough for negative edges later
			d = []int64{1, 2, 4097, 524289, 1 << 21}[r.Intn(5)]
		}
		if g.t > 0 && d > two62-g.t {
			d = 1 + r.Range(0, 3)
			if d > two62-g.t {
				return 0, false
			}
		}
	}
	g.n++
	g.t += d // wraps in non-strict mode, as intended
	g.delta = d
	return g.t, true
}

type valGen struct {
	r    *h.Rng
	mode int
	v    uint64
	f    float64
}

func (g *valGen) next(c *h.Ctx) uint64 {
	r := g.r
	switch g.mode {
	case 0: // constant with rare changes
		if r.Chance(8) {
			g.v = h.Pick(r, valPool)
		}
	case 1: // integer counter
		g.f += float64(r.Intn(5))
		g.v = math.Float64bits(g.f)
	case 2: // gauge-like decimals
		g.f = g.f + (r.Float()-0.5)*10
		g.v = math.Float64bits(math.Round(g.f*100) / 100)
	case 3: // window games: xor with a mask of chosen leading/trailing zeros
		lz := r.Intn(64)
		switch r.Intn(5) {
		case 0:
			lz = 0
		case 1:
			lz = 30 + r.Intn(5) // around the clamp to 31
		}
		tz := r.Intn(64 - lz)
		if r.Chance(25) {
			tz = 0
		}
		if r.Chance(10) {
			tz = 63 - lz
		}
		w := 64 - lz - tz // >= 1
		mask := uint64(1) << uint(w-1)
		if w > 1 {
			mask |= 1 | (r.U64() & (mask - 1))
		}
		if g.v == staleNaN {
			g.v = 0x4059000000000000
		}
		g.v ^= mask << uint(tz)
		c.Count(fmt.Sprintf("gen:xorwin-sig%d", (w+7)/8*8))
	case 4: // specials
		g.v = h.Pick(r, valPool)
	case 5: // random bits
		g.v = r.U64()
	case 6: // series going stale and coming back: runs of staleness markers between stable values
		switch x := r.Intn(100); {
		case x < 35:
			return g.emit(c, staleNaN) // marker; the running value stays
		case x < 50:
			g.v = h.Pick(r, valPool)
		case x < 60:
			g.v ^= 1 << uint(r.Intn(64))
		}
	}
	if r.Chance(3) {
		g.v = h.Pick(r, valPool)
	}
	return g.emit(c, g.v)
}

func (g *valGen) emit(c *h.Ctx, v uint64) uint64 {
	if v == staleNaN {
		c.Count("gen:stale-nan")
	}
	return v
}

// stGen produces start timestamps. The encoder stores stDiff_i = t_{i-1} - st_i and, once STs vary, the
// difference stDiff_i - stDiff_{i-1}; `jitter` draws that difference at the varbit bucket edges.
type stGen struct {
	r       *h.Rng
	mode    int
	n       int
	st      int64 // previous st
	prevT   int64 // t_{i-1}
	pprevT  int64 // t_{i-2}
	c1      int64
	lateAt  int
	lateTo  int
	changeK int
}

var stModes = []string{"none", "constant", "late", "jitter", "arbitrary", "change127", "resets"}

func newStGen(r *h.Rng) *stGen {
	g := &stGen{r: r, mode: r.Intn(len(stModes))}
	g.lateAt = []int{1, 2, 3, 5, 126, 127, 128, 129, 2 + r.Intn(200)}[r.Intn(9)]
	g.lateTo = []int{1, 3, 4, 6}[r.Intn(4)]
	g.changeK = 125 + r.Intn(6)
	return g
}

func (g *stGen) next(c *h.Ctx, t int64) int64 {
	r := g.r
	i := g.n
	if i == 0 {
		g.c1 = t - []int64{1, 1000, 15000, 3600000, 1 << 40, -5}[r.Intn(6)]
		if r.Chance(10) {
			g.c1 = h.PickI64(r, h.I64Edges)
		}
		if g.c1 == 0 {
			g.c1 = -1
		}
	}
	mode := g.mode
	if mode == 2 { // late: no ST for the first lateAt samples, then another pattern
		if i < g.lateAt {
			mode = 0
		} else {
			mode = g.lateTo
		}
	}
	var st int64
	switch mode {
	case 0:
		st = 0
	case 1:
		st = g.c1
	case 3: // jitter on the stored difference
		if i < 2 {
			st = t - 15000 + r.Range(-3, 3)
		} else {
			d := h.PickI64(r, stEdges)
			if r.Chance(40) {
				d = r.Range(-40, 40)
			}
			prevDiff := g.pprevT - g.st
			st = g.prevT - (prevDiff + d)
			c.Count("gen:st-delta-edge")
		}
	case 4:
		switch r.Intn(5) {
		case 0:
			st = h.PickI64(r, h.I64Edges)
		case 1:
			st = int64(r.U64())
		case 2:
			st = t - r.Range(0, 1<<20)
		case 3:
			st = 0
		default:
			st = g.st
		}
	case 5: // constant, one change exactly around the forced-header index 127
		if i < g.changeK {
			st = g.c1
		} else {
			st = g.c1 + 1 + int64(i-g.changeK)*int64(r.Intn(2))
		}
	case 6: // counter resets: constant, sometimes re-anchored just before the current sample
		st = g.st
		if i == 0 {
			st = g.c1
		} else if r.Chance(6) {
			st = g.prevT + 1
		}
	}
	g.n++
	g.pprevT, g.prevT, g.st = g.prevT, t, st
	if st != 0 {
		c.Count("gen:st-nonzero")
	}
	return st
}

func pickLen(c *h.Ctx, r *h.Rng) int {
	switch x := r.Intn(100); {
	case x < 30:
		return 1 + r.Intn(12)
	case x < 65:
		return 13 + r.Intn(108)
	case x < 80:
		return 124 + r.Intn(10) // around the forced ST header index 127
	case x < 98 || c.Tier != "thorough":
		return 121 + r.Intn(180)
	default:
		return 300 + r.Intn(2700)
	}
}

type sample struct {
	st, t int64
	v     uint64
}

func (s sample) op() string { return fmt.Sprintf("app %d %d %016x", s.st, s.t, s.v) }

func genSamples(c *h.Ctx, r *h.Rng, n int, strict bool) []sample {
	tg := &tsGen{r: r, strict: strict, mode: r.Intn(3)}
	vg := &valGen{r: r, mode: r.Intn(7), v: h.Pick(r, valPool), f: float64(r.Intn(1000))}
	sg := newStGen(r)
	c.Count("st:" + stModes[sg.mode])
	var out []sample
	for i := 0; i < n; i++ {
		if r.Chance(2) {
			tg.mode = r.Intn(3)
		}
		if r.Chance(2) {
			vg.mode = r.Intn(7)
		}
		if r.Chance(1) {
			sg.mode = r.Intn(len(stModes))
		}
		t, ok := tg.next(c)
		if !ok {
			break
		}
		out = append(out, sample{sg.next(c, t), t, vg.next(c)})
	}
	return out
}

// seekScript builds a random Next/Seek interleaving whose Seek targets sit at/around existing timestamps.
func seekScript(r *h.Rng, apps []sample, k int, first string) []string {
	ops := []string{first}
	pos := 0
	for i := 0; i < k; i++ {
		if r.Chance(35) {
			ops = append(ops, "next")
			pos++
			continue
		}
		if r.Chance(4) {
			ops = append(ops, "itreuse")
			pos = 0
			continue
		}
		var t int64
		switch r.Intn(6) {
		case 0:
			t = math.MinInt64
		case 1:
			t = math.MaxInt64
		case 2: // behind the cursor
			t = apps[r.Intn(len(apps))].t - r.Range(0, 2)
		default: // a little ahead of the cursor
			j := pos + r.Intn(8)
			if r.Chance(20) {
				j = r.Intn(len(apps) + 2)
			}
			if j >= len(apps) {
				t = apps[len(apps)-1].t + r.Range(0, 1)
			} else {
				t = apps[j].t + r.Range(-1, 1)
				pos = j
			}
		}
		ops = append(ops, fmt.Sprintf("seek %d", t))
	}
	return ops
}

func reopenOp(r *h.Rng) string {
	if r.Chance(30) {
		return "reopenpool"
	}
	return "reopen"
}

func main() {
	c := h.Init()
	defer c.Finish()
	if c.Replay != "" {
		for _, cs := range c.ReplayCases() {
			c.Case(strings.TrimPrefix(cs[0], "case "))
			runCase(c, cs[1:])
		}
		return
	}
	r := c.Rng
	for i := 0; i < c.N; i++ {
		strict := !r.Chance(10)
		kind := r.Intn(10)
		ops := []string{"new xor2"}
		switch {
		case kind < 4: // round trip + iterator script
			apps := genSamples(c, r, pickLen(c, r), strict)
			for _, a := range apps {
				ops = append(ops, a.op())
			}
			ops = append(ops, "bytes", "n", "iter")
			ops = append(ops, seekScript(r, apps, 4+r.Intn(20), "it")...)
			if r.Chance(30) {
				ops = append(ops, seekScript(r, apps, 2+r.Intn(8), "itreuse")...)
			}
			c.Count("kind:roundtrip+seek")
		case kind < 7: // reopen at every position of a short chunk (sometimes placed across index 127)
			n := 1 + r.Intn(24)
			pre := 0
			if r.Chance(15) {
				pre = 118 + r.Intn(8)
			}
			apps := genSamples(c, r, pre+n, strict)
			for k, a := range apps {
				ops = append(ops, a.op())
				if k >= pre {
					ops = append(ops, reopenOp(r))
				}
			}
			ops = append(ops, "bytes", "n", "iter")
			ops = append(ops, seekScript(r, apps, 3+r.Intn(6), "it")...)
			c.Count("kind:reopen-every")
		default: // one or two reopens at random positions of a longer chunk, often right after a staleness marker
			apps := genSamples(c, r, pickLen(c, r), strict)
			p1, p2 := r.Intn(len(apps)+1), r.Intn(len(apps)+1)
			if r.Chance(50) && p1 > 0 {
				apps[p1-1].v = staleNaN
				c.Count("gen:stale-before-reopen")
				if p1 < len(apps) && r.Chance(50) && p1 >= 2 {
					// and the sample after it keeps the cadence (dod = 0) when that stays strictly increasing
					nt := apps[p1-1].t + (apps[p1-1].t - apps[p1-2].t)
					if nt > apps[p1-1].t && (p1+1 >= len(apps) || nt < apps[p1+1].t) {
						apps[p1].t = nt
					}
				}
			}
			for k, a := range apps {
				if k == p1 || (k == p2 && r.Bool()) {
					if k > 0 && r.Chance(25) {
						ops = append(ops, seekScript(r, apps[:k], 2+r.Intn(5), "it")...)
					}
					ops = append(ops, reopenOp(r))
				}
				ops = append(ops, a.op())
			}
			if p1 == len(apps) {
				ops = append(ops, reopenOp(r))
			}
			ops = append(ops, "bytes", "n", "iter")
			if r.Chance(50) {
				ops = append(ops, seekScript(r, apps, 3+r.Intn(10), "it")...)
			}
			c.Count("kind:reopen-once")
		}
		c.Case(fmt.Sprintf("xor2-%d", i))
		if strict {
			c.Count("hyp:in-statement")
		} else {
			c.Count("hyp:outside-statement")
		}
		c.Count(fmt.Sprintf("len:<=%d", []int{12, 120, 300, 3000}[func() int {
			n := len(ops)
			switch {
			case n <= 40:
				return 0
			case n <= 160:
				return 1
			case n <= 340:
				return 2
			}
			return 3
		}()]))
		c.NonTrivial(strings.Join(ops, ";"))
		runCase(c, ops)
	}
	if c.Tier == "thorough" {
		// capacity edge: 65535 samples fit, the next Append panics
		ops := []string{"new xor2"}
		for k := 0; k < 65536; k++ {
			ops = append(ops, fmt.Sprintf("app %d %d %016x", int64(1000), int64(2000)+int64(k)*15000, uint64(0x3ff0000000000000)+uint64(k%3)))
		}
		ops = append(ops, "n", "iter")
		c.Case("capacity-xor2")
		c.Count("kind:capacity")
		runCase(c, ops)
	}
}
