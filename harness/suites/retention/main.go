// Suite retention (C09): block retention of tsdb/db.go on generated block layouts and settings.
//
// Two streams:
//
//	fast  — synthetic *tsdb.Block values (hook VerifSyntheticBlock) passed to the function returned by
//	        tsdb.DefaultBlocksToDelete (= deletableBlocks) and to BeyondTimeRetention/BeyondSizeRetention
//	        of one real, empty DB whose WAL/WBL/head-chunk directories are padded to a generated size.
//	e2e   — real tiny blocks on disk (tsdb.BlockWriter), real tsdb.Open with the generated retention
//	        options and a fake FsSizeFunc; observed: block directories on disk, DB.Blocks(), head data.
//
// Blocks are named by their index in the layout; ULIDs are built so that ULID order = index order.
package main

import (
	"context"
	"encoding/json"
	"fmt"
	"math"
	"os"
	"path/filepath"
	"runtime/pprof"
	"sort"
	"strconv"
	"strings"

	"github.com/prometheus/common/promslog"

	"github.com/prometheus/prometheus/model/labels"
	"github.com/prometheus/prometheus/storage"
	"github.com/prometheus/prometheus/tsdb"
	"github.com/prometheus/prometheus/tsdb/chunkenc"

	"verif/harness/h"
)

type blk struct {
	mint, maxt, size int64
	flag             bool
	parents          []int
}

type settings struct {
	r, mb  int64
	pct    float64
	pctStr string
	fs     uint64
}

// ---------------------------------------------------------------- parsing / printing

func parseBlocks(s string) ([]blk, error) {
	if s == "-" {
		return nil, nil
	}
	var out []blk
	for _, p := range strings.Split(s, ",") {
		f := strings.Split(p, ":")
		if len(f) != 5 {
			return nil, fmt.Errorf("bad block %q", p)
		}
		var b blk
		var err error
		if b.mint, err = strconv.ParseInt(f[0], 10, 64); err != nil {
			return nil, err
		}
		if b.maxt, err = strconv.ParseInt(f[1], 10, 64); err != nil {
			return nil, err
		}
		if b.size, err = strconv.ParseInt(f[2], 10, 64); err != nil {
			return nil, err
		}
		b.flag = f[3] == "1"
		if f[4] != "-" {
			for _, q := range strings.Split(f[4], "+") {
				n, err := strconv.Atoi(q)
				if err != nil {
					return nil, err
				}
				b.parents = append(b.parents, n)
			}
		}
		out = append(out, b)
	}
	return out, nil
}

func fmtBlocks(bs []blk) string {
	if len(bs) == 0 {
		return "-"
	}
	parts := make([]string, len(bs))
	for i, b := range bs {
		ps := "-"
		if len(b.parents) > 0 {
			q := make([]string, len(b.parents))
			for k, p := range b.parents {
				q[k] = strconv.Itoa(p)
			}
			ps = strings.Join(q, "+")
		}
		fl := "0"
		if b.flag {
			fl = "1"
		}
		parts[i] = fmt.Sprintf("%d:%d:%d:%s:%s", b.mint, b.maxt, b.size, fl, ps)
	}
	return strings.Join(parts, ",")
}

func parseSettings(f []string) (settings, error) {
	var s settings
	var err error
	if s.r, err = strconv.ParseInt(f[0], 10, 64); err != nil {
		return s, err
	}
	if s.mb, err = strconv.ParseInt(f[1], 10, 64); err != nil {
		return s, err
	}
	bits, err := strconv.ParseUint(f[2], 16, 64)
	if err != nil {
		return s, err
	}
	s.pct = math.Float64frombits(bits)
	s.pctStr = f[2]
	if s.fs, err = strconv.ParseUint(f[3], 10, 64); err != nil {
		return s, err
	}
	return s, nil
}

func (s settings) String() string {
	return fmt.Sprintf("%d %d %016x %d", s.r, s.mb, math.Float64bits(s.pct), s.fs)
}

func idList(ids []int) string {
	if len(ids) == 0 {
		return "-"
	}
	sort.Ints(ids)
	parts := make([]string, 0, len(ids))
	for i, v := range ids {
		if i > 0 && ids[i-1] == v {
			continue
		}
		if v < 0 {
			parts = append(parts, "?")
		} else {
			parts = append(parts, strconv.Itoa(v))
		}
	}
	return strings.Join(parts, ",")
}

// ulidFor builds a ULID whose string order follows i. The type comes from BlockMeta so that the
// harness does not import the ulid module itself.
func ulidFor(i int) (id tsdb.BlockMeta) {
	id.ULID[4] = byte((i + 1) >> 8)
	id.ULID[5] = byte(i + 1)
	id.ULID[15] = 0x5a
	return id
}

func indexOfULID(s string) int {
	for i := 0; i < 4096; i++ {
		if ulidFor(i).ULID.String() == s {
			return i
		}
	}
	return -1
}

// ---------------------------------------------------------------- shared real DB for the fast path

type fastDB struct {
	dir        string
	db         *tsdb.DB
	fs         uint64
	pad        [3]int64
	padFile    [3]string
	padInit    bool
	baseW      int64
	lastHeadSz int64
}

var fdb *fastDB
var nop = promslog.NewNopLogger()

func must(err error) {
	if err != nil {
		fmt.Fprintln(os.Stderr, "retention harness:", err)
		cleanup()
		os.Exit(3)
	}
}

var tmpRoots []string

func cleanup() {
	if fdb != nil && fdb.db != nil {
		fdb.db.Close()
		fdb.db = nil
	}
	for _, d := range tmpRoots {
		os.RemoveAll(d)
	}
}

// tmpBase prefers a tmpfs: the e2e path fsyncs every block file, which is slow and very noisy on a
// shared disk; retention does not depend on the filesystem type.
func tmpBase() string {
	if fi, err := os.Stat("/dev/shm"); err == nil && fi.IsDir() {
		return "/dev/shm"
	}
	return ""
}

func getFast() *fastDB {
	if fdb != nil {
		return fdb
	}
	dir, err := os.MkdirTemp(tmpBase(), "verif-C09-fast-")
	must(err)
	tmpRoots = append(tmpRoots, dir)
	f := &fastDB{dir: dir}
	opts := tsdb.DefaultOptions()
	opts.RetentionDuration = 0
	opts.OutOfOrderTimeWindow = 1000 // so that the WBL exists and Head.Size() has all three parts
	opts.FsSizeFunc = func(string) uint64 { return f.fs }
	db, err := tsdb.Open(dir, nop, nil, opts, nil)
	must(err)
	db.DisableCompactions()
	f.db = db
	f.padFile = [3]string{filepath.Join(dir, "wal", "pad"), filepath.Join(dir, "wbl", "pad"), filepath.Join(dir, "chunks_head", "pad")}
	for _, p := range f.padFile {
		must(os.WriteFile(p, nil, 0o644))
	}
	f.baseW = db.Head().Size() // whatever the empty WAL/WBL/head chunk dirs already hold (0 today)
	fdb = f
	return f
}

func (f *fastDB) setHead(w [3]int64) {
	for i := range w {
		if !f.padInit || f.pad[i] != w[i] {
			must(os.Truncate(f.padFile[i], w[i]))
			f.pad[i] = w[i]
		}
	}
	f.padInit = true
}

func runFast(c *h.Ctx, op string, f []string) {
	// fast R MB PCT FS W:B:C BLOCKS
	if len(f) != 7 {
		c.Op(op, "bad-op")
		return
	}
	s, err := parseSettings(f[1:5])
	if err != nil {
		c.Op(op, "bad-op")
		return
	}
	var hw [3]int64
	hp := strings.Split(f[5], ":")
	if len(hp) != 3 {
		c.Op(op, "bad-op")
		return
	}
	for i := range hp {
		if hw[i], err = strconv.ParseInt(hp[i], 10, 64); err != nil || hw[i] < 0 {
			c.Op(op, "bad-op")
			return
		}
	}
	bs, err := parseBlocks(f[6])
	if err != nil {
		c.Op(op, "bad-op")
		return
	}
	d := getFast()
	d.fs = s.fs
	d.setHead(hw)
	d.db.VerifSetRetention(s.r, s.mb, s.pct)

	blocks := make([]*tsdb.Block, len(bs))
	idx := map[string]int{}
	for i, b := range bs {
		m := ulidFor(i)
		m.MinTime, m.MaxTime = b.mint, b.maxt
		m.Compaction.Deletable = b.flag
		m.Compaction.Level = 1
		for _, p := range b.parents {
			pm := ulidFor(p)
			m.Compaction.Parents = append(m.Compaction.Parents, tsdb.BlockDesc{ULID: pm.ULID})
		}
		m.Version = 1
		blocks[i] = tsdb.VerifSyntheticBlock(m, b.size)
		idx[m.ULID.String()] = i
	}
	var out string
	panicked, pv := h.Try(func() {
		toIdx := func(keys []string) []int {
			ids := make([]int, 0, len(keys))
			for _, k := range keys {
				if i, ok := idx[k]; ok {
					ids = append(ids, i)
				} else {
					ids = append(ids, -1)
				}
			}
			return ids
		}
		var all, tm, sz []string
		for u := range tsdb.DefaultBlocksToDelete(d.db)(blocks) {
			all = append(all, u.String())
		}
		// deletableBlocks sorts its argument in place and hands that to the two retention functions;
		// do the same. If a rewrite sorts a copy instead, sort here (stable, same comparator).
		if !sort.SliceIsSorted(blocks, func(i, j int) bool { return blocks[i].Meta().MaxTime > blocks[j].Meta().MaxTime }) {
			sort.SliceStable(blocks, func(i, j int) bool { return blocks[i].Meta().MaxTime > blocks[j].Meta().MaxTime })
			c.Count("fast:resorted")
		}
		for u := range tsdb.BeyondTimeRetention(d.db, blocks) {
			tm = append(tm, u.String())
		}
		for u := range tsdb.BeyondSizeRetention(d.db, blocks) {
			sz = append(sz, u.String())
		}
		hs := d.db.Head().Size() - d.baseW
		out = fmt.Sprintf("time=%s size=%s all=%s head=%d", idList(toIdx(tm)), idList(toIdx(sz)), idList(toIdx(all)), hs)
		if len(tm) > 0 {
			c.Count("fast:time-deletes")
		}
		if len(sz) > 0 {
			c.Count("fast:size-deletes")
		}
		if len(all) == 0 {
			c.Count("fast:nothing-deleted")
		}
	})
	if panicked {
		out = "panic"
		c.Count("out:panic")
		_ = pv
	}
	c.Op(op, out)
}

// ---------------------------------------------------------------- end-to-end path

type e2e struct {
	dir     string
	db      *tsdb.DB
	n       int
	fs      uint64
	samples int
	series  int
}

func (e *e2e) close() {
	if e.db != nil {
		e.db.Close()
		e.db = nil
	}
	if e.dir != "" {
		os.RemoveAll(e.dir)
		e.dir = ""
	}
}

// writeBlock writes a real block holding one series with samples at mint and maxt-1 into dst, the way
// tsdb.BlockWriter does (head -> LeveledCompactor.Write), but with a small chunk segment size: the
// default preallocates 512 MiB per block, which dominates the run time on a tmpfs.
func writeBlock(dst string, mint, maxt int64) (string, error) {
	ctx := context.Background()
	chunkDir, err := os.MkdirTemp(tmpBase(), "verif-C09-head-")
	if err != nil {
		return "", err
	}
	defer os.RemoveAll(chunkDir)
	opts := tsdb.DefaultHeadOptions()
	opts.ChunkRange = int64(1) << 50
	opts.ChunkDirRoot = chunkDir
	opts.StripeSize = 64
	hd, err := tsdb.NewHead(nil, nop, nil, nil, opts, tsdb.NewHeadStats())
	if err != nil {
		return "", err
	}
	defer hd.Close()
	if err := hd.Init(math.MinInt64); err != nil {
		return "", err
	}
	app := hd.Appender(ctx)
	l := labels.FromStrings("__name__", "m", "b", "x")
	ref, err := app.Append(0, l, mint, 1)
	if err != nil {
		return "", err
	}
	if maxt-1 > mint {
		if _, err := app.Append(ref, l, maxt-1, 2); err != nil {
			return "", err
		}
	}
	if err := app.Commit(); err != nil {
		return "", err
	}
	comp, err := tsdb.NewLeveledCompactorWithOptions(ctx, nil, nop, []int64{int64(1) << 50}, chunkenc.NewPool(),
		tsdb.LeveledCompactorOptions{MaxBlockChunkSegmentSize: 1 << 16, EnableOverlappingCompaction: true})
	if err != nil {
		return "", err
	}
	ids, err := comp.Write(dst, hd, hd.MinTime(), hd.MaxTime()+1, nil)
	if err != nil {
		return "", err
	}
	if len(ids) != 1 {
		return "", fmt.Errorf("compactor wrote %d blocks", len(ids))
	}
	return filepath.Join(dst, ids[0].String()), nil
}

var (
	templates   = map[[2]int64]string{}
	templateDir string
)

func copyTree(src, dst string) error {
	return filepath.Walk(src, func(p string, fi os.FileInfo, err error) error {
		if err != nil {
			return err
		}
		rel, _ := filepath.Rel(src, p)
		if fi.IsDir() {
			return os.MkdirAll(filepath.Join(dst, rel), 0o777)
		}
		b, err := os.ReadFile(p)
		if err != nil {
			return err
		}
		return os.WriteFile(filepath.Join(dst, rel), b, 0o666)
	})
}

// makeBlock puts a real block [mint,maxt) into dir under the ULID of index i: the block is written once
// per distinct time range (writeBlock) and copied from then on; meta.json is rewritten (ULID, parents,
// deletable flag) and padded with trailing blanks so that Block.Size() = size.
func makeBlock(dir string, i int, b blk) error {
	if b.maxt <= b.mint {
		return fmt.Errorf("block %d: maxt <= mint", i)
	}
	key := [2]int64{b.mint, b.maxt}
	tpl, ok := templates[key]
	if !ok {
		if templateDir == "" {
			d, err := os.MkdirTemp(tmpBase(), "verif-C09-tpl-")
			if err != nil {
				return err
			}
			templateDir = d
			tmpRoots = append(tmpRoots, d)
		}
		var err error
		if tpl, err = writeBlock(templateDir, b.mint, b.maxt); err != nil {
			return err
		}
		templates[key] = tpl
	}
	old := filepath.Join(dir, "incoming")
	if err := copyTree(tpl, old); err != nil {
		return err
	}
	raw, err := os.ReadFile(filepath.Join(old, "meta.json"))
	if err != nil {
		return err
	}
	var m tsdb.BlockMeta
	if err := json.Unmarshal(raw, &m); err != nil {
		return err
	}
	if m.MinTime != b.mint || m.MaxTime != b.maxt {
		return fmt.Errorf("block %d: written range %d..%d, wanted %d..%d", i, m.MinTime, m.MaxTime, b.mint, b.maxt)
	}
	m.ULID = ulidFor(i).ULID
	m.Compaction.Sources = m.Compaction.Sources[:0]
	m.Compaction.Sources = append(m.Compaction.Sources, m.ULID)
	m.Compaction.Deletable = b.flag
	m.Compaction.Parents = nil
	for _, p := range b.parents {
		m.Compaction.Parents = append(m.Compaction.Parents, tsdb.BlockDesc{ULID: ulidFor(p).ULID})
	}
	if len(b.parents) > 0 {
		m.Compaction.Level = 2
	}
	nw := filepath.Join(dir, m.ULID.String())
	if err := os.Rename(old, nw); err != nil {
		return err
	}
	js, err := json.MarshalIndent(&m, "", "\t")
	if err != nil {
		return err
	}
	if err := os.WriteFile(filepath.Join(nw, "meta.json"), js, 0o644); err != nil {
		return err
	}
	pb, err := tsdb.OpenBlock(nop, nw, chunkenc.NewPool(), nil)
	if err != nil {
		return err
	}
	natural := pb.Size()
	pb.Close()
	if natural > b.size {
		return fmt.Errorf("block %d: natural size %d > requested %d", i, natural, b.size)
	}
	js = append(js, []byte(strings.Repeat(" ", int(b.size-natural)))...)
	return os.WriteFile(filepath.Join(nw, "meta.json"), js, 0o644)
}

func dirSize(d string) int64 {
	var n int64
	filepath.Walk(d, func(_ string, fi os.FileInfo, err error) error {
		if err == nil && !fi.IsDir() {
			n += fi.Size()
		}
		return nil
	})
	return n
}

// padHead makes wal+wbl+chunks_head hold exactly hsz bytes by resizing wal/pad.
func (e *e2e) padHead(hsz int64) error {
	must(os.MkdirAll(filepath.Join(e.dir, "wal"), 0o777))
	pad := filepath.Join(e.dir, "wal", "pad")
	if err := os.WriteFile(pad, nil, 0o644); err != nil {
		return err
	}
	nat := dirSize(filepath.Join(e.dir, "wal")) + dirSize(filepath.Join(e.dir, "wbl")) + dirSize(filepath.Join(e.dir, "chunks_head"))
	if nat > hsz {
		return fmt.Errorf("head files hold %d bytes > requested %d", nat, hsz)
	}
	return os.Truncate(pad, hsz-nat)
}

func (e *e2e) open(s settings) error {
	opts := tsdb.DefaultOptions()
	opts.RetentionDuration = s.r
	opts.MaxBytes = s.mb
	opts.MaxPercentage = s.pct
	opts.StripeSize = 64
	e.fs = s.fs
	opts.FsSizeFunc = func(string) uint64 { return e.fs }
	db, err := tsdb.Open(e.dir, nop, nil, opts, nil)
	if err != nil {
		return err
	}
	db.DisableCompactions()
	e.db = db
	return nil
}

func (e *e2e) headSamples() (int, error) {
	q, err := tsdb.NewBlockQuerier(e.db.Head(), math.MinInt64, math.MaxInt64)
	if err != nil {
		return 0, err
	}
	defer q.Close()
	ss := q.Select(context.Background(), false, nil, labels.MustNewMatcher(labels.MatchRegexp, "__name__", ".+"))
	n := 0
	var it chunkenc.Iterator
	for ss.Next() {
		it = ss.At().Iterator(it)
		for it.Next() != chunkenc.ValNone {
			n++
		}
	}
	return n, ss.Err()
}

func (e *e2e) observe(wantHead int64) string {
	var onDisk []int
	tmp := 0
	ents, err := os.ReadDir(e.dir)
	if err != nil {
		return "err readdir"
	}
	for _, en := range ents {
		if !en.IsDir() {
			continue
		}
		switch en.Name() {
		case "wal", "wbl", "chunks_head":
			continue
		}
		if i := indexOfULID(en.Name()); i >= 0 && i < e.n {
			onDisk = append(onDisk, i)
		} else {
			tmp++
		}
	}
	present := map[int]bool{}
	for _, i := range onDisk {
		present[i] = true
	}
	var deleted []int
	for i := 0; i < e.n; i++ {
		if !present[i] {
			deleted = append(deleted, i)
		}
	}
	var loaded []int
	for _, b := range e.db.Blocks() {
		loaded = append(loaded, indexOfULID(b.Meta().ULID.String()))
	}
	ns, err := e.headSamples()
	if err != nil {
		return "err headquery"
	}
	out := fmt.Sprintf("deleted=%s loaded=%s head=%d:%d:%d", idList(deleted), idList(loaded), e.db.Head().Size(), e.db.Head().NumSeries(), ns)
	if tmp > 0 {
		out += fmt.Sprintf(" stray=%d", tmp)
	}
	_ = wantHead
	return out
}

func runE2E(c *h.Ctx, ops []string) {
	e := &e2e{}
	defer e.close()
	for _, op := range ops {
		f := strings.Fields(op)
		var out string
		panicked, pv := h.Try(func() {
			switch f[0] {
			case "open": // open R MB PCT FS H BLOCKS
				if len(f) != 7 || e.dir != "" {
					out = "bad-op"
					return
				}
				s, err := parseSettings(f[1:5])
				hsz, err2 := strconv.ParseInt(f[5], 10, 64)
				bs, err3 := parseBlocks(f[6])
				if err != nil || err2 != nil || err3 != nil || hsz < 0 {
					out = "bad-op"
					return
				}
				dir, err := os.MkdirTemp(tmpBase(), "verif-C09-e2e-")
				must(err)
				tmpRoots = append(tmpRoots, dir)
				e.dir, e.n = dir, len(bs)
				for i, b := range bs {
					if err := makeBlock(dir, i, b); err != nil {
						out = "setup-error " + strings.ReplaceAll(err.Error(), "\t", " ")
						return
					}
				}
				if err := e.padHead(hsz); err != nil {
					out = "setup-error " + err.Error()
					return
				}
				if err := e.open(s); err != nil {
					out = "err open"
					return
				}
				out = e.observe(hsz)
			case "append": // append K T : K new series with one sample at T each
				if len(f) != 3 || e.db == nil {
					out = "bad-op"
					return
				}
				k, err := strconv.Atoi(f[1])
				t, err2 := strconv.ParseInt(f[2], 10, 64)
				if err != nil || err2 != nil {
					out = "bad-op"
					return
				}
				app := e.db.Appender(context.Background())
				for j := 0; j < k; j++ {
					e.series++
					if _, err := app.Append(0, labels.FromStrings("__name__", "h", "s", strconv.Itoa(e.series)), t, float64(j)); err != nil {
						app.Rollback()
						out = "err append"
						return
					}
				}
				if err := app.Commit(); err != nil {
					out = "err commit"
					return
				}
				out = "ok"
			case "reload", "reopen": // reload R MB PCT FS H
				if len(f) != 6 || e.db == nil {
					out = "bad-op"
					return
				}
				s, err := parseSettings(f[1:5])
				hsz, err2 := strconv.ParseInt(f[5], 10, 64)
				if err != nil || err2 != nil || hsz < 0 {
					out = "bad-op"
					return
				}
				if f[0] == "reopen" {
					if err := e.db.Close(); err != nil {
						out = "err close"
						return
					}
					e.db = nil
					if err := e.padHead(hsz); err != nil {
						out = "setup-error " + err.Error()
						return
					}
					if err := e.open(s); err != nil {
						out = "err open"
						return
					}
				} else {
					if err := e.padHead(hsz); err != nil {
						out = "setup-error " + err.Error()
						return
					}
					e.fs = s.fs
					e.db.VerifSetRetention(s.r, s.mb, s.pct)
					if err := e.db.VerifReloadBlocks(); err != nil {
						out = "err reload"
						return
					}
				}
				out = e.observe(hsz)
			default:
				out = "bad-op"
			}
		})
		if panicked {
			out = "panic"
			c.Count("out:panic")
			_ = pv
		}
		if strings.HasPrefix(out, "setup-error") {
			c.Count("out:setup-error")
		}
		c.Op(op, out)
	}
}

var _ storage.Appender // keep the import explicit: e2e appends go through storage.Appender

func runCase(c *h.Ctx, ops []string) {
	if len(ops) > 0 && !strings.HasPrefix(ops[0], "fast ") {
		runE2E(c, ops)
		return
	}
	for _, op := range ops {
		f := strings.Fields(op)
		if len(f) > 0 && f[0] == "fast" {
			runFast(c, op, f)
		} else {
			c.Op(op, "bad-op")
		}
	}
}

func main() {
	c := h.Init()
	if pf := os.Getenv("VERIF_CPUPROFILE"); pf != "" {
		f, err := os.Create(pf)
		must(err)
		must(pprof.StartCPUProfile(f))
		defer pprof.StopCPUProfile()
	}
	defer cleanup()
	defer c.Finish()
	if c.Replay != "" {
		for _, cs := range c.ReplayCases() {
			c.Case(strings.TrimPrefix(cs[0], "case "))
			runCase(c, cs[1:])
		}
		return
	}
	generate(c)
}
