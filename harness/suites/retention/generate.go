package main

import (
	"fmt"
	"math"
	"math/big"
	"sort"
	"strings"

	"verif/harness/h"
)

// Natural size of a one-series/two-sample block is a little under 700 bytes (index+chunks+meta with
// up to three parents); e2e sizes start above that and are reached by padding meta.json.
const e2eMinSize = 1500

var pctPool = []float64{0.1, 0.5, 1, 3.3, 25, 33.3, 50, 99.9, 100, 150, 1e-9, 1e9, 5e-324, 1e308, math.Inf(1)}
var pctOff = []float64{0, math.Copysign(0, -1), -1, math.NaN(), math.Inf(-1), -1e-300}
var fsPool = []uint64{1, 999, 1000, 12345, 1 << 20, 1<<53 + 1, 1 << 62, 1 << 63, math.MaxUint64, 1<<63 + 1025}

func fitsI64(x *big.Int) bool { return x.IsInt64() }

// sortedDesc returns indices ordered by maxt descending, ties in index order (generator-side only, used
// to aim limits at boundaries; it is not an oracle).
func sortedDesc(bs []blk) []int {
	ix := make([]int, len(bs))
	for i := range ix {
		ix[i] = i
	}
	sort.SliceStable(ix, func(a, b int) bool { return bs[ix[a]].maxt > bs[ix[b]].maxt })
	return ix
}

func genRetention(r *h.Rng, c *h.Ctx, bs []blk) int64 {
	if len(bs) == 0 {
		return r.Range(0, 20)
	}
	newest := bs[sortedDesc(bs)[0]].maxt
	p := r.Intn(100)
	switch {
	case p < 18:
		c.Count("R:zero")
		return 0
	case p < 62:
		j := r.Intn(len(bs))
		d := new(big.Int).Sub(big.NewInt(newest), big.NewInt(bs[j].maxt))
		d.Add(d, big.NewInt(r.Range(-1, 1)))
		if fitsI64(d) {
			c.Count("R:boundary")
			return d.Int64()
		}
		c.Count("R:huge")
		return math.MaxInt64
	case p < 75:
		c.Count("R:small")
		return r.Range(1, 30)
	case p < 83:
		c.Count("R:large")
		return h.PickI64(r, []int64{1 << 40, math.MaxInt64, math.MaxInt64 - 1})
	case p < 88:
		c.Count("R:negative")
		return h.PickI64(r, []int64{-1, -5, math.MinInt64, -100})
	default:
		c.Count("R:random")
		return r.Range(1, 120)
	}
}

// genLimit picks MaxBytes (and possibly a percentage + fs size hitting the same limit).
func genLimit(r *h.Rng, c *h.Ctx, bs []blk, head int64, live []bool) (mb int64, pct float64, fs uint64) {
	order := sortedDesc(bs)
	total := big.NewInt(head)
	var prefixes []*big.Int
	prefixes = append(prefixes, new(big.Int).Set(total))
	for _, i := range order {
		total = new(big.Int).Add(total, big.NewInt(bs[i].size))
		prefixes = append(prefixes, total)
	}
	if live != nil && r.Chance(40) { // aim at the prefix sums over live blocks only
		t := big.NewInt(head)
		prefixes = []*big.Int{new(big.Int).Set(t)}
		for _, i := range order {
			if live[i] {
				t = new(big.Int).Add(t, big.NewInt(bs[i].size))
				prefixes = append(prefixes, t)
			}
		}
	}
	boundary := func() (int64, bool) {
		v := new(big.Int).Add(prefixes[r.Intn(len(prefixes))], big.NewInt(r.Range(-1, 1)))
		if fitsI64(v) {
			return v.Int64(), true
		}
		return 0, false
	}
	p := r.Intn(100)
	switch {
	case p < 18:
		c.Count("MB:zero")
		mb = 0
	case p < 21:
		c.Count("MB:negative")
		mb = h.PickI64(r, []int64{-1, math.MinInt64})
	case p < 68:
		if v, ok := boundary(); ok {
			c.Count("MB:boundary")
			mb = v
		} else {
			mb = math.MaxInt64
		}
	case p < 76:
		c.Count("MB:large")
		mb = h.PickI64(r, []int64{1 << 50, math.MaxInt64})
	default:
		c.Count("MB:random")
		hi := int64(1 << 20)
		if total.IsInt64() && total.Int64() > 0 {
			hi = total.Int64() + 5
		}
		mb = r.Range(1, hi)
	}
	q := r.Intn(100)
	switch {
	case q < 72:
		pct = 0
		if r.Chance(10) {
			pct = h.Pick(r, pctOff)
			c.Count("pct:not-positive")
		}
		if r.Chance(20) {
			fs = h.Pick(r, fsPool)
		}
	case q < 76:
		c.Count("pct:fs-unknown")
		pct = h.Pick(r, pctPool)
		fs = 0
	case q < 90:
		v, ok := boundary()
		if ok && v > 0 && v < 1<<40 {
			c.Count("pct:boundary")
			switch r.Intn(5) {
			case 0:
				pct, fs = 1, uint64(v)*100
			case 1:
				pct, fs = 25, uint64(v)*4
			case 2:
				pct, fs = 100, uint64(v)
			case 3:
				pct, fs = 0.1, uint64(v)*1000
			default:
				pct, fs = 33.3, uint64(float64(v)*100/33.3)
			}
		} else {
			pct, fs = h.Pick(r, pctPool), h.Pick(r, fsPool)
			c.Count("pct:pool")
		}
	default:
		pct, fs = h.Pick(r, pctPool), h.Pick(r, fsPool)
		c.Count("pct:pool")
	}
	return mb, pct, fs
}

func genFast(r *h.Rng, c *h.Ctx) string {
	var n int
	switch p := r.Intn(100); {
	case p < 2:
		n = 0
	case p < 9:
		n = 1
	case p < 94:
		n = int(r.Range(2, 10))
	default:
		n = int(r.Range(11, 12))
	}
	mode := r.Intn(100)
	extremes := []int64{math.MinInt64, math.MinInt64 + 1, -1, 0, 1, math.MaxInt64 - 1, math.MaxInt64}
	bs := make([]blk, n)
	sizeMode := r.Intn(100)
	for i := range bs {
		var maxt int64
		switch {
		case mode < 65:
			maxt = 100 + 10*r.Range(0, 6)
		case mode < 88:
			maxt = r.Range(-1000, 1000)
		default:
			if r.Chance(50) {
				maxt = h.PickI64(r, extremes)
			} else {
				maxt = r.Range(-50, 50)
			}
		}
		mint := maxt
		if maxt >= math.MinInt64+41 {
			mint = maxt - r.Range(1, 40)
		}
		var size int64
		switch {
		case sizeMode < 85:
			size = r.Range(0, 50)
		case sizeMode < 97:
			size = h.PickI64(r, []int64{0, 1, 1 << 20, 1 << 40, 123456789})
		default:
			size = h.PickI64(r, []int64{math.MaxInt64, math.MaxInt64 / 2, 1 << 62, 7})
		}
		b := blk{mint: mint, maxt: maxt, size: size, flag: r.Chance(12)}
		if r.Chance(15) {
			for k := int(r.Range(1, 2)); k > 0; k-- {
				b.parents = append(b.parents, r.Intn(n+2))
			}
		}
		bs[i] = b
	}
	var hw [3]int64
	if r.Chance(55) {
		for i := range hw {
			if r.Chance(70) {
				hw[i] = r.Range(0, 20)
			}
		}
		if r.Chance(5) {
			hw[r.Intn(3)] = 1 << 20
		}
	}
	head := hw[0] + hw[1] + hw[2]
	R := genRetention(r, c, bs)
	mb, pct, fs := genLimit(r, c, bs, head, nil)
	// distribution bookkeeping
	seen := map[int64]bool{}
	for _, b := range bs {
		if seen[b.maxt] {
			c.Count("layout:maxt-tie")
			break
		}
		seen[b.maxt] = true
	}
	if n > 0 {
		newest := bs[sortedDesc(bs)[0]].maxt
		for _, b := range bs {
			d := new(big.Int).Sub(big.NewInt(newest), big.NewInt(b.maxt))
			if !d.IsInt64() {
				c.Count("layout:time-overflow")
				break
			}
		}
		for _, b := range bs {
			if R != 0 && b.maxt != newest {
				d := new(big.Int).Sub(big.NewInt(newest), big.NewInt(b.maxt))
				if d.IsInt64() && d.Int64() == R {
					c.Count("boundary:diff==R")
					break
				}
			}
		}
	}
	c.Count(fmt.Sprintf("blocks:%d", n))
	s := settings{r: R, mb: mb, pct: pct, fs: fs}
	return fmt.Sprintf("fast %s %d:%d:%d %s", s.String(), hw[0], hw[1], hw[2], fmtBlocks(bs))
}

func genE2E(r *h.Rng, c *h.Ctx) []string {
	n := int(r.Range(1, 6))
	bs := make([]blk, 0, n+1)
	for i := 0; i < n; i++ {
		// a small grid of time ranges: ties and overlaps are frequent and written blocks can be reused
		mint := 100 * r.Range(0, 8)
		if r.Chance(8) {
			mint += 50 // unaligned / partial-view blocks
		}
		maxt := mint + 100*r.Range(1, 3)
		if r.Chance(6) {
			maxt = mint + 150
		}
		bs = append(bs, blk{mint: mint, maxt: maxt, size: e2eMinSize + 10*r.Range(0, 60), flag: r.Chance(8)})
	}
	switch p := r.Intn(100); {
	case p < 40 && n >= 2:
		// interrupted compaction: child written, parents still on disk
		k := int(r.Range(2, 3))
		if k > n {
			k = n
		}
		perm := make([]int, n)
		for i := range perm {
			perm[i] = i
		}
		for i := n - 1; i > 0; i-- {
			j := r.Intn(i + 1)
			perm[i], perm[j] = perm[j], perm[i]
		}
		ps := perm[:k]
		sort.Ints(ps)
		mint, maxt := int64(math.MaxInt64), int64(math.MinInt64)
		var sz int64
		for _, p := range ps {
			mint, maxt = min(mint, bs[p].mint), max(maxt, bs[p].maxt)
			sz += bs[p].size
		}
		child := blk{mint: mint, maxt: maxt, size: max(e2eMinSize, sz-10*r.Range(0, 100)), parents: append([]int{}, ps...)}
		bs = append(bs, child)
		c.Count("e2e:interrupted-compaction")
	case p < 50:
		// arbitrary parent references: missing blocks, itself, newer blocks
		i := r.Intn(n)
		for k := int(r.Range(1, 2)); k > 0; k-- {
			bs[i].parents = append(bs[i].parents, r.Intn(n+2))
		}
		c.Count("e2e:arbitrary-parents")
	}
	live := make([]bool, len(bs))
	for i := range live {
		live[i] = !bs[i].flag
	}
	for _, b := range bs {
		for _, p := range b.parents {
			if p < len(bs) {
				live[p] = false
			}
		}
	}
	newest := bs[sortedDesc(bs)[0]].maxt
	withHead := r.Chance(40)
	headSz := func() int64 {
		if withHead {
			return 70000 + r.Range(0, 3000)
		}
		if r.Chance(50) {
			return 0
		}
		return r.Range(1, 3000)
	}
	mk := func() (settings, int64) {
		hs := headSz()
		R := genRetention(r, c, bs)
		if R < 0 && r.Chance(70) {
			R = -R
			if R < 0 {
				R = 1
			}
		}
		mb, pct, fs := genLimit(r, c, bs, hs, live)
		return settings{r: R, mb: mb, pct: pct, fs: fs}, hs
	}
	var ops []string
	s, hs := mk()
	if withHead {
		// the WAL is empty at the first open; keep the first head small unless samples follow later
		hs = r.Range(0, 3000)
		s.mb, s.pct, s.fs = genLimit(r, c, bs, hs, live)
	}
	ops = append(ops, fmt.Sprintf("open %s %d %s", s.String(), hs, fmtBlocks(bs)))
	if withHead {
		ops = append(ops, fmt.Sprintf("append %d %d", r.Range(1, 3), newest+r.Range(0, 50)))
		c.Count("e2e:with-head-samples")
	}
	for k := int(r.Range(0, 2)); k > 0; k-- {
		s, hs := mk()
		kind := "reload"
		if r.Chance(35) {
			kind = "reopen"
		}
		c.Count("e2e:" + kind)
		ops = append(ops, fmt.Sprintf("%s %s %d", kind, s.String(), hs))
		if withHead && r.Chance(30) {
			ops = append(ops, fmt.Sprintf("append %d %d", r.Range(1, 2), newest+60+r.Range(0, 50)))
		}
	}
	c.Count(fmt.Sprintf("e2e-blocks:%d", len(bs)))
	return ops
}

func generate(c *h.Ctx) {
	r := c.Rng
	// e2e volume: one in 60 of N, at least 40.
	ne := max(40, c.N/60)
	if v, ok := c.Extra["e2e"]; ok {
		fmt.Sscanf(v, "%d", &ne)
	}
	for i := 0; i < c.N; i++ {
		c.Case(fmt.Sprintf("f%d", i))
		op := genFast(r, c)
		c.NonTrivial(op)
		runCase(c, []string{op})
		c.Count("stream:fast")
	}
	for i := 0; i < ne; i++ {
		c.Case(fmt.Sprintf("e%d", i))
		ops := genE2E(r, c)
		c.NonTrivial(strings.Join(ops, ";"))
		runCase(c, ops)
		c.Count("stream:e2e")
	}
}
