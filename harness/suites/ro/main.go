// Suites ro / oooro (C53): a read-only open returns what a read-write open would, and changes nothing.
//
// Histories on a real tsdb.DB as in suite db; at `roq` / `rofl` ops the data directory (after a
// clean Close, or a copy taken while the DB is still open = unclean shutdown) is opened with
// tsdb.OpenDBReadOnly and compared with a read-write open of the same directory.
//
// ops:  cfg <chunkRange> <oooWindow> <samplesPerChunk>      (first line of a case; opens the DB)
//
//	begin | app <s> <t> <vbits-hex> | commit | rollback
//	del <mint> <maxt> <s|*> | compact | cleantomb | reopen
//	q <mint> <maxt>      -> s<i>=t:v,t:v;…   (series with ≥1 sample, by index; "-" if none)
//	cooo | cstale | csel <s>                 (stream ooo only: CompactOOOHead, CompactStaleHead,
//	                                          CompactSelectedSeries of series s)
//	roq <mint> <maxt> <in|out> <clean|copy>
//	   -> ro=<rows> rw=<rows> tree=<same|…> bsort=<ok|bad> rocut=<t|none> rwcut=<t|none> lasthint=<-|ooo+stale+sel>
//	   clean: Close the DB, hash the tree, OpenDBReadOnly(dir, sandbox inside|outside), Blocks(),
//	          Querier(mint,maxt), Close, hash again; then reopen read-write (the history continues on
//	          it) and run the same query: rw=.
//	   copy:  the same on a copy of the directory taken while the DB stays open; rw= comes from a
//	          read-write open of that copy; the live DB is not touched.
//	   rocut = MaxTime of the last block returned by DBReadOnly.Blocks(); rwcut = max MaxTime over
//	   the blocks without out-of-order / stale-series / selected-series hint (what the read-write
//	   open passes to Head.Init); lasthint = hints of that last block.
//	rofl <in|out> <clean|copy>
//	   -> fl=<rows> hd=<rows> tree=<…>      DBReadOnly.FlushWAL into a fresh directory; fl = contents
//	   of the written block ("-" if none), hd = contents of the head of a read-write open of the
//	   same directory.
//
// Stream selection (-x stream=ooo, suite oooro): histories with out-of-order ingestion and the three
// hinted compactions. The Lean model has no out-of-order stage yet, so in that stream every output
// line is the constant "-" and the observations of roq/rofl travel as data in the op line itself
// (`roq … | ro=… rw=… tree=… …`); only the judge evaluates them. On replay everything from " | " on is
// dropped and recomputed.
package main

import (
	"context"
	"crypto/sha256"
	"errors"
	"fmt"
	"io"
	"io/fs"
	"math"
	"os"
	"path/filepath"
	"sort"
	"strconv"
	"strings"

	"github.com/prometheus/common/promslog"

	"github.com/prometheus/prometheus/model/labels"
	"github.com/prometheus/prometheus/storage"
	"github.com/prometheus/prometheus/tsdb"
	"github.com/prometheus/prometheus/tsdb/chunkenc"

	"verif/harness/h"
)

// Scratch directories live on tmpfs when there is one: the histories open, close and fsync small
// databases thousands of times. Data dir, copies and the outside sandbox share one file system (the
// sandbox hard-links the head chunk files).
var tmpBase = func() string {
	if d := os.Getenv("VERIF_TMP"); d != "" {
		return d
	}
	if st, err := os.Stat("/dev/shm"); err == nil && st.IsDir() {
		if d, err := os.MkdirTemp("/dev/shm", "vprobe"); err == nil {
			os.Remove(d)
			return "/dev/shm"
		}
	}
	return ""
}()

type env struct {
	dir  string
	db   *tsdb.DB
	opts *tsdb.Options
	app  storage.Appender
}

func (e *env) open() error {
	db, err := tsdb.Open(e.dir, promslog.NewNopLogger(), nil, e.opts, nil)
	if err != nil {
		return err
	}
	db.DisableCompactions()
	e.db = db
	return nil
}

func (e *env) close() {
	if e.app != nil {
		e.app.Rollback()
		e.app = nil
	}
	if e.db != nil {
		e.db.Close()
		e.db = nil
	}
}

func lbls(s int) labels.Labels {
	return labels.FromStrings("__name__", "m", "s", strconv.Itoa(s))
}

func clean(s string) string {
	return strings.NewReplacer(" ", "_", "\t", "_", "\n", "_").Replace(s)
}

func errClass(err error) string {
	switch {
	case err == nil:
		return "ok"
	case errors.Is(err, storage.ErrOutOfBounds):
		return "oob"
	case errors.Is(err, storage.ErrOutOfOrderSample):
		return "ooo"
	case errors.Is(err, storage.ErrTooOldSample):
		return "tooold"
	case errors.Is(err, storage.ErrDuplicateSampleForTimestamp):
		return "dup"
	default:
		return "err:" + clean(err.Error())
	}
}

func queryRows(q storage.Querier) string {
	ss := q.Select(context.Background(), true, nil, labels.MustNewMatcher(labels.MatchEqual, "__name__", "m"))
	type ser struct {
		idx int
		s   string
	}
	var out []ser
	for ss.Next() {
		s := ss.At()
		idx, _ := strconv.Atoi(s.Labels().Get("s"))
		it := s.Iterator(nil)
		var parts []string
		for vt := it.Next(); vt != chunkenc.ValNone; vt = it.Next() {
			if vt != chunkenc.ValFloat {
				parts = append(parts, "nonfloat")
				continue
			}
			t, v := it.At()
			parts = append(parts, fmt.Sprintf("%d:%016x", t, math.Float64bits(v)))
		}
		if it.Err() != nil {
			return "err:" + clean(it.Err().Error())
		}
		if len(parts) > 0 {
			out = append(out, ser{idx, fmt.Sprintf("s%d=%s", idx, strings.Join(parts, ","))})
		}
	}
	if ss.Err() != nil {
		return "err:" + clean(ss.Err().Error())
	}
	sort.SliceStable(out, func(i, j int) bool { return out[i].idx < out[j].idx })
	if len(out) == 0 {
		return "-"
	}
	parts := make([]string, len(out))
	for i, s := range out {
		parts[i] = s.s
	}
	return strings.Join(parts, ";")
}

func (e *env) query(db *tsdb.DB, mint, maxt int64) string {
	q, err := db.Querier(mint, maxt)
	if err != nil {
		return "err:" + clean(err.Error())
	}
	defer q.Close()
	return queryRows(q)
}

// ---------------------------------------------------------------- file tree

// hashTree maps every path below root (relative, "/"-separated) to "d" for directories and the
// SHA-256 of the contents for regular files (other kinds: their mode string).
func hashTree(root string) map[string]string {
	m := map[string]string{}
	filepath.WalkDir(root, func(p string, d fs.DirEntry, err error) error {
		rel, _ := filepath.Rel(root, p)
		rel = filepath.ToSlash(rel)
		if err != nil {
			m[rel] = "walkerr"
			return nil
		}
		if rel == "." {
			return nil
		}
		switch {
		case d.IsDir():
			m[rel] = "d"
		case d.Type().IsRegular():
			f, err := os.Open(p)
			if err != nil {
				m[rel] = "openerr"
				return nil
			}
			hh := sha256.New()
			io.Copy(hh, f)
			f.Close()
			m[rel] = fmt.Sprintf("%x", hh.Sum(nil))
		default:
			m[rel] = d.Type().String()
		}
		return nil
	})
	return m
}

func sortedKeys(m map[string]string) []string {
	ks := make([]string, 0, len(m))
	for k := range m {
		ks = append(ks, k)
	}
	sort.Strings(ks)
	return ks
}

// diffTree: "" if equal; otherwise the first difference in path order. With preexistingOnly, paths
// that exist only in `after` are ignored (the sandbox may live inside the data dir while it is open).
func diffTree(before, after map[string]string, preexistingOnly bool) string {
	for _, k := range sortedKeys(before) {
		v, ok := after[k]
		if !ok {
			return "removed:" + clean(k)
		}
		if v != before[k] {
			return "changed:" + clean(k)
		}
	}
	if !preexistingOnly {
		for _, k := range sortedKeys(after) {
			if _, ok := before[k]; !ok {
				return "added:" + clean(k)
			}
		}
	}
	return ""
}

func copyTree(src, dst string) error {
	return filepath.WalkDir(src, func(p string, d fs.DirEntry, err error) error {
		if err != nil {
			return err
		}
		rel, _ := filepath.Rel(src, p)
		to := filepath.Join(dst, rel)
		if d.IsDir() {
			return os.MkdirAll(to, 0o777)
		}
		if !d.Type().IsRegular() {
			return nil
		}
		if d.Name() == "lock" {
			return nil
		}
		in, err := os.Open(p)
		if err != nil {
			return err
		}
		defer in.Close()
		out, err := os.Create(to)
		if err != nil {
			return err
		}
		if _, err := io.Copy(out, in); err != nil {
			out.Close()
			return err
		}
		return out.Close()
	})
}

// ---------------------------------------------------------------- read-only observations

func hintStr(m tsdb.BlockMeta) string {
	var hs []string
	if m.Compaction.FromOutOfOrder() {
		hs = append(hs, "ooo")
	}
	if m.Compaction.FromStaleSeries() {
		hs = append(hs, "stale")
	}
	if m.Compaction.FromSelectedSeries() {
		hs = append(hs, "sel")
	}
	if len(hs) == 0 {
		return "-"
	}
	return strings.Join(hs, "+")
}

func tOrNone(t int64, ok bool) string {
	if !ok {
		return "none"
	}
	return strconv.FormatInt(t, 10)
}

type snap struct {
	dir     string // directory the read-only DB is opened on
	sbRoot  string // "" = inside the data dir
	cleanup func()
	before  map[string]string
}

// takeSnapshot prepares the directory: clean = close the live DB and use its directory; copy = copy
// the directory while the DB is open.
func (e *env) takeSnapshot(sandbox, mode string) (*snap, error) {
	s := &snap{cleanup: func() {}}
	var rm []string
	switch mode {
	case "clean":
		if e.app != nil {
			e.app.Rollback()
			e.app = nil
		}
		if err := e.db.Close(); err != nil {
			return nil, fmt.Errorf("close: %w", err)
		}
		e.db = nil
		s.dir = e.dir
	case "copy":
		d, err := os.MkdirTemp(tmpBase, "vrocopy")
		if err != nil {
			return nil, err
		}
		rm = append(rm, d)
		if err := copyTree(e.dir, d); err != nil {
			os.RemoveAll(d)
			return nil, fmt.Errorf("copy: %w", err)
		}
		s.dir = d
	case "crashcopy":
		// a copy taken while the DB is open, aged into the state a kill leaves right after the head chunk
		// writer created its next file and before it wrote the header: an empty file with the next sequence
		// number in chunks_head (ChunkDiskMapper removes such a file when it opens the directory read-write;
		// a read-only open must leave it alone). Judged only (suite oooro).
		d, err := os.MkdirTemp(tmpBase, "vrocrash")
		if err != nil {
			return nil, err
		}
		rm = append(rm, d)
		if err := copyTree(e.dir, d); err != nil {
			os.RemoveAll(d)
			return nil, fmt.Errorf("copy: %w", err)
		}
		next := 1
		ents, _ := os.ReadDir(filepath.Join(d, "chunks_head"))
		for _, en := range ents {
			if n, err := strconv.Atoi(en.Name()); err == nil && n >= next {
				next = n + 1
			}
		}
		os.MkdirAll(filepath.Join(d, "chunks_head"), 0o777)
		if err := os.WriteFile(filepath.Join(d, "chunks_head", fmt.Sprintf("%06d", next)), nil, 0o666); err != nil {
			return nil, err
		}
		s.dir = d
	default:
		return nil, fmt.Errorf("bad mode %q", mode)
	}
	if sandbox == "out" {
		d, err := os.MkdirTemp(tmpBase, "vrosb")
		if err != nil {
			return nil, err
		}
		rm = append(rm, d)
		s.sbRoot = d
	}
	s.cleanup = func() {
		for _, d := range rm {
			os.RemoveAll(d)
		}
	}
	s.before = hashTree(s.dir)
	return s, nil
}

// treeVerdict after the read-only DB was closed.
func (s *snap) treeVerdict(mid string) string {
	if mid != "" {
		return "open-" + mid
	}
	if d := diffTree(s.before, hashTree(s.dir), false); d != "" {
		return d
	}
	if s.sbRoot != "" {
		ents, err := os.ReadDir(s.sbRoot)
		if err != nil {
			return "sandbox-root-unreadable"
		}
		if len(ents) > 0 {
			return "sandbox-left:" + clean(ents[0].Name())
		}
	}
	return "same"
}

// rwOpen gives the read-write DB for the comparison: clean = reopen the live DB, copy = open the copy.
func (e *env) rwOpen(s *snap, mode string) (*tsdb.DB, func(), error) {
	if mode == "clean" {
		if err := e.open(); err != nil {
			return nil, nil, err
		}
		return e.db, func() {}, nil
	}
	db, err := tsdb.Open(s.dir, promslog.NewNopLogger(), nil, e.opts, nil)
	if err != nil {
		return nil, nil, err
	}
	db.DisableCompactions()
	return db, func() { db.Close() }, nil
}

// inOrderMax: the rule of DB.inOrderBlocksMaxTime evaluated on the block metas.
func inOrderMax(db *tsdb.DB) (int64, bool) {
	rwmax, ok := int64(math.MinInt64), false
	for _, b := range db.Blocks() {
		m := b.Meta()
		if hintStr(m) == "-" && m.MaxTime > rwmax {
			rwmax, ok = m.MaxTime, true
		}
	}
	return rwmax, ok
}

func (e *env) roq(c *h.Ctx, mint, maxt int64, sandbox, mode string) string {
	s, err := e.takeSnapshot(sandbox, mode)
	if err != nil {
		return "err:" + clean(err.Error())
	}
	defer s.cleanup()
	ro, err := tsdb.OpenDBReadOnly(s.dir, s.sbRoot, promslog.NewNopLogger())
	if err != nil {
		return "err:roopen:" + clean(err.Error())
	}
	bsort, rocut, lasthint := "ok", "none", "-"
	brs, err := ro.Blocks()
	if err != nil {
		ro.Close()
		return "err:roblocks:" + clean(err.Error())
	}
	for i, b := range brs {
		if i > 0 && brs[i-1].Meta().MinTime > b.Meta().MinTime {
			bsort = "bad"
		}
		if i == len(brs)-1 {
			rocut, lasthint = strconv.FormatInt(b.Meta().MaxTime, 10), hintStr(b.Meta())
		}
	}
	roRows := ""
	q, err := ro.Querier(mint, maxt)
	if err != nil {
		roRows = "err:" + clean(err.Error())
	} else {
		roRows = queryRows(q)
	}
	mid := diffTree(s.before, hashTree(s.dir), true)
	if q != nil {
		q.Close()
	}
	if err := ro.Close(); err != nil {
		roRows = "err:roclose:" + clean(err.Error())
	}
	tree := s.treeVerdict(mid)
	// read-write open of the same directory
	db, done, err := e.rwOpen(s, mode)
	if err != nil {
		return "err:rwopen:" + clean(err.Error())
	}
	defer done()
	rwRows := e.query(db, mint, maxt)
	rwmax, ok := inOrderMax(db)
	if lasthint != "-" {
		c.Count("roq:last-block-hinted")
	}
	if roRows != rwRows {
		c.Count("roq:ro-ne-rw")
	}
	if roRows != "-" {
		c.Count("roq:nonempty")
	}
	if len(brs) > 0 {
		c.Count("roq:with-blocks")
	}
	c.Count("roq:tree=" + strings.SplitN(tree, ":", 2)[0])
	return fmt.Sprintf("ro=%s rw=%s tree=%s bsort=%s rocut=%s rwcut=%s lasthint=%s", roRows, rwRows, tree, bsort, rocut, tOrNone(rwmax, ok), lasthint)
}

// rofl returns the modelled part of the observation and the file-tree verdict separately.
func (e *env) rofl(c *h.Ctx, sandbox, mode string) (string, string) {
	s, err := e.takeSnapshot(sandbox, mode)
	if err != nil {
		return "err:" + clean(err.Error()), "-"
	}
	defer s.cleanup()
	outDir, err := os.MkdirTemp(tmpBase, "vroflush")
	if err != nil {
		return "err:" + clean(err.Error()), "-"
	}
	defer os.RemoveAll(outDir)
	ro, err := tsdb.OpenDBReadOnly(s.dir, s.sbRoot, promslog.NewNopLogger())
	if err != nil {
		return "err:roopen:" + clean(err.Error()), "-"
	}
	rocut, lasthint := "none", "-"
	if brs, err := ro.Blocks(); err == nil && len(brs) > 0 {
		m := brs[len(brs)-1].Meta()
		rocut, lasthint = strconv.FormatInt(m.MaxTime, 10), hintStr(m)
	}
	fl := ""
	if err := ro.FlushWAL(outDir); err != nil {
		fl = "err:flush:" + clean(err.Error())
	}
	if err := ro.Close(); err != nil && fl == "" {
		fl = "err:roclose:" + clean(err.Error())
	}
	tree := s.treeVerdict("")
	if fl == "" {
		fl = "-"
		ents, _ := os.ReadDir(outDir)
		var parts []string
		for _, en := range ents {
			if !en.IsDir() {
				continue
			}
			b, err := tsdb.OpenBlock(promslog.NewNopLogger(), filepath.Join(outDir, en.Name()), nil, nil)
			if err != nil {
				parts = append(parts, "err:openblock:"+clean(err.Error()))
				continue
			}
			q, err := tsdb.NewBlockQuerier(b, math.MinInt64, math.MaxInt64)
			if err != nil {
				parts = append(parts, "err:blockquerier:"+clean(err.Error()))
			} else {
				parts = append(parts, queryRows(q))
				q.Close()
			}
			b.Close()
		}
		if len(parts) > 0 {
			fl = strings.Join(parts, "|")
		}
	}
	db, done, err := e.rwOpen(s, mode)
	if err != nil {
		return "err:rwopen:" + clean(err.Error()), "-"
	}
	defer done()
	hd := "-"
	hq, err := tsdb.NewBlockQuerier(tsdb.NewRangeHead(db.Head(), math.MinInt64, math.MaxInt64), math.MinInt64, math.MaxInt64)
	if err != nil {
		hd = "err:headquerier:" + clean(err.Error())
	} else {
		hd = queryRows(hq)
		hq.Close()
	}
	rwmax, ok := inOrderMax(db)
	if fl != "-" {
		c.Count("rofl:block")
	}
	if fl != hd {
		c.Count("rofl:fl-ne-hd")
	}
	c.Count("rofl:tree=" + strings.SplitN(tree, ":", 2)[0])
	return fmt.Sprintf("fl=%s hd=%s rocut=%s rwcut=%s lasthint=%s", fl, hd, rocut, tOrNone(rwmax, ok), lasthint), tree
}

// ---------------------------------------------------------------- case runner

func runCase(c *h.Ctx, ops []string, oooStream bool) {
	dir, err := os.MkdirTemp(tmpBase, "vro")
	if err != nil {
		panic(err)
	}
	e := &env{dir: dir}
	defer os.RemoveAll(dir)
	defer e.close()
	for _, op := range ops {
		if i := strings.Index(op, " | "); i >= 0 {
			op = op[:i]
		}
		f := strings.Fields(op)
		if len(f) == 0 {
			continue
		}
		out, data := "bad-op", ""
		p, pv := h.Try(func() {
			switch f[0] {
			case "cfg":
				cr, _ := strconv.ParseInt(f[1], 10, 64)
				ooo, _ := strconv.ParseInt(f[2], 10, 64)
				spc, _ := strconv.Atoi(f[3])
				o := tsdb.DefaultOptions()
				o.MinBlockDuration, o.MaxBlockDuration = cr, cr
				o.OutOfOrderTimeWindow = ooo
				o.SamplesPerChunk = spc
				o.RetentionDuration = 0
				o.WALSegmentSize = 128 * 1024
				o.StripeSize = 16 // the default 16384 stripes dominate the cost of the many opens
				e.opts = o
				if err := e.open(); err != nil {
					out = "err:" + clean(err.Error())
				} else {
					out = "ok"
				}
			case "begin":
				if e.app != nil {
					e.app.Rollback()
				}
				e.app = e.db.Appender(context.Background())
				out = "ok"
			case "app":
				s, _ := strconv.Atoi(f[1])
				t, _ := strconv.ParseInt(f[2], 10, 64)
				vb, _ := strconv.ParseUint(f[3], 16, 64)
				if e.app == nil {
					out = "noapp"
					return
				}
				_, err := e.app.Append(0, lbls(s), t, math.Float64frombits(vb))
				out = errClass(err)
				c.Count("app:" + out)
			case "commit":
				if e.app == nil {
					out = "noapp"
					return
				}
				out = errClass(e.app.Commit())
				e.app = nil
			case "rollback":
				if e.app == nil {
					out = "noapp"
					return
				}
				out = errClass(e.app.Rollback())
				e.app = nil
			case "del":
				mint, _ := strconv.ParseInt(f[1], 10, 64)
				maxt, _ := strconv.ParseInt(f[2], 10, 64)
				m := labels.MustNewMatcher(labels.MatchEqual, "__name__", "m")
				if f[3] != "*" {
					m = labels.MustNewMatcher(labels.MatchEqual, "s", f[3])
				}
				out = errClass(e.db.Delete(context.Background(), mint, maxt, m))
			case "compact":
				out = errClass(e.db.Compact(context.Background()))
				c.Count(fmt.Sprintf("blocks-after-compact:%d", len(e.db.Blocks())))
			case "cooo":
				out = errClass(e.db.CompactOOOHead(context.Background()))
			case "cstale":
				out = errClass(e.db.CompactStaleHead())
			case "csel":
				ir, err := e.db.Head().Index()
				if err != nil {
					out = "err:" + clean(err.Error())
					return
				}
				var refs []storage.SeriesRef
				ps, err := ir.Postings(context.Background(), "s", f[1])
				if err == nil {
					for ps.Next() {
						refs = append(refs, ps.At())
					}
				}
				ir.Close()
				out = errClass(e.db.CompactSelectedSeries(refs))
			case "cleantomb":
				out = errClass(e.db.CleanTombstones())
			case "reopen":
				if e.app != nil {
					e.app.Rollback()
					e.app = nil
				}
				if err := e.db.Close(); err != nil {
					out = "err:close:" + clean(err.Error())
					return
				}
				e.db = nil
				if err := e.open(); err != nil {
					out = "err:" + clean(err.Error())
				} else {
					out = "ok"
				}
			case "q":
				mint, _ := strconv.ParseInt(f[1], 10, 64)
				maxt, _ := strconv.ParseInt(f[2], 10, 64)
				out = e.query(e.db, mint, maxt)
			case "roq":
				mint, _ := strconv.ParseInt(f[1], 10, 64)
				maxt, _ := strconv.ParseInt(f[2], 10, 64)
				out = e.roq(c, mint, maxt, f[3], f[4])
			case "rofl":
				out, data = e.rofl(c, f[1], f[2])
				data = "ftree=" + data
			}
		})
		if p {
			out = "panic:" + clean(fmt.Sprint(pv))
			c.Count("panic")
		}
		c.Count("op:" + f[0])
		if oooStream {
			// observations travel in the op line; outputs are model-independent constants
			switch {
			case strings.HasPrefix(out, "panic") || strings.HasPrefix(out, "err:"):
				c.Op(op, out)
			case f[0] == "roq":
				c.Op(op+" | "+out, "-")
			case f[0] == "rofl":
				c.Op(op+" | "+out+" "+data, "-")
			default:
				c.Op(op, "-")
			}
			continue
		}
		if data != "" {
			op += " | " + data
		}
		c.Op(op, out)
	}
}

// ---------------------------------------------------------------- generators

var vals = []uint64{0x3ff0000000000000, 0x4000000000000000, 0x4008000000000000, 0x7ff8000000000001, 0x7ff0000000000002 /* stale NaN */, 0x8000000000000000, 0x7ff0000000000000, 0}

func roOp(r *h.Rng, a, b int64) string {
	return fmt.Sprintf("roq %d %d %s %s", a, b, []string{"in", "out"}[r.Intn(2)], []string{"clean", "copy"}[r.Intn(2)])
}

func roflOp(r *h.Rng) string {
	return fmt.Sprintf("rofl %s %s", []string{"in", "out"}[r.Intn(2)], []string{"clean", "copy"}[r.Intn(2)])
}

// gen: in-order histories (the db suite's generator) with read-only opens interleaved.
func gen(c *h.Ctx, r *h.Rng, maxOps int) []string {
	crs := []int64{100, 1000, 7200000}
	cr := h.PickI64(r, crs)
	spc := []int{120, 4, 2}[r.Intn(3)]
	ops := []string{fmt.Sprintf("cfg %d 0 %d", cr, spc)}
	nser := 1 + r.Intn(4)
	// Timestamps stay >= 0: /repo floor-aligns block ranges of negative timestamps since a5fc8180f6,
	// DbModel.rangeForTimestamp still truncates (both agree on t >= 0).
	base := []int64{0, cr * 3, cr * 10, 7, 1}[r.Intn(5)]
	cur := base
	step := []int64{1, cr / 10, cr / 4, cr / 2, cr - 1, cr, cr + 1}[r.Intn(7)]
	if step <= 0 {
		step = 1
	}
	inTx := false
	// Per-series timestamps stay non-decreasing inside one transaction (a sample accepted at Append but
	// dropped at Commit still reaches the WAL; see the db suite).
	txLast := map[int]int64{}
	n := 8 + r.Intn(maxOps)
	pickT := func() int64 {
		switch r.Intn(10) {
		case 0:
			return max(cur-r.Range(0, 3)*step, 0)
		case 1:
			return cur
		case 2:
			b := (cur/cr + 1) * cr
			return b + r.Range(-1, 1)
		case 3:
			// exactly on a block boundary: the sample that stays in the head when the block below is cut
			cur = (cur/cr + 1) * cr
			return cur
		default:
			cur += r.Range(0, 2) * step
			if r.Chance(30) {
				cur += r.Range(0, 3)
			}
			return cur
		}
	}
	pickRange := func() (int64, int64) {
		switch r.Intn(8) {
		case 0:
			return math.MinInt64, math.MaxInt64
		case 1:
			a := base + r.Range(-2, 2)*cr
			return a, a + r.Range(0, 4)*cr + r.Range(-1, 1)
		case 2:
			return cur - r.Range(0, 5)*step, cur + r.Range(0, 2)
		case 3:
			a := cur - r.Range(0, 8)*step
			return a, a
		case 4:
			// upper end around a block boundary: the read-only open adds the WAL iff lastBlockMaxt <= maxt
			b := (cur/cr)*cr - r.Range(0, 2)*cr + r.Range(-1, 1)
			return b - r.Range(0, 3)*cr, b
		case 5, 6:
			// upper end exactly on a block boundary
			b := (cur/cr)*cr - r.Range(0, 2)*cr
			return []int64{math.MinInt64, b - cr, b}[r.Intn(3)], b
		default:
			a := base + r.Range(0, (cur-base)+1)
			b := a + r.Range(0, (cur-base)/2+2)
			return a, b
		}
	}
	endTx := func() {
		if inTx {
			ops = append(ops, []string{"commit", "commit", "commit", "rollback"}[r.Intn(4)])
			inTx = false
		}
	}
	for len(ops) < n {
		k := r.Intn(100)
		switch {
		case k < 48:
			if !inTx {
				ops = append(ops, "begin")
				inTx = true
				txLast = map[int]int64{}
			}
			cnt := 1 + r.Intn(5)
			for i := 0; i < cnt; i++ {
				v := vals[r.Intn(len(vals))]
				if r.Chance(50) {
					v = math.Float64bits(float64(r.Intn(1000)))
				}
				si, t := r.Intn(nser), pickT()
				if last, ok := txLast[si]; ok && t < last {
					t = last
				}
				txLast[si] = t
				ops = append(ops, fmt.Sprintf("app %d %d %016x", si, t, v))
			}
			if r.Chance(60) {
				endTx()
			}
		case k < 55:
			endTx()
			a, b := pickRange()
			tgt := "*"
			if r.Chance(70) {
				tgt = strconv.Itoa(r.Intn(nser))
			}
			ops = append(ops, fmt.Sprintf("del %d %d %s", a, b, tgt))
		case k < 65:
			endTx()
			ops = append(ops, "compact")
		case k < 68:
			endTx()
			ops = append(ops, "cleantomb")
		case k < 72:
			endTx()
			ops = append(ops, "reopen")
		case k < 86:
			// read-only open; sometimes with a transaction still open (nothing of it is on disk)
			if r.Chance(80) {
				endTx()
			}
			a, b := pickRange()
			op := roOp(r, a, b)
			if strings.HasSuffix(op, "clean") {
				inTx = false
			}
			ops = append(ops, op)
		case k < 90:
			if r.Chance(80) {
				endTx()
			}
			op := roflOp(r)
			if strings.HasSuffix(op, "clean") {
				inTx = false
			}
			ops = append(ops, op)
		default:
			a, b := pickRange()
			ops = append(ops, fmt.Sprintf("q %d %d", a, b))
		}
	}
	endTx()
	ops = append(ops, roOp(r, math.MinInt64, math.MaxInt64), fmt.Sprintf("q %d %d", int64(math.MinInt64), int64(math.MaxInt64)))
	return ops
}

// genOOO: out-of-order ingestion enabled; out-of-order appends; CompactOOOHead, CompactStaleHead,
// CompactSelectedSeries, Compact; read-only opens after each of them.
func genOOO(c *h.Ctx, r *h.Rng, maxOps int) []string {
	cr := h.PickI64(r, []int64{100, 1000, 7200000})
	win := h.PickI64(r, []int64{cr / 2, cr, 3 * cr, 10 * cr})
	spc := []int{120, 4, 2}[r.Intn(3)]
	ops := []string{fmt.Sprintf("cfg %d %d %d", cr, win, spc)}
	nser := 1 + r.Intn(4)
	base := []int64{0, cr * 10, 5 * cr, 1}[r.Intn(4)]
	cur := base
	step := []int64{1, cr / 10, cr / 3, cr - 1, cr}[r.Intn(5)]
	if step <= 0 {
		step = 1
	}
	inTx := false
	n := 8 + r.Intn(maxOps)
	endTx := func() {
		if inTx {
			ops = append(ops, []string{"commit", "commit", "commit", "rollback"}[r.Intn(4)])
			inTx = false
		}
	}
	pickRange := func() (int64, int64) {
		switch r.Intn(5) {
		case 0, 1:
			return math.MinInt64, math.MaxInt64
		case 2:
			b := (cur/cr)*cr - r.Range(0, 2)*cr + r.Range(-1, 1)
			return math.MinInt64, b
		case 3:
			return cur - r.Range(0, 5)*step - win, cur + r.Range(0, 2)
		default:
			a := base + r.Range(-3, 3)*cr
			return a, a + r.Range(0, 6)*cr
		}
	}
	for len(ops) < n {
		k := r.Intn(100)
		switch {
		case k < 50:
			if !inTx {
				ops = append(ops, "begin")
				inTx = true
			}
			cnt := 1 + r.Intn(5)
			for i := 0; i < cnt; i++ {
				v := math.Float64bits(float64(r.Intn(1000)))
				if r.Chance(15) {
					v = vals[r.Intn(len(vals))]
				}
				var t int64
				switch r.Intn(10) {
				case 0, 1, 2:
					// out of order: behind the head's max time, inside or at the edge of the window
					t = cur - r.Range(1, win+1)
					if r.Chance(50) {
						t = cur - r.Range(1, 5)*step
					}
				case 3:
					t = cur
				default:
					cur += r.Range(0, 2) * step
					t = cur
				}
				ops = append(ops, fmt.Sprintf("app %d %d %016x", r.Intn(nser), t, v))
			}
			if r.Chance(60) {
				endTx()
			}
		case k < 53:
			endTx()
			a, b := pickRange()
			ops = append(ops, fmt.Sprintf("del %d %d %d", a, b, r.Intn(nser)))
		case k < 58:
			endTx()
			ops = append(ops, "compact")
		case k < 66:
			endTx()
			ops = append(ops, "cooo")
		case k < 70:
			endTx()
			ops = append(ops, "cstale")
		case k < 74:
			endTx()
			ops = append(ops, fmt.Sprintf("csel %d", r.Intn(nser)))
		case k < 78:
			endTx()
			ops = append(ops, "reopen")
		case k < 95:
			if r.Chance(80) {
				endTx()
			}
			a, b := pickRange()
			op := roOp(r, a, b)
			if r.Chance(25) { // copy aged into a crash state (judged only, this stream has no model)
				op = fmt.Sprintf("roq %d %d %s crashcopy", a, b, []string{"in", "out"}[r.Intn(2)])
			}
			if strings.HasSuffix(op, "clean") {
				inTx = false
			}
			ops = append(ops, op)
		default:
			if r.Chance(80) {
				endTx()
			}
			op := roflOp(r)
			if strings.HasSuffix(op, "clean") {
				inTx = false
			}
			ops = append(ops, op)
		}
	}
	endTx()
	if r.Chance(60) {
		// epilogue: make sure in-order blocks exist, then read-only queries that END BELOW the blocks' max
		// time (the read-only open then skips the WAL replay - a different path through
		// loadDataAsQueryable), on plain copies and on copies aged into a crash state
		ops = append(ops, "begin")
		for i := int64(1); i <= 3; i++ {
			ops = append(ops, fmt.Sprintf("app %d %d %016x", r.Intn(nser), cur+i*cr, math.Float64bits(float64(i))))
		}
		ops = append(ops, "commit", "compact")
		sb := func() string { return []string{"in", "out"}[r.Intn(2)] }
		ops = append(ops,
			fmt.Sprintf("roq %d %d %s crashcopy", int64(math.MinInt64), cur+cr-r.Range(0, 2), sb()),
			fmt.Sprintf("roq %d %d %s crashcopy", base-cr, base+r.Range(0, 2)*step, sb()),
			fmt.Sprintf("roq %d %d %s copy", int64(math.MinInt64), cur-r.Range(0, 3)*step, sb()),
			fmt.Sprintf("roq %d %d %s clean", base, (base+cur)/2, sb()))
		cur += 3 * cr
	}
	ops = append(ops, roOp(r, math.MinInt64, math.MaxInt64))
	return ops
}

func main() {
	c := h.Init()
	defer c.Finish()
	ooo := c.Extra["stream"] == "ooo"
	if c.Replay != "" {
		for _, cs := range c.ReplayCases() {
			c.Case(strings.TrimPrefix(cs[0], "case "))
			runCase(c, cs[1:], ooo)
		}
		return
	}
	// Histories stay short in both tiers (thorough = more of them): DbModel (stage B) keeps the whole
	// WAL, the real head checkpoints it after a few compactions, so long histories with many
	// compactions, deletes and restarts leave the region where DbModel follows tsdb.DB (seen at 120 ops:
	// a deleted sample that the model replays from its never-truncated WAL). The out-of-order stream has
	// no model and uses longer histories in the thorough tier.
	maxOps := 40
	if c.Tier == "thorough" && ooo {
		maxOps = 120
	}
	for i := 0; i < c.N; i++ {
		r := c.Rng.Fork()
		var ops []string
		if ooo {
			ops = genOOO(c, r, maxOps)
		} else {
			ops = gen(c, r, maxOps)
		}
		c.Case(fmt.Sprintf("h%d", i))
		c.NonTrivial(strings.Join(ops, ";"))
		runCase(c, ops, ooo)
	}
}
