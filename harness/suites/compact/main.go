// Suite compact (C07): block population of tsdb/compact.go driven on generated block layouts.
//
// Block cases: 1-5 source blocks are written to disk with the real writers (chunks.Writer, index.Writer,
// tombstones.WriteFile, meta.json) from a generated layout (series subsets of a small label pool, explicit
// chunk boundaries, tombstone intervals), then compacted with the real LeveledCompactor.Compact. The new
// block is opened with tsdb.OpenBlock and read through NewBlockQuerier (samples), NewBlockChunkQuerier
// (chunk metas + sample counts) and meta.json (Stats).
//
// Emptied-input cases (appended after the random ones): 2-5 blocks share series of which some blocks have
// every sample deleted — by partial tombstones (series yielded without chunks), whole-chunk tombstones
// (series not yielded) or a mix — so that the merge functions (concatenating: horizontal compaction;
// compacting: horizontal and vertical) get inputs without chunks first / in the middle / last / in a row.
//
// Head cases: a real tsdb.DB head is filled (in-order appends, optional m-mapping of closed chunks,
// Head.Delete), the RangeHead the compactor is going to read is observed through its own Index/Chunks/
// Tombstones readers (printed as blk/ser lines for the model), then db.CompactHead writes the block.
package main

import (
	"container/heap"
	"context"
	"encoding/json"
	"fmt"
	"math"
	"os"
	"path/filepath"
	"runtime/pprof"
	"sort"
	"strconv"
	"strings"
	"sync"
	"sync/atomic"

	"github.com/prometheus/common/promslog"

	"github.com/prometheus/prometheus/model/histogram"
	"github.com/prometheus/prometheus/model/labels"
	"github.com/prometheus/prometheus/model/value"
	"github.com/prometheus/prometheus/storage"
	"github.com/prometheus/prometheus/tsdb"
	"github.com/prometheus/prometheus/tsdb/chunkenc"
	"github.com/prometheus/prometheus/tsdb/chunks"
	"github.com/prometheus/prometheus/tsdb/index"
	"github.com/prometheus/prometheus/tsdb/tombstones"

	"verif/harness/h"
)

var nop = promslog.NewNopLogger()

// rec collects the lines and counters of one case so that cases can run on several goroutines and be
// written out in generation order.
type rec struct {
	lines  [][2]string
	counts []string
}

func (r *rec) Op(op, out string) { r.lines = append(r.lines, [2]string{op, out}) }
func (r *rec) Count(k string)    { r.counts = append(r.counts, k) }

func (r *rec) flush(c *h.Ctx) {
	for _, l := range r.lines {
		c.Op(l[0], l[1])
	}
	for _, k := range r.counts {
		c.Count(k)
	}
}

// ---------------------------------------------------------------- samples (same encoding as suite merge)

type smp struct {
	t       int64
	kind    byte // 'f', 'h', 'H'
	payload uint64
}

func (s smp) String() string { return fmt.Sprintf("%d:%c:%d", s.t, s.kind, s.payload) }

// Histogram payloads: payload = 4*body + counterResetHint,
// body = zeroCount + b0<<20 + b1<<24 + b2<<28 + schema<<32 + stale<<33 (zeroCount < 2^20, three positive
// buckets b_i < 16 at indexes 0..2, present iff non-zero, schema 0|1); Count = zeroCount+b0+b1+b2 = Sum;
// a stale marker is {Sum: StaleNaN}. Bits from 40 up flag a decoded histogram outside this family.
const (
	hbSchema = uint64(1) << 32
	hbStale  = uint64(1) << 33
	hbBad    = uint64(1) << 40
)

func hbParts(b uint64) (z uint64, spans []histogram.Span, cs []uint64, cnt uint64) {
	z = b & (1<<20 - 1)
	cnt = z
	last := -1
	for i := 0; i < 3; i++ {
		c := (b >> (20 + 4*uint(i))) & 15
		if c == 0 {
			continue
		}
		if last >= 0 && last == i-1 {
			spans[len(spans)-1].Length++
		} else {
			off := int32(i)
			if last >= 0 {
				off = int32(i - last - 1)
			}
			spans = append(spans, histogram.Span{Offset: off, Length: 1})
		}
		cs = append(cs, c)
		cnt += c
		last = i
	}
	return z, spans, cs, cnt
}

func mkHist(p uint64) *histogram.Histogram {
	b, hint := p/4, histogram.CounterResetHint(p%4)
	if b&hbStale != 0 {
		return &histogram.Histogram{CounterResetHint: hint, Sum: math.Float64frombits(value.StaleNaN)}
	}
	z, spans, cs, cnt := hbParts(b)
	var deltas []int64
	prev := int64(0)
	for _, c := range cs {
		deltas = append(deltas, int64(c)-prev)
		prev = int64(c)
	}
	return &histogram.Histogram{
		CounterResetHint: hint,
		Schema:           int32(b >> 32 & 1), ZeroThreshold: 0.001, ZeroCount: z, Count: cnt, Sum: float64(cnt),
		PositiveSpans: spans, PositiveBuckets: deltas,
	}
}

func mkFHist(p uint64) *histogram.FloatHistogram {
	b, hint := p/4, histogram.CounterResetHint(p%4)
	if b&hbStale != 0 {
		return &histogram.FloatHistogram{CounterResetHint: hint, Sum: math.Float64frombits(value.StaleNaN)}
	}
	z, spans, cs, cnt := hbParts(b)
	var bs []float64
	for _, c := range cs {
		bs = append(bs, float64(c))
	}
	return &histogram.FloatHistogram{
		CounterResetHint: hint,
		Schema:           int32(b >> 32 & 1), ZeroThreshold: 0.001, ZeroCount: float64(z), Count: float64(cnt), Sum: float64(cnt),
		PositiveSpans: spans, PositiveBuckets: bs,
	}
}

// hbEncode renders a decoded histogram (absolute bucket counts) back into a payload; empty buckets that a
// recoded chunk added to the layout are dropped (present iff non-zero).
func hbEncode(hint histogram.CounterResetHint, stale bool, schema int32, zth, z, cnt, sum float64, spans []histogram.Span, abs []float64, nneg int) uint64 {
	if stale {
		return hbStale*4 + uint64(hint)
	}
	var b uint64
	bad := false
	if z < 0 || z >= 1<<20 || z != math.Trunc(z) {
		bad = true
	} else {
		b = uint64(z)
	}
	total := z
	idx, k := int32(0), 0
	for _, sp := range spans {
		idx += sp.Offset
		for j := uint32(0); j < sp.Length; j++ {
			if k >= len(abs) {
				bad = true
				break
			}
			v := abs[k]
			k++
			if v != 0 {
				if idx < 0 || idx > 2 || v < 0 || v > 15 || v != math.Trunc(v) {
					bad = true
				} else {
					b |= uint64(v) << (20 + 4*uint(idx))
				}
			}
			total += v
			idx++
		}
	}
	if k != len(abs) || nneg != 0 || schema < 0 || schema > 1 || zth != 0.001 || cnt != total || sum != total {
		bad = true
	}
	if schema == 1 {
		b |= hbSchema
	}
	if bad {
		b |= hbBad
	}
	return b*4 + uint64(hint)
}

func histPayload(hh *histogram.Histogram) uint64 {
	abs := make([]float64, len(hh.PositiveBuckets))
	cur := int64(0)
	for i, d := range hh.PositiveBuckets {
		cur += d
		abs[i] = float64(cur)
	}
	return hbEncode(hh.CounterResetHint, value.IsStaleNaN(hh.Sum), hh.Schema, hh.ZeroThreshold, float64(hh.ZeroCount), float64(hh.Count), hh.Sum,
		hh.PositiveSpans, abs, len(hh.NegativeSpans)+len(hh.NegativeBuckets))
}

func fhistPayload(fh *histogram.FloatHistogram) uint64 {
	return hbEncode(fh.CounterResetHint, value.IsStaleNaN(fh.Sum), fh.Schema, fh.ZeroThreshold, fh.ZeroCount, fh.Count, fh.Sum,
		fh.PositiveSpans, fh.PositiveBuckets, len(fh.NegativeSpans)+len(fh.NegativeBuckets))
}

// ---- counter-histogram streams

// ctrState is one point of a counter process: zero count and three bucket counts.
type ctrState struct {
	z      uint64
	c      [3]uint64
	schema uint64
}

func (s ctrState) body() uint64 {
	return s.z | s.c[0]<<20 | s.c[1]<<24 | s.c[2]<<28 | s.schema<<32
}

// genCounterChunk returns the payloads of one VALID counter-histogram chunk of n samples (a sequence
// chunks.ChunkFromSamples encodes into a single chunk without recoding): one schema, one fixed set of used
// buckets (all counts > 0 from the first sample on), every count non-decreasing, optionally a suffix of
// stale markers. style 0: random start and increments (independent of other chunks, so that the merged
// stream of overlapping chunks has counter resets, disappearing buckets and schema changes inside the
// overlap); style 1: counts are a fixed non-decreasing function of the timestamp (chunks of the same
// process interleave without reset; different bucket sets then only recode).
func genCounterChunk(r *h.Rng, ts []int64, base int64, style int, allowStale bool) []uint64 {
	n := len(ts)
	st := ctrState{schema: 0}
	if r.Chance(15) {
		st.schema = 1
	}
	var used [3]bool
	for i := range used {
		used[i] = r.Chance(50)
	}
	nStale := 0
	if allowStale && r.Chance(25) {
		nStale = 1 + r.Intn(2)
		if nStale > n {
			nStale = n
		}
		if r.Chance(10) {
			nStale = n
		}
	}
	out := make([]uint64, 0, n)
	if style == 0 {
		st.z = uint64(r.Intn(6))
		for i := range used {
			if used[i] {
				st.c[i] = uint64(1 + r.Intn(5))
			}
		}
	}
	for k, t := range ts {
		if k >= n-nStale {
			out = append(out, hbStale*4+uint64(2*r.Intn(2)))
			continue
		}
		if style == 1 {
			d := uint64(t - base)
			if t < base {
				d = 0
			}
			st.z = d
			for i := range used {
				st.c[i] = 0
				if used[i] {
					st.c[i] = 1 + d/4
					if st.c[i] > 15 {
						st.c[i] = 15
					}
				}
			}
		} else if k > 0 {
			st.z += uint64(r.Intn(3))
			for i := range used {
				if used[i] && st.c[i] < 15 && r.Chance(40) {
					st.c[i]++
				}
			}
		}
		out = append(out, st.body()*4+uint64(2*r.Intn(2)))
	}
	return out
}

type csample struct{ s smp }

func (c csample) T() int64   { return c.s.t }
func (c csample) ST() int64  { return 0 }
func (c csample) F() float64 { return math.Float64frombits(c.s.payload) }
func (c csample) H() *histogram.Histogram {
	if c.s.kind == 'h' {
		return mkHist(c.s.payload)
	}
	return nil
}

func (c csample) FH() *histogram.FloatHistogram {
	if c.s.kind == 'H' {
		return mkFHist(c.s.payload)
	}
	return nil
}

func (c csample) Type() chunkenc.ValueType {
	switch c.s.kind {
	case 'h':
		return chunkenc.ValHistogram
	case 'H':
		return chunkenc.ValFloatHistogram
	}
	return chunkenc.ValFloat
}
func (c csample) Copy() chunks.Sample { return c }

func toChunkSamples(xs []smp) []chunks.Sample {
	out := make([]chunks.Sample, len(xs))
	for i, s := range xs {
		out[i] = csample{s}
	}
	return out
}

func readAll(it chunkenc.Iterator) ([]smp, error) {
	var out []smp
	for vt := it.Next(); vt != chunkenc.ValNone; vt = it.Next() {
		switch vt {
		case chunkenc.ValFloat:
			t, v := it.At()
			out = append(out, smp{t, 'f', math.Float64bits(v)})
		case chunkenc.ValHistogram:
			t, hh := it.AtHistogram(nil)
			out = append(out, smp{t, 'h', histPayload(hh)})
		case chunkenc.ValFloatHistogram:
			t, fh := it.AtFloatHistogram(nil)
			out = append(out, smp{t, 'H', fhistPayload(fh)})
		}
	}
	return out, it.Err()
}

func showSamples(xs []smp) string {
	if len(xs) == 0 {
		return "-"
	}
	parts := make([]string, len(xs))
	for i, s := range xs {
		parts[i] = s.String()
	}
	return strings.Join(parts, ",")
}

func parseSamples(s string) []smp {
	if s == "-" {
		return nil
	}
	var out []smp
	for _, p := range strings.Split(s, ",") {
		f := strings.Split(p, ":")
		t, _ := strconv.ParseInt(f[0], 10, 64)
		pl, _ := strconv.ParseUint(f[2], 10, 64)
		out = append(out, smp{t, f[1][0], pl})
	}
	return out
}

// ---------------------------------------------------------------- layout

type chunkT struct {
	mint, maxt int64
	xs         []smp
}

type serT struct {
	lbl    string // a=1,b=2
	chunks []chunkT
	tombs  [][2]int64
}

type blkT struct {
	mint, maxt int64
	series     []serT
}

func parseLabels(s string) labels.Labels {
	if s == "-" {
		return labels.EmptyLabels()
	}
	var kv []string
	for _, p := range strings.Split(s, ",") {
		f := strings.SplitN(p, "=", 2)
		kv = append(kv, f[0], f[1])
	}
	return labels.FromStrings(kv...)
}

func showLabels(l labels.Labels) string {
	var parts []string
	l.Range(func(x labels.Label) { parts = append(parts, x.Name+"="+x.Value) })
	if len(parts) == 0 {
		return "-"
	}
	return strings.Join(parts, ",")
}

func showChunks(cs []chunkT) string {
	if len(cs) == 0 {
		return "-"
	}
	parts := make([]string, len(cs))
	for i, c := range cs {
		parts[i] = fmt.Sprintf("%d/%d/%s", c.mint, c.maxt, showSamples(c.xs))
	}
	return strings.Join(parts, "|")
}

func parseChunks(s string) []chunkT {
	if s == "-" {
		return nil
	}
	var out []chunkT
	for _, p := range strings.Split(s, "|") {
		f := strings.SplitN(p, "/", 3)
		a, _ := strconv.ParseInt(f[0], 10, 64)
		b, _ := strconv.ParseInt(f[1], 10, 64)
		out = append(out, chunkT{a, b, parseSamples(f[2])})
	}
	return out
}

func showTombs(ts [][2]int64) string {
	if len(ts) == 0 {
		return "-"
	}
	parts := make([]string, len(ts))
	for i, t := range ts {
		parts[i] = fmt.Sprintf("%d:%d", t[0], t[1])
	}
	return strings.Join(parts, ",")
}

func parseTombs(s string) [][2]int64 {
	if s == "-" {
		return nil
	}
	var out [][2]int64
	for _, p := range strings.Split(s, ",") {
		f := strings.SplitN(p, ":", 2)
		a, _ := strconv.ParseInt(f[0], 10, 64)
		b, _ := strconv.ParseInt(f[1], 10, 64)
		out = append(out, [2]int64{a, b})
	}
	return out
}

func ulidFor(i int) (id tsdb.BlockMeta) {
	id.ULID[4] = byte((i + 1) >> 8)
	id.ULID[5] = byte(i + 1)
	id.ULID[15] = 0x5a
	return id
}

var allMatcher = func() *labels.Matcher {
	k, v := index.AllPostingsKey()
	return labels.MustNewMatcher(labels.MatchEqual, k, v)
}()

// writeBlock writes one source block and returns its directory and the tombstones as stored per series.
func writeBlock(root string, i int, b blkT) (string, [][][2]int64, error) {
	ctx := context.Background()
	meta := ulidFor(i)
	meta.MinTime, meta.MaxTime = b.mint, b.maxt
	meta.Version = 1
	meta.Compaction.Level = 1
	meta.Compaction.Sources = append(meta.Compaction.Sources, meta.ULID)
	dir := filepath.Join(root, meta.ULID.String())
	if err := os.MkdirAll(filepath.Join(dir, "chunks"), 0o777); err != nil {
		return "", nil, err
	}
	cw, err := chunks.NewWriter(filepath.Join(dir, "chunks"), chunks.WithSegmentSize(1<<16))
	if err != nil {
		return "", nil, err
	}
	iw, err := index.NewWriter(ctx, filepath.Join(dir, "index"))
	if err != nil {
		return "", nil, err
	}
	symSet := map[string]struct{}{}
	lsets := make([]labels.Labels, len(b.series))
	for k, s := range b.series {
		lsets[k] = parseLabels(s.lbl)
		lsets[k].Range(func(l labels.Label) { symSet[l.Name] = struct{}{}; symSet[l.Value] = struct{}{} })
	}
	syms := make([]string, 0, len(symSet))
	for s := range symSet {
		syms = append(syms, s)
	}
	sort.Strings(syms)
	for _, s := range syms {
		if err := iw.AddSymbol(s); err != nil {
			return "", nil, err
		}
	}
	for k, s := range b.series {
		var metas []chunks.Meta
		for _, c := range s.chunks {
			m, err := chunks.ChunkFromSamples(toChunkSamples(c.xs))
			if err != nil {
				return "", nil, err
			}
			m.MinTime, m.MaxTime = c.mint, c.maxt
			metas = append(metas, m)
			meta.Stats.NumSamples += uint64(len(c.xs))
		}
		meta.Stats.NumChunks += uint64(len(metas))
		meta.Stats.NumSeries++
		if err := cw.WriteChunks(metas...); err != nil {
			return "", nil, err
		}
		if err := iw.AddSeries(storage.SeriesRef(k), lsets[k], metas...); err != nil {
			return "", nil, err
		}
	}
	if err := iw.Close(); err != nil {
		return "", nil, err
	}
	if err := cw.Close(); err != nil {
		return "", nil, err
	}
	js, err := json.MarshalIndent(&meta, "", "\t")
	if err != nil {
		return "", nil, err
	}
	if err := os.WriteFile(filepath.Join(dir, "meta.json"), js, 0o644); err != nil {
		return "", nil, err
	}
	// tombstones: refs are only known from the written index
	mt := tombstones.NewMemTombstones()
	stored := make([][][2]int64, len(b.series))
	ir, err := index.NewFileReader(filepath.Join(dir, "index"), index.DecodePostingsRaw)
	if err != nil {
		return "", nil, err
	}
	k, v := index.AllPostingsKey()
	p, err := ir.Postings(ctx, k, v)
	if err != nil {
		return "", nil, err
	}
	p = ir.SortedPostings(p)
	n := 0
	for p.Next() {
		if n >= len(b.series) {
			return "", nil, fmt.Errorf("more postings than series")
		}
		for _, t := range b.series[n].tombs {
			mt.AddInterval(p.At(), tombstones.Interval{Mint: t[0], Maxt: t[1]})
		}
		ivs, _ := mt.Get(p.At())
		for _, iv := range ivs {
			stored[n] = append(stored[n], [2]int64{iv.Mint, iv.Maxt})
		}
		n++
	}
	if err := p.Err(); err != nil {
		return "", nil, err
	}
	ir.Close()
	if n != len(b.series) {
		return "", nil, fmt.Errorf("postings %d != series %d", n, len(b.series))
	}
	if _, err := tombstones.WriteFile(nop, dir, mt); err != nil {
		return "", nil, err
	}
	return dir, stored, nil
}

// readBlock renders the contents of a block: stats, then per series samples and chunk metas.
func readBlock(b tsdb.BlockReader, st tsdb.BlockStats) (string, error) {
	ctx := context.Background()
	q, err := tsdb.NewBlockQuerier(b, math.MinInt64, math.MaxInt64)
	if err != nil {
		return "", err
	}
	defer q.Close()
	cq, err := tsdb.NewBlockChunkQuerier(b, math.MinInt64, math.MaxInt64)
	if err != nil {
		return "", err
	}
	defer cq.Close()
	type row struct{ lbl, samples, metas string }
	var rows []row
	ss := q.Select(ctx, true, nil, allMatcher)
	var it chunkenc.Iterator
	for ss.Next() {
		s := ss.At()
		it = s.Iterator(it)
		xs, err := readAll(it)
		if err != nil {
			return "", err
		}
		rows = append(rows, row{lbl: showLabels(s.Labels()), samples: showSamples(xs)})
	}
	if err := ss.Err(); err != nil {
		return "", err
	}
	cs := cq.Select(ctx, true, nil, allMatcher)
	k := 0
	var cit chunks.Iterator
	for cs.Next() {
		s := cs.At()
		if k >= len(rows) || rows[k].lbl != showLabels(s.Labels()) {
			return "", fmt.Errorf("chunk querier and querier disagree on series %d", k)
		}
		cit = s.Iterator(cit)
		var parts []string
		for cit.Next() {
			m := cit.At()
			// the chunk decoded on its own: first/last timestamp it really holds
			first, last := "-", "-"
			dxs, derr := readAll(m.Chunk.Iterator(nil))
			if derr != nil {
				return "", derr
			}
			if len(dxs) > 0 {
				first, last = strconv.FormatInt(dxs[0].t, 10), strconv.FormatInt(dxs[len(dxs)-1].t, 10)
			}
			parts = append(parts, fmt.Sprintf("%d/%d/%d/%s/%s", m.MinTime, m.MaxTime, m.Chunk.NumSamples(), first, last))
		}
		if err := cit.Err(); err != nil {
			return "", err
		}
		rows[k].metas = "-"
		if len(parts) > 0 {
			rows[k].metas = strings.Join(parts, ",")
		}
		k++
	}
	if err := cs.Err(); err != nil {
		return "", err
	}
	if k != len(rows) {
		return "", fmt.Errorf("chunk querier saw %d series, querier %d", k, len(rows))
	}
	var sb strings.Builder
	fmt.Fprintf(&sb, "block %d/%d/%d/%d/%d", st.NumSeries, st.NumChunks, st.NumSamples, st.NumFloatSamples, st.NumHistogramSamples)
	for _, r := range rows {
		fmt.Fprintf(&sb, " %s %s %s", r.lbl, r.samples, r.metas)
	}
	return sb.String(), nil
}

func newCompactor(merger string) (*tsdb.LeveledCompactor, error) {
	opts := tsdb.LeveledCompactorOptions{MaxBlockChunkSegmentSize: 1 << 16, EnableOverlappingCompaction: true}
	if merger == "concat" {
		opts.MergeFunc = storage.NewConcatenatingChunkSeriesMerger()
	}
	return tsdb.NewLeveledCompactorWithOptions(context.Background(), nil, nop, []int64{1 << 40}, chunkenc.NewPool(), opts)
}

func fatal(err error) {
	if err != nil {
		fmt.Fprintln(os.Stderr, "harness error:", err)
		os.Exit(3)
	}
}

// ---------------------------------------------------------------- block cases

func runBlockCase(c *rec, ops []string) {
	var blocks []blkT
	var final []string
	for _, op := range ops {
		f := strings.Fields(op)
		switch {
		case len(f) == 3 && f[0] == "blk":
			a, _ := strconv.ParseInt(f[1], 10, 64)
			b, _ := strconv.ParseInt(f[2], 10, 64)
			blocks = append(blocks, blkT{mint: a, maxt: b})
		case len(f) == 5 && f[0] == "ser":
			i, _ := strconv.Atoi(f[1])
			if i < 0 || i >= len(blocks) {
				continue // shrunk away block
			}
			blocks[i].series = append(blocks[i].series, serT{f[2], parseChunks(f[3]), parseTombs(f[4])})
		case len(f) == 2 && f[0] == "compact":
			final = f
		}
	}
	root := h.TempDir("verif-C07-")
	defer os.RemoveAll(root)
	src := filepath.Join(root, "src")
	dst := filepath.Join(root, "dst")
	fatal(os.MkdirAll(dst, 0o777))
	var dirs []string
	for i := range blocks {
		// the index writer wants label order; keep the declared order if it is sorted, else sort
		sort.SliceStable(blocks[i].series, func(a, b int) bool {
			return labels.Compare(parseLabels(blocks[i].series[a].lbl), parseLabels(blocks[i].series[b].lbl)) < 0
		})
		d, stored, err := writeBlock(src, i, blocks[i])
		fatal(err)
		for k := range blocks[i].series {
			blocks[i].series[k].tombs = stored[k]
		}
		dirs = append(dirs, d)
	}
	for _, b := range blocks {
		c.Op(fmt.Sprintf("blk %d %d", b.mint, b.maxt), "ok")
	}
	for i, b := range blocks {
		for _, s := range b.series {
			c.Op(fmt.Sprintf("ser %d %s %s %s", i, s.lbl, showChunks(s.chunks), showTombs(s.tombs)), "ok")
		}
	}
	if final == nil || len(blocks) == 0 {
		return
	}
	c.Count("merger:" + final[1])
	var out string
	panicked, val := h.Try(func() {
		comp, err := newCompactor(final[1])
		fatal(err)
		ids, err := comp.Compact(dst, dirs, nil)
		if err != nil {
			c.Count("result:err")
			out = "err"
			if os.Getenv("VERIF_DEBUG") != "" {
				fmt.Fprintln(os.Stderr, "compact error:", err)
			}
			return
		}
		if len(ids) == 0 {
			out = "empty"
			return
		}
		pb, err := tsdb.OpenBlock(nop, filepath.Join(dst, ids[0].String()), nil, nil)
		fatal(err)
		defer pb.Close()
		out, err = readBlock(pb, pb.Meta().Stats)
		fatal(err)
	})
	if panicked {
		out = "panic"
		if os.Getenv("VERIF_DEBUG") != "" {
			fmt.Fprintln(os.Stderr, "panic:", val)
		}
	}
	c.Count("result:" + strings.Fields(out)[0])
	c.Op(strings.Join(final, " "), out)
}

// ---------------------------------------------------------------- head cases

var labelUniverse = []string{"a", "b", "c"}

func exactMatchers(l labels.Labels) []*labels.Matcher {
	var ms []*labels.Matcher
	for _, n := range labelUniverse {
		ms = append(ms, labels.MustNewMatcher(labels.MatchEqual, n, l.Get(n)))
	}
	return ms
}

// observe renders what a BlockReader shows to PopulateBlock: per series (label order) the chunk metas of
// the index, the samples of each chunk as the chunk reader returns them, and the tombstones.
func observe(b tsdb.BlockReader) ([]serT, error) {
	ctx := context.Background()
	ir, err := b.Index()
	if err != nil {
		return nil, err
	}
	defer ir.Close()
	cr, err := b.Chunks()
	if err != nil {
		return nil, err
	}
	defer cr.Close()
	tr, err := b.Tombstones()
	if err != nil {
		return nil, err
	}
	defer tr.Close()
	p := tsdb.AllSortedPostings(ctx, ir)
	var out []serT
	var builder labels.ScratchBuilder
	var chks []chunks.Meta
	for p.Next() {
		if err := ir.Series(p.At(), &builder, &chks); err != nil {
			return nil, err
		}
		s := serT{lbl: showLabels(builder.Labels())}
		for _, m := range chks {
			chk, iterable, err := cr.ChunkOrIterable(m)
			if err != nil {
				return nil, err
			}
			var it chunkenc.Iterator
			if chk != nil {
				it = chk.Iterator(nil)
			} else {
				it = iterable.Iterator(nil)
			}
			xs, err := readAll(it)
			if err != nil {
				return nil, err
			}
			s.chunks = append(s.chunks, chunkT{m.MinTime, m.MaxTime, xs})
		}
		ivs, err := tr.Get(p.At())
		if err != nil {
			return nil, err
		}
		for _, iv := range ivs {
			s.tombs = append(s.tombs, [2]int64{iv.Mint, iv.Maxt})
		}
		out = append(out, s)
	}
	return out, p.Err()
}

func runHeadCase(c *rec, ops []string) {
	ctx := context.Background()
	chunkRange, mmap := int64(100), false
	type hsT struct {
		lbl string
		xs  []smp
	}
	var hss []hsT
	var hds [][]string
	var final []string
	for _, op := range ops {
		f := strings.Fields(op)
		switch {
		case len(f) == 3 && f[0] == "hopt":
			chunkRange, _ = strconv.ParseInt(f[1], 10, 64)
			mmap = f[2] == "1"
		case len(f) == 3 && f[0] == "hs":
			hss = append(hss, hsT{f[1], parseSamples(f[2])})
		case len(f) == 4 && f[0] == "hd":
			hds = append(hds, f)
		case len(f) == 3 && f[0] == "write":
			final = f
		}
	}
	c.Op(fmt.Sprintf("hopt %d %d", chunkRange, map[bool]int{false: 0, true: 1}[mmap]), "ok")
	for _, s := range hss {
		c.Op(fmt.Sprintf("hs %s %s", s.lbl, showSamples(s.xs)), "ok")
	}
	for _, d := range hds {
		c.Op(strings.Join(d, " "), "ok")
	}
	if final == nil {
		return
	}
	wmint, _ := strconv.ParseInt(final[1], 10, 64)
	wmaxt, _ := strconv.ParseInt(final[2], 10, 64)

	root := h.TempDir("verif-C07h-")
	defer os.RemoveAll(root)
	opts := tsdb.DefaultOptions()
	opts.MinBlockDuration = chunkRange
	opts.MaxBlockDuration = chunkRange
	opts.RetentionDuration = 0
	opts.MaxBlockChunkSegmentSize = 1 << 16
	db, err := tsdb.Open(root, nop, nil, opts, nil)
	fatal(err)
	db.DisableCompactions()
	defer db.Close()

	// append in global time order (the head rejects samples older than maxt - chunkRange/2)
	type ev struct {
		t int64
		s int
		x smp
	}
	var evs []ev
	for i, s := range hss {
		for _, x := range s.xs {
			evs = append(evs, ev{x.t, i, x})
		}
	}
	sort.SliceStable(evs, func(a, b int) bool { return evs[a].t < evs[b].t })
	lsets := make([]labels.Labels, len(hss))
	for i, s := range hss {
		lsets[i] = parseLabels(s.lbl)
	}
	app := db.Appender(ctx)
	for k, e := range evs {
		var err error
		switch e.x.kind {
		case 'f':
			_, err = app.Append(0, lsets[e.s], e.x.t, math.Float64frombits(e.x.payload))
		case 'h':
			_, err = app.AppendHistogram(0, lsets[e.s], e.x.t, mkHist(e.x.payload), nil)
		case 'H':
			_, err = app.AppendHistogram(0, lsets[e.s], e.x.t, nil, mkFHist(e.x.payload))
		}
		fatal(err)
		if k%7 == 6 {
			fatal(app.Commit())
			app = db.Appender(ctx)
		}
	}
	fatal(app.Commit())
	if mmap {
		db.ForceHeadMMap()
	}
	for _, d := range hds {
		a, _ := strconv.ParseInt(d[2], 10, 64)
		b, _ := strconv.ParseInt(d[3], 10, 64)
		fatal(db.Head().Delete(ctx, a, b, exactMatchers(parseLabels(d[1]))...))
	}
	rh := tsdb.NewRangeHead(db.Head(), wmint, wmaxt-1)
	view, err := observe(rh)
	fatal(err)
	c.Op(fmt.Sprintf("blk %d %d", rh.Meta().MinTime, rh.Meta().MaxTime), "ok")
	for _, s := range view {
		c.Op(fmt.Sprintf("ser 0 %s %s %s", s.lbl, showChunks(s.chunks), showTombs(s.tombs)), "ok")
		if len(s.chunks) > 1 {
			c.Count("head:multi-chunk-series")
		}
	}
	var out string
	panicked, val := h.Try(func() {
		if err := db.CompactHead(rh); err != nil {
			out = "err"
			if os.Getenv("VERIF_DEBUG") != "" {
				fmt.Fprintln(os.Stderr, "compact head error:", err)
			}
			return
		}
		bs := db.Blocks()
		if len(bs) == 0 {
			out = "empty"
			return
		}
		if len(bs) != 1 {
			fatal(fmt.Errorf("%d blocks after CompactHead", len(bs)))
		}
		var err error
		out, err = readBlock(bs[0], bs[0].Meta().Stats)
		fatal(err)
	})
	if panicked {
		out = "panic"
		if os.Getenv("VERIF_DEBUG") != "" {
			fmt.Fprintln(os.Stderr, "panic:", val)
		}
	}
	c.Count("head-result:" + strings.Fields(out)[0])
	c.Op(strings.Join(final, " "), out)
}

func runCase(c *rec, ops []string) {
	for _, op := range ops {
		if strings.HasPrefix(op, "hs ") || strings.HasPrefix(op, "hd ") || strings.HasPrefix(op, "write ") || strings.HasPrefix(op, "hopt ") {
			runHeadCase(c, ops)
			return
		}
	}
	runBlockCase(c, ops)
}

// ---------------------------------------------------------------- generators

var labelPool = []string{"a=1", "a=1,b=1", "a=1,b=2", "a=1,c=1", "a=2", "a=2,b=1", "b=1", "b=1,c=2", "c=3"}

func fbits(v float64) uint64 { return math.Float64bits(v) }

// genTimes: n distinct increasing timestamps in [lo, hi)
func genTimes(r *h.Rng, n int, lo, hi int64) []int64 {
	if hi-lo <= int64(n) {
		var out []int64
		for t := lo; t < hi; t++ {
			out = append(out, t)
		}
		return out
	}
	seen := map[int64]struct{}{}
	for len(seen) < n {
		seen[r.Range(lo, hi-1)] = struct{}{}
	}
	out := make([]int64, 0, n)
	for t := range seen {
		out = append(out, t)
	}
	sort.Slice(out, func(a, b int) bool { return out[a] < out[b] })
	return out
}

// value of series si at time t; variant != 0 makes blocks disagree
func genValue(si int, t int64, variant int) float64 {
	return float64(int64(si)*1000+t) + float64(variant)*0.5
}

func genSeries(r *h.Rng, si int, lbl string, lo, hi int64, bi int, dense bool, histOK bool, ctrKind byte) serT {
	n := 1 + r.Intn(14)
	if dense {
		n = 100 + r.Intn(80)
	}
	ts := genTimes(r, n, lo, hi)
	s := serT{lbl: lbl}
	conflict := r.Chance(25)
	i := 0
	for i < len(ts) {
		k := 1 + r.Intn(6)
		if dense {
			k = 30 + r.Intn(130)
		}
		if i+k > len(ts) {
			k = len(ts) - i
		}
		kind := byte('f')
		if histOK && r.Chance(12) {
			kind = 'h'
			if r.Bool() {
				kind = 'H'
			}
		}
		ch := chunkT{mint: ts[i], maxt: ts[i+k-1]}
		if ctrKind != 0 {
			// a COUNTER (non-gauge) histogram series: every chunk is one valid counter chunk (monotone counts,
			// fixed bucket set, optional stale suffix); chunks of different blocks are independent, so the
			// merged stream of overlapping blocks has resets / vanished buckets / schema changes / stale→live
			// transitions inside the overlap
			ps := genCounterChunk(r, ts[i:i+k], lo, r.Intn(2), true)
			for q, t := range ts[i : i+k] {
				ch.xs = append(ch.xs, smp{t, ctrKind, ps[q]})
			}
			if _, err := chunks.ChunkFromSamples(toChunkSamples(ch.xs)); err != nil {
				panic("generator: invalid counter chunk: " + err.Error() + " " + showSamples(ch.xs))
			}
			s.chunks = append(s.chunks, ch)
			i += k
			continue
		}
		for _, t := range ts[i : i+k] {
			variant := 0
			if conflict && r.Chance(40) {
				variant = bi + 1
			}
			switch kind {
			case 'f':
				ch.xs = append(ch.xs, smp{t, 'f', fbits(genValue(si, t, variant))})
			default:
				ch.xs = append(ch.xs, smp{t, kind, uint64(int64(si)*10000+(t+2000)+int64(variant)*100000)*4 + 3})
			}
		}
		s.chunks = append(s.chunks, ch)
		i += k
	}
	return s
}

func genTombs(r *h.Rng, s serT, lo, hi int64) [][2]int64 {
	var pts []int64
	for _, c := range s.chunks {
		pts = append(pts, c.mint-1, c.mint, c.mint+1, c.maxt-1, c.maxt, c.maxt+1)
		if len(c.xs) > 2 {
			pts = append(pts, c.xs[len(c.xs)/2].t)
		}
	}
	pts = append(pts, lo-1, lo, hi-1, hi, hi+1)
	var out [][2]int64
	n := 1 + r.Intn(3)
	for k := 0; k < n; k++ {
		switch r.Intn(10) {
		case 0: // a whole chunk exactly
			c := s.chunks[r.Intn(len(s.chunks))]
			out = append(out, [2]int64{c.mint, c.maxt})
		case 1: // the whole series
			out = append(out, [2]int64{s.chunks[0].mint, s.chunks[len(s.chunks)-1].maxt})
		case 2: // straddling a chunk boundary
			if len(s.chunks) > 1 {
				j := r.Intn(len(s.chunks) - 1)
				a, b := s.chunks[j], s.chunks[j+1]
				out = append(out, [2]int64{a.xs[len(a.xs)/2].t, b.xs[len(b.xs)/2].t})
				continue
			}
			fallthrough
		case 3: // open ended
			if r.Bool() {
				out = append(out, [2]int64{math.MinInt64, h.PickI64(r, pts)})
			} else {
				out = append(out, [2]int64{h.PickI64(r, pts), math.MaxInt64})
			}
		default:
			a, b := h.PickI64(r, pts), h.PickI64(r, pts)
			if a > b {
				a, b = b, a
			}
			out = append(out, [2]int64{a, b})
		}
	}
	return out
}

func genBlockCase(c *rec, r *h.Rng) []string {
	nb := 1 + r.Intn(5)
	pattern := r.Intn(4) // 0 disjoint, 1 adjacent, 2 overlapping, 3 mixed/random
	if nb == 1 {
		pattern = 0
	}
	c.Count(fmt.Sprintf("blocks:%d", nb))
	c.Count([]string{"layout:disjoint", "layout:adjacent", "layout:overlapping", "layout:random"}[pattern])
	dense := r.Chance(6)
	width := int64(8 + r.Intn(30))
	if dense {
		width = int64(150 + r.Intn(100))
		c.Count("dense")
	}
	base := int64(r.Intn(50)) - 20
	if r.Chance(5) {
		base = -1000
	}
	blocks := make([]blkT, nb)
	cur := base
	for i := range blocks {
		w := width/2 + int64(r.Intn(int(width)))
		switch pattern {
		case 0:
			cur += int64(r.Intn(5))
			blocks[i].mint, blocks[i].maxt = cur, cur+w
			cur += w + 1 + int64(r.Intn(4))
		case 1:
			blocks[i].mint, blocks[i].maxt = cur, cur+w
			cur += w
		case 2:
			blocks[i].mint, blocks[i].maxt = cur, cur+w
			cur += int64(r.Intn(int(w)))
		default:
			st := base + int64(r.Intn(int(2*width)))
			blocks[i].mint, blocks[i].maxt = st, st+w
		}
	}
	overlapping := false
	for i := range blocks {
		for j := range blocks {
			if i < j && blocks[i].mint < blocks[j].maxt && blocks[j].mint < blocks[i].maxt {
				overlapping = true
			}
		}
	}
	merger := "compact"
	sortedByMint := sort.SliceIsSorted(blocks, func(a, b int) bool { return blocks[a].mint < blocks[b].mint })
	if !overlapping && sortedByMint && r.Chance(30) {
		merger = "concat"
	}
	if overlapping && merger == "compact" && r.Chance(30) {
		// the order of the directories is the caller's; PopulateBlock only expects it sorted
		for i := len(blocks) - 1; i > 0; i-- {
			j := r.Intn(i + 1)
			blocks[i], blocks[j] = blocks[j], blocks[i]
		}
		c.Count("dirs-shuffled")
	}
	nser := 1 + r.Intn(6)
	pool := append([]string(nil), labelPool...)
	for i := len(pool) - 1; i > 0; i-- {
		j := r.Intn(i + 1)
		pool[i], pool[j] = pool[j], pool[i]
	}
	pool = pool[:nser]
	sort.Slice(pool, func(a, b int) bool { return labels.Compare(parseLabels(pool[a]), parseLabels(pool[b])) < 0 })
	histOK := r.Chance(35)
	// counter-histogram series: fixed flavour per label set, the same in every block, so that overlapping
	// blocks make the compacting merger re-encode merged counter streams
	ctrKinds := make([]byte, len(pool))
	if r.Chance(45) {
		c.Count("counter-hist-case")
		for i := range ctrKinds {
			if r.Chance(60) {
				ctrKinds[i] = h.Pick(r, []byte{'h', 'H'})
			}
		}
	}
	anyTomb, anyLeak := false, false
	for bi := range blocks {
		b := &blocks[bi]
		for si, lbl := range pool {
			if !r.Chance(70) {
				continue
			}
			lo, hi := b.mint, b.maxt
			// rarely the block holds samples at/after its own meta.MaxTime (a block range is half-open)
			if merger == "compact" && r.Chance(4) {
				hi += 1 + int64(r.Intn(2))
				anyLeak = true
			}
			var s serT
			if bi > 0 && overlapping && r.Chance(20) {
				// identical copy of the same series of an earlier block (replication), if in range
				for _, ps := range blocks[r.Intn(bi)].series {
					if ps.lbl == lbl {
						s = serT{lbl: lbl, chunks: ps.chunks}
						c.Count("series-copied")
					}
				}
			}
			if s.lbl == "" {
				s = genSeries(r, si, lbl, lo, hi, bi, dense, histOK, ctrKinds[si])
			}
			if len(s.chunks) == 0 {
				continue
			}
			if r.Chance(35) {
				s.tombs = genTombs(r, s, lo, hi)
				anyTomb = true
			}
			b.series = append(b.series, s)
		}
	}
	if anyTomb {
		c.Count("with-tombstones")
	}
	if anyLeak {
		c.Count("samples-beyond-own-maxt")
	}
	if overlapping {
		c.Count("overlapping-blocks")
	}
	var ops []string
	for _, b := range blocks {
		ops = append(ops, fmt.Sprintf("blk %d %d", b.mint, b.maxt))
	}
	for i, b := range blocks {
		for _, s := range b.series {
			ops = append(ops, fmt.Sprintf("ser %d %s %s %s", i, s.lbl, showChunks(s.chunks), showTombs(s.tombs)))
		}
	}
	ops = append(ops, "compact "+merger)
	return ops
}

// ---------------------------------------------------------------- emptied-input cases
//
// 2-5 source blocks sharing series, where in some of the blocks ALL samples of a shared series are deleted:
//   * by several partial tombstones, none of which holds both ends of a chunk — the block reader still
//     yields the series, with a chunk iterator that yields nothing (an EMPTY input of the merge function);
//   * by whole-chunk tombstones — the prefilter drops every chunk and the series is not yielded at all;
//   * mixed (some chunks dropped by the prefilter, the rest emptied by partial tombstones), or by partial
//     tombstones that straddle chunk boundaries / are open ended.
// The emptied inputs sit first / in the middle / last / consecutively / everywhere in the order in which the
// merge set hands the per-block series to the merge function (heap-pop order, simulated below to place
// the blocks in time so that the concatenation of the non-empty inputs is sorted), under the
// concatenating merger (horizontal compaction) and the compacting merger (horizontal and vertical).

const (
	emKeep       = iota // untouched
	emPartialAll        // every chunk emptied by >= 2 partial tombstones: series yielded, no chunks
	emWhole             // every chunk inside one tombstone: series not yielded
	emMixed             // some chunks inside one tombstone, the others emptied by partial ones: yielded, no chunks
	emStraddle          // partial tombstones from inside chunk k to inside chunk k+1: yielded, no chunks
	emAllButOne         // control: exactly one sample survives
	emSomeChunks        // a proper subset of the chunks is emptied by partial tombstones
)

func emContributes(mode int) bool {
	return mode == emKeep || mode == emAllButOne || mode == emSomeChunks
}

// partialPair: two intervals covering all samples of c, with an uncovered timestamp between two of its
// samples (samples are >= 2 apart), so neither holds both ends of the chunk.
func partialPair(r *h.Rng, c chunkT) [][2]int64 {
	n := len(c.xs)
	j := r.Intn(n - 1)
	return [][2]int64{{c.xs[0].t - int64(r.Intn(2)), c.xs[j].t}, {c.xs[j+1].t, c.xs[n-1].t + int64(r.Intn(2))}}
}

func emptyingTombs(r *h.Rng, cs []chunkT, mode int) [][2]int64 {
	var out [][2]int64
	switch mode {
	case emPartialAll:
		for _, c := range cs {
			out = append(out, partialPair(r, c)...)
		}
	case emWhole:
		switch r.Intn(4) {
		case 0:
			out = append(out, [2]int64{cs[0].mint, cs[len(cs)-1].maxt})
		case 1:
			out = append(out, [2]int64{math.MinInt64, math.MaxInt64})
		default:
			for _, c := range cs {
				d := int64(r.Intn(2))
				out = append(out, [2]int64{c.mint - d, c.maxt + d})
			}
		}
	case emMixed:
		whole := r.Intn(len(cs))
		for i, c := range cs {
			if i == whole || (len(cs) > 2 && r.Chance(30) && i != (whole+1)%len(cs)) {
				out = append(out, [2]int64{c.mint, c.maxt})
			} else {
				out = append(out, partialPair(r, c)...)
			}
		}
	case emStraddle:
		start := cs[0].xs[0].t
		for _, c := range cs {
			j := r.Intn(len(c.xs) - 1)
			out = append(out, [2]int64{start, c.xs[j].t})
			start = c.xs[j+1].t
		}
		last := cs[len(cs)-1]
		out = append(out, [2]int64{start, last.xs[len(last.xs)-1].t})
	case emAllButOne:
		var ts []int64
		for _, c := range cs {
			for _, x := range c.xs {
				ts = append(ts, x.t)
			}
		}
		keep := []int{0, len(ts) - 1, r.Intn(len(ts))}[r.Intn(3)]
		if keep > 0 {
			out = append(out, [2]int64{ts[0], ts[keep-1]})
		}
		if keep < len(ts)-1 {
			out = append(out, [2]int64{ts[keep+1], ts[len(ts)-1]})
		}
	case emSomeChunks:
		sel := 1 + r.Intn(1<<uint(len(cs))-2) // non-empty proper subset
		for i, c := range cs {
			if sel>>uint(i)&1 == 1 {
				out = append(out, partialPair(r, c)...)
			}
		}
	}
	if len(out) > 0 && mode != emAllButOne && mode != emSomeChunks {
		if r.Chance(15) {
			out[0][0] = math.MinInt64
		}
		if r.Chance(15) {
			out[len(out)-1][1] = math.MaxInt64
		}
	}
	if r.Chance(30) {
		for i := len(out) - 1; i > 0; i-- {
			j := r.Intn(i + 1)
			out[i], out[j] = out[j], out[i]
		}
	}
	return out
}

type emSetHeap struct {
	lbls [][]labels.Labels
	pos  []int
	h    []int
}

func (e *emSetHeap) Len() int      { return len(e.h) }
func (e *emSetHeap) Swap(i, j int) { e.h[i], e.h[j] = e.h[j], e.h[i] }
func (e *emSetHeap) Less(i, j int) bool {
	a, b := e.h[i], e.h[j]
	return labels.Compare(e.lbls[a][e.pos[a]], e.lbls[b][e.pos[b]]) < 0
}
func (e *emSetHeap) Push(x any) { e.h = append(e.h, x.(int)) }
func (e *emSetHeap) Pop() any {
	n := len(e.h)
	x := e.h[n-1]
	e.h = e.h[:n-1]
	return x
}

// popOrders predicts, per label set, the order in which the merge set passes the blocks' series to the
// merge function (generator aid only: it decides where the blocks are put in time; model and judge do
// not depend on it). yielded[b] = the label sets block b yields, in label order.
func popOrders(yielded [][]string) map[string][]int {
	e := &emSetHeap{pos: make([]int, len(yielded))}
	for _, ls := range yielded {
		var row []labels.Labels
		for _, l := range ls {
			row = append(row, parseLabels(l))
		}
		e.lbls = append(e.lbls, row)
	}
	for b := range yielded {
		if len(yielded[b]) > 0 {
			heap.Push(e, b)
		}
	}
	out := map[string][]int{}
	var cur []int
	for {
		for _, b := range cur {
			e.pos[b]++
			if e.pos[b] < len(yielded[b]) {
				heap.Push(e, b)
			}
		}
		if e.Len() == 0 {
			return out
		}
		cur = cur[:0]
		l := yielded[e.h[0]][e.pos[e.h[0]]]
		for e.Len() > 0 && yielded[e.h[0]][e.pos[e.h[0]]] == l {
			cur = append(cur, heap.Pop(e).(int))
		}
		out[l] = append([]int(nil), cur...)
	}
}

// emMasks: which blocks (declaration index) have the target series emptied.
func emMasks(nb int) []uint {
	all := uint(1)<<uint(nb) - 1
	ms := []uint{
		1,                        // first
		1 << uint(nb-1),          // last
		1 << uint(nb/2),          // middle
		2,                        // second
		3,                        // first two
		3 << uint(nb-2),          // last two
		all &^ 1,                 // all but the first
		all &^ (1 << uint(nb-1)), // all but the last
		all &^ (1 << uint(nb/2)), // all but the middle
		all,                      // all
		all & 0x15,               // alternating
		all & 0x0a,               // alternating
		6 & all,                  // second and third
		0,                        // control: none
	}
	return ms
}

// genEmptiedCase builds directed case number k (quick: a rotation through the block counts, masks,
// emptying modes and mergers; thorough: every mask).
func genEmptiedCase(c *rec, r *h.Rng, k int, exhaustive bool) []string {
	var nb int
	var mask uint
	flavour := k % 4 // 0,1,2: concat (horizontal); 3: compact, alternately horizontal / vertical
	if exhaustive {
		// 8 + 16 + 32 masks, each under 4 flavours
		m := (k / 4) % 56
		switch {
		case m < 8:
			nb, mask = 3, uint(m)
		case m < 24:
			nb, mask = 4, uint(m-8)
		default:
			nb, mask = 5, uint(m-24)
		}
	} else {
		// quick: 14 masks x 4 flavours, the block count rotating with both
		g := (k / 4) % 14
		nb = 3 + (g+flavour)%3
		if k%29 == 28 {
			nb = 2
		}
		mask = emMasks(nb)[g]
		if k >= 56 {
			nb = 2 + r.Intn(4)
			mask = uint(r.Intn(1 << uint(nb)))
		}
	}
	merger, vertical := "concat", false
	if flavour == 3 {
		merger = "compact"
		vertical = (k/4)%2 == 0
	}
	c.Count("emptied:case")
	c.Count(fmt.Sprintf("emptied:blocks:%d", nb))
	c.Count("emptied:merger:" + merger)
	if vertical {
		c.Count("emptied:vertical")
	}

	// label sets: a target shared by all blocks, a second shared series, 0-2 series living in some blocks
	pool := append([]string(nil), labelPool...)
	for i := len(pool) - 1; i > 0; i-- {
		j := r.Intn(i + 1)
		pool[i], pool[j] = pool[j], pool[i]
	}
	nser := 1 + r.Intn(4)
	pool = pool[:nser]
	target := r.Intn(nser)
	if r.Chance(50) {
		// the target is the first label set of every block
		sort.Slice(pool, func(a, b int) bool { return labels.Compare(parseLabels(pool[a]), parseLabels(pool[b])) < 0 })
		target = 0
	}
	type plan struct {
		present bool
		mode    int
		shape   [][]int64 // per chunk the offsets of its samples from the series start
	}
	emptyModes := []int{emPartialAll, emPartialAll, emPartialAll, emPartialAll, emWhole, emMixed, emStraddle, emStraddle}
	var plans [][]plan // [series][block]
	build := func() {
		plans = make([][]plan, nser)
		for si := range pool {
			plans[si] = make([]plan, nb)
			shared := si == target || (si == (target+1)%nser && r.Chance(70))
			for b := 0; b < nb; b++ {
				p := &plans[si][b]
				switch {
				case si == target:
					p.present = true
				case shared:
					p.present = r.Chance(75)
				default:
					p.present = r.Chance(30)
				}
				if !p.present {
					continue
				}
				nch := 1 + r.Intn(3)
				off := int64(0)
				for q := 0; q < nch; q++ {
					var ch []int64
					for n := 2 + r.Intn(4); n > 0; n-- {
						ch = append(ch, off)
						off += int64(2 + r.Intn(3))
					}
					p.shape = append(p.shape, ch)
					off += int64(r.Intn(4))
				}
				emptied := false
				if si == target {
					emptied = mask>>uint(b)&1 == 1
				} else if shared {
					emptied = r.Chance(35)
				} else {
					emptied = r.Chance(10)
				}
				switch {
				case emptied:
					p.mode = h.Pick(r, emptyModes)
					if p.mode == emMixed && nch == 1 {
						p.mode = emPartialAll
					}
				case r.Chance(15):
					p.mode = emAllButOne
				case r.Chance(15) && nch > 1:
					p.mode = emSomeChunks
				default:
					p.mode = emKeep
				}
			}
		}
	}
	// where the blocks go in time: rank[b]; for the concatenating merger try to make the concatenation of
	// the contributing inputs sorted (otherwise the index writer refuses the series and the case only shows
	// the error)
	rank := make([]int, nb)
	place := func() bool {
		yielded := make([][]string, nb)
		order := make([]int, nser)
		for i := range order {
			order[i] = i
		}
		sort.Slice(order, func(a, b int) bool {
			return labels.Compare(parseLabels(pool[order[a]]), parseLabels(pool[order[b]])) < 0
		})
		for b := 0; b < nb; b++ {
			for _, si := range order {
				if p := plans[si][b]; p.present && p.mode != emWhole {
					yielded[b] = append(yielded[b], pool[si])
				}
			}
		}
		orders := popOrders(yielded)
		before := make([][]bool, nb)
		for i := range before {
			before[i] = make([]bool, nb)
		}
		sensitive := false
		for si, l := range pool {
			prev := -1
			seenEmptyAt := -1
			for pos, b := range orders[l] {
				if !emContributes(plans[si][b].mode) {
					if pos >= 1 && seenEmptyAt < 0 {
						seenEmptyAt = pos
					}
					continue
				}
				if seenEmptyAt >= 0 && len(orders[l]) > 1 {
					sensitive = true
				}
				if prev >= 0 {
					before[prev][b] = true
				}
				prev = b
			}
		}
		// Kahn's algorithm with random choice among the ready blocks
		done := make([]bool, nb)
		for n := 0; n < nb; n++ {
			var ready []int
			for b := 0; b < nb; b++ {
				if done[b] {
					continue
				}
				ok := true
				for a := 0; a < nb; a++ {
					if !done[a] && before[a][b] {
						ok = false
					}
				}
				if ok {
					ready = append(ready, b)
				}
			}
			if len(ready) == 0 {
				return false
			}
			b := ready[0]
			if r.Chance(40) {
				b = h.Pick(r, ready)
			}
			rank[b] = n
			done[b] = true
		}
		if sensitive {
			c.Count("emptied:empty-input-before-nonempty")
		}
		return true
	}
	build()
	switch {
	case merger == "concat" && r.Chance(85):
		ok := place()
		for try := 0; !ok && try < 12; try++ {
			build()
			ok = place()
		}
		if ok {
			c.Count("emptied:placed-sorted")
		} else {
			c.Count("emptied:order-conflict")
			for b := range rank {
				rank[b] = b
			}
		}
	case r.Chance(35):
		for b := range rank {
			rank[b] = b
		}
		for i := nb - 1; i > 0; i-- {
			j := r.Intn(i + 1)
			rank[i], rank[j] = rank[j], rank[i]
		}
		c.Count("emptied:dirs-shuffled")
	default:
		for b := range rank {
			rank[b] = b
		}
	}
	// materialise
	const W = 90
	base := int64(r.Intn(40)) - 20
	gap := r.Chance(50)
	blocks := make([]blkT, nb)
	for b := range blocks {
		q := int64(rank[b])
		switch {
		case vertical:
			st := base + q*int64(10+r.Intn(25))
			blocks[b].mint, blocks[b].maxt = st, st+W
		case gap:
			blocks[b].mint, blocks[b].maxt = base+q*W+int64(r.Intn(3)), base+(q+1)*W-int64(r.Intn(3))
		default:
			blocks[b].mint, blocks[b].maxt = base+q*W, base+(q+1)*W
		}
	}
	order := make([]int, nser)
	for i := range order {
		order[i] = i
	}
	sort.Slice(order, func(a, b int) bool {
		return labels.Compare(parseLabels(pool[order[a]]), parseLabels(pool[order[b]])) < 0
	})
	allEmpty := true
	for b := range blocks {
		for _, si := range order {
			p := plans[si][b]
			if !p.present {
				continue
			}
			last := p.shape[len(p.shape)-1]
			length := last[len(last)-1]
			room := (blocks[b].maxt - 1 - blocks[b].mint) - length - 2
			start := blocks[b].mint + 1
			if room > 0 {
				start += int64(r.Intn(int(room)))
			}
			s := serT{lbl: pool[si]}
			for _, sh := range p.shape {
				ch := chunkT{mint: start + sh[0], maxt: start + sh[len(sh)-1]}
				for _, o := range sh {
					ch.xs = append(ch.xs, smp{start + o, 'f', fbits(genValue(si, start+o, 0))})
				}
				s.chunks = append(s.chunks, ch)
			}
			s.tombs = emptyingTombs(r, s.chunks, p.mode)
			if p.mode == emKeep && r.Chance(15) {
				s.tombs = genTombs(r, s, blocks[b].mint, blocks[b].maxt)
			}
			if emContributes(p.mode) {
				allEmpty = false
			}
			c.Count(fmt.Sprintf("emptied:mode:%d", p.mode))
			blocks[b].series = append(blocks[b].series, s)
		}
	}
	if allEmpty {
		c.Count("emptied:everything-deleted")
	}
	var ops []string
	for _, b := range blocks {
		ops = append(ops, fmt.Sprintf("blk %d %d", b.mint, b.maxt))
	}
	for i, b := range blocks {
		for _, s := range b.series {
			ops = append(ops, fmt.Sprintf("ser %d %s %s %s", i, s.lbl, showChunks(s.chunks), showTombs(s.tombs)))
		}
	}
	ops = append(ops, "compact "+merger)
	return ops
}

func genHeadCase(c *rec, r *h.Rng) []string {
	chunkRange := int64(40 + r.Intn(100))
	mmap := r.Bool()
	ops := []string{fmt.Sprintf("hopt %d %d", chunkRange, map[bool]int{false: 0, true: 1}[mmap])}
	nser := 1 + r.Intn(5)
	pool := append([]string(nil), labelPool...)
	for i := len(pool) - 1; i > 0; i-- {
		j := r.Intn(i + 1)
		pool[i], pool[j] = pool[j], pool[i]
	}
	base := int64(r.Intn(300))
	span := chunkRange*int64(1+r.Intn(3)) + int64(r.Intn(int(chunkRange)))
	var all []int64
	type hsT struct {
		lbl string
		xs  []smp
	}
	var hss []hsT
	histSeries := r.Chance(25)
	for si, lbl := range pool[:nser] {
		n := 1 + r.Intn(25)
		if r.Chance(8) {
			n = 130 + r.Intn(60)
		}
		ts := genTimes(r, n, base, base+span)
		kind := byte('f')
		if histSeries && r.Chance(40) {
			kind = 'h'
			if r.Bool() {
				kind = 'H'
			}
		}
		var xs []smp
		for _, t := range ts {
			if kind == 'f' {
				xs = append(xs, smp{t, 'f', fbits(genValue(si, t, 0))})
			} else {
				xs = append(xs, smp{t, kind, uint64(int64(si)*10000+(t+2000))*4 + 3})
			}
			all = append(all, t)
		}
		hss = append(hss, hsT{lbl, xs})
		ops = append(ops, fmt.Sprintf("hs %s %s", lbl, showSamples(xs)))
	}
	sort.Slice(all, func(a, b int) bool { return all[a] < all[b] })
	pick := func() int64 { return all[r.Intn(len(all))] + int64(r.Intn(3)) - 1 }
	nd := 0
	if r.Chance(45) {
		nd = 1 + r.Intn(3)
	}
	for k := 0; k < nd; k++ {
		a, b := pick(), pick()
		if a > b {
			a, b = b, a
		}
		if r.Chance(10) {
			a = math.MinInt64
		}
		if r.Chance(10) {
			b = math.MaxInt64
		}
		ops = append(ops, fmt.Sprintf("hd %s %d %d", hss[r.Intn(len(hss))].lbl, a, b))
	}
	if nd > 0 {
		c.Count("head:with-deletes")
	}
	// the range to write: whole head, a chunk-range aligned window, or a window cutting through chunks
	var wmin, wmax int64
	switch r.Intn(4) {
	case 0:
		wmin, wmax = all[0], all[len(all)-1]+1
		c.Count("head-range:all")
	case 1:
		wmin = (base / chunkRange) * chunkRange
		wmax = wmin + chunkRange*int64(1+r.Intn(2))
		c.Count("head-range:aligned")
	default:
		wmin, wmax = pick(), pick()
		if wmin > wmax {
			wmin, wmax = wmax, wmin
		}
		wmax++
		c.Count("head-range:cutting")
	}
	ops = append(ops, fmt.Sprintf("write %d %d", wmin, wmax))
	return ops
}

func main() {
	c := h.Init()
	defer c.Finish()
	if pf := os.Getenv("VERIF_PPROF"); pf != "" {
		f, err := os.Create(pf)
		fatal(err)
		fatal(pprof.StartCPUProfile(f))
		defer pprof.StopCPUProfile()
	}
	if c.Replay != "" {
		for _, cs := range c.ReplayCases() {
			c.Case(strings.TrimPrefix(cs[0], "case "))
			var r rec
			runCase(&r, cs[1:])
			r.flush(c)
		}
		return
	}
	type job struct {
		ops []string
		r   rec
	}
	jobs := make([]*job, c.N)
	for i := range jobs {
		r := c.Rng.Fork()
		j := &job{}
		if i%5 == 4 {
			j.ops = genHeadCase(&j.r, r)
			j.r.Count("case:head")
		} else {
			j.ops = genBlockCase(&j.r, r)
			j.r.Count("case:blocks")
		}
		jobs[i] = j
	}
	// emptied-input cases: appended after the random cases (their PRNG forks come last, so the random
	// cases of a seed are the ones they were before)
	nEm := 56
	if c.Tier == "thorough" {
		nEm = 56*4*2 + 112
	}
	if v, err := strconv.Atoi(c.Extra["emptied"]); err == nil {
		nEm = v
	}
	for k := 0; k < nEm; k++ {
		r := c.Rng.Fork()
		j := &job{}
		if c.Tier == "thorough" && k < 56*4*2 {
			j.ops = genEmptiedCase(&j.r, r, k, true)
		} else {
			j.ops = genEmptiedCase(&j.r, r, k, false)
		}
		j.r.Count("case:emptied")
		jobs = append(jobs, j)
	}
	workers := 6
	if w, err := strconv.Atoi(os.Getenv("VERIF_WORKERS")); err == nil && w > 0 {
		workers = w
	}
	var wg sync.WaitGroup
	next := int64(-1)
	for w := 0; w < workers; w++ {
		wg.Add(1)
		go func() {
			defer wg.Done()
			for {
				i := int(atomic.AddInt64(&next, 1))
				if i >= len(jobs) {
					return
				}
				runCase(&jobs[i].r, jobs[i].ops)
			}
		}()
	}
	wg.Wait()
	for i, j := range jobs {
		c.Case(fmt.Sprintf("c%d", i))
		c.NonTrivial(strings.Join(j.ops, ";"))
		j.r.flush(c)
	}
}
