// Suite sd (C47): the real discovery.Manager driven by scripted fake discoverers, a scripted (slow)
// consumer and configuration reloads. Grammar: lean/PromModel/Suites/SdSuite.lean.
//
// Every case owns one Manager (own registry, own context). Fake discovery.Config values (compared by the
// manager with reflect.DeepEqual, so "same config" = same (Case, ID)) create fakeDisc discoverers that send
// exactly the slices the script tells them to, through a per-discoverer FIFO, asynchronously to the script
// thread: updates race with reloads, with each other and with the sender's timer. The consumer reads SyncCh
// only at `recv`/`quiesce`. Cases run concurrently (they mostly wait for the manager's timers); output order
// is the generation order.
package main

import (
	"context"
	"fmt"
	"hash/fnv"
	"sort"
	"strconv"
	"strings"
	"sync"
	"sync/atomic"
	"time"

	"github.com/prometheus/client_golang/prometheus"
	dto "github.com/prometheus/client_model/go"
	"github.com/prometheus/common/model"
	"github.com/prometheus/common/promslog"

	"github.com/prometheus/prometheus/discovery"
	"github.com/prometheus/prometheus/discovery/targetgroup"

	"verif/harness/h"
)

// ---------------------------------------------------------------- fake SD

type fakeCfg struct {
	Case uint64
	ID   int
}

var runs sync.Map // Case -> *caseRun

func (fakeCfg) Name() string { return "verif_fake" }

func (c fakeCfg) NewDiscoverer(discovery.DiscovererOptions) (discovery.Discoverer, error) {
	v, _ := runs.Load(c.Case)
	r := v.(*caseRun)
	d := &fakeDisc{q: make(chan []*targetgroup.Group, 256), stopped: make(chan struct{})}
	r.mu.Lock()
	r.inst[c.ID] = d
	r.all = append(r.all, d)
	r.mu.Unlock()
	return d, nil
}

func (fakeCfg) NewDiscovererMetrics(prometheus.Registerer, discovery.RefreshMetricsInstantiator) discovery.DiscovererMetrics {
	return &discovery.NoopDiscovererMetrics{}
}

type fakeDisc struct {
	q           chan []*targetgroup.Group
	stopped     chan struct{}
	outstanding atomic.Int64
}

func (d *fakeDisc) Run(ctx context.Context, up chan<- []*targetgroup.Group) {
	defer close(d.stopped)
	for {
		select {
		case <-ctx.Done():
			return
		case tgs := <-d.q:
			select {
			case up <- tgs:
				d.outstanding.Add(-1)
			case <-ctx.Done():
				return
			}
		}
	}
}

func (d *fakeDisc) isStopped() bool {
	select {
	case <-d.stopped:
		return true
	default:
		return false
	}
}

func (d *fakeDisc) enqueue(tgs []*targetgroup.Group) {
	if d.isStopped() {
		return
	}
	d.outstanding.Add(1)
	select {
	case d.q <- tgs:
	default: // queue full (never with generated scripts): drop, but do not block the script
		d.outstanding.Add(-1)
	}
}

// ---------------------------------------------------------------- one case

type caseRun struct {
	id     uint64
	mgr    *discovery.Manager
	reg    *prometheus.Registry
	cancel context.CancelFunc
	done   chan struct{}

	mu   sync.Mutex
	inst map[int]*fakeDisc // current discoverer of a live fake config
	all  []*fakeDisc

	last    string
	got     bool
	recvs   int
	closed  bool
	inconcl bool
}

var caseSeq atomic.Uint64

func newRun() *caseRun {
	r := &caseRun{id: caseSeq.Add(1), inst: map[int]*fakeDisc{}, done: make(chan struct{}), last: "-"}
	runs.Store(r.id, r)
	ctx, cancel := context.WithCancel(context.Background())
	r.cancel = cancel
	r.reg = prometheus.NewRegistry()
	sdm, err := discovery.CreateAndRegisterSDMetrics(r.reg)
	if err != nil {
		panic(err)
	}
	r.mgr = discovery.NewManager(ctx, promslog.NewNopLogger(), r.reg, sdm, discovery.Updatert(20*time.Millisecond))
	if r.mgr == nil {
		panic("NewManager returned nil")
	}
	go func() { _ = r.mgr.Run(); close(r.done) }()
	return r
}

func (r *caseRun) stop() {
	r.cancel()
	<-r.done
	// the sender closes SyncCh on exit
	t := time.After(5 * time.Second)
	for !r.closed {
		select {
		case _, ok := <-r.mgr.SyncCh():
			if !ok {
				r.closed = true
			}
		case <-t:
			r.closed = true
		}
	}
	runs.Delete(r.id)
}

func atoi(s string) int { v, _ := strconv.Atoi(s); return v }

func (r *caseRun) applyCfg(spec string) {
	cfg := map[string]discovery.Configs{}
	live := map[int]bool{}
	if spec != "-" {
		for _, e := range strings.Split(spec, ";") {
			kv := strings.SplitN(e, "=", 2)
			if len(kv) != 2 {
				continue
			}
			var cs discovery.Configs
			if kv[1] != "" {
				for _, c := range strings.Split(kv[1], ",") {
					id := atoi(strings.TrimPrefix(c, "c"))
					if id == 0 {
						cs = append(cs, discovery.StaticConfig{{}})
					} else if id == 9 {
						// a real static config with targets (fresh but DeepEqual value on every reload)
						cs = append(cs, discovery.StaticConfig{mkGroup(9, "s9:9000:2")})
					} else {
						cs = append(cs, fakeCfg{Case: r.id, ID: id})
						live[id] = true
					}
				}
			}
			cfg[kv[0]] = cs
		}
	}
	if err := r.mgr.ApplyConfig(cfg); err != nil {
		panic(err)
	}
	r.mu.Lock()
	for id := range r.inst {
		if !live[id] {
			delete(r.inst, id)
		}
	}
	r.mu.Unlock()
}

func mkGroup(cfgID int, tok string) *targetgroup.Group {
	if tok == "nil" {
		return nil
	}
	p := strings.Split(tok, ":")
	if len(p) != 3 {
		return nil
	}
	n := atoi(p[2])
	g := &targetgroup.Group{Source: p[0], Labels: model.LabelSet{"ver": model.LabelValue(p[1]), "cfg": model.LabelValue(strconv.Itoa(cfgID))}}
	for k := 0; k < n; k++ {
		g.Targets = append(g.Targets, model.LabelSet{model.AddressLabel: model.LabelValue(fmt.Sprintf("c%d-v%s-%d:80", cfgID, p[1], k))})
	}
	return g
}

func (r *caseRun) upd(c, u string) {
	id := atoi(strings.TrimPrefix(c, "c"))
	if id == 0 || id == 9 {
		return // static configs have no scripted discoverer
	}
	r.mu.Lock()
	d := r.inst[id]
	r.mu.Unlock()
	if d == nil {
		return
	}
	var tgs []*targetgroup.Group
	if u != "-" {
		for _, tok := range strings.Split(u, ",") {
			tgs = append(tgs, mkGroup(id, tok))
		}
	}
	d.enqueue(tgs)
}

// syncQueues waits until every queued slice was handed to its updater (or its discoverer was cancelled).
func (r *caseRun) syncQueues(bound time.Duration) bool {
	dl := time.Now().Add(bound)
	for {
		r.mu.Lock()
		all := append([]*fakeDisc(nil), r.all...)
		r.mu.Unlock()
		busy := false
		for _, d := range all {
			if d.outstanding.Load() > 0 && !d.isStopped() {
				busy = true
			}
		}
		if !busy {
			return true
		}
		if time.Now().After(dl) {
			return false
		}
		time.Sleep(200 * time.Microsecond)
	}
}

type rg struct{ src, ver, n int }

func render(m map[string][]*targetgroup.Group) string {
	if len(m) == 0 {
		return "-"
	}
	type job struct {
		j  int
		gs []rg
	}
	var jobs []job
	for name, tgs := range m {
		jb := job{j: atoi(strings.TrimPrefix(name, "j"))}
		for _, tg := range tgs {
			if tg == nil {
				jb.gs = append(jb.gs, rg{-1, -1, -1})
				continue
			}
			g := rg{src: atoi(strings.TrimPrefix(tg.Source, "s")), ver: atoi(string(tg.Labels["ver"])), n: len(tg.Targets)}
			// integrity of the payload: the targets are the ones sent with that version
			for k, t := range tg.Targets {
				if string(t[model.AddressLabel]) != fmt.Sprintf("c%s-v%d-%d:80", tg.Labels["cfg"], g.ver, k) {
					g.n = 999999
				}
			}
			jb.gs = append(jb.gs, g)
		}
		sort.Slice(jb.gs, func(a, b int) bool {
			x, y := jb.gs[a], jb.gs[b]
			if x.src != y.src {
				return x.src < y.src
			}
			if x.ver != y.ver {
				return x.ver < y.ver
			}
			return x.n < y.n
		})
		jobs = append(jobs, jb)
	}
	sort.Slice(jobs, func(a, b int) bool { return jobs[a].j < jobs[b].j })
	var sb strings.Builder
	for i, jb := range jobs {
		if i > 0 {
			sb.WriteByte(';')
		}
		fmt.Fprintf(&sb, "j%d=", jb.j)
		for k, g := range jb.gs {
			if k > 0 {
				sb.WriteByte(',')
			}
			fmt.Fprintf(&sb, "s%d.%d.%d", g.src, g.ver, g.n)
		}
	}
	return sb.String()
}

func (r *caseRun) recvOnce(d time.Duration) (string, bool) {
	if r.closed {
		time.Sleep(d)
		return "none", false
	}
	t := time.NewTimer(d)
	defer t.Stop()
	select {
	case m, ok := <-r.mgr.SyncCh():
		if !ok {
			r.closed = true
			return "none", false
		}
		r.last, r.got = render(m), true
		r.recvs++
		return r.last, true
	case <-t.C:
		return "none", false
	}
}

const (
	quietWait    = 350 * time.Millisecond
	quiesceBound = 30 * time.Second
)

// quiesce: all scripted slices handed over, then the consumer keeps reading until two consecutive waits
// (each longer than two sender ticks) deliver nothing and no trigger is outstanding.
func (r *caseRun) quiesce() (string, bool) {
	dl := time.Now().Add(quiesceBound)
	if !r.syncQueues(quiesceBound / 2) {
		return "", false
	}
	quiet := 0
	for time.Now().Before(dl) {
		if _, ok := r.recvOnce(quietWait); ok {
			quiet = 0
			continue
		}
		if discovery.VerifPending(r.mgr) {
			quiet = 0
			continue
		}
		quiet++
		if quiet >= 2 {
			return r.last, true
		}
	}
	return "", false
}

func counter(reg *prometheus.Registry, name string) float64 {
	mfs, err := reg.Gather()
	if err != nil {
		return 0
	}
	var v float64
	for _, mf := range mfs {
		if mf.GetName() == name {
			for _, m := range mf.GetMetric() {
				v += valueOf(m)
			}
		}
	}
	return v
}

func valueOf(m *dto.Metric) float64 {
	if m.Counter != nil {
		return m.Counter.GetValue()
	}
	if m.Gauge != nil {
		return m.Gauge.GetValue()
	}
	return 0
}

type result struct {
	ops, outs []string
	stats     map[string]int
	inconcl   bool
	panicked  string
}

// runCase executes a script (op lines without observations) against a fresh Manager.
func runCase(script []string) (res result) {
	res.stats = map[string]int{}
	r := newRun()
	defer r.stop()
	emit := func(op, out string) { res.ops = append(res.ops, op); res.outs = append(res.outs, out) }
	reloads, updsBeforeReload, upds := 0, false, 0
	for _, line := range script {
		f := strings.Fields(line)
		if len(f) == 0 {
			continue
		}
		switch f[0] {
		case "cfg":
			spec := "-"
			if len(f) > 1 {
				spec = f[1]
			}
			r.applyCfg(spec)
			reloads++
			if upds > 0 {
				updsBeforeReload = true
			}
			res.stats["op.cfg"]++
			emit("cfg "+spec, "ok")
		case "upd":
			if len(f) != 3 {
				emit(line, "unparsable")
				continue
			}
			r.upd(f[1], f[2])
			upds++
			res.stats["op.upd"]++
			emit(line, "ok")
		case "sync":
			if !r.syncQueues(10 * time.Second) {
				res.inconcl = true
				return res
			}
			res.stats["op.sync"]++
			emit("sync", "-")
		case "sleep":
			ms := 0
			if len(f) > 1 {
				ms = atoi(f[1])
			}
			time.Sleep(time.Duration(ms) * time.Millisecond)
			res.stats["op.sleep"]++
			emit(fmt.Sprintf("sleep %d", ms), "-")
		case "recv":
			obs, ok := r.recvOnce(300 * time.Millisecond)
			if ok {
				res.stats["recv.got"]++
			} else {
				res.stats["recv.none"]++
			}
			emit("recv obs="+obs, "-")
		case "quiesce":
			out, ok := r.quiesce()
			if !ok {
				res.inconcl = true
				return res
			}
			res.stats["op.quiesce"]++
			emit("quiesce", out)
			// Trace-level observation at a quiescent point: every trigger taken by the sender (S1) ended in
			// exactly one hand-over attempt (S2b), delivered or counted as delayed.
			emit(fmt.Sprintf("counters sent=%d delayed=%d got=%d",
				int(counter(r.reg, "prometheus_sd_updates_total")),
				int(counter(r.reg, "prometheus_sd_updates_delayed_total")), r.recvs), "-")
		default:
			emit(line, "unparsable")
		}
	}
	delayed := int(counter(r.reg, "prometheus_sd_updates_delayed_total"))
	if delayed > 0 {
		res.stats["case.slow_consumer_resend"]++
	}
	res.stats["total.delayed_sends"] += delayed
	res.stats["total.deliveries"] += r.recvs
	if reloads > 1 && updsBeforeReload {
		res.stats["case.reload_after_updates"]++
	}
	if strings.Contains(r.last, ".") {
		res.stats["case.final_nonempty"]++
	}
	return res
}

// ---------------------------------------------------------------- generator

func genCase(rng *h.Rng) []string {
	nJobs := 1 + rng.Intn(3)
	nCfgs := 1 + rng.Intn(3)
	nSrc := 1 + rng.Intn(3)
	ver := 0
	var script []string
	genCfg := func() string {
		var parts []string
		for j := 1; j <= nJobs; j++ {
			if rng.Chance(15) {
				continue // job dropped from the config
			}
			var cs []string
			for c := 1; c <= nCfgs; c++ {
				if rng.Chance(55) {
					cs = append(cs, fmt.Sprintf("c%d", c))
				}
			}
			if len(cs) > 0 && rng.Chance(5) {
				cs = append(cs, cs[0]) // the same config listed twice
			}
			if len(cs) > 0 && rng.Chance(4) {
				cs = append(cs, "c0") // explicit static empty config
			}
			if rng.Chance(8) {
				cs = append(cs, "c9") // real static config with targets
			}
			parts = append(parts, fmt.Sprintf("j%d=%s", j, strings.Join(cs, ",")))
		}
		if len(parts) == 0 {
			return "-"
		}
		return strings.Join(parts, ";")
	}
	lastUpd := ""
	genUpd := func() string {
		if lastUpd != "" && rng.Chance(12) {
			return lastUpd // repeated identical update
		}
		c := 1 + rng.Intn(nCfgs)
		k := 1 + rng.Intn(3)
		if rng.Chance(4) {
			k = 0
		}
		var toks []string
		for i := 0; i < k; i++ {
			if rng.Chance(5) {
				toks = append(toks, "nil")
				continue
			}
			ver++
			n := []int{0, 0, 1, 1, 2, 3}[rng.Intn(6)]
			toks = append(toks, fmt.Sprintf("s%d:%d:%d", 1+rng.Intn(nSrc), ver, n))
		}
		u := "-"
		if len(toks) > 0 {
			u = strings.Join(toks, ",")
		}
		lastUpd = fmt.Sprintf("upd c%d %s", c, u)
		return lastUpd
	}
	if rng.Chance(7) {
		// Directed shape: a config shared by two jobs loses one subscriber, has all its sources emptied,
		// then gets the subscriber back (stale per-subscriber entries must not resurface); with filler ops.
		a, b := 1, 2
		c := 1 + rng.Intn(3)
		filler := func() {
			for rng.Chance(35) {
				switch rng.Intn(3) {
				case 0:
					script = append(script, "recv")
				case 1:
					script = append(script, fmt.Sprintf("sleep %d", []int{1, 30, 120}[rng.Intn(3)]))
				default:
					script = append(script, "sync")
				}
			}
		}
		script = append(script, fmt.Sprintf("cfg j%d=c%d;j%d=c%d", a, c, b, c))
		var srcs []int
		var toks []string
		for s := 1; s <= 1+rng.Intn(3); s++ {
			ver++
			srcs = append(srcs, s)
			toks = append(toks, fmt.Sprintf("s%d:%d:%d", s, ver, 1+rng.Intn(3)))
		}
		script = append(script, fmt.Sprintf("upd c%d %s", c, strings.Join(toks, ",")))
		filler()
		other := ""
		if rng.Bool() {
			other = fmt.Sprintf("c%d", 1+c%3)
		}
		script = append(script, fmt.Sprintf("cfg j%d=c%d;j%d=%s", a, c, b, other))
		filler()
		toks = nil
		for _, s := range srcs {
			ver++
			toks = append(toks, fmt.Sprintf("s%d:%d:0", s, ver))
		}
		if rng.Chance(25) && len(toks) > 1 {
			toks = toks[1:] // one source survives: the copy path instead
		}
		script = append(script, fmt.Sprintf("upd c%d %s", c, strings.Join(toks, ",")))
		filler()
		script = append(script, fmt.Sprintf("cfg j%d=c%d;j%d=c%d", a, c, b, c))
		filler()
		script = append(script, "quiesce")
		return script
	}
	script = append(script, "cfg "+genCfg())
	n := 4 + rng.Intn(16)
	for i := 0; i < n; i++ {
		switch x := rng.Intn(100); {
		case x < 52:
			script = append(script, genUpd())
		case x < 64:
			script = append(script, "cfg "+genCfg())
		case x < 78:
			script = append(script, "recv")
		case x < 88:
			script = append(script, fmt.Sprintf("sleep %d", []int{1, 5, 30, 120, 250}[rng.Intn(5)]))
		case x < 94:
			script = append(script, "sync")
		default:
			script = append(script, "quiesce")
		}
	}
	script = append(script, "quiesce")
	return script
}

func stripObs(op string) string {
	if strings.HasPrefix(op, "recv") {
		return "recv"
	}
	if strings.HasPrefix(op, "counters") {
		return "" // regenerated after every quiesce
	}
	return op
}

func main() {
	c := h.Init()
	var scripts [][]string
	var ids []string
	if c.Replay != "" {
		for i, cs := range c.ReplayCases() {
			id := strings.TrimPrefix(cs[0], "case ")
			if id == "" {
				id = fmt.Sprintf("r%d", i)
			}
			var s []string
			for _, l := range cs[1:] {
				s = append(s, stripObs(l))
			}
			scripts = append(scripts, s)
			ids = append(ids, id)
		}
	} else {
		for i := 0; i < c.N; i++ {
			scripts = append(scripts, genCase(c.Rng.Fork()))
			ids = append(ids, fmt.Sprintf("s%d-%d", c.Seed, i))
		}
	}
	workers := 48
	if w, ok := c.Extra["workers"]; ok {
		workers = atoi(w)
	}
	if workers < 1 {
		workers = 1
	}
	results := make([]result, len(scripts))
	var wg sync.WaitGroup
	next := atomic.Int64{}
	for w := 0; w < workers; w++ {
		wg.Add(1)
		go func() {
			defer wg.Done()
			for {
				i := int(next.Add(1)) - 1
				if i >= len(scripts) {
					return
				}
				var res result
				if p, v := h.Try(func() { res = runCase(scripts[i]) }); p {
					res.panicked = fmt.Sprint(v)
				}
				results[i] = res
			}
		}()
	}
	wg.Wait()
	for i, res := range results {
		if res.panicked != "" {
			c.Case(ids[i])
			c.Op("quiesce", "panic")
			c.Count("case.panic")
			continue
		}
		if res.inconcl {
			c.Count("case.inconclusive")
			continue
		}
		c.Case(ids[i])
		for k := range res.ops {
			c.Op(res.ops[k], res.outs[k])
		}
		for k, v := range res.stats {
			c.Stats[k] += v
		}
		if res.stats["case.final_nonempty"] > 0 && (res.stats["case.slow_consumer_resend"] > 0 || res.stats["case.reload_after_updates"] > 0) {
			hh := fnv.New64a()
			hh.Write([]byte(strings.Join(scripts[i], "\n")))
			c.NonTrivial(strconv.FormatUint(hh.Sum64(), 16))
		}
	}
	c.Finish()
}
