// Suite tombfile (C20): tombstones.MemTombstones (AddInterval, TruncateBefore, DeleteTombstones, Get,
// Iter, Total) and the tombstone codec (Encode/Decode, WriteFile/ReadTombstones) on generated
// histories, including truncated and single-byte-mutated encodings.
package main

import (
	"errors"
	"fmt"
	"log/slog"
	"math"
	"os"
	"path/filepath"
	"sort"
	"strconv"
	"strings"

	"github.com/prometheus/prometheus/storage"
	"github.com/prometheus/prometheus/tsdb/encoding"
	"github.com/prometheus/prometheus/tsdb/tombstones"

	"verif/harness/h"
)

func setStr(in tombstones.Intervals) string {
	if len(in) == 0 {
		return "-"
	}
	parts := make([]string, len(in))
	for i, iv := range in {
		parts[i] = fmt.Sprintf("%d:%d", iv.Mint, iv.Maxt)
	}
	return strings.Join(parts, ",")
}

type group struct {
	ref storage.SeriesRef
	ivs tombstones.Intervals
}

// groups reads a Reader through Iter and sorts by reference (Go map order is random).
func groups(tr tombstones.Reader) []group {
	var gs []group
	_ = tr.Iter(func(ref storage.SeriesRef, ivs tombstones.Intervals) error {
		cp := make(tombstones.Intervals, len(ivs))
		copy(cp, ivs)
		gs = append(gs, group{ref, cp})
		return nil
	})
	sort.Slice(gs, func(i, j int) bool { return gs[i].ref < gs[j].ref })
	return gs
}

func dumpStr(tr tombstones.Reader) string {
	gs := groups(tr)
	body := "-"
	if len(gs) > 0 {
		parts := make([]string, len(gs))
		for i, g := range gs {
			parts[i] = fmt.Sprintf("%d=%s", uint64(g.ref), setStr(g.ivs))
		}
		body = strings.Join(parts, ";")
	}
	return fmt.Sprintf("total=%d %s", tr.Total(), body)
}

// sortedReader is the real MemTombstones with Iter in reference order, so that Encode/WriteFile
// (which only use Iter) produce deterministic bytes.
type sortedReader struct{ *tombstones.MemTombstones }

func (s sortedReader) Iter(f func(storage.SeriesRef, tombstones.Intervals) error) error {
	for _, g := range groups(s.MemTombstones) {
		if err := f(g.ref, g.ivs); err != nil {
			return err
		}
	}
	return nil
}

func decClass(err error) string {
	switch {
	case errors.Is(err, encoding.ErrInvalidSize) && strings.Contains(err.Error(), "tombstones header"):
		return "header-invalidsize"
	case errors.Is(err, encoding.ErrInvalidSize):
		return "invalidsize"
	case strings.Contains(err.Error(), "invalid tombstone format"):
		return "badformat"
	case strings.Contains(err.Error(), "invalid magic number"):
		return "badmagic"
	case strings.Contains(err.Error(), "checksum did not match"):
		return "checksum"
	}
	return "err-other:" + h.HexS(err.Error())
}

func decodeOut(b []byte) string {
	var tr tombstones.Reader
	var err error
	if p, _ := h.Try(func() { tr, err = tombstones.Decode(b) }); p {
		return "panic"
	}
	if err != nil {
		return decClass(err)
	}
	return "ok " + dumpStr(tr)
}

var tmpDir string

func fileDir() string {
	if tmpDir == "" {
		base := "/dev/shm"
		if _, err := os.Stat(base); err != nil {
			base = ""
		}
		d, err := os.MkdirTemp(base, "verif-tombfile-")
		if err != nil {
			panic(err)
		}
		tmpDir = d
	}
	return tmpDir
}

func runCase(c *h.Ctx, ops []string) {
	mt := tombstones.NewMemTombstones()
	for _, op := range ops {
		f := strings.Fields(op)
		switch f[0] {
		case "addi":
			r, _ := strconv.ParseUint(f[1], 10, 64)
			a, _ := strconv.ParseInt(f[2], 10, 64)
			b, _ := strconv.ParseInt(f[3], 10, 64)
			out := "ok"
			if p, _ := h.Try(func() { mt.AddInterval(storage.SeriesRef(r), tombstones.Interval{Mint: a, Maxt: b}) }); p {
				out = "panic"
			}
			c.Op(op, out)
		case "trunc":
			t, _ := strconv.ParseInt(f[1], 10, 64)
			mt.TruncateBefore(t)
			c.Op(op, "ok")
		case "deltomb":
			m := map[storage.SeriesRef]struct{}{}
			if f[1] != "-" {
				for _, p := range strings.Split(f[1], ",") {
					r, _ := strconv.ParseUint(p, 10, 64)
					m[storage.SeriesRef(r)] = struct{}{}
				}
			}
			mt.DeleteTombstones(m)
			c.Op(op, "ok")
		case "get":
			r, _ := strconv.ParseUint(f[1], 10, 64)
			ivs, _ := mt.Get(storage.SeriesRef(r))
			c.Op(op, "ok "+setStr(ivs))
		case "dump":
			c.Op(op, dumpStr(mt))
		case "enc":
			b, err := tombstones.Encode(sortedReader{mt})
			if err != nil {
				c.Op(op, "err")
			} else {
				c.Op(op, h.Hex(b))
			}
		case "dec":
			out := decodeOut(h.UnHex(f[1]))
			c.Count("dec:" + strings.Fields(out)[0])
			c.Op(op, out)
		case "encdec":
			// the real map order: bytes differ from run to run, the decoded content must not
			b, err := tombstones.Encode(mt)
			if err != nil {
				c.Op(op, "err")
			} else {
				c.Op(op, decodeOut(b))
			}
		case "wfile":
			dir := fileDir()
			_, err := tombstones.WriteFile(slog.New(slog.DiscardHandler), dir, sortedReader{mt})
			if err != nil {
				c.Op(op, "err-write")
				break
			}
			b, err := os.ReadFile(filepath.Join(dir, tombstones.TombstonesFilename))
			if err != nil {
				c.Op(op, "err-read")
				break
			}
			c.Op(op, h.Hex(b))
		case "rfile":
			dir := fileDir()
			b := h.UnHex(f[1])
			if err := os.WriteFile(filepath.Join(dir, tombstones.TombstonesFilename), b, 0o644); err != nil {
				c.Op(op, "err-write")
				break
			}
			var tr tombstones.Reader
			var size int64
			var err error
			out := ""
			if p, _ := h.Try(func() { tr, size, err = tombstones.ReadTombstones(dir) }); p {
				out = "panic"
			} else if err != nil {
				out = decClass(err)
			} else {
				out = fmt.Sprintf("ok size=%d %s", size, dumpStr(tr))
			}
			c.Count("rfile:" + strings.Fields(out)[0])
			c.Op(op, out)
		default:
			c.Op(op, "bad-op")
		}
	}
}

var times = []int64{math.MinInt64, math.MinInt64 + 1, -3, -1, 0, 1, 2, 3, 4, 5, 6, 7, 8, 9, 10, 11, 20, 21, 63, 64, 65, 8191, 8192, 1 << 40, math.MaxInt64 - 1, math.MaxInt64}
var refs = []uint64{0, 1, 2, 3, 127, 128, 300, 16383, 16384, 1 << 32, 1<<63 - 1, 1 << 63, math.MaxUint64}

func main() {
	c := h.Init()
	defer c.Finish()
	defer func() {
		if tmpDir != "" {
			os.RemoveAll(tmpDir)
		}
	}()
	if c.Replay != "" {
		for _, cs := range c.ReplayCases() {
			c.Case(strings.TrimPrefix(cs[0], "case "))
			runCase(c, cs[1:])
		}
		return
	}
	r := c.Rng
	// fixed damaged files around the header / minimal sizes
	c.Case("fixed-small-files")
	var fixed []string
	for _, hx := range []string{"-", "01", "0130ba30", "0130ba3001", "0130ba300000", "0130ba30000000", "0130ba3000000000",
		"0130ba300100000000", "0130ba300200000000", "ffffffff0100000000", "0130ba3001aabbccdd"} {
		fixed = append(fixed, "rfile "+hx)
	}
	for _, hx := range []string{"-", "00", "01", "02", "0180", "01ffffffffffffffffff01", "01ffffffffffffffffff02", "01ffffffffffffffffffff01",
		"01000000", "010001", "01008001", "0105ffffffffffffffffff01ffffffffffffffffff01", "01050204050608", "01050608050204", "01050204050506"} {
		fixed = append(fixed, "dec "+hx)
	}
	runCase(c, fixed)
	for i := 0; i < c.N; i++ {
		c.Case(fmt.Sprintf("t%d", i))
		// phase 1: a mutation history (kept as op lines; a shadow store gives us the bytes to damage)
		shadow := tombstones.NewMemTombstones()
		var ops []string
		nref := 1 + r.Intn(4)
		myrefs := make([]uint64, nref)
		for j := range myrefs {
			myrefs[j] = h.Pick(r, refs)
		}
		n := 1 + r.Intn(10)
		for k := 0; k < n; k++ {
			switch x := r.Intn(100); {
			case x < 70:
				a, b := h.PickI64(r, times), h.PickI64(r, times)
				if r.Chance(30) {
					a = r.Range(-20, 40)
					b = a + r.Range(0, 8)
				}
				// only valid intervals: after an invalid one (mint > maxt) the stored list is unsorted and
				// the behaviour of Add depends on the search strategy — outside the property's statement,
				// and a harmless refactoring (linear instead of binary search) would raise an alarm.
				if a > b {
					a, b = b, a
				}
				ref := h.Pick(r, myrefs)
				ops = append(ops, fmt.Sprintf("addi %d %d %d", ref, a, b))
				h.Try(func() { shadow.AddInterval(storage.SeriesRef(ref), tombstones.Interval{Mint: a, Maxt: b}) })
				c.Count("op:addi")
			case x < 82:
				t := h.PickI64(r, times)
				if r.Chance(50) {
					t = r.Range(-20, 50)
				}
				ops = append(ops, "dump", fmt.Sprintf("trunc %d", t))
				shadow.TruncateBefore(t)
				c.Count("op:trunc")
			case x < 90:
				var rs []string
				m := map[storage.SeriesRef]struct{}{}
				for j, cnt := 0, r.Intn(3); j < cnt; j++ {
					ref := h.Pick(r, myrefs)
					if r.Chance(20) {
						ref = h.Pick(r, refs)
					}
					rs = append(rs, strconv.FormatUint(ref, 10))
					m[storage.SeriesRef(ref)] = struct{}{}
				}
				arg := "-"
				if len(rs) > 0 {
					arg = strings.Join(rs, ",")
				}
				ops = append(ops, "deltomb "+arg)
				shadow.DeleteTombstones(m)
				c.Count("op:deltomb")
			default:
				ops = append(ops, fmt.Sprintf("get %d", h.Pick(r, myrefs)))
			}
		}
		// phase 2: read-back of exactly what is written
		ops = append(ops, "dump", "enc", "encdec", "wfile")
		enc, _ := tombstones.Encode(sortedReader{shadow})
		ops = append(ops, "dec "+h.Hex(enc))
		dir := fileDir()
		tombstones.WriteFile(slog.New(slog.DiscardHandler), dir, sortedReader{shadow})
		file, _ := os.ReadFile(filepath.Join(dir, tombstones.TombstonesFilename))
		ops = append(ops, "rfile "+h.Hex(file))
		c.Count(fmt.Sprintf("enclen:%d", len(enc)/16*16))
		// phase 3: damaged inputs — truncations and single-byte mutations of both
		budget := 10
		if c.Tier == "thorough" {
			budget = 40
		}
		for _, src := range []struct {
			op string
			b  []byte
		}{{"dec", enc}, {"rfile", file}} {
			cuts := map[int]bool{}
			if len(src.b) <= budget {
				for k := 0; k < len(src.b); k++ {
					cuts[k] = true
				}
			} else {
				for k := 0; k < budget; k++ {
					cuts[r.Intn(len(src.b))] = true
				}
				cuts[len(src.b)-1], cuts[0], cuts[4], cuts[5], cuts[8] = true, true, true, true, true
			}
			ks := make([]int, 0, len(cuts))
			for k := range cuts {
				if k < len(src.b) {
					ks = append(ks, k)
				}
			}
			sort.Ints(ks)
			for _, k := range ks {
				ops = append(ops, src.op+" "+h.Hex(src.b[:k]))
				c.Count("damage:truncate")
			}
			for k := 0; k < budget && len(src.b) > 0; k++ {
				m := append([]byte{}, src.b...)
				pos := r.Intn(len(m))
				if r.Chance(25) {
					pos = r.Intn(min(len(m), 6))
				}
				switch r.Intn(3) {
				case 0:
					m[pos] ^= 1 << uint(r.Intn(8))
				case 1:
					m[pos] = byte(r.Intn(256))
				default:
					m[pos] ^= 0x80
				}
				ops = append(ops, src.op+" "+h.Hex(m))
				c.Count("damage:mutate")
			}
			// one appended byte
			ops = append(ops, src.op+" "+h.Hex(append(append([]byte{}, src.b...), byte(r.Intn(256)))))
		}
		c.NonTrivial(strings.Join(ops[:n], ";"))
		runCase(c, ops)
	}
}
