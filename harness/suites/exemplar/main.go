// Suite exemplar (C21): tsdb.CircularExemplarStorage driven through its public API
// (NewCircularExemplarStorage, ValidateExemplar, AddExemplar, Resize, SetOutOfOrderTimeWindow, Select).
package main

import (
	"errors"
	"fmt"
	"math"
	"os"
	"strconv"
	"strings"
	"sync/atomic"
	"time"

	"github.com/prometheus/client_golang/prometheus"

	"github.com/prometheus/prometheus/model/exemplar"
	"github.com/prometheus/prometheus/model/labels"
	"github.com/prometheus/prometheus/storage"
	"github.com/prometheus/prometheus/tsdb"

	"verif/harness/h"
)

// Series i; labels.Compare order equals index order (checked in main).
var seriesDefs = [][]string{
	{"a", "1"},
	{"a", "1", "b", "x"},
	{"a", "2"},
	{"b", "0"},
	{"b", "0", "c", "1"},
}
var series []labels.Labels
var labelNames = []string{"a", "b", "c"}

// Exemplar label sets (name/value pairs, names sorted and unique).
var exLabelPool = [][]string{
	{},
	{"trace_id", "abc"},
	{"trace_id", "abd"},
	{"a", "1"},
	{"a", "2"},
	{"a", "1", "b", "2"},
	{"k", "é"},
	{"k", strings.Repeat("x", 126)},          // 127 runes
	{"k", strings.Repeat("x", 127)},          // 128 runes: allowed
	{"k", strings.Repeat("x", 128)},          // 129 runes: too long
	{"k", strings.Repeat("é", 127)},          // 128 runes, 255 bytes: allowed
	{"k", strings.Repeat("é", 128)},          // 129 runes
	{"k1", strings.Repeat("y", 62), "k2", strings.Repeat("世", 62)}, // 128 runes
	{"k1", strings.Repeat("y", 63), "k2", strings.Repeat("世", 62)}, // 129 runes
}

var valPool = []float64{0, math.Copysign(0, -1), 1, 1, 2, -1, 1.5, math.Inf(1), math.NaN()}

func lblToken(kv []string) string {
	if len(kv) == 0 {
		return "-"
	}
	var parts []string
	for i := 0; i < len(kv); i += 2 {
		parts = append(parts, h.HexS(kv[i])+":"+h.HexS(kv[i+1]))
	}
	return strings.Join(parts, ",")
}

func tokenToLabels(tok string) labels.Labels {
	if tok == "-" {
		return labels.EmptyLabels()
	}
	var kv []string
	for _, p := range strings.Split(tok, ",") {
		nv := strings.SplitN(p, ":", 2)
		kv = append(kv, string(h.UnHex(nv[0])), string(h.UnHex(nv[1])))
	}
	return labels.FromStrings(kv...)
}

func labelsToToken(l labels.Labels) string {
	var kv []string
	l.Range(func(x labels.Label) { kv = append(kv, x.Name, x.Value) })
	return lblToken(kv)
}

func cls(err error) string {
	switch {
	case err == nil:
		return "ok"
	case errors.Is(err, storage.ErrDuplicateExemplar):
		return "dup"
	case errors.Is(err, storage.ErrOutOfOrderExemplar):
		return "ooo"
	case errors.Is(err, storage.ErrExemplarLabelLength):
		return "toolong"
	case errors.Is(err, storage.ErrExemplarsDisabled):
		return "disabled"
	}
	return "other"
}

type store struct {
	ces *tsdb.CircularExemplarStorage
	reg *prometheus.Registry
}

func (s *store) appended() float64 {
	mfs, err := s.reg.Gather()
	if err != nil {
		panic(err)
	}
	for _, mf := range mfs {
		if mf.GetName() == "prometheus_tsdb_exemplar_exemplars_appended_total" {
			return mf.GetMetric()[0].GetCounter().GetValue()
		}
	}
	panic("appended counter not found")
}

func newStore(capacity, window int64) *store {
	reg := prometheus.NewRegistry()
	es, err := tsdb.NewCircularExemplarStorage(capacity, tsdb.NewExemplarMetrics(reg), window)
	if err != nil {
		panic(err)
	}
	return &store{ces: es.(*tsdb.CircularExemplarStorage), reg: reg}
}

func matchersFor(mask int, regexAll bool) [][]*labels.Matcher {
	var out [][]*labels.Matcher
	if regexAll {
		return [][]*labels.Matcher{{labels.MustNewMatcher(labels.MatchRegexp, "a", ".*")}}
	}
	for i, l := range series {
		if mask&(1<<i) == 0 {
			continue
		}
		var ms []*labels.Matcher
		for _, n := range labelNames {
			ms = append(ms, labels.MustNewMatcher(labels.MatchEqual, n, l.Get(n)))
		}
		out = append(out, ms)
	}
	return out
}

// progress is bumped after every op; the watchdog turns a non-terminating call (a cycle in a
// per-series list makes Select/findInsertionIndex loop forever) into a harness failure.
var progress atomic.Int64

func watchdog() {
	last, stale := int64(-1), 0
	for {
		time.Sleep(5 * time.Second)
		if p := progress.Load(); p == last {
			stale++
			if stale >= 2 {
				fmt.Fprintln(os.Stderr, "exemplar suite: an operation did not terminate within 10 s (cyclic exemplar list?)")
				os.Exit(4)
			}
		} else {
			last, stale = p, 0
		}
	}
}

func runCase(c *h.Ctx, ops []string) {
	st := newStore(0, 0)
	stored, evictable := 0, 0
	for _, op := range ops {
		f := strings.Fields(op)
		var out string
		panicked, pv := h.Try(func() {
			switch f[0] {
			case "new":
				cp, _ := strconv.ParseInt(f[1], 10, 64)
				w, _ := strconv.ParseInt(f[2], 10, 64)
				st = newStore(cp, w)
				if cp > 0 {
					evictable = int(cp)
				}
				out = "ok"
			case "add":
				si, _ := strconv.Atoi(f[1])
				ts, _ := strconv.ParseInt(f[2], 10, 64)
				vb, _ := strconv.ParseUint(f[3], 16, 64)
				e := exemplar.Exemplar{Labels: tokenToLabels(f[5]), Value: math.Float64frombits(vb), Ts: ts, HasTs: f[4] == "1"}
				if want, _ := strconv.ParseUint(f[6], 16, 64); want != e.Labels.Hash() {
					panic("replayed hash differs from Labels.Hash()")
				}
				v := st.ces.ValidateExemplar(series[si], e)
				before := st.appended()
				a := st.ces.AddExemplar(series[si], e)
				d := st.appended() - before
				out = fmt.Sprintf("v=%s a=%s stored=%d", cls(v), cls(a), int(d))
				c.Count("add:v=" + cls(v))
				if d > 0 {
					stored++
				} else if a == nil && v == nil {
					c.Count("add:silent-drop")
				}
			case "resize":
				l, _ := strconv.ParseInt(f[1], 10, 64)
				out = fmt.Sprintf("migrated=%d", st.ces.Resize(l))
				c.Count("resize")
			case "window":
				d, _ := strconv.ParseInt(f[1], 10, 64)
				st.ces.SetOutOfOrderTimeWindow(d)
				out = "ok"
			case "select":
				a, _ := strconv.ParseInt(f[1], 10, 64)
				b, _ := strconv.ParseInt(f[2], 10, 64)
				mask, _ := strconv.Atoi(f[3])
				res, err := st.ces.Select(a, b, matchersFor(mask, mask == 1<<16-1)...)
				if err != nil {
					out = "err"
					return
				}
				var parts []string
				for _, qr := range res {
					si := -1
					for i, l := range series {
						if labels.Equal(l, qr.SeriesLabels) {
							si = i
						}
					}
					var xs []string
					for _, e := range qr.Exemplars {
						ht := 0
						if e.HasTs {
							ht = 1
						}
						xs = append(xs, fmt.Sprintf("%d/%016x/%d/%s", e.Ts, math.Float64bits(e.Value), ht, labelsToToken(e.Labels)))
					}
					parts = append(parts, fmt.Sprintf("%d@%s", si, strings.Join(xs, ";")))
				}
				out = "-"
				if len(parts) > 0 {
					out = strings.Join(parts, "|")
				}
			default:
				out = "bad-op"
			}
		})
		if panicked {
			_ = pv
			out = "panic"
			c.Count("out:panic")
		}
		c.Op(op, out)
		progress.Add(1)
	}
	if evictable > 0 && stored > evictable {
		c.Count("case:eviction")
	}
}

func genCase(c *h.Ctx, r *h.Rng) []string {
	capacity := int64(1 + r.Intn(8))
	if r.Chance(4) {
		capacity = int64(r.Intn(3)) - 1 // 0 or negative: disabled
	}
	window := h.PickI64(r, []int64{0, 0, 3, 5, 10, 1000, -1})
	ops := []string{fmt.Sprintf("new %d %d", capacity, window)}
	nser := 1 + r.Intn(len(series))
	n := 5 + r.Intn(40)
	now := r.Range(-5, 50)
	type last struct{ op string }
	var hist []string
	for k := 0; k < n; k++ {
		p := r.Intn(100)
		switch {
		case p < 66:
			var op string
			if len(hist) > 0 && r.Chance(12) {
				op = hist[r.Intn(len(hist))] // exact repeat: duplicate / same-timestamp paths
			} else {
				si := r.Intn(nser)
				if r.Chance(60) {
					now += r.Range(0, 3)
				}
				ts := now
				if r.Chance(45) {
					ts = now - r.Range(0, 12)
				}
				v := valPool[r.Intn(len(valPool))]
				kv := exLabelPool[r.Intn(len(exLabelPool))]
				if r.Chance(70) {
					kv = exLabelPool[r.Intn(7)]
				}
				ht := 1
				if r.Chance(12) {
					ht = 0
				}
				tok := lblToken(kv)
				op = fmt.Sprintf("add %d %d %016x %d %s %x", si, ts, math.Float64bits(v), ht, tok, tokenToLabels(tok).Hash())
				hist = append(hist, op)
			}
			ops = append(ops, op)
		case p < 74:
			ops = append(ops, fmt.Sprintf("resize %d", h.PickI64(r, []int64{0, 1, 2, 3, 4, 5, 6, 8, 10, 1, 2, 3, 4, 5, 7, 9, -1, capacity, capacity + 1, capacity - 1, capacity + 2, capacity - 2})))
		case p < 77:
			ops = append(ops, fmt.Sprintf("window %d", h.PickI64(r, []int64{0, 1, 4, 8, 1000, -3})))
		default:
			a, b := int64(math.MinInt64), int64(math.MaxInt64)
			if r.Chance(45) {
				a = now - r.Range(0, 14)
				b = a + r.Range(0, 14)
				if r.Chance(5) {
					a, b = b+1, a
				}
			}
			mask := (1 << len(series)) - 1
			if r.Chance(30) {
				mask = r.Intn(1 << len(series))
			} else if r.Chance(20) {
				mask = 1<<16 - 1
			}
			ops = append(ops, fmt.Sprintf("select %d %d %d", a, b, mask))
		}
	}
	ops = append(ops, fmt.Sprintf("select %d %d %d", int64(math.MinInt64), int64(math.MaxInt64), (1<<len(series))-1))
	return ops
}

func main() {
	for _, d := range seriesDefs {
		series = append(series, labels.FromStrings(d...))
	}
	for i := 1; i < len(series); i++ {
		if labels.Compare(series[i-1], series[i]) >= 0 {
			panic("series pool not in labels.Compare order")
		}
	}
	c := h.Init()
	defer c.Finish()
	go watchdog()
	if c.Replay != "" {
		for _, cs := range c.ReplayCases() {
			c.Case(strings.TrimPrefix(cs[0], "case "))
			runCase(c, cs[1:])
		}
		return
	}
	r := c.Rng
	for i := 0; i < c.N; i++ {
		c.Case(fmt.Sprintf("r%d", i))
		ops := genCase(c, r)
		c.NonTrivial(strings.Join(ops, ";"))
		runCase(c, ops)
	}
}
