// Torn-file crash states (C03, ops `stage` / `tear`).
//
// The strace kill enumeration of main.go kills at the ENTRY of a syscall, so a file is never left with
// a partly executed write. A SIGKILL that arrives while write(2) is copying (the kernel copies page by
// page and stops on a fatal signal), or a kill between the flushes of the 32 KiB WAL pages of a long
// record, leaves a byte PREFIX of the data. This file produces those states directly:
//
//   * one workload per case, out-of-order ingestion enabled with a tiny OutOfOrderCapMax, the
//     periodic head-chunk m-map pass (`DB.ForceHeadMMap`) run between transactions, so that the
//     newest chunks_head file holds many m-mapped chunks, in-order and out-of-order interleaved
//     (patterns: OOO chunks first / alternating / last / random, optionally a Compact that cuts a
//     new chunks_head file and truncates the WAL/WBL, optionally rolled-back transactions);
//   * `stage`: the on-disk state at a kill point between two transactions (`r<k>`: directory copied
//     while the DB is open = what a kill right after round k leaves, page cache included; `end`:
//     after Close), with what was acknowledged by then, what a live query returned, and the
//     record layout (end offset + samples of every record) of the newest WAL and WBL segment and
//     the chunk layout of the newest chunks_head file, all read back from the files;
//   * `tear`: that state with one file torn — `chunks`: the newest chunks_head file zeroed from
//     <off> on (the file is preallocated, so a cut flush leaves zeros), `wal`/`wbl`: the newest
//     segment truncated at <off> (segments are not preallocated) — then tsdb.Open + full query.
//
// ops (observations travel in the op line, the implementation column is `-`; the Lean judge decides):
//   stage <wseed> <stage> acked=<s:t:v,…> inflight=<…> live=<…> wal=<seg>|<end>:<k+k…>;…
//         wbl=<seg>|… chunks=<seq>|<start>:<end>:<o|i>:<series ref>:<samples>;…
//   tear <wseed> <stage> <none|chunks|wal|wbl> <seg> <off> open=<ok|err:…> present=<s:t:v,…> repaired=<n>
//        post=<s:t:v,…> open2=<ok|err:…> present2=<s:t:v,…>     (second session + clean restart)
package main

import (
	"bufio"
	"context"
	"encoding/binary"
	"fmt"
	"math"
	"os"
	"path/filepath"
	"sort"
	"strconv"
	"strings"
	"sync"

	"github.com/prometheus/client_golang/prometheus"
	"github.com/prometheus/common/promslog"

	"github.com/prometheus/prometheus/model/labels"
	"github.com/prometheus/prometheus/tsdb"
	"github.com/prometheus/prometheus/tsdb/chunks"
	"github.com/prometheus/prometheus/tsdb/record"
	"github.com/prometheus/prometheus/tsdb/wlog"

	"verif/harness/h"
)

const tearBlockRange = 2000

func tearCapMax(wseed uint64) int64 { return []int64{2, 3, 4, 5}[(wseed/4)%4] }

func tearOpts(wseed uint64) *tsdb.Options {
	o := tsdb.DefaultOptions()
	o.MinBlockDuration, o.MaxBlockDuration = tearBlockRange, tearBlockRange
	o.WALSegmentSize = 32 * 1024
	o.HeadChunksWriteQueueSize = 0
	o.SamplesPerChunk = 8 // 4 degenerates to one-sample chunks (computeChunkEndTime after samplesPerChunk/4 samples)
	o.RetentionDuration = 0
	o.OutOfOrderTimeWindow = 5000
	o.OutOfOrderCapMax = tearCapMax(wseed)
	return o
}

type logRec struct {
	end  int64
	keys []string // samples carried by the record (s:t:v), empty for series / marker records
	kind string
}

type chunkLoc struct {
	start, end int
	ooo        bool
	series     uint64
	n          int
}

type stageInfo struct {
	name     string
	dir      string
	acked    map[string]bool
	inflight map[string]bool
	live     string
	walSeg   int
	walRecs  []logRec
	wblSeg   int
	wblRecs  []logRec
	chkSeq   int
	chks     []chunkLoc
	maxT     int64 // largest timestamp handed to Append so far (acknowledged or not)
	nSeries  int
}

func sampleKey(s int, t int64, v float64) string {
	return fmt.Sprintf("%d:%d:%016x", s, t, math.Float64bits(v))
}

func copyDir(src, dst string) error {
	return filepath.Walk(src, func(p string, fi os.FileInfo, err error) error {
		if err != nil {
			return nil // a file may vanish while the DB is open (never the logs we look at)
		}
		rel, _ := filepath.Rel(src, p)
		q := filepath.Join(dst, rel)
		if fi.IsDir() {
			return os.MkdirAll(q, 0o755)
		}
		if !fi.Mode().IsRegular() {
			return nil
		}
		b, err := os.ReadFile(p)
		if err != nil {
			return nil
		}
		return os.WriteFile(q, b, 0o644)
	})
}

// liveDump queries an open DB.
func liveDump(db *tsdb.DB) string {
	q, err := db.Querier(math.MinInt64, math.MaxInt64)
	if err != nil {
		return "err"
	}
	defer q.Close()
	out, e := drain(q)
	if e != "" {
		return e
	}
	if len(out) == 0 {
		return "-"
	}
	return strings.Join(out, ",")
}

// readLog reads the records of one log segment with the plain (unpadded) reader.
func readLog(dir string, refSeries map[uint64]int) (int, []logRec) {
	_, last, err := wlog.Segments(dir)
	if err != nil || last < 0 {
		return -1, nil
	}
	f, err := os.Open(wlog.SegmentName(dir, last))
	if err != nil {
		return -1, nil
	}
	defer f.Close()
	r := wlog.NewReader(bufio.NewReader(f))
	dec := record.NewDecoder(labels.NewSymbolTable(), promslog.NewNopLogger())
	var recs []logRec
	for r.Next() {
		rec := r.Record()
		lr := logRec{end: r.Offset()}
		switch dec.Type(rec) {
		case record.Series:
			lr.kind = "series"
			if ss, err := dec.Series(rec, nil); err == nil {
				for _, s := range ss {
					if n, err := strconv.Atoi(s.Labels.Get("s")); err == nil {
						refSeries[uint64(s.Ref)] = n
					}
				}
			}
		case record.Samples, record.SamplesV2:
			lr.kind = "samples"
			if ss, err := dec.Samples(rec, nil); err == nil {
				for _, s := range ss {
					sn, ok := refSeries[uint64(s.Ref)]
					if !ok {
						sn = 900 + int(s.Ref)
					}
					lr.keys = append(lr.keys, sampleKey(sn, s.T, s.V))
				}
			}
		case record.MmapMarkers:
			lr.kind = "markers"
		default:
			lr.kind = "other"
		}
		recs = append(recs, lr)
	}
	return last, recs
}

// readChunks parses the newest chunks_head file (layout of tsdb/chunks/head_chunks.go).
func readChunks(dataDir string) (int, []chunkLoc) {
	dir := filepath.Join(dataDir, "chunks_head")
	ents, err := os.ReadDir(dir)
	if err != nil {
		return 0, nil
	}
	seq := 0
	for _, e := range ents {
		if n, err := strconv.Atoi(e.Name()); err == nil && n > seq {
			seq = n
		}
	}
	if seq == 0 {
		return 0, nil
	}
	b, err := os.ReadFile(filepath.Join(dir, fmt.Sprintf("%06d", seq)))
	if err != nil || len(b) < chunks.HeadChunkFileHeaderSize {
		return seq, nil
	}
	var out []chunkLoc
	idx := chunks.HeadChunkFileHeaderSize
	for idx+chunks.MaxHeadChunkMetaSize <= len(b) {
		start := idx
		ref := binary.BigEndian.Uint64(b[idx:])
		mint := binary.BigEndian.Uint64(b[idx+8:])
		maxt := binary.BigEndian.Uint64(b[idx+16:])
		if ref == 0 && mint == 0 && maxt == 0 {
			break
		}
		enc := b[idx+24]
		dl, n := binary.Uvarint(b[idx+25:])
		ns := 0
		if idx+25+n+2 <= len(b) {
			ns = int(binary.BigEndian.Uint16(b[idx+25+n:]))
		}
		idx += 25 + n + int(dl) + 4
		if idx > len(b) {
			break
		}
		out = append(out, chunkLoc{start, idx, enc&0x80 != 0, ref, ns})
	}
	return seq, out
}

func fmtRecs(seg int, recs []logRec) string {
	if seg < 0 {
		return "-"
	}
	var p []string
	for _, r := range recs {
		k := "-"
		if len(r.keys) > 0 {
			k = strings.Join(r.keys, "+")
		}
		p = append(p, fmt.Sprintf("%d:%s", r.end, k))
	}
	if len(p) == 0 {
		return fmt.Sprintf("%d|-", seg)
	}
	return fmt.Sprintf("%d|%s", seg, strings.Join(p, ";"))
}

func fmtChunks(seq int, cs []chunkLoc) string {
	if seq == 0 {
		return "-"
	}
	var p []string
	for _, c := range cs {
		k := "i"
		if c.ooo {
			k = "o"
		}
		p = append(p, fmt.Sprintf("%d:%d:%s:%d:%d", c.start, c.end, k, c.series, c.n))
	}
	if len(p) == 0 {
		return fmt.Sprintf("%d|-", seq)
	}
	return fmt.Sprintf("%d|%s", seq, strings.Join(p, ";"))
}

func (st *stageInfo) opLine(wseed uint64) string {
	return fmt.Sprintf("stage %d %s acked=%s inflight=%s live=%s wal=%s wbl=%s chunks=%s", wseed, st.name,
		sortedKeys(st.acked), sortedKeys(st.inflight), st.live, fmtRecs(st.walSeg, st.walRecs), fmtRecs(st.wblSeg, st.wblRecs), fmtChunks(st.chkSeq, st.chks))
}

// tearWorkload runs the workload of wseed in-process and snapshots the data directory at the
// requested stages (nil = every round) plus `end`. The caller removes base.
func tearWorkload(wseed uint64, base string, want map[string]bool) ([]*stageInfo, error) {
	dir := filepath.Join(base, "data")
	os.MkdirAll(dir, 0o755)
	db, err := tsdb.Open(dir, promslog.NewNopLogger(), nil, tearOpts(wseed), nil)
	if err != nil {
		return nil, err
	}
	db.DisableCompactions()
	r := h.NewRng(wseed ^ 0x7ea7)
	capMax := int(tearCapMax(wseed))
	pattern := int(wseed % 4)
	nSeries := 2 + r.Intn(2)
	rounds := 14 + r.Intn(9)
	cur := 2 * r.Range(-1500, 1500)
	compactAt := -1
	if pattern == 3 && r.Chance(60) {
		compactAt = rounds/3 + r.Intn(rounds/4+1)
	}
	used := map[string]bool{}
	maxT := cur
	acked := map[string]bool{}
	refSeries := map[uint64]int{}
	var stages []*stageInfo
	snap := func(name string, dataDir string) {
		st := &stageInfo{name: name, dir: dataDir, acked: map[string]bool{}, inflight: map[string]bool{}, maxT: maxT, nSeries: nSeries}
		for k := range acked {
			st.acked[k] = true
		}
		st.walSeg, st.walRecs = readLog(filepath.Join(dataDir, "wal"), refSeries)
		st.wblSeg, st.wblRecs = readLog(filepath.Join(dataDir, "wbl"), refSeries)
		st.chkSeq, st.chks = readChunks(dataDir)
		stages = append(stages, st)
	}
	for round := 0; round < rounds; round++ {
		// kind of transaction
		pOOO := 50
		switch pattern {
		case 0: // out-of-order chunks first, in-order chunks behind them
			if round < 2 {
				pOOO = 0
			} else if round < 2+rounds/3 {
				pOOO = 100
			} else {
				pOOO = 25
			}
		case 1: // alternating
			pOOO = 100 * (round % 2)
		case 2: // in-order chunks first
			if round < rounds/2 {
				pOOO = 0
			} else {
				pOOO = 80
			}
		}
		if round == 0 {
			pOOO = 0
		}
		doOOO := r.Chance(pOOO)
		doIn := !doOOO || r.Chance(25)
		rollback := round > 0 && r.Chance(7)
		app := db.Appender(context.Background())
		var smp []string
		add := func(s int, t int64, v float64) {
			if t > maxT {
				maxT = t
			}
			k := fmt.Sprintf("%d:%d", s, t)
			if used[k] {
				return
			}
			used[k] = true
			if _, err := app.Append(0, lbls(s), t, v); err == nil {
				smp = append(smp, sampleKey(s, t, v))
			}
		}
		if doIn {
			top := cur
			for s := 0; s < nSeries; s++ {
				if pattern == 3 && round > 0 && r.Chance(30) {
					continue
				}
				k := 1 + r.Intn(3)
				t := cur
				for i := 0; i < k; i++ {
					add(s, t, float64(round*1000+s*10+i)+r.Float())
					t += 2 * r.Range(3, 20)
				}
				if t > top {
					top = t
				}
			}
			cur = top
		}
		if doOOO {
			ns := 1 + r.Intn(2)
			for j := 0; j < ns; j++ {
				s := r.Intn(nSeries)
				k := 1 + r.Intn(capMax+2)
				for i := 0; i < k; i++ {
					t := cur - 201 - 2*r.Range(0, 1200)
					add(s, t, float64(round*1000+s*10+500+i)+r.Float())
				}
			}
		}
		if rollback {
			app.Rollback()
		} else if err := app.Commit(); err == nil {
			for _, k := range smp {
				acked[k] = true
			}
		}
		cur += 2 * r.Range(20, 120)
		if r.Chance(map[int]int{0: 75, 1: 75, 2: 75, 3: 40}[pattern]) {
			db.ForceHeadMMap()
		}
		if round == compactAt {
			db.Compact(context.Background())
		}
		name := fmt.Sprintf("r%d", round)
		if want == nil || want[name] {
			sd := filepath.Join(base, "snap-"+name)
			copyDir(dir, sd)
			snap(name, sd)
			stages[len(stages)-1].live = liveDump(db)
		}
	}
	live := liveDump(db)
	db.Close()
	snap("end", dir)
	stages[len(stages)-1].live = live
	return stages, nil
}

type tearJob struct {
	st    *stageInfo
	class string
	seg   int
	off   int64
}

// runTear copies the stage's directory, tears one file, reopens and dumps.
func runTear(wseed uint64, j tearJob) string {
	base := h.TempDir("vtear")
	defer os.RemoveAll(base)
	dir := filepath.Join(base, "data")
	if err := copyDir(j.st.dir, dir); err != nil {
		return "open=err:copy present=- repaired=0 post=- open2=- present2=-"
	}
	switch j.class {
	case "chunks":
		p := filepath.Join(dir, "chunks_head", fmt.Sprintf("%06d", j.seg))
		b, err := os.ReadFile(p)
		if err == nil {
			for i := int(j.off); i < len(b); i++ {
				b[i] = 0
			}
			os.WriteFile(p, b, 0o644)
		}
	case "wal", "wbl":
		os.Truncate(wlog.SegmentName(filepath.Join(dir, j.class), j.seg), j.off)
	}
	return recoverAndContinue(dir, wseed, j.st)
}

// recoverAndContinue is the life after the crash: open + full query (`open`, `present`), then a
// second session — one in-order transaction over all series that cuts and m-maps new head chunks,
// one out-of-order transaction on series 0 only that overflows its OOO head chunk — a clean Close, and
// a third session that only queries (`open2`, `present2`): what recovery returned must survive
// further operation and a clean restart.
func recoverAndContinue(dir string, wseed uint64, st *stageInfo) string {
	reg := prometheus.NewRegistry()
	fail := func(e string) string { return fmt.Sprintf("open=%s present=- repaired=0 post=- open2=- present2=-", e) }
	db, err := tsdb.Open(dir, promslog.NewNopLogger(), reg, tearOpts(wseed), nil)
	if err != nil {
		return fail("err:" + strings.ReplaceAll(err.Error(), " ", "_"))
	}
	db.DisableCompactions()
	closed := false
	defer func() {
		if !closed {
			db.Close()
		}
	}()
	q, err := db.Querier(math.MinInt64, math.MaxInt64)
	if err != nil {
		return fail("err:" + strings.ReplaceAll(err.Error(), " ", "_"))
	}
	out, e := drain(q)
	q.Close()
	if e != "" {
		return fail(e)
	}
	present := "-"
	if len(out) > 0 {
		present = strings.Join(out, ",")
	}
	// how many repairs the open performed (m-map file corruption, WAL/WBL corruption): statistics only
	rep := 0
	if mfs, err := reg.Gather(); err == nil {
		for _, mf := range mfs {
			switch mf.GetName() {
			case "prometheus_tsdb_mmap_chunk_corruptions_total", "prometheus_tsdb_wal_corruptions_total":
				for _, m := range mf.GetMetric() {
					rep += int(m.GetCounter().GetValue())
				}
			}
		}
	}
	// second session
	var post []string
	base := st.maxT + 200
	base += base & 1 // even, like every in-order timestamp of the workload
	app := db.Appender(context.Background())
	var smp []string
	for s := 0; s < st.nSeries; s++ {
		for i := 0; i < 12; i++ {
			t, v := base+int64(20*i), float64(900000+s*100+i)
			if _, err := app.Append(0, lbls(s), t, v); err == nil {
				smp = append(smp, sampleKey(s, t, v))
			}
		}
	}
	if app.Commit() == nil {
		post = append(post, smp...)
	}
	app = db.Appender(context.Background())
	smp = nil
	for i := 0; i <= int(tearCapMax(wseed)); i++ {
		t, v := (st.maxT|1)+2+int64(2*i), float64(950000+i)
		if _, err := app.Append(0, lbls(0), t, v); err == nil {
			smp = append(smp, sampleKey(0, t, v))
		}
	}
	if app.Commit() == nil {
		post = append(post, smp...)
	}
	db.ForceHeadMMap()
	closed = true
	db.Close()
	sort.Strings(post)
	open2, present2 := dumpWith(dir, tearOpts(wseed), nil)
	return fmt.Sprintf("open=ok present=%s repaired=%d post=%s open2=%s present2=%s", present, rep, strings.Join(post, ","), open2, present2)
}

// tearOffsets selects the tear points of one stage.
func tearOffsets(c *h.Ctx, st *stageInfo, thorough bool) []tearJob {
	jobs := []tearJob{{st, "none", 0, 0}}
	addSet := func(class string, seg int, offs map[int64]bool) {
		var l []int64
		for o := range offs {
			l = append(l, o)
		}
		sort.Slice(l, func(i, j int) bool { return l[i] < l[j] })
		for _, o := range l {
			jobs = append(jobs, tearJob{st, class, seg, o})
		}
	}
	// newest chunks_head file. The 8-byte file header is written by one write(2) when the file is cut
	// and is not torn by a kill; the chunk data behind it is: every chunk boundary (what a buffer
	// flush that stopped early leaves), and inside chunks: behind the series ref, mid-chunk, in the
	// CRC, the last byte.
	if len(st.chks) > 0 {
		offs := map[int64]bool{}
		hi := st.chks[len(st.chks)-1].end
		if thorough {
			// every second byte, and around every chunk boundary every byte
			for o := chunks.HeadChunkFileHeaderSize; o < hi; o += 2 {
				offs[int64(o)] = true
			}
			for _, ch := range st.chks {
				for d := -5; d <= 9; d++ {
					if o := ch.start + d; o >= chunks.HeadChunkFileHeaderSize && o < hi {
						offs[int64(o)] = true
					}
				}
			}
			offs[int64(hi-1)] = true
		} else {
			var pick []chunkLoc
			for i, ch := range st.chks {
				offs[int64(ch.start)] = true
				if i == len(st.chks)-1 || i == len(st.chks)-2 {
					pick = append(pick, ch)
				}
			}
			for i := 0; i < 3; i++ {
				pick = append(pick, st.chks[c.Rng.Intn(len(st.chks))])
			}
			for _, ch := range pick {
				offs[int64(ch.start+8)] = true
				offs[int64((ch.start+ch.end)/2)] = true
				offs[int64(ch.end-1)] = true
			}
			for i := 0; i < 3; i++ {
				ch := st.chks[c.Rng.Intn(len(st.chks))]
				offs[int64(ch.start)+c.Rng.Range(1, int64(ch.end-ch.start-1))] = true
			}
		}
		addSet("chunks", st.chkSeq, offs)
	}
	// newest WAL / WBL segment: truncated at record boundaries, 1 and 7 bytes into the next record
	// (inside / right behind its header), mid-record, one byte short; `window` > 0: every byte of the
	// last `window` bytes as well.
	logOffs := func(recs []logRec, nTail, nRand int, window int64) map[int64]bool {
		offs := map[int64]bool{}
		if len(recs) == 0 {
			return offs
		}
		hi := recs[len(recs)-1].end
		lo := hi - window
		if lo < 0 {
			lo = 0
		}
		for o := lo; o < hi; o++ {
			offs[o] = true
		}
		pts := func(i int, full bool) {
			start := int64(0)
			if i > 0 {
				start = recs[i-1].end
			}
			end := recs[i].end
			offs[start] = true
			offs[(start+end)/2] = true
			offs[end-1] = true
			if full {
				offs[start+1] = true
				offs[start+7] = true
			}
		}
		for i := len(recs) - 1; i >= 0 && i >= len(recs)-nTail; i-- {
			pts(i, thorough || i == len(recs)-1)
		}
		for i := 0; i < nRand; i++ {
			pts(c.Rng.Intn(len(recs)), thorough)
		}
		delete(offs, hi)
		return offs
	}
	if st.wblSeg >= 0 {
		switch {
		case thorough && st.name == "end":
			addSet("wbl", st.wblSeg, logOffs(st.wblRecs, 8, 8, 120))
		case thorough:
			addSet("wbl", st.wblSeg, logOffs(st.wblRecs, 4, 2, 60))
		case st.name == "end":
			addSet("wbl", st.wblSeg, logOffs(st.wblRecs, 2, 2, 0))
		default:
			addSet("wbl", st.wblSeg, logOffs(st.wblRecs, 1, 0, 0))
		}
	}
	if st.walSeg >= 0 {
		switch {
		case thorough && st.name == "end":
			addSet("wal", st.walSeg, logOffs(st.walRecs, 6, 6, 0))
		case thorough:
			addSet("wal", st.walSeg, logOffs(st.walRecs, 1, 0, 0))
		case st.name == "end":
			addSet("wal", st.walSeg, logOffs(st.walRecs, 1, 0, 0))
		}
	}
	return jobs
}

// tearCase generates and runs one torn-file case.
func tearCase(c *h.Ctx, wseed uint64) {
	thorough := c.Tier == "thorough"
	base := h.TempDir("vtearw")
	defer os.RemoveAll(base)
	// stages: `end` and, mid-run, two rounds of the second half (quick) / every fourth round (thorough)
	r := h.NewRng(wseed ^ 0x57a9e)
	want := map[string]bool{}
	if thorough {
		for k := int(r.Intn(4)); k < 40; k += 4 {
			want[fmt.Sprintf("r%d", k)] = true
		}
	} else {
		want[fmt.Sprintf("r%d", 6+r.Intn(5))] = true
		want[fmt.Sprintf("r%d", 11+r.Intn(3))] = true
	}
	stages, err := tearWorkload(wseed, base, want)
	if err != nil {
		c.Op(fmt.Sprintf("stage %d open-failed", wseed), "-")
		return
	}
	type res struct {
		j   tearJob
		out string
	}
	var all []res
	for _, st := range stages {
		for _, j := range tearOffsets(c, st, thorough) {
			all = append(all, res{j: j})
		}
	}
	var wg sync.WaitGroup
	sem := make(chan struct{}, 8)
	for i := range all {
		wg.Add(1)
		sem <- struct{}{}
		go func(i int) {
			defer wg.Done()
			defer func() { <-sem }()
			all[i].out = runTear(wseed, all[i].j)
		}(i)
	}
	wg.Wait()
	var last *stageInfo
	for _, a := range all {
		if a.j.st != last {
			last = a.j.st
			c.Op(last.opLine(wseed), "-")
			nOOO, firstIn, oooBeforeIn := 0, -1, 0
			for i, ch := range last.chks {
				if ch.ooo {
					nOOO++
				} else if firstIn < 0 {
					firstIn = i
				}
			}
			for i, ch := range last.chks {
				if ch.ooo && i < len(last.chks)-1 {
					oooBeforeIn++
				}
			}
			c.Stats["tear:chunks-in-newest-file"] += len(last.chks)
			c.Stats["tear:ooo-chunks-in-newest-file"] += nOOO
			if len(last.chks) >= 3 && oooBeforeIn > 0 {
				c.Count("tear:stage-with->=3-chunks-and-early-ooo-chunk")
			}
		}
		c.Op(fmt.Sprintf("tear %d %s %s %d %d %s", wseed, a.j.st.name, a.j.class, a.j.seg, a.j.off, a.out), "-")
		c.Count("tear:" + a.j.class)
		if !strings.Contains(a.out, " repaired=0 ") {
			c.Count("tear:" + a.j.class + ":repaired")
		}
		if strings.Contains(a.out, "open=ok") {
			c.NonTrivial(fmt.Sprintf("t%d-%s-%s-%d", wseed, a.j.st.name, a.j.class, a.j.off))
		}
	}
}

// tearReplay re-runs the `stage`/`tear` ops of a replayed case.
func tearReplay(c *h.Ctx, ops []string) {
	byW := map[uint64]map[string]*stageInfo{}
	bases := []string{}
	defer func() {
		for _, b := range bases {
			os.RemoveAll(b)
		}
	}()
	get := func(ws uint64, stage string) *stageInfo {
		if byW[ws] == nil {
			base := h.TempDir("vtearw")
			bases = append(bases, base)
			stages, err := tearWorkload(ws, base, nil)
			byW[ws] = map[string]*stageInfo{}
			if err == nil {
				for _, st := range stages {
					byW[ws][st.name] = st
				}
			}
		}
		return byW[ws][stage]
	}
	emitted := map[string]bool{}
	for _, op := range ops {
		f := strings.Fields(op)
		if len(f) < 3 || (f[0] != "stage" && f[0] != "tear") {
			continue
		}
		ws, _ := strconv.ParseUint(f[1], 10, 64)
		st := get(ws, f[2])
		if st == nil {
			c.Op(fmt.Sprintf("stage %d %s missing", ws, f[2]), "-")
			continue
		}
		key := f[1] + "/" + f[2]
		if !emitted[key] {
			emitted[key] = true
			c.Op(st.opLine(ws), "-")
		}
		if f[0] == "tear" && len(f) >= 6 {
			seg, _ := strconv.Atoi(f[4])
			off, _ := strconv.ParseInt(f[5], 10, 64)
			c.Op(fmt.Sprintf("tear %d %s %s %d %d %s", ws, f[2], f[3], seg, off, runTear(ws, tearJob{st, f[3], seg, off})), "-")
		}
	}
}
