// Suite crash (C03): acknowledged writes survive a process kill at any persistence syscall.
//
// The suite binary has two roles.
//
//   child  (`-x role=child -x dir=… -x wseed=… -x ack=…`): runs a deterministic workload on a real
//          tsdb.DB pinned to one OS thread, and records in an acknowledgement file (one unbuffered
//          write per line) what it is about to do and what has returned:
//              tid <n>                     first line: thread id of the pinned workload thread
//              b <round> s:t:v,…           a transaction is about to be committed
//              c <round>                   Commit returned nil
//              db <mint> <maxt> <s>        a Delete is about to start     dc  it returned nil
//              kb                          DB.Compact about to start      kc  it returned nil
//   parent (default): for every case
//          1. runs the child once under `strace -f -y` without tampering, abstracts the syscall trace of
//             the pinned thread into persistence actions relative to the data dir (op `trace`), and counts
//             the persistence syscalls per kind;
//          2. for each selected (kind, n): runs the child again under
//             `strace -e inject=<kind>:signal=KILL:when=<n>` (killed at the ENTRY of the n-th such syscall
//             of a thread), reopens the directory with tsdb.Open, dumps all samples and prints what the
//             acknowledgement file says next to what is there (op `kill`).
//
// A third kind of case (`t<wseed>`, ops `stage` / `tear`) rebuilds crash states with one TORN file
// (newest chunks_head file, WAL or WBL tail) without strace: see tear.go.
//
// ops/outputs:
//   trace <wseed>              -> a1|a2|…  (actions: w:<path> f:<path> r:<from>><to> u:<path> m:<path> t:<path>)
//   kill <wseed> <kind> <n>    -> open=<ok|err:…> acked=<s:t:v,…> inflight=<s:t:v,…> deleted=<s:a:b;…> delinflight=<…> present=<s:t:v,…> killed=<yes|no>
package main

import (
	"bufio"
	"context"
	"fmt"
	"math"
	"os"
	"os/exec"
	"path/filepath"
	"regexp"
	"runtime"
	"sort"
	"strconv"
	"strings"
	"sync"
	"syscall"

	"github.com/prometheus/client_golang/prometheus"
	"github.com/prometheus/common/promslog"

	"github.com/prometheus/prometheus/model/labels"
	"github.com/prometheus/prometheus/storage"
	"github.com/prometheus/prometheus/tsdb"
	"github.com/prometheus/prometheus/tsdb/chunkenc"

	"verif/harness/h"
)

// Workloads with even seed use out-of-order appends and no deletions; odd seeds use deletions and
// no out-of-order ingestion (deletion of out-of-order samples is a separate matter: finding F20).
func oooMode(wseed uint64) bool { return wseed%2 == 0 }

func dbOpts(wseed uint64) *tsdb.Options {
	o := tsdb.DefaultOptions()
	o.MinBlockDuration, o.MaxBlockDuration = 1000, 1000
	o.WALSegmentSize = 32 * 1024
	o.HeadChunksWriteQueueSize = 0
	o.SamplesPerChunk = 4
	o.RetentionDuration = 0
	if oooMode(wseed) {
		o.OutOfOrderTimeWindow = 300
	}
	return o
}

func lbls(s int) labels.Labels { return labels.FromStrings("__name__", "m", "s", strconv.Itoa(s)) }

// ---------------------------------------------------------------- child

type ackWriter struct{ f *os.File }

func (a *ackWriter) line(s string) {
	if _, err := a.f.Write([]byte(s + "\n")); err != nil {
		os.Exit(7)
	}
}

func child(dir string, wseed uint64, ackPath string) {
	runtime.LockOSThread()
	f, err := os.OpenFile(ackPath, os.O_CREATE|os.O_WRONLY|os.O_APPEND, 0o644)
	if err != nil {
		os.Exit(8)
	}
	ack := &ackWriter{f}
	ack.line(fmt.Sprintf("tid %d", syscall.Gettid()))
	db, err := tsdb.Open(dir, promslog.NewNopLogger(), nil, dbOpts(wseed), nil)
	if err != nil {
		ack.line("openerr " + strings.ReplaceAll(err.Error(), " ", "_"))
		os.Exit(9)
	}
	db.DisableCompactions()
	r := h.NewRng(wseed)
	cur := int64(r.Range(-2500, 500))
	rounds := 10 + r.Intn(6)
	for round := 0; round < rounds; round++ {
		// a transaction over 1-3 series, mostly in order, sometimes out of order within the window
		var smp []string
		app := db.Appender(context.Background())
		n := 1 + r.Intn(3)
		for s := 0; s < n; s++ {
			k := 1 + r.Intn(3)
			for i := 0; i < k; i++ {
				t := cur + int64(i)*int64(7+r.Intn(40))
				if oooMode(wseed) && r.Chance(15) {
					t = cur - r.Range(1, 250) // out of order, inside the window
				}
				v := float64(round*1000 + s*10 + i)
				if _, err := app.Append(0, lbls(s), t, v); err == nil {
					smp = append(smp, fmt.Sprintf("%d:%d:%016x", s, t, math.Float64bits(v)))
				}
			}
		}
		ack.line(fmt.Sprintf("b %d %s", round, strings.Join(smp, ",")))
		if err := app.Commit(); err == nil {
			ack.line(fmt.Sprintf("c %d", round))
		} else {
			ack.line(fmt.Sprintf("cerr %d", round))
		}
		cur += int64(150 + r.Intn(500))
		switch r.Intn(6) {
		case 0:
			if oooMode(wseed) {
				break
			}
			s := r.Intn(3)
			a := cur - r.Range(200, 1500)
			b := a + r.Range(0, 400)
			ack.line(fmt.Sprintf("db %d %d %d", a, b, s))
			if err := db.Delete(context.Background(), a, b, labels.MustNewMatcher(labels.MatchEqual, "s", strconv.Itoa(s))); err == nil {
				ack.line("dc")
			}
		case 1, 2:
			ack.line("kb")
			if err := db.Compact(context.Background()); err == nil {
				ack.line("kc")
			}
		case 3:
			if r.Chance(40) {
				ack.line("tb")
				if err := db.CleanTombstones(); err == nil {
					ack.line("tc")
				}
			}
		}
	}
	ack.line("end")
	db.Close()
	ack.line("closed")
	os.Exit(0)
}

// ---------------------------------------------------------------- parent

var persistKinds = []string{"write", "pwrite64", "renameat", "rename", "renameat2", "unlinkat", "unlink", "fsync", "fdatasync", "ftruncate", "mkdirat", "mkdir", "fallocate"}

type ackState struct {
	tid        int
	acked      map[string]bool // s:t:v committed
	inflight   map[string]bool // commit started, not confirmed
	gone       map[string]bool // acknowledged, then removed by a confirmed deletion: must stay absent
	deleted    []string        // s:a:b confirmed deletions (in order, with the acked set at that time applied)
	delInfl    []string
	ended      bool
	openErr    string
	ackedOrder []string
}

func readAck(path string) *ackState {
	st := &ackState{acked: map[string]bool{}, inflight: map[string]bool{}, gone: map[string]bool{}}
	b, _ := os.ReadFile(path)
	var pending []string
	var pendingDel string
	for _, l := range strings.Split(string(b), "\n") {
		f := strings.Fields(l)
		if len(f) == 0 {
			continue
		}
		switch f[0] {
		case "tid":
			st.tid, _ = strconv.Atoi(f[1])
		case "openerr":
			st.openErr = l
		case "b":
			pending = nil
			if len(f) > 2 && f[2] != "" {
				pending = strings.Split(f[2], ",")
			}
		case "c":
			for _, s := range pending {
				st.acked[s] = true
				st.ackedOrder = append(st.ackedOrder, s)
			}
			pending = nil
		case "cerr":
			pending = nil
		case "db":
			pendingDel = f[3] + ":" + f[1] + ":" + f[2]
		case "dc":
			// a confirmed deletion removes the matching samples acknowledged SO FAR
			st.deleted = append(st.deleted, pendingDel)
			p := strings.Split(pendingDel, ":")
			a, _ := strconv.ParseInt(p[1], 10, 64)
			bb, _ := strconv.ParseInt(p[2], 10, 64)
			for k := range st.acked {
				q := strings.Split(k, ":")
				t, _ := strconv.ParseInt(q[1], 10, 64)
				if q[0] == p[0] && a <= t && t <= bb {
					delete(st.acked, k)
					st.gone[k] = true
				}
			}
			pendingDel = ""
		case "end":
			st.ended = true
		}
	}
	for _, s := range pending {
		st.inflight[s] = true
	}
	if pendingDel != "" {
		st.delInfl = append(st.delInfl, pendingDel)
	}
	return st
}

func sortedKeys(m map[string]bool) string {
	ks := make([]string, 0, len(m))
	for k := range m {
		ks = append(ks, k)
	}
	sort.Strings(ks)
	if len(ks) == 0 {
		return "-"
	}
	return strings.Join(ks, ",")
}

func dump(dir string, wseed uint64) (string, string) { return dumpWith(dir, dbOpts(wseed), nil) }

// drain reads every sample of metric m through a querier.
func drain(q storage.Querier) ([]string, string) {
	ss := q.Select(context.Background(), true, nil, labels.MustNewMatcher(labels.MatchEqual, "__name__", "m"))
	var out []string
	for ss.Next() {
		s := ss.At()
		it := s.Iterator(nil)
		for vt := it.Next(); vt != chunkenc.ValNone; vt = it.Next() {
			t, v := it.At()
			out = append(out, fmt.Sprintf("%s:%d:%016x", s.Labels().Get("s"), t, math.Float64bits(v)))
		}
		if it.Err() != nil {
			return nil, "err:iter:" + strings.ReplaceAll(it.Err().Error(), " ", "_")
		}
	}
	if ss.Err() != nil {
		return nil, "err:select:" + strings.ReplaceAll(ss.Err().Error(), " ", "_")
	}
	sort.Strings(out)
	return out, ""
}

func dumpWith(dir string, opts *tsdb.Options, reg prometheus.Registerer) (string, string) {
	db, err := tsdb.Open(dir, promslog.NewNopLogger(), reg, opts, nil)
	if err != nil {
		return "err:" + strings.ReplaceAll(err.Error(), " ", "_"), "-"
	}
	defer db.Close()
	db.DisableCompactions()
	q, err := db.Querier(math.MinInt64, math.MaxInt64)
	if err != nil {
		return "err:" + strings.ReplaceAll(err.Error(), " ", "_"), "-"
	}
	defer q.Close()
	out, e := drain(q)
	if e != "" {
		return e, "-"
	}
	if len(out) == 0 {
		return "ok", "-"
	}
	return "ok", strings.Join(out, ",")
}

var ulidRe = regexp.MustCompile(`[0-9A-HJKMNP-TV-Z]{26}`)

// abstractTrace turns the strace output of the pinned thread into persistence actions relative to dir.
func abstractTrace(tracePath, dir string, tid int) ([]string, map[string]int) {
	f, err := os.Open(tracePath)
	if err != nil {
		return nil, nil
	}
	defer f.Close()
	counts := map[string]int{}
	var acts []string
	ulids := map[string]string{}
	norm := func(p string) string {
		p = strings.TrimPrefix(p, dir)
		p = strings.TrimPrefix(p, "/")
		return ulidRe.ReplaceAllStringFunc(p, func(u string) string {
			if _, ok := ulids[u]; !ok {
				ulids[u] = fmt.Sprintf("B%d", len(ulids)+1)
			}
			return ulids[u]
		})
	}
	pathIn := func(s string) (string, bool) { // first <path> or "path" argument under dir
		i := strings.Index(s, dir)
		if i < 0 {
			return "", false
		}
		j := i
		for j < len(s) && s[j] != '>' && s[j] != '"' {
			j++
		}
		return norm(s[i:j]), true
	}
	sc := bufio.NewScanner(f)
	sc.Buffer(make([]byte, 1<<20), 1<<24)
	pending := ""
	for sc.Scan() {
		l := sc.Text()
		sp := strings.IndexByte(l, ' ')
		if sp < 0 {
			continue
		}
		pid, err := strconv.Atoi(l[:sp])
		if err != nil || pid != tid {
			continue
		}
		rest := strings.TrimSpace(l[sp:])
		// a syscall interrupted in the strace output by another thread's line:
		//   <tid> fsync(5</path> <unfinished ...>   …   <tid> <... fsync resumed>) = 0
		if strings.HasSuffix(rest, "<unfinished ...>") {
			pending = strings.TrimSuffix(rest, "<unfinished ...>")
			continue
		}
		if strings.HasPrefix(rest, "<... ") {
			i := strings.Index(rest, " resumed>")
			if i < 0 || pending == "" {
				continue
			}
			rest = pending + rest[i+len(" resumed>"):]
			pending = ""
		}
		par := strings.IndexByte(rest, '(')
		if par < 0 || strings.Contains(rest, "= -1 ") || strings.HasSuffix(rest, "<unfinished ...>") {
			continue
		}
		name := rest[:par]
		args := rest[par+1:]
		isPersist := false
		for _, k := range persistKinds {
			if k == name {
				isPersist = true
			}
		}
		if !isPersist {
			continue
		}
		counts[name]++
		switch name {
		case "write", "pwrite64":
			if p, ok := pathIn(args); ok {
				acts = append(acts, "w:"+p)
			}
		case "fsync", "fdatasync":
			if p, ok := pathIn(args); ok {
				acts = append(acts, "f:"+p)
			}
		case "ftruncate", "fallocate":
			if p, ok := pathIn(args); ok {
				acts = append(acts, "t:"+p)
			}
		case "mkdirat", "mkdir":
			if p, ok := pathIn(args); ok {
				acts = append(acts, "m:"+p)
			}
		case "unlinkat", "unlink":
			if p, ok := pathIn(args); ok {
				acts = append(acts, "u:"+p)
			}
		case "rename", "renameat", "renameat2":
			i := strings.Index(args, dir)
			if i >= 0 {
				a, _ := pathIn(args[i:])
				restArgs := args[i+len(dir):]
				k := strings.Index(restArgs, dir)
				if k >= 0 {
					b, _ := pathIn(restArgs[k:])
					acts = append(acts, "r:"+a+">"+b)
				}
			}
		}
	}
	// collapse runs of identical consecutive writes to the same file
	var out []string
	for _, a := range acts {
		if len(out) > 0 && out[len(out)-1] == a && strings.HasPrefix(a, "w:") {
			continue
		}
		out = append(out, a)
	}
	return out, counts
}

// benignOf recomputes the benign set of a workload by running it untampered (replay mode).
func benignOf(wseed uint64) map[string]bool {
	base := h.TempDir("vcrash")
	defer os.RemoveAll(base)
	dir := filepath.Join(base, "data")
	os.MkdirAll(dir, 0o755)
	ack := filepath.Join(base, "ack")
	runChild(dir, ack, wseed, []string{"-o", "/dev/null", "-e", "trace=none"})
	st := readAck(ack)
	_, present := dump(dir, wseed)
	have := map[string]bool{}
	for _, k := range strings.Split(present, ",") {
		have[k] = true
	}
	out := map[string]bool{}
	for k := range st.acked {
		if !have[k] {
			out[k] = true
		}
	}
	return out
}

func self() string { p, _ := os.Executable(); return p }

func runChild(dir, ack string, wseed uint64, straceArgs []string) (killed bool) {
	args := append([]string{"-f"}, straceArgs...)
	args = append(args, self(), "--out", filepath.Join(dir, "..", "childout"), "-x", "role=child", "-x", "dir="+dir, "-x", fmt.Sprintf("wseed=%d", wseed), "-x", "ack="+ack)
	cmd := exec.Command("strace", args...)
	cmd.Env = append(os.Environ(), "GOMAXPROCS=2")
	err := cmd.Run()
	return err != nil
}

func main() {
	c := h.Init()
	if c.Extra["role"] == "child" {
		ws, _ := strconv.ParseUint(c.Extra["wseed"], 10, 64)
		child(c.Extra["dir"], ws, c.Extra["ack"])
		return
	}
	defer c.Finish()
	type job struct {
		wseed uint64
		kind  string
		n     int
		// samples the untampered run acknowledged but does not hold at its end (dropped at commit time
		// by the ordering rules of C02, e.g. an out-of-order sample at an occupied timestamp): not owed.
		benign map[string]bool
	}
	runKill := func(j job) string {
		base := h.TempDir("vcrash")
		defer os.RemoveAll(base)
		dir := filepath.Join(base, "data")
		os.MkdirAll(dir, 0o755)
		ack := filepath.Join(base, "ack")
		killed := runChild(dir, ack, j.wseed, []string{"-o", "/dev/null", "-e", "trace=" + j.kind, "-e", fmt.Sprintf("inject=%s:signal=KILL:when=%d", j.kind, j.n)})
		st := readAck(ack)
		for k := range j.benign {
			if st.acked[k] {
				delete(st.acked, k)
				st.inflight[k] = true
			}
		}
		open, present := dump(dir, j.wseed)
		del := "-"
		if len(st.deleted) > 0 {
			del = strings.Join(st.deleted, ";")
		}
		delI := "-"
		if len(st.delInfl) > 0 {
			delI = strings.Join(st.delInfl, ";")
		}
		k := "no"
		if killed {
			k = "yes"
		}
		return fmt.Sprintf("open=%s acked=%s inflight=%s gone=%s deleted=%s delinflight=%s present=%s killed=%s", open, sortedKeys(st.acked), sortedKeys(st.inflight), sortedKeys(st.gone), del, delI, present, k)
	}
	if c.Replay != "" {
		for _, cs := range c.ReplayCases() {
			c.Case(strings.TrimPrefix(cs[0], "case "))
			var tearOps []string
			for _, op := range cs[1:] {
				f := strings.Fields(op)
				if f[0] == "stage" || f[0] == "tear" {
					tearOps = append(tearOps, op)
					continue
				}
				if f[0] == "kill" && len(f) >= 4 {
					ws, _ := strconv.ParseUint(f[1], 10, 64)
					n, _ := strconv.Atoi(f[3])
					c.Op(strings.Join(f[:4], " ")+" "+runKill(job{ws, f[2], n, benignOf(ws)}), "-")
				} else {
					c.Op(op, "-")
				}
			}
			if len(tearOps) > 0 {
				tearReplay(c, tearOps)
			}
		}
		return
	}
	// torn-file cases (tear.go): four workloads, the four interleaving patterns in turn
	nTear := 4
	if v, ok := c.Extra["tearn"]; ok {
		nTear, _ = strconv.Atoi(v)
	}
	tbase := c.Rng.U64() % 1000000
	for i := 0; i < nTear; i++ {
		wseed := tbase + uint64(i)*5 // consecutive patterns (mod 4), varying cap (wseed/4 mod 4)
		c.Case(fmt.Sprintf("t%d", wseed))
		tearCase(c, wseed)
	}
	if c.Extra["killn"] != "" {
		c.N, _ = strconv.Atoi(c.Extra["killn"])
	}
	every := 6
	if c.Tier == "thorough" {
		every = 1
	}
	if v, ok := c.Extra["every"]; ok {
		every, _ = strconv.Atoi(v)
	}
	for i := 0; i < c.N; i++ {
		wseed := c.Rng.U64() % 1000000
		// alternate the two workload modes (even: out-of-order appends, odd: deletions)
		if wseed%2 != uint64(i%2) {
			wseed++
		}
		c.Case(fmt.Sprintf("w%d", wseed))
		// 1. untampered traced run
		base := h.TempDir("vcrash")
		dir := filepath.Join(base, "data")
		os.MkdirAll(dir, 0o755)
		ack := filepath.Join(base, "ack")
		tr := filepath.Join(base, "trace")
		runChild(dir, ack, wseed, []string{"-y", "-o", tr, "-e", "trace=" + strings.Join(persistKinds, ",")})
		st := readAck(ack)
		acts, counts := abstractTrace(tr, dir, st.tid)
		benign := map[string]bool{}
		if _, present := dump(dir, wseed); true {
			have := map[string]bool{}
			for _, k := range strings.Split(present, ",") {
				have[k] = true
			}
			for k := range st.acked {
				if !have[k] {
					benign[k] = true
				}
			}
		}
		c.Stats["benign-commit-time-drops"] += len(benign)
		os.RemoveAll(base)
		if len(acts) == 0 {
			c.Op(fmt.Sprintf("trace %d notrace", wseed), "-")
			continue
		}
		c.Op(fmt.Sprintf("trace %d %s", wseed, strings.Join(acts, "|")), "-")
		c.NonTrivial(fmt.Sprintf("trace-%d", wseed))
		// 2. kill enumeration
		var jobs []job
		kinds := make([]string, 0, len(counts))
		for k := range counts {
			kinds = append(kinds, k)
		}
		sort.Strings(kinds)
		off := c.Rng.Intn(every)
		for _, k := range kinds {
			c.Stats["syscalls:"+k] += counts[k]
			for n := 1 + off%every; n <= counts[k]; n += every {
				jobs = append(jobs, job{wseed, k, n, benign})
			}
			off++
		}
		res := make([]string, len(jobs))
		var wg sync.WaitGroup
		sem := make(chan struct{}, 14)
		for ji, j := range jobs {
			wg.Add(1)
			sem <- struct{}{}
			go func(ji int, j job) {
				defer wg.Done()
				defer func() { <-sem }()
				res[ji] = runKill(j)
			}(ji, j)
		}
		wg.Wait()
		for ji, j := range jobs {
			c.Op(fmt.Sprintf("kill %d %s %d %s", j.wseed, j.kind, j.n, res[ji]), "-")
			c.Count("kill:" + j.kind)
			c.NonTrivial(fmt.Sprintf("%d-%s-%d", j.wseed, j.kind, j.n))
		}
	}
}
