// Suites snap / osnap (C23): restart from a memory snapshot equals restart from the WAL.
//
// Histories on a real tsdb.DB opened with EnableMemorySnapshotOnShutdown (and exemplar storage). At
// `snapq` / `fork` the data directory is copied twice: copy A is opened with snapshots enabled (it
// loads chunk_snapshot.<seg>.<offset> and replays the WAL only from that position), copy B after the
// chunk_snapshot.* directories were removed (full WAL replay).
//
// ops:  cfg <chunkRange> <oooWindow> <samplesPerChunk> [<oooCapMax>]   (first line of a case; opens the DB)
//
//	begin | app <s> <t> <vbits-hex> | commit | rollback
//	ex <s> <t> <vbits-hex> <id>          AppendExemplar on the open appender  -> "-"  (| res=<class>)
//	del <mint> <maxt> <s|*> | compact | cleantomb | cooo (CompactOOOHead)
//	mmap                                 DB.ForceHeadMMap (the periodic m-mapping pass)          (msnap only)
//	reopen                               clean Close (writes a snapshot) + Open (loads it)
//	q <mint> <maxt>  -> rows             win -> <headMinT> <headMaxT> <appendableMinValid|uninit>
//	snapq <mode> <mint> <maxt>
//	   -> a=<rows> b=<rows> awin=<min>,<max>,<amv|uninit> bwin=<…>
//	   | use=<loaded|fallback|none> pre=<rows of the live DB before> preex=<exemplars before> aex=<…> bex=<…>
//	   modes: clean  Close (snapshot), copy twice; afterwards the original is opened again (loads its snapshot)
//	          flip   clean + one bit of copy A's snapshot file flipped
//	          trunc  clean + copy A's snapshot file truncated                        (osnap only)
//	          crash  copy taken while the DB stays open (no new snapshot: an older snapshot + WAL tail)
//	          walbehind1 / walbehind2  clean + the last 1 / 2 WAL segments removed from BOTH copies (osnap only)
//	fork <mode>   the same with the full range; then every following op runs on BOTH copies and
//	              prints `<out on A> || <out on B>` (reopen = clean restart with snapshot on each)
//
// Everything after " | " in an op line is data observed by the harness (not an input): the model
// ignores it, the judge reads it; on replay it is dropped and recomputed.
//
// Stream osnap (-x stream=ooo): out-of-order ingestion, CompactOOOHead, CleanTombstones, longer
// histories (WAL checkpoints), all damage modes. No model: every output line is "-" and all
// observations travel in the data part (`… | out=<what the op printed>`).
//
// Stream msnap (-x stream=mm, generators in mm.go): series that have NO in-order head chunk when the
// snapshot is written (only out-of-order samples, with 0..n m-mapped out-of-order chunks around the
// OutOfOrderCapMax boundaries; created by a rolled-back append; in-order head chunk already covered by
// an m-mapped chunk) next to ordinary ones, clean shutdown and snapshot + WAL/WBL tail, continuation
// with new series after the restart. Judged only, against the acknowledged samples.
package main

import (
	"context"
	"errors"
	"fmt"
	"io"
	"io/fs"
	"math"
	"os"
	"path/filepath"
	"sort"
	"strconv"
	"strings"

	"github.com/prometheus/client_golang/prometheus"
	dto "github.com/prometheus/client_model/go"
	"github.com/prometheus/common/promslog"

	"github.com/prometheus/prometheus/model/exemplar"
	"github.com/prometheus/prometheus/model/labels"
	"github.com/prometheus/prometheus/storage"
	"github.com/prometheus/prometheus/tsdb"
	"github.com/prometheus/prometheus/tsdb/chunkenc"

	"verif/harness/h"
)

var tmpBase = func() string {
	if d := os.Getenv("VERIF_TMP"); d != "" {
		return d
	}
	if st, err := os.Stat("/dev/shm"); err == nil && st.IsDir() {
		if d, err := os.MkdirTemp("/dev/shm", "vprobe"); err == nil {
			os.Remove(d)
			return "/dev/shm"
		}
	}
	return ""
}()

type env struct {
	dir  string
	db   *tsdb.DB
	opts *tsdb.Options
	app  storage.Appender
	reg  *prometheus.Registry
}

func (e *env) open() error {
	e.reg = prometheus.NewRegistry()
	lg := promslog.NewNopLogger()
	if os.Getenv("VERIF_SNAP_LOG") != "" {
		lg = promslog.New(&promslog.Config{})
		fmt.Fprintln(os.Stderr, "=== open", e.dir)
	}
	db, err := tsdb.Open(e.dir, lg, e.reg, e.opts, nil)
	if err != nil {
		return err
	}
	db.DisableCompactions()
	e.db = db
	return nil
}

func (e *env) close() {
	if e.app != nil {
		e.app.Rollback()
		e.app = nil
	}
	if e.db != nil {
		e.db.Close()
		e.db = nil
	}
}

func (e *env) counter(name string) float64 {
	mfs, err := e.reg.Gather()
	if err != nil {
		return -1
	}
	for _, mf := range mfs {
		if mf.GetName() == name {
			var m *dto.Metric = mf.GetMetric()[0]
			if m.Counter != nil {
				return m.Counter.GetValue()
			}
			if m.Gauge != nil {
				return m.Gauge.GetValue()
			}
		}
	}
	return -1
}

func lbls(s int) labels.Labels {
	return labels.FromStrings("__name__", "m", "s", strconv.Itoa(s))
}

func clean(s string) string {
	return strings.NewReplacer(" ", "_", "\t", "_", "\n", "_", "|", "/").Replace(s)
}

func errClass(err error) string {
	switch {
	case err == nil:
		return "ok"
	case errors.Is(err, storage.ErrOutOfBounds):
		return "oob"
	case errors.Is(err, storage.ErrOutOfOrderSample):
		return "ooo"
	case errors.Is(err, storage.ErrTooOldSample):
		return "tooold"
	case errors.Is(err, storage.ErrDuplicateSampleForTimestamp):
		return "dup"
	default:
		return "err:" + clean(err.Error())
	}
}

func query(db *tsdb.DB, mint, maxt int64) string {
	q, err := db.Querier(mint, maxt)
	if err != nil {
		return "err:" + clean(err.Error())
	}
	defer q.Close()
	ss := q.Select(context.Background(), true, nil, labels.MustNewMatcher(labels.MatchEqual, "__name__", "m"))
	type ser struct {
		idx int
		s   string
	}
	var out []ser
	for ss.Next() {
		s := ss.At()
		idx, _ := strconv.Atoi(s.Labels().Get("s"))
		it := s.Iterator(nil)
		var parts []string
		for vt := it.Next(); vt != chunkenc.ValNone; vt = it.Next() {
			if vt != chunkenc.ValFloat {
				parts = append(parts, "nonfloat")
				continue
			}
			t, v := it.At()
			parts = append(parts, fmt.Sprintf("%d:%016x", t, math.Float64bits(v)))
		}
		if it.Err() != nil {
			return "err:" + clean(it.Err().Error())
		}
		if len(parts) > 0 {
			out = append(out, ser{idx, fmt.Sprintf("s%d=%s", idx, strings.Join(parts, ","))})
		}
	}
	if ss.Err() != nil {
		return "err:" + clean(ss.Err().Error())
	}
	sort.SliceStable(out, func(i, j int) bool { return out[i].idx < out[j].idx })
	if len(out) == 0 {
		return "-"
	}
	parts := make([]string, len(out))
	for i, s := range out {
		parts[i] = s.s
	}
	return strings.Join(parts, ";")
}

// exemplars renders every stored exemplar as s<i>@<t>:<vbits>:<id>, sorted, comma-separated.
func exemplars(db *tsdb.DB) string {
	eq, err := db.ExemplarQuerier(context.Background())
	if err != nil {
		return "err:" + clean(err.Error())
	}
	res, err := eq.Select(math.MinInt64, math.MaxInt64, []*labels.Matcher{labels.MustNewMatcher(labels.MatchEqual, "__name__", "m")})
	if err != nil {
		return "err:" + clean(err.Error())
	}
	var parts []string
	for _, r := range res {
		for _, e := range r.Exemplars {
			parts = append(parts, fmt.Sprintf("s%s@%d:%016x:%s", r.SeriesLabels.Get("s"), e.Ts, math.Float64bits(e.Value), e.Labels.Get("id")))
		}
	}
	sort.Strings(parts)
	if len(parts) == 0 {
		return "-"
	}
	return strings.Join(parts, ",")
}

func winStr(db *tsdb.DB, sep string) string {
	hd := db.Head()
	mv, ok := hd.AppendableMinValidTime()
	if ok {
		return fmt.Sprintf("%d%s%d%s%d", hd.MinTime(), sep, hd.MaxTime(), sep, mv)
	}
	return fmt.Sprintf("%d%s%d%suninit", hd.MinTime(), sep, hd.MaxTime(), sep)
}

func copyTree(src, dst string) error {
	return filepath.WalkDir(src, func(p string, d fs.DirEntry, err error) error {
		if err != nil {
			return err
		}
		rel, _ := filepath.Rel(src, p)
		to := filepath.Join(dst, rel)
		if d.IsDir() {
			return os.MkdirAll(to, 0o777)
		}
		if !d.Type().IsRegular() || d.Name() == "lock" {
			return nil
		}
		in, err := os.Open(p)
		if err != nil {
			return err
		}
		defer in.Close()
		out, err := os.Create(to)
		if err != nil {
			return err
		}
		if _, err := io.Copy(out, in); err != nil {
			out.Close()
			return err
		}
		return out.Close()
	})
}

func snapshotDirs(dir string) []string {
	ents, _ := os.ReadDir(dir)
	var out []string
	for _, e := range ents {
		if strings.HasPrefix(e.Name(), "chunk_snapshot.") {
			out = append(out, filepath.Join(dir, e.Name()))
		}
	}
	sort.Strings(out)
	return out
}

// snapshotFile returns the first segment file of the newest snapshot directory.
func snapshotFile(dir string) string {
	ds := snapshotDirs(dir)
	if len(ds) == 0 {
		return ""
	}
	ents, _ := os.ReadDir(ds[len(ds)-1])
	for _, e := range ents {
		if !e.IsDir() {
			return filepath.Join(ds[len(ds)-1], e.Name())
		}
	}
	return ""
}

// dataLen = index after the last non-zero byte (segments are zero-padded to the page size).
func dataLen(b []byte) int {
	n := len(b)
	for n > 0 && b[n-1] == 0 {
		n--
	}
	return n
}

// damage applies the mode to copy A (and for walbehind to both); pos picks the byte.
func damage(mode string, pos uint64, dirA, dirB string) string {
	switch mode {
	case "flip", "trunc":
		f := snapshotFile(dirA)
		if f == "" {
			return "nosnap"
		}
		b, err := os.ReadFile(f)
		if err != nil || dataLen(b) == 0 {
			return "nosnap"
		}
		n := dataLen(b)
		if mode == "flip" {
			i := int(pos % uint64(n))
			b[i] ^= 1 << (pos / uint64(n) % 8)
			os.WriteFile(f, b, 0o666)
			return fmt.Sprintf("flip@%d/%d", i, n)
		}
		i := int(pos % uint64(n))
		os.WriteFile(f, b[:i], 0o666)
		return fmt.Sprintf("trunc@%d/%d", i, n)
	case "walbehind1", "walbehind2":
		k := 1
		if mode == "walbehind2" {
			k = 2
		}
		removed := 0
		for _, d := range []string{dirA, dirB} {
			ents, _ := os.ReadDir(filepath.Join(d, "wal"))
			var segs []string
			for _, e := range ents {
				if _, err := strconv.Atoi(e.Name()); err == nil && !e.IsDir() {
					segs = append(segs, e.Name())
				}
			}
			sort.Strings(segs)
			for i := 0; i < k && len(segs) > 0; i++ {
				os.Remove(filepath.Join(d, "wal", segs[len(segs)-1]))
				segs = segs[:len(segs)-1]
				removed++
			}
		}
		return fmt.Sprintf("walremoved=%d", removed/2)
	}
	return "-"
}

type cmpRes struct {
	out  string // a=… b=… awin=… bwin=…
	data string // use=… pre=… preex=… aex=… bex=… dmg=…
	a, b *env
}

// compare takes the two copies at this point of the history. keep: leave A and B open (fork).
func (e *env) compare(c *h.Ctx, mode string, mint, maxt int64, pos uint64, keep bool) (*cmpRes, error) {
	pre := query(e.db, math.MinInt64, math.MaxInt64)
	preex := exemplars(e.db)
	cleanMode := mode != "crash"
	if cleanMode {
		if e.app != nil {
			e.app.Rollback()
			e.app = nil
		}
		if err := e.db.Close(); err != nil {
			return nil, fmt.Errorf("close: %w", err)
		}
		e.db = nil
	}
	root, err := os.MkdirTemp(tmpBase, "vsnapcp")
	if err != nil {
		return nil, err
	}
	dirA, dirB := filepath.Join(root, "A"), filepath.Join(root, "B")
	if err := copyTree(e.dir, dirA); err != nil {
		return nil, err
	}
	if err := copyTree(e.dir, dirB); err != nil {
		return nil, err
	}
	hadSnap := len(snapshotDirs(dirB)) > 0
	for _, d := range snapshotDirs(dirB) {
		os.RemoveAll(d)
	}
	dmg := damage(mode, pos, dirA, dirB)
	if cleanMode && !keep {
		if err := e.open(); err != nil {
			return nil, fmt.Errorf("reopen original: %w", err)
		}
	}
	oa, ob := *e.opts, *e.opts
	A := &env{dir: dirA, opts: &oa}
	B := &env{dir: dirB, opts: &ob}
	res := &cmpRes{}
	if err := A.open(); err != nil {
		os.RemoveAll(root)
		return nil, fmt.Errorf("open A: %w", err)
	}
	if err := B.open(); err != nil {
		A.close()
		os.RemoveAll(root)
		return nil, fmt.Errorf("open B: %w", err)
	}
	use := "none"
	if hadSnap {
		use = "loaded"
		if A.counter("prometheus_tsdb_snapshot_replay_error_total") > 0 || len(snapshotDirs(dirA)) == 0 {
			use = "fallback"
		}
	}
	c.Count("cmp:" + mode + ":" + use)
	res.out = fmt.Sprintf("a=%s b=%s awin=%s bwin=%s", query(A.db, mint, maxt), query(B.db, mint, maxt), winStr(A.db, ","), winStr(B.db, ","))
	res.data = fmt.Sprintf("use=%s dmg=%s pre=%s preex=%s aex=%s bex=%s", use, dmg, pre, preex, exemplars(A.db), exemplars(B.db))
	if keep {
		res.a, res.b = A, B
		return res, nil
	}
	A.close()
	B.close()
	os.RemoveAll(root)
	return res, nil
}

// exec runs one base op on one database.
func (e *env) exec(c *h.Ctx, f []string) (out, data string) {
	out = "bad-op"
	switch f[0] {
	case "begin":
		if e.app != nil {
			e.app.Rollback()
		}
		e.app = e.db.Appender(context.Background())
		out = "ok"
	case "app":
		s, _ := strconv.Atoi(f[1])
		t, _ := strconv.ParseInt(f[2], 10, 64)
		vb, _ := strconv.ParseUint(f[3], 16, 64)
		if e.app == nil {
			return "noapp", ""
		}
		_, err := e.app.Append(0, lbls(s), t, math.Float64frombits(vb))
		out = errClass(err)
		c.Count("app:" + strings.SplitN(out, ":", 2)[0])
	case "ex":
		s, _ := strconv.Atoi(f[1])
		t, _ := strconv.ParseInt(f[2], 10, 64)
		vb, _ := strconv.ParseUint(f[3], 16, 64)
		out = "-"
		if e.app == nil {
			return out, "res=noapp"
		}
		_, err := e.app.AppendExemplar(0, lbls(s), exemplar.Exemplar{Labels: labels.FromStrings("id", f[4]), Value: math.Float64frombits(vb), Ts: t, HasTs: true})
		if err == nil {
			data = "res=ok"
		} else {
			data = "res=rejected"
		}
		c.Count("ex:" + data)
	case "commit":
		if e.app == nil {
			return "noapp", ""
		}
		out = errClass(e.app.Commit())
		e.app = nil
	case "rollback":
		if e.app == nil {
			return "noapp", ""
		}
		out = errClass(e.app.Rollback())
		e.app = nil
	case "del":
		mint, _ := strconv.ParseInt(f[1], 10, 64)
		maxt, _ := strconv.ParseInt(f[2], 10, 64)
		m := labels.MustNewMatcher(labels.MatchEqual, "__name__", "m")
		if f[3] != "*" {
			m = labels.MustNewMatcher(labels.MatchEqual, "s", f[3])
		}
		out = errClass(e.db.Delete(context.Background(), mint, maxt, m))
	case "compact":
		out = errClass(e.db.Compact(context.Background()))
		c.Count(fmt.Sprintf("blocks-after-compact:%d", len(e.db.Blocks())))
	case "cooo":
		out = errClass(e.db.CompactOOOHead(context.Background()))
	case "cleantomb":
		out = errClass(e.db.CleanTombstones())
	case "mmap":
		// the periodic pass of DB.run: m-map every in-order head chunk except the newest of each series
		e.db.ForceHeadMMap()
		out = "ok"
	case "reopen":
		if e.app != nil {
			e.app.Rollback()
			e.app = nil
		}
		if err := e.db.Close(); err != nil {
			return "err:close:" + clean(err.Error()), ""
		}
		e.db = nil
		if err := e.open(); err != nil {
			out = "err:" + clean(err.Error())
		} else {
			out = "ok"
			if e.counter("prometheus_tsdb_snapshot_replay_error_total") > 0 {
				out = "err:snapshot-replay-error-on-clean-restart"
			}
		}
	case "q":
		mint, _ := strconv.ParseInt(f[1], 10, 64)
		maxt, _ := strconv.ParseInt(f[2], 10, 64)
		out = query(e.db, mint, maxt)
		if out != "-" {
			c.Count("q:nonempty")
		} else {
			c.Count("q:empty")
		}
	case "win":
		out = winStr(e.db, " ")
	}
	return out, data
}

func runCase(c *h.Ctx, ops []string, ooo bool) {
	dir, err := os.MkdirTemp(tmpBase, "vsnap")
	if err != nil {
		panic(err)
	}
	e := &env{dir: dir}
	var fa, fb *env // after fork
	defer os.RemoveAll(dir)
	defer func() {
		e.close()
		if fa != nil {
			fa.close()
			fb.close()
			os.RemoveAll(filepath.Dir(fa.dir))
		}
	}()
	for _, op := range ops {
		if i := strings.Index(op, " | "); i >= 0 {
			op = op[:i]
		}
		f := strings.Fields(op)
		if len(f) == 0 {
			continue
		}
		out, data := "bad-op", ""
		p, pv := h.Try(func() {
			switch f[0] {
			case "cfg":
				cr, _ := strconv.ParseInt(f[1], 10, 64)
				oooW, _ := strconv.ParseInt(f[2], 10, 64)
				spc, _ := strconv.Atoi(f[3])
				o := tsdb.DefaultOptions()
				o.MinBlockDuration, o.MaxBlockDuration = cr, cr
				o.OutOfOrderTimeWindow = oooW
				o.SamplesPerChunk = spc
				if len(f) > 4 { // stream mm: OutOfOrderCapMax (samples per out-of-order chunk; 0 = default 32)
					oc, _ := strconv.ParseInt(f[4], 10, 64)
					o.OutOfOrderCapMax = oc
				}
				o.RetentionDuration = 0
				o.WALSegmentSize = 128 * 1024
				o.StripeSize = 16
				o.EnableMemorySnapshotOnShutdown = true
				o.EnableExemplarStorage = true
				o.MaxExemplars = 6
				e.opts = o
				if err := e.open(); err != nil {
					out = "err:" + clean(err.Error())
				} else {
					out = "ok"
				}
			case "snapq", "fork":
				if fa != nil {
					return
				}
				mode := f[1]
				mint, maxt := int64(math.MinInt64), int64(math.MaxInt64)
				var pos uint64
				if f[0] == "snapq" {
					mint, _ = strconv.ParseInt(f[2], 10, 64)
					maxt, _ = strconv.ParseInt(f[3], 10, 64)
					if len(f) > 4 {
						pos, _ = strconv.ParseUint(f[4], 10, 64)
					}
				} else if len(f) > 2 {
					pos, _ = strconv.ParseUint(f[2], 10, 64)
				}
				res, err := e.compare(c, mode, mint, maxt, pos, f[0] == "fork")
				if err != nil {
					out = "err:" + clean(err.Error())
					return
				}
				out, data = res.out, res.data
				if f[0] == "fork" {
					fa, fb = res.a, res.b
					e.close()
				}
			default:
				if fa != nil {
					oa, da := fa.exec(c, f)
					ob, _ := fb.exec(c, f)
					out, data = oa+" || "+ob, da
					if f[0] == "ex" {
						out = "-"
					}
				} else {
					out, data = e.exec(c, f)
				}
			}
		})
		if p {
			out = "panic:" + clean(fmt.Sprint(pv))
			c.Count("panic")
		}
		c.Count("op:" + f[0])
		line := op
		if ooo {
			if strings.HasPrefix(out, "a=") {
				data = strings.TrimSpace(out + " " + data) // comparison: already key=value tokens
			} else {
				data = strings.TrimSpace("out=" + strings.ReplaceAll(out, " ", "_") + " " + data)
			}
			out = "-"
		}
		if data != "" {
			line = op + " | " + data
		}
		c.Op(line, out)
	}
}

// ---------------------------------------------------------------- generators

var vals = []uint64{0x3ff0000000000000, 0x4000000000000000, 0x4008000000000000, 0x7ff8000000000001, 0x7ff0000000000002 /* stale NaN */, 0x8000000000000000, 0x7ff0000000000000, 0}

func gen(c *h.Ctx, r *h.Rng, maxOps int, ooo bool) []string {
	cr := h.PickI64(r, []int64{100, 1000, 7200000})
	win := int64(0)
	if ooo {
		win = h.PickI64(r, []int64{cr / 2, cr, 3 * cr})
	}
	spc := []int{120, 4, 2}[r.Intn(3)]
	ops := []string{fmt.Sprintf("cfg %d %d %d", cr, win, spc)}
	nser := 1 + r.Intn(4)
	base := []int64{0, -cr * 3, cr * 10, -7, 1, -40}[r.Intn(6)]
	cur := base
	step := []int64{1, cr / 10, cr / 3, cr - 1, cr, cr + 1}[r.Intn(6)]
	if step <= 0 {
		step = 1
	}
	inTx := false
	forked := false
	compactedSinceRestart := false
	txLast := map[int]int64{}
	exid := 0
	n := 10 + r.Intn(maxOps)
	forkAt := -1
	if r.Chance(60) {
		forkAt = n/3 + r.Intn(n/2+1)
	}
	endTx := func() {
		if inTx {
			ops = append(ops, []string{"commit", "commit", "commit", "rollback"}[r.Intn(4)])
			inTx = false
		}
	}
	pickT := func() int64 {
		switch r.Intn(10) {
		case 0:
			return cur - r.Range(0, 3)*step
		case 1:
			return cur
		case 2:
			b := (cur/cr + 1) * cr
			return b + r.Range(-1, 1)
		default:
			cur += r.Range(0, 2) * step
			if r.Chance(30) {
				cur += r.Range(0, 3)
			}
			return cur
		}
	}
	pickRange := func() (int64, int64) {
		switch r.Intn(6) {
		case 0, 1:
			return math.MinInt64, math.MaxInt64
		case 2:
			a := base + r.Range(-2, 2)*cr
			return a, a + r.Range(0, 4)*cr + r.Range(-1, 1)
		case 3:
			return cur - r.Range(0, 5)*step, cur + r.Range(0, 2)
		default:
			a := base + r.Range(0, (cur-base)+1)
			b := a + r.Range(0, (cur-base)/2+2)
			return a, b
		}
	}
	pickMode := func() string {
		k := r.Intn(100)
		if ooo {
			switch {
			case k < 35:
				return "clean"
			case k < 50:
				return "flip"
			case k < 65:
				return "trunc"
			case k < 85:
				return "crash"
			case k < 93:
				return "walbehind1"
			default:
				return "walbehind2"
			}
		}
		switch {
		case k < 50:
			return "clean"
		case k < 70:
			return "flip"
		default:
			// The model follows a crash restart only while no head compaction happened since the last
			// restart (see checks/C23.json: a series dropped from the head and created again gets a
			// new WAL series record, which the record-level model does not carry).
			if compactedSinceRestart {
				return "clean"
			}
			return "crash"
		}
	}
	for len(ops) < n {
		if !forked && forkAt >= 0 && len(ops) >= forkAt {
			if r.Chance(70) {
				endTx()
			}
			mode := pickMode()
			// After a failed snapshot load the head window starts elsewhere (resetInMemoryState); the
			// continuation on both copies is compared for the modes that keep the window.
			if mode == "flip" || mode == "trunc" || mode == "walbehind1" {
				mode = "clean"
			}
			ops = append(ops, fmt.Sprintf("fork %s %d", mode, r.U64()%1000003))
			forked, inTx, compactedSinceRestart = true, false, false
			c.Count("gen:fork:" + mode)
			continue
		}
		k := r.Intn(100)
		switch {
		case k < 48:
			if !inTx {
				ops = append(ops, "begin")
				inTx = true
				txLast = map[int]int64{}
			}
			cnt := 1 + r.Intn(5)
			for i := 0; i < cnt; i++ {
				v := vals[r.Intn(len(vals))]
				if r.Chance(50) {
					v = math.Float64bits(float64(r.Intn(1000)))
				}
				si, t := r.Intn(nser), pickT()
				if ooo && r.Chance(25) {
					t = cur - r.Range(1, win+1)
				} else {
					// see suite db: a sample accepted by Append and dropped by Commit still reaches the WAL
					// and may lower Head.MinTime() after a WAL replay only
					if last, ok := txLast[si]; ok && t < last {
						t = last
					}
					txLast[si] = t
				}
				ops = append(ops, fmt.Sprintf("app %d %d %016x", si, t, v))
				if r.Chance(25) {
					exid++
					ops = append(ops, fmt.Sprintf("ex %d %d %016x %d", si, t-r.Range(0, 1), math.Float64bits(float64(exid)), exid))
				}
			}
			if r.Chance(60) {
				endTx()
			}
		case k < 55:
			endTx()
			a, b := pickRange()
			tgt := "*"
			if r.Chance(70) {
				tgt = strconv.Itoa(r.Intn(nser))
			}
			ops = append(ops, fmt.Sprintf("del %d %d %s", a, b, tgt))
		case k < 63:
			endTx()
			ops = append(ops, "compact")
			compactedSinceRestart = true
		case k < 66:
			if !ooo {
				continue
			}
			endTx()
			ops = append(ops, []string{"cleantomb", "cooo", "cooo"}[r.Intn(3)])
		case k < 72:
			endTx()
			ops = append(ops, "reopen")
			compactedSinceRestart = false
		case k < 76:
			ops = append(ops, "win")
		case k < 88:
			if forked {
				a, b := pickRange()
				ops = append(ops, fmt.Sprintf("q %d %d", a, b))
				continue
			}
			mode := pickMode()
			if mode != "crash" || r.Chance(70) {
				endTx()
			}
			a, b := pickRange()
			ops = append(ops, fmt.Sprintf("snapq %s %d %d %d", mode, a, b, r.U64()%1000003))
			c.Count("gen:snapq:" + mode)
			if mode != "crash" {
				inTx, compactedSinceRestart = false, false
			}
		default:
			a, b := pickRange()
			ops = append(ops, fmt.Sprintf("q %d %d", a, b))
		}
	}
	endTx()
	if !forked {
		ops = append(ops, fmt.Sprintf("snapq clean %d %d 0", int64(math.MinInt64), int64(math.MaxInt64)))
	} else {
		ops = append(ops, "reopen")
	}
	ops = append(ops, fmt.Sprintf("q %d %d", int64(math.MinInt64), int64(math.MaxInt64)), "win")
	return ops
}

func main() {
	c := h.Init()
	defer c.Finish()
	mm := c.Extra["stream"] == "mm"
	ooo := c.Extra["stream"] == "ooo" || mm // judged-only streams: observations travel in the data part
	if c.Replay != "" {
		for _, cs := range c.ReplayCases() {
			c.Case(strings.TrimPrefix(cs[0], "case "))
			runCase(c, cs[1:], ooo)
		}
		return
	}
	// Histories of the modelled stream stay short (DbModel keeps the whole WAL; tsdb checkpoints it
	// after a few compactions — see checks/C53.json); the judged-only stream uses long ones so that
	// WAL checkpoints newer than the snapshot occur.
	if mm {
		runMM(c)
		return
	}
	maxOps := 40
	if ooo {
		maxOps = 90
		if c.Tier == "thorough" {
			maxOps = 160
		}
	}
	for i := 0; i < c.N; i++ {
		r := c.Rng.Fork()
		ops := gen(c, r, maxOps, ooo)
		c.Case(fmt.Sprintf("h%d", i))
		c.NonTrivial(strings.Join(ops, ";"))
		runCase(c, ops, ooo)
	}
}
