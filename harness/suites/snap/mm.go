// Stream msnap (C23): series WITHOUT an in-order head chunk at snapshot time.
//
// loadChunkSnapshot returns a map ref -> series of everything it loaded; loadMmappedChunks attaches
// the chunks of chunks_head/ to the series of that map (a chunk whose series is not in the map is
// parked for a WAL series record that, behind a snapshot, never comes), the WBL replay re-inserts the
// out-of-order samples and every m-map marker clears the rebuilt out-of-order head chunk. What this
// machinery does for a series whose snapshot record carries no head chunk is observable only on
// histories the streams snap / osnap do not produce:
//
//   - series that only ever received out-of-order samples, with k = cap-1, cap, cap+1, 2cap, 2cap+1,
//     3cap+2 of them (cap = OutOfOrderCapMax, the real default 32 and small ones), ascending /
//     descending / shuffled, one transaction / one per sample / groups;
//   - series created by a rolled-back append (no samples at all), series with in-order AND
//     out-of-order chunks, series ending in a staleness marker, exemplars of such series;
//   - clean shutdown (snapshot) and snapshot + later WAL/WBL tail (copy taken while open), where the
//     tail brings in-order samples (also with timestamps <= 0) to series the snapshot knows without
//     head chunk, and further m-mapped chunks (`mmap` = the periodic m-mapping pass, so that the
//     snapshot's head chunk is already covered by an m-mapped chunk);
//   - after the restart: series created for the first time (their refs must not collide with the
//     refs of head-chunk-less snapshot series), more samples, another restart.
//
// Directed cases first (fixed list per tier), then c.N random histories biased towards these shapes.
// The random histories contain no compaction (CompactOOOHead / Compact): a series that leaves the head
// and comes back is the business of stream osnap (findings F32, F33); the judge still understands them
// (corpus).
package main

import (
	"fmt"
	"math"
	"strings"

	"verif/harness/h"
)

const (
	fullLo = int64(math.MinInt64)
	fullHi = int64(math.MaxInt64)
)

// mmb builds one history.
type mmb struct {
	r      *h.Rng
	ops    []string
	cr     int64
	win    int64
	cap    int             // effective OutOfOrderCapMax
	cur    int64           // largest committed in-order timestamp (Head.MaxTime)
	last   map[int]int64   // per series: largest in-order timestamp
	has    map[int]bool    // series has in-order samples
	used   map[string]bool // series/timestamp pairs handed out
	vctr   int
	exid   int
	inTx   bool
	txCur  int64
	txLast map[int]int64 // state at `begin`, restored by a rollback
	txHas  map[int]bool
}

func newMMB(r *h.Rng, cr, win int64, spc, oooCap int, base int64) *mmb {
	b := &mmb{r: r, cr: cr, win: win, cap: oooCap, cur: base, last: map[int]int64{}, has: map[int]bool{}, used: map[string]bool{}}
	if b.cap == 0 {
		b.cap = 32
	}
	b.ops = append(b.ops, fmt.Sprintf("cfg %d %d %d %d", cr, win, spc, oooCap))
	return b
}

func (b *mmb) add(format string, a ...any) { b.ops = append(b.ops, fmt.Sprintf(format, a...)) }

func (b *mmb) val() uint64 {
	b.vctr++
	return math.Float64bits(float64(b.vctr))
}

func (b *mmb) begin() {
	if !b.inTx {
		b.add("begin")
		b.inTx, b.txCur = true, b.cur
		b.txLast, b.txHas = map[int]int64{}, map[int]bool{}
		for k, v := range b.last {
			b.txLast[k] = v
		}
		for k, v := range b.has {
			b.txHas[k] = v
		}
	}
}

func (b *mmb) end(commit bool) {
	if !b.inTx {
		return
	}
	if commit {
		b.add("commit")
	} else {
		b.add("rollback")
		b.cur, b.last, b.has = b.txCur, b.txLast, b.txHas
	}
	b.inTx = false
}

func (b *mmb) take(s int, t int64) bool {
	k := fmt.Sprintf("%d/%d", s, t)
	if b.used[k] {
		return false
	}
	b.used[k] = true
	return true
}

// inorder appends one sample of series s at a fresh timestamp >= everything so far (advance >= 0).
func (b *mmb) inorder(s int, advance int64, v uint64) int64 {
	b.begin()
	t := b.cur + advance
	if l, ok := b.last[s]; ok && t <= l {
		t = l + 1
	}
	for !b.take(s, t) {
		t++
	}
	b.add("app %d %d %016x", s, t, v)
	b.last[s], b.has[s] = t, true
	if t > b.cur {
		b.cur = t
	}
	return t
}

// oooSlots returns n distinct free timestamps of series s that are out of order for every head
// maximum in [b.cur, b.cur+slack]: below the appendable minimum (cur - cr/2) and inside the window.
func (b *mmb) oooSlots(s int, n int, order string) []int64 {
	slack := b.cr / 8
	lo, hi := b.cur+slack-b.win+1, b.cur-b.cr/2-1
	if l, ok := b.last[s]; ok && l-1 > hi {
		hi = l - 1 // between the appendable minimum and the series' newest in-order sample: out of order too
	}
	var ts []int64
	span := hi - lo + 1
	if span < 1 {
		return nil
	}
	gap := span / int64(n+1)
	if gap < 1 {
		gap = 1
	}
	t := lo + b.r.Range(0, gap-1)
	for tries := 0; len(ts) < n && tries < 20*n+100; tries++ {
		if t > hi {
			t = lo + b.r.Range(0, span-1)
		}
		if b.take(s, t) {
			ts = append(ts, t)
		}
		t += 1 + b.r.Range(0, gap-1)
	}
	switch order {
	case "desc":
		for i, j := 0, len(ts)-1; i < j; i, j = i+1, j-1 {
			ts[i], ts[j] = ts[j], ts[i]
		}
	case "shuf":
		for i := len(ts) - 1; i > 0; i-- {
			j := b.r.Intn(i + 1)
			ts[i], ts[j] = ts[j], ts[i]
		}
	}
	return ts
}

// ooo appends n out-of-order samples of series s; tx: 0 one transaction, 1 one per sample, k>1 groups of k.
func (b *mmb) ooo(s, n int, order string, tx int, withEx bool) {
	if n <= 0 {
		return
	}
	b.end(true)
	ts := b.oooSlots(s, n, order)
	for i, t := range ts {
		b.begin()
		b.add("app %d %d %016x", s, t, b.val())
		if withEx && (i == 0 || i == len(ts)-1) {
			b.exid++
			b.add("ex %d %d %016x %d", s, t, math.Float64bits(float64(b.exid)), b.exid)
		}
		if tx == 1 || (tx > 1 && (i+1)%tx == 0) {
			b.end(true)
		}
	}
	b.end(true)
}

func (b *mmb) anchor(k int) {
	for i := 0; i < k; i++ {
		b.inorder(0, 1, b.val())
	}
	b.end(true)
}

func (b *mmb) snapq(mode string) {
	b.end(true)
	b.add("snapq %s %d %d %d", mode, fullLo, fullHi, b.r.U64()%1000003)
}

func (b *mmb) qfull() { b.add("q %d %d", fullLo, fullHi) }

type mmCase struct {
	id  string
	ops []string
}

var mmBases = []int64{0, -10, 10} // in units of the chunk range

// oooOnly: a series with only out-of-order samples across clean shutdown, snapshot + tail, clean shutdown.
func oooOnly(r *h.Rng, cr int64, spc, oooCap, n, tail int, order string, tx int, base int64, ex bool) []string {
	b := newMMB(r, cr, 5*cr, spc, oooCap, base*cr)
	b.anchor(3)
	b.ooo(1, n, order, tx, ex)
	b.snapq("clean")
	b.ooo(1, tail, order, tx, false)
	b.anchor(1)
	b.snapq("crash")
	b.ooo(1, 1, "asc", 0, false)
	b.snapq("clean")
	b.qfull()
	return b.ops
}

// emptyAndLate: series without any sample (rolled-back append), an out-of-order-only series and an
// ordinary one at the snapshot; behind the snapshot the head-chunk-less series receive in-order
// samples (timestamps <= 0 for base <= 0), then a copy is taken while open.
func emptyAndLate(r *h.Rng, cr int64, spc, oooCap, n int, base int64) []string {
	b := newMMB(r, cr, 5*cr, spc, oooCap, base*cr)
	b.anchor(2)
	b.begin()
	b.add("app 2 %d %016x", b.cur+1, b.val())
	b.end(false) // series 2 exists without samples
	b.ooo(1, n, "shuf", 3, true)
	b.inorder(3, 0, b.val())
	b.end(true)
	b.snapq("clean")
	b.inorder(2, 1, b.val())
	b.inorder(1, 1, b.val())
	b.inorder(2, 1, b.val())
	b.end(true)
	b.ooo(1, 2, "asc", 0, false)
	b.snapq("crash")
	b.inorder(1, 1, vals[4]) // staleness marker
	b.end(true)
	b.snapq("clean")
	b.qfull()
	return b.ops
}

// newSeriesAfterRestart: the series created LAST (largest ref) has no in-order head chunk; after the
// start from the snapshot new series are created on both copies, more samples, restarts.
func newSeriesAfterRestart(r *h.Rng, cr int64, spc, oooCap, n int, lastEmpty bool, mode string) []string {
	b := newMMB(r, cr, 5*cr, spc, oooCap, 10*cr) // (positive timestamps: a loss is not mistaken for F31)
	b.anchor(2)
	b.inorder(2, 1, b.val())
	b.end(true)
	if lastEmpty {
		b.ooo(1, n, "asc", 0, false)
		b.begin()
		b.add("app 3 %d %016x", b.cur+1, b.val())
		b.end(false)
	} else {
		b.ooo(1, n, "desc", 0, false)
	}
	if mode == "crash" {
		b.add("reopen")
		b.anchor(1)
		b.ooo(1, 1, "asc", 0, false)
	}
	b.end(true)
	b.add("fork %s %d", mode, r.U64()%1000003)
	b.inorder(7, 1, b.val())
	b.inorder(0, 1, b.val())
	b.end(true)
	b.ooo(1, 2, "asc", 0, false)
	b.ooo(7, 1, "asc", 0, false)
	b.qfull()
	b.add("reopen")
	b.qfull()
	b.inorder(8, 1, b.val())
	b.inorder(7, 1, b.val())
	b.inorder(3, 1, b.val())
	b.end(true)
	b.ooo(8, b.cap+1, "shuf", 0, false)
	b.qfull()
	b.add("reopen")
	b.qfull()
	return b.ops
}

// mmapCover: small in-order chunks; behind the snapshot the snapshot's head chunk is completed and
// m-mapped by the periodic pass, then a copy is taken while open.
func mmapCover(r *h.Rng, cr int64, spc, oooCap int, base int64) []string {
	b := newMMB(r, cr, 5*cr, spc, oooCap, base*cr)
	for i := 0; i < 2*spc+1; i++ {
		b.inorder(0, 1, b.val())
		if i%2 == 0 {
			b.inorder(2, 1, b.val())
		}
	}
	b.end(true)
	b.ooo(2, b.cap+1, "asc", 0, false)
	b.add("reopen")
	b.inorder(0, 1, b.val())
	b.inorder(2, 1, b.val())
	b.end(true)
	b.add("mmap")
	b.snapq("crash")
	for i := 0; i < spc; i++ {
		b.inorder(0, 1, b.val())
	}
	b.end(true)
	b.add("mmap")
	b.ooo(2, 1, "asc", 0, false)
	b.snapq("crash")
	b.add("mmap")
	b.snapq("clean")
	b.qfull()
	return b.ops
}

// mixed: in-order + out-of-order chunks in one series, an out-of-order-only one, a series ending in a
// staleness marker, exemplars; clean shutdown, tail, copy while open, damaged snapshot.
func mixed(r *h.Rng, cr int64, spc, oooCap, n int, order string, base int64) []string {
	b := newMMB(r, cr, 5*cr, spc, oooCap, base*cr)
	b.anchor(2)
	for i := 0; i < spc+1; i++ {
		b.inorder(2, 1, b.val())
	}
	b.inorder(4, 1, b.val())
	b.inorder(4, 1, vals[4])
	b.end(true)
	b.ooo(2, n, order, 2, true)
	b.ooo(1, n, order, 0, true)
	b.snapq("clean")
	b.ooo(1, b.cap, order, 1, false)
	b.ooo(2, 1, order, 1, false)
	b.inorder(2, 1, b.val())
	b.end(true)
	b.snapq("crash")
	b.snapq("flip")
	b.snapq("clean")
	b.qfull()
	return b.ops
}

func boundaryCounts(c int) []int {
	out := []int{}
	for _, n := range []int{c - 1, c, c + 1, 2 * c, 2*c + 1, 3*c + 2} {
		if n > 0 {
			out = append(out, n)
		}
	}
	return out
}

func directedMM(c *h.Ctx, r *h.Rng) []mmCase {
	var out []mmCase
	add := func(id string, ops []string) { out = append(out, mmCase{id, ops}) }
	orders := []string{"asc", "desc", "shuf"}
	if c.Tier != "thorough" {
		// the real default capacity (0 -> 32) and chunk range
		for _, n := range []int{32, 33, 65} {
			add(fmt.Sprintf("d-ooonly-c32-n%d", n), oooOnly(r.Fork(), 7200000, 120, 0, n, 33, "asc", 0, 0, n == 33))
		}
		for _, n := range []int{1, 2, 3, 5} {
			add(fmt.Sprintf("d-ooonly-c2-n%d", n), oooOnly(r.Fork(), 1000, 4, 2, n, 1+n%3, orders[n%3], n%3, mmBases[n%3], n == 3))
		}
		add("d-empty-c2", emptyAndLate(r.Fork(), 1000, 2, 2, 3, -10))
		add("d-empty-c32", emptyAndLate(r.Fork(), 1000, 4, 0, 33, 0))
		add("d-newser-ooo", newSeriesAfterRestart(r.Fork(), 1000, 4, 2, 3, false, "clean"))
		add("d-newser-empty", newSeriesAfterRestart(r.Fork(), 1000, 4, 3, 4, true, "clean"))
		add("d-newser-crash", newSeriesAfterRestart(r.Fork(), 1000, 4, 2, 5, false, "crash"))
		add("d-mmapcover", mmapCover(r.Fork(), 1000, 2, 2, -10))
		add("d-mixed-c3", mixed(r.Fork(), 1000, 2, 3, 4, "shuf", 0))
		return out
	}
	for _, oc := range []int{1, 2, 3, 5, 0} {
		eff := oc
		if eff == 0 {
			eff = 32
		}
		cr, spc := int64(1000), 4
		if oc == 0 {
			cr, spc = 7200000, 120
		}
		for _, n := range boundaryCounts(eff) {
			for k := 0; k < 2; k++ {
				order, tx := orders[r.Intn(3)], []int{0, 1, 7}[r.Intn(3)]
				if k == 0 {
					order, tx = "asc", 0
				}
				tail := []int{1, eff, eff + 1}[r.Intn(3)]
				base := mmBases[r.Intn(3)]
				add(fmt.Sprintf("d-ooonly-c%d-n%d-%s-tx%d-t%d-b%d", eff, n, order, tx, tail, base),
					oooOnly(r.Fork(), cr, spc, oc, n, tail, order, tx, base, r.Chance(40)))
			}
		}
		for _, n := range []int{eff, eff + 1, 2*eff + 1} {
			for _, base := range []int64{0, -10} {
				add(fmt.Sprintf("d-empty-c%d-n%d-b%d", eff, n, base), emptyAndLate(r.Fork(), 1000, []int{2, 4}[r.Intn(2)], oc, n, base))
			}
			add(fmt.Sprintf("d-newser-ooo-c%d-n%d", eff, n), newSeriesAfterRestart(r.Fork(), 1000, 4, oc, n, false, "clean"))
			add(fmt.Sprintf("d-newser-empty-c%d-n%d", eff, n), newSeriesAfterRestart(r.Fork(), 1000, 4, oc, n, true, "clean"))
			add(fmt.Sprintf("d-newser-crash-c%d-n%d", eff, n), newSeriesAfterRestart(r.Fork(), 1000, 4, oc, n, r.Bool(), "crash"))
			add(fmt.Sprintf("d-mixed-c%d-n%d", eff, n), mixed(r.Fork(), 1000, []int{2, 4}[r.Intn(2)], oc, n, orders[r.Intn(3)], mmBases[r.Intn(3)]))
		}
	}
	for _, spc := range []int{2, 4} {
		for _, base := range []int64{0, -10} {
			add(fmt.Sprintf("d-mmapcover-spc%d-b%d", spc, base), mmapCover(r.Fork(), 1000, spc, 2, base))
		}
	}
	return out
}

// genMM: a random history. Series kinds: 0 in-order, 1 out-of-order only, 2 both, 3 created by a
// rolled-back append (and possibly used later).
func genMM(c *h.Ctx, r *h.Rng, maxOps int) []string {
	cr := h.PickI64(r, []int64{1000, 1000, 7200000})
	oooCap := []int{1, 2, 2, 3, 4, 0}[r.Intn(6)]
	spc := []int{2, 4, 120}[r.Intn(3)]
	b := newMMB(r, cr, cr*h.PickI64(r, []int64{2, 5}), spc, oooCap, mmBases[r.Intn(3)]*cr)
	nser := 3 + r.Intn(3)
	kind := make([]int, 12)
	for i := 1; i < len(kind); i++ {
		kind[i] = []int{0, 1, 1, 2, 2, 3}[r.Intn(6)]
	}
	b.anchor(1 + r.Intn(3))
	n := 12 + r.Intn(maxOps)
	forkAt := -1
	if r.Chance(60) {
		forkAt = n/3 + r.Intn(n/2+1)
	}
	forked := false
	sample := func() {
		s := r.Intn(nser)
		k := kind[s]
		if k == 3 && r.Chance(50) {
			k = []int{0, 1}[r.Intn(2)]
		}
		v := b.val()
		if r.Chance(10) {
			v = vals[r.Intn(len(vals))]
		}
		switch {
		case k == 3:
			b.end(true)
			b.begin()
			b.add("app %d %d %016x", s, b.cur+r.Range(0, 1), v)
			b.end(false)
		case k == 0 || (k == 2 && r.Chance(45)):
			b.inorder(s, r.Range(0, 2), v)
		default:
			// out of order relative to the head maximum at the start of the transaction
			b.begin()
			save := b.cur
			b.cur = b.txCur
			ts := b.oooSlots(s, 1+r.Intn(2*b.cap+2), []string{"asc", "desc", "shuf"}[r.Intn(3)])
			b.cur = save
			for _, t := range ts {
				b.add("app %d %d %016x", s, t, b.val())
				if r.Chance(10) {
					b.exid++
					b.add("ex %d %d %016x %d", s, t, math.Float64bits(float64(b.exid)), b.exid)
				}
			}
		}
	}
	for len(b.ops) < n {
		if !forked && forkAt >= 0 && len(b.ops) >= forkAt {
			b.end(true)
			mode := []string{"clean", "clean", "crash"}[r.Intn(3)]
			b.add("fork %s %d", mode, r.U64()%1000003)
			forked = true
			nser += 1 + r.Intn(2) // series first seen after the restart
			c.Count("gen:fork:" + mode)
			continue
		}
		k := r.Intn(100)
		switch {
		case k < 55:
			for i, cnt := 0, 1+r.Intn(3); i < cnt; i++ {
				sample()
			}
			if r.Chance(60) {
				b.end(r.Chance(90))
			}
		case k < 68:
			if forked {
				b.qfull()
				continue
			}
			mode := []string{"clean", "clean", "clean", "crash", "crash", "flip"}[r.Intn(6)]
			b.snapq(mode)
			c.Count("gen:snapq:" + mode)
		case k < 76:
			b.end(true)
			b.add("reopen")
		case k < 84:
			b.add("mmap")
		case k < 96:
			b.qfull()
		default:
			b.add("win")
		}
	}
	b.end(true)
	if !forked {
		b.snapq("clean")
	} else {
		b.add("reopen")
	}
	b.qfull()
	return b.ops
}

func runMM(c *h.Ctx) {
	dr := c.Rng.Fork()
	for _, d := range directedMM(c, dr) {
		c.Case(d.id)
		c.NonTrivial(strings.Join(d.ops, ";"))
		c.Count("directed")
		runCase(c, d.ops, true)
	}
	maxOps := 50
	if c.Tier == "thorough" {
		maxOps = 90
	}
	for i := 0; i < c.N; i++ {
		r := c.Rng.Fork()
		ops := genMM(c, r, maxOps)
		c.Case(fmt.Sprintf("m%d", i))
		c.NonTrivial(strings.Join(ops, ";"))
		runCase(c, ops, true)
	}
}
