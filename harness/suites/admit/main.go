// Suite admit (C02): append admission / commit decisions of the real tsdb head
// (headAppender / headAppenderV2, memSeries.appendable*, commitFloats/Histograms/FloatHistograms,
// OOOChunk.Insert) observed through the public API: error class of every Append, Commit result,
// the appendable window, and what is queryable afterwards (in-order querier + merged querier).
//
// ops (one case = one fresh tsdb.DB, compactions disabled):
//
//	cfg <oooWin> <chunkRange> <oooCapMax>      must be first                    -> ok
//	trunc <mint>          Head.Truncate on a not yet initialised head           -> ok | skip
//	app <v1|v2>           new appender (window snapshot unless head is fresh)   -> lazy | ok <minValid> <headMaxt>
//	opt <0|1>             v1: SetOptions(DiscardOutOfOrder); v2: AOptions.RejectOutOfOrder from now on -> ok
//	f <series> <t> <bits16hex>   append float                                   -> ok|oob|tooold|ooo|dup|err:..|noapp
//	h <series> <t> <id>          append integer histogram (id 0 = staleness marker, 1-3 exponential, 4-5 custom buckets)
//	fh <series> <t> <id>         append float histogram
//	commit | rollback                                                            -> ok | err:.. | noapp
//	q <series>            -> io=<t:K:v,..|-> all=<t:K:v|t:*,..|->   (all: `*` where the timestamp is also in io)
//	win                   -> uninit | <minValid> <headMaxt>
//
// Overlapping appenders: the ops app / opt / f / h / fh / commit / rollback may carry the prefix `@1` or `@2`
// (`@1 app v2`, `@1 f s0 1000 <bits>`, `@1 commit`); they then address appender slot 1 / 2 instead of
// slot 0, so up to three appenders are open on the same head at once (strictly interleaved, one goroutine).
// Any other op behind a prefix -> bad-op.  `trunc` answers skip while any slot is open.
package main

import (
	"context"
	"errors"
	"fmt"
	"math"
	"os"
	"strconv"
	"strings"

	"github.com/prometheus/common/promslog"

	"github.com/prometheus/prometheus/model/histogram"
	"github.com/prometheus/prometheus/model/labels"
	"github.com/prometheus/prometheus/model/value"
	"github.com/prometheus/prometheus/storage"
	"github.com/prometheus/prometheus/tsdb"
	"github.com/prometheus/prometheus/tsdb/chunkenc"

	"verif/harness/h"
)

const staleBits = uint64(value.StaleNaN)

func mkHist(id int) *histogram.Histogram {
	if id == 0 {
		return &histogram.Histogram{Sum: math.Float64frombits(staleBits)}
	}
	hh := &histogram.Histogram{
		Schema: 0, Count: uint64(id), Sum: float64(id),
		PositiveSpans: []histogram.Span{{Offset: 0, Length: 1}}, PositiveBuckets: []int64{int64(id)},
	}
	if id >= 4 {
		hh.Schema = histogram.CustomBucketsSchema
		hh.CustomValues = []float64{1, 2}
	}
	return hh
}

func mkFHist(id int) *histogram.FloatHistogram {
	if id == 0 {
		return &histogram.FloatHistogram{Sum: math.Float64frombits(staleBits)}
	}
	hh := &histogram.FloatHistogram{
		Schema: 0, Count: float64(id), Sum: float64(id),
		PositiveSpans: []histogram.Span{{Offset: 0, Length: 1}}, PositiveBuckets: []float64{float64(id)},
	}
	if id >= 4 {
		hh.Schema = histogram.CustomBucketsSchema
		hh.CustomValues = []float64{1, 2}
	}
	return hh
}

func idOf(sum float64, count float64) string {
	if math.Float64bits(sum) == staleBits {
		return "0"
	}
	if sum == math.Trunc(sum) && sum >= 1 && sum <= 5 && count == sum {
		return strconv.Itoa(int(sum))
	}
	return fmt.Sprintf("?%x/%v", math.Float64bits(sum), count)
}

func errClass(err error) string {
	switch {
	case err == nil:
		return "ok"
	case errors.Is(err, storage.ErrOutOfBounds):
		return "oob"
	case errors.Is(err, storage.ErrTooOldSample):
		return "tooold"
	case errors.Is(err, storage.ErrOutOfOrderSample):
		return "ooo"
	case errors.Is(err, storage.ErrDuplicateSampleForTimestamp):
		return "dup"
	default:
		return "err:" + strings.ReplaceAll(strings.ReplaceAll(err.Error(), " ", "_"), "\t", "_")
	}
}

// slot is one appender handle (v1 or v2) together with the v2 per-append option.
type slot struct {
	ver  string
	app1 storage.Appender
	app2 storage.AppenderV2
	rej  bool
}

func (s *slot) open() bool { return s.app1 != nil || s.app2 != nil }

const nSlots = 3

type env struct {
	dir   string
	db    *tsdb.DB
	slots [nSlots]slot
	*slot // the slot the current op addresses
	ctx   context.Context
	cfgOK bool
}

func (e *env) anyOpen() bool {
	for i := range e.slots {
		if e.slots[i].open() {
			return true
		}
	}
	return false
}

func (e *env) close() {
	for i := range e.slots {
		if e.slots[i].app1 != nil {
			_ = e.slots[i].app1.Rollback()
		}
		if e.slots[i].app2 != nil {
			_ = e.slots[i].app2.Rollback()
		}
	}
	if e.db != nil {
		_ = e.db.Close()
	}
	if e.dir != "" {
		_ = os.RemoveAll(e.dir)
	}
}

func lsetOf(s string) labels.Labels { return labels.FromStrings("__name__", "m", "s", s) }

func renderSeries(q storage.Querier, s string) ([]int64, []string, error) {
	ms := []*labels.Matcher{labels.MustNewMatcher(labels.MatchEqual, "s", s)}
	ss := q.Select(context.Background(), false, nil, ms...)
	var ts []int64
	var vs []string
	for ss.Next() {
		it := ss.At().Iterator(nil)
		for vt := it.Next(); vt != chunkenc.ValNone; vt = it.Next() {
			switch vt {
			case chunkenc.ValFloat:
				t, v := it.At()
				ts = append(ts, t)
				vs = append(vs, fmt.Sprintf("F:%016x", math.Float64bits(v)))
			case chunkenc.ValHistogram:
				t, hh := it.AtHistogram(nil)
				ts = append(ts, t)
				vs = append(vs, "H:"+idOf(hh.Sum, float64(hh.Count)))
			case chunkenc.ValFloatHistogram:
				t, hh := it.AtFloatHistogram(nil)
				ts = append(ts, t)
				vs = append(vs, "G:"+idOf(hh.Sum, hh.Count))
			}
		}
		if it.Err() != nil {
			return nil, nil, it.Err()
		}
	}
	return ts, vs, ss.Err()
}

func (e *env) query(s string) string {
	head := e.db.Head()
	qi, err := tsdb.NewBlockQuerier(tsdb.NewRangeHead(head, math.MinInt64, math.MaxInt64), math.MinInt64, math.MaxInt64)
	if err != nil {
		return "err:" + err.Error()
	}
	defer qi.Close()
	its, ivs, err := renderSeries(qi, s)
	if err != nil {
		return "err:io"
	}
	qa, err := e.db.Querier(math.MinInt64, math.MaxInt64)
	if err != nil {
		return "err:q"
	}
	defer qa.Close()
	ats, avs, err := renderSeries(qa, s)
	if err != nil {
		return "err:all"
	}
	inIO := map[int64]bool{}
	var a, b []string
	for i, t := range its {
		inIO[t] = true
		a = append(a, fmt.Sprintf("%d:%s", t, ivs[i]))
	}
	for i, t := range ats {
		if inIO[t] {
			b = append(b, fmt.Sprintf("%d:*", t))
		} else {
			b = append(b, fmt.Sprintf("%d:%s", t, avs[i]))
		}
	}
	j := func(x []string) string {
		if len(x) == 0 {
			return "-"
		}
		return strings.Join(x, ",")
	}
	return "io=" + j(a) + " all=" + j(b)
}

func (e *env) step(c *h.Ctx, op string) string {
	f := strings.Fields(op)
	if len(f) == 0 {
		return "bad-op"
	}
	e.slot = &e.slots[0]
	if f[0] == "@1" || f[0] == "@2" {
		e.slot = &e.slots[int(f[0][1]-'0')]
		f = f[1:]
		if len(f) == 0 {
			return "bad-op"
		}
		switch f[0] {
		case "app", "opt", "f", "h", "fh", "commit", "rollback":
		default:
			return "bad-op"
		}
		c.Count("slot:" + f[0])
	}
	if f[0] == "cfg" {
		if e.cfgOK || len(f) != 4 {
			return "bad-op"
		}
		w, _ := strconv.ParseInt(f[1], 10, 64)
		cr, _ := strconv.ParseInt(f[2], 10, 64)
		capMax, _ := strconv.ParseInt(f[3], 10, 64)
		dir, err := os.MkdirTemp(tmpRoot(), "admit")
		if err != nil {
			panic(err)
		}
		e.dir = dir
		opts := tsdb.DefaultOptions()
		opts.MinBlockDuration = cr
		opts.MaxBlockDuration = cr
		opts.OutOfOrderTimeWindow = w
		opts.OutOfOrderCapMax = capMax
		opts.RetentionDuration = 0
		opts.NoLockfile = true
		opts.WALSegmentSize = 128 * 1024
		db, err := tsdb.Open(dir, promslog.NewNopLogger(), nil, opts, nil)
		if err != nil {
			panic(err)
		}
		db.DisableCompactions()
		e.db = db
		e.cfgOK = true
		return "ok"
	}
	if !e.cfgOK {
		return "bad-op"
	}
	head := e.db.Head()
	switch f[0] {
	case "trunc":
		if len(f) != 2 {
			return "bad-op"
		}
		m, _ := strconv.ParseInt(f[1], 10, 64)
		if head.MinTime() != math.MaxInt64 || e.anyOpen() {
			return "skip"
		}
		if err := head.Truncate(m); err != nil {
			return "err:" + err.Error()
		}
		return "ok"
	case "win":
		mv, ok := head.AppendableMinValidTime()
		if !ok {
			return "uninit"
		}
		return fmt.Sprintf("%d %d", mv, head.MaxTime())
	case "app":
		if len(f) != 2 || (f[1] != "v1" && f[1] != "v2") {
			return "bad-op"
		}
		if e.open() {
			return "busy"
		}
		e.ver = f[1]
		e.rej = false
		out := "lazy"
		if mv, ok := head.AppendableMinValidTime(); ok {
			out = fmt.Sprintf("ok %d %d", mv, head.MaxTime())
		}
		if e.ver == "v1" {
			e.app1 = head.Appender(e.ctx)
		} else {
			e.app2 = head.AppenderV2(e.ctx)
		}
		return out
	case "opt":
		if len(f) != 2 {
			return "bad-op"
		}
		if e.app1 == nil && e.app2 == nil {
			return "noapp"
		}
		on := f[1] == "1"
		if e.app1 != nil {
			e.app1.SetOptions(&storage.AppendOptions{DiscardOutOfOrder: on})
		} else {
			e.rej = on
		}
		return "ok"
	case "f", "h", "fh":
		if len(f) != 4 {
			return "bad-op"
		}
		if e.app1 == nil && e.app2 == nil {
			return "noapp"
		}
		t, _ := strconv.ParseInt(f[2], 10, 64)
		ls := lsetOf(f[1])
		var err error
		var v float64
		var hh *histogram.Histogram
		var fh *histogram.FloatHistogram
		switch f[0] {
		case "f":
			bits, perr := strconv.ParseUint(f[3], 16, 64)
			if perr != nil {
				return "bad-op"
			}
			v = math.Float64frombits(bits)
		case "h":
			id, _ := strconv.Atoi(f[3])
			hh = mkHist(id)
		case "fh":
			id, _ := strconv.Atoi(f[3])
			fh = mkFHist(id)
		}
		if e.app1 != nil {
			if f[0] == "f" {
				_, err = e.app1.Append(0, ls, t, v)
			} else {
				_, err = e.app1.AppendHistogram(0, ls, t, hh, fh)
			}
		} else {
			_, err = e.app2.Append(0, ls, 0, t, v, hh, fh, storage.AOptions{RejectOutOfOrder: e.rej})
		}
		cls := errClass(err)
		c.Count("append:" + f[0] + ":" + strings.SplitN(cls, ":", 2)[0])
		return cls
	case "commit", "rollback":
		if e.app1 == nil && e.app2 == nil {
			return "noapp"
		}
		var err error
		switch {
		case e.app1 != nil && f[0] == "commit":
			err = e.app1.Commit()
		case e.app1 != nil:
			err = e.app1.Rollback()
		case f[0] == "commit":
			err = e.app2.Commit()
		default:
			err = e.app2.Rollback()
		}
		e.app1, e.app2 = nil, nil
		if err != nil {
			return "err:" + strings.ReplaceAll(err.Error(), " ", "_")
		}
		return "ok"
	case "q":
		if len(f) != 2 {
			return "bad-op"
		}
		return e.query(f[1])
	}
	return "bad-op"
}

func tmpRoot() string {
	if st, err := os.Stat("/dev/shm"); err == nil && st.IsDir() {
		return "/dev/shm"
	}
	return ""
}

func runCase(c *h.Ctx, ops []string) {
	e := &env{ctx: context.Background()}
	defer e.close()
	for _, op := range ops {
		var out string
		if p, v := h.Try(func() { out = e.step(c, op) }); p {
			out = "panic:" + strings.ReplaceAll(fmt.Sprint(v), " ", "_")
			if len(out) > 120 {
				out = out[:120]
			}
			out = strings.ReplaceAll(strings.ReplaceAll(out, "\n", "_"), "\t", "_")
		}
		c.Op(op, out)
	}
}

// ---------------------------------------------------------------- generators

const (
	bitsOne = "3ff0000000000000"
	bitsTwo = "4000000000000000"
)

var staleHex = fmt.Sprintf("%016x", staleBits)

type smp struct {
	kind string // f|h|fh
	val  string
}

func (s smp) op(series string, t int64) string { return fmt.Sprintf("%s %s %d %s", s.kind, series, t, s.val) }

// Stream 1: the decision table. One case per (appender version, reject option, chunkRange/2, OOO window,
// previous newest sample of the series); inside, one series (= one cell) per (incoming sample, timestamp).
func tableCases(c *h.Ctx) {
	prevs := []smp{{"", ""}, {"f", bitsOne}, {"f", staleHex}, {"h", "1"}, {"h", "0"}, {"fh", "1"}, {"fh", "0"}, {"h", "4"}}
	incoming := []smp{{"f", bitsOne}, {"f", bitsTwo}, {"f", staleHex}, {"h", "1"}, {"h", "2"}, {"h", "0"}, {"h", "4"}, {"fh", "1"}, {"fh", "2"}, {"fh", "0"}}
	halfs := []int64{5, 15}
	wins := []int64{0, 3, 12, 20}
	const headMaxt = int64(1000)
	id := 0
	for _, ver := range []string{"v1", "v2"} {
		for _, rej := range []string{"0", "1"} {
			for _, half := range halfs {
				for _, w := range wins {
					for _, prev := range prevs {
						for _, maxT := range []int64{990, 1000} {
							if prev.kind == "" && maxT != 990 {
								continue
							}
							id++
							if c.Tier != "thorough" && (id+int(c.Seed))%3 != 0 {
								// quick tier: a seed-dependent third of the table
								continue
							}
							minValid := headMaxt - half
							thr := headMaxt - w
							tset := map[int64]bool{}
							for _, b := range []int64{maxT, minValid, thr, headMaxt} {
								for d := int64(-1); d <= 1; d++ {
									tset[b+d] = true
								}
							}
							var tsLow, tsHigh []int64
							for t := int64(970); t <= 1002; t++ {
								if tset[t] {
									if t > headMaxt {
										tsHigh = append(tsHigh, t)
									} else {
										tsLow = append(tsLow, t)
									}
								}
							}
							ops := []string{fmt.Sprintf("cfg %d %d 30", w, 2*half)}
							// set-up transaction: every cell series gets its previous sample; aux fixes headMaxt.
							ops = append(ops, "app v1")
							n := 0
							type cell struct {
								s  string
								t  int64
								in smp
							}
							var cells []cell
							for _, pass := range [][]int64{tsLow, tsHigh} {
								for _, t := range pass {
									for _, in := range incoming {
										s := fmt.Sprintf("c%d", n)
										n++
										cells = append(cells, cell{s, t, in})
									}
								}
							}
							if prev.kind != "" {
								for _, cl := range cells {
									ops = append(ops, prev.op(cl.s, maxT))
								}
								ops = append(ops, "commit", "app v2")
							}
							ops = append(ops, fmt.Sprintf("f aux %d %s", headMaxt, bitsOne), "commit")
							for _, cl := range cells {
								ops = append(ops, "app "+ver)
								if rej == "1" {
									ops = append(ops, "opt 1")
								}
								ops = append(ops, cl.in.op(cl.s, cl.t), "commit", "q "+cl.s)
							}
							ops = append(ops, "win")
							c.Case(fmt.Sprintf("tab%d", id))
							c.NonTrivial(strings.Join(ops, ";"))
							c.Count("stream:table")
							c.Stats["table:cells"] += len(cells)
							runCase(c, ops)
						}
					}
				}
			}
		}
	}
}

func randCase(c *h.Ctx, r *h.Rng, i int) {
	floatPool := []string{bitsOne, bitsOne, bitsTwo, "0000000000000000", "8000000000000000", staleHex, staleHex, "7ff8000000000001", "7ff0000000000001"}
	half := h.Pick(r, []int64{5, 10, 10, 50, 1000000})
	w := h.Pick(r, []int64{0, 0, 3, 8, 12, 30, 100})
	capMax := int64(30)
	ops := []string{fmt.Sprintf("cfg %d %d %d", w, 2*half, capMax)}
	base := int64(1000)
	if r.Chance(10) {
		base = h.Pick(r, []int64{0, -1000, 5})
	}
	if r.Chance(20) {
		ops = append(ops, fmt.Sprintf("trunc %d", base+r.Range(-8, 8)))
	}
	nser := 1 + r.Intn(3)
	ntx := 1 + r.Intn(5)
	front := base // moving "now"
	sticky := make([]string, nser)
	for k := range sticky {
		sticky[k] = h.Pick(r, []string{"f", "f", "h", "fh"})
	}
	for tx := 0; tx < ntx; tx++ {
		ver := "v1"
		if r.Bool() {
			ver = "v2"
		}
		ops = append(ops, "app "+ver)
		if r.Chance(20) {
			ops = append(ops, "opt 1")
		}
		ns := 1 + r.Intn(8)
		if r.Chance(8) {
			ns = 0
		}
		var lastOp string
		for k := 0; k < ns; k++ {
			if r.Chance(8) {
				ops = append(ops, fmt.Sprintf("opt %d", r.Intn(2)))
			}
			if lastOp != "" && r.Chance(12) {
				ops = append(ops, lastOp) // identical re-append inside the transaction
				continue
			}
			si := r.Intn(nser)
			s := fmt.Sprintf("s%d", si)
			var t int64
			switch x := r.Intn(100); {
			case x < 45:
				t = front + r.Range(0, 3)
			case x < 75:
				t = front - r.Range(0, 6)
			case x < 90:
				t = front - r.Range(0, 2*half+4)
			default:
				t = front - w + r.Range(-2, 2)
			}
			kind := sticky[si]
			if r.Chance(25) {
				kind = h.Pick(r, []string{"f", "h", "fh"})
				if r.Chance(50) {
					sticky[si] = kind
				}
			}
			var val string
			switch kind {
			case "f":
				val = h.Pick(r, floatPool)
			default:
				val = h.Pick(r, []string{"0", "0", "1", "1", "2", "3", "4", "5"})
			}
			lastOp = fmt.Sprintf("%s %s %d %s", kind, s, t, val)
			ops = append(ops, lastOp)
			if t > front && r.Chance(70) {
				front = t
			}
		}
		if r.Chance(82) {
			ops = append(ops, "commit")
		} else {
			ops = append(ops, "rollback")
		}
		for k := 0; k < nser; k++ {
			ops = append(ops, fmt.Sprintf("q s%d", k))
		}
		if r.Chance(30) {
			ops = append(ops, "win")
		}
	}
	c.Case(fmt.Sprintf("r%d", i))
	c.NonTrivial(strings.Join(ops, ";"))
	c.Count("stream:random")
	c.Count(fmt.Sprintf("cfg:oooWin=%d", w))
	runCase(c, ops)
}

// ---------------------------------------------------------------- overlapping appenders

func pfx(slot int, op string) string {
	if slot == 0 {
		return op
	}
	return fmt.Sprintf("@%d %s", slot, op)
}

// Stream 3 (directed): appender X (slot 0) is overtaken by appender Y (slot 1).
//
// Set-up: every cell series holds <kind>:1 at t=1000 (= head max time); chunkRange/2 = 50.
// X is created (snapshot minValid 950, headMaxt 1000), appends the phase-A cells, then Y is created, writes
// t=1000+d to `aux` (other series) or to every cell series (the series' newest in-order sample moves as
// well) and commits (or rolls back); X appends the phase-B cells and commits.  d is smaller than the OOO
// window, between the OOO window and chunkRange/2, or larger than both.  Cell timestamps sit at -1/0/+1 of:
// X's OOO bound, the live OOO bound, X's minValid, the live minValid, the series' old and new maxT.
func overlapDirected(c *h.Ctx) {
	const base = int64(1000)
	const half = int64(50)
	vals := map[string][2]string{"f": {bitsOne, bitsTwo}, "h": {"1", "2"}, "fh": {"1", "2"}}
	id, combo := 0, 0
	for _, kind := range []string{"f", "h", "fh"} {
		for _, verX := range []string{"v1", "v2"} {
			for _, verY := range []string{"v1", "v2"} {
				for _, w := range []int64{30, 0} {
					for _, d := range []int64{10, 45, 200} {
						combo++
						for mi, mode := range []string{"other", "same", "other-rollback", "same-third"} {
							id++
							if c.Tier != "thorough" && mode != "other" && (combo+mi+int(c.Seed))%2 != 0 {
								// quick tier: every "other series" case, a seed-dependent half of the rest
								continue
							}
							prev := smp{kind, vals[kind][0]}
							in := smp{kind, vals[kind][1]}
							tset := map[int64]bool{}
							for _, b := range []int64{base - w, base + d - w, base - half, base + d - half, base, base + d} {
								for dd := int64(-1); dd <= 1; dd++ {
									tset[b+dd] = true
								}
							}
							var ts []int64
							for t := base - 2*half; t <= base+d+2; t++ {
								if tset[t] {
									ts = append(ts, t)
								}
							}
							type cell struct {
								s     string
								t     int64
								in    smp
								after bool
							}
							var cells []cell
							n := 0
							for _, after := range []bool{false, true} {
								for _, t := range ts {
									cells = append(cells, cell{fmt.Sprintf("c%d", n), t, in, after})
									n++
									if t == base || t == base+d {
										// the value the series' newest sample has / will have: no-op instead of duplicate
										cells = append(cells, cell{fmt.Sprintf("c%d", n), t, prev, after})
										n++
									}
								}
							}
							ops := []string{fmt.Sprintf("cfg %d %d 30", w, 2*half), "app v1"}
							for _, cl := range cells {
								ops = append(ops, prev.op(cl.s, base))
							}
							ops = append(ops, "commit", "win", "app "+verX)
							for _, cl := range cells {
								if !cl.after {
									ops = append(ops, cl.in.op(cl.s, cl.t))
								}
							}
							ops = append(ops, "@1 app "+verY)
							switch mode {
							case "other", "other-rollback":
								ops = append(ops, "@1 "+prev.op("aux", base+d))
							default:
								for _, cl := range cells {
									ops = append(ops, "@1 "+prev.op(cl.s, base+d))
								}
							}
							if mode == "other-rollback" {
								ops = append(ops, "@1 rollback", "win")
							} else {
								ops = append(ops, "@1 commit", "win")
							}
							if mode == "same-third" {
								// a third appender, created after Y's commit, moves the head once more and stays open
								// across X's commit
								ops = append(ops, "@2 app "+verX, "@2 "+prev.op("aux", base+2*d+100))
							}
							for _, cl := range cells {
								if cl.after {
									ops = append(ops, cl.in.op(cl.s, cl.t))
								}
							}
							ops = append(ops, "commit", "win")
							for _, cl := range cells {
								ops = append(ops, "q "+cl.s)
							}
							if mode == "same-third" {
								ops = append(ops, "@2 commit", "win", "q aux")
							}
							c.Case(fmt.Sprintf("ovd%d", id))
							c.NonTrivial(strings.Join(ops, ";"))
							c.Count("stream:overlap-directed")
							c.Count("overlap-directed:" + mode)
							runCase(c, ops)
						}
					}
				}
			}
		}
	}
	// the literal scenario of seeded/C02-a (OOO window 10 min) and lazily created appenders
	for _, kind := range []string{"f", "h", "fh"} {
		v := vals[kind]
		for _, ver := range []string{"v1", "v2"} {
			id++
			ops := []string{
				"cfg 600000 7200000 30", "app " + ver, fmt.Sprintf("%s a 1000000 %s", kind, v[0]), "commit",
				"app " + ver, "@1 app " + ver, fmt.Sprintf("@1 %s b 2000000 %s", kind, v[0]), "@1 commit", "win",
				fmt.Sprintf("%s a 900000 %s", kind, v[1]), "commit", "q a", "q b", "win",
			}
			c.Case(fmt.Sprintf("ovd%d", id))
			c.NonTrivial(strings.Join(ops, ";"))
			c.Count("stream:overlap-directed")
			runCase(c, ops)
			for _, first := range []string{"x", "y", "y-commit", "y-rollback"} {
				id++
				// both appenders are handed out by an uninitialised head: the snapshot is taken at the first append
				ops := []string{"cfg 30 100 30", "app " + ver, "@1 app " + ver}
				xs := []string{
					fmt.Sprintf("%s a0 1990 %s", kind, v[1]), fmt.Sprintf("%s a1 1950 %s", kind, v[1]),
					fmt.Sprintf("%s a2 1949 %s", kind, v[1]), fmt.Sprintf("%s a3 1920 %s", kind, v[1]),
					fmt.Sprintf("%s a4 1919 %s", kind, v[1]), fmt.Sprintf("%s b 1995 %s", kind, v[1]),
					fmt.Sprintf("%s b 2045 %s", kind, v[1]),
				}
				ys := []string{fmt.Sprintf("@1 %s b 2000 %s", kind, v[0]), fmt.Sprintf("@1 %s b 2050 %s", kind, v[0])}
				switch first {
				case "x":
					ops = append(ops, xs[0], "win")
					ops = append(ops, ys...)
					ops = append(ops, "@1 commit", "win")
					ops = append(ops, xs[1:]...)
				case "y":
					ops = append(ops, ys[0], "win")
					ops = append(ops, xs...)
					ops = append(ops, ys[1], "@1 commit", "win")
				case "y-commit":
					ops = append(ops, ys...)
					ops = append(ops, "@1 commit", "win")
					ops = append(ops, xs...)
				default:
					ops = append(ops, ys...)
					ops = append(ops, "@1 rollback", "win")
					ops = append(ops, xs...)
				}
				ops = append(ops, "commit", "win", "q a0", "q a1", "q a2", "q a3", "q a4", "q b")
				c.Case(fmt.Sprintf("ovd%d", id))
				c.NonTrivial(strings.Join(ops, ";"))
				c.Count("stream:overlap-directed")
				c.Count("overlap-directed:lazy-" + first)
				runCase(c, ops)
			}
		}
	}
}

// Stream 4 (random): up to three appenders open at once; every step opens a slot, appends to a series,
// changes the option, or commits / rolls back a slot — so appends and commits of one appender are separated
// by commits of the others, to the same and to other series.
func randOverlapCase(c *h.Ctx, r *h.Rng, i int) {
	floatPool := []string{bitsOne, bitsOne, bitsTwo, "0000000000000000", staleHex, "7ff8000000000001"}
	half := h.Pick(r, []int64{5, 10, 10, 50, 1000000})
	w := h.Pick(r, []int64{0, 0, 3, 8, 12, 30, 100})
	ops := []string{fmt.Sprintf("cfg %d %d 30", w, 2*half)}
	base := int64(1000)
	if r.Chance(15) {
		ops = append(ops, fmt.Sprintf("trunc %d", base+r.Range(-8, 8)))
	}
	nser := 1 + r.Intn(3)
	nslot := 2 + r.Intn(2)
	front := base
	sticky := make([]string, nser)
	for k := range sticky {
		sticky[k] = h.Pick(r, []string{"f", "f", "h", "fh"})
	}
	if r.Chance(70) {
		// an initialised head to start with (otherwise the first appenders are lazy)
		ops = append(ops, "app v2")
		for k := 0; k < nser; k++ {
			val := "1"
			if sticky[k] == "f" {
				val = bitsOne
			}
			ops = append(ops, fmt.Sprintf("%s s%d %d %s", sticky[k], k, base-r.Range(0, 3), val))
		}
		ops = append(ops, "commit")
	}
	open := make([]bool, nslot)
	queryAll := func() {
		for k := 0; k < nser; k++ {
			ops = append(ops, fmt.Sprintf("q s%d", k))
		}
		if r.Chance(40) {
			ops = append(ops, "win")
		}
	}
	steps := 6 + r.Intn(28)
	maxOpen := 0
	for st := 0; st < steps; st++ {
		sl := r.Intn(nslot)
		if !open[sl] {
			ver := "v1"
			if r.Bool() {
				ver = "v2"
			}
			ops = append(ops, pfx(sl, "app "+ver))
			if r.Chance(15) {
				ops = append(ops, pfx(sl, "opt 1"))
			}
			open[sl] = true
			no := 0
			for _, o := range open {
				if o {
					no++
				}
			}
			if no > maxOpen {
				maxOpen = no
			}
			continue
		}
		switch x := r.Intn(100); {
		case x < 68:
			si := r.Intn(nser)
			var t int64
			switch y := r.Intn(100); {
			case y < 40:
				t = front + r.Range(0, 3)
			case y < 70:
				t = front - r.Range(0, 6)
			case y < 85:
				t = front - r.Range(0, 2*half+4)
			default:
				t = front - w + r.Range(-3, 3)
			}
			kind := sticky[si]
			if r.Chance(20) {
				kind = h.Pick(r, []string{"f", "h", "fh"})
				if r.Chance(50) {
					sticky[si] = kind
				}
			}
			var val string
			if kind == "f" {
				val = h.Pick(r, floatPool)
			} else {
				val = h.Pick(r, []string{"0", "1", "1", "2", "3", "4", "5"})
			}
			ops = append(ops, pfx(sl, fmt.Sprintf("%s s%d %d %s", kind, si, t, val)))
			if t > front && r.Chance(75) {
				front = t
				if r.Chance(25) {
					front += r.Range(1, w+half/2+2) // let the head run ahead of the open appenders' snapshots
					if front > base+100000 {
						front = base + 100000
					}
				}
			}
		case x < 73:
			ops = append(ops, pfx(sl, fmt.Sprintf("opt %d", r.Intn(2))))
		case x < 93:
			ops = append(ops, pfx(sl, "commit"))
			open[sl] = false
			queryAll()
		default:
			ops = append(ops, pfx(sl, "rollback"))
			open[sl] = false
			queryAll()
		}
	}
	for sl := range open {
		if open[sl] {
			if r.Chance(85) {
				ops = append(ops, pfx(sl, "commit"))
			} else {
				ops = append(ops, pfx(sl, "rollback"))
			}
			queryAll()
		}
	}
	c.Case(fmt.Sprintf("ov%d", i))
	c.NonTrivial(strings.Join(ops, ";"))
	c.Count("stream:overlap-random")
	c.Count(fmt.Sprintf("overlap:max-open=%d", maxOpen))
	runCase(c, ops)
}

func main() {
	c := h.Init()
	defer c.Finish()
	if c.Replay != "" {
		for _, cs := range c.ReplayCases() {
			c.Case(strings.TrimPrefix(cs[0], "case "))
			runCase(c, cs[1:])
		}
		return
	}
	overlapDirected(c) // deterministic, draws nothing from the PRNG: the streams below are unchanged
	tableCases(c)
	for i := 0; i < c.N; i++ {
		randCase(c, c.Rng, i)
	}
	nov := c.N
	if c.Tier == "thorough" {
		nov = c.N / 4 // keeps the thorough tier inside its time budget
	}
	for i := 0; i < nov; i++ {
		randOverlapCase(c, c.Rng, i)
	}
}
