// Suite admit (C02): append admission / commit decisions of the real tsdb head
// (headAppender / headAppenderV2, memSeries.appendable*, commitFloats/Histograms/FloatHistograms,
// OOOChunk.Insert) observed through the public API: error class of every Append, Commit result,
// the appendable window, and what is queryable afterwards (in-order querier + merged querier).
//
// ops (one case = one fresh tsdb.DB, compactions disabled):
//
//	cfg <oooWin> <chunkRange> <oooCapMax>      must be first                    -> ok
//	trunc <mint>          Head.Truncate on a not yet initialised head           -> ok | skip
//	app <v1|v2>           new appender (window snapshot unless head is fresh)   -> lazy | ok <minValid> <headMaxt>
//	opt <0|1>             v1: SetOptions(DiscardOutOfOrder); v2: AOptions.RejectOutOfOrder from now on -> ok
//	f <series> <t> <bits16hex>   append float                                   -> ok|oob|tooold|ooo|dup|err:..|noapp
//	h <series> <t> <id>          append integer histogram (id 0 = staleness marker, 1-3 exponential, 4-5 custom buckets)
//	fh <series> <t> <id>         append float histogram
//	commit | rollback                                                            -> ok | err:.. | noapp
//	q <series>            -> io=<t:K:v,..|-> all=<t:K:v|t:*,..|->   (all: `*` where the timestamp is also in io)
//	win                   -> uninit | <minValid> <headMaxt>
package main

import (
	"context"
	"errors"
	"fmt"
	"math"
	"os"
	"strconv"
	"strings"

	"github.com/prometheus/common/promslog"

	"github.com/prometheus/prometheus/model/histogram"
	"github.com/prometheus/prometheus/model/labels"
	"github.com/prometheus/prometheus/model/value"
	"github.com/prometheus/prometheus/storage"
	"github.com/prometheus/prometheus/tsdb"
	"github.com/prometheus/prometheus/tsdb/chunkenc"

	"verif/harness/h"
)

const staleBits = uint64(value.StaleNaN)

func mkHist(id int) *histogram.Histogram {
	if id == 0 {
		return &histogram.Histogram{Sum: math.Float64frombits(staleBits)}
	}
	hh := &histogram.Histogram{
		Schema: 0, Count: uint64(id), Sum: float64(id),
		PositiveSpans: []histogram.Span{{Offset: 0, Length: 1}}, PositiveBuckets: []int64{int64(id)},
	}
	if id >= 4 {
		hh.Schema = histogram.CustomBucketsSchema
		hh.CustomValues = []float64{1, 2}
	}
	return hh
}

func mkFHist(id int) *histogram.FloatHistogram {
	if id == 0 {
		return &histogram.FloatHistogram{Sum: math.Float64frombits(staleBits)}
	}
	hh := &histogram.FloatHistogram{
		Schema: 0, Count: float64(id), Sum: float64(id),
		PositiveSpans: []histogram.Span{{Offset: 0, Length: 1}}, PositiveBuckets: []float64{float64(id)},
	}
	if id >= 4 {
		hh.Schema = histogram.CustomBucketsSchema
		hh.CustomValues = []float64{1, 2}
	}
	return hh
}

func idOf(sum float64, count float64) string {
	if math.Float64bits(sum) == staleBits {
		return "0"
	}
	if sum == math.Trunc(sum) && sum >= 1 && sum <= 5 && count == sum {
		return strconv.Itoa(int(sum))
	}
	return fmt.Sprintf("?%x/%v", math.Float64bits(sum), count)
}

func errClass(err error) string {
	switch {
	case err == nil:
		return "ok"
	case errors.Is(err, storage.ErrOutOfBounds):
		return "oob"
	case errors.Is(err, storage.ErrTooOldSample):
		return "tooold"
	case errors.Is(err, storage.ErrOutOfOrderSample):
		return "ooo"
	case errors.Is(err, storage.ErrDuplicateSampleForTimestamp):
		return "dup"
	default:
		return "err:" + strings.ReplaceAll(strings.ReplaceAll(err.Error(), " ", "_"), "\t", "_")
	}
}

type env struct {
	dir   string
	db    *tsdb.DB
	ver   string
	app1  storage.Appender
	app2  storage.AppenderV2
	rej   bool
	ctx   context.Context
	cfgOK bool
}

func (e *env) close() {
	if e.app1 != nil {
		_ = e.app1.Rollback()
	}
	if e.app2 != nil {
		_ = e.app2.Rollback()
	}
	if e.db != nil {
		_ = e.db.Close()
	}
	if e.dir != "" {
		_ = os.RemoveAll(e.dir)
	}
}

func lsetOf(s string) labels.Labels { return labels.FromStrings("__name__", "m", "s", s) }

func renderSeries(q storage.Querier, s string) ([]int64, []string, error) {
	ms := []*labels.Matcher{labels.MustNewMatcher(labels.MatchEqual, "s", s)}
	ss := q.Select(context.Background(), false, nil, ms...)
	var ts []int64
	var vs []string
	for ss.Next() {
		it := ss.At().Iterator(nil)
		for vt := it.Next(); vt != chunkenc.ValNone; vt = it.Next() {
			switch vt {
			case chunkenc.ValFloat:
				t, v := it.At()
				ts = append(ts, t)
				vs = append(vs, fmt.Sprintf("F:%016x", math.Float64bits(v)))
			case chunkenc.ValHistogram:
				t, hh := it.AtHistogram(nil)
				ts = append(ts, t)
				vs = append(vs, "H:"+idOf(hh.Sum, float64(hh.Count)))
			case chunkenc.ValFloatHistogram:
				t, hh := it.AtFloatHistogram(nil)
				ts = append(ts, t)
				vs = append(vs, "G:"+idOf(hh.Sum, hh.Count))
			}
		}
		if it.Err() != nil {
			return nil, nil, it.Err()
		}
	}
	return ts, vs, ss.Err()
}

func (e *env) query(s string) string {
	head := e.db.Head()
	qi, err := tsdb.NewBlockQuerier(tsdb.NewRangeHead(head, math.MinInt64, math.MaxInt64), math.MinInt64, math.MaxInt64)
	if err != nil {
		return "err:" + err.Error()
	}
	defer qi.Close()
	its, ivs, err := renderSeries(qi, s)
	if err != nil {
		return "err:io"
	}
	qa, err := e.db.Querier(math.MinInt64, math.MaxInt64)
	if err != nil {
		return "err:q"
	}
	defer qa.Close()
	ats, avs, err := renderSeries(qa, s)
	if err != nil {
		return "err:all"
	}
	inIO := map[int64]bool{}
	var a, b []string
	for i, t := range its {
		inIO[t] = true
		a = append(a, fmt.Sprintf("%d:%s", t, ivs[i]))
	}
	for i, t := range ats {
		if inIO[t] {
			b = append(b, fmt.Sprintf("%d:*", t))
		} else {
			b = append(b, fmt.Sprintf("%d:%s", t, avs[i]))
		}
	}
	j := func(x []string) string {
		if len(x) == 0 {
			return "-"
		}
		return strings.Join(x, ",")
	}
	return "io=" + j(a) + " all=" + j(b)
}

func (e *env) step(c *h.Ctx, op string) string {
	f := strings.Fields(op)
	if len(f) == 0 {
		return "bad-op"
	}
	if f[0] == "cfg" {
		if e.cfgOK || len(f) != 4 {
			return "bad-op"
		}
		w, _ := strconv.ParseInt(f[1], 10, 64)
		cr, _ := strconv.ParseInt(f[2], 10, 64)
		capMax, _ := strconv.ParseInt(f[3], 10, 64)
		dir, err := os.MkdirTemp(tmpRoot(), "admit")
		if err != nil {
			panic(err)
		}
		e.dir = dir
		opts := tsdb.DefaultOptions()
		opts.MinBlockDuration = cr
		opts.MaxBlockDuration = cr
		opts.OutOfOrderTimeWindow = w
		opts.OutOfOrderCapMax = capMax
		opts.RetentionDuration = 0
		opts.NoLockfile = true
		opts.WALSegmentSize = 128 * 1024
		db, err := tsdb.Open(dir, promslog.NewNopLogger(), nil, opts, nil)
		if err != nil {
			panic(err)
		}
		db.DisableCompactions()
		e.db = db
		e.cfgOK = true
		return "ok"
	}
	if !e.cfgOK {
		return "bad-op"
	}
	head := e.db.Head()
	switch f[0] {
	case "trunc":
		if len(f) != 2 {
			return "bad-op"
		}
		m, _ := strconv.ParseInt(f[1], 10, 64)
		if head.MinTime() != math.MaxInt64 || e.app1 != nil || e.app2 != nil {
			return "skip"
		}
		if err := head.Truncate(m); err != nil {
			return "err:" + err.Error()
		}
		return "ok"
	case "win":
		mv, ok := head.AppendableMinValidTime()
		if !ok {
			return "uninit"
		}
		return fmt.Sprintf("%d %d", mv, head.MaxTime())
	case "app":
		if len(f) != 2 || (f[1] != "v1" && f[1] != "v2") {
			return "bad-op"
		}
		if e.app1 != nil || e.app2 != nil {
			return "busy"
		}
		e.ver = f[1]
		e.rej = false
		out := "lazy"
		if mv, ok := head.AppendableMinValidTime(); ok {
			out = fmt.Sprintf("ok %d %d", mv, head.MaxTime())
		}
		if e.ver == "v1" {
			e.app1 = head.Appender(e.ctx)
		} else {
			e.app2 = head.AppenderV2(e.ctx)
		}
		return out
	case "opt":
		if len(f) != 2 {
			return "bad-op"
		}
		if e.app1 == nil && e.app2 == nil {
			return "noapp"
		}
		on := f[1] == "1"
		if e.app1 != nil {
			e.app1.SetOptions(&storage.AppendOptions{DiscardOutOfOrder: on})
		} else {
			e.rej = on
		}
		return "ok"
	case "f", "h", "fh":
		if len(f) != 4 {
			return "bad-op"
		}
		if e.app1 == nil && e.app2 == nil {
			return "noapp"
		}
		t, _ := strconv.ParseInt(f[2], 10, 64)
		ls := lsetOf(f[1])
		var err error
		var v float64
		var hh *histogram.Histogram
		var fh *histogram.FloatHistogram
		switch f[0] {
		case "f":
			bits, perr := strconv.ParseUint(f[3], 16, 64)
			if perr != nil {
				return "bad-op"
			}
			v = math.Float64frombits(bits)
		case "h":
			id, _ := strconv.Atoi(f[3])
			hh = mkHist(id)
		case "fh":
			id, _ := strconv.Atoi(f[3])
			fh = mkFHist(id)
		}
		if e.app1 != nil {
			if f[0] == "f" {
				_, err = e.app1.Append(0, ls, t, v)
			} else {
				_, err = e.app1.AppendHistogram(0, ls, t, hh, fh)
			}
		} else {
			_, err = e.app2.Append(0, ls, 0, t, v, hh, fh, storage.AOptions{RejectOutOfOrder: e.rej})
		}
		cls := errClass(err)
		c.Count("append:" + f[0] + ":" + strings.SplitN(cls, ":", 2)[0])
		return cls
	case "commit", "rollback":
		if e.app1 == nil && e.app2 == nil {
			return "noapp"
		}
		var err error
		switch {
		case e.app1 != nil && f[0] == "commit":
			err = e.app1.Commit()
		case e.app1 != nil:
			err = e.app1.Rollback()
		case f[0] == "commit":
			err = e.app2.Commit()
		default:
			err = e.app2.Rollback()
		}
		e.app1, e.app2 = nil, nil
		if err != nil {
			return "err:" + strings.ReplaceAll(err.Error(), " ", "_")
		}
		return "ok"
	case "q":
		if len(f) != 2 {
			return "bad-op"
		}
		return e.query(f[1])
	}
	return "bad-op"
}

func tmpRoot() string {
	if st, err := os.Stat("/dev/shm"); err == nil && st.IsDir() {
		return "/dev/shm"
	}
	return ""
}

func runCase(c *h.Ctx, ops []string) {
	e := &env{ctx: context.Background()}
	defer e.close()
	for _, op := range ops {
		var out string
		if p, v := h.Try(func() { out = e.step(c, op) }); p {
			out = "panic:" + strings.ReplaceAll(fmt.Sprint(v), " ", "_")
			if len(out) > 120 {
				out = out[:120]
			}
			out = strings.ReplaceAll(strings.ReplaceAll(out, "\n", "_"), "\t", "_")
		}
		c.Op(op, out)
	}
}

// ---------------------------------------------------------------- generators

const (
	bitsOne = "3ff0000000000000"
	bitsTwo = "4000000000000000"
)

var staleHex = fmt.Sprintf("%016x", staleBits)

type smp struct {
	kind string // f|h|fh
	val  string
}

func (s smp) op(series string, t int64) string { return fmt.Sprintf("%s %s %d %s", s.kind, series, t, s.val) }

// Stream 1: the decision table. One case per (appender version, reject option, chunkRange/2, OOO window,
// previous newest sample of the series); inside, one series (= one cell) per (incoming sample, timestamp).
func tableCases(c *h.Ctx) {
	prevs := []smp{{"", ""}, {"f", bitsOne}, {"f", staleHex}, {"h", "1"}, {"h", "0"}, {"fh", "1"}, {"fh", "0"}, {"h", "4"}}
	incoming := []smp{{"f", bitsOne}, {"f", bitsTwo}, {"f", staleHex}, {"h", "1"}, {"h", "2"}, {"h", "0"}, {"h", "4"}, {"fh", "1"}, {"fh", "2"}, {"fh", "0"}}
	halfs := []int64{5, 15}
	wins := []int64{0, 3, 12, 20}
	const headMaxt = int64(1000)
	id := 0
	for _, ver := range []string{"v1", "v2"} {
		for _, rej := range []string{"0", "1"} {
			for _, half := range halfs {
				for _, w := range wins {
					for _, prev := range prevs {
						for _, maxT := range []int64{990, 1000} {
							if prev.kind == "" && maxT != 990 {
								continue
							}
							id++
							if c.Tier != "thorough" && (id+int(c.Seed))%3 != 0 {
								// quick tier: a seed-dependent third of the table
								continue
							}
							minValid := headMaxt - half
							thr := headMaxt - w
							tset := map[int64]bool{}
							for _, b := range []int64{maxT, minValid, thr, headMaxt} {
								for d := int64(-1); d <= 1; d++ {
									tset[b+d] = true
								}
							}
							var tsLow, tsHigh []int64
							for t := int64(970); t <= 1002; t++ {
								if tset[t] {
									if t > headMaxt {
										tsHigh = append(tsHigh, t)
									} else {
										tsLow = append(tsLow, t)
									}
								}
							}
							ops := []string{fmt.Sprintf("cfg %d %d 30", w, 2*half)}
							// set-up transaction: every cell series gets its previous sample; aux fixes headMaxt.
							ops = append(ops, "app v1")
							n := 0
							type cell struct {
								s  string
								t  int64
								in smp
							}
							var cells []cell
							for _, pass := range [][]int64{tsLow, tsHigh} {
								for _, t := range pass {
									for _, in := range incoming {
										s := fmt.Sprintf("c%d", n)
										n++
										cells = append(cells, cell{s, t, in})
									}
								}
							}
							if prev.kind != "" {
								for _, cl := range cells {
									ops = append(ops, prev.op(cl.s, maxT))
								}
								ops = append(ops, "commit", "app v2")
							}
							ops = append(ops, fmt.Sprintf("f aux %d %s", headMaxt, bitsOne), "commit")
							for _, cl := range cells {
								ops = append(ops, "app "+ver)
								if rej == "1" {
									ops = append(ops, "opt 1")
								}
								ops = append(ops, cl.in.op(cl.s, cl.t), "commit", "q "+cl.s)
							}
							ops = append(ops, "win")
							c.Case(fmt.Sprintf("tab%d", id))
							c.NonTrivial(strings.Join(ops, ";"))
							c.Count("stream:table")
							c.Stats["table:cells"] += len(cells)
							runCase(c, ops)
						}
					}
				}
			}
		}
	}
}

func randCase(c *h.Ctx, r *h.Rng, i int) {
	floatPool := []string{bitsOne, bitsOne, bitsTwo, "0000000000000000", "8000000000000000", staleHex, staleHex, "7ff8000000000001", "7ff0000000000001"}
	half := h.Pick(r, []int64{5, 10, 10, 50, 1000000})
	w := h.Pick(r, []int64{0, 0, 3, 8, 12, 30, 100})
	capMax := int64(30)
	ops := []string{fmt.Sprintf("cfg %d %d %d", w, 2*half, capMax)}
	base := int64(1000)
	if r.Chance(10) {
		base = h.Pick(r, []int64{0, -1000, 5})
	}
	if r.Chance(20) {
		ops = append(ops, fmt.Sprintf("trunc %d", base+r.Range(-8, 8)))
	}
	nser := 1 + r.Intn(3)
	ntx := 1 + r.Intn(5)
	front := base // moving "now"
	sticky := make([]string, nser)
	for k := range sticky {
		sticky[k] = h.Pick(r, []string{"f", "f", "h", "fh"})
	}
	for tx := 0; tx < ntx; tx++ {
		ver := "v1"
		if r.Bool() {
			ver = "v2"
		}
		ops = append(ops, "app "+ver)
		if r.Chance(20) {
			ops = append(ops, "opt 1")
		}
		ns := 1 + r.Intn(8)
		if r.Chance(8) {
			ns = 0
		}
		var lastOp string
		for k := 0; k < ns; k++ {
			if r.Chance(8) {
				ops = append(ops, fmt.Sprintf("opt %d", r.Intn(2)))
			}
			if lastOp != "" && r.Chance(12) {
				ops = append(ops, lastOp) // identical re-append inside the transaction
				continue
			}
			si := r.Intn(nser)
			s := fmt.Sprintf("s%d", si)
			var t int64
			switch x := r.Intn(100); {
			case x < 45:
				t = front + r.Range(0, 3)
			case x < 75:
				t = front - r.Range(0, 6)
			case x < 90:
				t = front - r.Range(0, 2*half+4)
			default:
				t = front - w + r.Range(-2, 2)
			}
			kind := sticky[si]
			if r.Chance(25) {
				kind = h.Pick(r, []string{"f", "h", "fh"})
				if r.Chance(50) {
					sticky[si] = kind
				}
			}
			var val string
			switch kind {
			case "f":
				val = h.Pick(r, floatPool)
			default:
				val = h.Pick(r, []string{"0", "0", "1", "1", "2", "3", "4", "5"})
			}
			lastOp = fmt.Sprintf("%s %s %d %s", kind, s, t, val)
			ops = append(ops, lastOp)
			if t > front && r.Chance(70) {
				front = t
			}
		}
		if r.Chance(82) {
			ops = append(ops, "commit")
		} else {
			ops = append(ops, "rollback")
		}
		for k := 0; k < nser; k++ {
			ops = append(ops, fmt.Sprintf("q s%d", k))
		}
		if r.Chance(30) {
			ops = append(ops, "win")
		}
	}
	c.Case(fmt.Sprintf("r%d", i))
	c.NonTrivial(strings.Join(ops, ";"))
	c.Count("stream:random")
	c.Count(fmt.Sprintf("cfg:oooWin=%d", w))
	runCase(c, ops)
}

func main() {
	c := h.Init()
	defer c.Finish()
	if c.Replay != "" {
		for _, cs := range c.ReplayCases() {
			c.Case(strings.TrimPrefix(cs[0], "case "))
			runCase(c, cs[1:])
		}
		return
	}
	tableCases(c)
	for i := 0; i < c.N; i++ {
		randCase(c, c.Rng, i)
	}
}
