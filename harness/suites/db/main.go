// Suite db (C01 and the storage family): single-threaded histories on a real tsdb.DB.
//
// ops:  cfg <chunkRange> <oooWindow> <samplesPerChunk>      (first line of a case; opens the DB)
//       begin | app <s> <t> <vbits-hex> | commit | rollback
//       del <mint> <maxt> <s|*> | compact | cleantomb | reopen
//       q <mint> <maxt>      -> s<i>=t:v,t:v;…   (series with ≥1 sample, by index; "-" if none)
//       win                  -> <headMinT> <headMaxT> <appendableMinValid|uninit>
package main

import (
	"context"
	"errors"
	"fmt"
	"math"
	"os"
	"sort"
	"strconv"
	"strings"

	"github.com/prometheus/common/promslog"

	"github.com/prometheus/prometheus/model/labels"
	"github.com/prometheus/prometheus/storage"
	"github.com/prometheus/prometheus/tsdb"
	"github.com/prometheus/prometheus/tsdb/chunkenc"

	"verif/harness/h"
)

type env struct {
	dir  string
	db   *tsdb.DB
	opts *tsdb.Options
	app  storage.Appender
}

func (e *env) open() error {
	db, err := tsdb.Open(e.dir, promslog.NewNopLogger(), nil, e.opts, nil)
	if err != nil {
		return err
	}
	db.DisableCompactions()
	e.db = db
	return nil
}

func (e *env) close() {
	if e.app != nil {
		e.app.Rollback()
		e.app = nil
	}
	if e.db != nil {
		e.db.Close()
		e.db = nil
	}
}

func lbls(s int) labels.Labels {
	return labels.FromStrings("__name__", "m", "s", strconv.Itoa(s))
}

func errClass(err error) string {
	switch {
	case err == nil:
		return "ok"
	case errors.Is(err, storage.ErrOutOfBounds):
		return "oob"
	case errors.Is(err, storage.ErrOutOfOrderSample):
		return "ooo"
	case errors.Is(err, storage.ErrTooOldSample):
		return "tooold"
	case errors.Is(err, storage.ErrDuplicateSampleForTimestamp):
		return "dup"
	default:
		return "err:" + strings.ReplaceAll(strings.ReplaceAll(err.Error(), " ", "_"), "\t", "_")
	}
}

func (e *env) query(mint, maxt int64) string {
	q, err := e.db.Querier(mint, maxt)
	if err != nil {
		return "err:" + strings.ReplaceAll(err.Error(), " ", "_")
	}
	defer q.Close()
	ss := q.Select(context.Background(), true, nil, labels.MustNewMatcher(labels.MatchEqual, "__name__", "m"))
	type ser struct {
		idx int
		s   string
	}
	var out []ser
	for ss.Next() {
		s := ss.At()
		idx, _ := strconv.Atoi(s.Labels().Get("s"))
		it := s.Iterator(nil)
		var parts []string
		for vt := it.Next(); vt != chunkenc.ValNone; vt = it.Next() {
			if vt != chunkenc.ValFloat {
				parts = append(parts, "nonfloat")
				continue
			}
			t, v := it.At()
			parts = append(parts, fmt.Sprintf("%d:%016x", t, math.Float64bits(v)))
		}
		if it.Err() != nil {
			return "err:" + strings.ReplaceAll(it.Err().Error(), " ", "_")
		}
		if len(parts) > 0 {
			out = append(out, ser{idx, fmt.Sprintf("s%d=%s", idx, strings.Join(parts, ","))})
		}
	}
	if ss.Err() != nil {
		return "err:" + strings.ReplaceAll(ss.Err().Error(), " ", "_")
	}
	sort.SliceStable(out, func(i, j int) bool { return out[i].idx < out[j].idx })
	if len(out) == 0 {
		return "-"
	}
	parts := make([]string, len(out))
	for i, s := range out {
		parts[i] = s.s
	}
	return strings.Join(parts, ";")
}

func runCase(c *h.Ctx, ops []string) {
	dir := h.TempDir("vdb")
	e := &env{dir: dir}
	defer os.RemoveAll(dir)
	defer e.close()
	for _, op := range ops {
		f := strings.Fields(op)
		out := "bad-op"
		opSuffix := ""
		if f[0] == "reopen" {
			op = "reopen" // a replayed line may carry an oracle suffix: recompute it
		}
		p, pv := h.Try(func() {
			switch f[0] {
			case "cfg":
				cr, _ := strconv.ParseInt(f[1], 10, 64)
				ooo, _ := strconv.ParseInt(f[2], 10, 64)
				spc, _ := strconv.Atoi(f[3])
				o := tsdb.DefaultOptions()
				o.MinBlockDuration, o.MaxBlockDuration = cr, cr
				o.OutOfOrderTimeWindow = ooo
				o.SamplesPerChunk = spc
				o.RetentionDuration = 0
				o.WALSegmentSize = 128 * 1024
				e.opts = o
				if err := e.open(); err != nil {
					out = "err:" + strings.ReplaceAll(err.Error(), " ", "_")
				} else {
					out = "ok"
				}
			case "begin":
				if e.app != nil {
					e.app.Rollback()
				}
				e.app = e.db.Appender(context.Background())
				out = "ok"
			case "app":
				s, _ := strconv.Atoi(f[1])
				t, _ := strconv.ParseInt(f[2], 10, 64)
				vb, _ := strconv.ParseUint(f[3], 16, 64)
				if e.app == nil {
					out = "noapp"
					return
				}
				_, err := e.app.Append(0, lbls(s), t, math.Float64frombits(vb))
				out = errClass(err)
				c.Count("app:" + out)
			case "commit":
				if e.app == nil {
					out = "noapp"
					return
				}
				out = errClass(e.app.Commit())
				e.app = nil
			case "rollback":
				if e.app == nil {
					out = "noapp"
					return
				}
				out = errClass(e.app.Rollback())
				e.app = nil
			case "del":
				mint, _ := strconv.ParseInt(f[1], 10, 64)
				maxt, _ := strconv.ParseInt(f[2], 10, 64)
				m := labels.MustNewMatcher(labels.MatchEqual, "__name__", "m")
				if f[3] != "*" {
					m = labels.MustNewMatcher(labels.MatchEqual, "s", f[3])
				}
				out = errClass(e.db.Delete(context.Background(), mint, maxt, m))
			case "compact":
				out = errClass(e.db.Compact(context.Background()))
				c.Count(fmt.Sprintf("blocks-after-compact:%d", len(e.db.Blocks())))
			case "cleantomb":
				out = errClass(e.db.CleanTombstones())
			case "reopen":
				if e.app != nil {
					e.app.Rollback()
					e.app = nil
				}
				if err := e.db.Close(); err != nil {
					out = "err:close:" + strings.ReplaceAll(err.Error(), " ", "_")
					return
				}
				e.db = nil
				if err := e.open(); err != nil {
					out = "err:" + strings.ReplaceAll(err.Error(), " ", "_")
				} else {
					out = "ok"
					// oracle for the model: per series the max time of the m-mapped chunks found at start-up
					mm := tsdb.VerifMmMaxTimes(e.db.Head())
					var parts []string
					for k, v := range mm {
						if i := strings.Index(k, `s="`); i >= 0 {
							idx := k[i+3:]
							idx = idx[:strings.IndexByte(idx, '"')]
							parts = append(parts, fmt.Sprintf("%s:%d", idx, v))
						}
					}
					sort.Strings(parts)
					if len(parts) == 0 {
						opSuffix = " -"
					} else {
						opSuffix = " " + strings.Join(parts, ",")
					}
				}
			case "q":
				mint, _ := strconv.ParseInt(f[1], 10, 64)
				maxt, _ := strconv.ParseInt(f[2], 10, 64)
				out = e.query(mint, maxt)
				if out != "-" {
					c.Count("q:nonempty")
				} else {
					c.Count("q:empty")
				}
			case "win":
				hd := e.db.Head()
				mv, ok := hd.AppendableMinValidTime()
				if ok {
					out = fmt.Sprintf("%d %d %d", hd.MinTime(), hd.MaxTime(), mv)
				} else {
					out = fmt.Sprintf("%d %d uninit", hd.MinTime(), hd.MaxTime())
				}
			}
		})
		if p {
			out = "panic:" + strings.ReplaceAll(fmt.Sprint(pv), " ", "_")
			c.Count("panic")
		}
		c.Count("op:" + f[0])
		c.Op(op+opSuffix, out)
	}
}

// ---------------------------------------------------------------- generator

func gen(c *h.Ctx, r *h.Rng, maxOps int) []string {
	crs := []int64{100, 1000, 7200000}
	cr := h.PickI64(r, crs)
	ooo := int64(0) // stage A: in-order only
	spc := []int{120, 4, 2}[r.Intn(3)]
	ops := []string{fmt.Sprintf("cfg %d %d %d", cr, ooo, spc)}
	nser := 1 + r.Intn(4)
	// time cursor: histories mostly advance, with jitter around chunk/block boundaries
	base := []int64{0, -cr * 3, cr * 10, -7, 1}[r.Intn(5)]
	cur := base
	step := []int64{1, cr / 10, cr / 3, cr - 1, cr, cr + 1}[r.Intn(6)]
	if step <= 0 {
		step = 1
	}
	// Directed prefix (30 % of the histories): the situations that random walks rarely line up —
	// a deletion straddling a block boundary followed by head compaction and a restart (the head
	// tombstone of the upper part must survive WAL replay), and deletions whose range ends exactly
	// at, or one off, the head's min / max time.
	if r.Chance(30) {
		t0 := cur
		b := (t0/cr + 1) * cr // first block boundary above t0
		ops = append(ops, "begin")
		for _, t := range []int64{t0, b - 1, b, b + 1, b + cr/2, b + cr, b + 2*cr + 1, b + 3*cr} {
			for si := 0; si < nser; si++ {
				if r.Chance(70) {
					ops = append(ops, fmt.Sprintf("app %d %d %016x", si, t, math.Float64bits(float64(r.Intn(1000)))))
				}
			}
		}
		ops = append(ops, "commit")
		switch r.Intn(4) {
		case 0:
			ops = append(ops, fmt.Sprintf("del %d %d %d", b-r.Range(0, 2), b+r.Range(0, 2)+cr/2, r.Intn(nser)))
		case 1:
			ops = append(ops, fmt.Sprintf("del %d %d *", b-cr/3, b+1))
		case 2:
			ops = append(ops, fmt.Sprintf("del %d %d %d", t0-r.Range(0, 5), t0+r.Range(-1, 1), r.Intn(nser))) // ends at head min ±1
		default:
			ops = append(ops, fmt.Sprintf("del %d %d %d", b+3*cr+r.Range(-1, 1), b+4*cr, r.Intn(nser))) // starts at head max ±1
		}
		ops = append(ops, fmt.Sprintf("q %d %d", int64(math.MinInt64), int64(math.MaxInt64)), "compact",
			fmt.Sprintf("q %d %d", int64(math.MinInt64), int64(math.MaxInt64)))
		if r.Chance(70) {
			ops = append(ops, "reopen", fmt.Sprintf("q %d %d", int64(math.MinInt64), int64(math.MaxInt64)))
		}
		cur = b + 3*cr
		c.Count("gen:directed-prefix")
	}
	inTx := false
	// A sample that is accepted at Append but dropped at Commit (older than an earlier sample of the
	// same transaction) still reaches the WAL; whether it lowers Head.MinTime() after a restart
	// depends on which chunks were m-mapped. Histories with restarts therefore keep per-series
	// timestamps non-decreasing inside one transaction; histories without restarts do not.
	withReopen := r.Chance(70)
	txLast := map[int]int64{}
	lastApp := map[int][2]uint64{} // newest (t, v) generated per series
	n := 8 + r.Intn(maxOps)
	pickT := func() int64 {
		switch r.Intn(10) {
		case 0:
			return cur - r.Range(0, 3)*step // older or equal
		case 1:
			return cur
		case 2:
			// block boundary neighbourhood
			b := (cur/cr + 1) * cr
			return b + r.Range(-1, 1)
		default:
			cur += r.Range(0, 2) * step
			if r.Chance(30) {
				cur += r.Range(0, 3)
			}
			return cur
		}
	}
	pickRange := func() (int64, int64) {
		switch r.Intn(6) {
		case 0:
			return math.MinInt64, math.MaxInt64
		case 1:
			a := base + r.Range(-2, 2)*cr
			return a, a + r.Range(0, 4)*cr + r.Range(-1, 1)
		case 2:
			return cur - r.Range(0, 5)*step, cur + r.Range(0, 2)
		case 3:
			a := cur - r.Range(0, 8)*step
			return a, a
		default:
			a := base + r.Range(0, (cur-base)+1)
			b := a + r.Range(0, (cur-base)/2+2)
			return a, b
		}
	}
	vals := []uint64{0x3ff0000000000000, 0x4000000000000000, 0x4008000000000000, 0x7ff8000000000001, 0x7ff0000000000002 /* stale NaN */, 0x8000000000000000, 0x7ff0000000000000, 0}
	for len(ops) < n {
		k := r.Intn(100)
		if c.Extra["delheavy"] == "1" && r.Chance(25) {
			k = 50 + r.Intn(8) // deletion-heavy histories (used by the C20 check)
		}
		switch {
		case k < 50:
			if !inTx {
				ops = append(ops, "begin")
				inTx = true
				txLast = map[int]int64{}
			}
			cnt := 1 + r.Intn(5)
			for i := 0; i < cnt; i++ {
				v := vals[r.Intn(len(vals))]
				if r.Chance(50) {
					v = math.Float64bits(float64(r.Intn(1000)))
				}
				si, t := r.Intn(nser), pickT()
				if withReopen {
					if last, ok := txLast[si]; ok && t < last {
						t = last
					}
					txLast[si] = t
				}
				ops = append(ops, fmt.Sprintf("app %d %d %016x", si, t, v))
				lastApp[si] = [2]uint64{uint64(t), v}
			}
			if r.Chance(60) {
				if r.Chance(85) {
					ops = append(ops, "commit")
				} else {
					ops = append(ops, "rollback")
				}
				inTx = false
			}
		case k < 58:
			if inTx {
				ops = append(ops, "commit")
				inTx = false
			}
			a, b := pickRange()
			tgt := "*"
			if r.Chance(70) {
				tgt = strconv.Itoa(r.Intn(nser))
			}
			ops = append(ops, fmt.Sprintf("del %d %d %s", a, b, tgt))
			// Delete the newest sample of a series and re-submit the identical sample (finding F28).
			if r.Chance(15) && len(lastApp) > 0 {
				si := r.Intn(nser)
				if la, ok := lastApp[si]; ok {
					t := int64(la[0])
					ops = append(ops, fmt.Sprintf("del %d %d %d", t-r.Range(0, 2), t+r.Range(0, 2), si),
						"begin", fmt.Sprintf("app %d %d %016x", si, t, la[1]), "commit",
						fmt.Sprintf("q %d %d", t-5, t+5))
					c.Count("gen:identical-reappend-after-delete")
				}
			}
		case k < 66:
			if inTx {
				ops = append(ops, "commit")
				inTx = false
			}
			ops = append(ops, "compact")
		case k < 70:
			if inTx {
				ops = append(ops, "commit")
				inTx = false
			}
			ops = append(ops, "cleantomb")
		case k < 76:
			if !withReopen {
				continue
			}
			if inTx {
				ops = append(ops, []string{"commit", "rollback"}[r.Intn(2)])
				inTx = false
			}
			ops = append(ops, "reopen")
		case k < 80:
			ops = append(ops, "win")
		default:
			a, b := pickRange()
			ops = append(ops, fmt.Sprintf("q %d %d", a, b))
		}
	}
	if inTx {
		ops = append(ops, "commit")
	}
	ops = append(ops, fmt.Sprintf("q %d %d", int64(math.MinInt64), int64(math.MaxInt64)), "win")
	return ops
}

func main() {
	c := h.Init()
	defer c.Finish()
	if c.Replay != "" {
		for _, cs := range c.ReplayCases() {
			c.Case(strings.TrimPrefix(cs[0], "case "))
			runCase(c, cs[1:])
		}
		return
	}
	maxOps := 40
	if c.Tier == "thorough" {
		maxOps = 120
	}
	for i := 0; i < c.N; i++ {
		r := c.Rng.Fork()
		ops := gen(c, r, maxOps)
		c.Case(fmt.Sprintf("h%d", i))
		c.NonTrivial(strings.Join(ops, ";"))
		runCase(c, ops)
	}
}
