// Suite select (C16): generated series sets loaded into a real tsdb.Head and into a real persisted
// block, queried through tsdb.NewBlockQuerier: Select / LabelValues / LabelNames with generated matcher
// lists (equality, negation on absent labels, regexes of a small executable class incl. empty-matching
// ones, duplicates on one name), with and without limits.
package main

import (
	"context"
	"fmt"
	"math"
	"os"
	"path/filepath"
	"sort"
	"strconv"
	"strings"

	"github.com/prometheus/common/promslog"

	"github.com/prometheus/prometheus/model/labels"
	"github.com/prometheus/prometheus/storage"
	"github.com/prometheus/prometheus/tsdb"

	"verif/harness/h"
)

var (
	names   = []string{"a", "b", "c", "n"}
	values  = []string{"x", "y", "xy", "z1", "x2"}
	tmpRoot string
	tmpSeq  int
)

type mspec struct {
	name, typ, value string
}

type env struct {
	lsets  []labels.Labels
	byKey  map[string]int
	mk     func(mint, maxt int64) (storage.Querier, error)
	closer []func()
}

func (e *env) close() {
	for i := len(e.closer) - 1; i >= 0; i-- {
		e.closer[i]()
	}
	e.closer = nil
	e.mk = nil
}

func fatal(err error) {
	if err != nil {
		fmt.Fprintln(os.Stderr, "harness error:", err)
		os.Exit(3)
	}
}

func newDir() string {
	tmpSeq++
	d := filepath.Join(tmpRoot, strconv.Itoa(tmpSeq))
	fatal(os.MkdirAll(d, 0o755))
	return d
}

type loadErr struct{ err error }

func must(err error) {
	if err != nil {
		panic(loadErr{err})
	}
}

// load builds the real storage object and a querier over it. A failure of the storage code while
// loading (e.g. the block writer rejecting the series) is returned, not fatal: it is an output class.
func load(kind string, lsets []labels.Labels, times []int64) (e *env, err error) {
	defer func() {
		if r := recover(); r != nil {
			le, ok := r.(loadErr)
			if !ok {
				panic(r)
			}
			e.close()
			e, err = nil, le.err
		}
	}()
	e = &env{lsets: lsets, byKey: map[string]int{}}
	for i, l := range lsets {
		e.byKey[l.String()] = i
	}
	ctx := context.Background()
	logger := promslog.NewNopLogger()
	dir := newDir()
	e.closer = append(e.closer, func() { os.RemoveAll(dir) })
	switch kind {
	case "head":
		opts := tsdb.DefaultHeadOptions()
		opts.ChunkDirRoot = dir
		opts.ChunkRange = 1000 * 3600 * 2
		opts.StripeSize = 32
		opts.ChunkWriteQueueSize = 0
		head, err := tsdb.NewHead(nil, logger, nil, nil, opts, nil)
		must(err)
		e.closer = append(e.closer, func() { head.Close() })
		app := head.Appender(ctx)
		for i, l := range lsets {
			_, err := app.Append(0, l, times[i], float64(i))
			must(err)
		}
		must(app.Commit())
		e.mk = func(mint, maxt int64) (storage.Querier, error) {
			return tsdb.NewBlockQuerier(tsdb.NewRangeHead(head, mint, maxt), mint, maxt)
		}
	case "block":
		w, err := tsdb.NewBlockWriter(logger, dir, 1000*3600*2)
		must(err)
		app := w.Appender(ctx)
		for i, l := range lsets {
			_, err := app.Append(0, l, times[i], float64(i))
			must(err)
		}
		must(app.Commit())
		id, err := w.Flush(ctx)
		must(err)
		must(w.Close())
		b, err := tsdb.OpenBlock(logger, filepath.Join(dir, id.String()), nil, nil)
		must(err)
		e.closer = append(e.closer, func() { b.Close() })
		e.mk = func(mint, maxt int64) (storage.Querier, error) { return tsdb.NewBlockQuerier(b, mint, maxt) }
	default:
		must(fmt.Errorf("unknown kind %q", kind))
	}
	return e, nil
}

func typeOf(t string) labels.MatchType {
	switch t {
	case "eq":
		return labels.MatchEqual
	case "ne":
		return labels.MatchNotEqual
	case "re":
		return labels.MatchRegexp
	}
	return labels.MatchNotRegexp
}

// build constructs the real matchers and the op tokens (incl. the SetMatches() the code will use).
func build(ms []mspec) ([]*labels.Matcher, []string, error) {
	var out []*labels.Matcher
	var toks []string
	for _, s := range ms {
		m, err := labels.NewMatcher(typeOf(s.typ), s.name, s.value)
		if err != nil {
			return nil, nil, err
		}
		sm := "-"
		if set := m.SetMatches(); len(set) > 0 {
			parts := make([]string, len(set))
			for i, v := range set {
				if v == "" {
					parts[i] = "e"
				} else {
					parts[i] = h.HexS(v)
				}
			}
			sm = strings.Join(parts, ",")
		}
		out = append(out, m)
		toks = append(toks, fmt.Sprintf("m:%s:%s:%s:%s", h.HexS(s.name), s.typ, h.HexS(s.value), sm))
	}
	return out, toks, nil
}

func joinOrDash(xs []string) string {
	if len(xs) == 0 {
		return "ok -"
	}
	return "ok " + strings.Join(xs, ",")
}

func errClass(err error) string {
	if strings.Contains(err.Error(), "unexpected all postings") {
		return "err unexpected-all-postings"
	}
	return "err other"
}

func doSelect(c *h.Ctx, e *env, sorted bool, mint, maxt int64, ms []mspec) {
	matchers, toks, err := build(ms)
	srt := "0"
	if sorted {
		srt = "1"
	}
	op := strings.TrimSpace(fmt.Sprintf("select %s %d %d %s", srt, mint, maxt, strings.Join(toks, " ")))
	if err != nil {
		c.Op(op, "bad-regex")
		return
	}
	var out string
	if p, v := h.Try(func() {
		cp := append([]*labels.Matcher(nil), matchers...) // Select re-sorts the slice in place
		q, err := e.mk(mint, maxt)
		if err != nil {
			out = "err querier"
			return
		}
		defer q.Close()
		ss := q.Select(context.Background(), sorted, nil, cp...)
		var idx []string
		for ss.Next() {
			l := ss.At().Labels()
			i, ok := e.byKey[l.String()]
			if !ok {
				i = 9999
			}
			idx = append(idx, strconv.Itoa(i))
		}
		if ss.Err() != nil {
			out = errClass(ss.Err())
			return
		}
		out = joinOrDash(idx)
		c.Count(fmt.Sprintf("select:results:%s", bucket(len(idx))))
	}); p {
		out = fmt.Sprintf("panic %v", v)
		out = strings.ReplaceAll(strings.ReplaceAll(out, "\n", " "), "\t", " ")
	}
	c.Op(op, out)
}

func bucket(n int) string {
	switch {
	case n == 0:
		return "0"
	case n <= 3:
		return "1-3"
	case n <= 10:
		return "4-10"
	}
	return ">10"
}

func doLvals(c *h.Ctx, e *env, name string, limit int, mint, maxt int64, ms []mspec) {
	matchers, toks, err := build(ms)
	op := strings.TrimSpace(fmt.Sprintf("lvals %s %d %d %d %s", h.HexS(name), limit, mint, maxt, strings.Join(toks, " ")))
	if err != nil {
		c.Op(op, "bad-regex")
		return
	}
	var out string
	if p, v := h.Try(func() {
		cp := append([]*labels.Matcher(nil), matchers...)
		var hints *storage.LabelHints
		if limit > 0 {
			hints = &storage.LabelHints{Limit: limit}
		}
		q, err := e.mk(mint, maxt)
		if err != nil {
			out = "err querier"
			return
		}
		defer q.Close()
		vals, _, err := q.LabelValues(context.Background(), name, hints, cp...)
		if err != nil {
			out = errClass(err)
			return
		}
		out = joinOrDash(vals)
		c.Count(fmt.Sprintf("lvals:results:%s", bucket(len(vals))))
	}); p {
		out = strings.ReplaceAll(fmt.Sprintf("panic %v", v), "\n", " ")
	}
	c.Op(op, out)
}

func doLnames(c *h.Ctx, e *env, limit int, mint, maxt int64, ms []mspec) {
	matchers, toks, err := build(ms)
	op := strings.TrimSpace(fmt.Sprintf("lnames %d %d %d %s", limit, mint, maxt, strings.Join(toks, " ")))
	if err != nil {
		c.Op(op, "bad-regex")
		return
	}
	var out string
	if p, v := h.Try(func() {
		cp := append([]*labels.Matcher(nil), matchers...)
		var hints *storage.LabelHints
		if limit > 0 {
			hints = &storage.LabelHints{Limit: limit}
		}
		q, err := e.mk(mint, maxt)
		if err != nil {
			out = "err querier"
			return
		}
		defer q.Close()
		vals, _, err := q.LabelNames(context.Background(), hints, cp...)
		if err != nil {
			out = errClass(err)
			return
		}
		out = joinOrDash(vals)
		c.Count(fmt.Sprintf("lnames:results:%s", bucket(len(vals))))
	}); p {
		out = strings.ReplaceAll(fmt.Sprintf("panic %v", v), "\n", " ")
	}
	c.Op(op, out)
}

// ---- generators

func genSeries(r *h.Rng) []labels.Labels {
	n := 1 + r.Intn(40)
	if r.Chance(15) {
		n = 1 + r.Intn(4)
	}
	nvals := 2 + r.Intn(len(values)-1)
	pPresent := 35 + r.Intn(50)
	seen := map[string]bool{}
	var out []labels.Labels
	for tries := 0; len(out) < n && tries < 4*n; tries++ {
		b := labels.NewScratchBuilder(4)
		for _, nm := range names {
			if r.Chance(pPresent) {
				b.Add(nm, values[r.Intn(nvals)])
			}
		}
		b.Sort()
		l := b.Labels()
		if l.Len() == 0 || seen[l.String()] {
			continue
		}
		seen[l.String()] = true
		out = append(out, l)
	}
	if len(out) == 0 {
		out = append(out, labels.FromStrings("a", "x"))
	}
	return out
}

func genLit(r *h.Rng) string {
	if r.Chance(12) {
		return "q" // a value no series has
	}
	return values[r.Intn(len(values))]
}

// genRegex draws from the class the Lean side executes exactly.
func genRegex(r *h.Rng) string {
	switch r.Intn(16) {
	case 0:
		return ".*"
	case 1:
		return ".+"
	case 2:
		return ""
	case 3:
		return genLit(r)
	case 4:
		return genLit(r) + "|" + genLit(r)
	case 5:
		return genLit(r) + "|" + genLit(r) + "|" + genLit(r)
	case 6:
		return genLit(r) + "|" // matches empty, set matches with ""
	case 7:
		return "(" + genLit(r) + "|" + genLit(r) + ")?"
	case 8:
		return genLit(r)[:1] + ".*"
	case 9:
		return ".*" + genLit(r)[:1]
	case 10:
		return genLit(r)[:1] + ".+"
	case 11:
		return genLit(r) + "?"
	case 12:
		return "(" + genLit(r)[:1] + "|" + genLit(r)[:1] + ")" + "(y|2)?"
	case 13:
		return "|" + genLit(r)
	case 14:
		return ".*" + genLit(r)[:1] + ".*"
	default:
		return "(" + genLit(r) + "|.+" + genLit(r)[len(genLit(r))-1:] + ")"
	}
}

func genMatcher(r *h.Rng, favour string) mspec {
	nm := names[r.Intn(len(names))]
	if favour != "" && r.Chance(45) {
		nm = favour
	}
	if r.Chance(10) {
		nm = "zz" // a label no series has
	}
	switch r.Intn(10) {
	case 0, 1:
		v := genLit(r)
		if r.Chance(30) {
			v = ""
		}
		return mspec{nm, "eq", v}
	case 2, 3, 4:
		v := genLit(r)
		if r.Chance(30) {
			v = ""
		}
		return mspec{nm, "ne", v}
	case 5, 6, 7:
		return mspec{nm, "re", genRegex(r)}
	default:
		return mspec{nm, "nre", genRegex(r)}
	}
}

func genMatchers(r *h.Rng, min int) []mspec {
	n := min + r.Intn(3)
	if r.Chance(35) {
		n = 1
	}
	if n < min {
		n = min
	}
	if r.Chance(5) {
		n += 3
	}
	favour := ""
	if r.Chance(50) {
		favour = names[r.Intn(len(names))]
	}
	ms := make([]mspec, 0, n)
	for i := 0; i < n; i++ {
		ms = append(ms, genMatcher(r, favour))
	}
	return ms
}

var ranges = [][2]int64{{1000, 1000}, {1000, 2000}, {2000, 3000}, {3000, 9000}, {1001, 1999}, {4000, 5000}, {0, 999}, {2000, 2000}, {math.MinInt64, 1500}, {2500, math.MaxInt64}}

// genRange: mostly the full range, otherwise a window that cuts the three sample times 1000/2000/3000.
func genRange(c *h.Ctx, r *h.Rng) (int64, int64) {
	if r.Chance(55) {
		c.Count("range:full")
		return math.MinInt64, math.MaxInt64
	}
	c.Count("range:window")
	x := ranges[r.Intn(len(ranges))]
	return x[0], x[1]
}

func lsetTok(l labels.Labels) string {
	var parts []string
	l.Range(func(x labels.Label) { parts = append(parts, x.Name+"="+x.Value) })
	return strings.Join(parts, ",")
}

func parseLset(tok string) (labels.Labels, int64) {
	t := int64(1000)
	if i := strings.IndexByte(tok, '@'); i >= 0 {
		t, _ = strconv.ParseInt(tok[i+1:], 10, 64)
		tok = tok[:i]
	}
	var kv []string
	for _, p := range strings.Split(tok, ",") {
		x := strings.SplitN(p, "=", 2)
		if len(x) != 2 {
			fatal(fmt.Errorf("bad series token %q", tok))
		}
		kv = append(kv, x[0], x[1])
	}
	return labels.FromStrings(kv...), t
}

func parseMspecs(toks []string) []mspec {
	var ms []mspec
	for _, t := range toks {
		f := strings.Split(t, ":")
		if len(f) != 5 || f[0] != "m" {
			fatal(fmt.Errorf("bad matcher token %q", t))
		}
		ms = append(ms, mspec{string(h.UnHex(f[1])), f[2], string(h.UnHex(f[3]))})
	}
	return ms
}

func countMatchers(c *h.Ctx, ms []mspec) {
	perName := map[string]int{}
	for _, m := range ms {
		perName[m.name]++
		c.Count("matcher:type:" + m.typ)
		if m.name == "zz" {
			c.Count("matcher:absent-label")
		}
		if (m.typ == "re" || m.typ == "nre") && (m.value == ".*" || m.value == ".+" || m.value == "") {
			c.Count("matcher:special:" + m.typ + ":" + m.value)
		}
	}
	for _, k := range perName {
		if k > 1 {
			c.Count("matchers:duplicate-name")
			break
		}
	}
}

func replayCase(c *h.Ctx, lines []string) {
	var e *env
	defer func() {
		if e != nil {
			e.close()
		}
	}()
	for _, op := range lines {
		f := strings.Fields(op)
		if len(f) == 0 {
			continue
		}
		switch f[0] {
		case "load":
			if e != nil {
				e.close()
			}
			var lsets []labels.Labels
			var times []int64
			for _, t := range f[2:] {
				l, ts := parseLset(t)
				lsets = append(lsets, l)
				times = append(times, ts)
			}
			var err error
			e, err = load(f[1], lsets, times)
			if err != nil {
				c.Op(op, "err load")
				continue
			}
			c.Op(op, fmt.Sprintf("ok %d", len(lsets)))
		case "select":
			if e == nil {
				e, _ = load("head", nil, nil)
			}
			if len(f) < 4 {
				c.Op(op, "bad-op")
				continue
			}
			mint, _ := strconv.ParseInt(f[2], 10, 64)
			maxt, _ := strconv.ParseInt(f[3], 10, 64)
			doSelect(c, e, f[1] == "1", mint, maxt, parseMspecs(f[4:]))
		case "lvals":
			if e == nil {
				e, _ = load("head", nil, nil)
			}
			if len(f) < 5 {
				c.Op(op, "bad-op")
				continue
			}
			lim, _ := strconv.Atoi(f[2])
			mint, _ := strconv.ParseInt(f[3], 10, 64)
			maxt, _ := strconv.ParseInt(f[4], 10, 64)
			doLvals(c, e, string(h.UnHex(f[1])), lim, mint, maxt, parseMspecs(f[5:]))
		case "lnames":
			if e == nil {
				e, _ = load("head", nil, nil)
			}
			if len(f) < 4 {
				c.Op(op, "bad-op")
				continue
			}
			lim, _ := strconv.Atoi(f[1])
			mint, _ := strconv.ParseInt(f[2], 10, 64)
			maxt, _ := strconv.ParseInt(f[3], 10, 64)
			doLnames(c, e, lim, mint, maxt, parseMspecs(f[4:]))
		default:
			c.Op(op, "bad-op")
		}
	}
}

func main() {
	c := h.Init()
	defer c.Finish()
	var err error
	tmpRoot, err = os.MkdirTemp("", "verif-select-")
	fatal(err)
	defer os.RemoveAll(tmpRoot)
	if c.Replay != "" {
		for _, cs := range c.ReplayCases() {
			c.Case(strings.TrimPrefix(cs[0], "case "))
			replayCase(c, cs[1:])
		}
		return
	}
	r := c.Rng
	nq := 30
	for i := 0; i < c.N; i++ {
		kind := "head"
		if i%2 == 1 {
			kind = "block"
		}
		c.Case(fmt.Sprintf("%s%d", kind[:1], i))
		lsets := genSeries(r)
		toks := make([]string, len(lsets))
		times := make([]int64, len(lsets))
		allSame := r.Chance(30)
		for k, l := range lsets {
			times[k] = 1000 * int64(1+r.Intn(3))
			if allSame {
				times[k] = 2000
			}
			toks[k] = fmt.Sprintf("%s@%d", lsetTok(l), times[k])
		}
		e, err := load(kind, lsets, times)
		if err != nil {
			c.Op("load "+kind+" "+strings.Join(toks, " "), "err load")
			c.Count("load:error")
			continue
		}
		c.Op("load "+kind+" "+strings.Join(toks, " "), fmt.Sprintf("ok %d", len(lsets)))
		c.Count("load:" + kind)
		c.Count("load:series:" + bucket(len(lsets)))
		var key []string
		for k := 0; k < nq; k++ {
			switch x := r.Intn(10); {
			case x < 5:
				ms := genMatchers(r, 1)
				countMatchers(c, ms)
				c.Count("op:select")
				mint, maxt := genRange(c, r)
				doSelect(c, e, r.Chance(70), mint, maxt, ms)
			case x < 8:
				ms := genMatchers(r, 0)
				if r.Chance(15) {
					ms = nil
				}
				countMatchers(c, ms)
				lim := 0
				if r.Chance(50) {
					lim = 1 + r.Intn(4)
				}
				nm := names[r.Intn(len(names))]
				if r.Chance(5) {
					nm = "zz"
				}
				c.Count("op:lvals")
				if lim > 0 {
					c.Count("op:lvals:limited")
				}
				mint, maxt := genRange(c, r)
				doLvals(c, e, nm, lim, mint, maxt, ms)
			default:
				ms := genMatchers(r, 0)
				if r.Chance(15) {
					ms = nil
				}
				countMatchers(c, ms)
				lim := 0
				if r.Chance(50) {
					lim = 1 + r.Intn(4)
				}
				c.Count("op:lnames")
				if lim > 0 {
					c.Count("op:lnames:limited")
				}
				mint, maxt := genRange(c, r)
				doLnames(c, e, lim, mint, maxt, ms)
			}
		}
		sort.Strings(key)
		c.NonTrivial(fmt.Sprintf("%s|%s|%d", kind, strings.Join(toks, " "), i))
		e.close()
	}
}
