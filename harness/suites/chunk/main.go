// Suite chunk (C10): float chunks (classic XOR, XOR2 with start timestamps) return exactly what was appended.
// Every case is a list of self-contained op lines run against the real tsdb/chunkenc code in-process.
package main

import (
	"fmt"
	"math"
	"strconv"
	"strings"

	"github.com/prometheus/prometheus/tsdb/chunkenc"

	"verif/harness/h"
)

type state struct {
	enc   chunkenc.Encoding
	chunk chunkenc.Chunk
	app   chunkenc.Appender
	it    chunkenc.Iterator
	isST  bool
}

func showSample(st *state, it chunkenc.Iterator) string {
	t, v := it.At()
	if st.isST {
		return fmt.Sprintf("%d:%016x:%d", t, math.Float64bits(v), it.AtST())
	}
	return fmt.Sprintf("%d:%016x", t, math.Float64bits(v))
}

func encOf(name string) (chunkenc.Encoding, bool) {
	switch name {
	case "xor":
		return chunkenc.EncXOR, false
	case "xor2":
		return chunkenc.EncXOR2, true
	}
	panic("unknown encoding " + name)
}

func runCase(c *h.Ctx, ops []string) {
	st := &state{}
	for _, op := range ops {
		f := strings.Fields(op)
		out := "bad-op"
		switch f[0] {
		case "new":
			st.enc, st.isST = encOf(f[1])
			ch, err := chunkenc.NewEmptyChunk(st.enc)
			if err != nil {
				panic(err)
			}
			st.chunk = ch
			st.app, err = ch.Appender()
			if err != nil {
				panic(err)
			}
			st.it = nil
			out = "ok"
		case "app":
			var sT, t int64
			var vs string
			if len(f) == 4 { // app <st> <t> <v>
				sT, _ = strconv.ParseInt(f[1], 10, 64)
				t, _ = strconv.ParseInt(f[2], 10, 64)
				vs = f[3]
			} else {
				t, _ = strconv.ParseInt(f[1], 10, 64)
				vs = f[2]
			}
			vb, _ := strconv.ParseUint(vs, 16, 64)
			if p, _ := h.Try(func() { st.app.Append(sT, t, math.Float64frombits(vb)) }); p {
				out = "panic"
				c.Count("out:append-panic")
			} else {
				out = "ok"
			}
		case "bytes":
			out = h.Hex(st.chunk.Bytes())
		case "iter":
			it := st.chunk.Iterator(nil)
			var parts []string
			for it.Next() != chunkenc.ValNone {
				parts = append(parts, showSample(st, it))
			}
			status := "ok"
			if it.Err() != nil {
				status = "err"
				c.Count("out:iter-err")
			}
			l := "-"
			if len(parts) > 0 {
				l = strings.Join(parts, ",")
			}
			out = fmt.Sprintf("%s n=%d %s", status, len(parts), l)
		case "reopen":
			b := append([]byte{}, st.chunk.Bytes()...)
			ch, err := chunkenc.FromData(st.enc, b)
			if err != nil {
				out = "err"
				break
			}
			app, err := ch.Appender()
			if err != nil {
				out = "err"
				c.Count("out:reopen-err")
				break
			}
			st.chunk, st.app = ch, app
			out = "ok"
		case "it":
			st.it = st.chunk.Iterator(nil)
			out = "ok"
		case "next", "seek":
			if st.it == nil {
				break
			}
			var vt chunkenc.ValueType
			if f[0] == "next" {
				vt = st.it.Next()
			} else {
				t, _ := strconv.ParseInt(f[1], 10, 64)
				vt = st.it.Seek(t)
			}
			switch {
			case vt != chunkenc.ValNone:
				out = showSample(st, st.it)
			case st.it.Err() != nil:
				out = "err"
			default:
				out = "none"
			}
		}
		c.Op(op, out)
	}
}

// ---------------------------------------------------------------- generators

const two62 = int64(1) << 62

var t0Pool = []int64{0, 1, -1, 1000, 1700000000000, 1700000000123, -1700000000000, -two62, -two62 + 1, two62 - 100000, 1 << 40, -(1 << 40), 63, 64, -64, -65, 8191, 8192}

// dod thresholds of both encodings (14/17/20-bit asymmetric ranges of XOR; 13/20-bit symmetric ranges of XOR2).
var dodEdges = []int64{
	0, 1, -1,
	-(1<<13 - 1), -(1<<13 - 1) - 1, -(1<<13 - 1) + 1, 1 << 13, 1<<13 + 1, 1<<13 - 1,
	-(1<<16 - 1), -(1<<16 - 1) - 1, -(1<<16 - 1) + 1, 1 << 16, 1<<16 + 1, 1<<16 - 1,
	-(1<<19 - 1), -(1<<19 - 1) - 1, -(1<<19 - 1) + 1, 1 << 19, 1<<19 + 1, 1<<19 - 1,
	-(1 << 12), -(1 << 12) - 1, -(1 << 12) + 1, 1<<12 - 1, 1 << 12, 1<<12 - 2,
	-(1 << 19), -(1 << 19) - 1, 1<<19 - 2,
	-3, 4, -4, 5, -31, 32, -32, 33, -255, 256, -256, 257, -2047, 2048, -2048, 2049,
	1 << 31, -(1 << 31), 1 << 32, 1 << 40, -(1 << 40), 1 << 61, -(1 << 61),
}

var valPool = []uint64{
	0, 0x8000000000000000, // ±0
	0x3ff0000000000000, 0x4000000000000000, 0x4008000000000000, 0x4059000000000000, // 1 2 3 100
	0x7ff0000000000000, 0xfff0000000000000, // ±Inf
	0x7ff8000000000001, 0x7ff0000000000002, // NaN, stale NaN
	0x7ff8000000000000, 0xfff8000000000001, 0x7ff0000000000001, 0x7fffffffffffffff, 0xffffffffffffffff,
	1, 0x0010000000000000, 0x000fffffffffffff, 0x3fb999999999999a, 0x3fd3333333333333,
}

type tsGen struct {
	r      *h.Rng
	strict bool // keep the statement's hypotheses: strictly increasing, within ±2^62
	mode   int
	t      int64
	delta  int64
	n      int
	base   int64
}

func (g *tsGen) next(c *h.Ctx) (int64, bool) {
	r := g.r
	if g.n == 0 {
		g.n++
		g.t = h.PickI64(r, t0Pool)
		if r.Chance(30) {
			g.t = r.Range(-1<<41, 1<<41)
		}
		if !g.strict && r.Chance(40) {
			g.t = h.PickI64(r, h.I64Edges)
		}
		g.base = []int64{1, 10, 1000, 15000, 60000, 1 << 20}[r.Intn(6)]
		return g.t, true
	}
	var d int64
	if g.n == 1 {
		d = g.base
		if r.Chance(30) {
			d = []int64{1, 127, 128, 16383, 16384, 1 << 21, 1 << 35, 1 << 56, 1<<62 - 1, 1 << 62}[r.Intn(10)]
		}
	} else {
		var dod int64
		switch g.mode {
		case 0: // regular scrape, occasional jitter
			if r.Chance(15) {
				dod = r.Range(-20, 20)
			}
		case 1: // bucket boundaries
			if r.Chance(70) {
				dod = h.PickI64(r, dodEdges)
				c.Count("gen:dod-edge")
			}
		case 2: // arbitrary
			switch r.Intn(4) {
			case 0:
				dod = r.Range(-5000, 5000)
			case 1:
				dod = r.Range(-(1 << 20), 1<<20)
			case 2:
				dod = int64(r.U64() >> uint(r.Intn(40)))
				if r.Bool() {
					dod = -dod
				}
			}
		}
		d = g.delta + dod
	}
	if !g.strict {
		switch r.Intn(12) {
		case 0:
			d = 0
		case 1:
			d = -r.Range(1, 5000)
		case 2:
			d = int64(r.U64())
		}
		c.Count("gen:nonstrict-step")
	} else {
		if d <= 0 {
			d = 1 + r.Range(0, 3)
		}
		if g.t > 0 && d > two62-g.t {
			// would leave the ±2^62 window: fall back to a small step, or stop
			d = 1 + r.Range(0, 3)
			if d > two62-g.t {
				return 0, false
			}
		}
	}
	g.n++
	g.t += d // wraps in non-strict mode, as intended
	g.delta = d
	return g.t, true
}

type valGen struct {
	r    *h.Rng
	mode int
	v    uint64
	f    float64
}

func (g *valGen) next(c *h.Ctx) uint64 {
	r := g.r
	switch g.mode {
	case 0: // constant with rare changes
		if r.Chance(8) {
			g.v = h.Pick(r, valPool)
		}
	case 1: // integer counter
		g.f += float64(r.Intn(5))
		g.v = math.Float64bits(g.f)
	case 2: // gauge-like decimals
		g.f = g.f + (r.Float()-0.5)*10
		g.v = math.Float64bits(math.Round(g.f*100) / 100)
	case 3: // window games: xor with a mask of chosen leading/trailing zeros
		lz := r.Intn(64)
		switch r.Intn(5) {
		case 0:
			lz = 0
		case 1:
			lz = 30 + r.Intn(5) // around the clamp to 31
		}
		tz := r.Intn(64 - lz)
		if r.Chance(25) {
			tz = 0
		}
		if r.Chance(10) {
			tz = 63 - lz
		}
		w := 64 - lz - tz // >= 1
		mask := uint64(1) << uint(w-1)
		if w > 1 {
			mask |= 1 | (r.U64() & (mask - 1))
		}
		g.v ^= mask << uint(tz)
		c.Count(fmt.Sprintf("gen:xorwin-sig%d", (w+7)/8*8))
	case 4: // specials
		g.v = h.Pick(r, valPool)
	case 5: // random bits
		g.v = r.U64()
	}
	if r.Chance(3) {
		g.v = h.Pick(r, valPool)
	}
	if g.v == 0x7ff0000000000002 {
		c.Count("gen:stale-nan")
	}
	return g.v
}

func pickLen(c *h.Ctx, r *h.Rng) int {
	switch x := r.Intn(100); {
	case x < 35:
		return 1 + r.Intn(12)
	case x < 80:
		return 13 + r.Intn(108)
	case x < 98 || c.Tier != "thorough":
		return 121 + r.Intn(180)
	default:
		return 300 + r.Intn(2700)
	}
}

func genSamples(c *h.Ctx, r *h.Rng, n int, strict bool) []string {
	tg := &tsGen{r: r, strict: strict, mode: r.Intn(3)}
	vg := &valGen{r: r, mode: r.Intn(6), v: h.Pick(r, valPool), f: float64(r.Intn(1000))}
	var ops []string
	for i := 0; i < n; i++ {
		if r.Chance(2) {
			tg.mode = r.Intn(3)
		}
		if r.Chance(2) {
			vg.mode = r.Intn(6)
		}
		t, ok := tg.next(c)
		if !ok {
			break
		}
		ops = append(ops, fmt.Sprintf("app %d %016x", t, vg.next(c)))
	}
	return ops
}

func tsOf(op string) int64 {
	f := strings.Fields(op)
	t, _ := strconv.ParseInt(f[len(f)-2], 10, 64)
	return t
}

// seekScript builds a random Next/Seek interleaving whose Seek targets sit at/around existing timestamps.
func seekScript(r *h.Rng, apps []string, k int) []string {
	ops := []string{"it"}
	pos := 0
	for i := 0; i < k; i++ {
		if r.Chance(35) {
			ops = append(ops, "next")
			pos++
			continue
		}
		var t int64
		switch r.Intn(6) {
		case 0:
			t = math.MinInt64
		case 1:
			t = math.MaxInt64
		case 2: // behind the cursor
			t = tsOf(apps[r.Intn(len(apps))]) - r.Range(0, 2)
		default: // a little ahead of the cursor
			j := pos + r.Intn(8)
			if r.Chance(20) {
				j = r.Intn(len(apps) + 2)
			}
			if j >= len(apps) {
				t = tsOf(apps[len(apps)-1]) + r.Range(0, 1)
			} else {
				t = tsOf(apps[j]) + r.Range(-1, 1)
				pos = j
			}
		}
		ops = append(ops, fmt.Sprintf("seek %d", t))
	}
	return ops
}

func main() {
	c := h.Init()
	defer c.Finish()
	if c.Replay != "" {
		for _, cs := range c.ReplayCases() {
			c.Case(strings.TrimPrefix(cs[0], "case "))
			runCase(c, cs[1:])
		}
		return
	}
	r := c.Rng
	encs := []string{"xor"}
	for i := 0; i < c.N; i++ {
		enc := encs[i%len(encs)]
		strict := !r.Chance(12)
		kind := r.Intn(10)
		var ops []string
		ops = append(ops, "new "+enc)
		switch {
		case kind < 5: // round trip + iterator script
			apps := genSamples(c, r, pickLen(c, r), strict)
			ops = append(ops, apps...)
			ops = append(ops, "bytes", "iter")
			ops = append(ops, seekScript(r, apps, 4+r.Intn(20))...)
			c.Count("kind:roundtrip+seek")
		case kind < 8: // reopen at every position of a short chunk
			apps := genSamples(c, r, 1+r.Intn(24), strict)
			for _, a := range apps {
				ops = append(ops, a, "reopen")
			}
			ops = append(ops, "bytes", "iter")
			ops = append(ops, seekScript(r, apps, 3+r.Intn(6))...)
			c.Count("kind:reopen-every")
		default: // one or two reopens at random positions of a longer chunk
			apps := genSamples(c, r, pickLen(c, r), strict)
			p1, p2 := r.Intn(len(apps)+1), r.Intn(len(apps)+1)
			for k, a := range apps {
				if k == p1 || (k == p2 && r.Bool()) {
					ops = append(ops, "reopen")
				}
				ops = append(ops, a)
			}
			if p1 == len(apps) {
				ops = append(ops, "reopen")
			}
			ops = append(ops, "bytes", "iter")
			c.Count("kind:reopen-once")
		}
		c.Case(fmt.Sprintf("%s-%d", enc, i))
		if strict {
			c.Count("hyp:in-statement")
		} else {
			c.Count("hyp:outside-statement")
		}
		c.Count(fmt.Sprintf("len:<=%d", []int{12, 120, 300, 3000}[func() int {
			n := len(ops)
			switch {
			case n <= 40:
				return 0
			case n <= 160:
				return 1
			case n <= 340:
				return 2
			}
			return 3
		}()]))
		c.NonTrivial(strings.Join(ops, ";"))
		runCase(c, ops)
	}
	if c.Tier == "thorough" {
		// capacity edge: 65535 samples fit, the next Append panics
		ops := []string{"new xor"}
		for k := 0; k < 65536; k++ {
			ops = append(ops, fmt.Sprintf("app %d %016x", int64(k)*15000, uint64(0x3ff0000000000000)))
		}
		ops = append(ops, "bytes", "iter")
		c.Case("capacity-xor")
		c.Count("kind:capacity")
		runCase(c, ops)
	}
}
