// Suite backfill (C50): `promtool tsdb create-blocks-from openmetrics` on generated inputs.
//
// cmd/promtool is package main, so the real code cannot be called in-process: the suite builds the
// promtool binary from the prometheus tree under test ($VERIF_REPO or /repo; `go build` with a
// generated -modfile so no tracked file is touched; skipped when no *.go file of the tree changed
// since the last build) and executes it once per case.  The blocks it leaves in the output
// directory are read back in-process with tsdb.OpenDBReadOnly.
//
// ops:  cfg <maxBlockDurationMs> <maxSamplesInAppender> <eof 0|1>   first line of a case
//       s <series> <tsMs|-> <valueBits>                            one sample line, file order
//       type                                                        a `# TYPE bf gauge` line (no sample)
//       run                                                         execute + read back
// out:  `-` for every line but `run`; for `run`:
//       ok <blocks>  |  err <nots|parse|ooo|dup|oob|other> <blocks>
//       blocks = `-` or `|`-joined `mint:maxt:s<i>=t:vbits,t:vbits;s<j>=…` sorted by (mint,maxt)
package main

import (
	"bytes"
	"context"
	"crypto/md5"
	"fmt"
	"io/fs"
	"math"
	"os"
	"os/exec"
	"path/filepath"
	"sort"
	"strconv"
	"strings"
	"sync"
	"syscall"

	"github.com/prometheus/common/promslog"

	"github.com/prometheus/prometheus/model/labels"
	"github.com/prometheus/prometheus/tsdb"
	"github.com/prometheus/prometheus/tsdb/chunkenc"

	"verif/harness/h"
)

const maxSamplesInAppender = 5000 // the constant backfillOpenMetrics passes to backfill()

// ---------------------------------------------------------------- building promtool

func repoDir() string {
	if r := os.Getenv("VERIF_REPO"); r != "" {
		return r
	}
	return "/repo"
}

// fingerprint of every *.go / go.mod / go.sum file of the tree (path, size, mtime).
func treeFingerprint(repo string) string {
	hsh := md5.New()
	filepath.WalkDir(repo, func(p string, d fs.DirEntry, err error) error {
		if err != nil {
			return nil
		}
		if d.IsDir() {
			n := d.Name()
			if p != repo && (n == ".git" || n == "node_modules" || n == "ui" || n == "documentation" || n == "testdata") {
				return filepath.SkipDir
			}
			return nil
		}
		n := d.Name()
		if strings.HasSuffix(n, ".go") || n == "go.mod" || n == "go.sum" {
			if fi, err := d.Info(); err == nil {
				fmt.Fprintf(hsh, "%s %d %d\n", p, fi.Size(), fi.ModTime().UnixNano())
			}
		}
		return nil
	})
	return fmt.Sprintf("%x", hsh.Sum(nil))
}

func buildPromtool() (string, error) {
	repo := repoDir()
	wd, _ := os.Getwd()
	bdir := filepath.Join(filepath.Dir(wd), ".build", "promtool")
	if v := os.Getenv("VERIF_PROMTOOL_DIR"); v != "" {
		bdir = v
	}
	if err := os.MkdirAll(bdir, 0o755); err != nil {
		return "", err
	}
	tag := fmt.Sprintf("%x", md5.Sum([]byte(repo)))[:8]
	bin := filepath.Join(bdir, "promtool-"+tag)
	lock, err := os.OpenFile(bin+".lock", os.O_CREATE|os.O_RDWR, 0o644)
	if err != nil {
		return "", err
	}
	defer lock.Close()
	syscall.Flock(int(lock.Fd()), syscall.LOCK_EX)
	defer syscall.Flock(int(lock.Fd()), syscall.LOCK_UN)
	fp := treeFingerprint(repo)
	if old, err := os.ReadFile(bin + ".stamp"); err == nil && string(old) == fp {
		if _, err := os.Stat(bin); err == nil {
			return bin, nil
		}
	}
	for _, f := range []string{"mod", "sum"} {
		b, err := os.ReadFile(filepath.Join(repo, "go."+f))
		if err != nil {
			return "", err
		}
		if err := os.WriteFile(bin+"."+f, b, 0o644); err != nil {
			return "", err
		}
	}
	cmd := exec.Command("go", "build", "-modfile="+bin+".mod", "-o", bin, "./cmd/promtool")
	cmd.Dir = repo
	env := []string{}
	for _, e := range os.Environ() {
		if strings.HasPrefix(e, "GOFLAGS=") || strings.HasPrefix(e, "GOWORK=") || strings.HasPrefix(e, "GOPROXY=") {
			continue
		}
		env = append(env, e)
	}
	cmd.Env = append(env, "GOFLAGS=-mod=mod", "GOPROXY=off", "GOWORK=off")
	out, err := cmd.CombinedOutput()
	if err != nil {
		os.Remove(bin + ".stamp")
		return "", fmt.Errorf("go build ./cmd/promtool in %s: %v\n%s", repo, err, out)
	}
	os.WriteFile(bin+".stamp", []byte(fp), 0o644)
	return bin, nil
}

// ---------------------------------------------------------------- rendering the input

// tsText renders a millisecond timestamp as OpenMetrics seconds such that the parser's
// int64(ParseFloat(text) * 1000) gives back exactly t.
func tsText(t int64) (string, bool) {
	var s string
	if t%1000 == 0 {
		s = strconv.FormatInt(t/1000, 10)
	} else {
		a := t
		sign := ""
		if a < 0 {
			a, sign = -a, "-"
		}
		// A tail of 0001 (1e-4 ms) keeps the truncating conversion on the right side of t.
		s = fmt.Sprintf("%s%d.%03d0001", sign, a/1000, a%1000)
	}
	f, err := strconv.ParseFloat(s, 64)
	if err != nil || int64(f*1000) != t {
		return "", false
	}
	return s, true
}

const normalNaN = 0x7ff8000000000001

func valText(bits uint64) (string, bool) {
	v := math.Float64frombits(bits)
	switch {
	case math.IsNaN(v):
		return "NaN", bits == normalNaN
	case math.IsInf(v, 1):
		return "+Inf", true
	case math.IsInf(v, -1):
		return "-Inf", true
	}
	s := strconv.FormatFloat(v, 'g', -1, 64)
	back, err := strconv.ParseFloat(s, 64)
	return s, err == nil && math.Float64bits(back) == bits
}

type cfg struct {
	maxDur int64
	n      int
	eof    bool
}

// render turns the op lines of a case into the OpenMetrics text; ok=false for an unrenderable op.
func render(ops []string) (c cfg, text []byte, ok bool) {
	var b bytes.Buffer
	c = cfg{n: maxSamplesInAppender, eof: true}
	for _, op := range ops {
		f := strings.Fields(op)
		if len(f) == 0 {
			return c, nil, false
		}
		switch f[0] {
		case "cfg":
			if len(f) != 4 {
				return c, nil, false
			}
			d, e1 := strconv.ParseInt(f[1], 10, 64)
			n, e2 := strconv.Atoi(f[2])
			if e1 != nil || e2 != nil || n != maxSamplesInAppender || d < 0 {
				return c, nil, false
			}
			c.maxDur, c.n, c.eof = d, n, f[3] == "1"
		case "type":
			if len(f) != 1 {
				return c, nil, false
			}
			b.WriteString("# TYPE bf gauge\n")
		case "s":
			if len(f) != 4 {
				return c, nil, false
			}
			si, e1 := strconv.Atoi(f[1])
			vb, e2 := strconv.ParseUint(f[3], 16, 64)
			if e1 != nil || e2 != nil || si < 0 {
				return c, nil, false
			}
			vt, vok := valText(vb)
			if !vok {
				return c, nil, false
			}
			if f[2] == "-" {
				fmt.Fprintf(&b, "bf{s=\"%d\"} %s\n", si, vt)
			} else {
				t, e3 := strconv.ParseInt(f[2], 10, 64)
				tt, tok := tsText(t)
				if e3 != nil || !tok {
					return c, nil, false
				}
				fmt.Fprintf(&b, "bf{s=\"%d\"} %s %s\n", si, vt, tt)
			}
		case "run":
		default:
			return c, nil, false
		}
	}
	if c.eof {
		b.WriteString("# EOF\n")
	}
	return c, b.Bytes(), true
}

// ---------------------------------------------------------------- running and reading back

func errClass(stderr string) string {
	switch {
	case strings.Contains(stderr, "expected timestamp for series"):
		return "nots"
	case strings.Contains(stderr, "out of order sample"):
		return "ooo"
	case strings.Contains(stderr, "duplicate sample for timestamp"):
		return "dup"
	case strings.Contains(stderr, "out of bounds"):
		return "oob"
	case strings.Contains(stderr, "getting min and max timestamp: next:"), strings.Contains(stderr, "parse:"):
		return "parse"
	default:
		return "other"
	}
}

func readBlocks(dir string) string {
	db, err := tsdb.OpenDBReadOnly(dir, "", promslog.NewNopLogger())
	if err != nil {
		return "readerr:" + strings.ReplaceAll(err.Error(), " ", "_")
	}
	defer db.Close()
	blocks, err := db.Blocks()
	if err != nil {
		return "readerr:" + strings.ReplaceAll(err.Error(), " ", "_")
	}
	type blk struct {
		mint, maxt int64
		s          string
	}
	var out []blk
	for _, b := range blocks {
		q, err := tsdb.NewBlockQuerier(b, math.MinInt64, math.MaxInt64)
		if err != nil {
			return "readerr:" + strings.ReplaceAll(err.Error(), " ", "_")
		}
		ss := q.Select(context.Background(), true, nil, labels.MustNewMatcher(labels.MatchRegexp, "__name__", ".*"))
		type ser struct {
			idx int
			s   string
		}
		var sers []ser
		for ss.Next() {
			s := ss.At()
			l := s.Labels()
			name := "?" + h.HexS(l.String())
			idx := 1 << 30
			if i, err := strconv.Atoi(l.Get("s")); err == nil && i >= 0 && labels.Equal(l, labels.FromStrings("__name__", "bf", "s", strconv.Itoa(i))) {
				name, idx = "s"+strconv.Itoa(i), i
			}
			it := s.Iterator(nil)
			var parts []string
			for vt := it.Next(); vt != chunkenc.ValNone; vt = it.Next() {
				if vt != chunkenc.ValFloat {
					parts = append(parts, "nonfloat")
					continue
				}
				t, v := it.At()
				parts = append(parts, fmt.Sprintf("%d:%016x", t, math.Float64bits(v)))
			}
			if it.Err() != nil {
				parts = append(parts, "itererr")
			}
			sers = append(sers, ser{idx, name + "=" + strings.Join(parts, ",")})
		}
		if ss.Err() != nil {
			sers = append(sers, ser{1 << 30, "selecterr"})
		}
		q.Close()
		sort.SliceStable(sers, func(i, j int) bool {
			if sers[i].idx != sers[j].idx {
				return sers[i].idx < sers[j].idx
			}
			return sers[i].s < sers[j].s
		})
		parts := make([]string, len(sers))
		for i, s := range sers {
			parts[i] = s.s
		}
		m := b.Meta()
		out = append(out, blk{m.MinTime, m.MaxTime, fmt.Sprintf("%d:%d:%s", m.MinTime, m.MaxTime, strings.Join(parts, ";"))})
	}
	sort.SliceStable(out, func(i, j int) bool {
		if out[i].mint != out[j].mint {
			return out[i].mint < out[j].mint
		}
		if out[i].maxt != out[j].maxt {
			return out[i].maxt < out[j].maxt
		}
		return out[i].s < out[j].s
	})
	if len(out) == 0 {
		return "-"
	}
	parts := make([]string, len(out))
	for i, b := range out {
		parts[i] = b.s
	}
	return strings.Join(parts, "|")
}

// execCase runs the real promtool on the rendered case and returns the output of the `run` op.
func execCase(promtool string, ops []string) string {
	c, text, ok := render(ops)
	if !ok {
		return "bad-op"
	}
	dir, err := os.MkdirTemp("", "vbackfill")
	if err != nil {
		panic(err)
	}
	defer os.RemoveAll(dir)
	in := filepath.Join(dir, "in.om")
	outdir := filepath.Join(dir, "out")
	tmp := filepath.Join(dir, "tmp") // BlockWriter puts its head chunks under os.TempDir()
	os.MkdirAll(outdir, 0o755)
	os.MkdirAll(tmp, 0o755)
	if err := os.WriteFile(in, text, 0o644); err != nil {
		panic(err)
	}
	args := []string{"tsdb", "create-blocks-from", "-q"}
	if c.maxDur > 0 {
		args = append(args, fmt.Sprintf("--max-block-duration=%dms", c.maxDur))
	}
	args = append(args, "openmetrics", in, outdir)
	cmd := exec.Command(promtool, args...)
	cmd.Env = append(os.Environ(), "TMPDIR="+tmp)
	var stderr bytes.Buffer
	cmd.Stderr = &stderr
	cmd.Stdout = &stderr
	runErr := cmd.Run()
	blocks := readBlocks(outdir)
	if runErr == nil {
		return "ok " + blocks
	}
	if _, isExit := runErr.(*exec.ExitError); !isExit {
		return "execerr:" + strings.ReplaceAll(runErr.Error(), " ", "_")
	}
	if os.Getenv("VERIF_BACKFILL_DEBUG") != "" {
		fmt.Fprintf(os.Stderr, "promtool: %s\n", stderr.String())
	}
	if strings.Contains(stderr.String(), "panic:") || strings.Contains(stderr.String(), "goroutine ") {
		return "panic " + blocks
	}
	return "err " + errClass(stderr.String()) + " " + blocks
}

// ---------------------------------------------------------------- generator

var durPool = []int64{0, 0, 0, 3600000, 7200000, 7200001, 21599999, 21600000, 21600001, 30000000, 64800000, 194400000,
	583200000, 141717600000, 141717599999, 9000000000000}

// stdRange = the largest 2h*3^i (i<10) not above max(maxDur, 2h)
func stdRange(maxDur int64) int64 {
	d := int64(7200000)
	for i := 0; i < 9; i++ {
		if d*3 <= maxDur {
			d *= 3
		}
	}
	return d
}

var valPool = []uint64{0x3ff0000000000000, 0x4000000000000000, 0xc008000000000000, normalNaN, 0x8000000000000000,
	0x7ff0000000000000, 0xfff0000000000000, 0, 0x0000000000000001, 0x7fefffffffffffff, 0x3fb999999999999a}

func gen(r *h.Rng, big bool) []string {
	maxDur := h.PickI64(r, durPool)
	d := stdRange(maxDur)
	eof := 1
	if r.Chance(4) {
		eof = 0
	}
	ops := []string{fmt.Sprintf("cfg %d %d %d", maxDur, maxSamplesInAppender, eof)}
	nser := 1 + r.Intn(4)
	// windows used by this case: a few consecutive or scattered indices around 0
	k0 := r.Range(-3, 2)
	if r.Chance(25) {
		k0 = r.Range(0, 2)
	}
	nwin := 1 + r.Intn(4)
	var wins []int64
	for i := 0; i < nwin; i++ {
		wins = append(wins, k0+int64(i)*r.Range(1, 2))
	}
	fix := func(t int64) int64 {
		if _, ok := tsText(t); ok {
			return t
		}
		// not renderable at ms precision: fall back to whole seconds (floor)
		q := t / 1000
		if t%1000 != 0 && t < 0 {
			q--
		}
		return q * 1000
	}
	pickT := func() int64 {
		k := wins[r.Intn(len(wins))]
		lo := k * d
		switch r.Intn(9) {
		case 0:
			return fix(lo)
		case 1:
			return fix(lo + 1)
		case 2:
			return fix(lo + d - 1)
		case 3:
			return fix(lo - 1)
		case 4:
			return fix(lo + d)
		case 5:
			return fix(lo + d/2 + r.Range(-1, 1))
		case 6:
			return fix(lo + r.Range(0, 5)*1000)
		default:
			return fix(lo + r.Range(0, d-1))
		}
	}
	n := 1 + r.Intn(24)
	if r.Chance(10) {
		n = 1 + r.Intn(3)
	}
	if big {
		n = maxSamplesInAppender - 3 + r.Intn(8)
	}
	type smp struct {
		s int
		t int64
		v uint64
	}
	var ss []smp
	for i := 0; i < n; i++ {
		v := valPool[r.Intn(len(valPool))]
		if r.Chance(50) {
			v = math.Float64bits(float64(r.Intn(1000)) / 8)
		}
		ss = append(ss, smp{r.Intn(nser), pickT(), v})
	}
	if big {
		// everything in one window so that the appender is committed and re-created mid-window
		lo := wins[0] * d
		for i := range ss {
			ss[i].t = fix(lo + int64(i)*1000)
			if ss[i].t < lo || ss[i].t >= lo+d {
				ss[i].t = fix(lo)
			}
		}
	}
	// ordering mode: 0 = by time (series interleaved), 1 = by time within series, series after series,
	// 2 = windows in random order but time order inside each, 3 = file order fully random (out-of-order
	// inside a window: outside the statement, still modelled)
	mode := r.Intn(10)
	floor := func(t int64) int64 {
		q := t / d
		if t%d != 0 && t < 0 {
			q--
		}
		return q
	}
	switch {
	case big && mode < 8:
		// keep generation order = time order
	case mode < 4:
		sort.SliceStable(ss, func(i, j int) bool { return ss[i].t < ss[j].t })
	case mode < 6:
		sort.SliceStable(ss, func(i, j int) bool {
			if ss[i].s != ss[j].s {
				return ss[i].s < ss[j].s
			}
			return ss[i].t < ss[j].t
		})
	case mode < 8:
		perm := map[int64]int{}
		sort.SliceStable(ss, func(i, j int) bool {
			wi, wj := floor(ss[i].t), floor(ss[j].t)
			if wi != wj {
				for _, w := range []int64{wi, wj} {
					if _, ok := perm[w]; !ok {
						perm[w] = r.Intn(1000)
					}
				}
				if perm[wi] != perm[wj] {
					return perm[wi] < perm[wj]
				}
				return wi < wj
			}
			return ss[i].t < ss[j].t
		})
	default:
		// leave random (big: swap a few neighbours around the commit boundary)
		if big {
			for k := 0; k < 3; k++ {
				i := maxSamplesInAppender - 4 + r.Intn(8)
				if i+1 < len(ss) {
					ss[i], ss[i+1] = ss[i+1], ss[i]
				}
			}
		}
	}
	// without duplicates in 3 of 4 cases
	if !r.Chance(25) {
		seen := map[string]bool{}
		var u []smp
		for _, x := range ss {
			k := fmt.Sprintf("%d/%d", x.s, x.t)
			if !seen[k] {
				seen[k] = true
				u = append(u, x)
			}
		}
		ss = u
	} else if len(ss) > 1 && r.Chance(60) {
		// an adjacent exact duplicate (same value) or conflicting duplicate
		i := r.Intn(len(ss))
		dup := ss[i]
		if r.Chance(50) {
			dup.v = math.Float64bits(float64(r.Intn(7)))
		}
		ss = append(ss[:i+1], append([]smp{dup}, ss[i+1:]...)...)
	}
	missing := -1
	if r.Chance(12) {
		missing = r.Intn(len(ss))
	}
	typed := map[int]bool{}
	for i, x := range ss {
		if !typed[x.s] && r.Chance(30) {
			typed[x.s] = true
			ops = append(ops, "type")
		}
		if i == missing {
			ops = append(ops, fmt.Sprintf("s %d - %016x", x.s, x.v))
		} else {
			ops = append(ops, fmt.Sprintf("s %d %d %016x", x.s, x.t, x.v))
		}
	}
	return append(ops, "run")
}

// ---------------------------------------------------------------- main

func classify(c *h.Ctx, ops []string, out string) {
	f := strings.Fields(out)
	if len(f) > 0 {
		k := f[0]
		if k == "err" && len(f) > 1 {
			k += ":" + f[1]
		}
		c.Count("run:" + k)
	}
	neg, nsmp := false, 0
	for _, op := range ops {
		g := strings.Fields(op)
		if len(g) == 4 && g[0] == "s" {
			nsmp++
			if strings.HasPrefix(g[2], "-") && g[2] != "-" {
				neg = true
			}
		}
	}
	if neg {
		c.Count("input:negative-ts")
	}
	if nsmp >= maxSamplesInAppender {
		c.Count("input:over-batch")
	}
	if len(f) > 1 {
		c.Count(fmt.Sprintf("blocks:%d", strings.Count(f[len(f)-1], "|")+btoi(f[len(f)-1] != "-")))
	}
	if nsmp > 0 {
		c.NonTrivial(strings.Join(ops, "\n"))
	}
}

func btoi(b bool) int {
	if b {
		return 1
	}
	return 0
}

func main() {
	c := h.Init()
	promtool, err := buildPromtool()
	if err != nil {
		fmt.Fprintln(os.Stderr, "harness error:", err)
		os.Exit(3)
	}
	type cs struct {
		id  string
		ops []string
		out string
	}
	var cases []*cs
	if c.Replay != "" {
		for i, rc := range c.ReplayCases() {
			id := strings.TrimPrefix(rc[0], "case ")
			if id == "" {
				id = fmt.Sprintf("r%d", i)
			}
			cases = append(cases, &cs{id: id, ops: rc[1:]})
		}
	} else {
		for i := 0; i < c.N; i++ {
			r := c.Rng.Fork()
			big := i%40 == 7
			cases = append(cases, &cs{id: fmt.Sprintf("g%d-%d", c.Seed, i), ops: gen(r, big)})
		}
	}
	// execute (process start dominates: a small worker pool, results emitted in case order)
	workers := 6
	if v, err := strconv.Atoi(c.Extra["workers"]); err == nil && v > 0 {
		workers = v
	}
	var wg sync.WaitGroup
	ch := make(chan *cs)
	for w := 0; w < workers; w++ {
		wg.Add(1)
		go func() {
			defer wg.Done()
			for x := range ch {
				runOps := x.ops
				// everything up to and including the first `run`
				for i, op := range x.ops {
					if strings.HasPrefix(op, "run") {
						runOps = x.ops[:i+1]
						break
					}
				}
				p, pv := h.Try(func() { x.out = execCase(promtool, runOps) })
				if p {
					x.out = "harness-panic:" + strings.ReplaceAll(fmt.Sprint(pv), " ", "_")
				}
			}
		}()
	}
	for _, x := range cases {
		ch <- x
	}
	close(ch)
	wg.Wait()
	for _, x := range cases {
		c.Case(x.id)
		ran := false
		for _, op := range x.ops {
			f := strings.Fields(op)
			switch {
			case len(f) > 0 && f[0] == "run" && !ran:
				ran = true
				c.Op(op, x.out)
				classify(c, x.ops, x.out)
			case len(f) > 0 && (f[0] == "cfg" || f[0] == "s" || f[0] == "type" || f[0] == "run"):
				c.Op(op, "-")
			default:
				c.Op(op, "bad-op")
			}
		}
	}
	c.Finish()
}
