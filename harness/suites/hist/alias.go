// Alias cases of suite hist (C11, clause caller_unchanged): the caller's histograms are views into shared
// arrays (span slices shared between successive histograms, prefixes of each other, cut from one allocation
// with spare capacity behind them; bucket and custom-bounds slices likewise).  After every append to a real
// chunk appender (all four histogram encodings) the arrays and every histogram struct the caller holds are
// compared with their state before the call.
package main

import (
	"fmt"
	"math"
	"strconv"
	"strings"
	"unsafe"

	"github.com/prometheus/prometheus/model/histogram"
	"github.com/prometheus/prometheus/model/value"

	"verif/harness/h"
	"verif/harness/histkit"
)

// ---------------------------------------------------------------- the caller's heap

type shdr struct {
	p    unsafe.Pointer
	l, c int
}

func hdrOfSlice[T any](s []T) shdr { return shdr{unsafe.Pointer(unsafe.SliceData(s)), len(s), cap(s)} }

type aobj struct {
	x    histkit.H // the struct the caller holds
	snap histkit.H // deep copy of what it should still be
	hd   [5]shdr
	bad  bool
	nils bool // all five slices nil (the struct does not depend on the arrays)
}

type aliasEnv struct {
	spans  []histogram.Span
	ints   []int64
	floats []float64
	sSnap  []histogram.Span
	iSnap  []int64
	fSnap  []uint64
	objs   []*aobj
	byOp   map[int]*aobj
}

func hdrsOf(x histkit.H) [5]shdr {
	if x.F != nil {
		f := x.F
		return [5]shdr{hdrOfSlice(f.PositiveSpans), hdrOfSlice(f.NegativeSpans), hdrOfSlice(f.PositiveBuckets), hdrOfSlice(f.NegativeBuckets), hdrOfSlice(f.CustomValues)}
	}
	i := x.I
	return [5]shdr{hdrOfSlice(i.PositiveSpans), hdrOfSlice(i.NegativeSpans), hdrOfSlice(i.PositiveBuckets), hdrOfSlice(i.NegativeBuckets), hdrOfSlice(i.CustomValues)}
}

func eqSpans(a, b []histogram.Span) bool {
	if len(a) != len(b) {
		return false
	}
	for i := range a {
		if a[i] != b[i] {
			return false
		}
	}
	return true
}

func eqInts(a, b []int64) bool {
	if len(a) != len(b) {
		return false
	}
	for i := range a {
		if a[i] != b[i] {
			return false
		}
	}
	return true
}

func eqFloats(a, b []float64) bool {
	if len(a) != len(b) {
		return false
	}
	for i := range a {
		if math.Float64bits(a[i]) != math.Float64bits(b[i]) {
			return false
		}
	}
	return true
}

func fbits(a, b float64) bool { return math.Float64bits(a) == math.Float64bits(b) }

// eqH: every field identical (floats by bit pattern).
func eqH(a, b histkit.H) bool {
	if (a.F != nil) != (b.F != nil) {
		return false
	}
	if a.F != nil {
		x, y := a.F, b.F
		return x.CounterResetHint == y.CounterResetHint && x.Schema == y.Schema && fbits(x.ZeroThreshold, y.ZeroThreshold) &&
			fbits(x.Count, y.Count) && fbits(x.ZeroCount, y.ZeroCount) && fbits(x.Sum, y.Sum) &&
			eqSpans(x.PositiveSpans, y.PositiveSpans) && eqSpans(x.NegativeSpans, y.NegativeSpans) &&
			eqFloats(x.PositiveBuckets, y.PositiveBuckets) && eqFloats(x.NegativeBuckets, y.NegativeBuckets) &&
			eqFloats(x.CustomValues, y.CustomValues)
	}
	x, y := a.I, b.I
	return x.CounterResetHint == y.CounterResetHint && x.Schema == y.Schema && fbits(x.ZeroThreshold, y.ZeroThreshold) &&
		x.Count == y.Count && x.ZeroCount == y.ZeroCount && fbits(x.Sum, y.Sum) &&
		eqSpans(x.PositiveSpans, y.PositiveSpans) && eqSpans(x.NegativeSpans, y.NegativeSpans) &&
		eqInts(x.PositiveBuckets, y.PositiveBuckets) && eqInts(x.NegativeBuckets, y.NegativeBuckets) &&
		eqFloats(x.CustomValues, y.CustomValues)
}

// cutSlice returns arena[off:off+len:off+cap] for "off+len+cap", nil for "-".
func cutSlice[T any](arena []T, s string) ([]T, bool) {
	if s == "-" {
		return nil, true
	}
	p := strings.Split(s, "+")
	if len(p) != 3 {
		return nil, false
	}
	off, e1 := strconv.Atoi(p[0])
	ln, e2 := strconv.Atoi(p[1])
	cp, e3 := strconv.Atoi(p[2])
	if e1 != nil || e2 != nil || e3 != nil || off < 0 || ln < 0 || ln > cp || off+cp > len(arena) {
		return nil, false
	}
	return arena[off : off+ln : off+cp], true
}

func (a *aliasEnv) build(tok string) *aobj {
	f := strings.Split(tok, "/")
	if len(f) != 12 {
		return &aobj{bad: true}
	}
	ps, o1 := cutSlice(a.spans, f[7])
	ns, o2 := cutSlice(a.spans, f[8])
	cv, o3 := cutSlice(a.floats, f[11])
	if !(o1 && o2 && o3) {
		return &aobj{bad: true}
	}
	f[7], f[8], f[11] = "-", "-", "-"
	var x histkit.H
	if f[0] == "f" {
		pb, o4 := cutSlice(a.floats, f[9])
		nb, o5 := cutSlice(a.floats, f[10])
		if !(o4 && o5) {
			return &aobj{bad: true}
		}
		f[9], f[10] = "-", "-"
		x = histkit.Parse(strings.Join(f, "/"))
		x.F.PositiveSpans, x.F.NegativeSpans, x.F.PositiveBuckets, x.F.NegativeBuckets, x.F.CustomValues = ps, ns, pb, nb, cv
	} else {
		pb, o4 := cutSlice(a.ints, f[9])
		nb, o5 := cutSlice(a.ints, f[10])
		if !(o4 && o5) {
			return &aobj{bad: true}
		}
		f[9], f[10] = "-", "-"
		x = histkit.Parse(strings.Join(f, "/"))
		x.I.PositiveSpans, x.I.NegativeSpans, x.I.PositiveBuckets, x.I.NegativeBuckets, x.I.CustomValues = ps, ns, pb, nb, cv
	}
	return &aobj{x: x, snap: x.Copy(), hd: hdrsOf(x), nils: hdrsOf(x) == [5]shdr{}}
}

// scribbleAll: the caller reuses all its arrays for something else.
func (a *aliasEnv) scribbleAll() string {
	for i := range a.spans {
		a.spans[i] = histogram.Span{Offset: -99, Length: 9}
	}
	for i := range a.ints {
		a.ints[i] = -31337
	}
	for i := range a.floats {
		a.floats[i] = 31337.25
	}
	a.spans, a.ints, a.floats = nil, nil, nil
	a.sSnap, a.iSnap, a.fSnap = nil, nil, nil
	for _, o := range a.objs {
		if !o.nils {
			o.bad = true
		}
	}
	return "ok"
}

// setup installs the arrays of `amem` and builds every histogram of the following aapp ops.
func (a *aliasEnv) setup(f []string, ops []string, from int) string {
	if len(f) != 5 {
		return "bad-op"
	}
	a.spans = append([]histogram.Span{}, histkit.ParseSpans(f[2])...)
	a.ints = append([]int64{}, histkit.ParseInts(f[3])...)
	a.floats = append([]float64{}, histkit.ParseFloats(f[4])...)
	a.sSnap = append([]histogram.Span{}, a.spans...)
	a.iSnap = append([]int64{}, a.ints...)
	a.fSnap = make([]uint64, len(a.floats))
	for i, v := range a.floats {
		a.fSnap[i] = math.Float64bits(v)
	}
	a.objs, a.byOp = nil, map[int]*aobj{}
	for i := from + 1; i < len(ops); i++ {
		g := strings.Fields(ops[i])
		if len(g) > 0 && g[0] == "amem" {
			break
		}
		if len(g) == 5 && g[0] == "aapp" {
			o := a.build(g[4])
			a.objs = append(a.objs, o)
			a.byOp[i] = o
		}
	}
	return "ok"
}

// memDiff lists the array cells written since the last look.
func (a *aliasEnv) memDiff() []string {
	var out []string
	for i := range a.spans {
		if a.spans[i] != a.sSnap[i] {
			out = append(out, fmt.Sprintf("s%d:%d:%d", i, a.spans[i].Offset, a.spans[i].Length))
			a.sSnap[i] = a.spans[i]
		}
	}
	for i := range a.ints {
		if a.ints[i] != a.iSnap[i] {
			out = append(out, fmt.Sprintf("i%d:%d", i, a.ints[i]))
			a.iSnap[i] = a.ints[i]
		}
	}
	for i := range a.floats {
		if b := math.Float64bits(a.floats[i]); b != a.fSnap[i] {
			out = append(out, fmt.Sprintf("f%d:%016x", i, b))
			a.fSnap[i] = b
		}
	}
	return out
}

func inArena[T any](arena []T, p unsafe.Pointer) bool {
	if len(arena) == 0 || p == nil {
		return false
	}
	lo := uintptr(unsafe.Pointer(unsafe.SliceData(arena)))
	hi := lo + uintptr(cap(arena))*unsafe.Sizeof(arena[0])
	return uintptr(p) >= lo && uintptr(p) < hi
}

// scribble overwrites the slices the appender put into the caller's struct (the caller owns them now and may
// reuse them); whatever the chunk keeps must not live there.
func (a *aliasEnv) scribble(o *aobj, before, now [5]shdr) int {
	n := 0
	sp := func(s []histogram.Span, k int) {
		if now[k] != before[k] && !inArena(a.spans, now[k].p) {
			for i := range s {
				s[i] = histogram.Span{Offset: -77, Length: 5}
			}
			n++
		}
	}
	fl := func(s []float64, k int) {
		if now[k] != before[k] && !inArena(a.floats, now[k].p) {
			for i := range s {
				s[i] = 4242.5
			}
			n++
		}
	}
	in := func(s []int64, k int) {
		if now[k] != before[k] && !inArena(a.ints, now[k].p) {
			for i := range s {
				s[i] = 424242
			}
			n++
		}
	}
	if o.x.F != nil {
		sp(o.x.F.PositiveSpans, 0)
		sp(o.x.F.NegativeSpans, 1)
		fl(o.x.F.PositiveBuckets, 2)
		fl(o.x.F.NegativeBuckets, 3)
		fl(o.x.F.CustomValues, 4)
	} else {
		sp(o.x.I.PositiveSpans, 0)
		sp(o.x.I.NegativeSpans, 1)
		in(o.x.I.PositiveBuckets, 2)
		in(o.x.I.NegativeBuckets, 3)
		fl(o.x.I.CustomValues, 4)
	}
	return n
}

func listOr(xs []string) string {
	if len(xs) == 0 {
		return "-"
	}
	return strings.Join(xs, ",")
}

func (a *aliasEnv) appendOp(c *h.Ctx, ce *chunkEnv, opIdx int, cut bool, st, t int64) string {
	o := a.byOp[opIdx]
	if o == nil || o.bad {
		return "bad-view"
	}
	before := o.hd
	res := ce.appendOp(cut, st, t, o.x)
	if strings.HasPrefix(res, "err") {
		return res
	}
	cells := a.memDiff()
	var held []string
	for j, p := range a.objs {
		if p == o || p.bad {
			continue
		}
		if !eqH(p.x, p.snap) || hdrsOf(p.x) != p.hd {
			held = append(held, strconv.Itoa(j))
			p.snap, p.hd = p.x.Copy(), hdrsOf(p.x)
		}
	}
	now := hdrsOf(o.x)
	if now != before {
		c.Count("aapp:" + strings.Fields(res)[0] + "+caller-slices-replaced")
	}
	if a.scribble(o, before, now) > 0 {
		c.Count("aapp:scribbled")
	}
	o.snap, o.hd = o.x.Copy(), hdrsOf(o.x)
	return res + " mem=" + listOr(cells) + " held=" + listOr(held)
}

// ---------------------------------------------------------------- laying histograms out in shared arrays

type item struct {
	cut   bool
	st, t int64
	x     histkit.H
	after []string
}

// policy: how slices are placed.  share/prefix/empty are percentages; capW weights exact | spare | open-ended
// (capacity reaches to the end of the array, i.e. over everything placed later).
type policy struct {
	share, prefix, empty int
	capW                 [3]int
	reverse              bool // place the histograms last-to-first (later, longer layouts become the parents of prefixes)
}

type reg struct {
	off, ln, cp int
	open        bool
}

func (q *reg) String() string {
	if q == nil {
		return "-"
	}
	return fmt.Sprintf("%d+%d+%d", q.off, q.ln, q.cp)
}

type arena[T comparable] struct {
	cells []T
	regs  []*reg // non-empty placed regions (candidates for sharing)
	views []*reg // everything handed out
	junk  func(int) T
}

func newArena[T comparable](r *h.Rng, junk func(int) T) *arena[T] {
	a := &arena[T]{junk: junk}
	for i, n := 0, 1+r.Intn(3); i < n; i++ {
		a.cells = append(a.cells, junk(len(a.cells)))
	}
	return a
}

func (a *arena[T]) has(q *reg, content []T, prefix bool) bool {
	if prefix {
		if q.ln <= len(content) {
			return false
		}
	} else if q.ln != len(content) {
		return false
	}
	for i, v := range content {
		if a.cells[q.off+i] != v {
			return false
		}
	}
	return true
}

func (a *arena[T]) place(r *h.Rng, p policy, content []T, count func(string)) *reg {
	if len(content) == 0 {
		if len(a.regs) > 0 && r.Chance(p.empty) {
			q := a.regs[r.Intn(len(a.regs))]
			nr := &reg{off: q.off, ln: 0, cp: q.cp, open: q.open} // other[:0]
			a.views = append(a.views, nr)
			count("alias:empty-over-other")
			return nr
		}
		return nil
	}
	var same, pre []*reg
	for _, q := range a.regs {
		if a.has(q, content, false) {
			same = append(same, q)
		} else if a.has(q, content, true) {
			pre = append(pre, q)
		}
	}
	if len(same) > 0 && r.Chance(p.share) {
		count("alias:shared")
		return same[r.Intn(len(same))]
	}
	if len(pre) > 0 && r.Chance(p.prefix) {
		q := pre[r.Intn(len(pre))]
		nr := &reg{off: q.off, ln: len(content), cp: q.cp, open: q.open}
		a.regs = append(a.regs, nr)
		a.views = append(a.views, nr)
		count("alias:prefix")
		return nr
	}
	nr := &reg{off: len(a.cells), ln: len(content)}
	a.cells = append(a.cells, content...)
	w := r.Intn(p.capW[0] + p.capW[1] + p.capW[2])
	switch {
	case w < p.capW[0]:
		nr.cp = nr.ln
		count("alias:cap-exact")
	case w < p.capW[0]+p.capW[1]:
		k := 1 + r.Intn(4)
		for i := 0; i < k; i++ {
			a.cells = append(a.cells, a.junk(len(a.cells)))
		}
		nr.cp = nr.ln + k
		count("alias:cap-spare")
	default:
		nr.open = true
		count("alias:cap-open")
	}
	a.regs = append(a.regs, nr)
	a.views = append(a.views, nr)
	return nr
}

func (a *arena[T]) finish(r *h.Rng) {
	for i, n := 0, r.Intn(3); i < n; i++ {
		a.cells = append(a.cells, a.junk(len(a.cells)))
	}
	for _, q := range a.views {
		if q.open {
			q.cp = len(a.cells) - q.off
		}
	}
}

func bitsOf(xs []float64) []uint64 {
	out := make([]uint64, len(xs))
	for i, x := range xs {
		out[i] = math.Float64bits(x)
	}
	return out
}

// layoutHeap renders the items as `amem` + `aapp` ops.
func layoutHeap(r *h.Rng, p policy, st bool, items []item, count func(string)) []string {
	sp := newArena(r, func(i int) histogram.Span { return histogram.Span{Offset: int32(1000 + i), Length: 3} })
	iv := newArena(r, func(i int) int64 { return int64(900000 + i) })
	fv := newArena(r, func(i int) uint64 { return math.Float64bits(float64(7000+i) + 0.5) })
	type placed struct{ ps, ns, pb, nb, cv *reg }
	pl := make([]placed, len(items))
	for n := range items {
		k := n
		if p.reverse {
			k = len(items) - 1 - n
		}
		x := items[k].x
		if x.F != nil {
			pl[k] = placed{sp.place(r, p, x.F.PositiveSpans, count), sp.place(r, p, x.F.NegativeSpans, count),
				fv.place(r, p, bitsOf(x.F.PositiveBuckets), count), fv.place(r, p, bitsOf(x.F.NegativeBuckets), count),
				fv.place(r, p, bitsOf(x.F.CustomValues), count)}
		} else {
			pl[k] = placed{sp.place(r, p, x.I.PositiveSpans, count), sp.place(r, p, x.I.NegativeSpans, count),
				iv.place(r, p, x.I.PositiveBuckets, count), iv.place(r, p, x.I.NegativeBuckets, count),
				fv.place(r, p, bitsOf(x.I.CustomValues), count)}
		}
	}
	sp.finish(r)
	iv.finish(r)
	fv.finish(r)
	fl := make([]float64, len(fv.cells))
	for i, b := range fv.cells {
		fl[i] = math.Float64frombits(b)
	}
	stf := 0
	if st {
		stf = 1
	}
	ops := []string{fmt.Sprintf("amem %d %s %s %s", stf, histkit.SpansStr(sp.cells), histkit.IntsStr(iv.cells), histkit.FloatsStr(fl))}
	for k, it := range items {
		f := strings.Split(histkit.Tok(it.x), "/")
		f[7], f[8], f[9], f[10], f[11] = pl[k].ps.String(), pl[k].ns.String(), pl[k].pb.String(), pl[k].nb.String(), pl[k].cv.String()
		cut := 0
		if it.cut {
			cut = 1
		}
		ops = append(ops, fmt.Sprintf("aapp %d %d %d %s", cut, it.st, it.t, strings.Join(f, "/")))
		ops = append(ops, it.after...)
	}
	return ops
}

// ---------------------------------------------------------------- directed scripts

func spansOfIdx(idx []int) []histogram.Span {
	var spans []histogram.Span
	next := 0
	for n, k := range idx {
		if n > 0 && k == next {
			spans[len(spans)-1].Length++
		} else {
			spans = append(spans, histogram.Span{Offset: int32(k - next), Length: 1})
		}
		next = k + 1
	}
	return spans
}

// mkH builds a valid histogram with the given absolute bucket counts on the chosen side(s)
// (sides: 0 positive, 1 negative, 2 both).
func mkH(float bool, hint histogram.CounterResetHint, sides int, idx []int, cnt []int64, k int) histkit.H {
	var total int64
	for _, v := range cnt {
		total += v
	}
	mult := int64(1)
	if sides == 2 {
		mult = 2
	}
	zc := int64(k)
	sum := float64(k) * 1.5
	spans := func() []histogram.Span { return spansOfIdx(idx) }
	if float {
		f := &histogram.FloatHistogram{CounterResetHint: hint, Schema: 1, ZeroThreshold: 0.001, Count: float64(total*mult + zc), ZeroCount: float64(zc), Sum: sum}
		vals := func() []float64 {
			out := make([]float64, len(cnt))
			for i, v := range cnt {
				out[i] = float64(v)
			}
			return out
		}
		if sides != 1 {
			f.PositiveSpans, f.PositiveBuckets = spans(), vals()
		}
		if sides != 0 {
			f.NegativeSpans, f.NegativeBuckets = spans(), vals()
		}
		return histkit.H{F: f}
	}
	i := &histogram.Histogram{CounterResetHint: hint, Schema: 1, ZeroThreshold: 0.001, Count: uint64(total*mult + zc), ZeroCount: uint64(zc), Sum: sum}
	if sides != 1 {
		i.PositiveSpans, i.PositiveBuckets = spans(), deltas(cnt)
	}
	if sides != 0 {
		i.NegativeSpans, i.NegativeBuckets = spans(), deltas(cnt)
	}
	return histkit.H{I: i}
}

func staleH(float bool, hint histogram.CounterResetHint) histkit.H {
	if float {
		return histkit.H{F: &histogram.FloatHistogram{Sum: math.Float64frombits(value.StaleNaN), CounterResetHint: hint}}
	}
	return histkit.H{I: &histogram.Histogram{Sum: math.Float64frombits(value.StaleNaN), CounterResetHint: hint}}
}

// directedItems: one chunk history through every outcome with layouts that recur:
// wide layout with empty buckets | backfill only (twice, same layout) | backfill + new bucket (recode) |
// append in place | backfill only | decrease (counter: reset -> new chunk; gauge: backfill) | in place |
// new bucket (forward recode) | stale marker | after the stale marker.
func directedItems(float, gauge, st bool, sides int) []item {
	hint := histogram.UnknownCounterReset
	if gauge {
		hint = histogram.GaugeType
	}
	type step struct {
		idx   []int
		cnt   []int64
		after []string
	}
	steps := []step{
		{[]int{0, 1, 3, 4}, []int64{1, 0, 1, 0}, nil},
		{[]int{0, 3}, []int64{2, 2}, nil},
		{[]int{0, 3}, []int64{3, 3}, []string{"creload"}},
		{[]int{0, 3, 6}, []int64{3, 3, 1}, nil},
		{[]int{0, 1, 3, 4, 6}, []int64{4, 0, 4, 0, 2}, nil},
		{[]int{0, 3, 6}, []int64{5, 4, 2}, []string{"cread"}},
		{[]int{0, 3}, []int64{1, 1}, nil},
		{[]int{0, 3}, []int64{2, 1}, nil},
		{[]int{0, 3, 5}, []int64{2, 1, 1}, nil},
		{nil, nil, nil},
		{[]int{0, 3, 5}, []int64{3, 2, 1}, []string{"cread"}},
	}
	var items []item
	for k, s := range steps {
		t := int64(1000 * (k + 1))
		var stv int64
		if st && k%3 != 2 {
			stv = t - 500
		}
		x := staleH(float, hint)
		if s.idx != nil {
			x = mkH(float, hint, sides, s.idx, s.cnt, k)
		}
		items = append(items, item{st: stv, t: t, x: x, after: s.after})
	}
	return items
}

const numDirected = 72

// directedAlias: flavour × encoding family × counter/gauge × populated sides × capacity mode.  Two heaps in a
// row (the caller overwrites the first one when it is done with it), then one more append from private memory.
func directedAlias(i int, count func(string)) []string {
	float, st, gauge := i&1 == 1, i&2 == 2, i&4 == 4
	sides := (i / 8) % 3
	mode := (i / 24) % 3
	p := policy{share: 100, prefix: 100, empty: 50, reverse: (i/8)%2 == 1}
	p.capW[mode] = 1
	r := h.NewRng(uint64(7700 + i))
	items := directedItems(float, gauge, st, sides)
	ops := layoutHeap(r, p, st, items[:6], count)
	ops = append(ops, "ascr")
	ops = append(ops, layoutHeap(r, p, st, items[6:], count)...)
	hint := histogram.UnknownCounterReset
	if gauge {
		hint = histogram.GaugeType
	}
	last := mkH(float, hint, sides, []int{0, 3, 5}, []int64{4, 3, 2}, len(items))
	ops = append(ops, "ascr", fmt.Sprintf("capp 0 %d %s", 1000*(len(items)+1), histkit.Tok(last)), "cread")
	return ops
}

// genAliasCase: a generated sequence (as in the chunk cases) laid out in shared arrays, 1-3 heaps in a row.
func genAliasCase(c *h.Ctx, r *h.Rng, maxLen int) []string {
	g := histkit.NewGen(r, c.Count)
	st := r.Bool()
	p := policy{share: h.Pick(r, []int{100, 80, 40}), prefix: h.Pick(r, []int{90, 40}), empty: h.Pick(r, []int{40, 10}),
		reverse: r.Chance(30)}
	p.capW = h.Pick(r, [][3]int{{1, 1, 1}, {1, 0, 0}, {0, 1, 0}, {0, 0, 1}, {1, 2, 2}})
	n := 2 + r.Intn(maxLen)
	var items []item
	for i := 0; i < n; i++ {
		t, x := g.Step()
		it := item{t: t, x: x, cut: r.Chance(6)}
		if r.Chance(60) {
			it.st = t - h.PickI64(r, []int64{1, 1000, 15000})
		}
		if r.Chance(4) {
			it.after = append(it.after, "creload")
		}
		if r.Chance(5) {
			it.after = append(it.after, "cread")
		}
		items = append(items, it)
	}
	var ops []string
	for len(items) > 0 {
		k := len(items)
		if r.Chance(60) {
			k = 1 + r.Intn(len(items))
		}
		ops = append(ops, layoutHeap(r, p, st, items[:k], c.Count)...)
		ops = append(ops, "ascr")
		items = items[k:]
	}
	t, x := g.Step()
	ops = append(ops, fmt.Sprintf("capp 0 %d %s", t, histkit.Tok(x)), "cread")
	return ops
}
