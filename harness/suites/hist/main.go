// Suite hist (C11): native histogram chunks, layout functions and the head's histogram append path.
//
// layout ops (hook wrappers over the unexported functions of tsdb/chunkenc):
//   idx <spans>                               -> i1,i2,…            bucketIterator
//   both <spansA> <spansB>                    -> f=<ins> b=<ins> m=<spans>     expandSpansBothWays
//   exp <i|f> <spansA> <spansB> <bA> <bB>     -> ok f=<ins> b=<ins> | reset | panic
//   ins <d|a> <i|f> <in> <outLen> <ins>       -> ok <list> | panic             insert
//   adj <spans> <ins>                         -> <spans>                       adjustForInserts
// chunk ops (real chunk appenders; `cut`=1 emulates the head: new empty chunk, previous appender passed):
//   capp <cut> <t> <hist>   -> <same|new|recoded> hdr=<byte> n=<num> caller=<hist>
//   creload                 -> ok          (last chunk := FromData(bytes); Appender())
//   cread                   -> hdr:n:t=hist;…|hdr:n:…          every chunk, oldest first
// alias ops (the caller's histograms live in shared arrays; real appenders of all four histogram encodings):
//   amem <st> <spans> <ints> <floats>    -> ok      the caller's arrays ([]histogram.Span, []int64, []float64);
//                                                   st=1: EncHistogramST/EncFloatHistogramST chunks, st=0: EncHistogram/EncFloatHistogram
//   aapp <cut> <st> <t> <view>           -> <same|new|recoded> hdr=<byte> n=<num> caller=<hist> mem=<-|cells> held=<-|idxs>
//        view = histogram token whose span/bucket/custom-bounds fields are slice headers off+len+cap (- = nil)
//        into the arrays: arena[off : off+len : off+cap].  All histograms of the case exist from `amem` on (the
//        caller holds them all).  After the append: mem = cells of the arrays (anywhere, also beyond every len)
//        that were written (s<i>:<off>:<len> | i<i>:<v> | f<i>:<bits>); held = ordinals of the caller's OTHER
//        histograms (appended earlier or not yet) whose struct, slice headers or contents changed; caller = the
//        appended struct now.  Replaced slices of the appended struct are then overwritten by the harness (the
//        caller owns them; the chunk must not depend on them).
//   ascr                                 -> ok      the caller overwrites all its arrays (every histogram over them is
//                                                   dead from here on); the appender/chunks must not have kept any of it
// head ops (real tsdb.DB):
//   hcfg <chunkRange>
//   happ <t> <hist> <cut>   -> ok new=<cut> caller=<hist> | err-…   (cut = observed: this sample started a chunk)
//   hreopen | hcompact | hflush
//   hread <stage> <bounds>  -> t=hist;…      (bounds = observed chunk start times, oracle for the model)
package main

import (
	"context"
	"fmt"
	"math"
	"os"
	"strconv"
	"strings"

	"github.com/prometheus/common/promslog"

	"github.com/prometheus/prometheus/model/histogram"
	"github.com/prometheus/prometheus/model/labels"
	"github.com/prometheus/prometheus/storage"
	"github.com/prometheus/prometheus/tsdb"
	"github.com/prometheus/prometheus/tsdb/chunkenc"
	"github.com/prometheus/prometheus/tsdb/chunks"

	"verif/harness/h"
	"verif/harness/histkit"
)

// ---------------------------------------------------------------- text helpers

func insStr(in []chunkenc.VerifInsert) string {
	if len(in) == 0 {
		return "-"
	}
	p := make([]string, len(in))
	for i, x := range in {
		p[i] = fmt.Sprintf("%d:%d:%d", x.Pos, x.Num, x.BucketIdx)
	}
	return strings.Join(p, ",")
}

func parseIns(s string) []chunkenc.VerifInsert {
	if s == "-" {
		return nil
	}
	var out []chunkenc.VerifInsert
	for _, p := range strings.Split(s, ",") {
		f := strings.Split(p, ":")
		a, _ := strconv.Atoi(f[0])
		b, _ := strconv.Atoi(f[1])
		c, _ := strconv.Atoi(f[2])
		out = append(out, chunkenc.VerifInsert{Pos: a, Num: b, BucketIdx: c})
	}
	return out
}

func intsOf(xs []int) string {
	ys := make([]int64, len(xs))
	for i, x := range xs {
		ys[i] = int64(x)
	}
	return histkit.IntsStr(ys)
}

// ---------------------------------------------------------------- layout ops

func layoutOp(f []string) string {
	switch f[0] {
	case "idx":
		return intsOf(chunkenc.VerifBucketIdxs(histkit.ParseSpans(f[1])))
	case "both":
		fw, bw, m := chunkenc.VerifExpandSpansBothWays(histkit.ParseSpans(f[1]), histkit.ParseSpans(f[2]))
		return fmt.Sprintf("f=%s b=%s m=%s", insStr(fw), insStr(bw), histkit.SpansStr(m))
	case "exp":
		a, b := histkit.ParseSpans(f[2]), histkit.ParseSpans(f[3])
		var fw, bw []chunkenc.VerifInsert
		var ok bool
		if f[1] == "f" {
			fw, bw, ok = chunkenc.VerifExpandFloatSpansAndBuckets(a, b, histkit.ParseFloats(f[4]), histkit.ParseFloats(f[5]))
		} else {
			fw, bw, ok = chunkenc.VerifExpandIntSpansAndBuckets(a, b, histkit.ParseInts(f[4]), histkit.ParseInts(f[5]))
		}
		if !ok {
			return "reset"
		}
		return fmt.Sprintf("ok f=%s b=%s", insStr(fw), insStr(bw))
	case "ins":
		n, _ := strconv.Atoi(f[4])
		ins := parseIns(f[5])
		if f[2] == "f" {
			return "ok " + histkit.FloatsStr(chunkenc.VerifInsertFloat(histkit.ParseFloats(f[3]), n, ins, f[1] == "d"))
		}
		return "ok " + histkit.IntsStr(chunkenc.VerifInsertInt(histkit.ParseInts(f[3]), n, ins, f[1] == "d"))
	case "adj":
		return histkit.SpansStr(chunkenc.VerifAdjustForInserts(histkit.ParseSpans(f[1]), parseIns(f[2])))
	}
	return "bad-op"
}

// ---------------------------------------------------------------- chunk ops

type chunkEnv struct {
	chunks []chunkenc.Chunk
	app    chunkenc.Appender
	st     bool // start-timestamp capable encodings
}

func (e *chunkEnv) encOf(x histkit.H) chunkenc.Encoding {
	if x.Float() {
		return chunkenc.ValFloatHistogram.ChunkEncoding(false, e.st)
	}
	return chunkenc.ValHistogram.ChunkEncoding(false, e.st)
}

// hdrOf returns the counter reset header bits (byte 2 of the plain chunks, byte 0 of the ST chunks).
func hdrOf(c chunkenc.Chunk) int {
	switch c.Encoding() {
	case chunkenc.EncHistogramST, chunkenc.EncFloatHistogramST:
		return int(c.Bytes()[0] & 0xC0)
	}
	return int(c.Bytes()[2] & 0xC0)
}

func (e *chunkEnv) appendOp(cut bool, st, t int64, x histkit.H) string {
	var prev chunkenc.Appender
	if len(e.chunks) == 0 || cut || e.chunks[len(e.chunks)-1].Encoding() != e.encOf(x) {
		prev = e.app
		nc, err := chunkenc.NewEmptyChunk(e.encOf(x))
		if err != nil {
			return "err-newchunk"
		}
		e.chunks = append(e.chunks, nc)
		if e.app, err = nc.Appender(); err != nil {
			return "err-appender"
		}
	}
	var (
		newChunk chunkenc.Chunk
		recoded  bool
		app      chunkenc.Appender
		err      error
	)
	if x.Float() {
		newChunk, recoded, app, err = e.app.AppendFloatHistogram(prev, st, t, x.F, false)
	} else {
		newChunk, recoded, app, err = e.app.AppendHistogram(prev, st, t, x.I, false)
	}
	if err != nil {
		return "err-append"
	}
	e.app = app
	out := "same"
	if newChunk != nil {
		if recoded {
			e.chunks[len(e.chunks)-1] = newChunk
			out = "recoded"
		} else {
			e.chunks = append(e.chunks, newChunk)
			out = "new"
		}
	}
	last := e.chunks[len(e.chunks)-1]
	return fmt.Sprintf("%s hdr=%d n=%d caller=%s", out, hdrOf(last), last.NumSamples(), histkit.Tok(x))
}

func (e *chunkEnv) reload() string {
	if len(e.chunks) == 0 {
		return "ok"
	}
	last := e.chunks[len(e.chunks)-1]
	b := append([]byte(nil), last.Bytes()...)
	c, err := chunkenc.FromData(last.Encoding(), b)
	if err != nil {
		return "err-fromdata"
	}
	app, err := c.Appender()
	if err != nil {
		return "err-appender"
	}
	e.chunks[len(e.chunks)-1] = c
	e.app = app
	return "ok"
}

func (e *chunkEnv) read() string {
	if len(e.chunks) == 0 {
		return "-"
	}
	parts := make([]string, len(e.chunks))
	for i, c := range e.chunks {
		ss, er := histkit.Drain(c.Iterator(nil))
		if er != "" {
			return er
		}
		parts[i] = fmt.Sprintf("%d:%d:%s", hdrOf(c), c.NumSamples(), histkit.SamplesStr(ss))
	}
	return strings.Join(parts, "|")
}

// ---------------------------------------------------------------- head ops

type dbEnv struct {
	dir  string
	db   *tsdb.DB
	opts *tsdb.Options
}

var lset = labels.FromStrings("__name__", "nh", "job", "verif")

func (e *dbEnv) open() error {
	db, err := tsdb.Open(e.dir, promslog.NewNopLogger(), nil, e.opts, nil)
	if err != nil {
		return err
	}
	db.DisableCompactions()
	e.db = db
	return nil
}

func (e *dbEnv) close() {
	if e.db != nil {
		e.db.Close()
		e.db = nil
	}
}

func errClass(err error) string {
	if err == nil {
		return "ok"
	}
	s := err.Error()
	switch {
	case strings.Contains(s, "out of order"):
		return "err-ooo"
	case strings.Contains(s, "out of bounds"):
		return "err-oob"
	case strings.Contains(s, "duplicate"):
		return "err-dup"
	case strings.Contains(s, "too old"):
		return "err-too-old"
	case strings.Contains(s, "re-encoding"):
		return "err-reencode"
	}
	return "err-other:" + strings.ReplaceAll(s, " ", "_")
}

// chunkStarts returns the start times of all chunks of the series, oldest first.
func (e *dbEnv) chunkStarts() ([]int64, string) {
	q, err := e.db.ChunkQuerier(math.MinInt64, math.MaxInt64)
	if err != nil {
		return nil, "err-cq"
	}
	defer q.Close()
	ss := q.Select(context.Background(), true, nil, labels.MustNewMatcher(labels.MatchEqual, "__name__", "nh"))
	var out []int64
	for ss.Next() {
		it := ss.At().Iterator(nil)
		for it.Next() {
			out = append(out, it.At().MinTime)
		}
		if it.Err() != nil {
			return nil, "err-cq-iter"
		}
	}
	if ss.Err() != nil {
		return nil, "err-cq-set"
	}
	return out, ""
}

// lastHeadChunkStart returns the start time of the newest head chunk of the series.
func (e *dbEnv) lastHeadChunkStart() (int64, bool) {
	ir, err := e.db.Head().Index()
	if err != nil {
		return 0, false
	}
	defer ir.Close()
	p, err := ir.Postings(context.Background(), "__name__", "nh")
	if err != nil {
		return 0, false
	}
	var b labels.ScratchBuilder
	var chks []chunks.Meta
	for p.Next() {
		if err := ir.Series(p.At(), &b, &chks); err != nil {
			return 0, false
		}
	}
	if len(chks) == 0 {
		return 0, false
	}
	return chks[len(chks)-1].MinTime, true
}

func (e *dbEnv) appendOp(t int64, x histkit.H) string {
	app := e.db.Appender(context.Background())
	_, err := app.AppendHistogram(0, lset, t, x.I, x.F)
	if err != nil {
		app.Rollback()
		return errClass(err)
	}
	if err := app.Commit(); err != nil {
		return "commit-" + errClass(err)
	}
	cut := 0
	if mt, ok := e.lastHeadChunkStart(); ok && mt == t {
		cut = 1
	}
	return fmt.Sprintf("ok new=%d caller=%s", cut, histkit.Tok(x))
}

func (e *dbEnv) read() string {
	q, err := e.db.Querier(math.MinInt64, math.MaxInt64)
	if err != nil {
		return "err-querier"
	}
	defer q.Close()
	ss := q.Select(context.Background(), true, nil, labels.MustNewMatcher(labels.MatchEqual, "__name__", "nh"))
	var all []histkit.Sample
	n := 0
	for ss.Next() {
		n++
		s, er := histkit.Drain(ss.At().Iterator(nil))
		if er != "" {
			return er
		}
		all = append(all, s...)
	}
	if ss.Err() != nil {
		return "err-select"
	}
	if n > 1 {
		return "err-multiple-series"
	}
	return histkit.SamplesStr(all)
}

var _ storage.Appender

// ---------------------------------------------------------------- running a case

func runCase(c *h.Ctx, ops []string) {
	ce := &chunkEnv{}
	ae := &aliasEnv{}
	ae.setup([]string{"amem", "0", "-", "-", "-"}, ops, -1) // alias ops without a heap: only all-nil histograms exist
	de := &dbEnv{}
	defer func() {
		de.close()
		if de.dir != "" {
			os.RemoveAll(de.dir)
		}
	}()
	for oi, op := range ops {
		f := strings.Fields(op)
		out := "bad-op"
		emit := op
		p, pv := h.Try(func() {
			switch f[0] {
			case "idx", "both", "exp", "ins", "adj":
				out = layoutOp(f)
			case "capp":
				t, _ := strconv.ParseInt(f[2], 10, 64)
				out = ce.appendOp(f[1] == "1", 0, t, histkit.Parse(f[3]))
				c.Count("capp:" + strings.Fields(out)[0])
			case "amem":
				out = ae.setup(f, ops, oi)
				ce.st = len(f) > 1 && f[1] == "1"
			case "ascr":
				out = ae.scribbleAll()
			case "aapp":
				st, _ := strconv.ParseInt(f[2], 10, 64)
				t, _ := strconv.ParseInt(f[3], 10, 64)
				out = ae.appendOp(c, ce, oi, f[1] == "1", st, t)
				c.Count("aapp:" + strings.Fields(out)[0])
				if len(ce.chunks) > 0 {
					c.Count("aapp:enc:" + ce.chunks[len(ce.chunks)-1].Encoding().String())
				}
			case "creload":
				out = ce.reload()
			case "cread":
				out = ce.read()
			case "hcfg":
				cr, _ := strconv.ParseInt(f[1], 10, 64)
				o := tsdb.DefaultOptions()
				o.MinBlockDuration, o.MaxBlockDuration = cr, cr
				o.RetentionDuration = 0
				o.WALSegmentSize = 128 * 1024
				de.opts = o
				de.dir = h.TempDir("vhist")
				if err := de.open(); err != nil {
					out = "err-open"
				} else {
					out = "ok"
				}
			case "happ":
				t, _ := strconv.ParseInt(f[1], 10, 64)
				out = de.appendOp(t, histkit.Parse(f[2]))
				cut := "0"
				if strings.HasPrefix(out, "ok new=1") {
					cut = "1"
					c.Count("happ:cut")
				}
				c.Count("happ:" + strings.Fields(out)[0])
				emit = fmt.Sprintf("happ %s %s %s", f[1], f[2], cut)
			case "hreopen":
				if err := de.db.Close(); err != nil {
					out = "err-close"
					return
				}
				de.db = nil
				if err := de.open(); err != nil {
					out = "err-open:" + strings.ReplaceAll(err.Error(), " ", "_")
				} else {
					out = "ok"
				}
			case "hcompact":
				out = errClass(de.db.Compact(context.Background()))
				c.Count(fmt.Sprintf("blocks:%d", len(de.db.Blocks())))
			case "hflush":
				hd := de.db.Head()
				if hd.NumSeries() == 0 || hd.MinTime() > hd.MaxTime() {
					out = "ok"
					return
				}
				out = errClass(de.db.CompactHead(tsdb.NewRangeHead(hd, hd.MinTime(), hd.MaxTime())))
				c.Count(fmt.Sprintf("blocks:%d", len(de.db.Blocks())))
			case "hread":
				starts, er := de.chunkStarts()
				if er != "" {
					out = er
					return
				}
				emit = fmt.Sprintf("hread %s %s", f[1], histkit.IntsStr(starts))
				out = de.read()
			}
		})
		if p {
			out = "panic"
			if f[0] != "ins" && f[0] != "exp" {
				out = "panic:" + strings.ReplaceAll(fmt.Sprint(pv), " ", "_")
			}
			c.Count("panic:" + f[0])
		}
		if f[0] == "hreopen" || f[0] == "hcompact" || f[0] == "hflush" {
			// oracle for the model: where the chunks start now
			if pp, _ := h.Try(func() {
				if starts, er := de.chunkStarts(); er == "" {
					emit = f[0] + " " + histkit.IntsStr(starts)
				} else {
					emit = f[0] + " -"
					out = er
				}
			}); pp {
				emit, out = f[0]+" -", "panic-starts"
			}
		}
		c.Count("op:" + f[0])
		c.Op(emit, out)
	}
}

// ---------------------------------------------------------------- generators

// randIdxSet returns a sorted set of bucket indices.
func randIdxSet(r *h.Rng, lo, hi, n int) []int {
	m := map[int]bool{}
	for i := 0; i < n; i++ {
		m[int(r.Range(int64(lo), int64(hi)))] = true
	}
	var out []int
	for k := lo; k <= hi; k++ {
		if m[k] {
			out = append(out, k)
		}
	}
	return out
}

// spansFor renders a sorted index list as spans, with occasional split and zero-length spans.
func spansFor(r *h.Rng, idx []int) []histogram.Span {
	var spans []histogram.Span
	next := 0
	for n, k := range idx {
		if n > 0 && k == next && !r.Chance(8) {
			spans[len(spans)-1].Length++
		} else {
			off := k - next
			if n > 0 && off > 1 && r.Chance(10) {
				a := r.Intn(off)
				spans = append(spans, histogram.Span{Offset: int32(a), Length: 0})
				off -= a
			}
			spans = append(spans, histogram.Span{Offset: int32(off), Length: 1})
		}
		next = k + 1
	}
	if r.Chance(5) {
		spans = append(spans, histogram.Span{Offset: int32(r.Intn(3)), Length: 0})
	}
	if r.Chance(3) {
		spans = append([]histogram.Span{{Offset: int32(r.Range(-2, 2)), Length: 0}}, spans...)
		// the first real span's offset is now relative to the zero-length one
		if len(spans) > 1 {
			spans[1].Offset -= spans[0].Offset
		}
	}
	return spans
}

func relatedSets(r *h.Rng) ([]int, []int) {
	a := randIdxSet(r, -6, 10, r.Intn(8))
	var b []int
	switch r.Intn(5) {
	case 0: // superset
		b = append(b, a...)
		b = mergeSets(b, randIdxSet(r, -8, 12, 1+r.Intn(4)))
	case 1: // subset
		for _, x := range a {
			if r.Chance(60) {
				b = append(b, x)
			}
		}
	case 2:
		b = append(b, a...)
	case 3:
		b = randIdxSet(r, -8, 12, r.Intn(8))
	default: // some missing, some new
		for _, x := range a {
			if r.Chance(70) {
				b = append(b, x)
			}
		}
		b = mergeSets(b, randIdxSet(r, -8, 12, 1+r.Intn(3)))
	}
	return a, b
}

func mergeSets(a, b []int) []int {
	m := map[int]bool{}
	for _, x := range a {
		m[x] = true
	}
	for _, x := range b {
		m[x] = true
	}
	var out []int
	for k := -100; k <= 100; k++ {
		if m[k] {
			out = append(out, k)
		}
	}
	return out
}

func genLayoutCase(r *h.Rng) []string {
	var ops []string
	n := 4 + r.Intn(6)
	for i := 0; i < n; i++ {
		a, b := relatedSets(r)
		sa, sb := spansFor(r, a), spansFor(r, b)
		switch r.Intn(6) {
		case 0:
			ops = append(ops, "idx "+histkit.SpansStr(sa))
		case 1:
			ops = append(ops, fmt.Sprintf("both %s %s", histkit.SpansStr(sa), histkit.SpansStr(sb)))
		case 2, 3:
			// absolute counts: a's mostly small (zeros allow backward inserts), b's ≥ a's mostly
			float := r.Bool()
			va := make([]int64, len(a))
			am := map[int]int64{}
			for j := range va {
				va[j] = int64(r.Intn(4))
				if r.Chance(40) {
					va[j] = 0
				}
				am[a[j]] = va[j]
			}
			vb := make([]int64, len(b))
			for j := range vb {
				vb[j] = am[b[j]] + int64(r.Intn(3))
				if r.Chance(6) && vb[j] > 0 {
					vb[j]--
				}
			}
			if float {
				fa, fbb := make([]float64, len(va)), make([]float64, len(vb))
				for j, v := range va {
					fa[j] = float64(v) / 2
				}
				for j, v := range vb {
					fbb[j] = float64(v) / 2
				}
				ops = append(ops, fmt.Sprintf("exp f %s %s %s %s", histkit.SpansStr(sa), histkit.SpansStr(sb), histkit.FloatsStr(fa), histkit.FloatsStr(fbb)))
			} else {
				ops = append(ops, fmt.Sprintf("exp i %s %s %s %s", histkit.SpansStr(sa), histkit.SpansStr(sb), histkit.IntsStr(deltas(va)), histkit.IntsStr(deltas(vb))))
			}
		case 4:
			// inserts for `in` of length len(a): increasing positions mostly
			var ins []chunkenc.VerifInsert
			pos, total := 0, 0
			k := r.Intn(4)
			for j := 0; j < k; j++ {
				pos += r.Intn(3)
				if r.Chance(5) {
					pos -= 2
					if pos < 0 {
						pos = 0
					}
				}
				if pos > len(a) {
					pos = len(a)
				}
				num := 1 + r.Intn(3)
				if r.Chance(4) {
					num = 0
				}
				ins = append(ins, chunkenc.VerifInsert{Pos: pos, Num: num, BucketIdx: int(r.Range(-9, 9))})
				if num == 0 {
					total++
				} else {
					total += num
				}
			}
			outLen := len(a) + total
			if r.Chance(6) {
				outLen += int(r.Range(-2, 2))
				if outLen < 0 {
					outLen = 0
				}
			}
			vals := make([]int64, len(a))
			for j := range vals {
				vals[j] = r.Range(-5, 9)
			}
			switch r.Intn(3) {
			case 0:
				ops = append(ops, fmt.Sprintf("ins d i %s %d %s", histkit.IntsStr(vals), outLen, insStr(ins)))
			case 1:
				ops = append(ops, fmt.Sprintf("ins a i %s %d %s", histkit.IntsStr(vals), outLen, insStr(ins)))
			default:
				fv := make([]float64, len(vals))
				for j, v := range vals {
					fv[j] = float64(v) / 4
				}
				ops = append(ops, fmt.Sprintf("ins a f %s %d %s", histkit.FloatsStr(fv), outLen, insStr(ins)))
			}
		default:
			// adjustForInserts with the backward inserts a real expansion produced, or random ones
			if r.Bool() {
				_, bw, _ := chunkenc.VerifExpandIntSpansAndBuckets(sa, sb, make([]int64, len(a)), make([]int64, len(b)))
				ops = append(ops, fmt.Sprintf("adj %s %s", histkit.SpansStr(sb), insStr(bw)))
			} else {
				var ins []chunkenc.VerifInsert
				bi := int(r.Range(-8, 4))
				for j := r.Intn(3); j >= 0; j-- {
					num := 1 + r.Intn(3)
					ins = append(ins, chunkenc.VerifInsert{Pos: 0, Num: num, BucketIdx: bi})
					bi += num + r.Intn(4)
				}
				ops = append(ops, fmt.Sprintf("adj %s %s", histkit.SpansStr(sa), insStr(ins)))
			}
		}
	}
	return ops
}

func deltas(abs []int64) []int64 {
	out := make([]int64, len(abs))
	var last int64
	for i, v := range abs {
		out[i] = v - last
		last = v
	}
	return out
}

func genChunkCase(c *h.Ctx, r *h.Rng, maxLen int) []string {
	g := histkit.NewGen(r, c.Count)
	n := 2 + r.Intn(maxLen)
	var ops []string
	for i := 0; i < n; i++ {
		t, x := g.Step()
		cut := 0
		if r.Chance(6) {
			cut = 1
		}
		ops = append(ops, fmt.Sprintf("capp %d %d %s", cut, t, histkit.Tok(x)))
		if r.Chance(4) {
			ops = append(ops, "creload")
		}
		if r.Chance(5) {
			ops = append(ops, "cread")
		}
	}
	ops = append(ops, "cread")
	return ops
}

func genHeadCase(c *h.Ctx, r *h.Rng, maxLen int) []string {
	g := histkit.NewGen(r, c.Count)
	n := 2 + r.Intn(maxLen)
	ops := []string{fmt.Sprintf("hcfg %d", h.PickI64(r, []int64{3600000, 7200000, 600000}))}
	for i := 0; i < n; i++ {
		t, x := g.Step()
		ops = append(ops, fmt.Sprintf("happ %d %s 0", t, histkit.Tok(x)))
		if r.Chance(3) {
			ops = append(ops, "hread mid -")
		}
		if r.Chance(2) {
			ops = append(ops, "hreopen -")
		}
	}
	ops = append(ops, "hread head -", "hreopen -", "hread reopened -")
	if r.Bool() {
		ops = append(ops, "hcompact -", "hread compacted -")
	}
	ops = append(ops, "hflush -", "hread block -", "hreopen -", "hread block-reopened -")
	return ops
}

func main() {
	c := h.Init()
	defer c.Finish()
	if c.Replay != "" {
		for _, cs := range c.ReplayCases() {
			c.Case(strings.TrimPrefix(cs[0], "case "))
			runCase(c, cs[1:])
		}
		return
	}
	maxLen := 60
	if c.Tier == "thorough" {
		maxLen = 220
	}
	// directed alias cases first (independent of the seed)
	for i := 0; i < numDirected; i++ {
		ops := directedAlias(i, c.Count)
		c.Case(fmt.Sprintf("D%d", i))
		c.NonTrivial(strings.Join(ops, ";"))
		runCase(c, ops)
	}
	for i := 0; i < c.N; i++ {
		r := c.Rng.Fork()
		var ops []string
		var id string
		switch k := i % 10; {
		case k < 2:
			ops, id = genLayoutCase(r), fmt.Sprintf("L%d", i)
		case k < 7:
			ops, id = genChunkCase(c, r, maxLen), fmt.Sprintf("K%d", i)
		default:
			ops, id = genHeadCase(c, r, maxLen), fmt.Sprintf("H%d", i)
		}
		c.Case(id)
		c.NonTrivial(strings.Join(ops, ";"))
		runCase(c, ops)
	}
	// generated alias cases (after the others, so that those keep their random streams)
	for i := 0; i < c.N/3; i++ {
		r := c.Rng.Fork()
		ops := genAliasCase(c, r, maxLen)
		c.Case(fmt.Sprintf("A%d", i))
		c.NonTrivial(strings.Join(ops, ";"))
		runCase(c, ops)
	}
}
