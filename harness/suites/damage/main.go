// Suite damage (C04): damaged on-disk data never yields wrong samples.
//
// Two kinds of cases.
//
//  1. `case db-<wseed>`: a small real tsdb.DB is built by a deterministic workload (3+ series, several
//     open/close cycles so that the WAL has several 32 KiB segments, a head compaction so that blocks
//     and a checkpoint exist, in-order and out-of-order commits so that a WBL exists, a deletion, series
//     created late; SamplesPerChunk=4 so that m-mapped head-chunk files exist).  Then, for every
//     selected damage site (file class, segment, byte offset, mutation) a copy of the directory on
//     tmpfs is damaged and opened with the same options; the harness records the open result, the
//     files removed/altered by a failed open, all samples, then appends new samples (existing series
//     and a new one), closes, reopens and dumps again.  The op lines carry these *observations* (the
//     model column is `-`, as in suite crash); everything is decided by the judge.
//     The `logs` line carries the bytes of the WAL / WBL / checkpoint segments, and for WAL-class sites
//     the implementation column carries the corruption position `Repair` was called with (captured
//     from the logger) — that part IS predicted by the Lean model (`readAll` + record decoders).
//
//     `case dbo-<wseed>-chunks` (workload seeds >= 9000000, see buildDirected): the same, on a directed database
//     without blocks whose newest head-chunk file ends with a given sequence of in-order / out-of-order chunks;
//     sites = truncation at the chunk starts +0..+8 and bit flips inside the first / last chunk.
//
//  2. `case wl-<seed>`: T2 on wlog alone (real 32 KiB page, one page per segment): a log of generated
//     records is written with the real `wlog.WL`, closed, one segment is damaged, every segment is read
//     the way `Head.Init` does (one `Reader` over one `segmentBufReader` per segment), `WL.Repair` is run
//     with the first corruption, further records are logged, the log is closed and read back.
//     Lean `Damage.readSegs` / `repair` / writer must agree byte for byte (segment length + FNV-1a64).
//
// ops:
//   db <wseed> events=<…> base=<s:t:v,…> full=<s:t:v,…>                      -> -
//   logs <wseed> wal=<idx:hex;…> wbl=<idx:hex;…> ckpt=<idx:hex;…>            -> -
//   site <wseed> <class> <seg> <off> <mut> j=… jw=… cb=… cut=… open1=… tree1=… present1=… new=… app=… open2=… present2=…
//        (cb=1: truncation of a NON-newest head-chunk file at a chunk boundary; cut=: kinds I/O of the chunks a
//         truncation of a head-chunk file removes)
//                          -> repair=<none|wal:seg:off|wbl:seg:off> wal=<idx:len:fnv,…> wbl=<…>   (the log dirs after the open)
//   wopen <pages per segment>            -> ok
//   wlog <len:seed,…>                    -> ok segs=<n>
//   wclose                               -> ok <len:fnv per segment>
//   wdamage <seg> <off> <mut>            -> ok <len:fnv of that segment>      (mut: trunc|flip0|flip7|zero|xor<mask>)
//   wread                                -> <records per segment…> <eof|err:class@seg:off>
//   wrepair                              -> ok <len:fnv per segment> | none | err:<class>
//   wlogmore <len:seed,…>                -> ok segs=<n>
//   wreadall                             -> <records> <status>                 (multi-segment reader, after close)
package main

import (
	"context"
	"encoding/binary"
	"errors"
	"fmt"
	"hash/fnv"
	"io"
	"log/slog"
	"math"
	"os"
	"path/filepath"
	"runtime"
	"sort"
	"strconv"
	"strings"
	"sync"

	"github.com/prometheus/prometheus/model/labels"
	"github.com/prometheus/prometheus/storage"
	"github.com/prometheus/prometheus/tsdb"
	"github.com/prometheus/prometheus/tsdb/chunkenc"
	"github.com/prometheus/prometheus/tsdb/wlog"
	"github.com/prometheus/prometheus/util/compression"

	"verif/harness/h"
)

// ------------------------------------------------------------------ logger capturing Repair's position

type capHandler struct {
	mu     sync.Mutex
	repair []string
}

func (c *capHandler) Enabled(context.Context, slog.Level) bool { return true }
func (c *capHandler) Handle(_ context.Context, r slog.Record) error {
	if os.Getenv("C04_LOG") != "" {
		line := r.Level.String() + " " + r.Message
		r.Attrs(func(a slog.Attr) bool { line += " " + a.Key + "=" + a.Value.String(); return true })
		fmt.Fprintln(os.Stderr, line)
	}
	if r.Message == "Starting corruption repair" {
		seg, off := "?", "?"
		r.Attrs(func(a slog.Attr) bool {
			switch a.Key {
			case "segment":
				seg = a.Value.String()
			case "offset":
				off = a.Value.String()
			}
			return true
		})
		c.mu.Lock()
		c.repair = append(c.repair, seg+":"+off)
		c.mu.Unlock()
	}
	return nil
}
func (c *capHandler) WithAttrs([]slog.Attr) slog.Handler { return c }
func (c *capHandler) WithGroup(string) slog.Handler      { return c }

// ------------------------------------------------------------------ DB workload

func dbOpts() *tsdb.Options {
	o := tsdb.DefaultOptions()
	o.MinBlockDuration, o.MaxBlockDuration = 1000, 1000
	o.WALSegmentSize = 32 * 1024
	o.HeadChunksWriteQueueSize = 0
	o.SamplesPerChunk = 4
	o.RetentionDuration = 0
	o.OutOfOrderTimeWindow = 100000
	o.OutOfOrderCapMax = 4
	return o
}

func lbls(s string) labels.Labels { return labels.FromStrings("__name__", "m", "s", s) }

func seriesKey(l labels.Labels) string {
	if l.Len() == 2 && l.Get("__name__") == "m" && l.Get("s") != "" && !strings.ContainsAny(l.Get("s"), ":, |/=") {
		return l.Get("s")
	}
	return "L" + h.HexS(l.String())
}

type smp struct {
	s   string
	t   int64
	v   float64
	ooo bool
}

func (x smp) key() string { return fmt.Sprintf("%s:%d:%016x", x.s, x.t, math.Float64bits(x.v)) }

type event struct {
	kind           string // c | d
	smps           []smp
	ds             string
	da, db         int64
	walSeg, wblSeg int
	walEnd, wblEnd int64
}

func (e event) String() string {
	pos := fmt.Sprintf("%d:%d/%d:%d", e.walSeg, e.walEnd, e.wblSeg, e.wblEnd)
	if e.kind == "d" {
		return fmt.Sprintf("d/%s/%s:%d:%d", pos, e.ds, e.da, e.db)
	}
	var xs []string
	for _, x := range e.smps {
		o := "i"
		if x.ooo {
			o = "o"
		}
		xs = append(xs, x.key()+":"+o)
	}
	return fmt.Sprintf("c/%s/%s", pos, strings.Join(xs, ","))
}

// lastSeg returns index and size of the newest segment file in dir (-1,0 if none).
func lastSeg(dir string) (int, int64) {
	ents, err := os.ReadDir(dir)
	if err != nil {
		return -1, 0
	}
	best, size := -1, int64(0)
	for _, e := range ents {
		k, err := strconv.Atoi(e.Name())
		if err != nil || e.IsDir() {
			continue
		}
		if k > best {
			best = k
			if fi, err := e.Info(); err == nil {
				size = fi.Size()
			}
		}
	}
	return best, size
}

type workload struct {
	dir    string
	db     *tsdb.DB
	events []event
	maxT   map[string]int64
	used   map[string]bool
	vctr   int
	err    error
}

func (w *workload) open() {
	if w.err != nil {
		return
	}
	db, err := tsdb.Open(w.dir, slog.New(&capHandler{}), nil, dbOpts(), nil)
	if err != nil {
		w.err = err
		return
	}
	db.DisableCompactions()
	w.db = db
}

func (w *workload) close() {
	if w.err != nil {
		return
	}
	w.err = w.db.Close()
}

func (w *workload) pos(e *event) {
	e.walSeg, e.walEnd = lastSeg(filepath.Join(w.dir, "wal"))
	e.wblSeg, e.wblEnd = lastSeg(filepath.Join(w.dir, "wbl"))
}

// commit appends the given (series, t) pairs in one transaction; values are fresh small integers.
func (w *workload) commit(pts []smp) {
	if w.err != nil {
		return
	}
	app := w.db.Appender(context.Background())
	var ev event
	ev.kind = "c"
	for _, p := range pts {
		w.vctr++
		p.v = float64(w.vctr)
		mt, seen := w.maxT[p.s]
		p.ooo = seen && p.t < mt
		// An out-of-order sample at the timestamp of an existing sample of the series would be accepted next
		// to it (queries then return one of the two values: C01's business); keep timestamps distinct.
		for p.ooo && w.used[fmt.Sprintf("%s:%d", p.s, p.t)] {
			p.t++
		}
		w.used[fmt.Sprintf("%s:%d", p.s, p.t)] = true
		if _, err := app.Append(0, lbls(p.s), p.t, p.v); err != nil {
			continue
		}
		if !seen || p.t > mt {
			w.maxT[p.s] = p.t
		}
		ev.smps = append(ev.smps, p)
	}
	if err := app.Commit(); err != nil {
		w.err = err
		return
	}
	w.pos(&ev)
	w.events = append(w.events, ev)
}

func (w *workload) del(s string, a, b int64) {
	if w.err != nil {
		return
	}
	if err := w.db.Delete(context.Background(), a, b, labels.MustNewMatcher(labels.MatchEqual, "s", s)); err != nil {
		w.err = err
		return
	}
	ev := event{kind: "d", ds: s, da: a, db: b}
	w.pos(&ev)
	w.events = append(w.events, ev)
}

// build runs the workload of seed wseed in dir.
func build(dir string, wseed uint64) ([]event, error) {
	if wseed >= directedBase {
		return buildDirected(dir, wseed)
	}
	r := h.NewRng(wseed*7919 + 17)
	w := &workload{dir: dir, maxT: map[string]int64{}, used: map[string]bool{}}
	names := []string{"a", "b", "c"}
	cur := int64(100 + r.Intn(50))
	step := func() int64 { cur += int64(120 + r.Intn(120)); return cur }
	inorder := func(k int) []smp {
		var pts []smp
		for _, s := range names {
			if k > 0 && r.Chance(25) {
				continue
			}
			n := 1 + r.Intn(2)
			for i := 0; i < n; i++ {
				pts = append(pts, smp{s: s, t: cur + int64(i)*7})
			}
		}
		if len(pts) == 0 {
			pts = append(pts, smp{s: "a", t: cur})
		}
		return pts
	}
	// sessions 1..4: in-order data up to ~3600; four segments so that the compaction writes a checkpoint
	for sess := 0; sess < 4; sess++ {
		w.open()
		for cur < int64(900*(sess+1)) {
			w.commit(inorder(len(w.events)))
			step()
		}
		if sess < 3 {
			w.close()
		}
	}
	if w.err != nil {
		return nil, w.err
	}
	// head compaction: blocks [0,1000) [1000,2000) (+[2000,3000)), checkpoint, WAL truncation
	if err := w.db.Compact(context.Background()); err != nil {
		return nil, fmt.Errorf("compact: %w", err)
	}
	// after the compaction: in-order, out-of-order (→ WBL), a deletion inside the head, a late series
	oooT := func() int64 { return 3005 + int64(r.Intn(400)) }
	nPost := 3 + r.Intn(3)
	for i := 0; i < nPost; i++ {
		pts := inorder(1)
		if i >= 1 || r.Bool() {
			pts = append(pts, smp{s: h.Pick(r, names), t: oooT()})
		}
		if i == 1 {
			pts = append(pts, smp{s: "d", t: cur + 3})
			names = append(names, "d")
		}
		w.commit(pts)
		step()
		if i == 1 {
			s := h.Pick(r, []string{"a", "b", "c"})
			w.del(s, cur-300, cur-30)
		}
	}
	w.close()
	// session 4: newest WAL and WBL segments
	w.open()
	n4 := 2 + r.Intn(3)
	for i := 0; i < n4; i++ {
		pts := inorder(1)
		if i == 0 {
			pts = append(pts, smp{s: "e", t: cur + 5})
			names = append(names, "e")
		}
		if r.Chance(70) {
			pts = append(pts, smp{s: h.Pick(r, names[:3]), t: oooT()})
		}
		w.commit(pts)
		step()
	}
	w.close()
	return w.events, w.err
}

// ------------------------------------------------------------------ directed workloads: out-of-order chunks at the file tail

// Workload seeds >= directedBase build a database without blocks whose NEWEST head-chunk file ends with a given
// sequence of m-mapped chunks (I = in-order, O = out-of-order), e.g. "OIO" = … out-of-order, in-order, out-of-order
// chunk, end of file.  The samples of an out-of-order chunk exist in the WBL (samples records followed by the
// m-map marker carrying the chunk's (file, offset) reference) and in that chunk; whether a restart keeps them
// when the chunk did not reach the disk is decided in loadWBL by comparing the marker's reference with the
// last chunk loaded from chunks_head.  variant = (wseed - directedBase) % directedSlots: pattern index =
// variant/2 (slots without a pattern: "R"), variant odd = one older head-chunk file precedes the newest one
// (two sessions); the prefix before the tail, the series and all timestamps come from the workload PRNG.
// Pattern "R" = random tail of 1-4 chunks with at least one out-of-order chunk.  Corpus files name workload
// seeds: only ever append to tailPatterns.
const (
	directedBase  = 9000000
	directedSlots = 64
)

var tailPatterns = []string{"O", "OO", "OOO", "IO", "OIO", "IOO", "OIOO", "IOIO", "OI", "OOI", "OIOI", "R"}

func directedVariant(wseed uint64) (pattern string, twoFiles bool) {
	v := int((wseed - directedBase) % directedSlots)
	if v/2 >= len(tailPatterns) {
		return "R", v%2 == 1
	}
	return tailPatterns[v/2], v%2 == 1
}

type directed struct {
	w       *workload
	r       *h.Rng
	cur     int64          // in-order clock: every in-order commit lies in a new chunk range (1000)
	oooHead map[string]int // samples in the series' out-of-order head chunk
	split   bool
}

// mmapIno makes series s m-map its in-order head chunk: an in-order sample in a new chunk range opens a new head
// chunk, then the periodic m-mapping pass of DB.run (db.ForceHeadMMap) writes the previous one.
func (d *directed) mmapIno(s string, exact bool) {
	d.cur += 1000 + int64(d.r.Intn(3))*1000
	pts := []smp{{s: s, t: d.cur + int64(d.r.Intn(400))}}
	if !exact && d.r.Chance(30) {
		// a companion series moves along (its head chunk is m-mapped too, right before or after)
		other := h.Pick(d.r, []string{"b", "c"})
		if other != s {
			if d.r.Bool() {
				pts = append(pts, smp{s: other, t: d.cur + 500})
			} else {
				pts = append([]smp{{s: other, t: d.cur + 1}}, pts...)
			}
		}
	}
	d.w.commit(pts)
	if d.w.err == nil {
		d.w.db.ForceHeadMMap()
	}
}

func (d *directed) oooT() int64 { return 10000 + int64(d.r.Intn(30000)) }

// mmapOoo makes series s m-map its out-of-order head chunk: as many out-of-order samples as fit (cap 4) plus
// one; in one commit or spread over several.  Afterwards the new out-of-order head chunk holds one sample.
func (d *directed) mmapOoo(s string) {
	need := 4 - d.oooHead[s] + 1
	var pts []smp
	for i := 0; i < need; i++ {
		pts = append(pts, smp{s: s, t: d.oooT()})
	}
	for len(pts) > 0 {
		k := len(pts)
		if d.split && k > 1 {
			k = 1 + d.r.Intn(k)
		}
		d.w.commit(pts[:k])
		pts = pts[k:]
	}
	d.oooHead[s] = 1
}

func (d *directed) run(pattern string, exact bool) {
	for _, ch := range pattern {
		if ch == 'O' {
			d.mmapOoo(h.Pick(d.r, []string{"a", "a", "c"}))
		} else {
			d.mmapIno(h.Pick(d.r, []string{"b", "b", "c"}), exact)
		}
	}
}

func randPattern(r *h.Rng, lo, hi int, needO bool) string {
	for {
		n := lo + r.Intn(hi-lo+1)
		var sb strings.Builder
		for i := 0; i < n; i++ {
			sb.WriteByte("IO"[r.Intn(2)])
		}
		if !needO || strings.Contains(sb.String(), "O") {
			return sb.String()
		}
	}
}

func buildDirected(dir string, wseed uint64) ([]event, error) {
	r := h.NewRng(wseed*104729 + 5)
	pattern, twoFiles := directedVariant(wseed)
	if pattern == "R" {
		pattern = randPattern(r, 1, 4, true)
	}
	w := &workload{dir: dir, maxT: map[string]int64{}, used: map[string]bool{}}
	d := &directed{w: w, r: r, cur: 50000 + int64(r.Intn(500)), oooHead: map[string]int{}, split: r.Chance(60)}
	w.open()
	// a (out-of-order only after its first sample), b (in-order only), c (both)
	w.commit([]smp{{s: "a", t: d.cur}, {s: "b", t: d.cur + 3}, {s: "c", t: d.cur + 5}})
	if twoFiles {
		d.run(randPattern(r, 2, 4, true), false)
		w.close()
		w.open()
	}
	d.run(randPattern(r, 0, 2, false), false)
	d.run(pattern, true)
	// sometimes samples behind the last chunk that live in the logs only
	if r.Chance(40) {
		w.commit([]smp{{s: "a", t: d.oooT()}})
		d.oooHead["a"]++
		if d.oooHead["a"] > 4 {
			d.oooHead["a"] = 1
			pattern += "O"
		}
	}
	w.close()
	if w.err != nil {
		return nil, w.err
	}
	// the newest head-chunk file must end with the pattern
	files := listFiles(dir)
	newest := -1
	for _, f := range files {
		if f.class == "chunks" && f.seg > newest {
			newest = f.seg
		}
	}
	fi := findFile(files, "chunks", newest)
	if fi == nil {
		return nil, fmt.Errorf("directed %d: no head-chunk file", wseed)
	}
	b, _ := os.ReadFile(filepath.Join(dir, fi.path))
	if l := layoutString(chunkLayout(b)); !strings.HasSuffix(l, pattern) {
		return nil, fmt.Errorf("directed %d: newest head-chunk file has layout %s, wanted tail %s", wseed, l, pattern)
	}
	return w.events, nil
}

// ------------------------------------------------------------------ dump, tree, copy

func dump(db *tsdb.DB) (string, string) {
	q, err := db.Querier(math.MinInt64, math.MaxInt64)
	if err != nil {
		return "err:querier", "-"
	}
	defer q.Close()
	ss := q.Select(context.Background(), true, nil, labels.MustNewMatcher(labels.MatchRegexp, "__name__", ".*"))
	var out []string
	for ss.Next() {
		s := ss.At()
		key := seriesKey(s.Labels())
		it := s.Iterator(nil)
		for vt := it.Next(); vt != chunkenc.ValNone; vt = it.Next() {
			if vt != chunkenc.ValFloat {
				out = append(out, fmt.Sprintf("%s:%d:hist", key, it.AtT()))
				continue
			}
			t, v := it.At()
			out = append(out, fmt.Sprintf("%s:%d:%016x", key, t, math.Float64bits(v)))
		}
		if it.Err() != nil {
			return "err:iter", "-"
		}
	}
	if ss.Err() != nil {
		return "err:select", "-"
	}
	sort.Strings(out)
	if len(out) == 0 {
		return "ok", "-"
	}
	return "ok", strings.Join(out, ",")
}

func fnvFile(p string) string {
	b, err := os.ReadFile(p)
	if err != nil {
		return "unreadable"
	}
	f := fnv.New64a()
	f.Write(b)
	return fmt.Sprintf("%d:%016x", len(b), f.Sum64())
}

func tree(dir string) map[string]string {
	m := map[string]string{}
	filepath.Walk(dir, func(p string, fi os.FileInfo, err error) error {
		if err != nil || fi.IsDir() {
			return nil
		}
		rel, _ := filepath.Rel(dir, p)
		m[rel] = fnvFile(p)
		return nil
	})
	return m
}

var ulidLike = func(s string) bool { return len(s) == 26 }

// canonPath replaces block ULIDs by B.
func canonPath(p string) string {
	parts := strings.Split(p, string(filepath.Separator))
	if len(parts) > 0 && ulidLike(parts[0]) {
		parts[0] = "B"
	}
	return strings.Join(parts, "/")
}

func treeDiff(before, after map[string]string) string {
	var ch []string
	for p, hsh := range before {
		a, ok := after[p]
		if !ok {
			ch = append(ch, "removed:"+canonPath(p))
		} else if a != hsh {
			ch = append(ch, "altered:"+canonPath(p))
		}
	}
	sort.Strings(ch)
	if len(ch) == 0 {
		return "same"
	}
	return strings.Join(ch, ",")
}

func copyDir(src, dst string) error {
	return filepath.Walk(src, func(p string, fi os.FileInfo, err error) error {
		if err != nil {
			return err
		}
		rel, _ := filepath.Rel(src, p)
		if fi.IsDir() {
			return os.MkdirAll(filepath.Join(dst, rel), 0o755)
		}
		if rel == "lock" {
			return nil
		}
		b, err := os.ReadFile(p)
		if err != nil {
			return err
		}
		return os.WriteFile(filepath.Join(dst, rel), b, 0o644)
	})
}

func errClass(err error) string {
	if err == nil {
		return "ok"
	}
	s := err.Error()
	for _, k := range []string{"repair corrupted WAL", "repair corrupted WBL", "backfill checkpoint", "corruption in head chunk", "unexpected non-zero byte", "checksum mismatch"} {
		if strings.Contains(s, k) {
			return "err:" + strings.ReplaceAll(k, " ", "_")
		}
	}
	return "err:other"
}

// ------------------------------------------------------------------ damage

// mutate applies mutation mut at offset off to b; returns nil if it would change nothing.
func mutate(b []byte, off int, mut string) []byte {
	if off < 0 || off > len(b) {
		return nil
	}
	if mut == "trunc" {
		if off == len(b) {
			return nil
		}
		return append([]byte{}, b[:off]...)
	}
	if off >= len(b) {
		return nil
	}
	c := append([]byte{}, b...)
	switch {
	case mut == "flip0":
		c[off] ^= 1
	case mut == "flip7":
		c[off] ^= 0x80
	case mut == "zero":
		if c[off] == 0 {
			return nil
		}
		c[off] = 0
	case strings.HasPrefix(mut, "xor"):
		m, _ := strconv.Atoi(mut[3:])
		if m&0xff == 0 {
			return nil
		}
		c[off] ^= byte(m)
	default:
		return nil
	}
	return c
}

type fileInfo struct {
	class string // wal | wbl | ckpt | chunks
	seg   int
	path  string // relative
	size  int
	used  int // bytes up to and including the last non-zero byte
}

func listFiles(dir string) []fileInfo {
	var out []fileInfo
	add := func(class, sub string) {
		ents, _ := os.ReadDir(filepath.Join(dir, sub))
		for _, e := range ents {
			k, err := strconv.Atoi(e.Name())
			if err != nil || e.IsDir() {
				continue
			}
			p := filepath.Join(sub, e.Name())
			b, _ := os.ReadFile(filepath.Join(dir, p))
			used := len(b)
			for used > 0 && b[used-1] == 0 {
				used--
			}
			out = append(out, fileInfo{class, k, p, len(b), used})
		}
	}
	add("wal", "wal")
	add("wbl", "wbl")
	add("chunks", "chunks_head")
	ents, _ := os.ReadDir(filepath.Join(dir, "wal"))
	for _, e := range ents {
		if e.IsDir() && strings.HasPrefix(e.Name(), "checkpoint.") && !strings.HasSuffix(e.Name(), ".tmp") {
			add("ckpt", filepath.Join("wal", e.Name()))
		}
	}
	return out
}

type site struct {
	class string
	seg   int
	off   int
	mut   string
}

type siteResult struct {
	obs    string
	repair string
	skip   bool
}

func findFile(files []fileInfo, class string, seg int) *fileInfo {
	for i := range files {
		if files[i].class == class && files[i].seg == seg {
			return &files[i]
		}
	}
	return nil
}

func runSite(master string, files []fileInfo, wseed uint64, st site, nEvents int) siteResult {
	fi := findFile(files, st.class, st.seg)
	if fi == nil {
		return siteResult{skip: true}
	}
	orig, err := os.ReadFile(filepath.Join(master, fi.path))
	if err != nil {
		return siteResult{skip: true}
	}
	dmg := mutate(orig, st.off, st.mut)
	if dmg == nil {
		return siteResult{skip: true}
	}
	dir := h.TempDir("c04site")
	defer os.RemoveAll(dir)
	if err := copyDir(master, dir); err != nil {
		return siteResult{obs: "harness-error:copy"}
	}
	if err := os.WriteFile(filepath.Join(dir, fi.path), dmg, 0o644); err != nil {
		return siteResult{obs: "harness-error:write"}
	}
	before := tree(dir)
	capH := &capHandler{}
	var obs []string
	repair := "none"
	add := func(k, v string) { obs = append(obs, k+"="+v) }
	var db *tsdb.DB
	var oerr error
	if p, v := h.Try(func() { db, oerr = tsdb.Open(dir, slog.New(capH), nil, dbOpts(), nil) }); p {
		add("open1", "panic:"+strings.ReplaceAll(fmt.Sprint(v), " ", "_"))
		return siteResult{obs: strings.Join(obs, " "), repair: repair}
	}
	if len(capH.repair) > 0 {
		which := "wal"
		if st.class == "wbl" {
			which = "wbl"
		}
		repair = which + ":" + strings.Join(capH.repair, "+")
	}
	// the log directories right after the open (before any further write): predicted by the model
	repair += " wal=" + dirSummary(filepath.Join(dir, "wal")) + " wbl=" + dirSummary(filepath.Join(dir, "wbl"))
	add("open1", errClass(oerr))
	if oerr != nil {
		add("tree1", treeDiff(before, tree(dir)))
		add("present1", "-")
		add("new", "-")
		add("app", "-")
		add("open2", "-")
		add("present2", "-")
		return siteResult{obs: strings.Join(obs, " "), repair: repair}
	}
	add("tree1", "n/a")
	db.DisableCompactions()
	_, p1 := dump(db)
	add("present1", p1)
	// further writes: existing series in order, a new series, one more transaction
	var news []string
	appRes := "ok"
	base := int64(900000)
	for round := 0; round < 2; round++ {
		app := db.Appender(context.Background())
		pts := []smp{{s: "a", t: base + int64(round)*10}, {s: "c", t: base + int64(round)*10 + 1}, {s: "new", t: base + int64(round)*10 + 2}}
		var acc []string
		for i, x := range pts {
			x.v = float64(7000 + round*10 + i)
			if _, err := app.Append(0, lbls(x.s), x.t, x.v); err != nil {
				appRes = "err:append"
				continue
			}
			acc = append(acc, x.key())
		}
		if err := app.Commit(); err != nil {
			appRes = "err:commit"
		} else {
			news = append(news, acc...)
		}
	}
	sort.Strings(news)
	add("new", strings.Join(news, ","))
	if err := db.Close(); err != nil {
		appRes = "err:close"
	}
	add("app", appRes)
	var db2 *tsdb.DB
	if p, v := h.Try(func() { db2, oerr = tsdb.Open(dir, slog.New(&capHandler{}), nil, dbOpts(), nil) }); p {
		add("open2", "panic:"+strings.ReplaceAll(fmt.Sprint(v), " ", "_"))
		add("present2", "-")
		return siteResult{obs: strings.Join(obs, " "), repair: repair}
	}
	add("open2", errClass(oerr))
	if oerr != nil {
		add("present2", "-")
		return siteResult{obs: strings.Join(obs, " "), repair: repair}
	}
	db2.DisableCompactions()
	_, p2 := dump(db2)
	add("present2", p2)
	db2.Close()
	return siteResult{obs: strings.Join(obs, " "), repair: repair}
}

// eventsBefore = number of leading events whose log records lie entirely before the damaged byte.
func eventsBefore(events []event, st site, ckptUpTo int, log string) int {
	if st.class != log {
		return len(events)
	}
	j := 0
	for _, e := range events {
		seg, end := e.walSeg, e.walEnd
		if log == "wbl" {
			seg, end, ckptUpTo = e.wblSeg, e.wblEnd, -2
		}
		if seg <= ckptUpTo || seg < st.seg || (seg == st.seg && end <= int64(st.off)) {
			j++
		} else {
			break
		}
	}
	return j
}

func ckptIndex(dir string) int {
	ents, _ := os.ReadDir(filepath.Join(dir, "wal"))
	best := -1
	for _, e := range ents {
		if e.IsDir() && strings.HasPrefix(e.Name(), "checkpoint.") && !strings.HasSuffix(e.Name(), ".tmp") {
			if k, err := strconv.Atoi(strings.TrimPrefix(e.Name(), "checkpoint.")); err == nil && k > best {
				best = k
			}
		}
	}
	return best
}

func hexSegs(dir string, files []fileInfo, class string) string {
	var xs []string
	for _, f := range files {
		if f.class != class {
			continue
		}
		b, _ := os.ReadFile(filepath.Join(dir, f.path))
		xs = append(xs, fmt.Sprintf("%d:%d:%s", f.seg, len(b), h.Hex(b[:f.used])))
	}
	if len(xs) == 0 {
		return "-"
	}
	return strings.Join(xs, ";")
}

type dbCase struct {
	dbLine, logsLine string
	wseed  uint64
	master string
	events []event
	files  []fileInfo
	ckpt   int
}

func prepare(c *h.Ctx, wseed uint64) (*dbCase, bool) {
	dc, ok := prepareQuiet(c, wseed, false)
	if !ok {
		c.Op(fmt.Sprintf("db %d build-failed", wseed), "err")
		return nil, false
	}
	dc.describe(c)
	return dc, true
}

// describe emits the `db` and `logs` lines of the case.
func (dc *dbCase) describe(c *h.Ctx) {
	if dc.dbLine != "" {
		c.Op(dc.dbLine, "-")
		c.Op(dc.logsLine, "-")
		return
	}
	master, wseed, events := dc.master, dc.wseed, dc.events
	// base = what the blocks alone hold; full = the undamaged database
	baseDir := h.TempDir("c04base")
	defer os.RemoveAll(baseDir)
	copyDir(master, baseDir)
	os.RemoveAll(filepath.Join(baseDir, "wal"))
	os.RemoveAll(filepath.Join(baseDir, "wbl"))
	os.RemoveAll(filepath.Join(baseDir, "chunks_head"))
	dumpDir := func(d string) string {
		db, err := tsdb.Open(d, slog.New(&capHandler{}), nil, dbOpts(), nil)
		if err != nil {
			return "err"
		}
		defer db.Close()
		db.DisableCompactions()
		_, p := dump(db)
		return p
	}
	base := dumpDir(baseDir)
	fullDir := h.TempDir("c04full")
	defer os.RemoveAll(fullDir)
	copyDir(master, fullDir)
	full := dumpDir(fullDir)
	var evs []string
	for _, e := range events {
		evs = append(evs, e.String())
	}
	dc.dbLine = fmt.Sprintf("db %d ckpt=%d events=%s base=%s full=%s", wseed, dc.ckpt, strings.Join(evs, "|"), base, full)
	dc.logsLine = fmt.Sprintf("logs %d wal=%s wbl=%s ckpt=%s", wseed, hexSegs(master, dc.files, "wal"), hexSegs(master, dc.files, "wbl"), hexSegs(master, dc.files, "ckpt"))
	c.Op(dc.dbLine, "-")
	c.Op(dc.logsLine, "-")
}

func (dc *dbCase) emit(c *h.Ctx, sites []site) {
	res := make([]siteResult, len(sites))
	var wg sync.WaitGroup
	sem := make(chan struct{}, max(2, runtime.NumCPU()/2))
	for i := range sites {
		wg.Add(1)
		sem <- struct{}{}
		go func(i int) {
			defer wg.Done()
			defer func() { <-sem }()
			if p, v := h.Try(func() { res[i] = runSite(dc.master, dc.files, dc.wseed, sites[i], len(dc.events)) }); p {
				msg := strings.ReplaceAll(strings.ReplaceAll(fmt.Sprint(v), " ", "_"), "\n", "_")
				if len(msg) > 120 {
					msg = msg[:120]
				}
				res[i] = siteResult{obs: "open1=panic:" + msg + " tree1=n/a present1=- new=- app=- open2=- present2=-", repair: "none"}
			}
		}(i)
	}
	wg.Wait()
	for i, st := range sites {
		if res[i].skip {
			c.Count("site-skipped")
			continue
		}
		j := eventsBefore(dc.events, st, dc.ckpt, "wal")
		jw := eventsBefore(dc.events, st, dc.ckpt, "wbl")
		cb := 0
		if st.class == "chunks" && dc.chunkBoundary(st) {
			cb = 1
		}
		cut := dc.cutInfo(st)
		c.Op(fmt.Sprintf("site %d %s %d %d %s j=%d jw=%d cb=%d cut=%s %s", dc.wseed, st.class, st.seg, st.off, st.mut, j, jw, cb, cut, res[i].obs), "repair="+res[i].repair)
		c.Count("site-" + st.class + "-" + st.mut)
		if strings.Contains(cut, "O") && strings.Contains(res[i].obs, "open1=ok") {
			c.Count("site-chunks-trunc-cuts-ooo-chunk")
		}
		for _, f := range strings.Fields(res[i].obs) {
			if strings.HasPrefix(f, "open1=") {
				c.Count(f)
			}
		}
		c.NonTrivial(fmt.Sprintf("%d/%s/%d/%d/%s", dc.wseed, st.class, st.seg, st.off, st.mut))
	}
}

// chunkBoundary: the offset is the end of a chunk (or of the header) of a head-chunk file that is not the
// newest one — a truncation there leaves a file that is well formed but shorter.
func (dc *dbCase) chunkBoundary(st site) bool {
	fi := findFile(dc.files, "chunks", st.seg)
	if fi == nil {
		return false
	}
	for _, f := range dc.files {
		if f.class == "chunks" && f.seg > st.seg {
			goto notLast
		}
	}
	return false
notLast:
	b, err := os.ReadFile(filepath.Join(dc.master, fi.path))
	if err != nil {
		return false
	}
	idx := 8
	for idx <= len(b) {
		// at the end of a chunk, or inside the leading zero bytes of the next chunk's series reference
		if st.off >= idx && st.off <= idx+7 && st.off <= len(b) {
			allZero := true
			for _, x := range b[idx:st.off] {
				if x != 0 {
					allZero = false
				}
			}
			if allZero {
				return true
			}
		}
		if idx+26 > len(b) {
			return false
		}
		ref := binary.BigEndian.Uint64(b[idx:])
		if ref == 0 {
			return false
		}
		n, k := binary.Uvarint(b[idx+25:])
		if k <= 0 {
			return false
		}
		idx += 25 + k + int(n) + 4
	}
	return false
}

// chunkEnt is one chunk of a head-chunk file: [start, end) in the file, the series reference, out-of-order flag.
type chunkEnt struct {
	start, end int
	ref        uint64
	ooo        bool
}

// chunkLayout walks a head-chunk file (8 byte header; per chunk: series ref 8, mint 8, maxt 8, encoding 1 with
// the out-of-order bit 0x80, uvarint length, data, crc 4) up to the first zero series reference.
func chunkLayout(b []byte) []chunkEnt {
	var out []chunkEnt
	idx := 8
	for idx+26 <= len(b) {
		ref := binary.BigEndian.Uint64(b[idx:])
		if ref == 0 {
			break
		}
		n, k := binary.Uvarint(b[idx+25:])
		if k <= 0 {
			break
		}
		end := idx + 25 + k + int(n) + 4
		if end > len(b) {
			break
		}
		out = append(out, chunkEnt{idx, end, ref, b[idx+24]&0x80 != 0})
		idx = end
	}
	return out
}

func layoutString(l []chunkEnt) string {
	var sb strings.Builder
	for _, e := range l {
		if e.ooo {
			sb.WriteByte('O')
		} else {
			sb.WriteByte('I')
		}
	}
	if sb.Len() == 0 {
		return "-"
	}
	return sb.String()
}

var muts = []string{"trunc", "flip0", "flip7", "zero"}

func (dc *dbCase) chunkFiles() []fileInfo {
	var fs []fileInfo
	for _, f := range dc.files {
		if f.class == "chunks" && f.used > 0 {
			fs = append(fs, f)
		}
	}
	sort.Slice(fs, func(i, j int) bool { return fs[i].seg > fs[j].seg })
	return fs
}

func (dc *dbCase) layoutOf(f fileInfo) []chunkEnt {
	b, err := os.ReadFile(filepath.Join(dc.master, f.path))
	if err != nil {
		return nil
	}
	return chunkLayout(b)
}

// boundarySites: truncations of head-chunk file f at the start of each of its last `last` chunks (all if
// last <= 0) and 1..maxExtra bytes past it: +1..+7 lie inside the big-endian series reference of the next chunk
// (leading bytes zero: the file reads as complete), +8 leaves a whole reference without the rest of the chunk.
func (dc *dbCase) boundarySites(f fileInfo, last, maxExtra int) []site {
	l := dc.layoutOf(f)
	if last > 0 && len(l) > last {
		l = l[len(l)-last:]
	}
	var out []site
	for _, e := range l {
		for x := 0; x <= maxExtra; x++ {
			out = append(out, site{"chunks", f.seg, e.start + x, "trunc"})
		}
	}
	return out
}

// cutInfo: for a truncation of a head-chunk file, the kinds (I/O) of the chunks that are no longer complete.
func (dc *dbCase) cutInfo(st site) string {
	if st.class != "chunks" || st.mut != "trunc" {
		return "-"
	}
	fi := findFile(dc.files, "chunks", st.seg)
	if fi == nil {
		return "-"
	}
	var cut []chunkEnt
	for _, e := range dc.layoutOf(*fi) {
		if e.end > st.off {
			cut = append(cut, e)
		}
	}
	return layoutString(cut)
}

// directedSites: the damage sites of a directed database (see buildDirected).
func (dc *dbCase) directedSites(thorough bool) []site {
	fs := dc.chunkFiles()
	var sites []site
	for i, f := range fs {
		l := dc.layoutOf(f)
		if len(l) == 0 {
			continue
		}
		switch {
		case i == 0 && thorough:
			sites = append(sites, dc.boundarySites(f, 0, 8)...)
		case i == 0:
			sites = append(sites, dc.boundarySites(f, 3, 8)...)
		case thorough:
			sites = append(sites, dc.boundarySites(f, 0, 8)...)
		default:
			sites = append(sites, dc.boundarySites(f, 2, 1)...)
		}
		// detected damage (the file and everything behind it is dropped as a whole): first and last chunk
		sites = append(sites, site{"chunks", f.seg, l[0].start + 27, "flip0"})
		if i == 0 || thorough {
			sites = append(sites, site{"chunks", f.seg, l[len(l)-1].start + 27, "flip7"}, site{"chunks", f.seg, l[len(l)-1].start + 8, "trunc"})
		}
	}
	// no site twice
	seen := map[site]bool{}
	var out []site
	for _, st := range sites {
		if !seen[st] {
			seen[st] = true
			out = append(out, st)
		}
	}
	return out
}

// genSites: newest and an older WAL segment, WBL segments, checkpoint, newest head-chunk file.
func (dc *dbCase) genSites(r *h.Rng, stride int) []site {
	var targets []fileInfo
	byClass := map[string][]fileInfo{}
	for _, f := range dc.files {
		if f.used > 0 || f.class == "wal" {
			byClass[f.class] = append(byClass[f.class], f)
		}
	}
	for _, cl := range []string{"wal", "wbl", "ckpt", "chunks"} {
		fs := byClass[cl]
		sort.Slice(fs, func(i, j int) bool { return fs[i].seg > fs[j].seg })
		for i, f := range fs {
			if i < 2 || (cl == "wal" && i < 3) {
				targets = append(targets, f)
			}
		}
	}
	var sites []site
	newest := map[string]int{}
	for _, f := range targets {
		if f.seg > newest[f.class] {
			newest[f.class] = f.seg
		}
	}
	stride0 := stride
	for _, f := range targets {
		// thorough (stride 1): every offset of the newest file of each class, every 5th of the older ones
		stride := stride0
		if stride0 == 1 && f.seg != newest[f.class] {
			stride = 5
		}
		phase := 0
		if stride > 1 {
			phase = r.Intn(stride)
		}
		var offs []int
		for o := phase; o < f.used+9 && o < f.size; o += stride {
			offs = append(offs, o)
		}
		// padding: a byte in the middle of it and the last byte of the file
		if f.size > f.used+9 {
			offs = append(offs, f.used+9+r.Intn(f.size-f.used-9), f.size-1)
		}
		for _, o := range offs {
			for _, m := range muts {
				if stride0 > 1 && !r.Chance(60) {
					continue
				}
				sites = append(sites, site{f.class, f.seg, o, m})
			}
		}
	}
	return sites
}

// ------------------------------------------------------------------ wlog-level T2

func genRec(n, seed int) []byte {
	b := make([]byte, n)
	for j := range b {
		b[j] = byte(seed + 31*j + j/251)
	}
	return b
}

func recID(b []byte) string {
	f := fnv.New64a()
	f.Write(b)
	return fmt.Sprintf("%d:%016x", len(b), f.Sum64())
}

type wlState struct {
	dir     string
	segSize int
	w   *wlog.WL
	// first corruption found by the last wread
	cerr error
}

func segFiles(dir string) []string {
	ents, _ := os.ReadDir(dir)
	var ks []int
	for _, e := range ents {
		if k, err := strconv.Atoi(e.Name()); err == nil && !e.IsDir() {
			ks = append(ks, k)
		}
	}
	sort.Ints(ks)
	var out []string
	for _, k := range ks {
		out = append(out, wlog.SegmentName(dir, k))
	}
	return out
}

// dirSummary lists the segment files of a log directory as idx:len:fnv.
func dirSummary(dir string) string {
	ents, _ := os.ReadDir(dir)
	var ks []int
	for _, e := range ents {
		if k, err := strconv.Atoi(e.Name()); err == nil && !e.IsDir() {
			ks = append(ks, k)
		}
	}
	sort.Ints(ks)
	var xs []string
	for _, k := range ks {
		xs = append(xs, fmt.Sprintf("%d:%s", k, fnvFile(wlog.SegmentName(dir, k))))
	}
	if len(xs) == 0 {
		return "-"
	}
	return strings.Join(xs, ",")
}

func segSummary(dir string) string {
	var xs []string
	for _, p := range segFiles(dir) {
		xs = append(xs, fnvFile(p))
	}
	if len(xs) == 0 {
		return "-"
	}
	return strings.Join(xs, ",")
}

func readerErrClass(err error) string {
	s := err.Error()
	table := []struct{ k, v string }{
		{"last record is torn", "torn"},
		{"unexpected non-zero byte", "nonzero-pad"},
		{"read remaining zeros", "zeros-short"},
		{"read remaining header", "hdr-short"},
		{"invalid record size", "bad-size"},
		{"unexpected checksum", "crc"},
		{"unexpected full record", "seq-full"},
		{"unexpected first record", "seq-first"},
		{"unexpected middle record", "seq-middle"},
		{"unexpected last record", "seq-last"},
		{"unexpected record type", "bad-type"},
		{"invalid record type", "bad-type"},
		{"snappy", "compressed"},
		{"zstd", "compressed"},
		{"decompress", "compressed"},
		{"invalid size", "data-short"},
		{"unexpected EOF", "data-short"},
	}
	for _, e := range table {
		if strings.Contains(s, e.k) {
			return e.v
		}
	}
	return "other:" + strings.ReplaceAll(s, " ", "_")
}

// readPerSegment reads each segment with its own Reader, as Head.Init does; stops at the first error.
func readPerSegment(dir string) (string, error) {
	var parts []string
	for _, p := range segFiles(dir) {
		s, err := wlog.OpenReadSegment(p)
		if err != nil {
			return "open-error", nil
		}
		sr := wlog.NewSegmentBufReader(s)
		r := wlog.NewReader(sr)
		var ids []string
		for r.Next() {
			ids = append(ids, recID(r.Record()))
		}
		rerr := r.Err()
		sr.Close()
		if len(ids) == 0 {
			parts = append(parts, "-")
		} else {
			parts = append(parts, strings.Join(ids, ","))
		}
		if rerr != nil {
			var ce *wlog.CorruptionErr
			if errors.As(rerr, &ce) {
				return fmt.Sprintf("%s err:%s@%d:%d", strings.Join(parts, "/"), readerErrClass(ce.Err), ce.Segment, ce.Offset), rerr
			}
			return strings.Join(parts, "/") + " err:notcorruption", nil
		}
	}
	if len(parts) == 0 {
		return "- eof", nil
	}
	return strings.Join(parts, "/") + " eof", nil
}

func parsePairs(s string) [][2]int {
	if s == "-" {
		return nil
	}
	var out [][2]int
	for _, p := range strings.Split(s, ",") {
		ab := strings.Split(p, ":")
		a, _ := strconv.Atoi(ab[0])
		b, _ := strconv.Atoi(ab[1])
		out = append(out, [2]int{a, b})
	}
	return out
}

func (ws *wlState) do(op string) string {
	f := strings.Fields(op)
	nop := slog.New(&capHandler{})
	switch f[0] {
	case "wopen":
		if ws.dir != "" {
			os.RemoveAll(ws.dir)
		}
		ws.dir = h.TempDir("c04wl")
		ws.segSize = 32 * 1024
		if len(f) > 1 {
			if k, err := strconv.Atoi(f[1]); err == nil && k > 0 {
				ws.segSize = k * 32 * 1024
			}
		}
		w, err := wlog.NewSize(nop, nil, ws.dir, ws.segSize, compression.None)
		if err != nil {
			return "err:open"
		}
		ws.w = w
		return "ok"
	case "wlog", "wlogmore":
		if ws.w == nil {
			return "err:closed"
		}
		var recs [][]byte
		for _, p := range parsePairs(f[1]) {
			recs = append(recs, genRec(p[0], p[1]))
		}
		// one Log call per record: records of one batch may not be split over a Repair boundary anyway
		for _, rec := range recs {
			if err := ws.w.Log(rec); err != nil {
				return "err:log"
			}
		}
		return fmt.Sprintf("ok segs=%d", len(segFiles(ws.dir)))
	case "wclose":
		if ws.w == nil {
			return "err:closed"
		}
		err := ws.w.Close()
		ws.w = nil
		if err != nil {
			return "err:close"
		}
		return "ok " + segSummary(ws.dir)
	case "wdamage":
		seg, _ := strconv.Atoi(f[1])
		off, _ := strconv.Atoi(f[2])
		files := segFiles(ws.dir)
		if seg >= len(files) {
			return "no-segment"
		}
		b, _ := os.ReadFile(files[seg])
		d := mutate(b, off, f[3])
		if d == nil {
			return "no-change"
		}
		os.WriteFile(files[seg], d, 0o644)
		return "ok " + fnvFile(files[seg])
	case "wread":
		out, cerr := readPerSegment(ws.dir)
		ws.cerr = cerr
		return out
	case "wrepair":
		if ws.cerr == nil {
			return "none"
		}
		w, err := wlog.NewSize(nop, nil, ws.dir, ws.segSize, compression.None)
		if err != nil {
			return "err:open"
		}
		ws.w = w
		if err := w.Repair(ws.cerr); err != nil {
			return "err:repair"
		}
		ws.cerr = nil
		// Repair pads the rewritten segment (flushPage(true)); the new active segment is empty.
		return "ok " + segSummary(ws.dir)
	case "wreopen":
		// what tsdb.Open does when there was no corruption: a new segment
		w, err := wlog.NewSize(nop, nil, ws.dir, ws.segSize, compression.None)
		if err != nil {
			return "err:open"
		}
		ws.w = w
		return fmt.Sprintf("ok segs=%d", len(segFiles(ws.dir)))
	case "wreadall":
		sr, err := wlog.NewSegmentsReader(ws.dir)
		if err != nil {
			return "err:open"
		}
		defer sr.Close()
		r := wlog.NewReader(sr)
		var ids []string
		for r.Next() {
			ids = append(ids, recID(r.Record()))
		}
		recs := "-"
		if len(ids) > 0 {
			recs = strings.Join(ids, ",")
		}
		if rerr := r.Err(); rerr != nil {
			var ce *wlog.CorruptionErr
			if errors.As(rerr, &ce) {
				return fmt.Sprintf("%s err:%s@%d:%d", recs, readerErrClass(ce.Err), ce.Segment, ce.Offset)
			}
			return recs + " err:notcorruption"
		}
		return recs + " eof"
	}
	return "bad-op"
}

func (ws *wlState) cleanup() {
	if ws.w != nil {
		ws.w.Close()
		ws.w = nil
	}
	if ws.dir != "" {
		os.RemoveAll(ws.dir)
		ws.dir = ""
	}
}

func genPairs(r *h.Rng, n int) string {
	if n == 0 {
		return "-"
	}
	var xs []string
	for i := 0; i < n; i++ {
		var l int
		switch r.Intn(10) {
		case 0:
			l = 0
		case 1:
			l = 1 + r.Intn(3)
		case 2:
			l = 32768 - 7 - r.Intn(3) // fills a page
		case 3:
			l = 9000 + r.Intn(30000) // may span two pages when the segment has two
		default:
			l = 5 + r.Intn(120)
		}
		xs = append(xs, fmt.Sprintf("%d:%d", l, r.Intn(256)))
	}
	return strings.Join(xs, ",")
}

func wlCase(c *h.Ctx, r *h.Rng, id int) {
	c.Case(fmt.Sprintf("wl-%d-%d", c.Seed, id))
	ws := &wlState{}
	defer ws.cleanup()
	run := func(op string) string {
		var out string
		if p, v := h.Try(func() { out = ws.do(op) }); p {
			out = "panic:" + strings.ReplaceAll(fmt.Sprint(v), " ", "_")
		}
		c.Op(op, out)
		c.Count(strings.Fields(op)[0])
		return out
	}
	pps := 1 + r.Intn(2)
	run(fmt.Sprintf("wopen %d", pps))
	nlog := 1 + r.Intn(4)
	hasEmpty := false
	for i := 0; i < nlog; i++ {
		ps := genPairs(r, 1+r.Intn(6))
		for _, p := range parsePairs(ps) {
			if p[0] == 0 {
				hasEmpty = true
			}
		}
		run("wlog " + ps)
	}
	run("wclose")
	files := segFiles(ws.dir)
	if len(files) == 0 {
		return
	}
	// damage one segment at a generated offset around record structure
	seg := r.Intn(len(files))
	b, _ := os.ReadFile(files[seg])
	used := len(b)
	for used > 0 && b[used-1] == 0 {
		used--
	}
	var off int
	switch r.Intn(6) {
	case 0:
		off = r.Intn(8)
	case 1:
		off = used + r.Intn(10)
	case 2:
		if len(b) > 0 {
			off = len(b) - 1 - r.Intn(3)
		}
	default:
		off = r.Intn(used + 1)
	}
	if off < 0 {
		off = 0
	}
	mask := 1 + r.Intn(255)
	if hasEmpty {
		// An EMPTY fragment whose compression flag gets set is returned as an empty record by the real reader
		// (compression.Decode returns empty input unchanged); the framing model of C13 treats every
		// compressed fragment as outside its scope, so keep such masks away from logs with empty records.
		mask &^= 0x18
		if mask == 0 {
			mask = 1
		}
	}
	mut := h.Pick(r, []string{"trunc", "trunc", "flip0", "flip7", "zero", fmt.Sprintf("xor%d", mask)})
	run(fmt.Sprintf("wdamage %d %d %s", seg, off, mut))
	out := run("wread")
	if strings.Contains(out, " err:") {
		c.NonTrivial(fmt.Sprintf("wl/%d/%d", c.Seed, id))
		c.Count("wread-" + strings.SplitN(strings.SplitN(out, " err:", 2)[1], "@", 2)[0])
		run("wrepair")
	} else {
		c.Count("wread-eof")
		run("wreopen")
	}
	run("wlogmore " + genPairs(r, 1+r.Intn(4)))
	run("wclose")
	run("wread")
	run("wreadall")
}

// ------------------------------------------------------------------ main

func replay(c *h.Ctx) {
	for _, lines := range c.ReplayCases() {
		c.Case(strings.TrimPrefix(lines[0], "case "))
		ws := &wlState{}
		var dc *dbCase
		for _, op := range lines[1:] {
			f := strings.Fields(op)
			switch f[0] {
			case "db":
				wseed, _ := strconv.ParseUint(f[1], 10, 64)
				if dc != nil {
					os.RemoveAll(dc.master)
				}
				dc, _ = prepareQuiet(c, wseed, true)
			case "logs":
				// emitted together with `db`
			case "site":
				wseed, _ := strconv.ParseUint(f[1], 10, 64)
				if dc == nil || dc.wseed != wseed {
					if dc != nil {
						os.RemoveAll(dc.master)
					}
					dc, _ = prepareQuiet(c, wseed, false)
				}
				if dc == nil {
					continue
				}
				seg, _ := strconv.Atoi(f[3])
				off, _ := strconv.Atoi(f[4])
				dc.emit(c, []site{{f[2], seg, off, f[5]}})
			default:
				var out string
				if p, v := h.Try(func() { out = ws.do(op) }); p {
					out = "panic:" + strings.ReplaceAll(fmt.Sprint(v), " ", "_")
				}
				c.Op(op, out)
			}
		}
		ws.cleanup()
		if dc != nil {
			os.RemoveAll(dc.master)
		}
	}
}

// prepareQuiet builds the DB; emits the db/logs lines only when asked.
func prepareQuiet(c *h.Ctx, wseed uint64, emit bool) (*dbCase, bool) {
	if emit {
		return prepare(c, wseed)
	}
	master := h.TempDir("c04db")
	events, err := build(master, wseed)
	if err != nil {
		os.RemoveAll(master)
		return nil, false
	}
	return &dbCase{wseed: wseed, master: master, events: events, files: listFiles(master), ckpt: ckptIndex(master)}, true
}

func main() {
	c := h.Init()
	defer c.Finish()
	_ = io.EOF
	_ = storage.ErrNotFound
	if c.Replay != "" {
		replay(c)
		return
	}
	if d, ok := c.Extra["inspect"]; ok {
		os.RemoveAll(d)
		os.MkdirAll(d, 0o755)
		evs, err := build(d, c.Seed)
		fmt.Fprintln(os.Stderr, "build:", err, len(evs), "events; ckpt", ckptIndex(d))
		for _, f := range listFiles(d) {
			fmt.Fprintf(os.Stderr, "%+v\n", f)
			if f.class == "chunks" {
				b, _ := os.ReadFile(filepath.Join(d, f.path))
				l := chunkLayout(b)
				fmt.Fprintf(os.Stderr, "  layout %s\n", layoutString(l))
				for _, e := range l {
					fmt.Fprintf(os.Stderr, "   [%d,%d) ref=%d ooo=%v\n", e.start, e.end, e.ref, e.ooo)
				}
			}
		}
		return
	}
	// n = number of wlog-level cases; DB cases: quick 1 (sampled offsets), thorough 2 (every offset of the
	// newest file of each class, every 5th offset of the older ones).
	ndb, stride := 1, 12
	if c.Tier == "thorough" {
		ndb, stride = 2, 1
	}
	if v, ok := c.Extra["ndb"]; ok {
		ndb, _ = strconv.Atoi(v)
	}
	if v, ok := c.Extra["stride"]; ok {
		stride, _ = strconv.Atoi(v)
	}
	for i := 0; i < ndb; i++ {
		wseed := c.Seed*10 + uint64(i)
		dc, ok := prepareQuiet(c, wseed, false)
		if !ok {
			c.Case(fmt.Sprintf("db-%d", wseed))
			c.Op(fmt.Sprintf("db %d build-failed", wseed), "err")
			continue
		}
		sites := dc.genSites(c.Rng.Fork(), stride)
		if stride > 1 {
			// the sampled offsets rarely hit them: every truncation at / just behind the last two chunk boundaries
			// of the newest head-chunk file (thorough sweeps every offset of that file anyway)
			if fs := dc.chunkFiles(); len(fs) > 0 {
				have := map[site]bool{}
				for _, st := range sites {
					have[st] = true
				}
				for _, st := range dc.boundarySites(fs[0], 2, 8) {
					if !have[st] {
						sites = append(sites, st)
					}
				}
			}
		}
		for _, cl := range []string{"wal", "wbl", "ckpt", "chunks"} {
			var sel []site
			for _, st := range sites {
				if st.class == cl {
					sel = append(sel, st)
				}
			}
			if len(sel) == 0 {
				continue
			}
			c.Case(fmt.Sprintf("db-%d-%s", wseed, cl))
			dc.describe(c)
			dc.emit(c, sel)
		}
		os.RemoveAll(dc.master)
	}
	// directed databases: out-of-order chunks at the tail of the newest head-chunk file (quick: 4 of the
	// variants, rotating with the seed; thorough: every pattern with one and with two files + 4 random tails)
	var dseeds []uint64
	if c.Tier == "thorough" {
		for v := uint64(0); v < uint64(2*len(tailPatterns)+4); v++ {
			dseeds = append(dseeds, directedBase+directedSlots*c.Seed+v)
		}
	} else {
		for i := uint64(0); i < 4; i++ {
			pi := (c.Seed*4 + i) % uint64(len(tailPatterns))
			dseeds = append(dseeds, directedBase+directedSlots*c.Seed+2*pi+(i+c.Seed)%2)
		}
	}
	if v, ok := c.Extra["ndirected"]; ok {
		k, _ := strconv.Atoi(v)
		if k < len(dseeds) {
			dseeds = dseeds[:k]
		}
	}
	for _, wseed := range dseeds {
		dc, ok := prepareQuiet(c, wseed, false)
		if !ok {
			c.Case(fmt.Sprintf("dbo-%d", wseed))
			c.Op(fmt.Sprintf("db %d build-failed", wseed), "err")
			continue
		}
		c.Case(fmt.Sprintf("dbo-%d-chunks", wseed))
		dc.describe(c)
		dc.emit(c, dc.directedSites(c.Tier == "thorough"))
		os.RemoveAll(dc.master)
	}
	r := c.Rng.Fork()
	for i := 0; i < c.N; i++ {
		wlCase(c, r, i)
	}
}
