// Suite iso (C05): readers see whole transactions only — schedule-quantified.
//
// A controlled scheduler drives 2–4 real appenders (goroutines parked at the `verifhook` pause point
// inside headAppenderBase.Commit), readers (a real BlockQuerier or a raw index+chunk reader pair on a
// RangeHead) and the m-mapping pass over one real tsdb.Head, one step at a time. All other goroutines are
// parked while a step runs, so a schedule = a sequence of "release X to its next point" choices
// determines the execution.
//
// Op lines: the part before " | " is the INPUT (what a replay needs), the part after it is the action the
// real code was OBSERVED to take in that step (the Lean model checks that this action is enabled and
// replays it). The output column is the observation of the state after the step:
//
//	cfg <nSeries> <samplesPerChunk>
//	tx <a> <c|r> <s:t:v,…|->                        transaction of appender a (commit or rollback)
//	step a<a> | begin <s:t:v,…|->                   Appender() + all Append()s; lists the accepted samples
//	step a<a> | commit <s> <t> <v> <ok|drop> <cuts> one sample went through commitFloats' critical section
//	step a<a> | close                               rest of Commit (deferred iso.closeAppend)
//	step a<a> | rollback                            Rollback()
//	step r<r> new <q|c> | new <q|c>                 q = tsdb.NewBlockQuerier, c = Index()+Chunks() readers
//	step r<r> read <s> | read <s>                   all samples of series s through the reader
//	step r<r> list <s> | list <s> <ids|->           (c readers) IndexReader.Series: the chunk ids listed for s
//	step r<r> chunk <s> <k> | chunk <s> <k>         (c readers) listed chunk with id k: ChunkOrIterable + Iterator
//	step r<r> close | close
//	step mmap | mmap <events>                       Head.mmapHeadChunks(); events = chunk.mmap hook count
//	anything not executable in the current state  →  "… | noop"
//
//	out:  <specific> | <series digests> | <isolation digest>
//	  series digest   s<k>:mm=<n,…|->:hd=<n,…|->:ring=<cap>/<first>/<count>/<ids|->
//	  isolation       last=<id> open=<ids|-> lw=<id> rd=<max:lw:inc+inc;…|->      (readers oldest first)
//	  specific        begin: id=<appendID> cb=<cleanupBelow>; read/chunk: t:v,…|-
package main

import (
	"context"
	"fmt"
	"math"
	"os"
	"sort"
	"strconv"
	"strings"

	"github.com/prometheus/common/promslog"

	"github.com/prometheus/prometheus/model/labels"
	"github.com/prometheus/prometheus/storage"
	"github.com/prometheus/prometheus/tsdb"
	"github.com/prometheus/prometheus/tsdb/chunkenc"
	"github.com/prometheus/prometheus/tsdb/chunks"
	"github.com/prometheus/prometheus/util/verifhook"

	"verif/harness/h"
)

type sample struct {
	s    int
	t, v int64
}

func (x sample) String() string { return fmt.Sprintf("%d:%d:%d", x.s, x.t, x.v) }

func samplesStr(xs []sample) string {
	if len(xs) == 0 {
		return "-"
	}
	p := make([]string, len(xs))
	for i, x := range xs {
		p[i] = x.String()
	}
	return strings.Join(p, ",")
}

func parseSamples(s string) []sample {
	if s == "-" || s == "" {
		return nil
	}
	var out []sample
	for _, p := range strings.Split(s, ",") {
		f := strings.Split(p, ":")
		if len(f) != 3 {
			continue
		}
		a, e1 := strconv.Atoi(f[0])
		b, e2 := strconv.ParseInt(f[1], 10, 64)
		c, e3 := strconv.ParseInt(f[2], 10, 64)
		if e1 != nil || e2 != nil || e3 != nil || a < 0 || a > 7 {
			continue
		}
		out = append(out, sample{a, b, c})
	}
	return out
}

func lbls(s int) labels.Labels { return labels.FromStrings("__name__", "m", "s", strconv.Itoa(s)) }

type evt struct {
	gid   int
	point string
}

type appG struct {
	id       int
	rollback bool
	samples  []sample
	release  chan struct{}
	state    int // 0 not started, 1 begun, 2 inside Commit, 3 done
	app      storage.Appender
	accepted []sample
	idx      int
	panicked string
}

type reader struct {
	kind   string
	q      storage.Querier
	ir     tsdb.IndexReader
	cr     tsdb.ChunkReader
	listed map[int][]chunks.Meta
	closed bool
}

type world struct {
	dir     string
	head    *tsdb.Head
	nSeries int
	apps    map[int]*appG
	readers map[int]*reader
	reached chan evt
	events  []string
}

func (w *world) handler(id int, point string) {
	if point == "commit.afterSeries" && id > 0 {
		w.reached <- evt{id, point}
		<-w.apps[id].release
		return
	}
	w.events = append(w.events, point)
}

func (w *world) open(nSeries, spc int) error {
	w.dir = h.TempDir("viso")
	o := tsdb.DefaultHeadOptions()
	o.ChunkDirRoot = w.dir
	o.ChunkRange = 1_000_000
	o.SamplesPerChunk = spc
	o.StripeSize = 16
	o.ChunkWriteQueueSize = 0
	hd, err := tsdb.NewHead(nil, promslog.NewNopLogger(), nil, nil, o, nil)
	if err != nil {
		return err
	}
	if err := hd.Init(math.MinInt64); err != nil {
		return err
	}
	w.head, w.nSeries = hd, nSeries
	return nil
}

func (w *world) startApp(a *appG) {
	go func() {
		verifhook.Register(a.id)
		defer verifhook.Unregister()
		<-a.release
		p, pv := h.Try(func() {
			app := w.head.Appender(context.Background())
			for _, x := range a.samples {
				if _, err := app.Append(0, lbls(x.s), x.t, float64(x.v)); err == nil {
					a.accepted = append(a.accepted, x)
				}
			}
			a.app = app
		})
		if p {
			a.panicked = fmt.Sprint(pv)
		}
		w.reached <- evt{a.id, "begun"}
		<-a.release
		p, pv = h.Try(func() {
			if a.rollback {
				a.app.Rollback()
			} else {
				a.app.Commit()
			}
		})
		if p {
			a.panicked = fmt.Sprint(pv)
		}
		w.reached <- evt{a.id, "done"}
	}()
}

func ints(xs []int) string {
	if len(xs) == 0 {
		return "-"
	}
	p := make([]string, len(xs))
	for i, x := range xs {
		p[i] = strconv.Itoa(x)
	}
	return strings.Join(p, ",")
}

func u64s(xs []uint64, sep string) string {
	if len(xs) == 0 {
		return "-"
	}
	p := make([]string, len(xs))
	for i, x := range xs {
		p[i] = strconv.FormatUint(x, 10)
	}
	return strings.Join(p, sep)
}

func (w *world) refOf(s int) (storage.SeriesRef, bool) {
	ir, err := w.head.Index()
	if err != nil {
		return 0, false
	}
	defer ir.Close()
	p, err := ir.Postings(context.Background(), "s", strconv.Itoa(s))
	if err != nil {
		return 0, false
	}
	if p.Next() {
		return p.At(), true
	}
	return 0, false
}

func (w *world) seriesSnap(s int) (tsdb.VerifIsoSeries, bool) {
	ref, ok := w.refOf(s)
	if !ok {
		return tsdb.VerifIsoSeries{}, false
	}
	return w.head.VerifIsoSeries(ref)
}

func total(x tsdb.VerifIsoSeries) int {
	n := 0
	for _, c := range x.Mmapped {
		n += c
	}
	for _, c := range x.Head {
		n += c
	}
	return n
}

func (w *world) digest() string {
	var parts []string
	for s := 0; s < w.nSeries; s++ {
		x, _ := w.seriesSnap(s)
		extra := ""
		if x.HeadCount != len(x.Head) {
			extra = fmt.Sprintf(":headChunkCount=%d", x.HeadCount)
		}
		parts = append(parts, fmt.Sprintf("s%d:mm=%s:hd=%s:ring=%d/%s%s", s, ints(x.Mmapped), ints(x.Head), x.RingCount, u64s(x.RingIDs, ","), extra))
	}
	g := w.head.VerifIsoGlobal()
	rd := "-"
	if len(g.Readers) > 0 {
		p := make([]string, len(g.Readers))
		for i, r := range g.Readers {
			p[i] = fmt.Sprintf("%d:%d:%s", r.MaxAppendID, r.LowWatermark, u64s(r.Incomplete, "+"))
		}
		rd = strings.Join(p, ";")
	}
	extra := ""
	if u64s(g.Open, ",") != u64s(g.OpenMap, ",") {
		extra = " openmap=" + u64s(g.OpenMap, ",")
	}
	return strings.Join(parts, " ") + " | " + fmt.Sprintf("last=%d open=%s lw=%d rd=%s%s", g.LastAppendID, u64s(g.Open, ","), g.LowWatermark, rd, extra)
}

func drain(it chunkenc.Iterator, out []string) []string {
	for vt := it.Next(); vt != chunkenc.ValNone; vt = it.Next() {
		if vt != chunkenc.ValFloat {
			out = append(out, "nonfloat")
			continue
		}
		t, v := it.At()
		if v == math.Trunc(v) && math.Abs(v) < 1e15 {
			out = append(out, fmt.Sprintf("%d:%d", t, int64(v)))
		} else {
			out = append(out, fmt.Sprintf("%d:x%016x", t, math.Float64bits(v)))
		}
	}
	if it.Err() != nil {
		out = append(out, "err:"+strings.ReplaceAll(it.Err().Error(), " ", "_"))
	}
	return out
}

func joinOr(xs []string) string {
	if len(xs) == 0 {
		return "-"
	}
	return strings.Join(xs, ",")
}

func (r *reader) refOf(s int) (storage.SeriesRef, bool) {
	p, err := r.ir.Postings(context.Background(), "s", strconv.Itoa(s))
	if err != nil {
		return 0, false
	}
	if p.Next() {
		return p.At(), true
	}
	return 0, false
}

func (r *reader) list(s int) []chunks.Meta {
	ref, ok := r.refOf(s)
	if !ok {
		return nil
	}
	var b labels.ScratchBuilder
	var chks []chunks.Meta
	if err := r.ir.Series(ref, &b, &chks); err != nil {
		return nil
	}
	return chks
}

func (r *reader) chunk(m chunks.Meta) []string {
	c, _, err := r.cr.ChunkOrIterable(m)
	if err != nil {
		return []string{"err:" + strings.ReplaceAll(err.Error(), " ", "_")}
	}
	return drain(c.Iterator(nil), nil)
}

func (r *reader) read(s int) string {
	if r.kind == "q" {
		ss := r.q.Select(context.Background(), true, nil, labels.MustNewMatcher(labels.MatchEqual, "s", strconv.Itoa(s)))
		var out []string
		for ss.Next() {
			out = drain(ss.At().Iterator(nil), out)
		}
		if ss.Err() != nil {
			out = append(out, "err:"+strings.ReplaceAll(ss.Err().Error(), " ", "_"))
		}
		return joinOr(out)
	}
	var out []string
	for _, m := range r.list(s) {
		out = append(out, r.chunk(m)...)
	}
	return joinOr(out)
}

// step executes one schedule choice; returns (observed action, specific output).
func (w *world) step(f []string) (string, string) {
	if len(f) < 2 {
		return "noop", "noop"
	}
	who := f[1]
	switch {
	case who == "mmap":
		w.events = nil
		w.head.VerifMmapHeadChunks()
		n := 0
		for _, e := range w.events {
			if e == "chunk.mmap" {
				n++
			}
		}
		return fmt.Sprintf("mmap %d", n), "mmap"
	case strings.HasPrefix(who, "a"):
		id, err := strconv.Atoi(who[1:])
		a := w.apps[id]
		if err != nil || a == nil || a.state == 3 {
			return "noop", "noop"
		}
		var before tsdb.VerifIsoSeries
		var cur sample
		if a.state >= 1 && a.idx < len(a.accepted) && !a.rollback {
			cur = a.accepted[a.idx]
			before, _ = w.seriesSnap(cur.s)
		}
		w.events = nil
		a.release <- struct{}{}
		e := <-w.reached
		if e.gid != id {
			return "noop", "sched-confused:" + e.point
		}
		if a.panicked != "" {
			return "panic", "panic:" + strings.ReplaceAll(a.panicked, " ", "_")
		}
		cuts := 0
		for _, ev := range w.events {
			if ev == "chunk.cut" {
				cuts++
			}
		}
		switch e.point {
		case "begun":
			a.state = 1
			aid, cb, _ := tsdb.VerifAppenderIDs(a.app)
			return "begin " + samplesStr(a.accepted), fmt.Sprintf("id=%d cb=%d", aid, cb)
		case "commit.afterSeries":
			a.state = 2
			a.idx++
			after, _ := w.seriesSnap(cur.s)
			res := "drop"
			if total(after) == total(before)+1 {
				res = "ok"
			}
			spec := "commit"
			if dc := len(after.Head) + len(after.Mmapped) - len(before.Head) - len(before.Mmapped); dc != cuts {
				spec = fmt.Sprintf("commit:hook-events-disagree:cuts=%d:layout=%d", cuts, dc)
			}
			return fmt.Sprintf("commit %d %d %d %s %d", cur.s, cur.t, cur.v, res, cuts), spec
		case "done":
			a.state = 3
			if a.rollback {
				return "rollback", "closed"
			}
			if a.idx != len(a.accepted) {
				return "close", fmt.Sprintf("closed:missed-pause-points=%d", len(a.accepted)-a.idx)
			}
			return "close", "closed"
		}
		return "noop", "sched-confused:" + e.point
	case strings.HasPrefix(who, "r"):
		id, err := strconv.Atoi(who[1:])
		if err != nil || len(f) < 3 {
			return "noop", "noop"
		}
		r := w.readers[id]
		switch f[2] {
		case "new":
			if r != nil || len(f) < 4 || (f[3] != "q" && f[3] != "c") {
				return "noop", "noop"
			}
			rh := tsdb.NewRangeHead(w.head, math.MinInt64, math.MaxInt64)
			nr := &reader{kind: f[3], listed: map[int][]chunks.Meta{}}
			if f[3] == "q" {
				q, err := tsdb.NewBlockQuerier(rh, math.MinInt64, math.MaxInt64)
				if err != nil {
					return "noop", "err:" + strings.ReplaceAll(err.Error(), " ", "_")
				}
				nr.q = q
			} else {
				ir, err := rh.Index()
				if err != nil {
					return "noop", "err"
				}
				cr, err := rh.Chunks()
				if err != nil {
					return "noop", "err"
				}
				nr.ir, nr.cr = ir, cr
			}
			w.readers[id] = nr
			return "new " + f[3], "new"
		case "read":
			if r == nil || r.closed || len(f) < 4 {
				return "noop", "noop"
			}
			s, err := strconv.Atoi(f[3])
			if err != nil || s < 0 || s >= w.nSeries {
				return "noop", "noop"
			}
			return "read " + f[3], r.read(s)
		case "list":
			if r == nil || r.closed || r.kind != "c" || len(f) < 4 {
				return "noop", "noop"
			}
			s, err := strconv.Atoi(f[3])
			if err != nil || s < 0 || s >= w.nSeries {
				return "noop", "noop"
			}
			r.listed[s] = r.list(s)
			ids := make([]int, len(r.listed[s]))
			for i, m := range r.listed[s] {
				_, cid := chunks.HeadChunkRef(m.Ref).Unpack()
				ids[i] = int(cid)
			}
			return "list " + f[3] + " " + ints(ids), "listed"
		case "chunk":
			if r == nil || r.closed || r.kind != "c" || len(f) < 5 {
				return "noop", "noop"
			}
			s, e1 := strconv.Atoi(f[3])
			k, e2 := strconv.Atoi(f[4])
			if e1 != nil || e2 != nil {
				return "noop", "noop"
			}
			for _, m := range r.listed[s] {
				if _, cid := chunks.HeadChunkRef(m.Ref).Unpack(); int(cid) == k {
					return fmt.Sprintf("chunk %d %d", s, k), joinOr(r.chunk(m))
				}
			}
			return "noop", "noop"
		case "close":
			if r == nil || r.closed {
				return "noop", "noop"
			}
			r.closed = true
			if r.kind == "q" {
				r.q.Close()
			} else {
				r.ir.Close()
				r.cr.Close()
			}
			return "close", "closed"
		}
	}
	return "noop", "noop"
}

func inputOf(op string) string {
	if i := strings.Index(op, " | "); i >= 0 {
		return op[:i]
	}
	return op
}

func runCase(c *h.Ctx, ops []string) {
	w := &world{apps: map[int]*appG{}, readers: map[int]*reader{}, reached: make(chan evt)}
	defer func() {
		verifhook.SetScheduler(nil)
		if w.head != nil {
			w.head.Close()
		}
		if w.dir != "" {
			os.RemoveAll(w.dir)
		}
	}()
	verifhook.Register(0)
	defer verifhook.Unregister()
	verifhook.SetScheduler(w.handler)
	emit := func(in string) {
		f := strings.Fields(in)
		act, spec := w.step(f)
		c.Count("act:" + strings.Fields(act)[0])
		c.Op(in+" | "+act, spec+" | "+w.digest())
	}
	for _, raw := range ops {
		in := inputOf(raw)
		f := strings.Fields(in)
		if len(f) == 0 {
			continue
		}
		switch f[0] {
		case "cfg":
			if w.head != nil || len(f) < 3 {
				c.Op(in, "bad-op")
				continue
			}
			n, _ := strconv.Atoi(f[1])
			spc, _ := strconv.Atoi(f[2])
			if n < 1 || n > 8 || spc < 1 {
				c.Op(in, "bad-op")
				continue
			}
			if err := w.open(n, spc); err != nil {
				c.Op(in, "err:"+strings.ReplaceAll(err.Error(), " ", "_"))
				continue
			}
			c.Op(in, "-")
		case "tx":
			if w.head == nil || len(f) < 4 {
				c.Op(in, "bad-op")
				continue
			}
			id, err := strconv.Atoi(f[1])
			if err != nil || id < 1 || w.apps[id] != nil {
				c.Op(in, "bad-op")
				continue
			}
			a := &appG{id: id, rollback: f[2] == "r", release: make(chan struct{})}
			for _, x := range parseSamples(f[3]) {
				if x.s < w.nSeries {
					a.samples = append(a.samples, x)
				}
			}
			w.apps[id] = a
			w.startApp(a)
			c.Op(fmt.Sprintf("tx %d %s %s", id, map[bool]string{true: "r", false: "c"}[a.rollback], samplesStr(a.samples)), "-")
		case "step":
			if w.head == nil {
				c.Op(in+" | noop", "noop")
				continue
			}
			emit(in)
		default:
			c.Op(in, "bad-op")
		}
	}
	if w.head == nil {
		return
	}
	// Complete the schedule: every started transaction finishes, every reader is closed.
	ids := make([]int, 0, len(w.apps))
	for id := range w.apps {
		ids = append(ids, id)
	}
	sort.Ints(ids)
	for _, id := range ids {
		for w.apps[id].state != 3 {
			emit(fmt.Sprintf("step a%d", id))
		}
	}
	rids := make([]int, 0, len(w.readers))
	for id := range w.readers {
		rids = append(rids, id)
	}
	sort.Ints(rids)
	for _, id := range rids {
		if !w.readers[id].closed {
			emit(fmt.Sprintf("step r%d close", id))
		}
	}
}

// ---------------------------------------------------------------- generation

type thread struct{ steps []string }

// interleavings enumerates all merges of the threads' step lists (lexicographic in the thread index).
func interleavings(ths []thread, f func([]string) bool) {
	pos := make([]int, len(ths))
	total := 0
	for _, t := range ths {
		total += len(t.steps)
	}
	cur := make([]string, 0, total)
	var rec func() bool
	rec = func() bool {
		if len(cur) == total {
			return f(cur)
		}
		for i := range ths {
			if pos[i] < len(ths[i].steps) {
				cur = append(cur, ths[i].steps[pos[i]])
				pos[i]++
				ok := rec()
				pos[i]--
				cur = cur[:len(cur)-1]
				if !ok {
					return false
				}
			}
		}
		return true
	}
	rec()
}

type config struct {
	name    string
	nSeries int
	spc     int
	txs     []appG
	readers [][]string // step suffixes after "step r<i> "
	mmaps   int
}

func (cf config) header() []string {
	out := []string{fmt.Sprintf("cfg %d %d", cf.nSeries, cf.spc)}
	for _, t := range cf.txs {
		out = append(out, fmt.Sprintf("tx %d %s %s", t.id, map[bool]string{true: "r", false: "c"}[t.rollback], samplesStr(t.samples)))
	}
	return out
}

func (cf config) threads() []thread {
	var ths []thread
	for _, t := range cf.txs {
		n := 2 + len(t.samples)
		if t.rollback {
			n = 2
		}
		var th thread
		for i := 0; i < n; i++ {
			th.steps = append(th.steps, fmt.Sprintf("step a%d", t.id))
		}
		ths = append(ths, th)
	}
	for i, r := range cf.readers {
		var th thread
		for _, s := range r {
			th.steps = append(th.steps, fmt.Sprintf("step r%d %s", i+1, s))
		}
		ths = append(ths, th)
	}
	if cf.mmaps > 0 {
		var th thread
		for i := 0; i < cf.mmaps; i++ {
			th.steps = append(th.steps, "step mmap")
		}
		ths = append(ths, th)
	}
	return ths
}

func exhaustiveConfigs(tier string) []config {
	q := []config{
		// F2's shape and its neighbours: two writers of one series, one reader.
		{name: "f2", nSeries: 1, spc: 120, txs: []appG{{id: 1, samples: []sample{{0, 10, 1}}}, {id: 2, samples: []sample{{0, 20, 2}}}},
			readers: [][]string{{"new q", "read 0"}}},
		// A multi-series transaction against a single-series one, reader reads the two series at different times.
		{name: "ms", nSeries: 2, spc: 1, txs: []appG{{id: 1, samples: []sample{{0, 10, 1}, {1, 10, 1}}}, {id: 2, samples: []sample{{0, 20, 2}}}},
			readers: [][]string{{"new q", "read 0", "read 1"}}},
	}
	if tier != "thorough" {
		return q
	}
	return append(q,
		// chunk cuts (2 samples per chunk) + m-mapping in the middle of a transaction
		config{name: "cut", nSeries: 1, spc: 1, txs: []appG{{id: 1, samples: []sample{{0, 10, 1}, {0, 11, 1}, {0, 12, 1}}}, {id: 2, samples: []sample{{0, 20, 2}}}},
			readers: [][]string{{"new c", "list 0", "chunk 0 0", "chunk 0 1"}}, mmaps: 1},
		// two multi-series transactions and a reader that reads series at different times
		config{name: "ms2", nSeries: 2, spc: 1, txs: []appG{{id: 1, samples: []sample{{0, 10, 1}, {1, 10, 1}}}, {id: 2, samples: []sample{{1, 20, 2}, {0, 20, 2}}}},
			readers: [][]string{{"new q", "read 0", "read 1"}}},
		// two readers, a rollback
		config{name: "rb", nSeries: 1, spc: 2, txs: []appG{{id: 1, samples: []sample{{0, 10, 1}}}, {id: 2, rollback: true, samples: []sample{{0, 15, 2}}}, {id: 3, samples: []sample{{0, 20, 3}}}},
			readers: [][]string{{"new q", "read 0"}, {"new c", "read 0"}}},
	)
}

func randomCase(r *h.Rng) []string {
	nSeries := 1 + r.Intn(3)
	spc := h.Pick(r, []int{1, 1, 2, 4, 120})
	nApp := 2 + r.Intn(3)
	cf := config{nSeries: nSeries, spc: spc}
	for a := 1; a <= nApp; a++ {
		t := appG{id: a, rollback: r.Chance(12)}
		k := 1 + r.Intn(nSeries)
		perm := []int{0, 1, 2}[:nSeries]
		for i := len(perm) - 1; i > 0; i-- {
			j := r.Intn(i + 1)
			perm[i], perm[j] = perm[j], perm[i]
		}
		base := int64(10 * a)
		if r.Chance(25) {
			base = int64(10 * (1 + r.Intn(nApp)))
		}
		for _, s := range perm[:k] {
			n := 1
			if r.Chance(40) {
				n = 2 + r.Intn(3)
			}
			for j := 0; j < n; j++ {
				t.samples = append(t.samples, sample{s, base + int64(j), int64(a)})
			}
		}
		if r.Chance(30) { // interleave the series inside the transaction
			for i := len(t.samples) - 1; i > 0; i-- {
				j := r.Intn(i + 1)
				if t.samples[i].s != t.samples[j].s {
					t.samples[i], t.samples[j] = t.samples[j], t.samples[i]
				}
			}
			// keep per-series time order
			bys := map[int][]int64{}
			for _, x := range t.samples {
				bys[x.s] = append(bys[x.s], x.t)
			}
			for s := range bys {
				sort.Slice(bys[s], func(i, j int) bool { return bys[s][i] < bys[s][j] })
			}
			for i := range t.samples {
				s := t.samples[i].s
				t.samples[i].t = bys[s][0]
				bys[s] = bys[s][1:]
			}
		}
		cf.txs = append(cf.txs, t)
	}
	nRd := 1 + r.Intn(3)
	for i := 0; i < nRd; i++ {
		var st []string
		if r.Chance(60) {
			st = append(st, "new q")
			for s := 0; s < nSeries; s++ {
				st = append(st, fmt.Sprintf("read %d", s))
			}
		} else {
			st = append(st, "new c")
			for s := 0; s < nSeries; s++ {
				if r.Chance(50) {
					st = append(st, fmt.Sprintf("read %d", s))
				} else {
					st = append(st, fmt.Sprintf("list %d", s))
					for k := 0; k < 4; k++ {
						st = append(st, fmt.Sprintf("chunk %d %d", s, k))
					}
				}
			}
		}
		if r.Chance(70) {
			st = append(st, "close")
		}
		cf.readers = append(cf.readers, st)
	}
	cf.mmaps = r.Intn(3)
	ths := cf.threads()
	pos := make([]int, len(ths))
	out := cf.header()
	// random merge; readers are biased towards starting in the middle of things
	for {
		var live []int
		for i := range ths {
			if pos[i] < len(ths[i].steps) {
				live = append(live, i)
			}
		}
		if len(live) == 0 {
			break
		}
		i := live[r.Intn(len(live))]
		if i >= len(cf.txs) && i < len(cf.txs)+len(cf.readers) && pos[i] == 0 && len(live) > 1 && r.Chance(70) {
			continue // readers tend to be created late, when transactions are in flight or finished
		}
		out = append(out, ths[i].steps[pos[i]])
		pos[i]++
	}
	return out
}

func main() {
	c := h.Init()
	if c.Replay != "" {
		for i, cs := range c.ReplayCases() {
			id := strings.TrimPrefix(cs[0], "case ")
			if id == "" {
				id = fmt.Sprintf("replay%d", i)
			}
			c.Case(id)
			runCase(c, cs[1:])
		}
		c.Finish()
		return
	}
	// Exhaustive stream: all interleavings of the small configurations (capped by -x exh=<max per config>).
	maxPer := 1 << 30
	if v, ok := c.Extra["exh"]; ok {
		maxPer, _ = strconv.Atoi(v)
	}
	for _, cf := range exhaustiveConfigs(c.Tier) {
		// all interleavings when there are at most 1000 (quick) / 12000 (thorough), else an evenly strided sample of that size
		totalScheds := 0
		interleavings(cf.threads(), func([]string) bool { totalScheds++; return true })
		stride, limit := 1, 1000
		if c.Tier == "thorough" {
			limit = 12000
		}
		if totalScheds > limit {
			stride = (totalScheds + limit - 1) / limit
		}
		k, idx := 0, 0
		interleavings(cf.threads(), func(sched []string) bool {
			idx++
			if (idx-1+int(c.Seed))%stride != 0 {
				return true
			}
			if k >= maxPer {
				return false
			}
			c.Case(fmt.Sprintf("x-%s-%d", cf.name, idx-1))
			ops := append(cf.header(), sched...)
			runCase(c, ops)
			c.NonTrivial(cf.name + strings.Join(sched, ";"))
			c.Count("exhaustive:" + cf.name)
			k++
			return true
		})
	}
	for i := 0; i < c.N; i++ {
		c.Case(fmt.Sprintf("r%d-%d", c.Seed, i))
		ops := randomCase(c.Rng)
		runCase(c, ops)
		c.NonTrivial(strings.Join(ops, ";"))
		c.Count("random")
	}
	c.Finish()
}
