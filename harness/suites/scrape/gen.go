package main

import (
	"fmt"
	"math"
	"sort"
	"strings"

	"verif/harness/h"
)

type gseries struct {
	labels  [][2]string // sorted by name, incl. __name__
	variant int
}

func (s gseries) listing() string {
	parts := make([]string, len(s.labels))
	for i, l := range s.labels {
		parts[i] = l[0] + "=" + l[1]
	}
	return strings.Join(parts, ",")
}

func mkSeries(name string, kv ...string) gseries {
	ls := [][2]string{{"__name__", name}}
	for i := 0; i+1 < len(kv); i += 2 {
		ls = append(ls, [2]string{kv[i], kv[i+1]})
	}
	sort.Slice(ls, func(i, j int) bool { return ls[i][0] < ls[j][0] })
	return gseries{labels: ls}
}

var valuePool = []float64{0, 1, 2, 3.5, -1, 42, 1e9, 0.1, math.Inf(1), math.Inf(-1)}

func valBits(r *h.Rng) string {
	if r.Chance(5) {
		return "7ff8000000000001" // NaN as the text parser produces it
	}
	return fmt.Sprintf("%016x", math.Float64bits(h.Pick(r, valuePool)))
}

func rule(action, scheme, srcs, sep, regex string, target, repl string) string {
	src := "nil"
	if srcs != "" {
		var p []string
		for _, s := range strings.Split(srcs, ",") {
			p = append(p, h.HexS(s))
		}
		src = strings.Join(p, ",")
	}
	rx := "D"
	if regex != "" {
		rx = h.HexS(regex)
	}
	return fmt.Sprintf("rule %s %s %s %s %s 0 %s %s", action, scheme, src, h.HexS(sep), rx, h.HexS(target), h.HexS(repl))
}

// genRules returns relabel rule lines; collapsing = some rule can map two exposed series to one.
func genRules(r *h.Rng, scheme string, allowCollapse bool) (lines []string, collapsing bool) {
	n := 0
	switch {
	case r.Chance(40):
		n = 0
	case r.Chance(60):
		n = 1
	default:
		n = 2
	}
	for i := 0; i < n; i++ {
		k := r.Intn(10)
		if !allowCollapse && (k == 2 || k == 4 || k == 5) {
			k = 0
		}
		switch k {
		case 0:
			lines = append(lines, rule("drop", scheme, "__name__", ";", h.Pick(r, []string{"m1|m2", "m1", "m[0-2]", "up"}), "", "$1"))
		case 1:
			lines = append(lines, rule("keep", scheme, "__name__", ";", h.Pick(r, []string{"m.*|up", "m0|m1|m3|a\\.b", "m.*"}), "", "$1"))
		case 2:
			lines = append(lines, rule("labeldrop", scheme, "", ";", h.Pick(r, []string{"a", "b", "a|b"}), "", "$1"))
			collapsing = true
		case 3:
			lines = append(lines, rule("replace", scheme, "a", ";", "", "c", "x$1"))
		case 4:
			lines = append(lines, rule("replace", scheme, "__name__", ";", "m3", "__name__", "m0"))
			collapsing = true
		case 5:
			if r.Chance(30) {
				lines = append(lines, rule("labeldrop", scheme, "", ";", "__name__", "", "$1"))
			} else {
				lines = append(lines, rule("labeldrop", scheme, "", ";", "a", "", "$1"))
			}
			collapsing = true
		case 6:
			lines = append(lines, rule("drop", scheme, "a", ";", h.Pick(r, []string{"1", "x|yy", ".+"}), "", "$1"))
		case 7:
			lines = append(lines, rule("replace", scheme, "b", ";", "(.+)", "bb", "$1$1"))
		case 8:
			lines = append(lines, rule("labelmap", scheme, "", ";", "(a|b)", "", "l_$1"))
		case 9:
			lines = append(lines, rule("replace", scheme, "a,b", "-", "1-(.*)", "job", "j$1"))
		}
	}
	return lines, collapsing
}

func genPool(r *h.Rng, n int) []gseries {
	names := []string{"m0", "m1", "m2", "m3", "m4", "up"}
	if r.Chance(25) {
		names = append(names, "a.b")
	}
	var pool []gseries
	seen := map[string]bool{}
	for len(pool) < n {
		name := h.Pick(r, names)
		var kv []string
		if r.Chance(60) {
			kv = append(kv, "a", h.Pick(r, []string{"1", "2", "x", "yy"}))
		}
		if r.Chance(35) {
			kv = append(kv, "b", h.Pick(r, []string{"1", "2", "vvvvvvvvvvvv"}))
		}
		if r.Chance(12) {
			kv = append(kv, h.Pick(r, []string{"job", "instance", "exported_job"}), h.Pick(r, []string{"e1", "e2"}))
		}
		if r.Chance(5) {
			kv = append(kv, "a_rather_long_label_name", "1")
		}
		s := mkSeries(name, kv...)
		if seen[s.listing()] {
			continue
		}
		seen[s.listing()] = true
		pool = append(pool, s)
	}
	return pool
}

func item(s gseries, variant int, bits, ts string) string {
	return fmt.Sprintf("s/%d/%s/%s/%s", variant, s.listing(), bits, ts)
}

func genCase(c *h.Ctx, r *h.Rng, idx int) []string {
	var ops []string
	ver := "v1"
	if r.Bool() {
		ver = "v2"
	}
	c.Count("adapter:" + ver)
	big := r.Chance(3) // cache-flush heuristic histories (large failing bodies)
	refChange := !big && r.Chance(25)
	honorLabels := r.Chance(30)
	honorTs := !r.Chance(20)
	trackTs := r.Chance(35)
	sampleLimit, labelLimit, lnl, lvl := 0, 0, 0, 0
	if !big {
		if r.Chance(15) {
			sampleLimit = 2 + r.Intn(8)
		}
		if r.Chance(12) {
			labelLimit = 2 + r.Intn(3)
		}
		if r.Chance(8) {
			lnl = h.Pick(r, []int{8, 12, 23, 24})
		}
		if r.Chance(10) {
			lvl = h.Pick(r, []int{2, 11, 12})
		}
	}
	legacy := r.Chance(30)
	scheme := "u"
	if legacy {
		scheme = "l"
	}
	tl := mkSeries("x", "job", "j", "instance", "i")
	tlabels := tl.labels[:0:0]
	for _, l := range tl.labels {
		if l[0] != "__name__" {
			tlabels = append(tlabels, l)
		}
	}
	if r.Chance(15) {
		tlabels = tlabels[:1]
	}
	tls := gseries{labels: tlabels}.listing()
	if r.Chance(5) {
		tls = "-"
	}
	b2 := func(b bool) int {
		if b {
			return 1
		}
		return 0
	}
	ops = append(ops, fmt.Sprintf("cfg %s %d %d %d %d %d %d %d %d %s", ver, b2(honorLabels), b2(honorTs), b2(trackTs), sampleLimit, labelLimit, lnl, lvl, b2(legacy), tls))
	rules, collapsing := genRules(r, scheme, !refChange)
	if big {
		rules, collapsing = nil, false
	}
	ops = append(ops, rules...)
	if collapsing {
		c.Count("rules:collapsing")
	}
	if len(rules) > 0 {
		c.Count("rules:some")
	}

	nScrapes := 5 + r.Intn(26)
	if c.Tier == "thorough" && r.Chance(30) {
		nScrapes = 10 + r.Intn(41)
	}
	if big {
		nScrapes = 4 + r.Intn(4)
	}
	pool := genPool(r, 3+r.Intn(8))
	// which series are currently exposed (churn)
	exposed := make([]bool, len(pool))
	for i := range exposed {
		exposed[i] = r.Chance(60)
	}
	timed := make([]bool, len(pool)) // series that carry explicit timestamps
	for i := range timed {
		timed[i] = r.Chance(20)
	}
	ts := int64(1000 + r.Intn(1000))
	partialBudget := 0 // mid-body failures only in a fraction of the histories
	if r.Chance(40) {
		partialBudget = 1 + r.Intn(3)
	}
	// read failures in the middle of a body (connection cut / body_size_limit) in a fraction of the histories
	readFails := !big && r.Chance(45)
	if readFails {
		c.Count("history:with-read-failures")
	}
	var prevTs []int64
	for k := 0; k < nScrapes; k++ {
		ts += int64(1 + r.Intn(30))
		prevTs = append(prevTs, ts)
		if refChange && r.Chance(20) {
			ops = append(ops, "gc")
			c.Count("op:gc")
		}
		if big {
			// two consecutive large failing bodies with different series, then normal ones
			var items []string
			base := (k % 3) * 700
			n := 560 + r.Intn(100)
			if k >= 3 {
				n = 20
				base = r.Intn(3) * 700
			}
			for j := 0; j < n; j++ {
				s := mkSeries("big", "i", fmt.Sprint(base+j))
				items = append(items, item(s, 0, valBits(r), "-"))
			}
			if k < 2 || r.Chance(20) {
				items = append(items, "x")
			}
			ops = append(ops, fmt.Sprintf("scrape %d body %s", ts, strings.Join(items, " ")))
			c.Count("scrape:big")
			continue
		}
		if r.Chance(12) {
			ops = append(ops, fmt.Sprintf("scrape %d err", ts))
			c.Count("scrape:err")
			continue
		}
		// churn
		for i := range exposed {
			if r.Chance(15) {
				exposed[i] = !exposed[i]
			}
			if r.Chance(4) {
				timed[i] = !timed[i]
			}
		}
		var items []string
		for i, s := range pool {
			if !exposed[i] {
				continue
			}
			tsTok := "-"
			if timed[i] {
				switch r.Intn(8) {
				case 0:
					tsTok = fmt.Sprint(ts - int64(r.Intn(40))) // may go backwards
				case 1:
					tsTok = fmt.Sprint(h.PickI64(r, prevTs))
				case 2:
					tsTok = "9000000000000000" // beyond now+10m: out of bounds
				case 3:
					tsTok = "0"
				default:
					tsTok = fmt.Sprint(ts)
				}
			}
			variant := 0
			if !refChange && r.Chance(6) {
				variant = 1
			}
			items = append(items, item(s, variant, valBits(r), tsTok))
			if r.Chance(6) { // duplicate inside the body
				dts := tsTok
				if r.Chance(30) {
					if dts == "-" {
						dts = fmt.Sprint(ts)
					} else {
						dts = "-"
					}
				}
				dv := variant
				if !refChange && r.Chance(15) {
					dv = 1 - dv
				}
				items = append(items, item(s, dv, valBits(r), dts))
				c.Count("item:dup")
			}
			if r.Chance(3) {
				items = append(items, "c")
			}
		}
		if len(items) > 1 && r.Chance(30) {
			r2 := r.Intn(len(items))
			items[0], items[r2] = items[r2], items[0]
		}
		if partialBudget > 0 && r.Chance(20) {
			partialBudget--
			pos := r.Intn(len(items) + 1)
			items = append(items[:pos:pos], append([]string{"x"}, items[pos:]...)...)
			c.Count("scrape:malformed")
		}
		if len(items) == 0 {
			c.Count("scrape:empty-body")
		}
		if readFails && r.Chance(22) {
			ops = append(ops, genRead(c, r, ts, items))
			continue
		}
		ops = append(ops, strings.TrimSpace(fmt.Sprintf("scrape %d body %s", ts, strings.Join(items, " "))))
		c.Count("scrape:body")
	}
	if r.Chance(60) {
		ops = append(ops, "end")
		c.Count("op:end")
	}
	c.Count(fmt.Sprintf("len:%d", (nScrapes/10)*10))
	return ops
}

// genRead turns a generated body into a scrape whose body goes through the production readResponse:
// mostly a read failure after a prefix of the body is in the scrape buffer — cut inside a line (biased
// towards the last characters of a line, where the truncated line still parses), at a line boundary,
// after the last line, before any byte — by a failing connection or by body_size_limit; sometimes a
// body_size_limit that is not exceeded.
func genRead(c *h.Ctx, r *h.Rng, ts int64, items []string) string {
	var lens []int
	total := 0
	for _, it := range items {
		line, ok := renderItem(it)
		if !ok {
			panic("genRead: unrenderable item " + it)
		}
		lens = append(lens, len(line))
		total += len(line)
	}
	tail := ""
	if len(items) > 0 {
		tail = " " + strings.Join(items, " ")
	}
	if r.Chance(12) {
		c.Count("scrape:read-under-limit")
		return fmt.Sprintf("scrape %d read under %d%s", ts, r.Intn(3), tail)
	}
	how := "cut"
	if total > 0 && r.Chance(40) {
		how = "limit"
	}
	pos, kind := 0, "zero"
	if total > 0 {
		switch k := r.Intn(10); {
		case k < 4: // inside a line
			i := r.Intn(len(lens))
			start := 0
			for _, l := range lens[:i] {
				start += l
			}
			off := 1 + r.Intn(lens[i]-1)
			if r.Chance(60) { // the newline or the last 1-2 characters of the value / timestamp are missing
				off = lens[i] - 1 - r.Intn(min(3, lens[i]-1))
			}
			pos, kind = start+off, "inside-line"
		case k < 7: // at a line boundary (after line i of several), else after the last line
			i := 1 + r.Intn(len(lens))
			for _, l := range lens[:i] {
				pos += l
			}
			kind = "line-boundary"
			if i == len(lens) {
				kind = "after-last-line"
			}
		case k < 9:
			pos, kind = total+r.Intn(2)*r.Intn(50), "after-last-line"
		default:
			pos, kind = 0, "zero"
		}
	}
	if how == "limit" && pos < 1 {
		how = "cut"
	}
	c.Count("scrape:read-fail:" + how)
	c.Count("scrape:read-fail:" + kind)
	return fmt.Sprintf("scrape %d read %s %d%s", ts, how, pos, tail)
}
