// Suite scrape (C37): generated scrape histories driven through the REAL scrape loop
// (scrape.scrapeLoop built by newScrapeLoop, scrapeAndReport / endOfRunStaleness called one cycle at
// a time through the add-only hook /repo/scrape/verif_scrape_hooks.go) against a recording storage
// double, for both the Appender (v1) and AppenderV2 adapters.
//
// ops:
//   cfg <v1|v2> <honorLabels> <honorTs> <trackTs> <sampleLimit> <labelLimit> <nameLenLimit> <valueLenLimit> <legacy> <targetLabels>
//   rule <action> <l|u> <srcs> <sep> <regex> <modulus> <target> <replacement>     (as in suite relabel)
//   scrape <tsMillis> err                      the scrape itself fails (no body)
//   scrape <tsMillis> body <item>*             a body: items are rendered to the text format
//        item = s/<variant>/<labels>/<value bits hex16>/<tsMillis|->   a sample line
//               x                                                      a malformed line
//               c                                                      a comment line
//   scrape <tsMillis> read <how> <pos> <item>* the request succeeds (HTTP 200) and the body is read by the PRODUCTION
//        targetScraper.readResponse:
//        how = cut   : the connection delivers the first min(pos, len) bytes of the rendered body and then fails
//                      (pos = 0: before any byte; pos >= len: after the last line)            -> read failure
//              limit : body_size_limit = min(pos, len) >= 1; readResponse copies that many bytes into the scrape
//                      buffer and returns errBodySizeLimit (a body of exactly `limit` bytes fails too) -> read failure
//              under : body_size_limit = len + 1 + pos: not exceeded                          -> ordinary body
//   gc                                         the storage forgets all series refs (series are recreated)
//   end                                        endOfRunStaleness (target removed)
// labels = name=value,… sorted by name, including __name__ (characters [A-Za-z0-9_.$-] only).
//
// out (scrape/end): the storage event stream of the cycle:
//   <labels>@<t>=<bits|dur>:<ok|ooo|dup>   one per Append call that reached the storage
//   rollback | commit
// then `| up=<bits> scraped=<bits> post=<bits> added=<bits>` is NOT printed separately: the report
// samples are the last five appends before the final commit (scrape_duration_seconds' value is
// printed as `dur`).  Runs of staleness markers come from a Go map: they are sorted.
// The timestamp of the end-of-run markers is wall-clock: printed as `now` after checking that it lies
// between the wall-clock readings taken around the call.
package main

import (
	"context"
	"errors"
	"fmt"
	"math"
	"sort"
	"strconv"
	"strings"
	"time"

	"github.com/prometheus/common/model"

	"github.com/prometheus/prometheus/model/exemplar"
	"github.com/prometheus/prometheus/model/histogram"
	"github.com/prometheus/prometheus/model/labels"
	"github.com/prometheus/prometheus/model/metadata"
	"github.com/prometheus/prometheus/model/relabel"
	"github.com/prometheus/prometheus/model/value"
	"github.com/prometheus/prometheus/scrape"
	"github.com/prometheus/prometheus/storage"

	"verif/harness/h"
)

// ---------- recording storage double ----------

type sampleEv struct {
	lset string // listing of the series the sample went to
	t    int64
	bits uint64
	res  string
}

type event struct {
	kind string // "a" | "commit" | "rollback"
	s    sampleEv
}

type lastSample struct {
	t    int64
	bits uint64
}

type recStore struct {
	next   uint64
	byRef  map[storage.SeriesRef]string
	byLset map[string]storage.SeriesRef
	last   map[string]lastSample
	events []event
}

func newRecStore() *recStore {
	return &recStore{next: 1, byRef: map[storage.SeriesRef]string{}, byLset: map[string]storage.SeriesRef{}, last: map[string]lastSample{}}
}

func (s *recStore) gc() {
	s.byRef = map[storage.SeriesRef]string{}
	s.byLset = map[string]storage.SeriesRef{}
}

type pendingSample struct {
	lset string
	t    int64
	bits uint64
}

type recAppender struct {
	s       *recStore
	pending []pendingSample
}

func listing(ls labels.Labels) string {
	var parts []string
	ls.Range(func(l labels.Label) {
		parts = append(parts, safe(l.Name)+"="+safe(l.Value))
	})
	if len(parts) == 0 {
		return "-"
	}
	return strings.Join(parts, ",")
}

// safe checks that a label name/value can travel unescaped in the line protocol.
func safe(s string) string {
	if s == "" {
		panic("empty label name or value in listing")
	}
	for _, c := range []byte(s) {
		if !(c >= 'a' && c <= 'z' || c >= 'A' && c <= 'Z' || c >= '0' && c <= '9' || c == '_' || c == '.' || c == '$' || c == '-') {
			panic("unsafe character in label: " + s)
		}
	}
	return s
}

// appendFloat is ref-directed like the TSDB head: a known ref selects the series (the labels are
// then ignored), otherwise the series is looked up / created by labels.
func (a *recAppender) appendFloat(ref storage.SeriesRef, l labels.Labels, t int64, v float64) (storage.SeriesRef, error) {
	s := a.s
	key, ok := s.byRef[ref]
	if !ok || ref == 0 {
		key = listing(l)
		r, ok := s.byLset[key]
		if !ok {
			r = storage.SeriesRef(s.next)
			s.next++
			s.byLset[key] = r
			s.byRef[r] = key
		}
		ref = r
	}
	bits := math.Float64bits(v)
	ev := sampleEv{lset: key, t: t, bits: bits, res: "ok"}
	var err error
	if last, ok := s.last[key]; ok {
		switch {
		case t < last.t:
			ev.res, err = "ooo", storage.ErrOutOfOrderSample
		case t == last.t && bits != last.bits:
			ev.res, err = "dup", storage.ErrDuplicateSampleForTimestamp
		}
	}
	s.events = append(s.events, event{kind: "a", s: ev})
	if err != nil {
		return 0, err
	}
	a.pending = append(a.pending, pendingSample{key, t, bits})
	return ref, nil
}

func (a *recAppender) Commit() error {
	for _, p := range a.pending {
		if last, ok := a.s.last[p.lset]; !ok || p.t >= last.t {
			a.s.last[p.lset] = lastSample{p.t, p.bits}
		}
	}
	a.pending = nil
	a.s.events = append(a.s.events, event{kind: "commit"})
	return nil
}

func (a *recAppender) Rollback() error {
	a.pending = nil
	a.s.events = append(a.s.events, event{kind: "rollback"})
	return nil
}

var errUnsupported = errors.New("verif: unsupported append kind")

type appV1 struct{ *recAppender }

func (a appV1) Append(ref storage.SeriesRef, l labels.Labels, t int64, v float64) (storage.SeriesRef, error) {
	return a.appendFloat(ref, l, t, v)
}
func (appV1) SetOptions(*storage.AppendOptions) {}
func (appV1) AppendExemplar(storage.SeriesRef, labels.Labels, exemplar.Exemplar) (storage.SeriesRef, error) {
	return 0, errUnsupported
}

func (appV1) AppendHistogram(storage.SeriesRef, labels.Labels, int64, *histogram.Histogram, *histogram.FloatHistogram) (storage.SeriesRef, error) {
	return 0, errUnsupported
}

func (appV1) AppendHistogramSTZeroSample(storage.SeriesRef, labels.Labels, int64, int64, *histogram.Histogram, *histogram.FloatHistogram) (storage.SeriesRef, error) {
	return 0, errUnsupported
}

func (appV1) UpdateMetadata(ref storage.SeriesRef, _ labels.Labels, _ metadata.Metadata) (storage.SeriesRef, error) {
	return ref, nil
}

func (appV1) AppendSTZeroSample(storage.SeriesRef, labels.Labels, int64, int64) (storage.SeriesRef, error) {
	return 0, errUnsupported
}

type appV2 struct{ *recAppender }

func (a appV2) Append(ref storage.SeriesRef, ls labels.Labels, _, t int64, v float64, hh *histogram.Histogram, fh *histogram.FloatHistogram, _ storage.AOptions) (storage.SeriesRef, error) {
	if hh != nil || fh != nil {
		return 0, errUnsupported
	}
	return a.appendFloat(ref, ls, t, v)
}

type appendableV1 struct{ s *recStore }

func (a appendableV1) Appender(context.Context) storage.Appender { return appV1{&recAppender{s: a.s}} }

type appendableV2 struct{ s *recStore }

func (a appendableV2) AppenderV2(context.Context) storage.AppenderV2 { return appV2{&recAppender{s: a.s}} }

// ---------- op execution ----------

type caseState struct {
	cfgTok []string
	rules  []*relabel.Config
	store  *recStore
	loop   *scrape.VerifLoop
	bad    bool
}

func parseListing(s string) labels.Labels {
	if s == "-" {
		return labels.EmptyLabels()
	}
	var kv []string
	for _, p := range strings.Split(s, ",") {
		nv := strings.SplitN(p, "=", 2)
		if len(nv) != 2 {
			return labels.EmptyLabels()
		}
		kv = append(kv, nv[0], nv[1])
	}
	return labels.FromStrings(kv...)
}

func parseRule(f []string) (*relabel.Config, error) {
	if len(f) != 8 {
		return nil, fmt.Errorf("bad rule arity")
	}
	cfg := &relabel.Config{Action: relabel.Action(f[0])}
	switch f[1] {
	case "l":
		cfg.NameValidationScheme = model.LegacyValidation
	case "u":
		cfg.NameValidationScheme = model.UTF8Validation
	default:
		return nil, fmt.Errorf("bad scheme")
	}
	switch f[2] {
	case "nil":
	case "none":
		cfg.SourceLabels = model.LabelNames{}
	default:
		for _, s := range strings.Split(f[2], ",") {
			cfg.SourceLabels = append(cfg.SourceLabels, model.LabelName(h.UnHex(s)))
		}
	}
	cfg.Separator = string(h.UnHex(f[3]))
	if f[4] == "D" {
		cfg.Regex = relabel.DefaultRelabelConfig.Regex
	} else {
		re, err := relabel.NewRegexp(string(h.UnHex(f[4])))
		if err != nil {
			return nil, err
		}
		cfg.Regex = re
	}
	m, err := strconv.ParseUint(f[5], 10, 64)
	if err != nil {
		return nil, err
	}
	cfg.Modulus = m
	cfg.TargetLabel = string(h.UnHex(f[6]))
	cfg.Replacement = string(h.UnHex(f[7]))
	return cfg, nil
}

func atoiU(s string) uint {
	v, _ := strconv.ParseUint(s, 10, 32)
	return uint(v)
}

func (st *caseState) ensureLoop() bool {
	if st.loop != nil {
		return true
	}
	f := st.cfgTok
	if len(f) != 11 {
		return false
	}
	st.store = newRecStore()
	c := scrape.VerifLoopConfig{
		TargetLabels:             parseListing(f[10]),
		HonorLabels:              f[2] == "1",
		HonorTimestamps:          f[3] == "1",
		TrackTimestampsStaleness: f[4] == "1",
		SampleLimit:              atoiU(f[5]),
		LabelLimit:               atoiU(f[6]),
		LabelNameLengthLimit:     atoiU(f[7]),
		LabelValueLengthLimit:    atoiU(f[8]),
		LegacyValidation:         f[9] == "1",
		MetricRelabelConfigs:     st.rules,
	}
	if f[1] == "v2" {
		c.AppendableV2 = appendableV2{st.store}
	} else {
		c.Appendable = appendableV1{st.store}
	}
	l, err := scrape.VerifNewLoop(c)
	if err != nil {
		return false
	}
	st.loop = l
	return true
}

var legacyName = func(s string) bool { return model.LegacyValidation.IsValidMetricName(s) }

// renderItem renders one body item to a line of the Prometheus text format.
func renderItem(it string) (string, bool) {
	switch it {
	case "x":
		return "!!bad line{\n", true
	case "c":
		return "# just a comment\n", true
	}
	f := strings.Split(it, "/")
	if len(f) != 5 || f[0] != "s" {
		return "", false
	}
	ls := parseListing(f[2])
	name := ls.Get(model.MetricNameLabel)
	var lab []string
	quotedName := !legacyName(name)
	if quotedName {
		lab = append(lab, strconv.Quote(name))
	}
	ls.Range(func(l labels.Label) {
		if l.Name == model.MetricNameLabel {
			return
		}
		n := l.Name
		if !model.LegacyValidation.IsValidLabelName(n) {
			n = strconv.Quote(n)
		}
		lab = append(lab, n+"="+strconv.Quote(l.Value))
	})
	var sb strings.Builder
	if !quotedName {
		sb.WriteString(name)
	}
	switch f[1] {
	case "0":
		if len(lab) > 0 {
			sb.WriteString("{" + strings.Join(lab, ",") + "}")
		}
	case "1": // trailing comma / empty braces: another text for the same series
		if len(lab) > 0 {
			sb.WriteString("{" + strings.Join(lab, ",") + ",}")
		} else {
			sb.WriteString("{}")
		}
	default:
		return "", false
	}
	bits, err := strconv.ParseUint(f[3], 16, 64)
	if err != nil {
		return "", false
	}
	v := math.Float64frombits(bits)
	var vs string
	switch {
	case math.IsNaN(v):
		vs = "NaN"
	case math.IsInf(v, 1):
		vs = "+Inf"
	case math.IsInf(v, -1):
		vs = "-Inf"
	default:
		vs = strconv.FormatFloat(v, 'g', -1, 64)
	}
	sb.WriteString(" " + vs)
	if f[4] != "-" {
		sb.WriteString(" " + f[4])
	}
	sb.WriteString("\n")
	return sb.String(), true
}

var reportNames = []string{"up", "scrape_duration_seconds", "scrape_samples_scraped", "scrape_samples_post_metric_relabeling", "scrape_series_added"}

// renderEvents canonicalises the storage events of one cycle.
func renderEvents(evs []event, nowLo, nowHi int64, endOfRun bool) string {
	// the report samples are the last five appends before the final commit
	nApp := 0
	for _, e := range evs {
		if e.kind == "a" {
			nApp++
		}
	}
	durIdx := -1
	if len(evs) > 0 && evs[len(evs)-1].kind == "commit" && nApp >= 5 {
		seen := 0
		for i := len(evs) - 1; i >= 0; i-- {
			if evs[i].kind == "a" {
				seen++
				if seen == 4 { // up, duration, scraped, post, added  -> duration is 4th from the end
					durIdx = i
					break
				}
			}
		}
	}
	firstReport := len(evs)
	if durIdx >= 0 {
		firstReport = durIdx - 1
	}
	// sort maximal runs of staleness markers before the report samples (map iteration order)
	i := 0
	for i < firstReport {
		if evs[i].kind == "a" && evs[i].s.bits == value.StaleNaN {
			j := i
			for j < firstReport && evs[j].kind == "a" && evs[j].s.bits == value.StaleNaN {
				j++
			}
			run := evs[i:j]
			sort.SliceStable(run, func(a, b int) bool { return run[a].s.lset < run[b].s.lset })
			i = j
		} else {
			i++
		}
	}
	var out []string
	for k, e := range evs {
		if e.kind != "a" {
			out = append(out, e.kind)
			continue
		}
		ts := strconv.FormatInt(e.s.t, 10)
		if endOfRun {
			if e.s.t >= nowLo && e.s.t <= nowHi {
				ts = "now"
			}
		}
		val := fmt.Sprintf("%016x", e.s.bits)
		if k == durIdx && !endOfRun {
			val = "dur"
		}
		out = append(out, fmt.Sprintf("%s@%s=%s:%s", e.s.lset, ts, val, e.s.res))
	}
	if len(out) == 0 {
		return "none"
	}
	return strings.Join(out, " ")
}

func runOp(c *h.Ctx, st *caseState, op string) string {
	f := strings.Fields(op)
	if len(f) == 0 {
		return "bad-op"
	}
	switch f[0] {
	case "cfg":
		if st.loop != nil || len(f) != 11 {
			return "bad-op"
		}
		st.cfgTok = f
		return "ok"
	case "rule":
		if st.loop != nil {
			return "bad-op"
		}
		cfg, err := parseRule(f[1:])
		if err != nil {
			return "unsupported"
		}
		if err := cfg.Validate(cfg.NameValidationScheme); err != nil {
			return "invalid"
		}
		st.rules = append(st.rules, cfg)
		return "ok"
	case "gc":
		if !st.ensureLoop() {
			return "bad-op"
		}
		st.store.gc()
		return "ok"
	case "scrape":
		if len(f) < 3 || !st.ensureLoop() {
			return "bad-op"
		}
		ts, err := strconv.ParseInt(f[1], 10, 64)
		if err != nil {
			return "bad-op"
		}
		var body []byte
		var scrapeErr error
		switch f[2] {
		case "read":
			return runRead(c, st, ts, f[3:])
		case "err":
			scrapeErr = errors.New("scripted scrape failure")
		case "body":
			for _, it := range f[3:] {
				line, ok := renderItem(it)
				if !ok {
					return "bad-op"
				}
				body = append(body, line...)
			}
		default:
			return "bad-op"
		}
		st.store.events = nil
		if p, v := h.Try(func() { st.loop.VerifScrapeAndReport(ts, body, "text/plain", scrapeErr) }); p {
			c.Count("panic")
			return "panic " + strings.ReplaceAll(fmt.Sprint(v), " ", "_")
		}
		return renderEvents(st.store.events, 0, 0, false)
	case "end":
		if !st.ensureLoop() {
			return "bad-op"
		}
		st.store.events = nil
		lo := time.Now().UnixMilli()
		if p, v := h.Try(func() { st.loop.VerifEndOfRunStaleness() }); p {
			c.Count("panic")
			return "panic " + strings.ReplaceAll(fmt.Sprint(v), " ", "_")
		}
		hi := time.Now().UnixMilli()
		return renderEvents(st.store.events, lo, hi, true)
	}
	return "bad-op"
}

// runRead executes `scrape <ts> read <how> <pos> <item>*`: the body goes through the production
// readResponse; for cut/limit the read fails after a prefix of the body is already in the buffer.
func runRead(c *h.Ctx, st *caseState, ts int64, f []string) string {
	if len(f) < 2 {
		return "bad-op"
	}
	pos, err := strconv.ParseInt(f[1], 10, 32)
	if err != nil || pos < 0 {
		return "bad-op"
	}
	var body []byte
	for _, it := range f[2:] {
		line, ok := renderItem(it)
		if !ok {
			return "bad-op"
		}
		body = append(body, line...)
	}
	n := int64(len(body))
	var (
		deliver   int
		readErr   error
		limit     int64
		wantWrote = n
		wantFail  = true
		wantLimit = false
	)
	switch f[0] {
	case "cut":
		deliver, readErr = int(min(pos, n)), errors.New("scripted connection failure in the middle of the body")
		wantWrote = int64(deliver)
	case "limit":
		if pos < 1 || n < 1 {
			return "bad-op"
		}
		limit = min(pos, n)
		wantWrote, wantLimit = limit, true
	case "under":
		limit = n + 1 + pos
		wantFail = false
	default:
		return "bad-op"
	}
	st.store.events = nil
	var wrote int
	var failed, sizeLimit bool
	if p, v := h.Try(func() {
		wrote, failed, sizeLimit = st.loop.VerifScrapeAndReportRead(ts, body, "text/plain", deliver, readErr, limit)
	}); p {
		c.Count("panic")
		return "panic " + strings.ReplaceAll(fmt.Sprint(v), " ", "_")
	}
	// the scripted fault must have happened as scripted (otherwise the case would be vacuous)
	if int64(wrote) != wantWrote || failed != wantFail || sizeLimit != wantLimit {
		return fmt.Sprintf("harness-error read wrote=%d/%d failed=%v/%v limit=%v/%v", wrote, wantWrote, failed, wantFail, sizeLimit, wantLimit)
	}
	if wantFail {
		c.Count("read-fail:" + f[0])
		if wrote > 0 {
			c.Count("read-fail:partial-body-in-buffer")
		}
	}
	return renderEvents(st.store.events, 0, 0, false)
}

func runCase(c *h.Ctx, ops []string) {
	st := &caseState{}
	for _, op := range ops {
		out := runOp(c, st, op)
		for _, tok := range strings.Fields(out) {
			switch {
			case strings.HasSuffix(tok, ":ooo"):
				c.Count("append:ooo")
			case strings.HasSuffix(tok, ":dup"):
				c.Count("append:dup")
			case tok == "rollback":
				c.Count("cycle:rollback")
			}
		}
		if strings.Contains(out, "=7ff0000000000002:") {
			c.Count("cycle:with-stale-markers")
		}
		c.Op(op, out)
	}
	if st.loop != nil {
		st.loop.VerifClose()
	}
}

func main() {
	c := h.Init()
	defer c.Finish()
	if c.Replay != "" {
		for _, cs := range c.ReplayCases() {
			c.Case(strings.TrimPrefix(cs[0], "case "))
			runCase(c, cs[1:])
		}
		return
	}
	for i := 0; i < c.N; i++ {
		c.Case(fmt.Sprintf("r%d", i))
		ops := genCase(c, c.Rng, i)
		c.NonTrivial(strings.Join(ops, ";"))
		runCase(c, ops)
	}
}
