// Suite ckpt (C15): generated histories on a real tsdb.Head with a WAL — series churn, head GC
// (Head.Truncate), stale/selected-series eviction, deletes, restarts that create duplicate series
// records, repeated truncateWAL — with a retained copy of every WAL segment ever written.
//
// Head configuration: one chunk range of 2^40 ms (every series keeps a single head chunk), out-of-order
// ingestion off, exemplar storage on; segments are cut explicitly (`cut`), by truncateWAL and by restarts.
//
// ops:  hcfg <walReplayConcurrency>
//       tx <c|r> <item>…    item = s<lid>@<t>=<v>[x] (sample; v=0 is a stale marker; x: with exemplar)
//                                  | m<lid>=<mid>    (UpdateMetadata)
//                           -> ok:<ref>|oob|ooo|dup|unk|ok|skip|err:… per item, comma separated
//       del <lid> <mint> <maxt>   -> ok          (Head.Delete, matcher s=<lid>)
//       cut                       -> ok          (WL.NextSegment)
//       trunc <mint>              -> <state>     (Head.Truncate)
//       walt <mint>               -> <state>     (Head.truncateWAL via the verif hook)
//       evict <sel|stale> <maxt> <lid,lid…>  -> <state>   (truncateSelectedSeries / truncateStaleSeries)
//       restart <minValidTime>    -> <state> ## <head state after replaying the RETAINED full log>
//       dump                      -> <state>
//
// <state> = <wal dump (walrec)> # ser=<ref>:<lid>:<mid|->:<t=v.t=v…|->:<a~b+c~d|->,… exp=<ref>:<keepUntil>,…
//           ex=<lid>@<t>=<v>,… (label sets never named in an evict op) win=<minT>:<maxT>:<minValidTime> last=<lastSeriesID>
package main

import (
	"context"
	"errors"
	"fmt"
	"io"
	"math"
	"os"
	"path/filepath"
	"sort"
	"strconv"
	"strings"

	"github.com/prometheus/common/promslog"

	"github.com/prometheus/prometheus/model/exemplar"
	"github.com/prometheus/prometheus/model/labels"
	"github.com/prometheus/prometheus/model/metadata"
	"github.com/prometheus/prometheus/model/value"
	"github.com/prometheus/prometheus/storage"
	"github.com/prometheus/prometheus/tsdb"
	"github.com/prometheus/prometheus/tsdb/chunkenc"
	"github.com/prometheus/prometheus/tsdb/wlog"
	"github.com/prometheus/prometheus/util/compression"

	"verif/harness/h"
	"verif/harness/walrec"
)

type env struct {
	dir  string
	conc int
	head *tsdb.Head
	wal  *wlog.WL
	// label sets named in an evict op: replay resolves their exemplars in a goroutine that races with the
	// deletion the full-range tombstone triggers, so their exemplars are left out of every printed state
	tainted map[int]bool
	// label sets whose replayed metadata depends on Go map order (see ambiguousMeta): printed as `?`,
	// and their later UpdateMetadata items are skipped (whether they are logged would depend on it)
	ambig map[int]bool
}

func clean(err error) string {
	return strings.NewReplacer(" ", "_", "\t", "_", "\n", "_").Replace(err.Error())
}

func lbls(s int) labels.Labels {
	return labels.FromStrings("__name__", "m", "s", strconv.Itoa(s))
}

func openHead(dir string, conc int, mv int64) (*tsdb.Head, *wlog.WL, error) {
	w, err := wlog.NewSize(promslog.NewNopLogger(), nil, filepath.Join(dir, "wal"), wlog.DefaultSegmentSize, compression.None)
	if err != nil {
		return nil, nil, err
	}
	opts := tsdb.DefaultHeadOptions()
	opts.ChunkRange = 1 << 40
	opts.ChunkDirRoot = dir
	opts.EnableExemplarStorage = true
	opts.MaxExemplars.Store(10000)
	opts.WALReplayConcurrency = conc
	hd, err := tsdb.NewHead(nil, promslog.NewNopLogger(), w, nil, opts, nil)
	if err != nil {
		w.Close()
		return nil, nil, err
	}
	if err := hd.Init(mv); err != nil {
		hd.Close()
		return nil, nil, err
	}
	return hd, w, nil
}

func (e *env) ensure() error {
	if e.head != nil {
		return nil
	}
	if e.conc == 0 {
		e.conc = 2
	}
	hd, w, err := openHead(e.dir, e.conc, math.MinInt64)
	if err != nil {
		return err
	}
	e.head, e.wal = hd, w
	return nil
}

func (e *env) close() {
	if e.head != nil {
		e.head.Close()
		e.head = nil
	}
}

func j(xs []string) string {
	if len(xs) == 0 {
		return "-"
	}
	return strings.Join(xs, ",")
}

func headState(hd *tsdb.Head, tainted, ambig map[int]bool) string {
	// visible samples per label-set id
	smps := map[int]string{}
	q, err := tsdb.NewBlockQuerier(tsdb.NewRangeHead(hd, math.MinInt64, math.MaxInt64), math.MinInt64, math.MaxInt64)
	if err != nil {
		return "err:querier:" + clean(err)
	}
	ss := q.Select(context.Background(), true, nil, labels.MustNewMatcher(labels.MatchEqual, "__name__", "m"))
	for ss.Next() {
		s := ss.At()
		it := s.Iterator(nil)
		var parts []string
		for vt := it.Next(); vt != chunkenc.ValNone; vt = it.Next() {
			if vt != chunkenc.ValFloat {
				parts = append(parts, "nonfloat")
				continue
			}
			t, v := it.At()
			if value.IsStaleNaN(v) {
				v = 0
			}
			parts = append(parts, fmt.Sprintf("%d=%d", t, int64(v)))
		}
		smps[walrec.Lid(s.Labels())] = strings.Join(parts, ".")
	}
	q.Close()
	tr, _ := hd.Tombstones()
	var ser []string
	for _, s := range hd.VerifSeries() {
		lid := walrec.Lid(s.Labels)
		mid := "-"
		if s.HasMeta {
			mid = s.Help
		}
		if ambig[lid] {
			mid = "?"
		}
		sm := smps[lid]
		if sm == "" {
			sm = "-"
		}
		tb := "-"
		if ivs, err := tr.Get(storage.SeriesRef(s.Ref)); err == nil && len(ivs) > 0 {
			var ps []string
			for _, iv := range ivs {
				ps = append(ps, fmt.Sprintf("%d~%d", iv.Mint, iv.Maxt))
			}
			tb = strings.Join(ps, "+")
		}
		ser = append(ser, fmt.Sprintf("%d:%d:%s:%s:%s", s.Ref, lid, mid, sm, tb))
	}
	var exp []string
	for _, x := range hd.VerifWALExpiries() {
		exp = append(exp, fmt.Sprintf("%d:%d", x.Ref, x.KeepUntil))
	}
	var exs []string
	if eq, err := hd.ExemplarQuerier(context.Background()); err == nil {
		res, err := eq.Select(math.MinInt64, math.MaxInt64, []*labels.Matcher{labels.MustNewMatcher(labels.MatchEqual, "__name__", "m")})
		if err != nil {
			return "err:exemplars:" + clean(err)
		}
		sort.SliceStable(res, func(a, b int) bool { return walrec.Lid(res[a].SeriesLabels) < walrec.Lid(res[b].SeriesLabels) })
		for _, r := range res {
			if tainted[walrec.Lid(r.SeriesLabels)] {
				continue
			}
			for _, x := range r.Exemplars {
				exs = append(exs, fmt.Sprintf("%d@%d=%d", walrec.Lid(r.SeriesLabels), x.Ts, int64(x.Value)))
			}
		}
	}
	mv, last := hd.VerifScalars()
	return fmt.Sprintf("ser=%s exp=%s ex=%s win=%d:%d:%d last=%d", j(ser), j(exp), j(exs), hd.MinTime(), hd.MaxTime(), mv, last)
}

// ambiguousMeta: wlog.Checkpoint flushes the latest metadata PER REF in Go map order; when two refs of the
// checkpoint carry the same label set (duplicate series records, mapped onto one series by replay) and
// their metadata differ, the metadata the replayed series ends up with depends on that order.
func ambiguousMeta(dump string) map[int]bool {
	out := map[int]bool{}
	cp := strings.SplitN(dump, " | ", 2)[0]
	f := strings.Fields(cp)
	if len(f) != 2 || f[1] == "-" {
		return out
	}
	recs := strings.Split(f[1], ";")
	refLid := map[string]int{}
	for _, r := range recs {
		if strings.HasPrefix(r, "S(") {
			for _, e := range strings.Split(r[2:len(r)-1], ",") {
				kv := strings.Split(e, "=")
				lid, _ := strconv.Atoi(kv[1])
				refLid[kv[0]] = lid
			}
		}
	}
	last := recs[len(recs)-1]
	if !strings.HasPrefix(last, "M(") {
		return out
	}
	seen := map[int]string{}
	for _, e := range strings.Split(last[2:len(last)-1], ",") {
		kv := strings.Split(e, "=")
		lid, ok := refLid[kv[0]]
		if !ok {
			continue
		}
		if prev, ok := seen[lid]; ok && prev != kv[1] {
			out[lid] = true
		}
		seen[lid] = kv[1]
	}
	return out
}

func (e *env) state() string {
	return walrec.Dump(filepath.Join(e.dir, "wal"), false) + " # " + headState(e.head, e.tainted, e.ambig)
}

func copyFile(src, dst string) error {
	in, err := os.Open(src)
	if err != nil {
		return err
	}
	defer in.Close()
	out, err := os.Create(dst)
	if err != nil {
		return err
	}
	if _, err := io.Copy(out, in); err != nil {
		out.Close()
		return err
	}
	return out.Close()
}

// retain copies every segment file currently in the WAL directory into the retained copy.
func (e *env) retain() error {
	walDir, keep := filepath.Join(e.dir, "wal"), filepath.Join(e.dir, "retained")
	if err := os.MkdirAll(keep, 0o777); err != nil {
		return err
	}
	first, last, err := wlog.Segments(walDir)
	if err != nil || last < 0 {
		return err
	}
	for i := first; i <= last; i++ {
		if err := copyFile(wlog.SegmentName(walDir, i), wlog.SegmentName(keep, i)); err != nil {
			return err
		}
	}
	return nil
}

// refState replays the retained full log into a fresh head.
func (e *env) refState(mv int64) string {
	ref := filepath.Join(e.dir, "ref")
	os.RemoveAll(ref)
	defer os.RemoveAll(ref)
	if err := os.MkdirAll(filepath.Join(ref, "wal"), 0o777); err != nil {
		return "err:" + clean(err)
	}
	keep := filepath.Join(e.dir, "retained")
	first, last, err := wlog.Segments(keep)
	if err != nil {
		return "err:" + clean(err)
	}
	for i := first; last >= 0 && i <= last; i++ {
		if err := copyFile(wlog.SegmentName(keep, i), wlog.SegmentName(filepath.Join(ref, "wal"), i)); err != nil {
			return "err:" + clean(err)
		}
	}
	hd, _, err := openHead(ref, e.conc, mv)
	if err != nil {
		return "err:refopen:" + clean(err)
	}
	defer hd.Close()
	return headState(hd, e.tainted, e.ambig)
}

func errCls(err error) string {
	switch {
	case err == nil:
		return "ok"
	case errors.Is(err, storage.ErrOutOfBounds):
		return "oob"
	case errors.Is(err, storage.ErrOutOfOrderSample):
		return "ooo"
	case errors.Is(err, storage.ErrDuplicateSampleForTimestamp):
		return "dup"
	case strings.Contains(err.Error(), "unknown series"):
		return "unk"
	default:
		return "err:" + clean(err)
	}
}

func (e *env) doTx(c *h.Ctx, f []string) string {
	app := e.head.Appender(context.Background())
	var res []string
	for _, it := range f[2:] {
		switch it[0] {
		case 's':
			at, eq := strings.IndexByte(it, '@'), strings.IndexByte(it, '=')
			lid, _ := strconv.Atoi(it[1:at])
			t, _ := strconv.ParseInt(it[at+1:eq], 10, 64)
			withEx := strings.HasSuffix(it, "x")
			vs := strings.TrimSuffix(it[eq+1:], "x")
			vi, _ := strconv.ParseUint(vs, 10, 64)
			v := float64(vi)
			if vi == 0 {
				v = math.Float64frombits(value.StaleNaN)
			}
			ref, err := app.Append(0, lbls(lid), t, v)
			if err != nil {
				res = append(res, errCls(err))
				c.Count("item:sample-" + errCls(err))
				continue
			}
			res = append(res, fmt.Sprintf("ok:%d", ref))
			c.Count("item:sample-ok")
			if withEx {
				if _, err := app.AppendExemplar(ref, lbls(lid), exemplar.Exemplar{Labels: labels.FromStrings("trace_id", vs), Value: v, Ts: t, HasTs: true}); err != nil {
					// (not for label sets named in an evict op: what replay left in the exemplar storage for
					// them is decided by a race, see env.tainted)
					if !e.tainted[lid] {
						res[len(res)-1] += "!" + clean(err)
					}
				}
				c.Count("item:exemplar")
			}
		case 'm':
			eq := strings.IndexByte(it, '=')
			lid, _ := strconv.Atoi(it[1:eq])
			if e.ambig[lid] {
				res = append(res, "skip")
				continue
			}
			_, err := app.UpdateMetadata(0, lbls(lid), metadata.Metadata{Type: "gauge", Help: it[eq+1:]})
			res = append(res, errCls(err))
			c.Count("item:meta-" + errCls(err))
		default:
			res = append(res, "bad-item")
		}
	}
	var err error
	if f[1] == "c" {
		err = app.Commit()
	} else {
		err = app.Rollback()
	}
	if err != nil {
		return "err:" + clean(err)
	}
	if len(res) == 0 {
		return "-"
	}
	return strings.Join(res, ",")
}

func runCase(c *h.Ctx, ops []string) {
	dir := h.TempDir("vckpt")
	e := &env{dir: dir, tainted: map[int]bool{}, ambig: map[int]bool{}}
	defer os.RemoveAll(dir)
	defer e.close()
	for _, op := range ops {
		f := strings.Fields(op)
		out := "bad-op"
		p, pv := h.Try(func() {
			if f[0] == "hcfg" {
				if e.head == nil {
					e.conc, _ = strconv.Atoi(f[1])
				}
				out = "ok"
				return
			}
			if err := e.ensure(); err != nil {
				out = "err:" + clean(err)
				return
			}
			switch f[0] {
			case "tx":
				out = e.doTx(c, f)
			case "del":
				lid := f[1]
				a, _ := strconv.ParseInt(f[2], 10, 64)
				b, _ := strconv.ParseInt(f[3], 10, 64)
				out = errCls(e.head.Delete(context.Background(), a, b, labels.MustNewMatcher(labels.MatchEqual, "s", lid)))
			case "cut":
				_, err := e.wal.NextSegment()
				out = errCls(err)
			case "trunc", "walt":
				mint, _ := strconv.ParseInt(f[1], 10, 64)
				if err := e.retain(); err != nil {
					out = "err:retain:" + clean(err)
					return
				}
				var err error
				if f[0] == "trunc" {
					err = e.head.Truncate(mint)
				} else {
					err = e.head.VerifTruncateWAL(mint)
				}
				if err != nil {
					out = "err:" + clean(err)
				} else {
					out = e.state()
				}
			case "evict":
				maxt, _ := strconv.ParseInt(f[2], 10, 64)
				var refs []storage.SeriesRef
				for _, l := range strings.Split(f[3], ",") {
					lid, _ := strconv.Atoi(l)
					e.tainted[lid] = true
					if r := e.head.VerifRefOf(lbls(lid)); r != 0 {
						refs = append(refs, storage.SeriesRef(r))
					}
				}
				sort.Slice(refs, func(a, b int) bool { return refs[a] < refs[b] })
				var err error
				if f[1] == "stale" {
					err = e.head.VerifTruncateStaleSeries(refs, maxt)
				} else {
					err = e.head.VerifTruncateSelectedSeries(refs, maxt)
				}
				if err != nil {
					out = "err:" + clean(err)
				} else {
					out = e.state()
				}
			case "restart":
				mv, _ := strconv.ParseInt(f[1], 10, 64)
				if err := e.head.Close(); err != nil {
					out = "err:close:" + clean(err)
					return
				}
				e.head = nil
				if err := e.retain(); err != nil {
					out = "err:retain:" + clean(err)
					return
				}
				hd, w, err := openHead(e.dir, e.conc, mv)
				if err != nil {
					out = "err:open:" + clean(err)
					return
				}
				e.head, e.wal = hd, w
				for lid := range ambiguousMeta(walrec.Dump(filepath.Join(e.dir, "wal"), false)) {
					e.ambig[lid] = true
				}
				out = e.state() + " ## " + e.refState(mv)
			case "dump":
				out = e.state()
			}
		})
		if p {
			out = "panic:" + strings.ReplaceAll(fmt.Sprint(pv), " ", "_")
			c.Count("panic")
		}
		c.Count("op:" + f[0])
		c.Op(op, out)
	}
}

// ---------------------------------------------------------------- generator

type gen struct {
	r      *h.Rng
	ops    []string
	v      uint64
	cur    int64
	nser   int
	active []int
	times  map[int][]int64 // sample times generated per label set
	mints  []int64
}

func (g *gen) add(s string) { g.ops = append(g.ops, s) }

func (g *gen) tx() {
	n := 1 + g.r.Intn(3)
	perm := append([]int(nil), g.active...)
	for i := range perm {
		k := i + g.r.Intn(len(perm)-i)
		perm[i], perm[k] = perm[k], perm[i]
	}
	if n > len(perm) {
		n = len(perm)
	}
	var items []string
	var added [][2]int64
	for _, lid := range perm[:n] {
		if len(g.times[lid]) >= 24 {
			continue
		}
		// (no metadata before the first sample of a transaction: on a head without samples the init appender
		// then skips initTime and appendableMinValidTime underflows — every sample is out of bounds)
		g.cur += g.r.Range(1, 3)
		t := g.cur
		if g.r.Chance(4) && len(g.mints) > 0 {
			t = g.mints[len(g.mints)-1] - g.r.Range(0, 2) // around / below the head's min valid time
		}
		g.v++
		it := fmt.Sprintf("s%d@%d=%d", lid, t, g.v)
		if g.r.Chance(6) {
			it = fmt.Sprintf("s%d@%d=0", lid, t) // stale marker
		} else if g.r.Chance(20) {
			it += "x"
		}
		items = append(items, it)
		added = append(added, [2]int64{int64(lid), t})
		if g.r.Chance(22) {
			items = append(items, fmt.Sprintf("m%d=%d", lid, 1+g.r.Intn(3)))
		}
	}
	if len(items) == 0 {
		return
	}
	cr := "c"
	if g.r.Chance(7) {
		cr = "r"
	} else {
		for _, a := range added {
			g.times[int(a[0])] = append(g.times[int(a[0])], a[1])
		}
	}
	g.add("tx " + cr + " " + strings.Join(items, " "))
}

func (g *gen) pickMint() int64 {
	switch g.r.Intn(8) {
	case 0:
		return g.cur + 1
	case 1:
		return g.cur
	case 2, 3:
		// exactly at / just after the newest sample of some series
		lid := g.r.Intn(g.nser)
		if ts := g.times[lid]; len(ts) > 0 {
			return ts[len(ts)-1] + g.r.Range(0, 1)
		}
		return g.cur - 1
	case 4:
		if len(g.mints) > 0 {
			return g.mints[len(g.mints)-1] + g.r.Range(-1, 1)
		}
		return g.cur - 2
	default:
		return g.cur - g.r.Range(1, 12)
	}
}

func genCase(r *h.Rng, maxOps int) []string {
	g := &gen{r: r, times: map[int][]int64{}}
	g.add(fmt.Sprintf("hcfg %d", 1+r.Intn(3)))
	g.nser = 2 + r.Intn(4)
	g.cur = []int64{0, 100, 1000, 50, 7}[r.Intn(5)]
	reshuffle := func() {
		g.active = g.active[:0]
		for i := 0; i < g.nser; i++ {
			if r.Chance(55) {
				g.active = append(g.active, i)
			}
		}
		if len(g.active) == 0 {
			g.active = []int{r.Intn(g.nser)}
		}
	}
	reshuffle()
	n := 10 + r.Intn(maxOps)
	for len(g.ops) < n {
		k := r.Intn(100)
		switch {
		case k < 42:
			g.tx()
		case k < 48:
			reshuffle()
			g.cur += r.Range(0, 20)
		case k < 64:
			g.add("cut")
		case k < 76:
			m := g.pickMint()
			g.mints = append(g.mints, m)
			g.add(fmt.Sprintf("trunc %d", m))
		case k < 79:
			g.add(fmt.Sprintf("walt %d", g.pickMint()))
		case k < 85:
			var lids []string
			for i := 0; i < g.nser; i++ {
				if r.Chance(40) {
					lids = append(lids, strconv.Itoa(i))
				}
			}
			if len(lids) == 0 {
				lids = []string{strconv.Itoa(r.Intn(g.nser))}
			}
			kind := "sel"
			if r.Chance(40) {
				kind = "stale"
			}
			g.add(fmt.Sprintf("evict %s %d %s", kind, g.cur-r.Range(0, 4), strings.Join(lids, ",")))
		case k < 92:
			mv := int64(math.MinInt64)
			if len(g.mints) > 0 && r.Chance(80) {
				mv = g.mints[len(g.mints)-1]
				for _, m := range g.mints {
					if m > mv {
						mv = m
					}
				}
			}
			g.add(fmt.Sprintf("restart %d", mv))
		case k < 96:
			lid := r.Intn(g.nser)
			lo := int64(math.MinInt64)
			for _, m := range g.mints {
				if m > lo {
					lo = m
				}
			}
			var ts []int64
			for _, t := range g.times[lid] {
				if t >= lo {
					ts = append(ts, t)
				}
			}
			if len(ts) > 0 {
				a := ts[r.Intn(len(ts))]
				b := ts[r.Intn(len(ts))]
				if a > b {
					a, b = b, a
				}
				g.add(fmt.Sprintf("del %d %d %d", lid, a-r.Range(0, 1), b+r.Range(0, 1)))
			}
		default:
			g.add("dump")
		}
	}
	if r.Chance(60) {
		mv := int64(math.MinInt64)
		for _, m := range g.mints {
			if m > mv {
				mv = m
			}
		}
		g.add(fmt.Sprintf("restart %d", mv))
	}
	g.add("dump")
	return g.ops
}

func main() {
	c := h.Init()
	defer c.Finish()
	if c.Replay != "" {
		for _, cs := range c.ReplayCases() {
			c.Case(strings.TrimPrefix(cs[0], "case "))
			runCase(c, cs[1:])
		}
		return
	}
	maxOps := 40
	if c.Tier == "thorough" {
		maxOps = 90
	}
	for i := 0; i < c.N; i++ {
		r := c.Rng.Fork()
		ops := genCase(r, maxOps)
		c.Case(fmt.Sprintf("k%d", i))
		c.NonTrivial(strings.Join(ops, ";"))
		runCase(c, ops)
	}
}
