// Suite regex (C17): labels.FastRegexMatcher against the regular-expression semantics.
// One case = one generated pattern: its parse tree (as NewFastRegexMatcher parses it), the tree of the
// expression the matcher really compiled for its fallback, and a set of strings derived from the pattern.
package main

import (
	"fmt"
	"sort"
	"strings"
	"unicode"
	"unicode/utf8"

	"github.com/grafana/regexp"
	"github.com/grafana/regexp/syntax"

	"github.com/prometheus/prometheus/model/labels"

	"verif/harness/h"
)

// ---------------------------------------------------------------- tree serialisation

func fl(re *syntax.Regexp) string {
	if re.Flags&syntax.FoldCase != 0 {
		return "1"
	}
	return "0"
}

func runes(rs []rune) string {
	p := make([]string, len(rs))
	for i, r := range rs {
		p[i] = fmt.Sprint(int(r))
	}
	return "[" + strings.Join(p, ",") + "]"
}

// ser writes the prefix notation of the tree; false if it contains an operator outside the modelled class.
func ser(re *syntax.Regexp, sb *strings.Builder) bool {
	subs := func() bool {
		for _, s := range re.Sub {
			if !ser(s, sb) {
				return false
			}
		}
		sb.WriteString(")")
		return true
	}
	switch re.Op {
	case syntax.OpLiteral:
		sb.WriteString("l" + fl(re) + runes(re.Rune))
	case syntax.OpCharClass:
		sb.WriteString("c" + fl(re) + runes(re.Rune))
	case syntax.OpAnyChar:
		sb.WriteString(".")
	case syntax.OpAnyCharNotNL:
		sb.WriteString("_")
	case syntax.OpNoMatch:
		sb.WriteString("!")
	case syntax.OpEmptyMatch:
		sb.WriteString("e" + fl(re))
	case syntax.OpBeginText:
		sb.WriteString("^")
	case syntax.OpEndText:
		sb.WriteString("$")
	case syntax.OpConcat:
		sb.WriteString("C(")
		return subs()
	case syntax.OpAlternate:
		sb.WriteString("A(")
		return subs()
	case syntax.OpStar:
		sb.WriteString("*(")
		return subs()
	case syntax.OpPlus:
		sb.WriteString("+(")
		return subs()
	case syntax.OpQuest:
		sb.WriteString("?(")
		return subs()
	case syntax.OpCapture:
		sb.WriteString("P(")
		return subs()
	case syntax.OpRepeat:
		mx := "-"
		if re.Max >= 0 {
			mx = fmt.Sprint(re.Max)
		}
		sb.WriteString(fmt.Sprintf("R%d,%s(", re.Min, mx))
		return subs()
	default:
		return false
	}
	return true
}

func serialise(re *syntax.Regexp) (string, bool) {
	var sb strings.Builder
	ok := ser(re, &sb)
	return sb.String(), ok
}

// ---------------------------------------------------------------- running one case

type compiled struct {
	fast *labels.FastRegexMatcher
	std  *regexp.Regexp
	rt   *regexp.Regexp
}

func compilePat(v string) (*compiled, string, string, bool) {
	parsed, err := syntax.Parse(v, syntax.Perl|syntax.DotNL)
	if err != nil {
		return nil, "", "", false
	}
	ast, ok := serialise(parsed)
	if !ok {
		return nil, "", "", false
	}
	std, err := regexp.Compile("^(?s:" + v + ")$")
	if err != nil {
		return nil, "", "", false
	}
	rt, err := regexp.Compile("^(?s:" + parsed.String() + ")$")
	if err != nil {
		return nil, "", "", false
	}
	var fast *labels.FastRegexMatcher
	if p, _ := h.Try(func() { fast, err = labels.NewFastRegexMatcher(v) }); p || err != nil || fast == nil {
		return nil, "", "", false
	}
	reast := "-"
	if rs := fast.VerifReString(); rs != "" {
		rp, err := syntax.Parse(rs, syntax.Perl)
		if err != nil {
			return nil, "", "", false
		}
		if reast, ok = serialise(rp); !ok {
			return nil, "", "", false
		}
	}
	return &compiled{fast: fast, std: std, rt: rt}, ast, reast, true
}

func b01(b bool) string {
	if b {
		return "1"
	}
	return "0"
}

func setOut(c *compiled, tree bool) string {
	sm := c.fast.SetMatches()
	sort.Strings(sm)
	out := "set="
	if len(sm) == 0 {
		out += "-"
	} else {
		p := make([]string, len(sm))
		for i, s := range sm {
			p[i] = h.HexS(s)
		}
		out += strings.Join(p, ",")
	}
	if tree {
		out += " tree=" + c.fast.VerifTree()
	}
	return out
}

func matchOut(c *compiled, s string) string {
	var fast bool
	if p, _ := h.Try(func() { fast = c.fast.MatchString(s) }); p {
		return "panic"
	}
	return "fast=" + b01(fast) + " std=" + b01(c.std.MatchString(s))
}

func runCase(c *h.Ctx, ops []string) {
	var cur *compiled
	for _, op := range ops {
		f := strings.Fields(op)
		switch {
		case len(f) >= 4 && f[0] == "pat":
			v := string(h.UnHex(f[1]))
			cp, ast, reast, ok := compilePat(v)
			// the trees are recomputed from the pattern text: the op line is self-contained and replayable
			// against another checkout (reast depends on what that checkout compiles)
			if !ok {
				cur = nil
				c.Op(op, "bad-pattern")
				continue
			}
			cur = cp
			tree := len(f) > 4 && f[4] == "tree"
			nop := "pat " + f[1] + " " + ast + " " + reast
			if tree {
				nop += " tree"
			}
			c.Op(nop, setOut(cp, tree))
		case len(f) == 3 && f[0] == "m" && cur != nil:
			s := string(h.UnHex(f[1]))
			c.Op("m "+f[1]+" "+b01(cur.rt.MatchString(s)), matchOut(cur, s))
		default:
			c.Op(op, "bad-op")
		}
	}
}

// ---------------------------------------------------------------- generator

type gen struct {
	r     *h.Rng
	words []string // literals used by the current pattern
	uni   bool     // non-ASCII stream
}

var asciiWords = []string{"a", "b", "k", "s", "A", "K", "S", "foo", "bar", "baz", "Foo", "FOO", "fo", "foob", "foobar", "ba", "x", "xy", "1", "12", "2",
	"-", "_", "ab", "abc", "k8s", "ks", "job", "prod", "api", "http", "ss", "kk", "sk", " ", "a b", "%", "zz", "up", "node", "0"}
var uniWords = []string{"é", "É", "é", "ς", "σ", "Σ", "ﬁ", "fi", "K", "k", "ſ", "s", "wς", "wσ", "éa", "aé", "fé", "ﬁx", "Ée", "σσ", "σς", "f", "e", "w"}

func (g *gen) word() string {
	var w string
	if g.uni && g.r.Chance(60) {
		w = h.Pick(g.r, uniWords)
	} else {
		w = h.Pick(g.r, asciiWords)
	}
	g.words = append(g.words, w)
	return w
}

func (g *gen) lit() string { return regexp.QuoteMeta(g.word()) }

func (g *gen) wild() string {
	return h.Pick(g.r, []string{".*", ".*", ".+", ".?", "(?-s:.*)", "(?-s:.+)", "(?-s:.?)", "(.*)", ".*?", "(?s:.*)"})
}

func (g *gen) class() string {
	return h.Pick(g.r, []string{"[ab]", "[aA]", "[a-c]", "[kK]", "[12]", "[0-9]", "[^a]", "\\d", "[a-z]", "\\w", "[sS]", "[abk]", "[x-z]", "[fF]", "[^\\n]", "[a-cA-C]", "[ks]", "[jk]"})
}

// literal-alternation family: n alternates built from words with shared prefixes
func (g *gen) litAlts(n int) []string {
	var out []string
	for i := 0; i < n; i++ {
		switch g.r.Intn(10) {
		case 0:
			out = append(out, "")
		case 1, 2:
			w := g.word() + g.word()
			g.words = append(g.words, w)
			out = append(out, regexp.QuoteMeta(w))
		case 3:
			w := g.word() + fmt.Sprint(g.r.Intn(30))
			g.words = append(g.words, w)
			out = append(out, regexp.QuoteMeta(w))
		case 4:
			if len(out) > 0 { // duplicate / extension of an earlier alternate
				w := out[g.r.Intn(len(out))] + h.Pick(g.r, []string{"", "a", "1", "K"})
				out = append(out, w)
				continue
			}
			out = append(out, g.lit())
		default:
			out = append(out, g.lit())
		}
	}
	return out
}

func (g *gen) size() int {
	switch g.r.Intn(10) {
	case 0, 1:
		return 15 + g.r.Intn(4) // around the map threshold 16
	case 2:
		return 17 + g.r.Intn(30)
	default:
		return 2 + g.r.Intn(6)
	}
}

// a concatenation piece for alternates like foo.*, .*foo, foo.+bar
func (g *gen) wildLit() string {
	switch g.r.Intn(8) {
	case 0:
		return g.lit() + g.wild()
	case 1:
		return g.wild() + g.lit()
	case 2:
		return g.wild() + g.lit() + g.wild()
	case 3:
		return g.lit() + g.wild() + g.lit()
	case 4:
		return g.wild() + g.lit() + g.wild() + g.lit() + g.wild()
	case 5:
		return "(?i:" + g.lit() + ")" + g.wild()
	case 6:
		return g.wild() + "(?i:" + g.lit() + ")"
	default:
		return g.lit()
	}
}

func (g *gen) rec(d int) string {
	if d <= 0 || g.r.Chance(25) {
		switch g.r.Intn(12) {
		case 0:
			return g.class()
		case 1:
			return g.wild()
		case 2:
			return "(?i:" + g.lit() + ")"
		case 3:
			return ""
		case 4:
			return h.Pick(g.r, []string{"^", "$", "\\n", ".", "(?-s:.)"})
		default:
			return g.lit()
		}
	}
	switch g.r.Intn(12) {
	case 0, 1, 2:
		n := 2 + g.r.Intn(3)
		p := make([]string, n)
		for i := range p {
			p[i] = g.rec(d - 1)
		}
		return strings.Join(p, "|")
	case 3, 4, 5, 6:
		n := 2 + g.r.Intn(3)
		p := make([]string, n)
		for i := range p {
			s := g.rec(d - 1)
			if strings.Contains(s, "|") {
				s = h.Pick(g.r, []string{"(", "(?:", "(?:", "(?i:"}) + s + ")"
			}
			p[i] = s
		}
		return strings.Join(p, "")
	case 7:
		return "(?i:" + g.rec(d-1) + ")"
	case 8:
		return "(" + g.rec(d-1) + ")"
	case 9:
		// no quantifier inside a quantified group: nested repeats of nullable alternations make the
		// (unnormalised) derivatives of the reference matcher explode
		inner := g.rec(d - 1)
		if strings.ContainsAny(inner, "*+?{") {
			inner = g.lit() + "|" + g.class() + g.lit()
		}
		return "(?:" + inner + ")" + h.Pick(g.r, []string{"*", "+", "?", "{2}", "{0,2}", "{1,}", "{2,3}", "{0}"})
	case 10:
		return g.lit() + h.Pick(g.r, []string{"*", "+", "?", "{2}", "{1,2}"})
	default:
		return "^" + g.rec(d-1) + "$"
	}
}

func (g *gen) pattern() (string, string) {
	r := g.r
	switch k := r.Intn(20); k {
	case 0, 1:
		return strings.Join(g.litAlts(g.size()), "|"), "lit-alts"
	case 2, 3:
		return "(?i)" + strings.Join(g.litAlts(g.size()), "|"), "ci-lit-alts"
	case 4:
		return "(?i:" + strings.Join(g.litAlts(g.size()), "|") + ")" + h.Pick(r, []string{"", g.wild(), g.lit()}), "ci-group-alts"
	case 5:
		return h.Pick(r, []string{"", g.wild(), g.lit()}) + "(" + strings.Join(g.litAlts(g.size()), "|") + ")" + h.Pick(r, []string{"", g.wild(), g.lit()}), "group-alts-affix"
	case 6, 7:
		n := g.size()
		p := make([]string, n)
		for i := range p {
			p[i] = g.wildLit()
		}
		pre := ""
		if r.Chance(30) {
			pre = "(?i)"
		}
		return pre + strings.Join(p, "|"), "wild-alts"
	case 8:
		n := 2 + r.Intn(4)
		p := make([]string, n)
		for i := range p {
			p[i] = ".*" + g.lit() + ".*"
		}
		return strings.Join(p, "|"), "contains-alts"
	case 9:
		// .*a.*b.* chains
		n := 1 + r.Intn(3)
		s := ".*"
		for i := 0; i < n; i++ {
			s += g.lit() + h.Pick(r, []string{".*", ".*", ".+", ""})
		}
		return s + h.Pick(r, []string{"", ".*", g.lit()}), "contains-chain"
	case 10:
		return g.wildLit() + h.Pick(r, []string{"", g.class(), g.lit()}), "wild-lit"
	case 11:
		return g.lit() + g.class() + h.Pick(r, []string{"", g.lit(), g.wild(), g.class()}), "lit-class"
	case 12:
		return h.Pick(r, []string{"(?i:" + g.lit() + ")", g.class(), "(?i:" + g.class() + ")"}) + "|" + h.Pick(r, []string{g.lit(), g.class(), "(?i:" + g.lit() + ")"}) + h.Pick(r, []string{"", "|" + g.lit()}), "mixed-fold-alts"
	case 13:
		return h.Pick(r, []string{"^", "^^", "", "(^)"}) + g.rec(2) + h.Pick(r, []string{"$", "$$", "", "($)"}), "anchored"
	case 14:
		return "(?i)" + g.lit() + h.Pick(r, []string{g.wild(), g.class(), "", g.wild() + g.lit()}), "ci-prefix"
	case 15:
		return g.wild() + "(?i:" + g.lit() + ")" + h.Pick(r, []string{"", g.wild()}), "ci-suffix"
	default:
		return g.rec(3), "recursive"
	}
}

// sample draws a string from the language of re (anchors ignored).
func (g *gen) sample(re *syntax.Regexp, sb *strings.Builder) {
	r := g.r
	switch re.Op {
	case syntax.OpLiteral:
		for _, c := range re.Rune {
			if re.Flags&syntax.FoldCase != 0 && r.Chance(50) {
				c = flip(c, g.uni && r.Chance(30))
			}
			sb.WriteRune(c)
		}
	case syntax.OpCharClass:
		if n := len(re.Rune) / 2; n > 0 {
			i := r.Intn(n)
			lo, hi := re.Rune[2*i], re.Rune[2*i+1]
			if hi > 0x7e && !g.uni {
				hi = 0x7e
			}
			if hi < lo {
				lo = hi
			}
			sb.WriteRune(lo + rune(r.Intn(int(hi-lo)+1)))
		}
	case syntax.OpAnyChar, syntax.OpAnyCharNotNL:
		sb.WriteString(h.Pick(r, []string{"a", "x", "K", "\n", "foo", "-"})[:1])
	case syntax.OpConcat, syntax.OpCapture:
		for _, s := range re.Sub {
			g.sample(s, sb)
		}
	case syntax.OpAlternate:
		g.sample(re.Sub[r.Intn(len(re.Sub))], sb)
	case syntax.OpStar, syntax.OpPlus, syntax.OpQuest, syntax.OpRepeat:
		lo, hi := 0, 2
		switch re.Op {
		case syntax.OpPlus:
			lo = 1
		case syntax.OpQuest:
			hi = 1
		case syntax.OpRepeat:
			lo, hi = re.Min, re.Max
			if hi < 0 || hi > lo+2 {
				hi = lo + 2
			}
		}
		n := lo + r.Intn(hi-lo+1)
		for i := 0; i < n; i++ {
			if re.Sub[0].Op == syntax.OpAnyChar || re.Sub[0].Op == syntax.OpAnyCharNotNL {
				sb.WriteString(h.Pick(r, append([]string{"a", "x", "\n", "zz"}, g.words...)))
			} else {
				g.sample(re.Sub[0], sb)
			}
		}
	}
}

func flip(c rune, wide bool) rune {
	if wide {
		return unicode.SimpleFold(c)
	}
	if unicode.IsUpper(c) && c < 128 {
		return unicode.ToLower(c)
	}
	if unicode.IsLower(c) && c < 128 {
		return unicode.ToUpper(c)
	}
	return c
}

func (g *gen) mutate(s string) string {
	r := g.r
	rs := []rune(s)
	switch r.Intn(9) {
	case 0: // case flip of one rune
		if len(rs) > 0 {
			i := r.Intn(len(rs))
			rs[i] = flip(rs[i], g.uni)
		}
	case 1: // upper / lower everything
		if r.Bool() {
			return strings.ToUpper(s)
		}
		return strings.ToLower(s)
	case 2: // delete
		if len(rs) > 0 {
			i := r.Intn(len(rs))
			rs = append(rs[:i:i], rs[i+1:]...)
		}
	case 3: // insert
		i := r.Intn(len(rs) + 1)
		ins := []rune(h.Pick(r, append([]string{"a", "\n", "x", "K", "s", "1"}, g.words...)))
		rs = append(rs[:i:i], append(ins, rs[i:]...)...)
	case 4: // prefix / suffix cut
		if len(rs) > 0 {
			i := r.Intn(len(rs))
			if r.Bool() {
				rs = rs[:i]
			} else {
				rs = rs[i:]
			}
		}
	case 5: // append / prepend
		if r.Bool() {
			return s + h.Pick(r, append([]string{"\n", "a", "x"}, g.words...))
		}
		return h.Pick(r, append([]string{"\n", "a", "x"}, g.words...)) + s
	case 6: // doubling
		return s + s
	case 7: // replace a rune
		if len(rs) > 0 {
			rs[r.Intn(len(rs))] = []rune(h.Pick(r, []string{"a", "\n", "k", "S", "z", "0"}))[0]
		}
	case 8:
		if g.uni || r.Chance(15) { // the non-ASCII members of the orbits of k and s
			for i, c := range rs {
				if (c == 'k' || c == 'K') && r.Bool() {
					rs[i] = 0x212a
				} else if (c == 's' || c == 'S') && r.Bool() {
					rs[i] = 0x17f
				}
			}
		}
	}
	return string(rs)
}

func (g *gen) strings_(v string, n int, sm []string) []string {
	r := g.r
	parsed, _ := syntax.Parse(v, syntax.Perl|syntax.DotNL)
	seen := map[string]bool{}
	var out []string
	add := func(s string) {
		if !utf8.ValidString(s) || strings.ContainsRune(s, utf8.RuneError) || len(s) > 80 || seen[s] {
			return
		}
		if !g.uni && !r.Chance(4) {
			// mostly ASCII inputs in the ASCII stream (K and ſ appear through mutation 8)
			for _, c := range s {
				if c >= 128 && c != 0x212a && c != 0x17f {
					return
				}
			}
		}
		for _, c := range s {
			if c >= 128 && !allowedRune[c] {
				return
			}
		}
		seen[s] = true
		out = append(out, s)
	}
	add("")
	add("\n")
	for i := 0; i < 8 && i < len(sm); i++ {
		add(sm[r.Intn(len(sm))])
	}
	for tries := 0; len(out) < n && tries < 6*n; tries++ {
		var s string
		switch r.Intn(10) {
		case 0, 1, 2, 3:
			var sb strings.Builder
			g.sample(parsed, &sb)
			s = sb.String()
			if r.Chance(45) {
				s = g.mutate(s)
			}
		case 4, 5:
			if len(g.words) > 0 {
				s = h.Pick(r, g.words)
				if r.Chance(50) {
					s = g.mutate(s)
				}
			}
		case 6:
			if len(g.words) > 0 {
				s = h.Pick(r, g.words) + h.Pick(r, g.words)
				if r.Chance(30) {
					s = h.Pick(r, []string{"a", "\n", "x", "foo"}) + s + h.Pick(r, []string{"a", "\n", "x", "bar"})
				}
			}
		case 7:
			if len(out) > 0 {
				s = g.mutate(h.Pick(r, out))
			}
		case 8:
			if len(sm) > 0 {
				s = g.mutate(h.Pick(r, sm))
			}
		default:
			for k, m := 0, r.Intn(5); k < m; k++ {
				s += h.Pick(r, []string{"a", "b", "A", "k", "K", "s", "f", "o", "\n", "1", "x"})
			}
		}
		add(s)
	}
	return out
}

var allowedRune = map[rune]bool{0xe9: true, 0xc9: true, 0x301: true, 0x3c2: true, 0x3c3: true, 0x3a3: true, 0xfb01: true, 0x212a: true, 0x17f: true}

func patternAllowed(v string) bool {
	for _, c := range v {
		if c >= 128 && !allowedRune[c] {
			return false
		}
	}
	return true
}

func main() {
	c := h.Init()
	defer c.Finish()
	if c.Replay != "" {
		for _, cs := range c.ReplayCases() {
			c.Case(strings.TrimPrefix(cs[0], "case "))
			runCase(c, cs[1:])
		}
		return
	}
	tree := c.Extra["tree"] == "1"
	nstr := 30
	if c.Tier == "thorough" {
		nstr = 50
	}
	for i := 0; i < c.N; i++ {
		g := &gen{r: c.Rng, uni: c.Rng.Chance(8)}
		v, shape := g.pattern()
		if !patternAllowed(v) || len(v) > 700 {
			continue
		}
		cp, _, _, ok := compilePat(v)
		if !ok {
			c.Count("skipped:unsupported-or-invalid")
			continue
		}
		c.Case(fmt.Sprintf("p%d", i))
		c.Count("shape:" + shape)
		if g.uni {
			c.Count("stream:non-ascii")
		} else {
			c.Count("stream:ascii")
		}
		sm := cp.fast.SetMatches()
		if len(sm) > 0 {
			c.Count("setmatches:non-empty")
		}
		if cp.fast.VerifReString() == "" {
			c.Count("path:literal-alternation")
		}
		c.Count("tree:" + treeKind(cp.fast.VerifTree()))
		ops := []string{"pat " + h.HexS(v) + " - -"}
		if tree {
			ops[0] += " tree"
		}
		nm := 0
		for _, s := range g.strings_(v, nstr, sm) {
			ops = append(ops, "m "+h.HexS(s)+" 0")
			if cp.std.MatchString(s) {
				nm++
			}
		}
		switch {
		case nm == 0:
			c.Count("matching-strings:0")
		case nm < 4:
			c.Count("matching-strings:1-3")
		default:
			c.Count("matching-strings:4+")
		}
		c.NonTrivial(v)
		runCase(c, ops)
	}
}

// treeKind names the top-level shape of the compiled matcher for the distribution statistics.
func treeKind(t string) string {
	i := strings.LastIndex(t, ";")
	k := t[i+1:]
	if j := strings.IndexByte(k, '('); j >= 0 {
		k = k[:j]
	}
	opt := ""
	if !strings.Contains(t, ";p0:-;s:-;c:[];") {
		opt = "+affix"
	}
	return k + opt
}
