// Suite agent (C48, and the agent half of C15): generated histories on a real agent.DB.
//
// ops:  cfg <oooWindow> <inmem 0|1> <ver 1|2>        (opens the DB; optional, defaults 0 0 1)
//       app <sid> <t> <v> <f|h|hc|g|gc> <useref 0|1> <-|et:ev:el>
//                           -> ok <ref> [exok|exdup|exerr] | ooo | err:…
//                              (float / histogram / custom-bucket histogram / float histogram / custom
//                               float histogram with payload id v; optional exemplar; v1: Append* then
//                               AppendExemplar, v2: one Append with AOptions.Exemplars; el=9 is a label
//                               set of 129 runes)
//       bad empty|dup       -> invalid                 (empty label set / duplicate label name)
//       commit | rollback   -> ok <index of the active segment>
//       cut                 -> ok                      (WL.NextSegment)
//       trunc <mint>        -> <state>                 (db.truncate via the verif hook)
//       restart             -> <state>                 (Close + agent.Open)
//       dump                -> <state>
//       query               -> unsupported unsupported unsupported
//
// <state> = <wal dump (walrec)> # mem=<ref>:<lid>:<lastTs>,… del=<ref>:<seg>:<lid>,… next=<nextRef>
package main

import (
	"context"
	"errors"
	"fmt"
	"math"
	"os"
	"path/filepath"
	"strconv"
	"strings"

	"github.com/prometheus/common/promslog"

	"github.com/prometheus/prometheus/model/exemplar"
	"github.com/prometheus/prometheus/model/histogram"
	"github.com/prometheus/prometheus/model/labels"
	"github.com/prometheus/prometheus/storage"
	"github.com/prometheus/prometheus/tsdb/agent"
	"github.com/prometheus/prometheus/tsdb/wlog"

	"verif/harness/h"
	"verif/harness/walrec"
)

type env struct {
	dir     string
	db      *agent.DB
	opts    *agent.Options
	ver     int
	app1    storage.Appender
	app2    storage.AppenderV2
	lastRef map[int]uint64
}

func clean(err error) string {
	return strings.NewReplacer(" ", "_", "\t", "_", "\n", "_").Replace(err.Error())
}

func (e *env) open() error {
	db, err := agent.Open(promslog.NewNopLogger(), nil, nil, e.dir, e.opts)
	if err != nil {
		return err
	}
	e.db = db
	e.lastRef = map[int]uint64{}
	return nil
}

func (e *env) ensure() error {
	if e.db != nil {
		return nil
	}
	if e.opts == nil {
		e.cfg(0, false, 1)
	}
	return e.open()
}

func (e *env) cfg(ooo int64, inmem bool, ver int) {
	o := agent.DefaultOptions()
	o.OutOfOrderTimeWindow = ooo
	o.CheckpointFromInMemorySeries = inmem
	o.NoLockfile = true
	e.opts = o
	e.ver = ver
}

func (e *env) closeApp() {
	if e.app1 != nil {
		e.app1.Rollback()
		e.app1 = nil
	}
	if e.app2 != nil {
		e.app2.Rollback()
		e.app2 = nil
	}
}

func (e *env) close() {
	if e.db != nil {
		e.closeApp()
		e.db.Close()
		e.db = nil
	}
}

func lbls(s int) labels.Labels {
	return labels.FromStrings("__name__", "m", "s", strconv.Itoa(s))
}

func exLabels(l int) labels.Labels {
	if l == 9 {
		return labels.FromStrings("trace_id", strings.Repeat("x", 121)) // 8 + 121 = 129 runes
	}
	return labels.FromStrings("trace_id", strconv.Itoa(l))
}

func mkHist(id uint64, cb bool) *histogram.Histogram {
	if cb {
		return &histogram.Histogram{Schema: histogram.CustomBucketsSchema, Count: 1, Sum: float64(id),
			CustomValues: []float64{1}, PositiveSpans: []histogram.Span{{Offset: 0, Length: 1}}, PositiveBuckets: []int64{1}}
	}
	return &histogram.Histogram{Schema: 0, Count: 1, Sum: float64(id), ZeroThreshold: 0.001, ZeroCount: 1}
}

func mkFHist(id uint64, cb bool) *histogram.FloatHistogram {
	return mkHist(id, cb).ToFloat(nil)
}

func (e *env) state() string {
	walDir := filepath.Join(e.dir, "wal")
	var mem, del []string
	for _, s := range e.db.VerifSeries() {
		mem = append(mem, fmt.Sprintf("%d:%d:%d", s.Ref, walrec.Lid(s.Labels), s.LastTs))
	}
	for _, d := range e.db.VerifDeleted() {
		lid := 0
		if !d.Labels.IsEmpty() {
			lid = walrec.Lid(d.Labels)
		}
		del = append(del, fmt.Sprintf("%d:%d:%d", d.Ref, d.LastSegment, lid))
	}
	j := func(xs []string) string {
		if len(xs) == 0 {
			return "-"
		}
		return strings.Join(xs, ",")
	}
	return fmt.Sprintf("%s # mem=%s del=%s next=%d", walrec.Dump(walDir, e.opts.CheckpointFromInMemorySeries), j(mem), j(del), e.db.VerifNextRef())
}

func (e *env) doApp(c *h.Ctx, f []string) string {
	sid, _ := strconv.Atoi(f[1])
	t, _ := strconv.ParseInt(f[2], 10, 64)
	v, _ := strconv.ParseUint(f[3], 10, 64)
	kind := f[4]
	var ref storage.SeriesRef
	if f[5] == "1" {
		ref = storage.SeriesRef(e.lastRef[sid])
	}
	var ex *exemplar.Exemplar
	if f[6] != "-" {
		p := strings.Split(f[6], ":")
		et, _ := strconv.ParseInt(p[0], 10, 64)
		ev, _ := strconv.ParseUint(p[1], 10, 64)
		el, _ := strconv.Atoi(p[2])
		ex = &exemplar.Exemplar{Labels: exLabels(el), Value: float64(ev), Ts: et, HasTs: true}
	}
	var hh *histogram.Histogram
	var fh *histogram.FloatHistogram
	switch kind {
	case "h":
		hh = mkHist(v, false)
	case "hc":
		hh = mkHist(v, true)
	case "g":
		fh = mkFHist(v, false)
	case "gc":
		fh = mkFHist(v, true)
	}
	var got storage.SeriesRef
	var err error
	exres := ""
	if e.ver == 2 {
		if e.app2 == nil {
			e.app2 = e.db.AppenderV2(context.Background())
		}
		opts := storage.AOptions{}
		if ex != nil {
			opts.Exemplars = []exemplar.Exemplar{*ex}
		}
		got, err = e.app2.Append(ref, lbls(sid), 0, t, float64(v), hh, fh, opts)
		var pe *storage.AppendPartialError
		if err != nil && errors.As(err, &pe) {
			exres, err = " exerr", nil
		} else if err == nil && ex != nil {
			exres = " exok" // v2 does not tell a silently dropped duplicate from an accepted exemplar
		}
	} else {
		if e.app1 == nil {
			e.app1 = e.db.Appender(context.Background())
		}
		if hh != nil || fh != nil {
			got, err = e.app1.AppendHistogram(ref, lbls(sid), t, hh, fh)
		} else {
			got, err = e.app1.Append(ref, lbls(sid), t, float64(v))
		}
		if err == nil && ex != nil {
			r2, err2 := e.app1.AppendExemplar(got, lbls(sid), *ex)
			switch {
			case err2 != nil:
				exres = " exerr"
			case r2 == 0:
				exres = " exdup"
			default:
				exres = " exok"
			}
		}
	}
	switch {
	case err == nil:
		e.lastRef[sid] = uint64(got)
		c.Count("app:ok-" + kind)
		if exres != "" {
			c.Count("ex:" + strings.TrimSpace(exres))
		}
		return fmt.Sprintf("ok %d%s", got, exres)
	case errors.Is(err, storage.ErrOutOfOrderSample):
		c.Count("app:ooo")
		return "ooo"
	default:
		c.Count("app:err")
		return "err:" + clean(err)
	}
}

func runCase(c *h.Ctx, ops []string) {
	dir := h.TempDir("vagent")
	e := &env{dir: dir}
	defer os.RemoveAll(dir)
	defer e.close()
	for _, op := range ops {
		f := strings.Fields(op)
		out := "bad-op"
		p, pv := h.Try(func() {
			if f[0] == "cfg" {
				ooo, _ := strconv.ParseInt(f[1], 10, 64)
				ver, _ := strconv.Atoi(f[3])
				if e.db != nil {
					out = "err:already-open"
					return
				}
				e.cfg(ooo, f[2] == "1", ver)
				if err := e.open(); err != nil {
					out = "err:" + clean(err)
				} else {
					out = "ok"
				}
				c.Count(fmt.Sprintf("cfg:inmem=%s,ver=%s,ooo>0=%v", f[2], f[3], ooo > 0))
				return
			}
			if err := e.ensure(); err != nil {
				out = "err:" + clean(err)
				return
			}
			switch f[0] {
			case "app":
				out = e.doApp(c, f)
			case "bad":
				l := labels.EmptyLabels()
				if f[1] == "dup" {
					l = labels.FromStrings("a", "1", "a", "2")
				}
				var err error
				if e.ver == 2 {
					if e.app2 == nil {
						e.app2 = e.db.AppenderV2(context.Background())
					}
					_, err = e.app2.Append(0, l, 0, 1, 1, nil, nil, storage.AOptions{})
				} else {
					if e.app1 == nil {
						e.app1 = e.db.Appender(context.Background())
					}
					_, err = e.app1.Append(0, l, 1, 1)
				}
				if err != nil && strings.Contains(err.Error(), "invalid sample") {
					out = "invalid"
				} else if err != nil {
					out = "err:" + clean(err)
				} else {
					out = "ok"
				}
			case "commit", "rollback":
				var err error
				switch {
				case e.app1 != nil && f[0] == "commit":
					err = e.app1.Commit()
				case e.app1 != nil:
					err = e.app1.Rollback()
				case e.app2 != nil && f[0] == "commit":
					err = e.app2.Commit()
				case e.app2 != nil:
					err = e.app2.Rollback()
				}
				e.app1, e.app2 = nil, nil
				if err != nil {
					out = "err:" + clean(err)
				} else {
					_, last, _ := wlog.Segments(filepath.Join(e.dir, "wal"))
					out = fmt.Sprintf("ok %d", last)
				}
			case "cut":
				if _, err := e.db.VerifWAL().NextSegment(); err != nil {
					out = "err:" + clean(err)
				} else {
					out = "ok"
				}
			case "trunc":
				mint, _ := strconv.ParseInt(f[1], 10, 64)
				if err := e.db.VerifTruncate(mint); err != nil {
					out = "err:" + clean(err)
				} else {
					out = e.state()
				}
			case "restart":
				e.closeApp()
				if err := e.db.Close(); err != nil {
					out = "err:close:" + clean(err)
					return
				}
				e.db = nil
				if err := e.open(); err != nil {
					out = "err:" + clean(err)
				} else {
					out = e.state()
				}
			case "dump":
				out = e.state()
			case "query":
				cls := func(err error) string {
					if errors.Is(err, agent.ErrUnsupported) {
						return "unsupported"
					}
					if err == nil {
						return "served"
					}
					return "err:" + clean(err)
				}
				_, e1 := e.db.Querier(math.MinInt64, math.MaxInt64)
				_, e2 := e.db.ChunkQuerier(math.MinInt64, math.MaxInt64)
				_, e3 := e.db.ExemplarQuerier(context.Background())
				out = cls(e1) + " " + cls(e2) + " " + cls(e3)
			}
		})
		if p {
			out = "panic:" + strings.ReplaceAll(fmt.Sprint(pv), " ", "_")
			c.Count("panic")
		}
		c.Count("op:" + f[0])
		c.Op(op, out)
	}
}

// ---------------------------------------------------------------- generator

type gen struct {
	r       *h.Rng
	ops     []string
	v       uint64
	cur     int64
	mint    int64
	hasMint bool
	open    bool
	nser    int
	active  []int
	ooo     int64
	// mono: in half of the cases every series sticks to one sample kind (so there are series whose WAL
	// samples are float histograms only, integer histograms only, …), in the others kinds are mixed.
	mono map[int]string
}

func (g *gen) add(s string) { g.ops = append(g.ops, s) }

func (g *gen) closeTx() {
	if g.open {
		if g.r.Chance(88) {
			g.add("commit")
		} else {
			g.add("rollback")
		}
		g.open = false
	}
}

func (g *gen) appOne(sid int, t int64) {
	g.v++
	kind := "f"
	switch k := g.r.Intn(20); {
	case k == 0:
		kind = "h"
	case k == 1:
		kind = "hc"
	case k == 2:
		kind = "g"
	case k == 3:
		kind = "gc"
	}
	if g.mono != nil {
		if mk, ok := g.mono[sid]; ok {
			kind = mk
		} else {
			g.mono[sid] = []string{"f", "h", "hc", "g", "gc", "g", "h"}[g.r.Intn(7)]
			kind = g.mono[sid]
		}
	}
	ex := "-"
	if g.r.Chance(12) {
		el := g.r.Intn(3)
		if g.r.Chance(8) {
			el = 9
		}
		// small pools so that exact duplicates of the latest exemplar occur
		ex = fmt.Sprintf("%d:%d:%d", t-g.r.Range(0, 1), g.r.Intn(2), el)
	}
	useref := 0
	if g.r.Chance(40) {
		useref = 1
	}
	g.add(fmt.Sprintf("app %d %d %d %s %d %s", sid, t, g.v, kind, useref, ex))
	g.open = true
}

func (g *gen) pickT() int64 {
	switch k := g.r.Intn(12); {
	case k == 0:
		return g.cur - g.ooo // exactly at the rejection boundary of a series written at cur
	case k == 1:
		return g.cur - g.ooo + 1
	case k == 2:
		return g.cur - g.r.Range(0, 2*g.ooo+6)
	case k == 3:
		return g.cur
	default:
		g.cur += g.r.Range(0, 4)
		return g.cur
	}
}

func (g *gen) trunc() {
	g.closeTx()
	var m int64
	switch g.r.Intn(6) {
	case 0:
		m = g.cur + 1 // everything is old
	case 1:
		m = g.cur
	case 2:
		m = g.cur - g.r.Range(0, 3)
	default:
		m = g.cur - g.r.Range(2, 15)
	}
	if g.hasMint && m < g.mint {
		m = g.mint
	}
	g.mint, g.hasMint = m, true
	g.add(fmt.Sprintf("trunc %d", m))
}

func genCase(r *h.Rng, maxOps int) []string {
	g := &gen{r: r}
	if r.Chance(50) {
		g.mono = map[int]string{}
	}
	g.ooo = []int64{0, 0, 0, 1, 5, 40}[r.Intn(6)]
	inmem := 0
	if r.Chance(15) {
		inmem = 1
	}
	g.add(fmt.Sprintf("cfg %d %d %d", g.ooo, inmem, 1+r.Intn(2)))
	g.nser = 2 + r.Intn(4)
	g.cur = []int64{0, 100, 1000, 5, 100, 1000, 20, 7, 300, -60}[r.Intn(10)]
	for i := 0; i < g.nser; i++ {
		if r.Chance(60) {
			g.active = append(g.active, i)
		}
	}
	if len(g.active) == 0 {
		g.active = []int{0}
	}
	n := 10 + r.Intn(maxOps)
	if r.Chance(12) {
		// directed: garbage-collected series reappears under a new ref, restart, truncations (F25 shape)
		s := r.Intn(g.nser)
		g.appOne(s, g.pickT())
		g.closeTx()
		for i := r.Intn(3) + 2; i > 0; i-- {
			g.add("cut")
		}
		g.cur += r.Range(5, 20)
		g.trunc()
		g.appOne(s, g.cur+r.Range(0, 3))
		if r.Chance(50) {
			g.appOne((s+1)%g.nser, g.cur)
		}
		g.closeTx()
		if r.Chance(50) {
			g.add("cut")
		}
		g.add("restart")
		for i := r.Intn(3) + 1; i > 0; i-- {
			g.add("cut")
			if r.Chance(40) {
				g.appOne(r.Intn(g.nser), g.pickT())
				g.closeTx()
			}
		}
		g.trunc()
	}
	for len(g.ops) < n {
		k := r.Intn(100)
		switch {
		case k < 48:
			cnt := 1 + r.Intn(4)
			for i := 0; i < cnt; i++ {
				g.appOne(g.active[r.Intn(len(g.active))], g.pickT())
			}
			if r.Chance(70) {
				g.closeTx()
			}
		case k < 54:
			// churn: change the set of active series and let time pass
			g.active = g.active[:0]
			for i := 0; i < g.nser; i++ {
				if r.Chance(50) {
					g.active = append(g.active, i)
				}
			}
			if len(g.active) == 0 {
				g.active = []int{r.Intn(g.nser)}
			}
			g.cur += r.Range(0, 30)
		case k < 70:
			g.add("cut")
		case k < 82:
			g.trunc()
		case k < 90:
			g.closeTx()
			g.add("restart")
		case k < 94:
			g.add("dump")
		case k < 96:
			g.add("query")
		case k < 98:
			g.add("bad " + []string{"empty", "dup"}[r.Intn(2)])
			g.open = true
		default:
			g.closeTx()
		}
	}
	g.closeTx()
	if r.Chance(50) {
		g.add("restart")
	}
	g.add("dump")
	return g.ops
}

func main() {
	c := h.Init()
	defer c.Finish()
	if c.Replay != "" {
		for _, cs := range c.ReplayCases() {
			c.Case(strings.TrimPrefix(cs[0], "case "))
			runCase(c, cs[1:])
		}
		return
	}
	maxOps := 40
	if c.Tier == "thorough" {
		maxOps = 90
	}
	for i := 0; i < c.N; i++ {
		r := c.Rng.Fork()
		ops := genCase(r, maxOps)
		c.Case(fmt.Sprintf("a%d", i))
		c.NonTrivial(strings.Join(ops, ";"))
		runCase(c, ops)
	}
}
