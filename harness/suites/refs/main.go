// Suite refs (C22): single-threaded histories on a real tsdb.DB in which Append carries a series
// reference: 0, the reference last returned for the series, a reference returned for ANOTHER series,
// or a reference returned before the last restart / garbage collection. Histories churn series (so that
// they are garbage-collected), compact and restart often (every restart and every WAL truncation starts
// a new WAL segment, so checkpoints drop series records after a few of them).
//
// ops:  cfg <chunkRange> <oooWindow> <samplesPerChunk>      (first line of a case; opens the DB)
//       begin | commit | rollback
//       app <s> <t> <vbits-hex> <ref> <zero|own|other|stale>   -> ok <ref> | oob | ooo | dup | noapp
//       del <mint> <maxt> <s|*> | compact | cleantomb | reopen
//       q <mint> <maxt>      -> s<i>=t:v,t:v;…   (series with ≥1 sample, by index; "-" if none)
//       win                  -> <headMinT> <headMaxT> <appendableMinValid|uninit>
//                               (<headMinT> is printed as "~" from the first reopen of a case on)
package main

import (
	"context"
	"errors"
	"fmt"
	"math"
	"os"
	"sort"
	"strconv"
	"strings"

	"github.com/prometheus/common/promslog"

	"github.com/prometheus/prometheus/model/labels"
	"github.com/prometheus/prometheus/storage"
	"github.com/prometheus/prometheus/tsdb"
	"github.com/prometheus/prometheus/tsdb/chunkenc"

	"verif/harness/h"
)

type env struct {
	dir  string
	db   *tsdb.DB
	opts *tsdb.Options
	app  storage.Appender
	// restarted: a reopen happened in this case. From then on Head.MinTime() depends on the head chunk
	// files (which samples sit in m-mapped chunks; whether chunks_head is discarded as corrupted at start
	// and the head rebuilt from the WAL alone), which the reference-layer model does not contain;
	// MinTime() is not part of C22's statement (suite db compares it, with an oracle). `win` prints "~"
	// for it from the first restart on; the model does the same (RefsSuite.lean, renderWinAfterRestart).
	restarted bool
}

func (e *env) open() error {
	db, err := tsdb.Open(e.dir, promslog.NewNopLogger(), nil, e.opts, nil)
	if err != nil {
		return err
	}
	db.DisableCompactions()
	e.db = db
	return nil
}

func (e *env) close() {
	if e.app != nil {
		e.app.Rollback()
		e.app = nil
	}
	if e.db != nil {
		e.db.Close()
		e.db = nil
	}
}

func lbls(s int) labels.Labels {
	return labels.FromStrings("__name__", "m", "s", strconv.Itoa(s))
}

func errClass(err error) string {
	switch {
	case err == nil:
		return "ok"
	case errors.Is(err, storage.ErrOutOfBounds):
		return "oob"
	case errors.Is(err, storage.ErrOutOfOrderSample):
		return "ooo"
	case errors.Is(err, storage.ErrTooOldSample):
		return "tooold"
	case errors.Is(err, storage.ErrDuplicateSampleForTimestamp):
		return "dup"
	default:
		return "err:" + strings.ReplaceAll(strings.ReplaceAll(err.Error(), " ", "_"), "\t", "_")
	}
}

func (e *env) query(mint, maxt int64) string {
	q, err := e.db.Querier(mint, maxt)
	if err != nil {
		return "err:" + strings.ReplaceAll(err.Error(), " ", "_")
	}
	defer q.Close()
	ss := q.Select(context.Background(), true, nil, labels.MustNewMatcher(labels.MatchEqual, "__name__", "m"))
	type ser struct {
		idx int
		s   string
	}
	var out []ser
	for ss.Next() {
		s := ss.At()
		idx, _ := strconv.Atoi(s.Labels().Get("s"))
		it := s.Iterator(nil)
		var parts []string
		for vt := it.Next(); vt != chunkenc.ValNone; vt = it.Next() {
			if vt != chunkenc.ValFloat {
				parts = append(parts, "nonfloat")
				continue
			}
			t, v := it.At()
			parts = append(parts, fmt.Sprintf("%d:%016x", t, math.Float64bits(v)))
		}
		if it.Err() != nil {
			return "err:" + strings.ReplaceAll(it.Err().Error(), " ", "_")
		}
		if len(parts) > 0 {
			out = append(out, ser{idx, fmt.Sprintf("s%d=%s", idx, strings.Join(parts, ","))})
		}
	}
	if ss.Err() != nil {
		return "err:" + strings.ReplaceAll(ss.Err().Error(), " ", "_")
	}
	sort.SliceStable(out, func(i, j int) bool { return out[i].idx < out[j].idx })
	if len(out) == 0 {
		return "-"
	}
	parts := make([]string, len(out))
	for i, s := range out {
		parts[i] = s.s
	}
	return strings.Join(parts, ";")
}


type runner struct {
	c *h.Ctx
	e *env
}

func (rn *runner) exec(op string) string {
	c, e := rn.c, rn.e
	f := strings.Fields(op)
	out := "bad-op"
	p, pv := h.Try(func() {
		switch f[0] {
		case "cfg":
			cr, _ := strconv.ParseInt(f[1], 10, 64)
			ooo, _ := strconv.ParseInt(f[2], 10, 64)
			spc, _ := strconv.Atoi(f[3])
			o := tsdb.DefaultOptions()
			o.MinBlockDuration, o.MaxBlockDuration = cr, cr
			o.OutOfOrderTimeWindow = ooo
			o.SamplesPerChunk = spc
			o.RetentionDuration = 0
			o.WALSegmentSize = 4 * 1024 * 1024 // segments roll over only at open / WAL truncation
			e.opts = o
			e.restarted = false
			if err := e.open(); err != nil {
				out = "err:" + strings.ReplaceAll(err.Error(), " ", "_")
			} else {
				out = "ok"
			}
		case "begin":
			if e.app != nil {
				e.app.Rollback()
			}
			e.app = e.db.Appender(context.Background())
			out = "ok"
		case "app":
			s, _ := strconv.Atoi(f[1])
			t, _ := strconv.ParseInt(f[2], 10, 64)
			vb, _ := strconv.ParseUint(f[3], 16, 64)
			var ref uint64
			if len(f) > 4 {
				ref, _ = strconv.ParseUint(f[4], 10, 64)
			}
			if e.app == nil {
				out = "noapp"
				return
			}
			got, err := e.app.Append(storage.SeriesRef(ref), lbls(s), t, math.Float64frombits(vb))
			out = errClass(err)
			if err == nil {
				out = fmt.Sprintf("ok %d", uint64(got))
			}
			c.Count("app:" + errClass(err))
		case "commit":
			if e.app == nil {
				out = "noapp"
				return
			}
			out = errClass(e.app.Commit())
			e.app = nil
		case "rollback":
			if e.app == nil {
				out = "noapp"
				return
			}
			out = errClass(e.app.Rollback())
			e.app = nil
		case "del":
			mint, _ := strconv.ParseInt(f[1], 10, 64)
			maxt, _ := strconv.ParseInt(f[2], 10, 64)
			m := labels.MustNewMatcher(labels.MatchEqual, "__name__", "m")
			if f[3] != "*" {
				m = labels.MustNewMatcher(labels.MatchEqual, "s", f[3])
			}
			out = errClass(e.db.Delete(context.Background(), mint, maxt, m))
		case "compact":
			out = errClass(e.db.Compact(context.Background()))
			c.Count(fmt.Sprintf("blocks-after-compact:%d", len(e.db.Blocks())))
			if ents, err := os.ReadDir(e.dir + "/wal"); err == nil {
				for _, en := range ents {
					if strings.HasPrefix(en.Name(), "checkpoint.") {
						c.Count("compact:checkpoint-present")
						break
					}
				}
			}
		case "cleantomb":
			out = errClass(e.db.CleanTombstones())
		case "reopen":
			if e.app != nil {
				e.app.Rollback()
				e.app = nil
			}
			if err := e.db.Close(); err != nil {
				out = "err:close:" + strings.ReplaceAll(err.Error(), " ", "_")
				return
			}
			e.db = nil
			e.restarted = true
			if err := e.open(); err != nil {
				out = "err:" + strings.ReplaceAll(err.Error(), " ", "_")
			} else {
				out = "ok"
			}
		case "q":
			mint, _ := strconv.ParseInt(f[1], 10, 64)
			maxt, _ := strconv.ParseInt(f[2], 10, 64)
			out = e.query(mint, maxt)
		case "win":
			hd := e.db.Head()
			mv, ok := hd.AppendableMinValidTime()
			mint := strconv.FormatInt(hd.MinTime(), 10)
			if e.restarted {
				mint = "~"
			}
			if ok {
				out = fmt.Sprintf("%s %d %d", mint, hd.MaxTime(), mv)
			} else {
				out = fmt.Sprintf("%s %d uninit", mint, hd.MaxTime())
			}
		}
	})
	if p {
		out = "panic:" + strings.ReplaceAll(fmt.Sprint(pv), " ", "_")
		c.Count("panic")
	}
	c.Count("op:" + f[0])
	c.Op(op, out)
	return out
}

func newRunner(c *h.Ctx) (*runner, func()) {
	dir := h.TempDir("vrefs")
	e := &env{dir: dir}
	return &runner{c: c, e: e}, func() { e.close(); os.RemoveAll(dir) }
}

// ---------------------------------------------------------------- generator (online: it sees the returned refs)

func genRun(c *h.Ctx, r *h.Rng, maxOps int) {
	rn, done := newRunner(c)
	defer done()
	cr := h.PickI64(r, []int64{100, 1000})
	spc := []int{120, 4, 2}[r.Intn(3)]
	var hist []string
	do := func(op string) string { hist = append(hist, op); return rn.exec(op) }
	do(fmt.Sprintf("cfg %d 0 %d", cr, spc))
	nser := 3 + r.Intn(4)
	base := []int64{0, 1, cr * 10, -cr * 3, -7}[r.Intn(5)]
	cur := base
	active := map[int]bool{}
	redraw := func() {
		active = map[int]bool{}
		for i := 0; i < nser; i++ {
			if r.Chance(45) {
				active[i] = true
			}
		}
		if len(active) == 0 {
			active[r.Intn(nser)] = true
		}
	}
	redraw()
	own := map[int]uint64{}     // ref last returned for the series in this process lifetime
	stale := map[int][]uint64{} // refs returned for the series earlier (before a restart, or replaced)
	pickSeries := func() int {
		if r.Chance(80) {
			k := r.Intn(len(active))
			for i := 0; i < nser; i++ {
				if active[i] {
					if k == 0 {
						return i
					}
					k--
				}
			}
		}
		return r.Intn(nser)
	}
	advance := func() {
		switch k := r.Intn(100); {
		case k < 55:
			cur += r.Range(0, cr/10+1)
		case k < 80:
			cur += cr/2 + r.Range(-1, 1)
		default:
			cur += cr + r.Range(0, cr)
		}
	}
	n := 10 + r.Intn(maxOps)
	committed := false
	for len(hist) < n {
		switch k := r.Intn(100); {
		case k < 45:
			// One timestamp per transaction, and every transaction also writes the anchor series (index
			// nser, never deleted) at that timestamp: every block range that holds any sample holds an
			// undeleted one, so no head compaction ends without a block (the storage model replays an
			// untruncated WAL and is exact only while every head truncation is backed by a block).
			do("begin")
			advance()
			t := cur
			if committed && r.Chance(6) {
				t = cur - 3*cr // out of bounds
			}
			cnt := 1 + r.Intn(4)
			txV := math.Float64bits(float64(r.Intn(50)))
			for i := 0; i <= cnt; i++ {
				s := pickSeries()
				if i == 0 {
					s = nser
				}
				ref, kind := uint64(0), "zero"
				switch q := r.Intn(100); {
				case q < 35:
				case q < 65:
					if v, ok := own[s]; ok {
						ref, kind = v, "own"
					}
				case q < 78:
					o := r.Intn(nser)
					if v, ok := own[o]; ok && o != s && i > 0 {
						ref, kind = v, "other"
					}
				default:
					if l := stale[s]; len(l) > 0 {
						ref, kind = l[r.Intn(len(l))], "stale"
					}
				}
				// one value per transaction: a second sample for the same series at the transaction's
				// timestamp is then an identical duplicate (a no-op), not a sample that reaches the WAL and is
				// dropped at Commit
				v := txV
				if i == 0 {
					v = math.Float64bits(1)
				}
				out := do(fmt.Sprintf("app %d %d %016x %d %s", s, t, v, ref, kind))
				c.Count("refkind:" + kind)
				if f := strings.Fields(out); len(f) == 2 && f[0] == "ok" {
					got, _ := strconv.ParseUint(f[1], 10, 64)
					tgt := s
					if kind == "other" {
						for o, v := range own {
							if v == ref {
								tgt = o
							}
						}
						if got != ref {
							tgt = s // the other series was gone: fell back to the labels
						}
					}
					if kind == "stale" && got == ref {
						c.Count("stale-ref-resolved")
					}
					if prev, ok := own[tgt]; ok && prev != got {
						stale[tgt] = append(stale[tgt], prev)
						c.Count("ref-changed-in-lifetime")
					}
					own[tgt] = got
				}
			}
			if r.Chance(88) {
				if do("commit") == "ok" {
					committed = true
				}
			} else {
				do("rollback")
			}
		case k < 57:
			do("compact")
		case k < 72:
			do("reopen")
			for s, v := range own {
				stale[s] = append(stale[s], v)
			}
			own = map[int]uint64{}
		case k < 79:
			a := base + r.Range(0, (cur-base)+1)
			b := a + r.Range(0, (cur-base)/2+2)
			if r.Chance(25) {
				a, b = math.MinInt64, math.MaxInt64
			}
			do(fmt.Sprintf("del %d %d %d", a, b, r.Intn(nser)))
		case k < 86:
			redraw()
		case k < 90:
			do("win")
		default:
			if r.Chance(50) {
				do(fmt.Sprintf("q %d %d", int64(math.MinInt64), int64(math.MaxInt64)))
			} else {
				a := base + r.Range(0, (cur-base)+1)
				do(fmt.Sprintf("q %d %d", a, a+r.Range(0, 3*cr)))
			}
		}
	}
	do(fmt.Sprintf("q %d %d", int64(math.MinInt64), int64(math.MaxInt64)))
	do("win")
	c.NonTrivial(strings.Join(hist, ";"))
}

func main() {
	c := h.Init()
	defer c.Finish()
	if c.Replay != "" {
		for _, cs := range c.ReplayCases() {
			c.Case(strings.TrimPrefix(cs[0], "case "))
			rn, done := newRunner(c)
			for _, op := range cs[1:] {
				rn.exec(op)
			}
			done()
		}
		return
	}
	maxOps := 45
	if c.Tier == "thorough" {
		maxOps = 60
	}
	for i := 0; i < c.N; i++ {
		r := c.Rng.Fork()
		c.Case(fmt.Sprintf("h%d", i))
		genRun(c, r, maxOps)
	}
}
