// Suite histfn (C32): promql.BucketQuantile / HistogramQuantile / HistogramFraction and
// histogram_count/sum/avg on generated classic bucket sets and native histograms.
// All floats travel as IEEE bit patterns; NaNs are canonicalised to 7ff8000000000001.
package main

import (
	"fmt"
	"math"
	"strconv"
	"strings"

	"github.com/prometheus/prometheus/model/histogram"
	"github.com/prometheus/prometheus/promql"
	"github.com/prometheus/prometheus/promql/parser/posrange"

	"verif/harness/h"
)

const nanBits = 0x7ff8000000000001

func fx(f float64) string {
	if math.IsNaN(f) {
		return fmt.Sprintf("%016x", uint64(nanBits))
	}
	return fmt.Sprintf("%016x", math.Float64bits(f))
}

func pf(s string) float64 {
	u, err := strconv.ParseUint(s, 16, 64)
	if err != nil {
		panic("bad float token " + s)
	}
	return math.Float64frombits(u)
}

func b01(b bool) string {
	if b {
		return "1"
	}
	return "0"
}

// ---------------------------------------------------------------- classic

func fmtBuckets(bs promql.Buckets) string {
	if len(bs) == 0 {
		return "-"
	}
	p := make([]string, len(bs))
	for i, b := range bs {
		p[i] = fx(b.UpperBound) + ":" + fx(b.Count)
	}
	return strings.Join(p, ",")
}

func parseBuckets(s string) promql.Buckets {
	if s == "-" {
		return nil
	}
	var bs promql.Buckets
	for _, p := range strings.Split(s, ",") {
		kv := strings.Split(p, ":")
		bs = append(bs, promql.Bucket{UpperBound: pf(kv[0]), Count: pf(kv[1])})
	}
	return bs
}

func runBQ(q float64, bs promql.Buckets) string {
	cp := make(promql.Buckets, len(bs))
	copy(cp, bs) // BucketQuantile sorts and rewrites counts in place
	var out string
	if p, _ := h.Try(func() {
		v, forced, fixed, minB, maxB, maxDiff := promql.BucketQuantile(q, cp)
		out = fmt.Sprintf("%s %s %s %s %s %s", fx(v), b01(forced), b01(fixed), fx(minB), fx(maxB), fx(maxDiff))
	}); p {
		return "panic"
	}
	return out
}

// ---------------------------------------------------------------- native

func fmtSpans(s []histogram.Span) string {
	if len(s) == 0 {
		return "-"
	}
	p := make([]string, len(s))
	for i, x := range s {
		p[i] = fmt.Sprintf("%d:%d", x.Offset, x.Length)
	}
	return strings.Join(p, ",")
}

func fmtFloats(s []float64) string {
	if len(s) == 0 {
		return "-"
	}
	p := make([]string, len(s))
	for i, x := range s {
		p[i] = fx(x)
	}
	return strings.Join(p, ",")
}

func parseSpans(s string) []histogram.Span {
	if s == "-" {
		return nil
	}
	var out []histogram.Span
	for _, p := range strings.Split(s, ",") {
		kv := strings.Split(p, ":")
		o, _ := strconv.ParseInt(kv[0], 10, 32)
		l, _ := strconv.ParseUint(kv[1], 10, 32)
		out = append(out, histogram.Span{Offset: int32(o), Length: uint32(l)})
	}
	return out
}

func parseFloats(s string) []float64 {
	if s == "-" {
		return nil
	}
	var out []float64
	for _, p := range strings.Split(s, ",") {
		out = append(out, pf(p))
	}
	return out
}

func specOf(fh *histogram.FloatHistogram) string {
	return strings.Join([]string{strconv.Itoa(int(fh.Schema)), fx(fh.ZeroThreshold), fx(fh.ZeroCount),
		fmtSpans(fh.PositiveSpans), fmtFloats(fh.PositiveBuckets), fmtSpans(fh.NegativeSpans), fmtFloats(fh.NegativeBuckets),
		fmtFloats(fh.CustomValues)}, "/")
}

func histFromSpec(count, sum float64, spec string) *histogram.FloatHistogram {
	f := strings.Split(spec, "/")
	sc, _ := strconv.Atoi(f[0])
	return &histogram.FloatHistogram{Schema: int32(sc), ZeroThreshold: pf(f[1]), ZeroCount: pf(f[2]), Count: count, Sum: sum,
		PositiveSpans: parseSpans(f[3]), PositiveBuckets: parseFloats(f[4]), NegativeSpans: parseSpans(f[5]), NegativeBuckets: parseFloats(f[6]),
		CustomValues: parseFloats(f[7])}
}

func iterStr(it histogram.BucketIterator[float64]) string {
	var p []string
	for it.Next() {
		b := it.At()
		p = append(p, fx(b.Lower)+":"+fx(b.Upper)+":"+fx(b.Count))
	}
	if len(p) == 0 {
		return "-"
	}
	return strings.Join(p, ",")
}

// hLine renders the `h` op: what the functions read of the histogram (incl. the real iterators' output) + the spec.
func hLine(fh *histogram.FloatHistogram) string {
	k := "e"
	if fh.UsesCustomBuckets() {
		k = "c"
	}
	return fmt.Sprintf("h %s %s %s %d %d %s %s %s", k, fx(fh.Count), fx(fh.Sum), len(fh.NegativeBuckets), len(fh.PositiveBuckets),
		iterStr(fh.AllBucketIterator()), iterStr(fh.AllReverseBucketIterator()), specOf(fh))
}

// ---------------------------------------------------------------- case runner

func fop(o string, a, b float64) string {
	switch o {
	case "add":
		return fx(a + b)
	case "sub":
		return fx(a - b)
	case "mul":
		return fx(a * b)
	case "div":
		return fx(a / b)
	case "min":
		return fx(math.Min(a, b))
	case "lt":
		return b01(a < b)
	case "eq":
		return b01(a == b)
	}
	return "bad-op"
}

func runCase(c *h.Ctx, ops []string) {
	var bs promql.Buckets
	fh := &histogram.FloatHistogram{}
	for _, op := range ops {
		f := strings.Fields(op)
		switch f[0] {
		case "b":
			bs = parseBuckets(f[1])
			c.Op(op, "ok")
		case "bq":
			out := runBQ(pf(f[1]), bs)
			c.Count("bq:" + classOf(out))
			c.Op(op, out)
		case "h":
			var line string
			if p, v := h.Try(func() {
				fh = histFromSpec(pf(f[2]), pf(f[3]), f[8])
				line = hLine(fh)
			}); p {
				panic(fmt.Sprint("generator produced a histogram the iterators reject: ", v, " ", op))
			}
			c.Op(line, "ok")
		case "hq":
			var v float64
			if p, _ := h.Try(func() { v, _ = promql.HistogramQuantile(pf(f[1]), fh.Copy(), "m", posrange.PositionRange{}) }); p {
				c.Op(op, "panic")
				continue
			}
			c.Count("hq:" + classOf(fx(v)))
			c.Op(op, fx(v))
			if !fh.UsesCustomBuckets() {
				c.Op("obs "+fx(v), "-")
			}
		case "hf":
			var v float64
			if p, _ := h.Try(func() { v, _ = promql.HistogramFraction(pf(f[1]), pf(f[2]), fh.Copy(), "m", posrange.PositionRange{}) }); p {
				c.Op(op, "panic")
				continue
			}
			c.Count("hf:" + classOf(fx(v)))
			c.Op(op, fx(v))
			if !fh.UsesCustomBuckets() {
				c.Op("obs "+fx(v), "-")
			}
		case "hc":
			var out string
			if p, _ := h.Try(func() {
				var vals [3]float64
				for i, name := range []string{"histogram_count", "histogram_sum", "histogram_avg"} {
					vec, _ := promql.FunctionCalls[name]([]promql.Vector{{promql.Sample{H: fh.Copy()}}}, nil, nil, &promql.EvalNodeHelper{})
					if len(vec) != 1 {
						panic("no sample")
					}
					vals[i] = vec[0].F
				}
				out = fx(vals[0]) + " " + fx(vals[1]) + " " + fx(vals[2])
			}); p {
				out = "panic"
			}
			c.Op(op, out)
		case "obs":
			// regenerated after hq/hf
		case "fop":
			c.Op(op, fop(f[1], pf(f[2]), pf(f[3])))
		}
	}
}

func classOf(out string) string {
	t := strings.Fields(out)[0]
	if t == "panic" {
		return t
	}
	v := pf(t)
	switch {
	case math.IsNaN(v):
		return "nan"
	case math.IsInf(v, 1):
		return "posinf"
	case math.IsInf(v, -1):
		return "neginf"
	}
	return "fin"
}

// ---------------------------------------------------------------- generators

func dyadic(r *h.Rng, lo, hi int64, shift uint) float64 {
	return float64(r.Range(lo, hi)) / float64(uint64(1)<<shift)
}

func genQ(r *h.Rng) float64 {
	switch r.Intn(16) {
	case 0:
		return 0
	case 1:
		return 1
	case 2:
		return math.NaN()
	case 3:
		return -dyadic(r, 1, 64, 6)
	case 4:
		return 1 + dyadic(r, 1, 64, 6)
	case 5:
		return h.Pick(r, []float64{math.Copysign(0, -1), 5e-324, 1e-300, 1 - 0x1p-53, 0.5, math.Nextafter(0.5, 0), math.Nextafter(0.5, 1), 0x1p-40, math.Inf(1), math.Inf(-1), math.Nextafter(1, 2)})
	case 6, 7:
		return r.Float()
	case 8, 9, 10:
		return dyadic(r, 0, 1024, 10)
	default:
		return dyadic(r, 0, 16, 4)
	}
}

func ladder(r *h.Rng) []float64 {
	n := 3 + r.Intn(10)
	qs := make([]float64, n)
	for i := range qs {
		qs[i] = genQ(r)
	}
	if r.Chance(40) { // dense local ladder: several ranks inside the same bucket
		base := dyadic(r, 0, 60, 6)
		for i := 0; i < 4; i++ {
			qs = append(qs, base+dyadic(r, 0, 64, 10))
		}
	}
	return qs
}

func genClassic(c *h.Ctx, r *h.Rng) promql.Buckets {
	n := r.Intn(9)
	if r.Chance(10) {
		n = 9 + r.Intn(8)
	}
	if r.Chance(85) && n < 2 {
		n = 2 + r.Intn(5)
	}
	style := r.Intn(10)
	var bs promql.Buckets
	ub := dyadic(r, -12, 8, 2)
	if r.Chance(60) {
		ub = dyadic(r, 1, 8, 2)
	}
	dupOK := n <= 12 || (style != 3 && style != 5)
	cum := 0.0
	if style == 3 {
		cum = float64(r.Range(1e11, 4e12)) // tiny relative deltas around the 1e-12 tolerance
	}
	for i := 0; i < n; i++ {
		inc := float64(r.Intn(6))
		if r.Chance(30) {
			inc = 0
		}
		switch style {
		case 1: // fractional dyadic counts
			inc = dyadic(r, 0, 40, 3)
		case 3:
			inc = float64(r.Intn(4))
		case 4:
			inc = 0 // all-zero or flat
		}
		cum += inc
		cnt := cum
		if style == 2 && r.Chance(35) { // non-monotonic dip / bump
			cnt = cum - float64(r.Intn(8))
			if cnt < 0 && r.Chance(80) {
				cnt = 0
			}
		}
		if style == 3 && r.Chance(50) {
			cnt = cum + float64(r.Range(-6, 6))
			if r.Chance(30) {
				cnt = math.Nextafter(cum, math.Inf(r.Intn(2)*2-1))
			}
		}
		if style == 5 && r.Chance(15) {
			cnt = h.Pick(r, []float64{math.NaN(), math.Inf(1), -1, -3, math.Copysign(0, -1), 0x1p-1060, 1e300})
			c.Count("classic:special-count")
		}
		bs = append(bs, promql.Bucket{UpperBound: ub, Count: cnt})
		// slices.SortFunc is unstable beyond 12 elements: there, equal bounds are generated only with counts
		// whose sums are exact (order-independent)
		if !dupOK || !r.Chance(12) { // else: duplicate upper bound
			ub += dyadic(r, 1, 12, 2)
		} else {
			c.Count("classic:dup-bound")
		}
	}
	if n > 0 && r.Chance(88) {
		bs[len(bs)-1].UpperBound = math.Inf(1)
		if len(bs) > 2 && dupOK && r.Chance(8) { // a duplicate +Inf bucket
			bs[len(bs)-2].UpperBound = math.Inf(1)
		}
	} else {
		c.Count("classic:no-inf")
	}
	if r.Chance(50) { // BucketQuantile must sort
		for i := len(bs) - 1; i > 0; i-- {
			j := r.Intn(i + 1)
			bs[i], bs[j] = bs[j], bs[i]
		}
	}
	c.Count(fmt.Sprintf("classic:style%d", style))
	return bs
}

func genSpans(r *h.Rng, maxBuckets int) ([]histogram.Span, int) {
	var spans []histogram.Span
	total := 0
	ns := r.Intn(4)
	for i := 0; i < ns && total < maxBuckets; i++ {
		l := 1 + r.Intn(4)
		if total+l > maxBuckets {
			l = maxBuckets - total
		}
		off := int32(r.Intn(3))
		if i == 0 {
			off = int32(r.Range(-6, 6))
		} else if r.Chance(50) {
			off = int32(1 + r.Intn(3))
		}
		spans = append(spans, histogram.Span{Offset: off, Length: uint32(l)})
		total += l
	}
	return spans, total
}

func genCounts(r *h.Rng, n int, frac bool) []float64 {
	out := make([]float64, n)
	for i := range out {
		switch {
		case r.Chance(20):
			out[i] = 0
		case frac:
			out[i] = dyadic(r, 0, 64, 3)
		default:
			out[i] = float64(r.Intn(20))
		}
	}
	return out
}

func genNative(c *h.Ctx, r *h.Rng) *histogram.FloatHistogram {
	fh := &histogram.FloatHistogram{}
	frac := r.Chance(25)
	if r.Chance(40) { // custom buckets (NHCB)
		fh.Schema = histogram.CustomBucketsSchema
		nb := r.Intn(7)
		v := dyadic(r, -16, 8, 2)
		if r.Chance(50) {
			v = dyadic(r, 1, 8, 2)
		}
		for i := 0; i < nb; i++ {
			fh.CustomValues = append(fh.CustomValues, v)
			v += dyadic(r, 1, 12, 2)
		}
		// one span starting at 0, or a few with gaps, never beyond len(custom)+1 buckets
		maxB := nb + 1
		var spans []histogram.Span
		total := 0
		idx := 0
		for total < maxB && idx < maxB && r.Chance(85) {
			off := 0
			if r.Chance(35) {
				off = r.Intn(2) + boolInt(len(spans) > 0)
			}
			if idx+off >= maxB {
				break
			}
			l := 1 + r.Intn(maxB-idx-off)
			spans = append(spans, histogram.Span{Offset: int32(off), Length: uint32(l)})
			idx += off + l
			total += l
		}
		fh.PositiveSpans = spans
		fh.PositiveBuckets = genCounts(r, total, frac)
		c.Count("native:custom")
	} else {
		fh.Schema = int32(r.Range(-4, 8))
		var n int
		if r.Chance(75) {
			fh.PositiveSpans, n = genSpans(r, 8)
			fh.PositiveBuckets = genCounts(r, n, frac)
		}
		if r.Chance(55) {
			fh.NegativeSpans, n = genSpans(r, 8)
			fh.NegativeBuckets = genCounts(r, n, frac)
		}
		if r.Chance(60) {
			fh.ZeroThreshold = h.Pick(r, []float64{0x1p-128, 0x1p-10, 0.25, 0.5, 1, 0.75, 3, 0})
			fh.ZeroCount = float64(r.Intn(12))
			if frac {
				fh.ZeroCount = dyadic(r, 0, 64, 3)
			}
		}
		c.Count(fmt.Sprintf("native:schema%d", fh.Schema))
	}
	// a zero threshold that swallows whole buckets yields buckets with Lower > Upper: keep only a few of those
	if !wellFormed(fh) {
		if r.Chance(85) {
			fh.ZeroThreshold = 0x1p-128
		} else {
			c.Count("native:zero-threshold-swallows-buckets")
		}
	}
	// Count = sum of the iterated buckets (exact on these dyadic counts)
	total := 0.0
	for it := fh.AllBucketIterator(); it.Next(); {
		total += it.At().Count
	}
	fh.Count = total
	fh.Sum = dyadic(r, -400, 400, 2)
	switch {
	case r.Chance(8): // NaN observations: Sum = NaN, Count ≥ Σ buckets
		fh.Sum = math.NaN()
		fh.Count = total + float64(r.Intn(5))
		c.Count("native:nan-sum")
	case r.Chance(6): // inconsistent Count (model comparison only)
		fh.Count = total + float64(r.Range(-3, 3))
		if fh.Count < 0 {
			fh.Count = 0
		}
		c.Count("native:inconsistent-count")
	case r.Chance(3):
		fh.Sum = h.Pick(r, []float64{math.Inf(1), math.Inf(-1), 0, math.Copysign(0, -1)})
	}
	if total == 0 {
		c.Count("native:empty")
	}
	return fh
}

func wellFormed(fh *histogram.FloatHistogram) bool {
	prev := math.Inf(-1)
	for it := fh.AllBucketIterator(); it.Next(); {
		b := it.At()
		if b.Lower > b.Upper || b.Lower < prev {
			return false
		}
		prev = b.Upper
	}
	return true
}

func boolInt(b bool) int {
	if b {
		return 1
	}
	return 0
}

// boundPool: values around which fraction intervals are built: real bucket boundaries, points inside buckets, ±Inf.
func boundPool(r *h.Rng, fh *histogram.FloatHistogram) []float64 {
	pool := []float64{math.Inf(-1), math.Inf(1), 0}
	for it := fh.AllBucketIterator(); it.Next(); {
		b := it.At()
		pool = append(pool, b.Lower, b.Upper)
		if !math.IsInf(b.Lower, 0) && !math.IsInf(b.Upper, 0) {
			pool = append(pool, b.Lower+(b.Upper-b.Lower)*dyadic(r, 1, 15, 4))
		}
	}
	for i := 0; i < 3; i++ {
		pool = append(pool, dyadic(r, -80, 80, 3))
	}
	return pool
}

func main() {
	c := h.Init()
	defer c.Finish()
	if c.Replay != "" {
		for _, cs := range c.ReplayCases() {
			c.Case(strings.TrimPrefix(cs[0], "case "))
			runCase(c, cs[1:])
		}
		return
	}
	r := c.Rng
	for i := 0; i < c.N; i++ {
		switch k := i % 10; {
		case k < 5: // classic
			c.Case(fmt.Sprintf("c%d", i))
			bs := genClassic(c, r)
			ops := []string{"b " + fmtBuckets(bs)}
			for _, q := range ladder(r) {
				ops = append(ops, "bq "+fx(q))
			}
			c.NonTrivial(strings.Join(ops, ";"))
			runCase(c, ops)
		case k < 9: // native
			c.Case(fmt.Sprintf("n%d", i))
			fh := genNative(c, r)
			ops := []string{"h x " + fx(fh.Count) + " " + fx(fh.Sum) + " 0 0 - - " + specOf(fh), "hc"}
			for _, q := range ladder(r) {
				ops = append(ops, "hq "+fx(q))
			}
			pool := boundPool(r, fh)
			// a nested family: sorted points, intervals [p_i, p_j] shrinking from both ends
			pts := make([]float64, 4+r.Intn(4))
			for j := range pts {
				pts[j] = h.Pick(r, pool)
			}
			for a := 0; a < len(pts); a++ {
				for b := a + 1; b < len(pts); b++ {
					if pts[b] < pts[a] {
						pts[a], pts[b] = pts[b], pts[a]
					}
				}
			}
			lo, hi := 0, len(pts)-1
			for lo < hi {
				ops = append(ops, "hf "+fx(pts[lo])+" "+fx(pts[hi]))
				if r.Bool() {
					lo++
				} else {
					hi--
				}
			}
			ops = append(ops, "hf "+fx(math.Inf(-1))+" "+fx(math.Inf(1)))
			for j := 0; j < 2; j++ {
				ops = append(ops, "hf "+fx(h.Pick(r, pool))+" "+fx(h.Pick(r, pool)))
			}
			if r.Chance(10) {
				ops = append(ops, "hf "+fx(math.NaN())+" "+fx(1))
			}
			c.NonTrivial(strings.Join(ops, ";"))
			runCase(c, ops)
		default: // soft-float self-check
			c.Case(fmt.Sprintf("f%d", i))
			var ops []string
			for j := 0; j < 12; j++ {
				a, b := genFloat(r), genFloat(r)
				ops = append(ops, fmt.Sprintf("fop %s %s %s", h.Pick(r, []string{"add", "sub", "mul", "div", "lt", "eq", "min"}), fx(a), fx(b)))
			}
			runCase(c, ops)
			c.Count("fop-cases")
		}
	}
}

func genFloat(r *h.Rng) float64 {
	switch r.Intn(10) {
	case 0:
		return h.Pick(r, []float64{0, math.Copysign(0, -1), math.Inf(1), math.Inf(-1), math.NaN(), 1, -1, math.MaxFloat64, 5e-324, 0x1p-1022, 0x1p-1023, 1e-12})
	case 1, 2:
		return math.Float64frombits(r.U64()) // anything (NaN payloads are canonicalised on output)
	case 3:
		return math.Float64frombits(r.U64() & 0x800fffffffffffff) // subnormals
	case 4, 5:
		return dyadic(r, -1<<20, 1<<20, 10)
	case 6:
		return float64(r.Range(-1e15, 1e15))
	default:
		e := r.Range(-60, 60)
		return math.Ldexp(float64(r.Range(-(1<<53), 1<<53)), int(e)-53)
	}
}
