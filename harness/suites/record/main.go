// Suite record (C14): tsdb/record Encoder/Decoder, byte-exact, on generated record batches plus
// truncated / mutated / random / crafted byte strings. Value syntax: see
// lean/PromModel/Suites/RecordSuite.lean.
package main

import (
	"bufio"
	"fmt"
	"hash/fnv"
	"io"
	"log/slog"
	"math"
	"os"
	"os/exec"
	"runtime"
	"strconv"
	"strings"
	"syscall"
	"time"

	"github.com/prometheus/prometheus/model/histogram"
	"github.com/prometheus/prometheus/model/labels"
	"github.com/prometheus/prometheus/storage"
	"github.com/prometheus/prometheus/tsdb/chunks"
	"github.com/prometheus/prometheus/tsdb/record"
	"github.com/prometheus/prometheus/tsdb/tombstones"

	"verif/harness/h"
)

// ---------------------------------------------------------------- rendering

func joinOr(sep string, xs []string) string {
	if len(xs) == 0 {
		return "-"
	}
	return strings.Join(xs, sep)
}

func bitsF(f float64) string { return fmt.Sprintf("%016x", math.Float64bits(f)) }
func bitsU(u uint64) string  { return fmt.Sprintf("%016x", u) }

func showLabels(ls labels.Labels) string {
	var xs []string
	ls.Range(func(l labels.Label) { xs = append(xs, h.HexS(l.Name)+"="+h.HexS(l.Value)) })
	return joinOr(",", xs)
}

func showSeries(xs []record.RefSeries) string {
	out := make([]string, len(xs))
	for i, s := range xs {
		out[i] = fmt.Sprintf("%d:%s", uint64(s.Ref), showLabels(s.Labels))
	}
	return joinOr(";", out)
}

func showSamples(xs []record.RefSample) string {
	out := make([]string, len(xs))
	for i, s := range xs {
		out[i] = fmt.Sprintf("%d:%d:%d:%s", uint64(s.Ref), s.ST, s.T, bitsF(s.V))
	}
	return joinOr(";", out)
}

func showStones(xs []tombstones.Stone) string {
	out := make([]string, len(xs))
	for i, s := range xs {
		ivs := make([]string, len(s.Intervals))
		for k, iv := range s.Intervals {
			ivs[k] = fmt.Sprintf("%d/%d", iv.Mint, iv.Maxt)
		}
		out[i] = fmt.Sprintf("%d:%s", uint64(s.Ref), joinOr(",", ivs))
	}
	return joinOr(";", out)
}

func showExemplars(xs []record.RefExemplar) string {
	out := make([]string, len(xs))
	for i, e := range xs {
		out[i] = fmt.Sprintf("%d:%d:%s:%s", uint64(e.Ref), e.T, bitsF(e.V), showLabels(e.Labels))
	}
	return joinOr(";", out)
}

func showMeta(xs []record.RefMetadata) string {
	out := make([]string, len(xs))
	for i, m := range xs {
		out[i] = fmt.Sprintf("%d:%d:%s:%s", uint64(m.Ref), m.Type, h.HexS(m.Unit), h.HexS(m.Help))
	}
	return joinOr(";", out)
}

func showMmap(xs []record.RefMmapMarker) string {
	out := make([]string, len(xs))
	for i, m := range xs {
		out[i] = fmt.Sprintf("%d:%d", uint64(m.Ref), uint64(m.MmapRef))
	}
	return joinOr(";", out)
}

func showSpans(xs []histogram.Span, star bool) string {
	if star {
		return "*"
	}
	out := make([]string, len(xs))
	for i, s := range xs {
		out[i] = fmt.Sprintf("%d/%d", s.Offset, s.Length)
	}
	return joinOr(",", out)
}

func showHists(xs []record.RefHistogramSample, opaque8 bool) string {
	out := make([]string, len(xs))
	for i, x := range xs {
		hh := x.H
		star := opaque8 && hh.Schema == 8
		pb, nb := "*", "*"
		if !star {
			pb, nb = showI64s(hh.PositiveBuckets), showI64s(hh.NegativeBuckets)
		}
		out[i] = fmt.Sprintf("%d:%d:%d:%d:%d:%s:%d:%d:%s:%s:%s:%s:%s:%s", uint64(x.Ref), x.ST, x.T,
			uint8(hh.CounterResetHint), hh.Schema, bitsF(hh.ZeroThreshold), hh.ZeroCount, hh.Count, bitsF(hh.Sum),
			showSpans(hh.PositiveSpans, star), showSpans(hh.NegativeSpans, star), pb, nb, showF64s(hh.CustomValues))
	}
	return joinOr(";", out)
}

func showFHists(xs []record.RefFloatHistogramSample, opaque8 bool) string {
	out := make([]string, len(xs))
	for i, x := range xs {
		hh := x.FH
		star := opaque8 && hh.Schema == 8
		pb, nb := "*", "*"
		if !star {
			pb, nb = showF64s(hh.PositiveBuckets), showF64s(hh.NegativeBuckets)
		}
		out[i] = fmt.Sprintf("%d:%d:%d:%d:%d:%s:%s:%s:%s:%s:%s:%s:%s:%s", uint64(x.Ref), x.ST, x.T,
			uint8(hh.CounterResetHint), hh.Schema, bitsF(hh.ZeroThreshold), bitsF(hh.ZeroCount), bitsF(hh.Count), bitsF(hh.Sum),
			showSpans(hh.PositiveSpans, star), showSpans(hh.NegativeSpans, star), pb, nb, showF64s(hh.CustomValues))
	}
	return joinOr(";", out)
}

func showI64s(xs []int64) string {
	out := make([]string, len(xs))
	for i, x := range xs {
		out[i] = strconv.FormatInt(x, 10)
	}
	return joinOr(",", out)
}

func showF64s(xs []float64) string {
	out := make([]string, len(xs))
	for i, x := range xs {
		out[i] = bitsF(x)
	}
	return joinOr(",", out)
}

// ---------------------------------------------------------------- parsing (replay and generation share it)

type bad struct{ msg string }

func fail(format string, a ...any) { panic(bad{fmt.Sprintf(format, a...)}) }

func split(sep, s string) []string {
	if s == "-" {
		return nil
	}
	return strings.Split(s, sep)
}

func pU64(s string) uint64 {
	v, err := strconv.ParseUint(s, 10, 64)
	if err != nil {
		fail("uint64 %q", s)
	}
	return v
}

func pI64(s string) int64 {
	v, err := strconv.ParseInt(s, 10, 64)
	if err != nil {
		fail("int64 %q", s)
	}
	return v
}

func pBits(s string) float64 {
	v, err := strconv.ParseUint(s, 16, 64)
	if err != nil || len(s) != 16 {
		fail("bits %q", s)
	}
	return math.Float64frombits(v)
}

func fields(s string, n int) []string {
	f := strings.Split(s, ":")
	if len(f) != n {
		fail("want %d fields in %q", n, s)
	}
	return f
}

func pLabels(s string) labels.Labels {
	ps := split(",", s)
	b := labels.NewScratchBuilder(len(ps))
	for _, p := range ps {
		kv := strings.Split(p, "=")
		if len(kv) != 2 {
			fail("label %q", p)
		}
		b.Add(string(h.UnHex(kv[0])), string(h.UnHex(kv[1])))
	}
	return b.Labels()
}

func pSeries(s string) (out []record.RefSeries) {
	for _, it := range split(";", s) {
		f := fields(it, 2)
		out = append(out, record.RefSeries{Ref: chunks.HeadSeriesRef(pU64(f[0])), Labels: pLabels(f[1])})
	}
	return out
}

func pSamples(s string) (out []record.RefSample) {
	for _, it := range split(";", s) {
		f := fields(it, 4)
		out = append(out, record.RefSample{Ref: chunks.HeadSeriesRef(pU64(f[0])), ST: pI64(f[1]), T: pI64(f[2]), V: pBits(f[3])})
	}
	return out
}

func pStones(s string) (out []tombstones.Stone) {
	for _, it := range split(";", s) {
		f := fields(it, 2)
		st := tombstones.Stone{Ref: storage.SeriesRef(pU64(f[0]))}
		for _, iv := range split(",", f[1]) {
			ab := strings.Split(iv, "/")
			if len(ab) != 2 {
				fail("interval %q", iv)
			}
			st.Intervals = append(st.Intervals, tombstones.Interval{Mint: pI64(ab[0]), Maxt: pI64(ab[1])})
		}
		out = append(out, st)
	}
	return out
}

func pExemplars(s string) (out []record.RefExemplar) {
	for _, it := range split(";", s) {
		f := fields(it, 4)
		out = append(out, record.RefExemplar{Ref: chunks.HeadSeriesRef(pU64(f[0])), T: pI64(f[1]), V: pBits(f[2]), Labels: pLabels(f[3])})
	}
	return out
}

func pMeta(s string) (out []record.RefMetadata) {
	for _, it := range split(";", s) {
		f := fields(it, 4)
		ty := pU64(f[1])
		if ty > 255 {
			fail("metadata type %d", ty)
		}
		out = append(out, record.RefMetadata{Ref: chunks.HeadSeriesRef(pU64(f[0])), Type: uint8(ty), Unit: string(h.UnHex(f[2])), Help: string(h.UnHex(f[3]))})
	}
	return out
}

func pMmap(s string) (out []record.RefMmapMarker) {
	for _, it := range split(";", s) {
		f := fields(it, 2)
		out = append(out, record.RefMmapMarker{Ref: chunks.HeadSeriesRef(pU64(f[0])), MmapRef: chunks.ChunkDiskMapperRef(pU64(f[1]))})
	}
	return out
}

func pSpans(s string) (out []histogram.Span) {
	for _, p := range split(",", s) {
		ab := strings.Split(p, "/")
		if len(ab) != 2 {
			fail("span %q", p)
		}
		o, l := pI64(ab[0]), pU64(ab[1])
		if o < math.MinInt32 || o > math.MaxInt32 || l > math.MaxUint32 {
			fail("span range %q", p)
		}
		out = append(out, histogram.Span{Offset: int32(o), Length: uint32(l)})
	}
	return out
}

func pI64s(s string) (out []int64) {
	for _, p := range split(",", s) {
		out = append(out, pI64(p))
	}
	return out
}

func pF64s(s string) (out []float64) {
	for _, p := range split(",", s) {
		out = append(out, pBits(p))
	}
	return out
}

func pSchemaHint(f []string) (histogram.CounterResetHint, int32) {
	hint, schema := pU64(f[3]), pI64(f[4])
	if hint > 255 || schema < math.MinInt32 || schema > math.MaxInt32 {
		fail("hint/schema range")
	}
	return histogram.CounterResetHint(hint), int32(schema)
}

func pHists(s string) (out []record.RefHistogramSample) {
	for _, it := range split(";", s) {
		f := fields(it, 14)
		hint, schema := pSchemaHint(f)
		out = append(out, record.RefHistogramSample{Ref: chunks.HeadSeriesRef(pU64(f[0])), ST: pI64(f[1]), T: pI64(f[2]),
			H: &histogram.Histogram{CounterResetHint: hint, Schema: schema, ZeroThreshold: pBits(f[5]), ZeroCount: pU64(f[6]), Count: pU64(f[7]),
				Sum: pBits(f[8]), PositiveSpans: pSpans(f[9]), NegativeSpans: pSpans(f[10]), PositiveBuckets: pI64s(f[11]), NegativeBuckets: pI64s(f[12]),
				CustomValues: pF64s(f[13])}})
	}
	return out
}

func pFHists(s string) (out []record.RefFloatHistogramSample) {
	for _, it := range split(";", s) {
		f := fields(it, 14)
		hint, schema := pSchemaHint(f)
		out = append(out, record.RefFloatHistogramSample{Ref: chunks.HeadSeriesRef(pU64(f[0])), ST: pI64(f[1]), T: pI64(f[2]),
			FH: &histogram.FloatHistogram{CounterResetHint: hint, Schema: schema, ZeroThreshold: pBits(f[5]), ZeroCount: pBits(f[6]), Count: pBits(f[7]),
				Sum: pBits(f[8]), PositiveSpans: pSpans(f[9]), NegativeSpans: pSpans(f[10]), PositiveBuckets: pF64s(f[11]), NegativeBuckets: pF64s(f[12]),
				CustomValues: pF64s(f[13])}})
	}
	return out
}

// ---------------------------------------------------------------- running one op against the real code

// hazard: three consecutive bytes >= 0x80, i.e. some uvarint >= 2^21 could be read from these bytes.
// The real decoders do not bound counts by the remaining input (`for range nLabels`, `for range numFields`,
// `make([]Span, l)`), so on damaged bytes a count in 2^21..2^63 makes them spin or allocate until the
// (sticky) decode error is finally returned. Such inputs are decoded in a watchdog child process; if it
// does not answer in time the op is dropped from the case (counted as decu:dropped-*).
func hazard(b []byte) bool {
	for i := 0; i+2 < len(b); i++ {
		if b[i] >= 0x80 && b[i+1] >= 0x80 && b[i+2] >= 0x80 {
			return true
		}
	}
	return false
}

func decResult[T any](xs []T, err error, show func([]T) string) string {
	if err != nil {
		if strings.Contains(err.Error(), "invalid record type") {
			return "err type"
		}
		return "err"
	}
	return "ok " + show(xs)
}

func decode(kind string, untrusted bool, b []byte) string {
	dec := record.NewDecoder(labels.NewSymbolTable(), slog.New(slog.DiscardHandler))
	var out string
	p, _ := h.Try(func() {
		switch kind {
		case "series":
			xs, err := dec.Series(b, nil)
			out = decResult(xs, err, showSeries)
		case "samples":
			xs, err := dec.Samples(b, nil)
			out = decResult(xs, err, showSamples)
		case "tomb":
			xs, err := dec.Tombstones(b, nil)
			out = decResult(xs, err, showStones)
		case "exemplars":
			xs, err := dec.Exemplars(b, nil)
			out = decResult(xs, err, showExemplars)
		case "meta":
			xs, err := dec.Metadata(b, nil)
			out = decResult(xs, err, showMeta)
		case "mmap":
			xs, err := dec.MmapMarkers(b, nil)
			out = decResult(xs, err, showMmap)
		case "hist":
			xs, err := dec.HistogramSamples(b, nil)
			out = decResult(xs, err, func(x []record.RefHistogramSample) string { return showHists(x, untrusted) })
		case "fhist":
			xs, err := dec.FloatHistogramSamples(b, nil)
			out = decResult(xs, err, func(x []record.RefFloatHistogramSample) string { return showFHists(x, untrusted) })
		default:
			out = "bad-op"
		}
	})
	if p {
		return "panic"
	}
	return out
}

func runOp(c *h.Ctx, op string) (out string) {
	defer func() {
		if r := recover(); r != nil {
			if b, ok := r.(bad); ok {
				_ = b
				out = "bad-op"
				return
			}
			out = "panic"
		}
	}()
	f := strings.Fields(op)
	if len(f) < 2 {
		return "bad-op"
	}
	c.Count("op:" + f[0])
	v2 := len(f) == 3 && f[1] == "2"
	enc := record.Encoder{EnableSTStorage: v2}
	switch f[0] {
	case "enc_series":
		return h.Hex(enc.Series(pSeries(f[1]), nil))
	case "enc_tomb":
		return h.Hex(enc.Tombstones(pStones(f[1]), nil))
	case "enc_exemplars":
		return h.Hex(enc.Exemplars(pExemplars(f[1]), nil))
	case "enc_meta":
		return h.Hex(enc.Metadata(pMeta(f[1]), nil))
	case "enc_mmap":
		return h.Hex(enc.MmapMarkers(pMmap(f[1]), nil))
	case "enc_samples":
		return h.Hex(enc.Samples(pSamples(f[2]), nil))
	case "enc_hist":
		b, left := enc.HistogramSamples(pHists(f[2]), nil)
		return h.Hex(b) + " " + showHists(left, false)
	case "enc_fhist":
		b, left := enc.FloatHistogramSamples(pFHists(f[2]), nil)
		return h.Hex(b) + " " + showFHists(left, false)
	case "enc_chist":
		return h.Hex(enc.CustomBucketsHistogramSamples(pHists(f[2]), nil))
	case "enc_cfhist":
		return h.Hex(enc.CustomBucketsFloatHistogramSamples(pFHists(f[2]), nil))
	case "type":
		dec := record.NewDecoder(labels.NewSymbolTable(), slog.New(slog.DiscardHandler))
		return strconv.Itoa(int(dec.Type(h.UnHex(f[1]))))
	}
	if strings.HasPrefix(f[0], "dec_") {
		o := decode(f[0][4:], false, h.UnHex(f[1]))
		c.Count("dec:" + strings.Fields(o)[0])
		return o
	}
	if strings.HasPrefix(f[0], "decu_") {
		b := h.UnHex(f[1])
		kind := f[0][5:]
		var o string
		if hazard(b) && countKinds[kind] {
			c.Count("decu:via-watchdog")
			o = theWorker.call(kind, f[1])
		} else {
			o = decode(kind, true, b)
		}
		c.Count("decu:" + strings.Fields(o)[0])
		return o
	}
	return "bad-op"
}

// kinds whose decoders read element counts (the others cannot spin or over-allocate)
var countKinds = map[string]bool{"series": true, "exemplars": true, "meta": true, "hist": true, "fhist": true}

// ---------------------------------------------------------------- watchdog child

const workerEnv = "VERIF_RECORD_WORKER"

type worker struct {
	cmd *exec.Cmd
	in  io.WriteCloser
	out *bufio.Reader
}

// pool of started children: process start-up is slow on a loaded machine, so replacements for
// children that had to be killed are started in the background.
type workerPool struct {
	cur    *worker
	spares chan *worker
}

var theWorker = &workerPool{}

func startWorker() *worker {
	cmd := exec.Command(os.Args[0])
	cmd.Env = append(os.Environ(), workerEnv+"=1")
	in, err1 := cmd.StdinPipe()
	out, err2 := cmd.StdoutPipe()
	if err1 != nil || err2 != nil || cmd.Start() != nil {
		fmt.Fprintln(os.Stderr, "cannot start watchdog child")
		os.Exit(3)
	}
	return &worker{cmd, in, bufio.NewReaderSize(out, 1<<20)}
}

func (w *worker) kill() {
	w.in.Close()
	w.cmd.Process.Kill()
	w.cmd.Wait()
}

func (p *workerPool) stop() {
	if p.spares == nil {
		return
	}
	if p.cur != nil {
		p.cur.kill()
		p.cur = nil
	}
	for {
		select {
		case w := <-p.spares:
			w.kill()
		default:
			return
		}
	}
}

func (p *workerPool) call(kind, hx string) string {
	if p.spares == nil {
		p.spares = make(chan *worker, 3)
		go func() {
			for {
				p.spares <- startWorker()
			}
		}()
	}
	if p.cur == nil {
		p.cur = <-p.spares
	}
	w := p.cur
	fmt.Fprintf(w.in, "%s %s\n", kind, hx)
	line, err := w.out.ReadString('\n')
	line = strings.TrimSuffix(line, "\n")
	if err != nil || line == "" {
		line = "oom" // the child died (fatal out-of-memory)
	}
	if line == "hang" || line == "oom" {
		p.cur = nil
		go w.kill()
	}
	return line
}

// workerMain: one `kind hex` request per line; answers the decoder's canonical output, or `hang` / `oom`
// (and exits) when the decoder does not return within the budget / needs more than ~320 MiB.
func workerMain() {
	// Cap the address space a little above what the runtime has reserved so far: a huge `make` then fails
	// at once (fatal "out of memory", the parent sees EOF) instead of zeroing gigabytes first.
	if b, err := os.ReadFile("/proc/self/statm"); err == nil {
		if f := strings.Fields(string(b)); len(f) > 0 {
			if pages, err := strconv.ParseUint(f[0], 10, 64); err == nil {
				lim := pages*uint64(os.Getpagesize()) + 768<<20
				syscall.Setrlimit(syscall.RLIMIT_AS, &syscall.Rlimit{Cur: lim, Max: lim})
			}
		}
	}
	in := bufio.NewReaderSize(os.Stdin, 1<<20)
	out := bufio.NewWriter(os.Stdout)
	for {
		line, err := in.ReadString('\n')
		if err != nil {
			return
		}
		f := strings.Fields(line)
		if len(f) != 2 {
			return
		}
		done := make(chan string, 1)
		go func() { done <- decode(f[0], true, h.UnHex(f[1])) }()
		deadline := time.After(150 * time.Millisecond)
		tick := time.NewTicker(2 * time.Millisecond)
		res := ""
		for res == "" {
			select {
			case r := <-done:
				res = r
			case <-deadline:
				fmt.Fprintln(out, "hang")
				out.Flush()
				os.Exit(0)
			case <-tick.C:
				var ms runtime.MemStats
				runtime.ReadMemStats(&ms)
				if ms.Sys > 320<<20 {
					fmt.Fprintln(out, "oom")
					out.Flush()
					os.Exit(0)
				}
			}
		}
		tick.Stop()
		fmt.Fprintln(out, res)
		out.Flush()
	}
}

// ---------------------------------------------------------------- generators

type gen struct {
	r    *h.Rng
	wild bool
	big  bool // allow 16 KiB strings / 130-label sets (3-byte and 2-byte length prefixes)
	long int  // long strings produced so far in this case (at most 2)
}

var refPool = []uint64{0, 1, 2, 127, 128, 1 << 31, 1<<63 - 1, 1 << 63, 1<<63 + 1, math.MaxUint64 - 1, math.MaxUint64}
var tsPool = []int64{math.MinInt64, math.MinInt64 + 1, -1 << 62, -1, 0, 1, 63, 64, 1 << 62, math.MaxInt64 - 1, math.MaxInt64, 1700000000000}
var bitsPool = []uint64{0, 0x8000000000000000, 0x3ff0000000000000, 0xbff0000000000000, 0x7ff0000000000000, 0xfff0000000000000,
	0x7ff8000000000001, 0x7ff0000000000002, 0x7ff0000000000001, 0xfff8000000000000, 0x7fffffffffffffff, 0xffffffffffffffff, 1, 0x000fffffffffffff, 0x4059000000000000}
var tameBits = []uint64{0, 0x3ff0000000000000, 0x4059000000000000, 0x4000000000000000, 0x7ff0000000000000, 0x3fe0000000000000, 0x0010000000000000, 0x7ff0000000000002}
var strPool = []string{"", "a", "__name__", "job", "le", "héllo✓", "日本語", "a=b,c;d:e", "\x00", "\xff\xfe", "UNIT", "HELP", " ", "-"}

func (g *gen) ref() uint64 {
	if g.wild {
		switch g.r.Intn(4) {
		case 0:
			return h.Pick(g.r, refPool)
		case 1:
			return g.r.U64()
		}
	}
	return uint64(g.r.Intn(3000))
}

func (g *gen) ts() int64 {
	if g.wild {
		switch g.r.Intn(4) {
		case 0:
			return h.PickI64(g.r, tsPool)
		case 1:
			return int64(g.r.U64())
		}
	}
	return 1700000000000 + g.r.Range(-100000, 100000)
}

func (g *gen) bits() uint64 {
	if g.wild {
		switch g.r.Intn(3) {
		case 0:
			return h.Pick(g.r, bitsPool)
		case 1:
			return g.r.U64()
		}
	}
	return h.Pick(g.r, tameBits)
}

func (g *gen) str() string {
	switch g.r.Intn(10) {
	case 0, 1, 2, 3:
		return h.Pick(g.r, strPool)
	case 4:
		// long strings: 2- and 3-byte length prefixes
		n := h.Pick(g.r, []int{127, 128, 129, 300, 16383, 16384, 20000})
		if n > 300 {
			if !g.big || g.long >= 2 {
				n = 130
			} else {
				g.long++
			}
		}
		b := make([]byte, n)
		for i := range b {
			b[i] = byte('a' + g.r.Intn(26))
		}
		return string(b)
	case 5:
		n := g.r.Intn(12)
		b := make([]byte, n)
		for i := range b {
			if g.wild {
				b[i] = byte(g.r.Intn(256))
			} else {
				b[i] = byte(g.r.Intn(128))
			}
		}
		return string(b)
	default:
		n := 1 + g.r.Intn(10)
		b := make([]byte, n)
		for i := range b {
			b[i] = byte('a' + g.r.Intn(26))
		}
		return string(b)
	}
}

func (g *gen) count() int {
	switch g.r.Intn(12) {
	case 0:
		return 0
	case 1:
		return 1
	case 2:
		return 20 + g.r.Intn(40)
	default:
		return 1 + g.r.Intn(7)
	}
}

func (g *gen) labels() string {
	n := g.r.Intn(5)
	if g.big && g.long < 2 && g.r.Chance(30) {
		n = 130 // two-byte label count
		g.long++
	}
	xs := make([]string, n)
	for i := range xs {
		xs[i] = h.HexS(g.str()) + "=" + h.HexS(g.str())
	}
	return joinOr(",", xs)
}

// st pattern relative to the previous start timestamp and the sample timestamp
func (g *gen) st(prev, t int64, mode int) int64 {
	switch mode {
	case 0:
		return 0
	case 1:
		if prev != 0 {
			return prev
		}
		return t - 1000
	case 2:
		return t - g.r.Range(0, 100000)
	default:
		switch g.r.Intn(4) {
		case 0:
			return 0
		case 1:
			return prev
		case 2:
			return g.ts()
		default:
			return t - g.r.Range(0, 100000)
		}
	}
}

func (g *gen) items(f func(i int) string) string {
	n := g.count()
	xs := make([]string, n)
	for i := range xs {
		xs[i] = f(i)
	}
	return joinOr(";", xs)
}

func (g *gen) spans() (string, int) {
	n := g.r.Intn(4)
	xs := make([]string, n)
	total := 0
	for i := range xs {
		off := g.r.Range(-3, 10)
		l := uint64(g.r.Intn(4))
		if g.wild && g.r.Chance(10) {
			off = h.PickI64(g.r, []int64{math.MinInt32, math.MaxInt32, -1, 0})
			l = h.Pick(g.r, []uint64{0, math.MaxUint32, 1 << 31})
		}
		total += int(l % 8)
		xs[i] = fmt.Sprintf("%d/%d", off, l)
	}
	return joinOr(",", xs), total
}

var schemaWF = []int64{-53, -53, -4, -3, 0, 1, 3, 7, 8}
var schemaOdd = []int64{-9, -5, 9, 52, 53, -54, -10, math.MinInt32, math.MaxInt32}

func (g *gen) hist(fl bool, schema int64, prevST int64, stMode int) (string, int64) {
	ref, t := g.ref(), g.ts()
	st := g.st(prevST, t, stMode)
	hint := g.r.Intn(4)
	if g.wild && g.r.Chance(10) {
		hint = g.r.Intn(256)
	}
	cnt := func() string {
		if fl {
			return bitsU(g.bits())
		}
		if g.wild && g.r.Chance(30) {
			return strconv.FormatUint(h.Pick(g.r, refPool), 10)
		}
		return strconv.Itoa(g.r.Intn(1000))
	}
	bk := func(n int) string {
		if g.r.Chance(20) {
			n = g.r.Intn(6)
		}
		xs := make([]string, n)
		for i := range xs {
			if fl {
				xs[i] = bitsU(g.bits())
			} else if g.wild && g.r.Chance(20) {
				xs[i] = strconv.FormatInt(h.PickI64(g.r, tsPool), 10)
			} else {
				xs[i] = strconv.FormatInt(g.r.Range(-50, 50), 10)
			}
		}
		return joinOr(",", xs)
	}
	ps, pn := g.spans()
	ns, nn := g.spans()
	cv := "-"
	if schema == -53 || (g.wild && g.r.Chance(3)) {
		n := g.r.Intn(5)
		xs := make([]string, n)
		for i := range xs {
			xs[i] = bitsU(g.bits())
		}
		cv = joinOr(",", xs)
	}
	return fmt.Sprintf("%d:%d:%d:%d:%d:%s:%s:%s:%s:%s:%s:%s:%s:%s", ref, st, t, hint, schema, bitsU(g.bits()), cnt(), cnt(), bitsU(g.bits()),
		ps, ns, bk(pn), bk(nn), cv), st
}

// ---------------------------------------------------------------- cases

func hexOf(out string) string { return strings.Fields(out)[0] }

// untrusted decodes derived from a valid record: truncations, byte mutations, insertions/deletions,
// decoding with the wrong decoder.
func (g *gen) abuse(c *h.Ctx, kind, hx string) {
	b := h.UnHex(hx)
	r := g.r
	emit := func(k string, m []byte) {
		op := "decu_" + k + " " + h.Hex(m)
		if o := runOp(c, op); o == "hang" || o == "oom" {
			c.Count("decu:dropped-" + o)
		} else {
			c.Op(op, o)
		}
	}
	if len(b) > 0 {
		if len(b) > 3000 {
			emit(kind, b[:r.Intn(len(b))])
			emit(kind, b[:len(b)-1])
			m := append([]byte{}, b...)
			m[r.Intn(len(m))] ^= 1 << uint(r.Intn(8))
			emit(kind, m)
			return
		}
		// truncations
		if len(b) <= 48 {
			for i := 0; i < len(b); i++ {
				emit(kind, b[:i])
			}
		} else {
			for k := 0; k < 10; k++ {
				emit(kind, b[:r.Intn(len(b))])
			}
			emit(kind, b[:len(b)-1])
		}
		// mutations
		nm := 10
		for k := 0; k < nm; k++ {
			m := append([]byte{}, b...)
			i := r.Intn(len(m))
			switch r.Intn(8) {
			case 0:
				m[i] ^= 0x80
			case 1:
				m[i]++
			case 2:
				m[i]--
			case 3:
				m[i] = 0
			case 4:
				m[i] = 0xff
			case 5:
				m[i] ^= 1 << uint(r.Intn(8))
			case 6: // delete a byte
				m = append(m[:i], m[i+1:]...)
			default: // insert a byte
				m = append(m[:i], append([]byte{byte(r.Intn(256))}, m[i:]...)...)
			}
			emit(kind, m)
		}
		// trailing garbage
		emit(kind, append(append([]byte{}, b...), byte(r.Intn(256))))
		emit(kind, append(append([]byte{}, b...), 0))
	}
	if len(b) < 4000 {
		emit(h.Pick(r, kinds), b)
	}
}

var kinds = []string{"series", "samples", "tomb", "exemplars", "meta", "mmap", "hist", "fhist"}

func (g *gen) recordCase(c *h.Ctx, kind string) {
	r := g.r
	var encOp string
	switch kind {
	case "series":
		encOp = "enc_series " + g.items(func(int) string { return fmt.Sprintf("%d:%s", g.ref(), g.labels()) })
	case "samples":
		v := 1 + r.Intn(2)
		mode := r.Intn(4)
		var prev int64
		encOp = fmt.Sprintf("enc_samples %d ", v) + g.items(func(int) string {
			t := g.ts()
			st := g.st(prev, t, mode)
			prev = st
			return fmt.Sprintf("%d:%d:%d:%s", g.ref(), st, t, bitsU(g.bits()))
		})
		c.Count(fmt.Sprintf("stmode:%d", mode))
	case "tomb":
		encOp = "enc_tomb " + g.items(func(int) string {
			n := 1
			if r.Chance(25) {
				n = r.Intn(4)
			}
			ivs := make([]string, n)
			for i := range ivs {
				ivs[i] = fmt.Sprintf("%d/%d", g.ts(), g.ts())
			}
			return fmt.Sprintf("%d:%s", g.ref(), joinOr(",", ivs))
		})
	case "exemplars":
		encOp = "enc_exemplars " + g.items(func(int) string {
			return fmt.Sprintf("%d:%d:%s:%s", g.ref(), g.ts(), bitsU(g.bits()), g.labels())
		})
	case "meta":
		encOp = "enc_meta " + g.items(func(int) string {
			return fmt.Sprintf("%d:%d:%s:%s", g.ref(), h.Pick(r, []int{0, 1, 2, 3, 4, 5, 6, 7, 8, 255}), h.HexS(g.str()), h.HexS(g.str()))
		})
	case "mmap":
		encOp = "enc_mmap " + g.items(func(int) string { return fmt.Sprintf("%d:%d", g.ref(), g.ref()) })
	case "hist", "fhist":
		fl := kind == "fhist"
		v := 1 + r.Intn(2)
		mode := r.Intn(4)
		// batch mix: all exponential / all custom / mixed / with odd schemas
		mix := r.Intn(6)
		var prev int64
		name := "enc_hist"
		if fl {
			name = "enc_fhist"
		}
		if r.Chance(15) {
			name = strings.Replace(name, "enc_", "enc_c", 1)
			if mix != 5 {
				mix = 1
			}
		}
		c.Count(fmt.Sprintf("histmix:%d", mix))
		encOp = fmt.Sprintf("%s %d ", name, v) + g.items(func(int) string {
			var schema int64
			switch mix {
			case 0:
				schema = h.PickI64(r, schemaWF[2:])
			case 1:
				schema = -53
			case 5:
				// unknown / reserved schemas are outside the round-trip statement but must agree with the model;
				// 9..52 (ReduceResolution) only with empty buckets so that the reduced layout is trivial
				schema = h.PickI64(r, append(schemaOdd, schemaWF...))
			default:
				schema = h.PickI64(r, schemaWF)
			}
			s, st := g.hist(fl, schema, prev, mode)
			if schema > 8 && schema <= 52 {
				f := strings.Split(s, ":")
				f[9], f[10], f[11], f[12] = "-", "-", "-", "-"
				s = strings.Join(f, ":")
			}
			prev = st
			return s
		})
	}
	out := runOp(c, encOp)
	c.Op(encOp, out)
	if out == "bad-op" || out == "panic" {
		return
	}
	hx := hexOf(out)
	key := fnv.New64a()
	key.Write([]byte(encOp))
	if !strings.HasSuffix(encOp, " -") {
		c.NonTrivial(fmt.Sprintf("%x", key.Sum64()))
	}
	op := "type " + hx
	c.Op(op, runOp(c, op))
	op = "dec_" + kind + " " + hx
	c.Op(op, runOp(c, op))
	// V1 split: the leftover goes into a custom-buckets record
	if f := strings.Fields(out); len(f) == 2 && f[1] != "-" {
		name := "enc_chist"
		if kind == "fhist" {
			name = "enc_cfhist"
		}
		op = name + " 1 " + f[1]
		o2 := runOp(c, op)
		c.Op(op, o2)
		op = "dec_" + kind + " " + hexOf(o2)
		c.Op(op, runOp(c, op))
		c.Count("split:leftover")
	}
	if r.Chance(60) {
		g.abuse(c, kind, hx)
	}
}

func (g *gen) randomCase(c *h.Ctx) {
	r := g.r
	for k := 0; k < 8; k++ {
		kind := h.Pick(r, kinds)
		n := r.Intn(40)
		b := make([]byte, 0, n+1)
		ty := map[string][]byte{"series": {1}, "samples": {2, 11}, "tomb": {3}, "exemplars": {4}, "mmap": {5}, "meta": {6}, "hist": {7, 9, 12}, "fhist": {8, 10, 13}}[kind]
		if r.Chance(90) {
			b = append(b, h.Pick(r, ty))
		} else {
			b = append(b, byte(r.Intn(256)))
		}
		for i := 0; i < n; i++ {
			switch r.Intn(4) {
			case 0:
				b = append(b, byte(r.Intn(256)))
			case 1:
				b = append(b, 0)
			default:
				b = append(b, byte(r.Intn(6)))
			}
		}
		op := "decu_" + kind + " " + h.Hex(b)
		if o := runOp(c, op); o == "hang" || o == "oom" {
			c.Count("decu:dropped-" + o)
		} else {
			c.Op(op, o)
		}
		if k == 0 {
			op = "type " + h.Hex(b)
			c.Op(op, runOp(c, op))
		}
	}
}

// crafted records whose count / length fields are uvarints >= 2^63 (negative as a Go int): no loop runs,
// no allocation happens, so they are safe to feed to the real decoder unguarded.
func (g *gen) craftedCase(c *h.Ctx) {
	r := g.r
	huge := func() []byte {
		v := h.Pick(r, []uint64{1 << 63, 1<<63 + 5, math.MaxUint64})
		var out []byte
		for v >= 0x80 {
			out = append(out, byte(v)|0x80)
			v >>= 7
		}
		return append(out, byte(v))
	}
	be := func(v uint64) []byte {
		return []byte{byte(v >> 56), byte(v >> 48), byte(v >> 40), byte(v >> 32), byte(v >> 24), byte(v >> 16), byte(v >> 8), byte(v)}
	}
	cat := func(bs ...[]byte) []byte {
		var out []byte
		for _, b := range bs {
			out = append(out, b...)
		}
		return out
	}
	histHead := func(fl bool) []byte {
		if fl {
			return cat([]byte{1, 0}, be(0), be(1), be(2), be(3)) // hint, schema 0, zt, zc, c, sum
		}
		return cat([]byte{1, 0}, be(0), []byte{1, 2}, be(3))
	}
	type tc struct {
		kind string
		b    []byte
	}
	all := []tc{
		{"series", cat([]byte{1}, be(7), huge())},                                       // nLabels < 0: no labels
		{"series", cat([]byte{1}, be(7), []byte{1}, huge())},                           // name length >= 2^63
		{"series", cat([]byte{1}, be(7), []byte{1, 1, 'a'}, huge())},                   // value length >= 2^63
		{"series", cat([]byte{1}, be(7), huge(), be(8), []byte{0})},                    // two series
		{"meta", cat([]byte{6, 1, 1}, huge())},                                          // numFields < 0
		{"meta", cat([]byte{6, 1, 1, 1}, huge())},                                       // field name length
		{"meta", cat([]byte{6, 1, 1, 1, 1, 'x'}, huge())},                               // field value length
		{"exemplars", cat([]byte{4}, be(1), be(2), []byte{0, 0}, be(3), huge())},       // nLabels < 0
		{"exemplars", cat([]byte{4}, be(1), be(2), []byte{0, 0}, be(3), []byte{1}, huge())},
		{"hist", cat([]byte{7}, be(1), be(2), []byte{0, 0}, histHead(false), huge(), []byte{0, 0, 0})},
		{"hist", cat([]byte{7}, be(1), be(2), []byte{0, 0}, histHead(false), []byte{0}, huge(), huge(), huge())},
		{"fhist", cat([]byte{8}, be(1), be(2), []byte{0, 0}, histHead(true), huge(), []byte{0, 0, 0})},
		{"fhist", cat([]byte{13, 2, 4, 6}, histHead(true), []byte{0, 0}, huge(), huge())},
		{"hist", cat([]byte{12, 2, 4, 6}, histHead(false), []byte{0, 0, 0}, huge())},
	}
	for k := 0; k < 4; k++ {
		t := h.Pick(r, all)
		op := "dec_" + t.kind + " " + h.Hex(t.b)
		c.Op(op, runOp(c, op))
	}
}

func main() {
	if os.Getenv(workerEnv) == "1" {
		workerMain()
		return
	}
	c := h.Init()
	defer c.Finish()
	defer theWorker.stop()
	if c.Replay != "" {
		for _, cs := range c.ReplayCases() {
			c.Case(strings.TrimPrefix(cs[0], "case "))
			for _, op := range cs[1:] {
				c.Op(op, runOp(c, op))
			}
		}
		return
	}
	for i := 0; i < c.N; i++ {
		g := &gen{r: c.Rng, wild: c.Rng.Chance(55), big: c.Rng.Chance(4)}
		switch {
		case i%25 == 24:
			c.Case(fmt.Sprintf("rand%d", i))
			g.randomCase(c)
			c.Count("stream:random-bytes")
		case i%50 == 7:
			c.Case(fmt.Sprintf("crafted%d", i))
			g.craftedCase(c)
			c.Count("stream:crafted")
		default:
			kind := kinds[c.Rng.Intn(len(kinds))]
			c.Case(fmt.Sprintf("%s%d", kind, i))
			g.recordCase(c, kind)
			c.Count("stream:" + kind)
			if g.wild {
				c.Count("values:wild")
			} else {
				c.Count("values:tame")
			}
		}
	}
}
