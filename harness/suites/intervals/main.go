// Suite intervals (C20, mechanism): tombstones.Intervals.Add on generated insertion sequences.
package main

import (
	"fmt"
	"math"
	"strconv"
	"strings"

	"github.com/prometheus/prometheus/tsdb/tombstones"

	"verif/harness/h"
)

func render(in tombstones.Intervals) string {
	if len(in) == 0 {
		return "ok -"
	}
	parts := make([]string, len(in))
	for i, iv := range in {
		parts[i] = fmt.Sprintf("%d:%d", iv.Mint, iv.Maxt)
	}
	return "ok " + strings.Join(parts, ",")
}

// apply runs Add on a private copy (Add mutates its receiver) and recovers panics.
func apply(cur tombstones.Intervals, n tombstones.Interval) (tombstones.Intervals, string) {
	cp := make(tombstones.Intervals, len(cur))
	copy(cp, cur)
	var res tombstones.Intervals
	if p, _ := h.Try(func() { res = cp.Add(n) }); p {
		return cur, "panic"
	}
	return res, render(res)
}

var small = []int64{math.MinInt64, math.MinInt64 + 1, math.MinInt64 + 2, -3, -2, -1, 0, 1, 2, 3, 4, 5, 6, 7, 8, 9, 10, 11, 12, 20, 21, 22, 30, math.MaxInt64 - 2, math.MaxInt64 - 1, math.MaxInt64}

func runCase(c *h.Ctx, ops []string) {
	var cur tombstones.Intervals
	for _, op := range ops {
		f := strings.Fields(op)
		switch f[0] {
		case "reset":
			cur = nil
			c.Op(op, "ok -")
		case "add":
			a, _ := strconv.ParseInt(f[1], 10, 64)
			b, _ := strconv.ParseInt(f[2], 10, 64)
			var out string
			cur, out = apply(cur, tombstones.Interval{Mint: a, Maxt: b})
			if out == "panic" {
				c.Count("out:panic")
			}
			c.Op(op, out)
		}
	}
}

func main() {
	c := h.Init()
	defer c.Finish()
	if c.Replay != "" {
		for _, cs := range c.ReplayCases() {
			c.Case(strings.TrimPrefix(cs[0], "case "))
			runCase(c, cs[1:])
		}
		return
	}
	r := c.Rng
	// Stream 1: exhaustive short sequences over a tiny domain incl. the int64 extremes.
	dom := []int64{math.MinInt64, -1, 0, 1, 2, 3, math.MaxInt64 - 1, math.MaxInt64}
	var ivs [][2]int64
	for _, a := range dom {
		for _, b := range dom {
			if a <= b {
				ivs = append(ivs, [2]int64{a, b})
			}
		}
	}
	depth := 2
	if c.Tier == "thorough" {
		depth = 3
	}
	var rec func(prefix []string)
	id := 0
	rec = func(prefix []string) {
		if len(prefix) == depth {
			id++
			c.Case(fmt.Sprintf("ex%d", id))
			c.NonTrivial(strings.Join(prefix, ";"))
			runCase(c, prefix)
			c.Count("stream:exhaustive")
			return
		}
		for _, iv := range ivs {
			rec(append(append([]string{}, prefix...), fmt.Sprintf("add %d %d", iv[0], iv[1])))
		}
	}
	rec(nil)
	// Stream 2: random longer sequences, mostly valid, over a pool that makes overlaps,
	// adjacency (±1) and the overflow guards frequent.
	for i := 0; i < c.N; i++ {
		c.Case(fmt.Sprintf("r%d", i))
		n := 1 + r.Intn(12)
		var ops []string
		for k := 0; k < n; k++ {
			a := h.PickI64(r, small)
			b := h.PickI64(r, small)
			if r.Chance(30) {
				a = r.Range(-50, 50)
				b = a + r.Range(0, 10)
			}
			if a > b {
				a, b = b, a
			}
			ops = append(ops, fmt.Sprintf("add %d %d", a, b))
			if b == math.MaxInt64 {
				c.Count("add:maxt=MaxInt64")
			}
			if a == math.MinInt64 {
				c.Count("add:mint=MinInt64")
			}
		}
		c.Count(fmt.Sprintf("len:%d", n))
		c.NonTrivial(strings.Join(ops, ";"))
		runCase(c, ops)
		c.Count("stream:random")
	}
}
