// Suite intervals (C20, mechanism): tombstones.Intervals.Add, Interval.InBounds/IsSubrange and
// tsdb.DeletedIterator on generated insertion sequences.
package main

import (
	"fmt"
	"math"
	"sort"
	"strconv"
	"strings"

	"github.com/prometheus/prometheus/tsdb"
	"github.com/prometheus/prometheus/tsdb/chunkenc"
	"github.com/prometheus/prometheus/tsdb/tombstones"

	"verif/harness/h"
)

func render(in tombstones.Intervals) string {
	if len(in) == 0 {
		return "ok -"
	}
	parts := make([]string, len(in))
	for i, iv := range in {
		parts[i] = fmt.Sprintf("%d:%d", iv.Mint, iv.Maxt)
	}
	return "ok " + strings.Join(parts, ",")
}

// apply runs Add on a private copy (Add mutates its receiver) and recovers panics.
func apply(cur tombstones.Intervals, n tombstones.Interval) (tombstones.Intervals, string) {
	cp := make(tombstones.Intervals, len(cur))
	copy(cp, cur)
	var res tombstones.Intervals
	if p, _ := h.Try(func() { res = cp.Add(n) }); p {
		return cur, "panic"
	}
	return res, render(res)
}

func i64list(xs []int64) string {
	if len(xs) == 0 {
		return "-"
	}
	parts := make([]string, len(xs))
	for i, x := range xs {
		parts[i] = strconv.FormatInt(x, 10)
	}
	return strings.Join(parts, ",")
}

func parseList(s string) []int64 {
	if s == "-" {
		return nil
	}
	var out []int64
	for _, p := range strings.Split(s, ",") {
		v, _ := strconv.ParseInt(p, 10, 64)
		out = append(out, v)
	}
	return out
}

// runIter builds a real XOR chunk with one sample per timestamp, wraps its iterator into the real
// tsdb.DeletedIterator with a private copy of the intervals, optionally Seeks, then drains with Next.
func runIter(cur tombstones.Intervals, seek string, ts []int64) string {
	chk := chunkenc.NewXORChunk()
	app, err := chk.Appender()
	if err != nil {
		return "err-appender"
	}
	for _, t := range ts {
		app.Append(0, t, float64(len(ts)))
	}
	// sanity: the chunk itself must give the timestamps back (otherwise it is not C20's business)
	raw := chk.Iterator(nil)
	for _, t := range ts {
		if raw.Next() == chunkenc.ValNone || raw.AtT() != t {
			return "err-chunk"
		}
	}
	cp := make(tombstones.Intervals, len(cur))
	copy(cp, cur)
	it := &tsdb.DeletedIterator{Iter: chk.Iterator(nil), Intervals: cp}
	var got []int64
	out := ""
	if p, _ := h.Try(func() {
		if seek != "-" {
			s, _ := strconv.ParseInt(seek, 10, 64)
			if it.Seek(s) == chunkenc.ValNone {
				return
			}
			got = append(got, it.AtT())
		}
		for it.Next() != chunkenc.ValNone {
			got = append(got, it.AtT())
		}
	}); p {
		out = "panic"
	} else {
		out = "ts " + i64list(got)
	}
	return out
}

var small = []int64{math.MinInt64, math.MinInt64 + 1, math.MinInt64 + 2, -3, -2, -1, 0, 1, 2, 3, 4, 5, 6, 7, 8, 9, 10, 11, 12, 20, 21, 22, 30, math.MaxInt64 - 2, math.MaxInt64 - 1, math.MaxInt64}

func runCase(c *h.Ctx, ops []string) {
	var cur tombstones.Intervals
	for _, op := range ops {
		f := strings.Fields(op)
		switch f[0] {
		case "reset":
			cur = nil
			c.Op(op, "ok -")
		case "add":
			a, _ := strconv.ParseInt(f[1], 10, 64)
			b, _ := strconv.ParseInt(f[2], 10, 64)
			var out string
			cur, out = apply(cur, tombstones.Interval{Mint: a, Maxt: b})
			if out == "panic" {
				c.Count("out:panic")
			}
			c.Op(op, out)
		case "inb":
			a, _ := strconv.ParseInt(f[1], 10, 64)
			b, _ := strconv.ParseInt(f[2], 10, 64)
			t, _ := strconv.ParseInt(f[3], 10, 64)
			c.Op(op, strconv.FormatBool(tombstones.Interval{Mint: a, Maxt: b}.InBounds(t)))
		case "sub":
			a, _ := strconv.ParseInt(f[1], 10, 64)
			b, _ := strconv.ParseInt(f[2], 10, 64)
			r := tombstones.Interval{Mint: a, Maxt: b}.IsSubrange(cur)
			c.Count("sub:" + strconv.FormatBool(r))
			c.Op(op, strconv.FormatBool(r))
		case "iter":
			ts := parseList(f[2])
			out := runIter(cur, f[1], ts)
			if strings.HasPrefix(out, "err") || out == "panic" {
				c.Count("iter:" + out)
			} else if len(strings.Split(out, ",")) < len(ts) {
				c.Count("iter:some-deleted")
			}
			c.Op(op, out)
		default:
			c.Op(op, "bad-op")
		}
	}
}

// sortedSet returns the distinct values of xs in increasing order.
func sortedSet(xs []int64) []int64 {
	sort.Slice(xs, func(i, j int) bool { return xs[i] < xs[j] })
	var out []int64
	for i, x := range xs {
		if i == 0 || x != xs[i-1] {
			out = append(out, x)
		}
	}
	return out
}

func main() {
	c := h.Init()
	defer c.Finish()
	if c.Replay != "" {
		for _, cs := range c.ReplayCases() {
			c.Case(strings.TrimPrefix(cs[0], "case "))
			runCase(c, cs[1:])
		}
		return
	}
	r := c.Rng
	// Stream 1: exhaustive short sequences over a tiny domain incl. the int64 extremes.
	dom := []int64{math.MinInt64, -1, 0, 1, 2, 3, math.MaxInt64 - 1, math.MaxInt64}
	var ivs [][2]int64
	for _, a := range dom {
		for _, b := range dom {
			if a <= b {
				ivs = append(ivs, [2]int64{a, b})
			}
		}
	}
	exSamples := sortedSet([]int64{math.MinInt64, math.MinInt64 + 1, -2, -1, 0, 1, 2, 3, 4, math.MaxInt64 - 2, math.MaxInt64 - 1, math.MaxInt64})
	depth := 2
	if c.Tier == "thorough" {
		depth = 3
	}
	var rec func(prefix []string)
	id := 0
	rec = func(prefix []string) {
		if len(prefix) == depth {
			id++
			c.Case(fmt.Sprintf("ex%d", id))
			c.NonTrivial(strings.Join(prefix, ";"))
			// queries against the final set: every sample of the domain (±1 neighbours), one seek, subranges
			prefix = append(prefix, "iter - "+i64list(exSamples))
			prefix = append(prefix, fmt.Sprintf("iter %d %s", dom[id%len(dom)], i64list(exSamples)))
			iv := ivs[id%len(ivs)]
			prefix = append(prefix, fmt.Sprintf("sub %d %d", iv[0], iv[1]))
			runCase(c, prefix)
			c.Count("stream:exhaustive")
			return
		}
		for _, iv := range ivs {
			rec(append(append([]string{}, prefix...), fmt.Sprintf("add %d %d", iv[0], iv[1])))
		}
	}
	rec(nil)
	// Stream 2: random longer sequences, mostly valid, over a pool that makes overlaps,
	// adjacency (±1) and the overflow guards frequent.
	for i := 0; i < c.N; i++ {
		c.Case(fmt.Sprintf("r%d", i))
		n := 1 + r.Intn(12)
		var ops []string
		for k := 0; k < n; k++ {
			a := h.PickI64(r, small)
			b := h.PickI64(r, small)
			if r.Chance(30) {
				a = r.Range(-50, 50)
				b = a + r.Range(0, 10)
			}
			if a > b {
				a, b = b, a
			}
			ops = append(ops, fmt.Sprintf("add %d %d", a, b))
			// interleaved queries on the running set
			if r.Chance(35) {
				x, y := h.PickI64(r, small), h.PickI64(r, small)
				if r.Chance(50) {
					x = r.Range(-50, 50)
					y = x + r.Range(0, 6)
				}
				if x > y && r.Chance(90) {
					x, y = y, x
				}
				ops = append(ops, fmt.Sprintf("sub %d %d", x, y))
			}
			if r.Chance(10) {
				ops = append(ops, fmt.Sprintf("inb %d %d %d", a, b, h.PickI64(r, []int64{a - 1, a, a + 1, b - 1, b, b + 1, h.PickI64(r, small)})))
			}
			if r.Chance(35) {
				var ts []int64
				for j, m := 0, r.Intn(14); j < m; j++ {
					switch r.Intn(3) {
					case 0:
						ts = append(ts, h.PickI64(r, small))
					case 1:
						ts = append(ts, r.Range(-55, 65))
					default:
						ts = append(ts, h.PickI64(r, []int64{a - 1, a, a + 1, b - 1, b, b + 1}))
					}
				}
				// a-1 / b+1 may wrap around at the extremes: that is still a valid int64 timestamp
				ts = sortedSet(ts)
				seek := "-"
				if r.Chance(50) {
					seek = strconv.FormatInt(h.PickI64(r, append([]int64{a, b, b + 1, r.Range(-55, 65)}, ts...)), 10)
				}
				ops = append(ops, fmt.Sprintf("iter %s %s", seek, i64list(ts)))
				c.Count("op:iter")
			}
			if b == math.MaxInt64 {
				c.Count("add:maxt=MaxInt64")
			}
			if a == math.MinInt64 {
				c.Count("add:mint=MinInt64")
			}
		}
		c.Count(fmt.Sprintf("len:%d", n))
		c.NonTrivial(strings.Join(ops, ";"))
		runCase(c, ops)
		c.Count("stream:random")
	}
}
