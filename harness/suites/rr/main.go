// Suite rr (C42): remote read (sampled and streamed-chunks responses) through the real read handler
// and the real read client, against a direct local query of the same real tsdb.DB.
//
// ops (tokens separated by one space; label names/values hex-encoded; lists never contain spaces):
//
//	cfg <spc> <blockAt|-> <ext> <cext> <req> <fixed>
//	     spc = tsdb SamplesPerChunk, blockAt = samples with t<=blockAt are compacted into a block
//	     before the rest is appended, ext = server external labels, cext = client external labels,
//	     req = client required matchers, fixed = 1 when the client's chunkedSeriesSet merges adjacent
//	     frames with equal labels (probed on the real code, rewritten on replay)          -> ok
//	ser <labels> <samples>                      one stored series                        -> ok
//	local <mint> <maxt> <matchers> := <L>       direct Querier.Select on the DB; L (the observation,
//	     rewritten on replay) is the reference the judge compares with                   -> ok
//	read <s|c> <frame> <limit> <notrim> <sort> <mint> <maxt> <matchers> <script> := <S>
//	     one remote read: real NewReadHandler(sampleLimit=limit, maxBytesInFrame=frame) reached
//	     through real NewReadClient (response type SAMPLES / STREAMED_XOR_CHUNKS) wrapped in
//	     NewSampleAndChunkQueryableClient(cext, req).  S = what the storage returned to the handler
//	     (the recorded Select re-executed; sample view for s, chunk view for c; `none` when the
//	     storage was not called; rewritten on replay).
//	     -> sel=<mint>/<maxt>/<sort>/<matchers>|none frames=<chunks per frame>|- res=<series;…>|-
//	      | err=<class>
//
// labels  = hex(name):hex(value),…  | -
// matcher = <e|n|r|x>hex(name):hex(value),… | -
// sample  = <t>:<f|h|F>:<payload>  (float: 16 hex digits of the bits; histograms: 4*id+hint decimal)
// series  = labels|samples (local, S sampled) ; labels|samples|scriptresults (res) ;
//
//	labels|mint/maxt/enc/len/samples|… (S chunked)
//
// script  = s<t> / n steps joined by ',' ; result per step = sample or x
package main

import (
	"bytes"
	"context"
	"fmt"
	"io"
	"math"
	"net/http"
	"net/http/httptest"
	"net/url"
	"os"
	"runtime/pprof"
	"sort"
	"strconv"
	"strings"
	"sync"
	"time"

	config_util "github.com/prometheus/common/config"
	"github.com/prometheus/common/model"
	"github.com/prometheus/common/promslog"

	"github.com/prometheus/prometheus/config"
	"github.com/prometheus/prometheus/model/histogram"
	"github.com/prometheus/prometheus/model/labels"
	"github.com/prometheus/prometheus/prompb"
	"github.com/prometheus/prometheus/storage"
	"github.com/prometheus/prometheus/storage/remote"
	"github.com/prometheus/prometheus/tsdb"
	"github.com/prometheus/prometheus/tsdb/chunkenc"
	"github.com/prometheus/prometheus/tsdb/tsdbutil"

	"verif/harness/h"
)

// ---------------------------------------------------------------- tokens

func hx(s string) string { return h.HexS(s) }

func labelsTok(ls labels.Labels) string {
	var parts []string
	ls.Range(func(l labels.Label) { parts = append(parts, hx(l.Name)+":"+hx(l.Value)) })
	if len(parts) == 0 {
		return "-"
	}
	return strings.Join(parts, ",")
}

func parseLabels(tok string) labels.Labels {
	if tok == "-" {
		return labels.EmptyLabels()
	}
	var kv []string
	for _, p := range strings.Split(tok, ",") {
		nv := strings.SplitN(p, ":", 2)
		kv = append(kv, string(h.UnHex(nv[0])), string(h.UnHex(nv[1])))
	}
	return labels.FromStrings(kv...)
}

var mtChar = map[labels.MatchType]string{labels.MatchEqual: "e", labels.MatchNotEqual: "n", labels.MatchRegexp: "r", labels.MatchNotRegexp: "x"}

func matchersTok(ms []*labels.Matcher) string {
	var parts []string
	for _, m := range ms {
		parts = append(parts, mtChar[m.Type]+hx(m.Name)+":"+hx(m.Value))
	}
	if len(parts) == 0 {
		return "-"
	}
	return strings.Join(parts, ",")
}

func parseMatchers(tok string) []*labels.Matcher {
	if tok == "-" {
		return nil
	}
	var ms []*labels.Matcher
	for _, p := range strings.Split(tok, ",") {
		var t labels.MatchType
		switch p[0] {
		case 'e':
			t = labels.MatchEqual
		case 'n':
			t = labels.MatchNotEqual
		case 'r':
			t = labels.MatchRegexp
		default:
			t = labels.MatchNotRegexp
		}
		nv := strings.SplitN(p[1:], ":", 2)
		ms = append(ms, labels.MustNewMatcher(t, string(h.UnHex(nv[0])), string(h.UnHex(nv[1]))))
	}
	return ms
}

func copyMatchers(ms []*labels.Matcher) []*labels.Matcher {
	return append([]*labels.Matcher{}, ms...)
}

// ---------------------------------------------------------------- histograms by id

const nHist = 24

func genHist(id int) *histogram.Histogram {
	switch id % 3 {
	case 0:
		return tsdbutil.GenerateTestHistogram(int64(id))
	case 1:
		return tsdbutil.GenerateTestGaugeHistogram(int64(id))
	default:
		return tsdbutil.GenerateTestCustomBucketsHistogram(int64(id))
	}
}

func genFHist(id int) *histogram.FloatHistogram {
	switch id % 3 {
	case 0:
		return tsdbutil.GenerateTestFloatHistogram(int64(id))
	case 1:
		return tsdbutil.GenerateTestGaugeFloatHistogram(int64(id))
	default:
		return tsdbutil.GenerateTestCustomBucketsFloatHistogram(int64(id))
	}
}

func bitsOf(fs []float64) []uint64 {
	out := make([]uint64, len(fs))
	for i, f := range fs {
		out[i] = math.Float64bits(f)
	}
	return out
}

func histKey(x *histogram.Histogram) string {
	return fmt.Sprint(x.Schema, math.Float64bits(x.ZeroThreshold), x.ZeroCount, x.Count, math.Float64bits(x.Sum),
		x.PositiveSpans, x.NegativeSpans, x.PositiveBuckets, x.NegativeBuckets, bitsOf(x.CustomValues))
}

func fhistKey(x *histogram.FloatHistogram) string {
	return fmt.Sprint(x.Schema, math.Float64bits(x.ZeroThreshold), math.Float64bits(x.ZeroCount), math.Float64bits(x.Count), math.Float64bits(x.Sum),
		x.PositiveSpans, x.NegativeSpans, bitsOf(x.PositiveBuckets), bitsOf(x.NegativeBuckets), bitsOf(x.CustomValues))
}

var (
	histIDs  = map[string]int{}
	fhistIDs = map[string]int{}
)

func init() {
	for i := 0; i < nHist; i++ {
		histIDs[histKey(genHist(i))] = i
		fhistIDs[fhistKey(genFHist(i))] = i
	}
}

func unknownID(key string) int {
	var x uint32 = 2166136261
	for i := 0; i < len(key); i++ {
		x = (x ^ uint32(key[i])) * 16777619
	}
	return 1000000 + int(x%100000)
}

// sampleTok renders the sample the iterator is positioned on.
func sampleTok(it chunkenc.Iterator, vt chunkenc.ValueType) string {
	switch vt {
	case chunkenc.ValFloat:
		t, v := it.At()
		return fmt.Sprintf("%d:f:%016x", t, math.Float64bits(v))
	case chunkenc.ValHistogram:
		t, x := it.AtHistogram(nil)
		k := histKey(x)
		id, ok := histIDs[k]
		if !ok {
			id = unknownID(k)
		}
		return fmt.Sprintf("%d:h:%d", t, 4*id+int(x.CounterResetHint))
	case chunkenc.ValFloatHistogram:
		t, x := it.AtFloatHistogram(nil)
		k := fhistKey(x)
		id, ok := fhistIDs[k]
		if !ok {
			id = unknownID(k)
		}
		return fmt.Sprintf("%d:F:%d", t, 4*id+int(x.CounterResetHint))
	}
	return "x"
}

func errTok(err error) string {
	s := err.Error()
	if strings.Contains(s, "exceeded sample limit") {
		return "limit"
	}
	r := strings.NewReplacer(" ", "_", "\t", "_", "\n", "_")
	s = r.Replace(s)
	if len(s) > 120 {
		s = s[:120]
	}
	return "other:" + s
}

func drainTok(it chunkenc.Iterator) string {
	var parts []string
	for vt := it.Next(); vt != chunkenc.ValNone; vt = it.Next() {
		parts = append(parts, sampleTok(it, vt))
	}
	if it.Err() != nil {
		return "E" + errTok(it.Err())
	}
	if len(parts) == 0 {
		return "-"
	}
	return strings.Join(parts, ",")
}

func scriptTok(it chunkenc.Iterator, script string) string {
	if script == "-" {
		return "-"
	}
	var parts []string
	for _, st := range strings.Split(script, ",") {
		var vt chunkenc.ValueType
		if st == "n" {
			vt = it.Next()
		} else {
			t, _ := strconv.ParseInt(st[1:], 10, 64)
			vt = it.Seek(t)
		}
		parts = append(parts, sampleTok(it, vt))
	}
	return strings.Join(parts, ",")
}

func seriesSetTok(ss storage.SeriesSet, script string, withScript bool) string {
	var parts []string
	for ss.Next() {
		s := ss.At()
		p := labelsTok(s.Labels()) + "|" + drainTok(s.Iterator(nil))
		if withScript {
			p += "|" + scriptTok(s.Iterator(nil), script)
		}
		parts = append(parts, p)
	}
	if ss.Err() != nil {
		return "E" + errTok(ss.Err())
	}
	if len(parts) == 0 {
		return "-"
	}
	return strings.Join(parts, ";")
}

func chunkSetTok(ss storage.ChunkSeriesSet) string {
	var parts []string
	for ss.Next() {
		s := ss.At()
		p := labelsTok(s.Labels())
		it := s.Iterator(nil)
		for it.Next() {
			m := it.At()
			p += fmt.Sprintf("|%d/%d/%d/%d/%s", m.MinTime, m.MaxTime, int(m.Chunk.Encoding()), len(m.Chunk.Bytes()), drainTok(m.Chunk.Iterator(nil)))
		}
		if it.Err() != nil {
			return "E" + errTok(it.Err())
		}
		parts = append(parts, p)
	}
	if ss.Err() != nil {
		return "E" + errTok(ss.Err())
	}
	if len(parts) == 0 {
		return "-"
	}
	return strings.Join(parts, ";")
}

// ---------------------------------------------------------------- recording queryable

type selCall struct {
	chunked    bool
	mint, maxt int64
	sorted     bool
	matchers   []*labels.Matcher
}

type recQueryable struct {
	db     *tsdb.DB
	notrim bool
	calls  []selCall
}

func (r *recQueryable) hints(mint, maxt int64, hints *storage.SelectHints) *storage.SelectHints {
	if !r.notrim {
		return hints
	}
	nh := &storage.SelectHints{Start: mint, End: maxt}
	if hints != nil {
		*nh = *hints
	}
	nh.DisableTrimming = true
	return nh
}

func (r *recQueryable) Querier(mint, maxt int64) (storage.Querier, error) {
	q, err := r.db.Querier(mint, maxt)
	if err != nil {
		return nil, err
	}
	return &recQuerier{Querier: q, r: r, mint: mint, maxt: maxt}, nil
}

func (r *recQueryable) ChunkQuerier(mint, maxt int64) (storage.ChunkQuerier, error) {
	q, err := r.db.ChunkQuerier(mint, maxt)
	if err != nil {
		return nil, err
	}
	return &recChunkQuerier{ChunkQuerier: q, r: r, mint: mint, maxt: maxt}, nil
}

type recQuerier struct {
	storage.Querier
	r          *recQueryable
	mint, maxt int64
}

func (q *recQuerier) Select(ctx context.Context, sorted bool, hints *storage.SelectHints, ms ...*labels.Matcher) storage.SeriesSet {
	q.r.calls = append(q.r.calls, selCall{false, q.mint, q.maxt, sorted, copyMatchers(ms)})
	return q.Querier.Select(ctx, sorted, hints, copyMatchers(ms)...)
}

type recChunkQuerier struct {
	storage.ChunkQuerier
	r          *recQueryable
	mint, maxt int64
}

func (q *recChunkQuerier) Select(ctx context.Context, sorted bool, hints *storage.SelectHints, ms ...*labels.Matcher) storage.ChunkSeriesSet {
	q.r.calls = append(q.r.calls, selCall{true, q.mint, q.maxt, sorted, copyMatchers(ms)})
	return q.ChunkQuerier.Select(ctx, sorted, q.r.hints(q.mint, q.maxt, hints), copyMatchers(ms)...)
}

// ---------------------------------------------------------------- in-process HTTP

type inproc struct {
	h    http.Handler
	body []byte
	ct   string
}

func (t *inproc) RoundTrip(req *http.Request) (*http.Response, error) {
	rec := httptest.NewRecorder()
	t.h.ServeHTTP(rec, req)
	t.body = append([]byte(nil), rec.Body.Bytes()...)
	t.ct = rec.Header().Get("Content-Type")
	return rec.Result(), nil
}

func framesTok(body []byte) string {
	r := remote.NewChunkedReader(bytes.NewReader(body), 1<<30, nil)
	var parts []string
	for {
		res := &prompb.ChunkedReadResponse{}
		if err := r.NextProto(res); err != nil {
			if err != io.EOF {
				parts = append(parts, "E")
			}
			break
		}
		n := 0
		for _, cs := range res.ChunkedSeries {
			n += len(cs.Chunks)
		}
		if len(res.ChunkedSeries) != 1 {
			parts = append(parts, fmt.Sprintf("S%d", len(res.ChunkedSeries)))
		} else {
			parts = append(parts, strconv.Itoa(n))
		}
	}
	if len(parts) == 0 {
		return "-"
	}
	return strings.Join(parts, ".")
}

// probeFixed feeds two frames with equal labels to the real chunkedSeriesSet.
func probeFixed() string {
	var buf bytes.Buffer
	rec := httptest.NewRecorder()
	w := remote.NewChunkedWriter(&buf, rec)
	mk := func(t int64) []byte {
		c := chunkenc.NewXORChunk()
		a, _ := c.Appender()
		a.Append(0, t, 1)
		r := &prompb.ChunkedReadResponse{ChunkedSeries: []*prompb.ChunkedSeries{{
			Labels: []prompb.Label{{Name: "__name__", Value: "m"}},
			Chunks: []prompb.Chunk{{MinTimeMs: t, MaxTimeMs: t, Type: prompb.Chunk_XOR, Data: c.Bytes()}},
		}}}
		b, _ := r.Marshal()
		return b
	}
	w.Write(mk(1))
	w.Write(mk(2))
	ss := remote.NewChunkedSeriesSet(remote.NewChunkedReader(&buf, 1<<20, nil), io.NopCloser(&buf), 0, 10, func(error) {})
	n := 0
	for ss.Next() {
		n++
	}
	if n == 1 {
		return "1"
	}
	return "0"
}

// ---------------------------------------------------------------- one case

type serDef struct {
	lset    labels.Labels
	samples []string // t:k:payload
}

type env struct {
	dir       string
	db        *tsdb.DB
	spc       int
	blockAt   *int64
	ext, cext labels.Labels
	req       []*labels.Matcher
	series    []serDef
	loaded    bool
	loadErr   string
}

func (e *env) close() {
	if e.db != nil {
		e.db.Close()
		e.db = nil
	}
	if e.dir != "" {
		os.RemoveAll(e.dir)
	}
}

func appendOne(app storage.Appender, lset labels.Labels, tok string) error {
	f := strings.SplitN(tok, ":", 3)
	t, _ := strconv.ParseInt(f[0], 10, 64)
	var err error
	switch f[1] {
	case "f":
		b, _ := strconv.ParseUint(f[2], 16, 64)
		_, err = app.Append(0, lset, t, math.Float64frombits(b))
	case "h":
		p, _ := strconv.Atoi(f[2])
		_, err = app.AppendHistogram(0, lset, t, genHist(p/4), nil)
	default:
		p, _ := strconv.Atoi(f[2])
		_, err = app.AppendHistogram(0, lset, t, nil, genFHist(p/4))
	}
	return err
}

func sampleT(tok string) int64 {
	t, _ := strconv.ParseInt(tok[:strings.IndexByte(tok, ':')], 10, 64)
	return t
}

// load opens the DB and stores the series (lazily, before the first query).
func (e *env) load() {
	if e.loaded {
		return
	}
	e.loaded = true
	e.dir = h.TempDir("vrr")
	o := tsdb.DefaultOptions()
	o.MinBlockDuration, o.MaxBlockDuration = 1<<40, 1<<40
	o.SamplesPerChunk = e.spc
	o.RetentionDuration = 0
	o.WALSegmentSize = 128 * 1024
	o.StripeSize = 32
	db, err := tsdb.Open(e.dir, promslog.NewNopLogger(), nil, o, nil)
	if err != nil {
		e.loadErr = errTok(err)
		return
	}
	db.DisableCompactions()
	e.db = db
	phase := func(first bool) {
		for _, s := range e.series {
			app := db.Appender(context.Background())
			n := 0
			for _, tok := range s.samples {
				inFirst := e.blockAt != nil && sampleT(tok) <= *e.blockAt
				if inFirst != first {
					continue
				}
				if err := appendOne(app, s.lset, tok); err != nil && e.loadErr == "" {
					e.loadErr = "append:" + errTok(err)
				}
				n++
			}
			if err := app.Commit(); err != nil && e.loadErr == "" {
				e.loadErr = "commit:" + errTok(err)
			}
		}
	}
	if e.blockAt != nil {
		phase(true)
		if db.Head().NumSeries() > 0 {
			if err := db.CompactHead(tsdb.NewRangeHead(db.Head(), db.Head().MinTime(), *e.blockAt)); err != nil && e.loadErr == "" {
				e.loadErr = "compact:" + errTok(err)
			}
		}
	}
	phase(false)
}

// rec collects the lines and counters of one case (cases run concurrently, output stays ordered).
type rec struct {
	ops, outs []string
	counts    []string
}

func (r *rec) Count(k string) { r.counts = append(r.counts, k) }
func (r *rec) Op(op, out string) {
	r.ops = append(r.ops, op)
	r.outs = append(r.outs, out)
}

func runCase(c *rec, ops []string) {
	e := &env{}
	defer e.close()
	for _, op := range ops {
		f := strings.Fields(op)
		outOp, out := op, "bad-op"
		p, pv := h.Try(func() {
			switch f[0] {
			case "cfg":
				e.spc, _ = strconv.Atoi(f[1])
				if f[2] != "-" {
					v, _ := strconv.ParseInt(f[2], 10, 64)
					e.blockAt = &v
				}
				e.ext, e.cext, e.req = parseLabels(f[3]), parseLabels(f[4]), parseMatchers(f[5])
				f[6] = probeFixed()
				outOp = strings.Join(f[:7], " ")
				out = "ok"
			case "ser":
				sd := serDef{lset: parseLabels(f[1])}
				if f[2] != "-" {
					sd.samples = strings.Split(f[2], ",")
				}
				e.series = append(e.series, sd)
				out = "ok"
			case "local":
				e.load()
				mint, _ := strconv.ParseInt(f[1], 10, 64)
				maxt, _ := strconv.ParseInt(f[2], 10, 64)
				ms := parseMatchers(f[3])
				obs := ""
				if e.loadErr != "" {
					obs = "E" + e.loadErr
				} else {
					q, err := e.db.Querier(mint, maxt)
					if err != nil {
						obs = "E" + errTok(err)
					} else {
						obs = seriesSetTok(q.Select(context.Background(), true, nil, copyMatchers(ms)...), "-", false)
						q.Close()
					}
				}
				outOp = strings.Join(f[:4], " ") + " := " + obs
				out = "ok"
				c.Count("local")
			case "read":
				e.load()
				outOp, out = e.read(c, f)
			}
		})
		if p {
			out = "panic:" + strings.NewReplacer(" ", "_", "\n", "_", "\t", "_").Replace(fmt.Sprint(pv))
			if len(out) > 200 {
				out = out[:200]
			}
		}
		c.Op(outOp, out)
	}
}

func (e *env) read(c *rec, f []string) (string, string) {
	typ := f[1]
	frame, _ := strconv.Atoi(f[2])
	limit, _ := strconv.Atoi(f[3])
	notrim := f[4] == "1"
	sorted := f[5] == "1"
	mint, _ := strconv.ParseInt(f[6], 10, 64)
	maxt, _ := strconv.ParseInt(f[7], 10, 64)
	ms := parseMatchers(f[8])
	script := f[9]
	head := strings.Join(f[:10], " ")
	if e.loadErr != "" {
		return head + " := none", "err=load:" + e.loadErr
	}
	rq := &recQueryable{db: e.db, notrim: notrim}
	ext := e.ext
	handler := remote.NewReadHandler(promslog.NewNopLogger(), nil, rq, func() config.Config {
		return config.Config{GlobalConfig: config.GlobalConfig{ExternalLabels: ext}}
	}, limit, 4, frame)
	u, _ := url.Parse("http://inproc.invalid/api/v1/read")
	rt := prompb.ReadRequest_SAMPLES
	if typ == "c" {
		rt = prompb.ReadRequest_STREAMED_XOR_CHUNKS
	}
	rc, err := remote.NewReadClient("rr", &remote.ClientConfig{
		URL:                   &config_util.URL{URL: u},
		Timeout:               model.Duration(30 * time.Second),
		ChunkedReadLimit:      1 << 30,
		AcceptedResponseTypes: []prompb.ReadRequest_ResponseType{rt},
	})
	if err != nil {
		return head + " := none", "err=" + errTok(err)
	}
	tr := &inproc{h: handler}
	rc.(*remote.Client).Client.Transport = tr
	qc := remote.NewSampleAndChunkQueryableClient(rc, e.cext, e.req, true, nil)
	q, err := qc.Querier(mint, maxt)
	if err != nil {
		return head + " := none", "err=" + errTok(err)
	}
	defer q.Close()
	ss := q.Select(context.Background(), sorted, nil, copyMatchers(ms)...)
	res := seriesSetTok(ss, script, true)

	// what the storage was asked and what it answered
	sel, obs := "none", "none"
	if len(rq.calls) > 0 {
		cl := rq.calls[0]
		so := "0"
		if cl.sorted {
			so = "1"
		}
		sel = fmt.Sprintf("%d/%d/%s/%s", cl.mint, cl.maxt, so, matchersTok(cl.matchers))
		if cl.chunked {
			cq, err := e.db.ChunkQuerier(cl.mint, cl.maxt)
			if err != nil {
				obs = "E" + errTok(err)
			} else {
				obs = chunkSetTok(cq.Select(context.Background(), cl.sorted, rq.hints(cl.mint, cl.maxt, nil), copyMatchers(cl.matchers)...))
				cq.Close()
			}
		} else {
			sq, err := e.db.Querier(cl.mint, cl.maxt)
			if err != nil {
				obs = "E" + errTok(err)
			} else {
				obs = seriesSetTok(sq.Select(context.Background(), cl.sorted, nil, copyMatchers(cl.matchers)...), "-", false)
				sq.Close()
			}
		}
	}
	if len(rq.calls) > 1 {
		sel += "+more"
	}
	frames := "-"
	if strings.HasPrefix(tr.ct, "application/x-streamed-protobuf") {
		frames = framesTok(tr.body)
	}
	c.Count("read:" + typ)
	if strings.HasPrefix(res, "E") {
		c.Count("read-err:" + strings.SplitN(res[1:], ":", 2)[0])
		return head + " := " + obs, "err=" + res[1:]
	}
	if typ == "c" && strings.Contains(frames, ".") {
		c.Count("multi-frame")
	}
	return head + " := " + obs, "sel=" + sel + " frames=" + frames + " res=" + res
}

// ---------------------------------------------------------------- generator

var (
	floatPool = []uint64{0, 0x8000000000000000, 0x3ff0000000000000, 0x7ff0000000000000, 0xfff0000000000000,
		0x7ff8000000000001, 0x7ff0000000000002 /* stale */, 0x7ff4000000000000, 0x400921fb54442d18, 1, 0x4059000000000000}
	namePool  = []string{"a", "b", "job", "le", "zone"}
	valPool   = []string{"s1", "s2", "x", "ü-1", "with space", "1"}
	metricPool = []string{"m1", "m2", "m"}
)

func genLabels(r *h.Rng, prev []labels.Labels) labels.Labels {
	// sometimes extend an existing set by one label (prefix relations flip under added external labels)
	if len(prev) > 0 && r.Chance(35) {
		b := labels.NewBuilder(prev[r.Intn(len(prev))])
		b.Set(h.Pick(r, namePool), h.Pick(r, valPool))
		return b.Labels()
	}
	b := labels.NewBuilder(labels.EmptyLabels())
	b.Set("__name__", h.Pick(r, metricPool))
	for _, n := range namePool {
		if r.Chance(35) {
			b.Set(n, h.Pick(r, valPool))
		}
	}
	return b.Labels()
}

func genSamples(r *h.Rng, base int64) []string {
	n := r.Intn(36)
	if r.Chance(10) {
		n = 0
	}
	if r.Chance(10) {
		n = 40 + r.Intn(60)
	}
	mode := r.Intn(10) // 0-4 float, 5-6 hist, 7 fhist, 8-9 mixed
	kind := "f"
	switch {
	case mode >= 5 && mode <= 6:
		kind = "h"
	case mode == 7:
		kind = "F"
	}
	t := base + r.Range(0, 30)
	var out []string
	hid := r.Intn(nHist)
	for i := 0; i < n; i++ {
		if mode >= 8 && r.Chance(15) {
			kind = h.Pick(r, []string{"f", "h", "F"})
		}
		switch kind {
		case "f":
			var b uint64
			if r.Chance(30) {
				b = h.Pick(r, floatPool)
			} else {
				b = math.Float64bits(float64(r.Intn(2000)) / 8)
			}
			out = append(out, fmt.Sprintf("%d:f:%016x", t, b))
		default:
			if r.Chance(70) && hid+3 < nHist {
				hid += 3 // same flavour, growing: stays in the chunk
			} else {
				hid = r.Intn(nHist)
			}
			out = append(out, fmt.Sprintf("%d:%s:%d", t, kind, 4*hid))
		}
		t += r.Range(1, 20)
	}
	return out
}

func genMatchers(r *h.Rng, sets []labels.Labels, ext labels.Labels) []*labels.Matcher {
	var ms []*labels.Matcher
	switch r.Intn(4) {
	case 0:
		ms = append(ms, labels.MustNewMatcher(labels.MatchRegexp, "__name__", "m.*"))
	case 1:
		ms = append(ms, labels.MustNewMatcher(labels.MatchEqual, "__name__", h.Pick(r, metricPool)))
	case 2:
		ms = append(ms, labels.MustNewMatcher(labels.MatchRegexp, "__name__", "m1|m"))
	default:
		ms = append(ms, labels.MustNewMatcher(labels.MatchNotEqual, "__name__", "m2"))
	}
	if r.Chance(35) {
		n := h.Pick(r, namePool)
		switch r.Intn(5) {
		case 0:
			ms = append(ms, labels.MustNewMatcher(labels.MatchEqual, n, h.Pick(r, valPool)))
		case 1:
			ms = append(ms, labels.MustNewMatcher(labels.MatchNotEqual, n, h.Pick(r, valPool)))
		case 2:
			ms = append(ms, labels.MustNewMatcher(labels.MatchRegexp, n, "s1|x|1"))
		case 3:
			ms = append(ms, labels.MustNewMatcher(labels.MatchEqual, n, ""))
		default:
			ms = append(ms, labels.MustNewMatcher(labels.MatchNotRegexp, n, "s.*"))
		}
	}
	if !ext.IsEmpty() && r.Chance(10) {
		// a user matcher on an external label name
		var ls []labels.Label
		ext.Range(func(l labels.Label) { ls = append(ls, l) })
		l := ls[r.Intn(len(ls))]
		v := l.Value
		if r.Chance(40) {
			v = "other"
		}
		ms = append(ms, labels.MustNewMatcher(labels.MatchEqual, l.Name, v))
	}
	return ms
}

func genScript(r *h.Rng, ts []int64) string {
	if r.Chance(25) || len(ts) == 0 {
		if r.Chance(50) {
			return "-"
		}
	}
	n := 1 + r.Intn(7)
	var parts []string
	cur := int64(math.MinInt64)
	for i := 0; i < n; i++ {
		if r.Chance(40) {
			parts = append(parts, "n")
			continue
		}
		var t int64
		switch {
		case len(ts) == 0 || r.Chance(10):
			t = r.Range(-5, 5)
		case r.Chance(15):
			t = ts[r.Intn(len(ts))] + r.Range(-1, 1) // may go backwards
		default:
			t = ts[r.Intn(len(ts))] + r.Range(-1, 1)
			if t < cur {
				t = cur + r.Range(0, 30)
			}
		}
		cur = t
		parts = append(parts, "s"+strconv.FormatInt(t, 10))
	}
	return strings.Join(parts, ",")
}

func genCase(c *h.Ctx, k int) []string {
	r := c.Rng
	ops := []string{}
	spc := h.Pick(r, []int{2, 3, 4, 4, 6, 10, 120})
	base := h.Pick(r, []int64{0, 0, 1000, 1000, 1700000000000, -400})
	// external labels
	ext, cext := labels.EmptyLabels(), labels.EmptyLabels()
	if r.Chance(45) {
		b := labels.NewBuilder(labels.EmptyLabels())
		b.Set(h.Pick(r, []string{"c", "region", "k", "a"}), h.Pick(r, []string{"r", "s1"}))
		if r.Chance(30) {
			b.Set(h.Pick(r, []string{"dc", "zz"}), "q")
		}
		ext = b.Labels()
		switch {
		case r.Chance(70):
			cext = ext
		case r.Chance(50):
			cext = labels.FromStrings("c", "other")
		}
	} else if r.Chance(8) {
		cext = labels.FromStrings("region", "r")
	}
	var req []*labels.Matcher
	if r.Chance(8) {
		req = append(req, labels.MustNewMatcher(labels.MatchEqual, "__name__", "m1"))
	}
	ns := 1 + r.Intn(5)
	var sets []labels.Labels
	var series [][]string
	var allT []int64
	seen := map[string]bool{}
	for i := 0; i < ns; i++ {
		l := genLabels(r, sets)
		if seen[l.String()] {
			continue
		}
		seen[l.String()] = true
		sets = append(sets, l)
		sm := genSamples(r, base)
		series = append(series, sm)
		for _, s := range sm {
			allT = append(allT, sampleT(s))
		}
	}
	sort.Slice(allT, func(i, j int) bool { return allT[i] < allT[j] })
	blockAt := "-"
	if base >= 0 && len(allT) > 0 && r.Chance(40) {
		blockAt = strconv.FormatInt(allT[r.Intn(len(allT))], 10)
	}
	ops = append(ops, fmt.Sprintf("cfg %d %s %s %s %s ?", spc, blockAt, labelsTok(ext), labelsTok(cext), matchersTok(req)))
	for i, l := range sets {
		tok := "-"
		if len(series[i]) > 0 {
			tok = strings.Join(series[i], ",")
		}
		ops = append(ops, "ser "+labelsTok(l)+" "+tok)
	}
	nq := 2 + r.Intn(4)
	for i := 0; i < nq; i++ {
		var mint, maxt int64
		switch {
		case len(allT) == 0 || r.Chance(25):
			mint, maxt = base-1000, base+100000
		default:
			a, b := allT[r.Intn(len(allT))]+r.Range(-1, 1), allT[r.Intn(len(allT))]+r.Range(-1, 1)
			if a > b {
				a, b = b, a
			}
			mint, maxt = a, b
		}
		ms := genMatchers(r, sets, ext)
		ops = append(ops, fmt.Sprintf("local %d %d %s", mint, maxt, matchersTok(ms)))
		nr := 1 + r.Intn(3)
		for j := 0; j < nr; j++ {
			typ := "c"
			if r.Chance(35) {
				typ = "s"
			}
			frame := h.Pick(r, []int{1, 40, 80, 120, 200, 200, 400, 1 << 20, 1 << 20})
			limit := 0
			if typ == "s" && r.Chance(20) {
				limit = 1 + r.Intn(60)
			}
			notrim := "0"
			if r.Chance(50) {
				notrim = "1"
			}
			sorted := "1"
			if r.Chance(10) {
				sorted = "0"
			}
			ops = append(ops, fmt.Sprintf("read %s %d %d %s %s %d %d %s %s", typ, frame, limit, notrim, sorted, mint, maxt, matchersTok(ms), genScript(r, allT)))
		}
	}
	c.NonTrivial(strings.Join(ops, "\n"))
	return ops
}

func emit(c *h.Ctx, id string, r *rec) {
	c.Case(id)
	for i := range r.ops {
		c.Op(r.ops[i], r.outs[i])
	}
	for _, k := range r.counts {
		c.Count(k)
	}
}

func main() {
	c := h.Init()
	if pf := c.Extra["cpuprofile"]; pf != "" {
		f, _ := os.Create(pf)
		pprof.StartCPUProfile(f)
		defer pprof.StopCPUProfile()
	}
	var ids []string
	var cases [][]string
	if c.Replay != "" {
		for _, cs := range c.ReplayCases() {
			ids = append(ids, strings.TrimPrefix(cs[0], "case "))
			cases = append(cases, cs[1:])
		}
	} else {
		for k := 0; k < c.N; k++ {
			ids = append(ids, fmt.Sprintf("g%d", k))
			cases = append(cases, genCase(c, k))
		}
	}
	recs := make([]*rec, len(cases))
	var wg sync.WaitGroup
	sem := make(chan struct{}, 4)
	for i := range cases {
		wg.Add(1)
		sem <- struct{}{}
		go func(i int) {
			defer wg.Done()
			defer func() { <-sem }()
			r := &rec{}
			runCase(r, cases[i])
			recs[i] = r
		}(i)
	}
	wg.Wait()
	for i := range cases {
		emit(c, ids[i], recs[i])
	}
	c.Finish()
}
