// Suite rwrecv (C41): the real remote-write receiver (remote.NewWriteHandler, protocol 1.0 and 2.0)
// in front of a real tsdb.DB, driven in-process through httptest with snappy-compressed protobuf
// built from the real prompb / writev2 types.
//
// ops (one case = one fresh tsdb.DB, compactions disabled):
//
//	cfg <oooWin> <chunkRange> <flags>    flags: 1 ingestSTZeroSample, 2 enableTypeAndUnitLabels   -> ok
//	sym <x<hex>,..|->                    symbols of the v2 request under construction             -> ok
//	ts2 <ref,..|-> <mtype> <helpRef> <unitRef>    start a v2 series                               -> ok
//	ts1 <x<name>:x<value>,..|->          start a v1 series                                        -> ok
//	s <t> <bits16> <st>                  float sample                                             -> ok|noseries
//	h <t> <st> <histtoken>               native histogram                                         -> ok|noseries
//	e2 <ref,..|-> <t> <bits16> <hash>    v2 exemplar                                              -> ok|noseries
//	e1 <labels|-> <t> <bits16> <hash>    v1 exemplar                                              -> ok|noseries
//	send <v1|v2>   -> status=<code> w=<s>,<h>,<e>|- err=<class:n+..|-> win=<minValid>,<maxt>|uninit dump=.. ex=..
//	symz <labels|->                      SymbolizeLabels on a fresh table -> <symbols> <refs>
//	desym <symbols|-> <refs|->           TimeSeries.ToLabels              -> ok <labels> | err
//	d2c <int,..|->                       ToFloatHistogram of an int histogram (deltasToCounts) -> <bits,..|->
//	hval <histtoken>                     Validate                         -> ok | invalid
//
// histtoken: <I|F>.<schema>.<zth>.<zc>.<count>.<sum>.<pspans>.<pb>.<nspans>.<nb>.<custom>
// A timestamp of 7777777 makes the (fault-injecting) appendable answer with a non-classified error.
package main

import (
	"bytes"
	"context"
	"errors"
	"fmt"
	"math"
	"net/http"
	"net/http/httptest"
	"os"
	"sort"
	"strconv"
	"strings"

	"github.com/golang/snappy"
	remoteapi "github.com/prometheus/client_golang/exp/api/remote"
	"github.com/prometheus/client_golang/prometheus"
	"github.com/prometheus/common/promslog"

	"github.com/prometheus/prometheus/model/histogram"
	"github.com/prometheus/prometheus/model/labels"
	"github.com/prometheus/prometheus/prompb"
	writev2 "github.com/prometheus/prometheus/prompb/io/prometheus/write/v2"
	"github.com/prometheus/prometheus/storage"
	"github.com/prometheus/prometheus/storage/remote"
	"github.com/prometheus/prometheus/tsdb"
	"github.com/prometheus/prometheus/tsdb/chunkenc"

	"verif/harness/h"
)

const magicT = 7777777
const farFuture = int64(1) << 60

// ---- fault-injecting appendable -------------------------------------------------------------

type faultAppendable struct{ inner storage.Appendable }

func (f faultAppendable) Appender(ctx context.Context) storage.Appender {
	return &faultAppender{Appender: f.inner.Appender(ctx)}
}

type faultAppender struct{ storage.Appender }

var errInjected = errors.New("injected appender failure")

func (a *faultAppender) Append(ref storage.SeriesRef, l labels.Labels, t int64, v float64) (storage.SeriesRef, error) {
	if t == magicT {
		return 0, errInjected
	}
	return a.Appender.Append(ref, l, t, v)
}

func (a *faultAppender) AppendHistogram(ref storage.SeriesRef, l labels.Labels, t int64, hh *histogram.Histogram, fh *histogram.FloatHistogram) (storage.SeriesRef, error) {
	if t == magicT {
		return 0, errInjected
	}
	return a.Appender.AppendHistogram(ref, l, t, hh, fh)
}

// ---- tokens ---------------------------------------------------------------------------------

func symTok(s string) string { return "x" + fmt.Sprintf("%x", s) }

func parseSym(s string) (string, bool) {
	if !strings.HasPrefix(s, "x") {
		return "", false
	}
	hx := s[1:]
	if len(hx)%2 != 0 {
		return "", false
	}
	out := make([]byte, len(hx)/2)
	for i := 0; i < len(out); i++ {
		v, err := strconv.ParseUint(hx[2*i:2*i+2], 16, 8)
		if err != nil || strings.ToLower(hx[2*i:2*i+2]) != hx[2*i:2*i+2] {
			return "", false
		}
		out[i] = byte(v)
	}
	return string(out), true
}

func splitList(s string) []string {
	if s == "-" {
		return nil
	}
	return strings.Split(s, ",")
}

func parseSyms(s string) ([]string, bool) {
	var out []string
	for _, p := range splitList(s) {
		v, ok := parseSym(p)
		if !ok {
			return nil, false
		}
		out = append(out, v)
	}
	return out, true
}

type lbl struct{ n, v string }

func parseLabels(s string) ([]lbl, bool) {
	var out []lbl
	for _, p := range splitList(s) {
		nv := strings.Split(p, ":")
		if len(nv) != 2 {
			return nil, false
		}
		n, ok1 := parseSym(nv[0])
		v, ok2 := parseSym(nv[1])
		if !ok1 || !ok2 {
			return nil, false
		}
		out = append(out, lbl{n, v})
	}
	return out, true
}

func parseRefs(s string) ([]uint32, bool) {
	var out []uint32
	for _, p := range splitList(s) {
		v, err := strconv.ParseUint(p, 10, 32)
		if err != nil || strconv.FormatUint(v, 10) != p {
			return nil, false
		}
		out = append(out, uint32(v))
	}
	return out, true
}

func joinOrDash(xs []string, sep string) string {
	if len(xs) == 0 {
		return "-"
	}
	return strings.Join(xs, sep)
}

func showLabels(ls []lbl) string {
	var p []string
	for _, l := range ls {
		p = append(p, symTok(l.n)+":"+symTok(l.v))
	}
	return joinOrDash(p, ",")
}

// keyTok is the canonical token of a stored label set.
func keyTok(ls labels.Labels) string {
	var p []string
	ls.Range(func(l labels.Label) {
		p = append(p, fmt.Sprintf("%x:%x", l.Name, l.Value))
	})
	return joinOrDash(p, ",")
}

// ---- histogram tokens -----------------------------------------------------------------------

type hist struct {
	isFloat bool
	schema  int32
	zth     uint64
	zc, cnt uint64 // integer or bits
	sum     uint64
	ps, ns  []histogram.Span
	pbI     []int64
	nbI     []int64
	pbF     []float64
	nbF     []float64
	custom  []float64
}

func hex16(u uint64) string { return fmt.Sprintf("%016x", u) }

func spansTok(s []histogram.Span) string {
	var p []string
	for _, x := range s {
		p = append(p, fmt.Sprintf("%d|%d", x.Offset, x.Length))
	}
	return joinOrDash(p, ",")
}

func i64Tok(xs []int64) string {
	var p []string
	for _, x := range xs {
		p = append(p, strconv.FormatInt(x, 10))
	}
	return joinOrDash(p, ",")
}

func f64Tok(xs []float64) string {
	var p []string
	for _, x := range xs {
		p = append(p, hex16(math.Float64bits(x)))
	}
	return joinOrDash(p, ",")
}

func (x hist) tok() string {
	k, zc, cnt, pb, nb := "I", strconv.FormatUint(x.zc, 10), strconv.FormatUint(x.cnt, 10), i64Tok(x.pbI), i64Tok(x.nbI)
	if x.isFloat {
		k, zc, cnt, pb, nb = "F", hex16(x.zc), hex16(x.cnt), f64Tok(x.pbF), f64Tok(x.nbF)
	}
	return strings.Join([]string{k, strconv.Itoa(int(x.schema)), hex16(x.zth), zc, cnt, hex16(x.sum),
		spansTok(x.ps), pb, spansTok(x.ns), nb, f64Tok(x.custom)}, ".")
}

func parseSpans(s string) ([]histogram.Span, bool) {
	var out []histogram.Span
	for _, p := range splitList(s) {
		ab := strings.Split(p, "|")
		if len(ab) != 2 {
			return nil, false
		}
		o, e1 := strconv.ParseInt(ab[0], 10, 32)
		l, e2 := strconv.ParseUint(ab[1], 10, 32)
		if e1 != nil || e2 != nil {
			return nil, false
		}
		out = append(out, histogram.Span{Offset: int32(o), Length: uint32(l)})
	}
	return out, true
}

func parseHexList(s string) ([]float64, bool) {
	var out []float64
	for _, p := range splitList(s) {
		u, err := strconv.ParseUint(p, 16, 64)
		if err != nil {
			return nil, false
		}
		out = append(out, math.Float64frombits(u))
	}
	return out, true
}

func parseI64List(s string) ([]int64, bool) {
	var out []int64
	for _, p := range splitList(s) {
		u, err := strconv.ParseInt(p, 10, 64)
		if err != nil {
			return nil, false
		}
		out = append(out, u)
	}
	return out, true
}

func parseHist(tok string) (hist, bool) {
	f := strings.Split(tok, ".")
	var x hist
	if len(f) != 11 || (f[0] != "I" && f[0] != "F") {
		return x, false
	}
	x.isFloat = f[0] == "F"
	sc, err := strconv.ParseInt(f[1], 10, 32)
	if err != nil {
		return x, false
	}
	x.schema = int32(sc)
	var e1, e2, e3, e4 error
	x.zth, e1 = strconv.ParseUint(f[2], 16, 64)
	x.sum, e2 = strconv.ParseUint(f[5], 16, 64)
	if x.isFloat {
		x.zc, e3 = strconv.ParseUint(f[3], 16, 64)
		x.cnt, e4 = strconv.ParseUint(f[4], 16, 64)
	} else {
		x.zc, e3 = strconv.ParseUint(f[3], 10, 64)
		x.cnt, e4 = strconv.ParseUint(f[4], 10, 64)
	}
	if e1 != nil || e2 != nil || e3 != nil || e4 != nil {
		return x, false
	}
	var ok1, ok2, ok3, ok4, ok5 bool
	x.ps, ok1 = parseSpans(f[6])
	x.ns, ok2 = parseSpans(f[8])
	if x.isFloat {
		x.pbF, ok3 = parseHexList(f[7])
		x.nbF, ok4 = parseHexList(f[9])
	} else {
		x.pbI, ok3 = parseI64List(f[7])
		x.nbI, ok4 = parseI64List(f[9])
	}
	x.custom, ok5 = parseHexList(f[10])
	return x, ok1 && ok2 && ok3 && ok4 && ok5
}

func (x hist) v2(t, st int64, hint int) writev2.Histogram {
	out := writev2.Histogram{
		Sum: math.Float64frombits(x.sum), Schema: x.schema, ZeroThreshold: math.Float64frombits(x.zth),
		Timestamp: t, StartTimestamp: st, CustomValues: x.custom, ResetHint: writev2.Histogram_ResetHint(hint),
	}
	for _, s := range x.ps {
		out.PositiveSpans = append(out.PositiveSpans, writev2.BucketSpan{Offset: s.Offset, Length: s.Length})
	}
	for _, s := range x.ns {
		out.NegativeSpans = append(out.NegativeSpans, writev2.BucketSpan{Offset: s.Offset, Length: s.Length})
	}
	if x.isFloat {
		out.Count = &writev2.Histogram_CountFloat{CountFloat: math.Float64frombits(x.cnt)}
		out.ZeroCount = &writev2.Histogram_ZeroCountFloat{ZeroCountFloat: math.Float64frombits(x.zc)}
		out.PositiveCounts, out.NegativeCounts = x.pbF, x.nbF
	} else {
		out.Count = &writev2.Histogram_CountInt{CountInt: x.cnt}
		out.ZeroCount = &writev2.Histogram_ZeroCountInt{ZeroCountInt: x.zc}
		out.PositiveDeltas, out.NegativeDeltas = x.pbI, x.nbI
	}
	return out
}

func (x hist) v1(t int64, hint int) prompb.Histogram {
	out := prompb.Histogram{
		Sum: math.Float64frombits(x.sum), Schema: x.schema, ZeroThreshold: math.Float64frombits(x.zth),
		Timestamp: t, CustomValues: x.custom, ResetHint: prompb.Histogram_ResetHint(hint),
	}
	for _, s := range x.ps {
		out.PositiveSpans = append(out.PositiveSpans, prompb.BucketSpan{Offset: s.Offset, Length: s.Length})
	}
	for _, s := range x.ns {
		out.NegativeSpans = append(out.NegativeSpans, prompb.BucketSpan{Offset: s.Offset, Length: s.Length})
	}
	if x.isFloat {
		out.Count = &prompb.Histogram_CountFloat{CountFloat: math.Float64frombits(x.cnt)}
		out.ZeroCount = &prompb.Histogram_ZeroCountFloat{ZeroCountFloat: math.Float64frombits(x.zc)}
		out.PositiveCounts, out.NegativeCounts = x.pbF, x.nbF
	} else {
		out.Count = &prompb.Histogram_CountInt{CountInt: x.cnt}
		out.ZeroCount = &prompb.Histogram_ZeroCountInt{ZeroCountInt: x.zc}
		out.PositiveDeltas, out.NegativeDeltas = x.pbI, x.nbI
	}
	return out
}

// nf renders the layout-independent normal form: populated buckets as index:count.
func (x hist) nf() string {
	side := func(spans []histogram.Span, bi []int64, bf []float64) string {
		var p []string
		idx, k := int64(0), 0
		var cur int64
		for _, s := range spans {
			idx += int64(s.Offset)
			for j := uint32(0); j < s.Length; j++ {
				if x.isFloat {
					if k < len(bf) && bf[k] != 0 {
						p = append(p, fmt.Sprintf("%d:%s", idx, hex16(math.Float64bits(bf[k]))))
					}
				} else if k < len(bi) {
					cur += bi[k]
					if cur != 0 {
						p = append(p, fmt.Sprintf("%d:%d", idx, cur))
					}
				}
				k++
				idx++
			}
		}
		return joinOrDash(p, ",")
	}
	k, zc, cnt := "I", strconv.FormatUint(x.zc, 10), strconv.FormatUint(x.cnt, 10)
	if x.isFloat {
		k, zc, cnt = "F", hex16(x.zc), hex16(x.cnt)
	}
	return strings.Join([]string{k, strconv.Itoa(int(x.schema)), hex16(x.zth), zc, cnt, hex16(x.sum),
		side(x.ps, x.pbI, x.pbF), side(x.ns, x.nbI, x.nbF), f64Tok(x.custom)}, ".")
}

func tokOfInt(hh *histogram.Histogram) string {
	return hist{schema: hh.Schema, zth: math.Float64bits(hh.ZeroThreshold), zc: hh.ZeroCount, cnt: hh.Count,
		sum: math.Float64bits(hh.Sum), ps: hh.PositiveSpans, ns: hh.NegativeSpans, pbI: hh.PositiveBuckets,
		nbI: hh.NegativeBuckets, custom: hh.CustomValues}.nf()
}

func tokOfFloat(fh *histogram.FloatHistogram) string {
	return hist{isFloat: true, schema: fh.Schema, zth: math.Float64bits(fh.ZeroThreshold), zc: math.Float64bits(fh.ZeroCount),
		cnt: math.Float64bits(fh.Count), sum: math.Float64bits(fh.Sum), ps: fh.PositiveSpans, ns: fh.NegativeSpans,
		pbF: fh.PositiveBuckets, nbF: fh.NegativeBuckets, custom: fh.CustomValues}.nf()
}

// ---- environment ----------------------------------------------------------------------------

type gSample struct {
	t  int64
	v  uint64
	st int64
}
type gHist struct {
	t, st int64
	x     hist
}
type gEx struct {
	refs []uint32
	ls   []lbl
	t    int64
	v    uint64
}
type gSeries struct {
	refs             []uint32
	mtype            int
	helpRef, unitRef uint32
	ls               []lbl
	samples          []gSample
	hists            []gHist
	exs              []gEx
}

type env struct {
	dir     string
	db      *tsdb.DB
	handler http.Handler
	cfgOK   bool
	symbols []string
	cur     []*gSeries
	hintCtr int
}

func (e *env) close() {
	if e.db != nil {
		_ = e.db.Close()
	}
	if e.dir != "" {
		_ = os.RemoveAll(e.dir)
	}
}

func errClasses(body string) string {
	order := []string{"symref", "metaref", "badlabels", "duplabel", "empty", "oob", "tooold", "ooo", "dup", "histinvalid", "exref", "oooex", "internal"}
	cnt := map[string]int{}
	var other []string
	for _, line := range strings.Split(strings.TrimSpace(body), "\n") {
		if line == "" {
			continue
		}
		var c string
		switch {
		case strings.HasPrefix(line, "parsing labels for series"):
			c = "symref"
		case strings.HasPrefix(line, "parsing metadata for series"):
			c = "metaref"
		case strings.HasPrefix(line, "invalid metric name or labels"):
			c = "badlabels"
		case strings.HasPrefix(line, "invalid labels for series"):
			c = "duplabel"
		case strings.HasPrefix(line, "TimeSeries must contain at least one sample"):
			c = "empty"
		case strings.HasPrefix(line, "parsing exemplar for series"):
			c = "exref"
		case strings.HasPrefix(line, storage.ErrOutOfOrderExemplar.Error()):
			c = "oooex"
		case strings.HasPrefix(line, storage.ErrOutOfBounds.Error()):
			c = "oob"
		case strings.HasPrefix(line, storage.ErrTooOldSample.Error()):
			c = "tooold"
		case strings.HasPrefix(line, storage.ErrOutOfOrderSample.Error()):
			c = "ooo"
		case strings.HasPrefix(line, storage.ErrDuplicateSampleForTimestamp.Error()):
			c = "dup"
		case strings.HasPrefix(line, errInjected.Error()):
			c = "internal"
		case strings.Contains(line, "histogram") || strings.Contains(line, "custom buckets") || strings.Contains(line, "spans"):
			c = "histinvalid"
		default:
			other = append(other, strings.NewReplacer(" ", "_", "\t", "_").Replace(line))
		}
		if c != "" {
			cnt[c]++
		}
	}
	var p []string
	for _, c := range order {
		if cnt[c] > 0 {
			p = append(p, fmt.Sprintf("%s:%d", c, cnt[c]))
		}
	}
	for _, o := range other {
		p = append(p, "other:"+o)
	}
	return joinOrDash(p, "+")
}

func sortByKey(rows []string) {
	sort.SliceStable(rows, func(i, j int) bool {
		return rows[i][:strings.IndexByte(rows[i], '@')] < rows[j][:strings.IndexByte(rows[j], '@')]
	})
}

// seriesRows renders every series of a querier: key -> ordered points (t, value token).
func seriesRows(q storage.Querier) (map[string][][2]string, error) {
	out := map[string][][2]string{}
	ss := q.Select(context.Background(), true, nil, labels.MustNewMatcher(labels.MatchRegexp, "__name__", ".*"))
	for ss.Next() {
		s := ss.At()
		it := s.Iterator(nil)
		var pts [][2]string
		for vt := it.Next(); vt != chunkenc.ValNone; vt = it.Next() {
			switch vt {
			case chunkenc.ValFloat:
				t, v := it.At()
				pts = append(pts, [2]string{strconv.FormatInt(t, 10), fmt.Sprintf("V%016x", math.Float64bits(v))})
			case chunkenc.ValHistogram:
				t, hh := it.AtHistogram(nil)
				pts = append(pts, [2]string{strconv.FormatInt(t, 10), tokOfInt(hh)})
			case chunkenc.ValFloatHistogram:
				t, fh := it.AtFloatHistogram(nil)
				pts = append(pts, [2]string{strconv.FormatInt(t, 10), tokOfFloat(fh)})
			}
		}
		if it.Err() != nil {
			return nil, it.Err()
		}
		out[keyTok(s.Labels())] = pts
	}
	return out, ss.Err()
}

func (e *env) dump() (string, string) {
	q, err := e.db.Querier(math.MinInt64, math.MaxInt64)
	if err != nil {
		return "err:" + err.Error(), "-"
	}
	defer q.Close()
	merged, err := seriesRows(q)
	if err != nil {
		return "err:select", "-"
	}
	// Where an out-of-order sample shares its timestamp with an in-order one, which of the two the merged
	// querier returns is not specified (C02 leaves it open): the dump shows the in-order value.
	qi, err := tsdb.NewBlockQuerier(tsdb.NewRangeHead(e.db.Head(), math.MinInt64, math.MaxInt64), math.MinInt64, math.MaxInt64)
	if err != nil {
		return "err:" + err.Error(), "-"
	}
	defer qi.Close()
	inorder, err := seriesRows(qi)
	if err != nil {
		return "err:select-io", "-"
	}
	var rows []string
	for k, pts := range merged {
		io := map[string]string{}
		for _, p := range inorder[k] {
			io[p[0]] = p[1]
		}
		var ps []string
		for _, p := range pts {
			v := p[1]
			if iv, ok := io[p[0]]; ok {
				v = iv
			}
			ps = append(ps, p[0]+"~"+v)
		}
		if len(ps) > 0 {
			rows = append(rows, k+"@"+strings.Join(ps, "/"))
		}
	}
	sortByKey(rows)

	eq, err := e.db.ExemplarQuerier(context.Background())
	if err != nil {
		return joinOrDash(rows, ";"), "err:" + err.Error()
	}
	res, err := eq.Select(math.MinInt64, math.MaxInt64, []*labels.Matcher{labels.MustNewMatcher(labels.MatchRegexp, "__name__", ".*")})
	if err != nil {
		return joinOrDash(rows, ";"), "err:exselect"
	}
	var erows []string
	for _, r := range res {
		var pts []string
		for _, x := range r.Exemplars {
			pts = append(pts, fmt.Sprintf("%d~%016x~%s", x.Ts, math.Float64bits(x.Value), keyTok(x.Labels)))
		}
		if len(pts) > 0 {
			erows = append(erows, keyTok(r.SeriesLabels)+"@"+strings.Join(pts, "/"))
		}
	}
	sortByKey(erows)
	return joinOrDash(rows, ";"), joinOrDash(erows, ";")
}

func (e *env) send(c *h.Ctx, ver string) string {
	head := e.db.Head()
	win := "uninit"
	if mv, ok := head.AppendableMinValidTime(); ok {
		win = fmt.Sprintf("%d,%d", mv, head.MaxTime())
	}
	var payload []byte
	var err error
	ctype := "application/x-protobuf"
	if ver == "v2" {
		req := &writev2.Request{Symbols: e.symbols}
		for _, g := range e.cur {
			ts := writev2.TimeSeries{LabelsRefs: g.refs, Metadata: writev2.Metadata{Type: writev2.Metadata_MetricType(g.mtype), HelpRef: g.helpRef, UnitRef: g.unitRef}}
			for _, s := range g.samples {
				ts.Samples = append(ts.Samples, writev2.Sample{Value: math.Float64frombits(s.v), Timestamp: s.t, StartTimestamp: s.st})
			}
			for _, x := range g.hists {
				e.hintCtr++
				ts.Histograms = append(ts.Histograms, x.x.v2(x.t, x.st, e.hintCtr%4))
			}
			for _, x := range g.exs {
				ts.Exemplars = append(ts.Exemplars, writev2.Exemplar{LabelsRefs: x.refs, Value: math.Float64frombits(x.v), Timestamp: x.t})
			}
			req.Timeseries = append(req.Timeseries, ts)
		}
		payload, err = req.Marshal()
		ctype = "application/x-protobuf;proto=io.prometheus.write.v2.Request"
	} else {
		req := &prompb.WriteRequest{}
		for _, g := range e.cur {
			ts := prompb.TimeSeries{}
			for _, l := range g.ls {
				ts.Labels = append(ts.Labels, prompb.Label{Name: l.n, Value: l.v})
			}
			for _, s := range g.samples {
				ts.Samples = append(ts.Samples, prompb.Sample{Value: math.Float64frombits(s.v), Timestamp: s.t})
			}
			for _, x := range g.hists {
				e.hintCtr++
				ts.Histograms = append(ts.Histograms, x.x.v1(x.t, e.hintCtr%4))
			}
			for _, x := range g.exs {
				ex := prompb.Exemplar{Value: math.Float64frombits(x.v), Timestamp: x.t}
				for _, l := range x.ls {
					ex.Labels = append(ex.Labels, prompb.Label{Name: l.n, Value: l.v})
				}
				ts.Exemplars = append(ts.Exemplars, ex)
			}
			req.Timeseries = append(req.Timeseries, ts)
		}
		payload, err = req.Marshal()
		if c.Rng != nil && e.hintCtr%2 == 0 {
			ctype = "application/x-protobuf;proto=prometheus.WriteRequest"
		}
	}
	e.cur, e.symbols = nil, nil
	if err != nil {
		return "err:marshal"
	}
	hr := httptest.NewRequest(http.MethodPost, "/api/v1/write", bytes.NewReader(snappy.Encode(nil, payload)))
	hr.Header.Set("Content-Type", ctype)
	hr.Header.Set("Content-Encoding", "snappy")
	rec := httptest.NewRecorder()
	e.handler.ServeHTTP(rec, hr)
	resp := rec.Result()
	w := "-"
	hs, hh, he := resp.Header.Get("X-Prometheus-Remote-Write-Samples-Written"), resp.Header.Get("X-Prometheus-Remote-Write-Histograms-Written"), resp.Header.Get("X-Prometheus-Remote-Write-Exemplars-Written")
	if hs != "" || hh != "" || he != "" {
		w = fmt.Sprintf("%s,%s,%s", hs, hh, he)
	}
	d, ex := e.dump()
	c.Count(fmt.Sprintf("send:%s:%d", ver, resp.StatusCode))
	return fmt.Sprintf("status=%d w=%s err=%s win=%s dump=%s ex=%s", resp.StatusCode, w, errClasses(rec.Body.String()), win, d, ex)
}

func (e *env) step(c *h.Ctx, op string) string {
	f := strings.Fields(op)
	if len(f) == 0 {
		return "bad-op"
	}
	switch f[0] {
	case "symz":
		if len(f) != 2 {
			return "bad-op"
		}
		ls, ok := parseLabels(f[1])
		if !ok {
			return "bad-op"
		}
		// SymbolizeLabels takes labels.Labels (sorted, unique names); go through Symbolize for raw pairs.
		tab := writev2.NewSymbolTable()
		var refs []string
		for _, l := range ls {
			refs = append(refs, strconv.Itoa(int(tab.Symbolize(l.n))), strconv.Itoa(int(tab.Symbolize(l.v))))
		}
		var syms []string
		for _, s := range tab.Symbols() {
			syms = append(syms, symTok(s))
		}
		return joinOrDash(syms, ",") + " " + joinOrDash(refs, ",")
	case "desym":
		if len(f) != 3 {
			return "bad-op"
		}
		syms, ok1 := parseSyms(f[1])
		refs, ok2 := parseRefs(f[2])
		if !ok1 || !ok2 {
			return "bad-op"
		}
		b := labels.NewScratchBuilder(0)
		ls, err := writev2.TimeSeries{LabelsRefs: refs}.ToLabels(&b, syms)
		if err != nil {
			return "err"
		}
		var out []lbl
		ls.Range(func(l labels.Label) { out = append(out, lbl{l.Name, l.Value}) })
		return "ok " + showLabels(out)
	case "d2c":
		if len(f) != 2 {
			return "bad-op"
		}
		ds, ok := parseI64List(f[1])
		if !ok {
			return "bad-op"
		}
		var spans []writev2.BucketSpan
		if len(ds) > 0 {
			spans = []writev2.BucketSpan{{Offset: 0, Length: uint32(len(ds))}}
		}
		fh := writev2.Histogram{Count: &writev2.Histogram_CountInt{CountInt: 0}, PositiveSpans: spans, PositiveDeltas: ds}.ToFloatHistogram()
		fh1 := prompb.Histogram{Count: &prompb.Histogram_CountInt{CountInt: 0}, PositiveDeltas: ds}.ToFloatHistogram()
		if f64Tok(fh.PositiveBuckets) != f64Tok(fh1.PositiveBuckets) {
			return "v1v2-differ"
		}
		return f64Tok(fh.PositiveBuckets)
	case "hval":
		if len(f) != 2 {
			return "bad-op"
		}
		x, ok := parseHist(f[1])
		if !ok {
			return "bad-op"
		}
		var err error
		if x.isFloat {
			err = x.v2(1, 0, 0).ToFloatHistogram().Validate()
		} else {
			err = x.v2(1, 0, 0).ToIntHistogram().Validate()
		}
		if err != nil {
			return "invalid"
		}
		return "ok"
	case "cfg":
		if e.cfgOK || len(f) != 4 {
			return "bad-op"
		}
		w, e1 := strconv.ParseInt(f[1], 10, 64)
		cr, e2 := strconv.ParseInt(f[2], 10, 64)
		fl, e3 := strconv.ParseUint(f[3], 10, 32)
		if e1 != nil || e2 != nil || e3 != nil {
			return "bad-op"
		}
		e.dir = h.TempDir("rwrecv")
		opts := tsdb.DefaultOptions()
		opts.MinBlockDuration = cr
		opts.MaxBlockDuration = cr
		opts.OutOfOrderTimeWindow = w
		opts.OutOfOrderCapMax = 32
		opts.RetentionDuration = 0
		opts.NoLockfile = true
		opts.WALSegmentSize = 128 * 1024
		opts.EnableExemplarStorage = true
		opts.MaxExemplars = 50
		db, err := tsdb.Open(e.dir, promslog.NewNopLogger(), nil, opts, nil)
		if err != nil {
			panic(err)
		}
		db.DisableCompactions()
		e.db = db
		e.handler = remote.NewWriteHandler(promslog.NewNopLogger(), prometheus.NewRegistry(), faultAppendable{db},
			remoteapi.MessageTypes{remoteapi.WriteV1MessageType, remoteapi.WriteV2MessageType}, fl&1 != 0, fl&2 != 0, fl&4 != 0)
		e.cfgOK = true
		return "ok"
	}
	if !e.cfgOK {
		return "bad-op"
	}
	curS := func() *gSeries {
		if len(e.cur) == 0 {
			return nil
		}
		return e.cur[len(e.cur)-1]
	}
	switch f[0] {
	case "sym":
		if len(f) != 2 {
			return "bad-op"
		}
		s, ok := parseSyms(f[1])
		if !ok {
			return "bad-op"
		}
		e.symbols = s
		return "ok"
	case "ts2":
		if len(f) != 5 {
			return "bad-op"
		}
		refs, ok := parseRefs(f[1])
		mt, e1 := strconv.ParseUint(f[2], 10, 31)
		hr, e2 := strconv.ParseUint(f[3], 10, 32)
		ur, e3 := strconv.ParseUint(f[4], 10, 32)
		if !ok || e1 != nil || e2 != nil || e3 != nil {
			return "bad-op"
		}
		e.cur = append(e.cur, &gSeries{refs: refs, mtype: int(mt), helpRef: uint32(hr), unitRef: uint32(ur)})
		return "ok"
	case "ts1":
		if len(f) != 2 {
			return "bad-op"
		}
		ls, ok := parseLabels(f[1])
		if !ok {
			return "bad-op"
		}
		e.cur = append(e.cur, &gSeries{ls: ls})
		return "ok"
	case "s":
		if len(f) != 4 {
			return "bad-op"
		}
		t, e1 := strconv.ParseInt(f[1], 10, 64)
		v, e2 := strconv.ParseUint(f[2], 16, 64)
		st, e3 := strconv.ParseInt(f[3], 10, 64)
		if e1 != nil || e2 != nil || e3 != nil {
			return "bad-op"
		}
		g := curS()
		if g == nil {
			return "noseries"
		}
		g.samples = append(g.samples, gSample{t, v, st})
		return "ok"
	case "h":
		if len(f) != 4 {
			return "bad-op"
		}
		t, e1 := strconv.ParseInt(f[1], 10, 64)
		st, e2 := strconv.ParseInt(f[2], 10, 64)
		x, ok := parseHist(f[3])
		if e1 != nil || e2 != nil || !ok {
			return "bad-op"
		}
		g := curS()
		if g == nil {
			return "noseries"
		}
		g.hists = append(g.hists, gHist{t, st, x})
		return "ok"
	case "e2", "e1":
		if len(f) != 5 {
			return "bad-op"
		}
		t, e1 := strconv.ParseInt(f[2], 10, 64)
		v, e2 := strconv.ParseUint(f[3], 16, 64)
		_, e3 := strconv.ParseUint(f[4], 10, 64)
		if e1 != nil || e2 != nil || e3 != nil {
			return "bad-op"
		}
		x := gEx{t: t, v: v}
		var ok bool
		if f[0] == "e2" {
			x.refs, ok = parseRefs(f[1])
		} else {
			x.ls, ok = parseLabels(f[1])
		}
		if !ok {
			return "bad-op"
		}
		g := curS()
		if g == nil {
			return "noseries"
		}
		g.exs = append(g.exs, x)
		return "ok"
	case "send":
		if len(f) != 2 || (f[1] != "v1" && f[1] != "v2") {
			return "bad-op"
		}
		return e.send(c, f[1])
	}
	return "bad-op"
}

func runCase(c *h.Ctx, ops []string) {
	e := &env{}
	defer e.close()
	for _, op := range ops {
		var out string
		if p, v := h.Try(func() { out = e.step(c, op) }); p {
			out = "panic:" + strings.NewReplacer(" ", "_", "\n", "_", "\t", "_").Replace(fmt.Sprint(v))
		}
		c.Op(op, out)
	}
}

// ---- generator ------------------------------------------------------------------------------

func exHash(ls []lbl) uint64 {
	b := labels.NewScratchBuilder(len(ls))
	for _, l := range ls {
		b.Add(l.n, l.v)
	}
	b.Sort()
	return b.Labels().WithoutEmpty().Hash()
}

type gen struct {
	r        *h.Rng
	c        *h.Ctx
	ops      []string
	noHist   bool
	cursor   int64
	usedHist bool
}

var floatPool = []uint64{
	0x3ff0000000000000, 0x4000000000000000, 0, 0x8000000000000000, 0x7ff8000000000001, 0x7ff0000000000000,
	0x4008000000000000, 0xbff0000000000000, 0x0000000000000001,
}

const staleBits = 0x7ff0000000000002

func (g *gen) fbits() uint64 {
	if g.noHist && g.r.Chance(6) {
		return staleBits
	}
	if g.r.Chance(75) {
		return h.Pick(g.r, floatPool)
	}
	return math.Float64bits(float64(g.r.Range(-50, 50)) / 4)
}

var namePool = []string{"__name__", "job", "a", "b", "le", "__type__", "__unit__", "instance"}
var valPool = []string{"m1", "m2", "x", "y", "", "seconds", "counter", "é"}

// labelSet returns a label set; kind: 0..2 valid pool sets, others invalid variants.
func (g *gen) labelSet() []lbl {
	r := g.r
	base := [][]lbl{
		{{"__name__", "m1"}, {"job", "a"}},
		{{"__name__", "m2"}},
		{{"__name__", "m1"}, {"job", "b"}, {"z", ""}},
		{{"__name__", "m3"}, {"__type__", "gauge"}, {"a", "é"}},
	}
	ls := append([]lbl{}, base[r.Intn(len(base))]...)
	if r.Chance(78) {
		if r.Chance(25) {
			// unsorted on the wire is fine (the receiver sorts)
			r2 := append([]lbl{}, ls...)
			for i := len(r2) - 1; i > 0; i-- {
				j := r.Intn(i + 1)
				r2[i], r2[j] = r2[j], r2[i]
			}
			return r2
		}
		return ls
	}
	switch r.Intn(8) {
	case 0: // no metric name
		return []lbl{{"job", "a"}}
	case 1: // empty metric name
		return []lbl{{"__name__", ""}, {"job", "a"}}
	case 2: // empty label name
		return append(ls, lbl{"", "v"})
	case 3: // duplicate label name
		return append(ls, lbl{ls[len(ls)-1].n, "dupv"})
	case 4: // invalid UTF-8 in a value
		return append(ls, lbl{"bad", "\xff"})
	case 5: // invalid UTF-8 in a name (overlong / surrogate)
		return append(ls, lbl{h.Pick(r, []string{"\xc0\x80", "\xed\xa0\x80", "a\xfe"}), "v"})
	case 6: // empty label set
		return nil
	default: // duplicate metric name
		return append(ls, lbl{"__name__", "m1"})
	}
}

func (g *gen) histTok(valid bool) string {
	r := g.r
	x := hist{isFloat: r.Chance(40)}
	custom := r.Chance(35)
	n := 1 + r.Intn(3)
	var counts []int64
	var total int64
	for i := 0; i < n; i++ {
		c := r.Range(1, 5) // populated buckets only: Equals then coincides with equality of the normal form
		counts = append(counts, c)
		total += c
	}
	x.ps = []histogram.Span{{Offset: int32(r.Range(0, 2)), Length: uint32(n)}}
	if n >= 2 && r.Chance(40) {
		x.ps = []histogram.Span{{Offset: int32(r.Range(0, 2)), Length: 1}, {Offset: int32(r.Range(1, 2)), Length: uint32(n - 1)}}
	}
	var zc int64
	if custom {
		x.schema = histogram.CustomBucketsSchema
		nb := 4 + r.Intn(3)
		for i := 0; i < nb; i++ {
			x.custom = append(x.custom, float64(i+1)*2.5)
		}
	} else {
		x.schema = int32(h.PickI64(r, []int64{0, 0, 3, -4, 8, 1}))
		x.zth = math.Float64bits(h.Pick(r, []float64{0, 0.001, 1e-128}))
		zc = r.Range(0, 3)
		if r.Chance(40) {
			x.ns = []histogram.Span{{Offset: int32(r.Range(-2, 2)), Length: 1}}
			c := r.Range(1, 4)
			total += c
			if x.isFloat {
				x.nbF = []float64{float64(c)}
			} else {
				x.nbI = []int64{c}
			}
		}
	}
	total += zc
	sum := float64(r.Range(-20, 20)) / 2
	if r.Chance(8) {
		sum = math.NaN()
	}
	x.sum = math.Float64bits(sum)
	if x.isFloat {
		for _, c := range counts {
			x.pbF = append(x.pbF, float64(c))
		}
		x.zc = math.Float64bits(float64(zc))
		x.cnt = math.Float64bits(float64(total))
	} else {
		prev := int64(0)
		for _, c := range counts {
			x.pbI = append(x.pbI, c-prev)
			prev = c
		}
		x.zc = uint64(zc)
		x.cnt = uint64(total)
		if math.IsNaN(sum) && r.Chance(50) {
			x.cnt += uint64(r.Range(0, 3))
		}
	}
	if valid {
		return x.tok()
	}
	// invalid variants
	switch r.Intn(9) {
	case 0:
		if x.isFloat {
			x.cnt = math.Float64bits(-1)
		} else {
			x.cnt++
			if math.IsNaN(sum) {
				x.cnt = 0
				x.pbI[0] += 7
			}
		}
	case 1:
		x.ps[0].Length++
	case 2:
		if x.isFloat {
			x.pbF[len(x.pbF)-1] = -1
		} else {
			x.pbI[len(x.pbI)-1] = -100
		}
	case 3:
		x.schema = int32(h.PickI64(r, []int64{60, -10, -5, 53, -54}))
	case 4:
		if custom {
			x.custom[1] = x.custom[0]
		} else {
			x.custom = []float64{1, 2, 3, 4, 5, 6, 7}
		}
	case 5:
		if custom {
			x.zc = 1
			if x.isFloat {
				x.zc = math.Float64bits(1)
			}
		} else {
			x.ns = []histogram.Span{{Offset: 0, Length: 2}}
		}
	case 6:
		if custom {
			x.custom = append(x.custom, math.Inf(1))
		} else if len(x.ps) > 1 {
			x.ps[1].Offset = -1
		} else {
			x.ps = append(x.ps, histogram.Span{Offset: -1, Length: 0})
		}
	case 7:
		if custom {
			x.custom = x.custom[:1]
			x.ps = []histogram.Span{{Offset: 3, Length: uint32(n)}}
		} else {
			x.zc = math.Float64bits(-2)
			if !x.isFloat {
				x.zc = 1000
			}
		}
	default:
		if custom {
			x.custom[0] = math.NaN()
		} else {
			x.ps[0].Offset = int32(r.Range(-3, 3))
			x.ps[0].Length += 2
		}
	}
	return x.tok()
}

// ts picks a sample timestamp around the cursor.
func (g *gen) ts(prev int64, have bool) int64 {
	r := g.r
	switch {
	case r.Chance(58):
		g.cursor += r.Range(1, 20)
		return g.cursor
	case r.Chance(30) && have: // duplicate timestamp
		return prev
	case r.Chance(40) && have: // slightly out of order
		return prev - r.Range(1, 40)
	case r.Chance(30):
		return g.cursor - r.Range(0, 700)
	case r.Chance(25):
		return farFuture + r.Range(0, 3)
	case r.Chance(12):
		return magicT
	case r.Chance(30):
		return 0
	default:
		return g.cursor + r.Range(-5, 5)
	}
}

func (g *gen) stFor(t int64) int64 {
	r := g.r
	switch {
	case r.Chance(55):
		return 0
	case r.Chance(60):
		return t - r.Range(1, 30)
	case r.Chance(50):
		return t
	default:
		return t + r.Range(1, 5)
	}
}

func (g *gen) emit(op string) { g.ops = append(g.ops, op) }

func (g *gen) request() {
	r := g.r
	v2 := r.Chance(68)
	nSeries := 1 + r.Intn(5)
	if r.Chance(30) {
		nSeries = 1
	}
	tab := writev2.NewSymbolTable()
	if v2 && r.Chance(10) {
		tab.Symbolize("unused")
	}
	type pend struct{ lines []string }
	var body []string
	for i := 0; i < nSeries; i++ {
		ls := g.labelSet()
		if v2 {
			var refs []string
			for _, l := range ls {
				refs = append(refs, strconv.Itoa(int(tab.Symbolize(l.n))), strconv.Itoa(int(tab.Symbolize(l.v))))
			}
			switch {
			case r.Chance(3) && len(refs) > 0: // odd number of references
				refs = refs[:len(refs)-1]
			case r.Chance(3) && len(refs) > 0: // reference outside the table
				refs[r.Intn(len(refs))] = strconv.Itoa(200 + r.Intn(3))
			}
			mt := r.Intn(9)
			if r.Chance(40) {
				mt = 0
			}
			help := tab.Symbolize(h.Pick(r, []string{"", "some help"}))
			unit := tab.Symbolize(h.Pick(r, []string{"", "", "seconds", "bytes"}))
			hr, ur := strconv.Itoa(int(help)), strconv.Itoa(int(unit))
			if r.Chance(3) {
				hr = "300"
			}
			if r.Chance(3) {
				ur = "301"
			}
			body = append(body, fmt.Sprintf("ts2 %s %d %s %s", joinOrDash(refs, ","), mt, hr, ur))
		} else {
			body = append(body, "ts1 "+showLabels(ls))
		}
		// samples
		nS := r.Intn(4)
		nH := 0
		if !g.noHist && r.Chance(45) {
			nH = 1 + r.Intn(3)
			if r.Chance(60) {
				nS = 0
			}
		}
		if r.Chance(4) {
			nS, nH = 0, 0
		}
		var prev int64
		have := false
		for k := 0; k < nS; k++ {
			t := g.ts(prev, have)
			prev, have = t, true
			body = append(body, fmt.Sprintf("s %d %s %d", t, hex16(g.fbits()), g.stFor(t)))
		}
		for k := 0; k < nH; k++ {
			t := g.ts(prev, have)
			prev, have = t, true
			valid := r.Chance(85)
			st := int64(0)
			if valid {
				st = g.stFor(t)
			}
			body = append(body, fmt.Sprintf("h %d %d %s", t, st, g.histTok(valid)))
			g.usedHist = true
		}
		// exemplars
		for k, n := 0, r.Intn(3)*r.Intn(2); k < n; k++ {
			els := h.Pick(r, [][]lbl{{{"trace_id", "t1"}}, {{"trace_id", "t2"}}, {}, {{"trace_id", "t1"}, {"e", ""}}, {{"long", strings.Repeat("x", 130)}}})
			t := g.cursor + r.Range(-30, 10)
			if r.Chance(15) {
				t = 0
			}
			v := math.Float64bits(float64(r.Range(1, 40)))
			if v2 {
				var refs []string
				for _, l := range els {
					refs = append(refs, strconv.Itoa(int(tab.Symbolize(l.n))), strconv.Itoa(int(tab.Symbolize(l.v))))
				}
				hash := exHash(els)
				if r.Chance(5) && len(refs) > 0 {
					refs[0] = "250"
					hash = 0
				}
				body = append(body, fmt.Sprintf("e2 %s %d %s %d", joinOrDash(refs, ","), t, hex16(v), hash))
			} else {
				body = append(body, fmt.Sprintf("e1 %s %d %s %d", showLabels(els), t, hex16(v), exHash(els)))
			}
		}
	}
	if v2 {
		var syms []string
		for _, s := range tab.Symbols() {
			syms = append(syms, symTok(s))
		}
		if r.Chance(2) {
			syms = nil // empty symbols table: every reference is out of range
		}
		g.emit("sym " + joinOrDash(syms, ","))
	}
	g.ops = append(g.ops, body...)
	if v2 {
		g.emit("send v2")
	} else {
		g.emit("send v1")
	}
}

func genCase(c *h.Ctx) []string {
	r := c.Rng
	g := &gen{r: r, c: c, noHist: r.Chance(35), cursor: r.Range(1000, 5000)}
	oooWin := int64(0)
	if r.Chance(40) {
		oooWin = h.PickI64(r, []int64{30, 100, 500})
	}
	cr := h.PickI64(r, []int64{200, 1000, 100000})
	flags := 0
	if r.Chance(35) {
		flags |= 1
	}
	if r.Chance(35) {
		flags |= 2
	}
	// flag 4 (appendMetadata) is not generated: on a fresh head, UpdateMetadata after a series whose samples
	// were all rejected by the time limit creates the head appender without initTime (window overflow).
	g.emit(fmt.Sprintf("cfg %d %d %d", oooWin, cr, flags))
	for i, n := 0, 1+r.Intn(4); i < n; i++ {
		g.request()
	}
	c.Count(fmt.Sprintf("cfg:ooo=%d", oooWin))
	c.Count(fmt.Sprintf("cfg:flags=%d", flags&3))
	return g.ops
}

func genCodecCase(c *h.Ctx) []string {
	r := c.Rng
	var ops []string
	pool := []string{"", "a", "b", "__name__", "m1", "é", "\xff", "job", "a"}
	for i, n := 0, 2+r.Intn(4); i < n; i++ {
		switch r.Intn(4) {
		case 0:
			var ls []lbl
			for k, m := 0, r.Intn(6); k < m; k++ {
				ls = append(ls, lbl{h.Pick(r, pool), h.Pick(r, pool)})
			}
			ops = append(ops, "symz "+showLabels(ls))
		case 1:
			var syms []string
			for k, m := 0, r.Intn(6); k < m; k++ {
				syms = append(syms, symTok(h.Pick(r, pool)))
			}
			var refs []string
			for k, m := 0, r.Intn(4)*2+r.Intn(8)/7; k < m; k++ {
				refs = append(refs, strconv.Itoa(r.Intn(len(syms)+2)))
			}
			ops = append(ops, fmt.Sprintf("desym %s %s", joinOrDash(syms, ","), joinOrDash(refs, ",")))
		case 2:
			var ds []string
			for k, m := 0, r.Intn(6); k < m; k++ {
				ds = append(ds, strconv.FormatInt(h.PickI64(r, []int64{0, 1, -1, 5, -3, 1 << 40, -(1 << 40), 100}), 10))
			}
			ops = append(ops, "d2c "+joinOrDash(ds, ","))
		default:
			g := &gen{r: r, c: c}
			ops = append(ops, "hval "+g.histTok(r.Chance(50)))
		}
	}
	return ops
}

func main() {
	c := h.Init()
	defer c.Finish()
	if c.Replay != "" {
		for _, cs := range c.ReplayCases() {
			c.Case(strings.TrimPrefix(cs[0], "case "))
			runCase(c, cs[1:])
		}
		return
	}
	for i := 0; i < c.N; i++ {
		if i%8 == 7 {
			c.Case(fmt.Sprintf("k%d", i))
			ops := genCodecCase(c)
			c.NonTrivial(strings.Join(ops, ";"))
			runCase(c, ops)
			c.Count("stream:codec")
			continue
		}
		c.Case(fmt.Sprintf("r%d", i))
		ops := genCase(c)
		c.NonTrivial(strings.Join(ops, ";"))
		runCase(c, ops)
		c.Count("stream:requests")
	}
}
