// Suite hcounters (C52, full statement): histories over a real tsdb.DB (private registry) with float samples,
// integer and float native histograms (varying bucket counts, schemas incl. custom buckets, gauge/counter
// hints), staleness markers of every type, type switches on one series, an out-of-order window with
// out-of-order floats AND histograms, up to three overlapping appenders (v1 or AppenderV2) committing in any
// order, deletions, head compaction/truncation (Compact, CompactHead at an arbitrary time, CompactOOOHead),
// stale-series and selected-series eviction (CompactStaleHead, CompactSelectedSeries), m-mapping, restarts
// from the WAL and from a chunk snapshot.
//
// Judge-only protocol: every op line carries the observation of the real head taken right AFTER the op:
//
//	<op> | <out> gauges=<series>,<stale>,<hseries>,<hbuckets>,<chunks>,<appenders> api=<NumSeries>,<NumStaleSeries>,<NumNativeHistogramSeries>,<NumNativeHistogramBuckets>
//	       cmr=<created-removed> recount=<series>,<stale>,<hseries>,<hbuckets>,<chunks> cached=<stale>,<hseries>,<hbuckets> index=<series>,<inorder-chunks>/<walk-inorder-chunks> ooosplit=<n>
//
// gauges = prometheus_tsdb_head_* of the private registry; recount = walk over head.series through the guarded
// hook tsdb.VerifCountersWalk: a series' newest in-order sample is DECODED from its newest in-order chunk
// (kind, staleness, bucket count; a histogram staleness marker's bucket entries are not stored in chunks and
// are taken from the cached marker), chunks = m-mapped + head-chunk list + OOO m-mapped + OOO head chunk;
// cached = the same three sums from the cached last-sample fields; index = series/chunks seen through the
// head's index reader (postings); ooosplit = number of EXTRA chunks the current OOO head chunks will turn into
// when they are m-mapped (an OOO head chunk holding samples of several types/layouts encodes to several
// chunks). The implementation and model columns are `-`.
//
// ops:  cfg <chunkRange> <oooWindow> <samplesPerChunk> <snapshot 0|1> <v2 0|1>
//
//	begin <a> | commit <a> | rollback <a>                   a = appender slot 0..2
//	app <a> <s> <t> <kind> <P> <N> <x>       kind f (x = value bits hex) | h | hg | fh | fhg (x = layout seed)
//	                                         | hs | fhs (explicit histogram staleness marker WITH buckets)
//	del <mint> <maxt> <s|*> | compact | compacthead <maxt> | compactooo | stalecompact | selcompact <s,s,…>
//	mmap | reopen <wal|snap>
package main

import (
	"context"
	"errors"
	"fmt"
	"math"
	"os"
	"path/filepath"
	"strconv"
	"strings"

	"github.com/prometheus/client_golang/prometheus"
	"github.com/prometheus/common/promslog"

	"github.com/prometheus/prometheus/model/histogram"
	"github.com/prometheus/prometheus/model/labels"
	"github.com/prometheus/prometheus/model/value"
	"github.com/prometheus/prometheus/storage"
	"github.com/prometheus/prometheus/tsdb"
	"github.com/prometheus/prometheus/tsdb/chunks"
	"github.com/prometheus/prometheus/tsdb/index"

	"verif/harness/h"
)

const nSlots = 3

type trackedHist struct {
	h  *histogram.Histogram
	fh *histogram.FloatHistogram
	n  int
}

type tx struct {
	v1    storage.Appender
	v2    storage.AppenderV2
	hists []trackedHist
}

type env struct {
	dir  string
	db   *tsdb.DB
	opts *tsdb.Options
	v2   bool
	txs  [nSlots]*tx
	reg  *prometheus.Registry
	refs map[int]storage.SeriesRef
	seen map[storage.SeriesRef]bool // every ref an Append of this case has returned (across restarts)
}

func (e *env) gauges() map[string]float64 {
	out := map[string]float64{}
	mfs, err := e.reg.Gather()
	if err != nil {
		return out
	}
	for _, mf := range mfs {
		if len(mf.GetMetric()) != 1 {
			continue
		}
		m := mf.GetMetric()[0]
		if m.Gauge != nil {
			out[mf.GetName()] = m.Gauge.GetValue()
		} else if m.Counter != nil {
			out[mf.GetName()] = m.Counter.GetValue()
		}
	}
	return out
}

// f2i prints a gauge as a signed integer: a uint64 counter that wrapped below zero shows up as ~1.8e19.
func f2i(f float64) int64 {
	if f >= 9.2e18 {
		return int64(f - 18446744073709551616.0)
	}
	return int64(f)
}

func (e *env) indexCount() (ns, nch int, err error) {
	hd := e.db.Head()
	ir, err := hd.Index()
	if err != nil {
		return 0, 0, err
	}
	defer ir.Close()
	k, v := index.AllPostingsKey()
	p, err := ir.Postings(context.Background(), k, v)
	if err != nil {
		return 0, 0, err
	}
	var b labels.ScratchBuilder
	var chks []chunks.Meta
	for p.Next() {
		chks = chks[:0]
		if err := ir.Series(p.At(), &b, &chks); err != nil {
			return 0, 0, err
		}
		ns++
		nch += len(chks)
	}
	return ns, nch, p.Err()
}

func (e *env) observe() string {
	if e.db == nil {
		return "nodb"
	}
	hd := e.db.Head()
	g := e.gauges()
	var rS, rStale, rHS, rHB, rCh, cStale, cHS, cHB, inorder, latent int
	bad := 0
	for _, s := range tsdb.VerifCountersWalk(hd) {
		rS++
		rCh += s.Mmapped + s.HeadChunks + s.OOOMmapped
		inorder += s.Mmapped + s.HeadChunks
		if s.OOOHead {
			rCh++
			if s.OOOHeadEnc > 1 {
				latent += s.OOOHeadEnc - 1
			}
		}
		if s.CachedStale {
			cStale++
		}
		if s.CachedKind >= 2 {
			cHS++
			cHB += s.CachedBuckets
		}
		kind, stale, buckets := s.ChunkKind, s.ChunkStale, s.ChunkBuckets
		switch {
		case kind < 0:
			bad++
		case kind == 0:
			// no in-order chunk: the series is known only through its cached last sample
			kind, stale, buckets = s.CachedKind, s.CachedStale, s.CachedBuckets
		case kind >= 2 && stale && s.CachedKind == kind && s.CachedStale:
			// chunks do not store the bucket entries of a histogram staleness marker
			buckets = s.CachedBuckets
		}
		if stale {
			rStale++
		}
		if kind >= 2 {
			rHS++
			rHB += buckets
		}
	}
	is, ich, err := e.indexCount()
	if err != nil {
		return "err:index:" + clean(err.Error())
	}
	if bad > 0 {
		return fmt.Sprintf("err:chunk-read:%d", bad)
	}
	return fmt.Sprintf("gauges=%d,%d,%d,%d,%d,%d api=%d,%d,%d,%d cmr=%d recount=%d,%d,%d,%d,%d cached=%d,%d,%d index=%d,%d/%d ooosplit=%d",
		f2i(g["prometheus_tsdb_head_series"]), f2i(g["prometheus_tsdb_head_stale_series"]),
		f2i(g["prometheus_tsdb_head_native_histogram_series"]), f2i(g["prometheus_tsdb_head_native_histogram_buckets"]),
		f2i(g["prometheus_tsdb_head_chunks"]), f2i(g["prometheus_tsdb_head_active_appenders"]),
		int64(hd.NumSeries()), int64(hd.NumStaleSeries()), int64(hd.NumNativeHistogramSeries()), int64(hd.NumNativeHistogramBuckets()),
		f2i(g["prometheus_tsdb_head_series_created_total"])-f2i(g["prometheus_tsdb_head_series_removed_total"]),
		rS, rStale, rHS, rHB, rCh, cStale, cHS, cHB, is, ich, inorder, latent)
}

func clean(s string) string {
	return strings.ReplaceAll(strings.ReplaceAll(strings.ReplaceAll(s, " ", "_"), "\t", "_"), "\n", "_")
}

func (e *env) open() error {
	e.reg = prometheus.NewRegistry()
	db, err := tsdb.Open(e.dir, promslog.NewNopLogger(), e.reg, e.opts, nil)
	if err != nil {
		return err
	}
	db.DisableCompactions()
	e.db = db
	return nil
}

func (e *env) rollbackAll() {
	for i, t := range e.txs {
		if t != nil {
			if t.v1 != nil {
				t.v1.Rollback()
			} else {
				t.v2.Rollback()
			}
			e.txs[i] = nil
		}
	}
}

func (e *env) anyOpen() bool {
	for _, t := range e.txs {
		if t != nil {
			return true
		}
	}
	return false
}

func (e *env) close() {
	if e.db != nil {
		e.rollbackAll()
		e.db.Close()
		e.db = nil
	}
}

func lbls(s int) labels.Labels {
	return labels.FromStrings("__name__", "m", "s", strconv.Itoa(s))
}

func errClass(err error) string {
	switch {
	case err == nil:
		return "ok"
	case errors.Is(err, storage.ErrOutOfBounds):
		return "oob"
	case errors.Is(err, storage.ErrOutOfOrderSample):
		return "ooo"
	case errors.Is(err, storage.ErrTooOldSample):
		return "tooold"
	case errors.Is(err, storage.ErrDuplicateSampleForTimestamp):
		return "dup"
	default:
		return "err:" + clean(err.Error())
	}
}

// mkHist builds a valid histogram with P positive and N negative bucket entries. x selects schema
// (0,0,1,custom), span offset, whether some buckets are empty (absolute count 0) and the base count.
func mkHist(P, N int, x int, gauge, stale bool) *histogram.Histogram {
	schema := []int32{0, 0, 1, histogram.CustomBucketsSchema}[x%4]
	off := int32((x / 4) % 3)
	zeros := (x/12)%2 == 1
	base := int64(1 + (x/24)%3)
	if schema == histogram.CustomBucketsSchema && N > 0 {
		schema = 0
	}
	hh := &histogram.Histogram{Schema: schema, Sum: float64(P) + 0.5*float64(N) + float64(base)}
	if gauge {
		hh.CounterResetHint = histogram.GaugeType
	}
	abs := func(i int) int64 {
		if zeros && i%2 == 1 {
			return 0
		}
		return base + int64(i)
	}
	fill := func(n int) (spans []histogram.Span, deltas []int64, total uint64) {
		if n == 0 {
			return nil, nil, 0
		}
		spans = []histogram.Span{{Offset: off, Length: uint32(n)}}
		prev := int64(0)
		for i := 0; i < n; i++ {
			a := abs(i)
			deltas = append(deltas, a-prev)
			prev = a
			total += uint64(a)
		}
		return spans, deltas, total
	}
	var tp, tn uint64
	if schema == histogram.CustomBucketsSchema {
		off = 0
		hh.PositiveSpans, hh.PositiveBuckets, tp = fill(P)
		for i := 0; i < P+1+(x/4)%2; i++ {
			hh.CustomValues = append(hh.CustomValues, float64(i+1)*float64(1+(x/8)%2))
		}
		hh.Count = tp
	} else {
		hh.PositiveSpans, hh.PositiveBuckets, tp = fill(P)
		hh.NegativeSpans, hh.NegativeBuckets, tn = fill(N)
		hh.ZeroThreshold = 0.001
		hh.ZeroCount = 1
		hh.Count = tp + tn + 1
	}
	if stale {
		hh.Sum = math.Float64frombits(value.StaleNaN)
	}
	return hh
}

func nb(t trackedHist) int {
	if t.h != nil {
		return len(t.h.PositiveBuckets) + len(t.h.NegativeBuckets)
	}
	return len(t.fh.PositiveBuckets) + len(t.fh.NegativeBuckets)
}

func runCase(c *h.Ctx, ops []string) {
	dir := h.TempDir("vhc")
	e := &env{dir: dir, refs: map[int]storage.SeriesRef{}, seen: map[storage.SeriesRef]bool{}}
	defer os.RemoveAll(dir)
	defer e.close()
	for _, op := range ops {
		if i := strings.Index(op, " | "); i >= 0 {
			op = op[:i]
		}
		f := strings.Fields(op)
		out := "bad-op"
		slot := func(i int) (int, bool) {
			if len(f) <= i {
				return 0, false
			}
			a, err := strconv.Atoi(f[i])
			return a, err == nil && a >= 0 && a < nSlots
		}
		p, pv := h.Try(func() {
			if f[0] != "cfg" && e.db == nil {
				out = "nodb"
				return
			}
			switch f[0] {
			case "cfg":
				if len(f) < 6 || e.db != nil {
					return
				}
				cr, _ := strconv.ParseInt(f[1], 10, 64)
				ooo, _ := strconv.ParseInt(f[2], 10, 64)
				spc, _ := strconv.Atoi(f[3])
				o := tsdb.DefaultOptions()
				o.MinBlockDuration, o.MaxBlockDuration = cr, cr
				o.OutOfOrderTimeWindow = ooo
				o.SamplesPerChunk = spc
				o.RetentionDuration = 0
				o.WALSegmentSize = 128 * 1024
				o.EnableMemorySnapshotOnShutdown = f[4] == "1"
				e.v2 = f[5] == "1"
				e.opts = o
				if err := e.open(); err != nil {
					out = "err:" + clean(err.Error())
				} else {
					out = "ok"
				}
			case "begin":
				a, ok := slot(1)
				if !ok {
					return
				}
				if t := e.txs[a]; t != nil {
					if t.v1 != nil {
						t.v1.Rollback()
					} else {
						t.v2.Rollback()
					}
				}
				if e.v2 {
					e.txs[a] = &tx{v2: e.db.AppenderV2(context.Background())}
				} else {
					e.txs[a] = &tx{v1: e.db.Appender(context.Background())}
				}
				out = "ok"
			case "app":
				a, ok := slot(1)
				if !ok || len(f) < 8 {
					return
				}
				t := e.txs[a]
				if t == nil {
					out = "noapp"
					return
				}
				s, _ := strconv.Atoi(f[2])
				ts, _ := strconv.ParseInt(f[3], 10, 64)
				P, _ := strconv.Atoi(f[5])
				N, _ := strconv.Atoi(f[6])
				var (
					v   float64
					hh  *histogram.Histogram
					fh  *histogram.FloatHistogram
					err error
					ref storage.SeriesRef
				)
				switch f[4] {
				case "f":
					vb, _ := strconv.ParseUint(f[7], 16, 64)
					v = math.Float64frombits(vb)
				case "h", "hg", "hs":
					x, _ := strconv.Atoi(f[7])
					hh = mkHist(P, N, x, f[4] == "hg", f[4] == "hs")
				case "fh", "fhg", "fhs":
					x, _ := strconv.Atoi(f[7])
					fh = mkHist(P, N, x, f[4] == "fhg", f[4] == "fhs").ToFloat(nil)
				default:
					return
				}
				nBefore := e.db.Head().NumSeries()
				if t.v1 != nil {
					if hh != nil || fh != nil {
						ref, err = t.v1.AppendHistogram(0, lbls(s), ts, hh, fh)
					} else {
						ref, err = t.v1.Append(0, lbls(s), ts, v)
					}
				} else {
					ref, err = t.v2.Append(0, lbls(s), 0, ts, v, hh, fh, storage.AOptions{})
				}
				out = errClass(err)
				if err == nil {
					// a NEW series that is handed a ref an earlier series of this history already had
					if e.db.Head().NumSeries() > nBefore && e.seen[ref] {
						out += " refreuse=1"
						c.Count("app:ref-reused")
					}
					e.seen[ref] = true
					e.refs[s] = ref
					if hh != nil || fh != nil {
						th := trackedHist{h: hh, fh: fh}
						th.n = nb(th)
						t.hists = append(t.hists, th)
					}
				}
				c.Count("app:" + f[4] + ":" + strings.SplitN(strings.Fields(out)[0], ":", 2)[0])
			case "commit", "rollback":
				a, ok := slot(1)
				if !ok {
					return
				}
				t := e.txs[a]
				if t == nil {
					out = "noapp"
					return
				}
				var err error
				switch {
				case f[0] == "commit" && t.v1 != nil:
					err = t.v1.Commit()
				case f[0] == "commit":
					err = t.v2.Commit()
				case t.v1 != nil:
					err = t.v1.Rollback()
				default:
					err = t.v2.Rollback()
				}
				e.txs[a] = nil
				out = errClass(err)
				if f[0] == "commit" {
					// The head may widen a histogram it was handed IN PLACE (buckets the open chunk has and the
					// sample lacks); report how many of this transaction's histograms changed their bucket count.
					exp := 0
					for _, th := range t.hists {
						if nb(th) != th.n {
							exp++
						}
					}
					out += fmt.Sprintf(" expanded=%d", exp)
					if exp > 0 {
						c.Count("commit:expanded-in-place")
					}
				}
			case "del":
				if len(f) < 4 {
					return
				}
				mint, _ := strconv.ParseInt(f[1], 10, 64)
				maxt, _ := strconv.ParseInt(f[2], 10, 64)
				m := labels.MustNewMatcher(labels.MatchEqual, "__name__", "m")
				if f[3] != "*" {
					m = labels.MustNewMatcher(labels.MatchEqual, "s", f[3])
				}
				out = errClass(e.db.Delete(context.Background(), mint, maxt, m))
			case "compact", "compacthead", "compactooo":
				// Compact waits for overlapping appenders; in a single-threaded history that would never end.
				if e.anyOpen() {
					out = "skipped-open-appenders"
					return
				}
				hd := e.db.Head()
				switch f[0] {
				case "compact":
					out = errClass(e.db.Compact(context.Background()))
				case "compactooo":
					out = errClass(e.db.CompactOOOHead(context.Background()))
				default:
					if len(f) < 2 {
						return
					}
					maxt, _ := strconv.ParseInt(f[1], 10, 64)
					if hd.MinTime() > maxt || hd.MinTime() == math.MaxInt64 {
						out = "skipped-empty-range"
						return
					}
					out = errClass(e.db.CompactHead(tsdb.NewRangeHead(hd, hd.MinTime(), maxt)))
				}
				c.Count(fmt.Sprintf("blocks-after-%s:%d", f[0], min(len(e.db.Blocks()), 5)))
			case "stalecompact":
				if e.anyOpen() {
					out = "skipped-open-appenders"
					return
				}
				before := e.db.Head().NumSeries()
				out = errClass(e.db.CompactStaleHead())
				c.Count(fmt.Sprintf("stalecompact:evicted:%d", min(int(before-e.db.Head().NumSeries()), 3)))
			case "selcompact":
				if e.anyOpen() {
					out = "skipped-open-appenders"
					return
				}
				if len(f) < 2 {
					return
				}
				var refs []storage.SeriesRef
				for _, x := range strings.Split(f[1], ",") {
					s, err := strconv.Atoi(x)
					if err != nil {
						continue
					}
					if r, ok := e.refs[s]; ok {
						refs = append(refs, r)
					}
				}
				before := e.db.Head().NumSeries()
				out = errClass(e.db.CompactSelectedSeries(refs))
				c.Count(fmt.Sprintf("selcompact:evicted:%d", min(int(before-e.db.Head().NumSeries()), 3)))
			case "mmap":
				e.db.ForceHeadMMap()
				out = "ok"
			case "reopen":
				e.rollbackAll()
				// a chunk snapshot holds one head chunk per series that has one
				snapHeads, from := 0, "wal"
				for _, s := range tsdb.VerifCountersWalk(e.db.Head()) {
					if s.HeadChunks > 0 {
						snapHeads++
					}
				}
				if err := e.db.Close(); err != nil {
					out = "err:close:" + clean(err.Error())
					e.db = nil
					return
				}
				e.db = nil
				if len(f) < 2 || f[1] != "snap" {
					ms, _ := filepath.Glob(filepath.Join(e.dir, "chunk_snapshot.*"))
					for _, m := range ms {
						os.RemoveAll(m)
					}
					snapHeads = 0
				} else if ms, _ := filepath.Glob(filepath.Join(e.dir, "chunk_snapshot.*")); len(ms) > 0 {
					c.Count("reopen:from-snapshot")
					from = "snap"
				} else {
					snapHeads = 0
				}
				if err := e.open(); err != nil {
					out = "err:" + clean(err.Error())
				} else {
					out = fmt.Sprintf("ok from=%s snapheads=%d", from, snapHeads)
				}
			}
		})
		if p {
			out = "panic:" + clean(fmt.Sprint(pv))
			c.Count("panic")
		}
		obs := ""
		if !strings.HasPrefix(out, "panic") {
			p2, pv2 := h.Try(func() { obs = e.observe() })
			if p2 {
				obs = "panic:observe:" + clean(fmt.Sprint(pv2))
			}
		}
		c.Count("op:" + f[0])
		c.Op(op+" | "+out+" "+obs, "-")
	}
}

// ---------------------------------------------------------------- generator

const staleBits = "7ff0000000000002"

type genCfg struct {
	cr, ooo  int64
	spc      int
	snap, v2 bool
	prone    bool // gauge-typed histograms and empty buckets: the head widens such samples in place (finding C52-F2)
}

func (g genCfg) line() string {
	b := func(x bool) int {
		if x {
			return 1
		}
		return 0
	}
	return fmt.Sprintf("cfg %d %d %d %d %d", g.cr, g.ooo, g.spc, b(g.snap), b(g.v2))
}

// sampleTok renders "<kind> <P> <N> <x>" for one sample.
func sampleTok(r *h.Rng, kind string, prone bool) string {
	if kind == "f" {
		vals := []string{"3ff0000000000000", "4000000000000000", "7ff8000000000001", staleBits, "8000000000000000", "0000000000000000"}
		v := vals[r.Intn(len(vals))]
		if r.Chance(50) {
			v = fmt.Sprintf("%016x", math.Float64bits(float64(r.Intn(1000))))
		}
		return "f 0 0 " + v
	}
	P, N := r.Intn(7), r.Intn(4)
	if r.Chance(10) {
		P, N = 0, 0
	}
	x := r.Intn(4) + 4*r.Intn(3) + 24*r.Intn(3)
	if prone {
		// one layout family per case, so that a sample often lacks buckets the open chunk has
		x = 24 * r.Intn(3)
		if r.Chance(30) {
			x += 12
		}
	}
	return fmt.Sprintf("%s %d %d %d", kind, P, N, x)
}

func pickKind(r *h.Rng, cur string, prone bool) string {
	if cur != "" && r.Chance(70) {
		return cur
	}
	kinds := []string{"f", "f", "h", "h", "fh", "fh", "hs", "fhs"}
	if prone {
		kinds = []string{"f", "h", "fh", "hs", "hg", "hg", "hg", "hg", "fhg", "fhg", "fhg", "fhg"}
	}
	return kinds[r.Intn(len(kinds))]
}

// directed histories for the mechanisms around WAL replay, overlapping appenders and eviction.
func directed(r *h.Rng, k int) []string {
	kinds := []string{"h", "fh"}
	hk := kinds[r.Intn(2)]
	hk2 := kinds[r.Intn(2)]
	P1, P2 := 4+r.Intn(4), 1+r.Intn(3)
	x1, x2 := 4*r.Intn(3), 4*r.Intn(3)
	g := genCfg{cr: h.PickI64(r, []int64{1000, 7200000}), spc: []int{4, 16, 120}[r.Intn(3)], v2: r.Chance(40)}
	restart := "reopen wal"
	var ops []string
	smp := func(kind string, P, x int) string {
		if kind == "f" {
			return "f 0 0 " + fmt.Sprintf("%016x", math.Float64bits(float64(1+r.Intn(9))))
		}
		if kind == "fs" {
			return "f 0 0 " + staleBits
		}
		return fmt.Sprintf("%s %d %d %d", kind, P, r.Intn(2), x)
	}
	one := func(a int, s int, t int64, tok string) []string {
		return []string{fmt.Sprintf("begin %d", a), fmt.Sprintf("app %d %d %d %s", a, s, t, tok), fmt.Sprintf("commit %d", a)}
	}
	switch k % 9 {
	case 0, 1:
		// an out-of-order sample of another kind / bucket count is accepted under the OOO window, logged
		// to the WAL after the newer sample, and must be skipped by replay without touching the gauges
		g.ooo = g.cr / 2
		first, second := smp(hk, P1, x1), smp(hk2, P2, x2)
		switch r.Intn(4) {
		case 0:
			second = smp("f", 0, 0)
		case 1:
			first = smp("f", 0, 0)
		case 2:
			second = smp("fs", 0, 0)
		}
		ops = append(ops, g.line())
		ops = append(ops, one(0, 0, 500, first)...)
		if r.Chance(50) {
			ops = append(ops, one(0, 1, 480, smp("f", 0, 0))...)
		}
		ops = append(ops, one(0, 0, 300+r.Range(0, 150), second)...)
		if k%9 == 1 {
			g.snap = true
			ops[0] = g.line()
			ops = append(ops, "reopen snap")
			ops = append(ops, one(0, 0, 400, smp(hk2, P2+1, x2))...)
		}
		ops = append(ops, restart)
	case 2, 3:
		// two overlapping appenders commit in the reverse order of their timestamps (with and without OOO window)
		if k%9 == 3 {
			g.ooo = g.cr / 2
		}
		older, newer := smp(hk, P1, x1), smp("f", 0, 0)
		switch r.Intn(3) {
		case 0:
			newer = smp(hk2, P2, x2)
		case 1:
			older, newer = smp("f", 0, 0), smp(hk2, P2, x2)
		}
		ops = append(ops, g.line())
		// the series exists before the two appenders open (otherwise the first committer's samples precede the
		// series record in the WAL: finding C52-F5)
		ops = append(ops, one(0, 0, 100, smp([]string{"f", hk}[r.Intn(2)], P2, x1))...)
		ops = append(ops, "begin 0", fmt.Sprintf("app 0 0 200 %s", older), "begin 1", fmt.Sprintf("app 1 0 300 %s", newer))
		if r.Chance(30) {
			ops = append(ops, "begin 2", fmt.Sprintf("app 2 0 250 %s", smp(hk2, P2+2, x2)), "commit 1", "commit 2", "commit 0")
		} else {
			ops = append(ops, "commit 1", "commit 0")
		}
		ops = append(ops, restart)
	case 4:
		// type switches and staleness markers of each kind, then snapshot restart and WAL restart
		g.snap = true
		ops = append(ops, g.line())
		t := int64(100)
		seq := []string{hk, "fs", "f", hk2, hk, "fs", hk2 + "s", "f", "fs", hk}
		for i, kd := range seq {
			ops = append(ops, one(0, 0, t, smp(kd, 1+(i*3)%6, x1))...)
			ops = append(ops, one(0, 1, t, smp(seq[(i+3)%len(seq)], 1+(i*5)%6, x2))...)
			t += 10
			if i == 4 {
				ops = append(ops, "reopen snap")
			}
			if i == 7 {
				ops = append(ops, "mmap", "reopen wal")
			}
		}
		ops = append(ops, "reopen snap", restart)
	case 5:
		// stale-series eviction of float-, histogram- and float-histogram-stale series, then restart
		ops = append(ops, g.line())
		ops = append(ops, one(0, 0, 100, smp(hk, P1, x1))...)
		ops = append(ops, one(0, 1, 100, smp("f", 0, 0))...)
		ops = append(ops, one(0, 2, 100, smp(hk2, P2, x2))...)
		ops = append(ops, one(0, 3, 100, smp(hk2, P2, x2))...)
		ops = append(ops, one(0, 0, 200, smp("fs", 0, 0))...)
		ops = append(ops, one(0, 1, 200, smp("fs", 0, 0))...)
		ops = append(ops, one(0, 2, 200, smp(hk2+"s", P1, x2))...)
		ops = append(ops, "stalecompact", restart)
		ops = append(ops, one(0, 0, 300, smp(hk, P2, x1))...)
		ops = append(ops, restart)
	case 6:
		// selected-series eviction, re-creation of an evicted series, restart
		ops = append(ops, g.line())
		ops = append(ops, one(0, 0, 100, smp(hk, P1, x1))...)
		ops = append(ops, one(0, 1, 110, smp(hk2, P2, x2))...)
		ops = append(ops, one(0, 2, 120, smp("f", 0, 0))...)
		ops = append(ops, "selcompact 0,2")
		ops = append(ops, one(0, 0, 130, smp([]string{"f", hk2}[r.Intn(2)], P2, x2))...)
		ops = append(ops, restart, "selcompact 1", restart)
	case 7:
		// gauge-typed histograms whose bucket set shrinks and grows inside one chunk (in-place widening,
		// finding C52-F2), then a type switch and a restart
		gk := []string{"hg", "fhg"}[r.Intn(2)]
		ops = append(ops, g.line())
		for i, P := range []int{5, 2, 5, 2, 1} {
			ops = append(ops, one(0, 0, int64(100+10*i), fmt.Sprintf("%s %d 0 0", gk, P))...)
		}
		ops = append(ops, one(0, 0, 200, smp("f", 0, 0))...)
		ops = append(ops, restart)
	default:
		// head truncation of histogram series (CompactHead at an arbitrary time) and OOO compaction
		g.ooo = g.cr
		ops = append(ops, g.line())
		for i := int64(0); i < 6; i++ {
			ops = append(ops, one(0, 0, 1000+i*g.cr/2, smp(hk, 1+int(i)%5, x1))...)
			if i < 3 {
				ops = append(ops, one(0, 1, 1000+i*10, smp(hk2, P2, x2))...)
			}
		}
		ops = append(ops, one(0, 0, 1000+2*g.cr, smp(hk2, P2, x2))...) // out of order
		ops = append(ops, fmt.Sprintf("compacthead %d", 1000+g.cr), "compactooo", restart, "compact", restart)
	}
	return ops
}

func gen(c *h.Ctx, r *h.Rng, maxOps int) []string {
	g := genCfg{cr: h.PickI64(r, []int64{100, 1000, 7200000}), spc: []int{2, 4, 16, 120}[r.Intn(4)],
		snap: r.Chance(40), v2: r.Chance(35), prone: r.Chance(12)}
	if r.Chance(55) {
		g.ooo = []int64{g.cr / 2, g.cr, 10 * g.cr}[r.Intn(3)]
	}
	cr := g.cr
	ops := []string{g.line()}
	nser := 1 + r.Intn(4)
	base := []int64{0, -cr * 3, cr * 10, -7, 1}[r.Intn(5)]
	cur := base
	step := []int64{1, cr / 10, cr / 3, cr - 1, cr, cr + 1}[r.Intn(6)]
	if step <= 0 {
		step = 1
	}
	open := [nSlots]bool{}
	anyOpen := func() bool { return open[0] || open[1] || open[2] }
	closeAll := func() {
		for a := range open {
			if open[a] {
				if r.Chance(85) {
					ops = append(ops, fmt.Sprintf("commit %d", a))
				} else {
					ops = append(ops, fmt.Sprintf("rollback %d", a))
				}
				open[a] = false
			}
		}
	}
	curKind := map[int]string{}
	pickT := func() int64 {
		k := r.Intn(10)
		switch {
		case k == 0 || (g.ooo > 0 && k <= 3):
			if g.ooo > 0 && r.Chance(70) {
				return cur - r.Range(1, max(g.ooo, 1)) - r.Range(0, 2)
			}
			return cur - r.Range(0, 3)*step
		case k == 4:
			return cur
		case k == 5:
			b := (cur/cr + 1) * cr
			return b + r.Range(-1, 1)
		default:
			cur += r.Range(0, 2) * step
			if r.Chance(30) {
				cur += r.Range(0, 3)
			}
			return cur
		}
	}
	n := 8 + r.Intn(maxOps)
	for len(ops) < n {
		k := r.Intn(100)
		switch {
		case k < 52:
			// appends in one of up to three overlapping appenders
			a := 0
			if r.Chance(35) {
				a = r.Intn(nSlots)
			}
			if !open[a] {
				ops = append(ops, fmt.Sprintf("begin %d", a))
				open[a] = true
			}
			cnt := 1 + r.Intn(4)
			for i := 0; i < cnt; i++ {
				si := r.Intn(nser)
				kd := pickKind(r, curKind[si], g.prone)
				curKind[si] = kd
				ops = append(ops, fmt.Sprintf("app %d %d %d %s", a, si, pickT(), sampleTok(r, kd, g.prone)))
			}
			if r.Chance(55) {
				// close one open appender (not necessarily the one just used: reverse commit orders)
				var os_ []int
				for b := range open {
					if open[b] {
						os_ = append(os_, b)
					}
				}
				b := os_[r.Intn(len(os_))]
				if r.Chance(88) {
					ops = append(ops, fmt.Sprintf("commit %d", b))
				} else {
					ops = append(ops, fmt.Sprintf("rollback %d", b))
				}
				open[b] = false
			}
		case k < 57:
			a, b := cur-r.Range(0, 5)*step, cur+r.Range(0, 2)
			if r.Chance(20) {
				a, b = math.MinInt64, math.MaxInt64
			}
			tgt := "*"
			if r.Chance(70) {
				tgt = strconv.Itoa(r.Intn(nser))
			}
			ops = append(ops, fmt.Sprintf("del %d %d %s", a, b, tgt))
		case k < 62:
			closeAll()
			ops = append(ops, "compact")
		case k < 67:
			closeAll()
			ops = append(ops, fmt.Sprintf("compacthead %d", cur-r.Range(0, 4)*step+r.Range(-1, 1)))
		case k < 70:
			closeAll()
			ops = append(ops, "compactooo")
		case k < 75:
			closeAll()
			// make some series stale first, with the marker type the series calls for
			for si := 0; si < nser; si++ {
				if r.Chance(50) {
					cur += r.Range(1, 2)
					tok := "f 0 0 " + staleBits
					if r.Chance(25) {
						tok = sampleTok(r, []string{"hs", "fhs"}[r.Intn(2)], false)
					}
					ops = append(ops, "begin 0", fmt.Sprintf("app 0 %d %d %s", si, cur, tok), "commit 0")
				}
			}
			ops = append(ops, "stalecompact")
		case k < 80:
			closeAll()
			var sel []string
			for si := 0; si < nser; si++ {
				if r.Chance(50) {
					sel = append(sel, strconv.Itoa(si))
				}
			}
			if len(sel) == 0 {
				sel = []string{"0"}
			}
			ops = append(ops, "selcompact "+strings.Join(sel, ","))
		case k < 83:
			ops = append(ops, "mmap")
		case k < 93:
			if anyOpen() && r.Chance(70) {
				closeAll()
			}
			for a := range open {
				open[a] = false
			}
			if g.snap && r.Chance(60) {
				ops = append(ops, "reopen snap")
			} else {
				ops = append(ops, "reopen wal")
			}
		default:
			// a fresh appender that is closed without appending
			for a := range open {
				if !open[a] {
					ops = append(ops, fmt.Sprintf("begin %d", a), []string{"commit", "rollback"}[r.Intn(2)]+fmt.Sprintf(" %d", a))
					break
				}
			}
		}
	}
	closeAll()
	ops = append(ops, "reopen wal")
	if g.prone {
		c.Count("gen:expansion-prone-case")
	}
	if g.ooo > 0 {
		c.Count("gen:ooo-window")
	}
	return ops
}

func main() {
	c := h.Init()
	defer c.Finish()
	if c.Replay != "" {
		for _, cs := range c.ReplayCases() {
			c.Case(strings.TrimPrefix(cs[0], "case "))
			runCase(c, cs[1:])
		}
		return
	}
	maxOps := 45
	nd := 18
	if c.Tier == "thorough" {
		maxOps = 70
		nd = c.N / 4
	}
	for i := 0; i < c.N; i++ {
		r := c.Rng.Fork()
		var ops []string
		id := fmt.Sprintf("h%d", i)
		if i < nd {
			ops = directed(r, i)
			id = fmt.Sprintf("d%d", i)
			c.Count(fmt.Sprintf("gen:directed:%d", i%9))
		} else {
			ops = gen(c, r, maxOps)
		}
		c.Case(id)
		c.NonTrivial(strings.Join(ops, ";"))
		runCase(c, ops)
	}
}
