// Suite histarith (C31): native histogram arithmetic of model/histogram on generated VALID histograms:
// FloatHistogram.Add / Sub / KahanAdd / Mul / Div / Compact / ReduceResolution / CopyToSchema / DetectReset and
// Histogram.ToFloat, observed through the bucket iterators (canonical sparse map index -> count).
//
// Numbers travel as exact rationals ("7", "-3/4"); the generator only draws small integers and dyadic
// fractions so that every binary64 operation involved is exact.  Zero thresholds travel as *positions*:
// `z` = 0.0, `2k` = the schema-8 bucket boundary 2^(k/256) (obtained from the real bucket iterator),
// `2k+1` = a float strictly between the boundaries k and k+1.  All bucket boundaries of all schemas
// (-4..8) sit on even positions, so every threshold/boundary comparison the code makes is decided by
// integer positions.
package main

import (
	"fmt"
	"math"
	"math/big"
	"sort"
	"strconv"
	"strings"

	"github.com/prometheus/prometheus/model/histogram"

	"verif/harness/h"
)

// ---------------------------------------------------------------- numbers

func ratStr(x float64) string {
	if math.IsNaN(x) {
		return "nan"
	}
	if math.IsInf(x, 1) {
		return "+inf"
	}
	if math.IsInf(x, -1) {
		return "-inf"
	}
	if x == 0 {
		return "0" // also -0
	}
	r := new(big.Rat)
	r.SetFloat64(x)
	return r.RatString()
}

func parseRat(s string) float64 {
	r, ok := new(big.Rat).SetString(s)
	if !ok {
		panic("bad rational " + s)
	}
	f, _ := r.Float64()
	return f
}

// bound8 returns the schema-8 boundary with index k as the real iterator computes it.
func bound8(k int32) float64 {
	fh := histogram.FloatHistogram{Schema: 8, PositiveSpans: []histogram.Span{{Offset: k, Length: 1}}, PositiveBuckets: []float64{1}}
	it := fh.PositiveBucketIterator()
	it.Next()
	return it.At().Upper
}

func ztFloat(s string) float64 {
	if s == "z" {
		return 0
	}
	p, err := strconv.ParseInt(s, 10, 32)
	if err != nil {
		panic(err)
	}
	k := int32(p >> 1) // floor
	if p&1 == 0 {
		return bound8(k)
	}
	lo, hi := bound8(k), bound8(k+1)
	return lo + (hi-lo)/2
}

// ztPos maps a float threshold back to its position ("?<bits>" if it is outside the supported range).
func ztPos(x float64) string {
	if x == 0 {
		return "z"
	}
	if x < 0 || math.IsNaN(x) || math.IsInf(x, 0) {
		return fmt.Sprintf("?%016x", math.Float64bits(x))
	}
	k := int32(math.Floor(math.Log2(x) * 256))
	for d := int32(-2); d <= 2; d++ {
		kk := k + d
		lo, hi := bound8(kk), bound8(kk+1)
		if x == lo {
			return strconv.Itoa(int(2 * kk))
		}
		if lo < x && x < hi {
			return strconv.Itoa(int(2*kk + 1))
		}
	}
	return fmt.Sprintf("?%016x", math.Float64bits(x))
}

// ---------------------------------------------------------------- histogram tokens
// hint;schema;zt;zc;count;sum;pspans;pbuckets;nspans;nbuckets;cv

func spansStr(sp []histogram.Span) string {
	if len(sp) == 0 {
		return "-"
	}
	parts := make([]string, len(sp))
	for i, s := range sp {
		parts[i] = fmt.Sprintf("%d:%d", s.Offset, s.Length)
	}
	return strings.Join(parts, ",")
}

func floatsStr(xs []float64) string {
	if len(xs) == 0 {
		return "-"
	}
	parts := make([]string, len(xs))
	for i, x := range xs {
		parts[i] = ratStr(x)
	}
	return strings.Join(parts, ",")
}

func intsStr(xs []int64) string {
	if len(xs) == 0 {
		return "-"
	}
	parts := make([]string, len(xs))
	for i, x := range xs {
		parts[i] = strconv.FormatInt(x, 10)
	}
	return strings.Join(parts, ",")
}

func parseSpans(s string) []histogram.Span {
	if s == "-" {
		return nil
	}
	var out []histogram.Span
	for _, p := range strings.Split(s, ",") {
		ab := strings.Split(p, ":")
		o, _ := strconv.ParseInt(ab[0], 10, 32)
		l, _ := strconv.ParseUint(ab[1], 10, 32)
		out = append(out, histogram.Span{Offset: int32(o), Length: uint32(l)})
	}
	return out
}

func parseFloats(s string) []float64 {
	if s == "-" {
		return nil
	}
	var out []float64
	for _, p := range strings.Split(s, ",") {
		out = append(out, parseRat(p))
	}
	return out
}

func parseInts(s string) []int64 {
	if s == "-" {
		return nil
	}
	var out []int64
	for _, p := range strings.Split(s, ",") {
		v, _ := strconv.ParseInt(p, 10, 64)
		out = append(out, v)
	}
	return out
}

func fhToken(f *histogram.FloatHistogram) string {
	return fmt.Sprintf("%d;%d;%s;%s;%s;%s;%s;%s;%s;%s;%s", f.CounterResetHint, f.Schema, ztPos(f.ZeroThreshold), ratStr(f.ZeroCount),
		ratStr(f.Count), ratStr(f.Sum), spansStr(f.PositiveSpans), floatsStr(f.PositiveBuckets), spansStr(f.NegativeSpans),
		floatsStr(f.NegativeBuckets), floatsStr(f.CustomValues))
}

func parseFH(tok string) *histogram.FloatHistogram {
	f := strings.Split(tok, ";")
	if len(f) != 11 {
		panic("bad histogram token " + tok)
	}
	hint, _ := strconv.Atoi(f[0])
	schema, _ := strconv.Atoi(f[1])
	return &histogram.FloatHistogram{
		CounterResetHint: histogram.CounterResetHint(hint), Schema: int32(schema), ZeroThreshold: ztFloat(f[2]),
		ZeroCount: parseRat(f[3]), Count: parseRat(f[4]), Sum: parseRat(f[5]),
		PositiveSpans: parseSpans(f[6]), PositiveBuckets: parseFloats(f[7]),
		NegativeSpans: parseSpans(f[8]), NegativeBuckets: parseFloats(f[9]), CustomValues: parseFloats(f[10]),
	}
}

func ihToken(x *histogram.Histogram) string {
	return fmt.Sprintf("%d;%d;%s;%d;%d;%s;%s;%s;%s;%s;%s", x.CounterResetHint, x.Schema, ztPos(x.ZeroThreshold), x.ZeroCount,
		x.Count, ratStr(x.Sum), spansStr(x.PositiveSpans), intsStr(x.PositiveBuckets), spansStr(x.NegativeSpans),
		intsStr(x.NegativeBuckets), floatsStr(x.CustomValues))
}

func parseIH(tok string) *histogram.Histogram {
	f := strings.Split(tok, ";")
	if len(f) != 11 {
		panic("bad histogram token " + tok)
	}
	hint, _ := strconv.Atoi(f[0])
	schema, _ := strconv.Atoi(f[1])
	zc, _ := strconv.ParseUint(f[3], 10, 64)
	cnt, _ := strconv.ParseUint(f[4], 10, 64)
	return &histogram.Histogram{
		CounterResetHint: histogram.CounterResetHint(hint), Schema: int32(schema), ZeroThreshold: ztFloat(f[2]),
		ZeroCount: zc, Count: cnt, Sum: parseRat(f[5]),
		PositiveSpans: parseSpans(f[6]), PositiveBuckets: parseInts(f[7]),
		NegativeSpans: parseSpans(f[8]), NegativeBuckets: parseInts(f[9]), CustomValues: parseFloats(f[10]),
	}
}

// ---------------------------------------------------------------- observation through the iterators

type ic struct {
	idx int32
	cnt float64
}

func drain(it histogram.BucketIterator[float64]) []ic {
	var out []ic
	for n := 0; it.Next() && n < 100000; n++ {
		b := it.At()
		out = append(out, ic{b.Index, b.Count})
	}
	return out
}

// sparse renders the non-empty buckets sorted by index; ok=false if the iterator was not strictly increasing.
func sparse(bs []ic) (string, bool) {
	ok := true
	for i := 1; i < len(bs); i++ {
		if bs[i].idx <= bs[i-1].idx {
			ok = false
		}
	}
	cp := append([]ic{}, bs...)
	sort.SliceStable(cp, func(i, j int) bool { return cp[i].idx < cp[j].idx })
	var parts []string
	for _, b := range cp {
		if b.cnt != 0 {
			parts = append(parts, fmt.Sprintf("%d:%s", b.idx, ratStr(b.cnt)))
		}
	}
	if len(parts) == 0 {
		return "-", ok
	}
	return strings.Join(parts, ","), ok
}

// view is the canonical observable of a float histogram: header fields and the sparse bucket maps as the
// forward iterators enumerate them; `it=1` says that the reverse and the all-bucket iterators enumerate
// the same buckets (and the zero bucket iff its count is positive).
func view(f *histogram.FloatHistogram) string {
	pos := drain(f.PositiveBucketIterator())
	var neg []ic
	if !f.UsesCustomBuckets() {
		neg = drain(f.NegativeBucketIterator())
	}
	ps, ok1 := sparse(pos)
	ns, ok2 := sparse(neg)
	itok := ok1 && ok2
	// cross-check the other iterators
	rev := drain(f.PositiveReverseBucketIterator())
	if len(rev) != len(pos) {
		itok = false
	} else {
		for i := range rev {
			if rev[len(rev)-1-i] != pos[i] {
				itok = false
			}
		}
	}
	if !f.UsesCustomBuckets() {
		all := f.AllBucketIterator()
		var seq []ic
		for n := 0; all.Next() && n < 100000; n++ {
			b := all.At()
			seq = append(seq, ic{b.Index, b.Count})
		}
		var want []ic
		for i := len(neg) - 1; i >= 0; i-- {
			want = append(want, neg[i])
		}
		if f.ZeroCount > 0 {
			want = append(want, ic{0, f.ZeroCount})
		}
		want = append(want, pos...)
		if len(seq) != len(want) {
			itok = false
		} else {
			for i := range seq {
				if seq[i] != want[i] {
					itok = false
				}
			}
		}
	}
	it := "1"
	if !itok {
		it = "0"
	}
	return fmt.Sprintf("h=%d s=%d zt=%s zc=%s c=%s sum=%s P=%s N=%s cv=%s it=%s", f.CounterResetHint, f.Schema, ztPos(f.ZeroThreshold),
		ratStr(f.ZeroCount), ratStr(f.Count), ratStr(f.Sum), ps, ns, floatsStr(f.CustomValues), it)
}

func b01(b bool) string {
	if b {
		return "1"
	}
	return "0"
}

func errClass(err error) string {
	switch {
	case err == nil:
		return "nil"
	case strings.Contains(err.Error(), "mix of exponential and custom"):
		return "incompatible"
	case strings.Contains(err.Error(), "cannot reduce resolution"):
		return "reduce"
	default:
		return "other"
	}
}

// ---------------------------------------------------------------- ops

func runOp(c *h.Ctx, op string) string {
	f := strings.Fields(op)
	out := ""
	panicked, _ := h.Try(func() {
		switch f[0] {
		case "add", "sub", "kadd":
			a, b := parseFH(f[1]), parseFH(f[2])
			bBefore := fhToken(b)
			var res *histogram.FloatHistogram
			var crc, nhcb bool
			var err error
			extra := ""
			switch f[0] {
			case "add":
				res, crc, nhcb, err = a.Add(b)
			case "sub":
				res, crc, nhcb, err = a.Sub(b)
			default:
				var comp *histogram.FloatHistogram
				comp, crc, nhcb, err = a.KahanAdd(b, nil)
				res = a
				if err == nil {
					z := comp.ZeroCount == 0 && comp.Count == 0 && comp.Sum == 0
					for _, v := range comp.PositiveBuckets {
						z = z && v == 0
					}
					for _, v := range comp.NegativeBuckets {
						z = z && v == 0
					}
					extra = " comp0=" + b01(z)
				}
			}
			if err != nil {
				out = "err " + errClass(err)
				c.Count("err:" + errClass(err))
				return
			}
			if res != a && f[0] != "kadd" {
				out = "notreceiver"
				return
			}
			out = "ok " + view(res) + " crc=" + b01(crc) + " nhcb=" + b01(nhcb) + " other=" + b01(fhToken(b) == bBefore) + extra
			if nhcb {
				c.Count("nhcb-reconciled")
			}
		case "compact":
			m, _ := strconv.Atoi(f[1])
			a := parseFH(f[2])
			a.Compact(m)
			out = "ok " + view(a) + " PS=" + spansStr(a.PositiveSpans) + " PB=" + floatsStr(a.PositiveBuckets) +
				" NS=" + spansStr(a.NegativeSpans) + " NB=" + floatsStr(a.NegativeBuckets)
		case "reduce":
			t, _ := strconv.Atoi(f[1])
			a := parseFH(f[2])
			if err := a.ReduceResolution(int32(t)); err != nil {
				out = "err " + errClass(err)
				c.Count("err:" + errClass(err))
				return
			}
			out = "ok " + view(a)
		case "copyto":
			t, _ := strconv.Atoi(f[1])
			a := parseFH(f[2])
			before := fhToken(a)
			r := a.CopyToSchema(int32(t))
			out = "ok " + view(r) + " src=" + b01(fhToken(a) == before)
		case "mul", "div":
			x := parseRat(f[1])
			a := parseFH(f[2])
			if f[0] == "mul" {
				a.Mul(x)
			} else {
				a.Div(x)
			}
			out = "ok " + view(a)
		case "tofloat":
			ih := parseIH(f[1])
			before := ihToken(ih)
			r := ih.ToFloat(nil)
			out = "ok " + view(r) + " src=" + b01(ihToken(ih) == before)
		case "reset":
			cur, prev := parseFH(f[1]), parseFH(f[2])
			cb, pb := fhToken(cur), fhToken(prev)
			r := cur.DetectReset(prev)
			out = strconv.FormatBool(r) + " src=" + b01(fhToken(cur) == cb && fhToken(prev) == pb)
			c.Count("reset:" + strconv.FormatBool(r))
		default:
			out = "bad-op"
		}
	})
	if panicked {
		c.Count("panic:" + f[0])
		return "panic"
	}
	return out
}

// ---------------------------------------------------------------- generator

type gen struct {
	r *h.Rng
	c *h.Ctx
}

// side draws spans/buckets of one sign around bucket index `base` (valid layout: later offsets >= 0;
// zero-length spans, adjacent spans (offset 0) and explicit empty buckets all occur).
func (g *gen) side(base int32, maxBuckets int) ([]histogram.Span, []float64) {
	r := g.r
	if r.Chance(12) {
		return nil, nil
	}
	n := 1 + r.Intn(4)
	var sp []histogram.Span
	var bs []float64
	total := 0
	for i := 0; i < n; i++ {
		off := int32(r.Intn(4))
		if r.Chance(10) {
			off = int32(r.Intn(12))
		}
		if i == 0 {
			off = base + int32(r.Range(-3, 3))
		}
		l := r.Intn(5)
		if r.Chance(25) {
			l = 1
		}
		if i == 0 && l == 0 && !r.Chance(20) {
			l = 1 + r.Intn(3) // an empty FIRST span is rare (it triggers finding F27 in addBuckets)
		}
		if maxBuckets >= 0 {
			// custom buckets: total offsets+lengths must stay within len(bounds)+1
			if i == 0 {
				off = int32(r.Intn(3))
			}
			if total+int(off)+l > maxBuckets {
				break
			}
			total += int(off) + l
		}
		sp = append(sp, histogram.Span{Offset: off, Length: uint32(l)})
		for j := 0; j < l; j++ {
			v := float64(0)
			if !r.Chance(28) {
				v = float64(1 + r.Intn(9))
				if r.Chance(8) {
					v += 0.5
				}
			}
			bs = append(bs, v)
		}
	}
	return sp, bs
}

func sum(xs []float64) float64 {
	t := 0.0
	for _, x := range xs {
		t += x
	}
	return t
}

// baseIdx returns the bucket index at `schema` of the region around 2^e.
func baseIdx(schema int32, e int32) int32 {
	if schema >= 0 {
		return e << uint(schema)
	}
	return e >> uint(-schema)
}

// pos of the upper boundary of bucket idx at schema (half steps of schema 8).
func bpos(idx, schema int32) int64 { return 2 * int64(idx) * (int64(1) << uint(8-schema)) }

// lowestPopulated returns the position of the lower boundary of the lowest populated bucket.
func lowestPopulated(f *histogram.FloatHistogram) (int64, bool) {
	best, ok := int64(0), false
	for _, side := range []struct {
		sp []histogram.Span
		bs []float64
	}{{f.PositiveSpans, f.PositiveBuckets}, {f.NegativeSpans, f.NegativeBuckets}} {
		idx, k := int32(0), 0
		for _, s := range side.sp {
			idx += s.Offset
			for j := 0; j < int(s.Length); j++ {
				if side.bs[k] != 0 {
					if p := bpos(idx-1, f.Schema); !ok || p < best {
						best, ok = p, true
					}
				}
				idx++
				k++
			}
		}
	}
	return best, ok
}

func (g *gen) zt(f *histogram.FloatHistogram, sp []histogram.Span, other []int64) string {
	r := g.r
	schema := f.Schema
	switch {
	case r.Chance(22):
		return "z"
	case r.Chance(12) && len(other) > 0:
		return strconv.FormatInt(other[r.Intn(len(other))], 10)
	}
	if lo, ok := lowestPopulated(f); ok && r.Chance(80) {
		// "sane": the zero bucket does not overlap a populated bucket
		p := lo
		switch r.Intn(5) {
		case 0:
		case 1:
			p -= bpos(int32(r.Intn(3)), schema)
		case 2:
			p -= int64(r.Intn(40))
		case 3:
			p -= bpos(1, schema) / 2 // a boundary of the next finer schema
		default:
			p -= 2 * int64(r.Intn(600))
		}
		return strconv.FormatInt(p, 10)
	}
	first := int32(0)
	if len(sp) > 0 {
		first = sp[0].Offset
	}
	idx := first + int32(r.Range(-3, 4))
	p := bpos(idx, schema)
	switch {
	case r.Chance(20):
		// strictly inside a bucket of this schema
		p -= 1 + 2*int64(r.Intn(1<<uint(8-schema)))
		if r.Chance(50) {
			p |= 1
		}
	case r.Chance(15):
		// a finer boundary (cuts through a bucket of this schema, but is a boundary at a finer schema)
		p -= bpos(1, schema) / 2
	}
	if p > 400000 {
		p = 400000
	}
	if p < -400000 {
		p = -400000
	}
	return strconv.FormatInt(p, 10)
}

var hints = []histogram.CounterResetHint{histogram.UnknownCounterReset, histogram.UnknownCounterReset, histogram.CounterReset, histogram.NotCounterReset, histogram.GaugeType}

// expo draws a valid exponential float histogram around 2^e.
func (g *gen) expo(e int32, otherZT []int64) *histogram.FloatHistogram {
	r := g.r
	schema := int32(r.Range(-4, 8))
	if r.Chance(15) {
		schema = int32(r.Range(-1, 3))
	}
	f := &histogram.FloatHistogram{Schema: schema, CounterResetHint: h.Pick(r, hints)}
	b := baseIdx(schema, e)
	f.PositiveSpans, f.PositiveBuckets = g.side(b, -1)
	f.NegativeSpans, f.NegativeBuckets = g.side(b+int32(r.Range(-2, 2)), -1)
	var sp []histogram.Span
	if r.Bool() {
		sp = f.PositiveSpans
	} else {
		sp = f.NegativeSpans
	}
	f.ZeroThreshold = ztFloat(g.zt(f, sp, otherZT))
	f.ZeroCount = float64(r.Intn(6))
	f.Count = f.ZeroCount + sum(f.PositiveBuckets) + sum(f.NegativeBuckets)
	if r.Chance(10) {
		f.Count += float64(r.Intn(3))
	}
	f.Sum = float64(r.Range(-40, 40)) / 4
	if err := f.Validate(); err != nil {
		panic("generator produced invalid histogram: " + err.Error() + " " + fhToken(f))
	}
	return f
}

var boundPool = []float64{-5, -2.5, -1, 0, 0.5, 1, 2.5, 5, 10, 25, 50, 100}

func (g *gen) bounds() []float64 {
	r := g.r
	var out []float64
	p := 25 + r.Intn(60)
	for _, b := range boundPool {
		if r.Chance(p) {
			out = append(out, b)
		}
	}
	return out
}

func (g *gen) custom(bounds []float64) *histogram.FloatHistogram {
	r := g.r
	f := &histogram.FloatHistogram{Schema: histogram.CustomBucketsSchema, CounterResetHint: h.Pick(r, hints), CustomValues: bounds}
	f.PositiveSpans, f.PositiveBuckets = g.side(0, len(bounds)+1)
	f.Count = sum(f.PositiveBuckets)
	f.Sum = float64(r.Range(-40, 40)) / 4
	if err := f.Validate(); err != nil {
		panic("generator produced invalid custom histogram: " + err.Error() + " " + fhToken(f))
	}
	return f
}

func ztOf(f *histogram.FloatHistogram) []int64 {
	s := ztPos(f.ZeroThreshold)
	if s == "z" {
		return nil
	}
	p, _ := strconv.ParseInt(s, 10, 64)
	return []int64{p}
}

// boundaryPositions lists positions of bucket boundaries around the histogram's populated buckets.
func boundaryPositions(f *histogram.FloatHistogram) []int64 {
	out := ztOf(f)
	for _, sp := range [][]histogram.Span{f.PositiveSpans, f.NegativeSpans} {
		idx := int32(0)
		for _, s := range sp {
			idx += s.Offset
			out = append(out, bpos(idx-1, f.Schema), bpos(idx, f.Schema))
			idx += int32(s.Length)
			out = append(out, bpos(idx-1, f.Schema))
		}
	}
	return out
}

func (g *gen) pair() (*histogram.FloatHistogram, *histogram.FloatHistogram) {
	r := g.r
	if r.Chance(25) {
		ba := g.bounds()
		bb := ba
		if r.Chance(60) {
			bb = g.bounds()
		}
		return g.custom(ba), g.custom(bb)
	}
	e := int32(r.Range(-5, 5))
	a := g.expo(e, nil)
	var b *histogram.FloatHistogram
	if r.Chance(4) {
		b = g.custom(g.bounds())
	} else {
		b = g.expo(e, boundaryPositions(a))
		if r.Chance(30) {
			b.ZeroThreshold = a.ZeroThreshold
		}
	}
	if r.Bool() {
		return b, a
	}
	return a, b
}

// intHist derives an integer histogram (delta buckets) from a float one with integer counts.
func intHist(f *histogram.FloatHistogram) *histogram.Histogram {
	x := &histogram.Histogram{CounterResetHint: f.CounterResetHint, Schema: f.Schema, ZeroThreshold: f.ZeroThreshold,
		ZeroCount: uint64(f.ZeroCount), Sum: f.Sum, PositiveSpans: f.PositiveSpans, NegativeSpans: f.NegativeSpans, CustomValues: f.CustomValues}
	conv := func(bs []float64) []int64 {
		var out []int64
		last := int64(0)
		for _, b := range bs {
			v := int64(b)
			out = append(out, v-last)
			last = v
			x.Count += uint64(v)
		}
		return out
	}
	x.PositiveBuckets = conv(f.PositiveBuckets)
	x.NegativeBuckets = conv(f.NegativeBuckets)
	x.Count += x.ZeroCount
	return x
}

// successor derives a "later scrape" of prev: counts grow (no reset) unless a mutation is applied.
func (g *gen) successor(prev *histogram.FloatHistogram) *histogram.FloatHistogram {
	r := g.r
	cur := prev.Copy()
	cur.CounterResetHint = h.Pick(r, []histogram.CounterResetHint{0, 0, 0, 0, 3, 1, 2})
	grow := func(bs []float64) {
		for i := range bs {
			if r.Chance(50) {
				bs[i] += float64(r.Intn(4))
			}
		}
	}
	grow(cur.PositiveBuckets)
	grow(cur.NegativeBuckets)
	if !cur.UsesCustomBuckets() {
		cur.ZeroCount += float64(r.Intn(3))
		// coarser resolution in the current histogram
		if r.Chance(35) && cur.Schema > -4 {
			cur = cur.CopyToSchema(cur.Schema - int32(1+r.Intn(int(cur.Schema+4))))
			cur.CounterResetHint = 0
		}
		// new buckets
		if r.Chance(40) {
			extra := g.expo(0, nil)
			extra.Schema = cur.Schema
			extra.ZeroThreshold = cur.ZeroThreshold
			extra.ZeroCount = 0
			b := int32(0)
			if len(cur.PositiveSpans) > 0 {
				b = cur.PositiveSpans[0].Offset
			}
			if len(extra.PositiveSpans) > 0 {
				extra.PositiveSpans[0].Offset = b + int32(r.Range(-3, 3))
			}
			if len(extra.NegativeSpans) > 0 {
				extra.NegativeSpans[0].Offset = b + int32(r.Range(-3, 3))
			}
			hint := cur.CounterResetHint
			h.Try(func() { // Add itself can panic (finding C31-F2)
				if res, _, _, err := cur.Copy().Add(extra); err == nil {
					cur = res
				}
			})
			cur.CounterResetHint = hint
		}
		// larger zero threshold in the current histogram
		if r.Chance(30) {
			pp := boundaryPositions(prev)
			if len(pp) > 0 {
				p := pp[r.Intn(len(pp))] + 2*int64(r.Range(-1, 2))*(int64(1)<<uint(8-prev.Schema))
				if r.Chance(25) {
					p += int64(r.Range(-3, 3))
				}
				cur.ZeroThreshold = ztFloat(strconv.FormatInt(p, 10))
				if r.Chance(70) {
					// fold what the wider zero bucket covers, as an instrumented process would
					cur.ZeroCount += float64(r.Intn(12))
				}
			}
		}
	} else if r.Chance(40) {
		// different custom bounds in the current histogram
		nb := g.bounds()
		n2 := g.custom(nb)
		if r.Chance(50) {
			// coarser: keep a subset of prev's bounds and re-bucket prev's counts, then grow
			var keep []float64
			for _, b := range prev.CustomValues {
				if r.Chance(60) {
					keep = append(keep, b)
				}
			}
			z := &histogram.FloatHistogram{Schema: histogram.CustomBucketsSchema, CustomValues: keep}
			h.Try(func() {
				if res, _, _, err := z.Add(prev); err == nil {
					res.CounterResetHint = 0
					n2 = res
					grow(n2.PositiveBuckets)
				}
			})
		}
		cur = n2
		cur.CounterResetHint = h.Pick(r, []histogram.CounterResetHint{0, 0, 0, 3})
	}
	// mutations that must (or must not) be seen as resets
	switch r.Intn(10) {
	case 0:
		if len(cur.PositiveBuckets) > 0 {
			i := r.Intn(len(cur.PositiveBuckets))
			if cur.PositiveBuckets[i] >= 1 {
				cur.PositiveBuckets[i]--
			}
		}
	case 1:
		if len(cur.NegativeBuckets) > 0 {
			i := r.Intn(len(cur.NegativeBuckets))
			if cur.NegativeBuckets[i] >= 1 {
				cur.NegativeBuckets[i]--
			}
		}
	case 2:
		if cur.ZeroCount >= 1 {
			cur.ZeroCount--
		}
	case 3:
		// drop the last span
		if n := len(cur.PositiveSpans); n > 0 {
			l := int(cur.PositiveSpans[n-1].Length)
			cur.PositiveSpans = cur.PositiveSpans[:n-1]
			cur.PositiveBuckets = cur.PositiveBuckets[:len(cur.PositiveBuckets)-l]
		}
	case 4:
		// shift the first span
		if len(cur.PositiveSpans) > 0 && !cur.UsesCustomBuckets() {
			cur.PositiveSpans[0].Offset += int32(r.Range(-2, 2))
		}
	}
	cur.Count = cur.ZeroCount + sum(cur.PositiveBuckets) + sum(cur.NegativeBuckets)
	switch r.Intn(12) {
	case 0:
		cur.Count = prev.Count - 1
		if cur.Count < 0 {
			cur.Count = 0
		}
	case 1:
		cur.Count = prev.Count
	}
	if r.Chance(5) && !cur.UsesCustomBuckets() && cur.Schema < 8 && cur.Schema == prev.Schema {
		cur.Schema++ // finer resolution: always a reset
	}
	if err := cur.Validate(); err != nil {
		return prev.Copy()
	}
	return cur
}

func main() {
	c := h.Init()
	defer c.Finish()
	if c.Replay != "" {
		for _, cs := range c.ReplayCases() {
			c.Case(strings.TrimPrefix(cs[0], "case "))
			for _, op := range cs[1:] {
				c.Op(op, runOp(c, op))
			}
		}
		return
	}
	// h.NewRng(seed+1) is h.NewRng(seed) shifted by one draw: fork once so that seeds give unrelated streams.
	c.Rng = c.Rng.Fork()
	g := &gen{r: c.Rng, c: c}
	r := c.Rng
	emit := func(id int, op string) {
		c.Case(fmt.Sprintf("g%d", id))
		c.NonTrivial(op)
		c.Count("op:" + strings.Fields(op)[0])
		c.Op(op, runOp(c, op))
	}
	for i := 0; i < c.N; i++ {
		switch k := r.Intn(100); {
		case k < 30:
			a, b := g.pair()
			if a.Schema != b.Schema {
				c.Count("pair:schemas-differ")
			}
			if a.ZeroThreshold != b.ZeroThreshold {
				c.Count("pair:zt-differ")
			}
			emit(i, fmt.Sprintf("add %s %s", fhToken(a), fhToken(b)))
		case k < 45:
			a, b := g.pair()
			emit(i, fmt.Sprintf("sub %s %s", fhToken(a), fhToken(b)))
		case k < 52:
			a, b := g.pair()
			emit(i, fmt.Sprintf("kadd %s %s", fhToken(a), fhToken(b)))
		case k < 62:
			a, _ := g.pair()
			m := r.Intn(4)
			if r.Chance(50) {
				m = 0
			}
			emit(i, fmt.Sprintf("compact %d %s", m, fhToken(a)))
		case k < 70:
			a := g.expo(int32(r.Range(-5, 5)), nil)
			t := a.Schema - int32(r.Range(1, 5))
			if t < -4 {
				t = -4
			}
			if r.Chance(8) {
				t = a.Schema + int32(r.Range(0, 2))
			}
			if r.Chance(50) {
				emit(i, fmt.Sprintf("reduce %d %s", t, fhToken(a)))
			} else {
				if t > a.Schema {
					t = a.Schema
				}
				emit(i, fmt.Sprintf("copyto %d %s", t, fhToken(a)))
			}
		case k < 74:
			a, _ := g.pair()
			x := h.Pick(r, []string{"2", "3", "1/2", "-1", "0", "1/4", "-2", "1"})
			op := "mul"
			if r.Bool() {
				op = "div"
				x = h.Pick(r, []string{"2", "1/2", "-1", "4", "-2", "1"})
			}
			emit(i, fmt.Sprintf("%s %s %s", op, x, fhToken(a)))
		case k < 80:
			a, _ := g.pair()
			for j := range a.PositiveBuckets {
				a.PositiveBuckets[j] = math.Floor(a.PositiveBuckets[j])
			}
			for j := range a.NegativeBuckets {
				a.NegativeBuckets[j] = math.Floor(a.NegativeBuckets[j])
			}
			emit(i, "tofloat "+ihToken(intHist(a)))
		default:
			prev, other := g.pair()
			var cur *histogram.FloatHistogram
			if r.Chance(12) {
				cur = other
			} else {
				cur = g.successor(prev)
			}
			emit(i, fmt.Sprintf("reset %s %s", fhToken(cur), fhToken(prev)))
		}
	}
}
