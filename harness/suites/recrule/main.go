// Suite recrule (C45): the real rules.Group / rules.RecordingRule evaluated against a real tsdb head
// through generated histories: repeated evaluations at generated timestamps with churning results,
// scripted query errors, duplicate label sets, limits, rule reloads (NewGroup + CopyState: rules added,
// removed, moved between groups, renamed, duplicated, reordered), group removal (the markStale path of
// Group.run), sequential and concurrent evaluation (the real RuleConcurrencyController /
// RuleDependencyController taken from rules.NewManager). The query function is either scripted or the
// real PromQL engine over the same storage (instant vector selectors), so that a rule reading an
// earlier rule's output of the same evaluation is observable.
//
// ops (tokens separated by one space):
//
//	load <gid> <queryOffset ns> <limit> <conc 0|1> <fast 0|1> <rules>
//	     rules = '-' | rule|rule|…      rule = name/rlabels/sels      rlabels = '-' | k=v,k=v
//	     sels = sel+sel…   sel = '='name | '!'name | '~'a:b | '*'   each optionally followed by &k=v
//	     (the expression is derived from sels: one selector → the selector, several → sum(S1)+count(S2)+…)
//	eval <gid> <ts ns> <scripts>         scripts = '-' | s|s|… one per rule: E (real engine) | X (query error) | V:<vec>
//	     vec = '-' | lbls@<float bits hex16>;…
//	remove <gid>                         run the group's loop, then stop it as a group that is no longer configured
//	put <t ms> <vec>                     the harness appends input samples
//	dump
//
// outputs:
//
//	load   -> seq | batches i,j/k/…            (conc: SplitGroupIntoBatches)
//	eval   -> ord=<ok|bad:…> r0=<status>:<results>:<markers> … c=<cleanup>
//	          status ok|qerr|dup|limit; results lbls@t@bits@err;… (sorted); markers lbls@t@err;… (sorted)
//	remove -> c=<markers> with t = 'now'
//	put    -> err,err,…
//	dump   -> lbls:t@bits,t@bits|…  (sorted by labels)
package main

import (
	"context"
	"errors"
	"fmt"
	"math"
	"os"
	"sort"
	"strconv"
	"strings"
	"sync"
	"sync/atomic"
	"time"

	"github.com/prometheus/common/promslog"
	"go.opentelemetry.io/otel"
	"go.opentelemetry.io/otel/trace"
	"go.opentelemetry.io/otel/trace/noop"

	"github.com/prometheus/prometheus/model/histogram"
	"github.com/prometheus/prometheus/model/labels"
	"github.com/prometheus/prometheus/model/timestamp"
	"github.com/prometheus/prometheus/model/value"
	"github.com/prometheus/prometheus/promql"
	"github.com/prometheus/prometheus/promql/parser"
	"github.com/prometheus/prometheus/rules"
	"github.com/prometheus/prometheus/storage"
	"github.com/prometheus/prometheus/tsdb"

	"verif/harness/h"
)

// ---------------------------------------------------------------- span ids (attribution of appenders to rules)

type spanKey struct{}

type tprov struct{ noop.TracerProvider }

func (tprov) Tracer(string, ...trace.TracerOption) trace.Tracer { return tracer{} }

type tracer struct{ noop.Tracer }

var spanCtr atomic.Int64

func (tracer) Start(ctx context.Context, name string, opts ...trace.SpanStartOption) (context.Context, trace.Span) {
	ctx, sp := noop.Tracer{}.Start(ctx, name, opts...)
	if name == "rule" {
		ctx = context.WithValue(ctx, spanKey{}, spanCtr.Add(1))
	}
	return ctx, sp
}

func spanOf(ctx context.Context) int64 {
	if v, ok := ctx.Value(spanKey{}).(int64); ok {
		return v
	}
	return 0
}

// ---------------------------------------------------------------- codec

func parseLabels(s string) labels.Labels {
	if s == "-" {
		return labels.EmptyLabels()
	}
	var kv []string
	for _, p := range strings.Split(s, ",") {
		i := strings.IndexByte(p, '=')
		kv = append(kv, p[:i], p[i+1:])
	}
	return labels.FromStrings(kv...)
}

func showLabels(l labels.Labels) string {
	var parts []string
	l.Range(func(x labels.Label) { parts = append(parts, x.Name+"="+x.Value) })
	if len(parts) == 0 {
		return "-"
	}
	return strings.Join(parts, ",")
}

func joinSorted(xs []string) string {
	if len(xs) == 0 {
		return "-"
	}
	sort.Strings(xs)
	return strings.Join(xs, ";")
}

func i64(s string) int64 {
	v, err := strconv.ParseInt(s, 10, 64)
	if err != nil {
		panic(err)
	}
	return v
}

type vsample struct {
	l    labels.Labels
	bits uint64
}

func parseVec(s string) []vsample {
	if s == "-" {
		return nil
	}
	var out []vsample
	for _, e := range strings.Split(s, ";") {
		p := strings.Split(e, "@")
		b, err := strconv.ParseUint(p[1], 16, 64)
		if err != nil {
			panic(err)
		}
		out = append(out, vsample{parseLabels(p[0]), b})
	}
	return out
}

type selSpec struct {
	kind   byte // = ! ~ *
	arg    string
	ek, ev string
}

type ruleSpec struct {
	name    string
	rlabels string
	sels    []selSpec
}

func parseSel(s string) selSpec {
	var sp selSpec
	if i := strings.IndexByte(s, '&'); i >= 0 {
		kv := s[i+1:]
		j := strings.IndexByte(kv, '=')
		sp.ek, sp.ev = kv[:j], kv[j+1:]
		s = s[:i]
	}
	sp.kind, sp.arg = s[0], s[1:]
	return sp
}

func (s selSpec) String() string {
	o := string(s.kind) + s.arg
	if s.ek != "" {
		o += "&" + s.ek + "=" + s.ev
	}
	return o
}

func parseRule(s string) ruleSpec {
	p := strings.Split(s, "/")
	r := ruleSpec{name: p[0], rlabels: p[1]}
	for _, x := range strings.Split(p[2], "+") {
		r.sels = append(r.sels, parseSel(x))
	}
	return r
}

func (r ruleSpec) String() string {
	var ss []string
	for _, s := range r.sels {
		ss = append(ss, s.String())
	}
	return r.name + "/" + r.rlabels + "/" + strings.Join(ss, "+")
}

func parseRules(s string) []ruleSpec {
	if s == "-" {
		return nil
	}
	var out []ruleSpec
	for _, x := range strings.Split(s, "|") {
		out = append(out, parseRule(x))
	}
	return out
}

func showRules(rs []ruleSpec) string {
	if len(rs) == 0 {
		return "-"
	}
	var ss []string
	for _, r := range rs {
		ss = append(ss, r.String())
	}
	return strings.Join(ss, "|")
}

func selText(s selSpec, tag string) string {
	var ms []string
	prefix := ""
	switch s.kind {
	case '=':
		prefix = s.arg
	case '!':
		ms = append(ms, fmt.Sprintf(`__name__!=%q`, s.arg))
	case '~':
		ms = append(ms, fmt.Sprintf(`__name__=~%q`, strings.ReplaceAll(s.arg, ":", "|")))
	}
	if s.ek != "" {
		ms = append(ms, fmt.Sprintf(`%s=%q`, s.ek, s.ev))
	}
	if tag != "" {
		ms = append(ms, fmt.Sprintf(`u!=%q`, tag))
	}
	return prefix + "{" + strings.Join(ms, ",") + "}"
}

// exprText derives the rule's expression; the tag matcher (label u never exists) makes the
// expression text unique per rule index so that the query function can tell the rules apart.
func exprText(r ruleSpec, idx int) string {
	if len(r.sels) == 1 {
		return selText(r.sels[0], strconv.Itoa(idx))
	}
	var parts []string
	for i, s := range r.sels {
		tag := ""
		if i == 0 {
			tag = strconv.Itoa(idx)
		}
		fn := "count"
		if i == 0 {
			fn = "sum"
		}
		parts = append(parts, fn+"("+selText(s, tag)+")")
	}
	return strings.Join(parts, " + ")
}

func errClass(err error) string {
	switch {
	case err == nil:
		return "ok"
	case errors.Is(err, storage.ErrOutOfOrderSample):
		return "ooo"
	case errors.Is(err, storage.ErrDuplicateSampleForTimestamp):
		return "dup"
	case errors.Is(err, storage.ErrOutOfBounds):
		return "oob"
	case errors.Is(err, storage.ErrTooOldSample):
		return "old"
	}
	return "other"
}

// ---------------------------------------------------------------- recording appendable

type appended struct {
	l    string
	t    int64
	bits uint64
	err  string
	hist bool
}

type appRec struct {
	span      int64
	samples   []appended
	committed bool
	commitSeq int64
	commitErr error
}

type world struct {
	db     *tsdb.DB
	dir    string
	engine *promql.Engine
	eqf    rules.QueryFunc
	groups map[string]*groupW
	startM int64 // wall clock (ms) when the case started: later timestamps print as 'now'

	mu       sync.Mutex
	seq      int64
	apps     []*appRec
	qs       []qEvent
	commitCh chan struct{}
}

type qEvent struct {
	rule int
	span int64
	seq  int64
	bad  string
}

func (w *world) next() int64 { w.seq++; return w.seq }

type recAppendable struct{ w *world }

func (r recAppendable) Appender(ctx context.Context) storage.Appender {
	a := &recAppender{Appender: r.w.db.Appender(ctx), w: r.w, rec: &appRec{span: spanOf(ctx)}}
	r.w.mu.Lock()
	r.w.apps = append(r.w.apps, a.rec)
	r.w.mu.Unlock()
	return a
}

type recAppender struct {
	storage.Appender
	w   *world
	rec *appRec
}

func (a *recAppender) Append(ref storage.SeriesRef, l labels.Labels, t int64, v float64) (storage.SeriesRef, error) {
	ref, err := a.Appender.Append(ref, l, t, v)
	a.w.mu.Lock()
	a.rec.samples = append(a.rec.samples, appended{l: showLabels(l), t: t, bits: math.Float64bits(v), err: errClass(err)})
	a.w.mu.Unlock()
	return ref, err
}

func (a *recAppender) AppendHistogram(ref storage.SeriesRef, l labels.Labels, t int64, hh *histogram.Histogram, fh *histogram.FloatHistogram) (storage.SeriesRef, error) {
	ref, err := a.Appender.AppendHistogram(ref, l, t, hh, fh)
	a.w.mu.Lock()
	a.rec.samples = append(a.rec.samples, appended{l: showLabels(l), t: t, err: errClass(err), hist: true})
	a.w.mu.Unlock()
	return ref, err
}

func (a *recAppender) Commit() error {
	err := a.Appender.Commit()
	a.w.mu.Lock()
	a.rec.committed, a.rec.commitErr, a.rec.commitSeq = true, err, a.w.next()
	ch := a.w.commitCh
	a.w.mu.Unlock()
	if ch != nil {
		select {
		case ch <- struct{}{}:
		default:
		}
	}
	return err
}

// ---------------------------------------------------------------- groups

type script struct {
	kind byte // E X V
	vec  []vsample
}

type groupW struct {
	w       *world
	gid     string
	specs   []ruleSpec
	rules   []rules.Rule
	exprIdx map[string]int
	g       *rules.Group
	opts    *rules.ManagerOptions
	qoff    int64
	conc    bool
	fast    bool
	ts      int64
	scripts []script
	tick    chan struct{}
	once    sync.Once
}

var (
	errScripted   = errors.New("scripted query error")
	sharedMetrics = rules.NewGroupMetrics(nil)
	seqOpts       = &rules.ManagerOptions{Logger: promslog.NewNopLogger(), Metrics: sharedMetrics}
	concOpts      = &rules.ManagerOptions{Logger: promslog.NewNopLogger(), Metrics: sharedMetrics, ConcurrentEvalsEnabled: true, MaxConcurrentEvals: 8}
	promParser    = parser.NewParser(parser.Options{})
)

func init() {
	otel.SetTracerProvider(tprov{})
	rules.NewManager(seqOpts)  // fills in the default controllers
	rules.NewManager(concOpts) // fills in the concurrent controller
}

func (gw *groupW) query(ctx context.Context, qs string, t time.Time) (promql.Vector, error) {
	w := gw.w
	idx, ok := gw.exprIdx[qs]
	ev := qEvent{rule: idx, span: spanOf(ctx)}
	if !ok {
		ev.bad = "unknown-expr"
	}
	if t.UnixNano() != gw.ts-gw.qoff {
		ev.bad = fmt.Sprintf("bad-query-time:%d", t.UnixNano())
	}
	w.mu.Lock()
	ev.seq = w.next()
	w.qs = append(w.qs, ev)
	w.mu.Unlock()
	if !ok || idx >= len(gw.scripts) {
		return nil, errors.New("no script")
	}
	sc := gw.scripts[idx]
	switch sc.kind {
	case 'X':
		return nil, errScripted
	case 'E':
		return w.eqf(ctx, qs, t)
	}
	vec := make(promql.Vector, 0, len(sc.vec))
	for _, s := range sc.vec {
		vec = append(vec, promql.Sample{Metric: s.l, T: timestamp.FromTime(t), F: math.Float64frombits(s.bits)})
	}
	return vec, nil
}

func (w *world) newGroup(gid string, specs []ruleSpec, qoff int64, limit int, conc, fast bool) *groupW {
	gw := &groupW{w: w, gid: gid, specs: specs, exprIdx: map[string]int{}, qoff: qoff, conc: conc, fast: fast, tick: make(chan struct{})}
	for i, sp := range specs {
		expr, err := promParser.ParseExpr(exprText(sp, i))
		if err != nil {
			panic(fmt.Sprintf("expr %q: %v", exprText(sp, i), err))
		}
		r := rules.NewRecordingRule(sp.name, expr, parseLabels(sp.rlabels))
		gw.rules = append(gw.rules, r)
		gw.exprIdx[r.Query().String()] = i
	}
	base := seqOpts
	if conc {
		base = concOpts
	}
	base.RuleDependencyController.AnalyseRules(gw.rules)
	opts := &rules.ManagerOptions{
		QueryFunc: gw.query, Appendable: recAppendable{w}, Queryable: w.db, Context: context.Background(),
		Logger: promslog.NewNopLogger(), Metrics: sharedMetrics,
		RuleConcurrencyController: base.RuleConcurrencyController, RuleDependencyController: base.RuleDependencyController,
	}
	gw.opts = opts
	qo := time.Duration(qoff)
	interval := time.Hour
	if fast {
		interval = 3 * time.Millisecond
	}
	gw.g = rules.NewGroup(rules.GroupOptions{Name: gid, File: "f", Interval: interval, Limit: limit, Rules: gw.rules, Opts: opts, QueryOffset: &qo,
		EvalIterationFunc: func(context.Context, *rules.Group, time.Time) { gw.once.Do(func() { close(gw.tick) }) }})
	return gw
}

func (w *world) resetLog() {
	w.mu.Lock()
	w.apps, w.qs, w.seq = nil, nil, 0
	w.mu.Unlock()
}

func (w *world) showT(t int64) string {
	if t > w.startM-86400000 {
		return "now"
	}
	return strconv.FormatInt(t, 10)
}

func (w *world) showMarkers(a *appRec) string {
	var xs []string
	for _, s := range a.samples {
		if s.hist || s.bits != value.StaleNaN {
			xs = append(xs, "notstale:"+s.l)
			continue
		}
		xs = append(xs, fmt.Sprintf("%s@%s@%s", s.l, w.showT(s.t), s.err))
	}
	return joinSorted(xs)
}

func ruleStatus(r rules.Rule) string {
	err := r.LastError()
	switch {
	case err == nil:
		return "ok"
	case errors.Is(err, errScripted):
		return "qerr"
	case errors.Is(err, rules.ErrDuplicateRecordingLabelSet):
		return "dup"
	case strings.HasPrefix(err.Error(), "exceeded limit of "):
		return "limit"
	}
	return "err"
}

func runOp(c *h.Ctx, w *world, op string) string {
	f := strings.Split(op, " ")
	ctx := context.Background()
	switch f[0] {
	case "load":
		gid := f[1]
		gw := w.newGroup(gid, parseRules(f[6]), i64(f[2]), int(i64(f[3])), f[4] == "1", f[5] == "1")
		if old, ok := w.groups[gid]; ok {
			gw.g.CopyState(old.g)
		}
		w.groups[gid] = gw
		bs := gw.opts.RuleConcurrencyController.SplitGroupIntoBatches(ctx, gw.g)
		if len(bs) == 0 {
			return "seq"
		}
		var parts []string
		for _, b := range bs {
			var is []string
			for _, i := range b {
				is = append(is, strconv.Itoa(i))
			}
			parts = append(parts, strings.Join(is, ","))
		}
		return "batches " + strings.Join(parts, "/")
	case "eval":
		gw, ok := w.groups[f[1]]
		if !ok {
			return "nogroup"
		}
		gw.ts = i64(f[2])
		gw.scripts = nil
		if f[3] != "-" {
			for _, s := range strings.Split(f[3], "|") {
				sc := script{kind: s[0]}
				if sc.kind == 'V' {
					sc.vec = parseVec(s[2:])
				}
				gw.scripts = append(gw.scripts, sc)
			}
		}
		w.resetLog()
		gw.g.Eval(ctx, time.Unix(0, gw.ts))
		w.mu.Lock()
		defer w.mu.Unlock()
		// attribute appenders to rules through the span id of the "rule" span
		bySpan := map[int64]*appRec{}
		var cleanup []*appRec
		for _, a := range w.apps {
			if a.span == 0 {
				cleanup = append(cleanup, a)
			} else {
				bySpan[a.span] = a
			}
		}
		qOf := map[int]qEvent{}
		var bad []string
		for _, q := range w.qs {
			if _, dup := qOf[q.rule]; dup {
				bad = append(bad, fmt.Sprintf("twice:%d", q.rule))
			}
			if q.bad != "" {
				bad = append(bad, q.bad)
			}
			qOf[q.rule] = q
		}
		var toks []string
		for i, r := range gw.rules {
			q, ok := qOf[i]
			if !ok {
				toks = append(toks, fmt.Sprintf("r%d=noquery:-:-", i))
				continue
			}
			a := bySpan[q.span]
			if a == nil {
				st := ruleStatus(r)
				if st == "ok" {
					st = "noappender"
				}
				c.Count("eval:status=" + st)
				toks = append(toks, fmt.Sprintf("r%d=%s:-:-", i, st))
				continue
			}
			if !a.committed || a.commitErr != nil {
				bad = append(bad, fmt.Sprintf("commit:%d", i))
			}
			c.Count("eval:status=ok")
			tms := timestamp.FromTime(time.Unix(0, gw.ts-gw.qoff))
			var res, marks []string
			inMarkers := false
			for _, s := range a.samples {
				if s.t != tms {
					bad = append(bad, fmt.Sprintf("sample-time:%d", s.t))
				}
				c.Count("append:" + s.err)
				switch {
				case s.hist:
					res = append(res, "hist:"+s.l)
				case s.bits == value.StaleNaN:
					inMarkers = true
					marks = append(marks, fmt.Sprintf("%s@%d@%s", s.l, s.t, s.err))
					c.Count("marker:" + s.err)
				default:
					if inMarkers {
						bad = append(bad, "result-after-marker")
					}
					res = append(res, fmt.Sprintf("%s@%d@%016x@%s", s.l, s.t, s.bits, s.err))
				}
			}
			toks = append(toks, fmt.Sprintf("r%d=ok:%s:%s", i, joinSorted(res), joinSorted(marks)))
			// ordering: every earlier rule (sequential) / every earlier rule whose name this rule's
			// selectors match (concurrent) must have committed before this rule's query started
			for j, rj := range gw.specs {
				qj, ok := qOf[j]
				if !ok || j <= i {
					continue
				}
				if gw.conc && !specRefs(rj, gw.specs[i].name) {
					continue
				}
				if qj.seq < a.commitSeq {
					bad = append(bad, fmt.Sprintf("%d-before-%d", j, i))
				}
			}
		}
		cl := "-"
		if len(cleanup) > 1 {
			bad = append(bad, "two-cleanups")
		}
		if len(cleanup) >= 1 {
			cl = w.showMarkers(cleanup[0])
			c.Count("eval:cleanup")
		}
		ord := "ok"
		if len(bad) > 0 {
			ord = "bad:" + strings.Join(bad, ",")
		}
		return strings.Join(append(append([]string{"ord=" + ord}, toks...), "c="+cl), " ")
	case "remove":
		gw, ok := w.groups[f[1]]
		if !ok {
			return "nogroup"
		}
		delete(w.groups, f[1])
		pending := gw.g.VerifPendingStaleCount()
		w.resetLog()
		ch := make(chan struct{}, 8)
		w.mu.Lock()
		w.commitCh = ch
		w.mu.Unlock()
		go gw.g.VerifRun(ctx)
		if gw.fast {
			<-gw.tick
		} else {
			time.Sleep(2 * time.Millisecond)
		}
		gw.g.VerifStopMarkStale()
		switch {
		case gw.fast && pending > 0:
			select {
			case <-ch:
			case <-time.After(5 * time.Second):
			}
			c.Count("remove:markers")
		case gw.fast:
			time.Sleep(25 * time.Millisecond)
			c.Count("remove:empty")
		default:
			time.Sleep(15 * time.Millisecond)
			c.Count("remove:before-first-tick")
		}
		w.mu.Lock()
		defer w.mu.Unlock()
		w.commitCh = nil
		if len(w.apps) == 0 {
			return "c=-"
		}
		if len(w.apps) > 1 {
			return "c=many"
		}
		return "c=" + w.showMarkers(w.apps[0])
	case "put":
		t := i64(f[1])
		app := w.db.Appender(ctx)
		var errs []string
		for _, s := range parseVec(f[2]) {
			_, err := app.Append(0, s.l, t, math.Float64frombits(s.bits))
			errs = append(errs, errClass(err))
		}
		if err := app.Commit(); err != nil {
			errs = append(errs, "commit-failed")
		}
		if len(errs) == 0 {
			return "-"
		}
		return strings.Join(errs, ",")
	case "dump":
		q, err := w.db.Querier(math.MinInt64, math.MaxInt64)
		if err != nil {
			return "querier-error"
		}
		defer q.Close()
		ss := q.Select(ctx, true, nil, labels.MustNewMatcher(labels.MatchEqual, "u", ""))
		var out []string
		for ss.Next() {
			s := ss.At()
			it := s.Iterator(nil)
			var pts []string
			lastNow := false
			for it.Next() != 0 {
				t, v := it.At()
				ts := w.showT(t)
				if ts == "now" && lastNow {
					continue
				}
				lastNow = ts == "now"
				pts = append(pts, fmt.Sprintf("%s@%016x", ts, math.Float64bits(v)))
			}
			out = append(out, showLabels(s.Labels())+":"+strings.Join(pts, ","))
		}
		if len(out) == 0 {
			return "-"
		}
		sort.Strings(out)
		return strings.Join(out, "|")
	}
	return "bad-op"
}

// specRefs: does one of the rule's selectors match the metric name (the harness' own reading of the expression).
func specRefs(r ruleSpec, name string) bool {
	for _, s := range r.sels {
		switch s.kind {
		case '=':
			if s.arg == name {
				return true
			}
		case '!':
			if s.arg != name {
				return true
			}
		case '~':
			for _, a := range strings.Split(s.arg, ":") {
				if a == name {
					return true
				}
			}
		case '*':
			return true
		}
	}
	return false
}

func newWorld() *world {
	// Same options as util/teststorage (24 h blocks, no OOO window) with small in-memory structures.
	opts := tsdb.DefaultOptions()
	opts.MinBlockDuration = int64(24 * time.Hour / time.Millisecond)
	opts.MaxBlockDuration = int64(24 * time.Hour / time.Millisecond)
	opts.RetentionDuration = 0
	opts.OutOfOrderTimeWindow = 0
	opts.StripeSize = 64
	opts.WALSegmentSize = 128 * 1024
	opts.EnableExemplarStorage = false
	dir := h.TempDir("recrule")
	db, err := tsdb.Open(dir, promslog.NewNopLogger(), nil, opts, tsdb.NewDBStats())
	if err != nil {
		panic(err)
	}
	db.DisableCompactions()
	w := &world{db: db, dir: dir, groups: map[string]*groupW{}, startM: time.Now().UnixMilli()}
	w.engine = sharedEngine
	w.eqf = rules.EngineQueryFunc(sharedEngine, db)
	return w
}

var sharedEngine = promql.NewEngine(promql.EngineOpts{MaxSamples: 1000000, Timeout: 30 * time.Second})

func runCase(c *h.Ctx, ops []string) []string {
	w := newWorld()
	defer func() { w.db.Close(); os.RemoveAll(w.dir) }()
	var outs []string
	for _, op := range ops {
		var out string
		if p, v := h.Try(func() { out = runOp(c, w, op) }); p {
			out = fmt.Sprintf("panic %s", strings.ReplaceAll(strings.ReplaceAll(fmt.Sprint(v), "\n", " "), "\t", " "))
			c.Count("out:panic")
		}
		outs = append(outs, out)
		c.Op(op, out)
		c.Count("op:" + strings.SplitN(op, " ", 2)[0])
	}
	return outs
}

// ---------------------------------------------------------------- generator

const sec = int64(1e9)

var (
	ruleNames   = []string{"ra", "rb", "rc", "rd", "re", "in0"}
	inputNames  = []string{"in0", "in1"}
	rlabelPool  = []string{"-", "-", "-", "sev=page", "job=x", "job=", "__name__=q", "inst=,job=z", "sev=page,team=t"}
	inputSeries = []string{
		"__name__=in0,inst=0,job=a", "__name__=in0,inst=1,job=a", "__name__=in0,inst=0,job=b",
		"__name__=in1,inst=0,job=a", "__name__=in1,inst=2,job=b", "__name__=in1,inst=1,job=a",
	}
	scriptSeries = []string{
		"__name__=m,inst=0,job=a", "__name__=m,inst=1,job=a", "__name__=m,inst=0,job=b", "__name__=n,inst=0,job=a",
		"inst=3", "-", "__name__=m,inst=1,job=a,sev=low", "__name__=m,job=a", "inst=0,job=,zz=1",
	}
	valueBits = []uint64{0x3ff0000000000000, 0x4000000000000000, 0, 0x8000000000000000, 0x7ff8000000000001, 0x7ff0000000000000, 0x4059000000000000}
	bases     = []int64{1700000000 * sec, 1700000000*sec + 123456789, 1000 * sec, 0, -5 * sec, -7*sec - 1}
	stepsNs   = []int64{1e6, 15 * sec, 15 * sec, 60 * sec, 60 * sec, 299999 * 1e6, 300 * sec, 300001 * 1e6, 360 * sec, 1, 999999}
	qoffs     = []int64{0, 0, 0, 0, sec, 1500000, -sec, 60 * sec, 999999}
)

type genGroup struct {
	gid   string
	rules []ruleSpec
	qoff  int64
	limit int
	conc  bool
	fast  bool
	pools [][]string // per rule: scripted series pool
	pres  [][]bool
}

func genSel(r *h.Rng, engine bool, names []string) selSpec {
	var s selSpec
	x := r.Intn(100)
	pool := append(append([]string{}, names...), inputNames...)
	switch {
	case x < 70:
		s = selSpec{kind: '=', arg: h.Pick(r, pool)}
	case x < 80:
		a, b := h.Pick(r, pool), h.Pick(r, pool)
		s = selSpec{kind: '~', arg: a + ":" + b}
	case x < 88:
		s = selSpec{kind: '!', arg: h.Pick(r, pool), ek: "job", ev: "a"}
	case x < 94:
		s = selSpec{kind: '*', ek: "job", ev: h.Pick(r, []string{"a", "b", "x"})}
	default:
		s = selSpec{kind: '=', arg: "nosuch"}
	}
	if s.ek == "" && r.Chance(20) {
		s.ek, s.ev = "job", h.Pick(r, []string{"a", "b"})
	}
	_ = engine
	return s
}

func genRule(r *h.Rng, engine bool, names []string) ruleSpec {
	rs := ruleSpec{name: h.Pick(r, ruleNames), rlabels: h.Pick(r, rlabelPool)}
	n := 1
	if !engine && r.Chance(30) {
		n = 2 + r.Intn(2)
	}
	for i := 0; i < n; i++ {
		rs.sels = append(rs.sels, genSel(r, engine, names))
	}
	return rs
}

// concSafe: concurrent evaluation of the group is deterministic: distinct rule names, no __name__
// override, and (unless indeterminate = sequential batches) no selector matching a LATER rule's name.
func concSafe(rs []ruleSpec) bool {
	seen := map[string]bool{}
	wild := false
	for _, r := range rs {
		if seen[r.name] || strings.Contains(r.rlabels, "__name__") {
			return false
		}
		seen[r.name] = true
		for _, s := range r.sels {
			if s.kind == '*' {
				wild = true
			}
		}
	}
	if wild && len(rs) > 1 {
		return true
	}
	for i, r := range rs {
		for j := i + 1; j < len(rs); j++ {
			if specRefs(r, rs[j].name) {
				return false
			}
		}
	}
	return true
}

func (g *genGroup) loadOp() string {
	return fmt.Sprintf("load %s %d %d %d %d %s", g.gid, g.qoff, g.limit, b2i(g.conc), b2i(g.fast), showRules(g.rules))
}

func (g *genGroup) resetPools(r *h.Rng) {
	g.pools, g.pres = nil, nil
	for range g.rules {
		np := 1 + r.Intn(4)
		var pool []string
		for len(pool) < np {
			s := h.Pick(r, scriptSeries)
			dup := false
			for _, p := range pool {
				if p == s {
					dup = true
				}
			}
			if !dup {
				pool = append(pool, s)
			}
		}
		pres := make([]bool, np)
		for i := range pres {
			pres[i] = r.Chance(65)
		}
		g.pools = append(g.pools, pool)
		g.pres = append(g.pres, pres)
	}
}

func b2i(b bool) int {
	if b {
		return 1
	}
	return 0
}

func genCase(r *h.Rng, big bool) []string {
	engine := r.Chance(45)
	var ops []string
	ng := 1
	if r.Chance(40) {
		ng = 2
	}
	var groups []*genGroup
	wantConc := r.Chance(40)
	mk := func(gid string) *genGroup {
		g := &genGroup{gid: gid, qoff: h.PickI64(r, qoffs), fast: r.Chance(85)}
		if r.Chance(12) {
			g.limit = 1 + r.Intn(3)
		}
		n := 2 + r.Intn(5)
		if r.Chance(8) {
			n = r.Intn(2)
		}
		for tries := 0; ; tries++ {
			g.rules = nil
			for i := 0; i < n; i++ {
				g.rules = append(g.rules, genRule(r, engine, ruleNames))
			}
			if !wantConc || concSafe(g.rules) || tries > 20 {
				break
			}
		}
		g.conc = wantConc && concSafe(g.rules)
		g.resetPools(r)
		return g
	}
	for i := 0; i < ng; i++ {
		g := mk(fmt.Sprintf("g%d", i))
		groups = append(groups, g)
		ops = append(ops, g.loadOp())
	}
	n := 4 + r.Intn(10)
	if big {
		n = 12 + r.Intn(25)
	}
	ts := h.PickI64(r, bases)
	if engine {
		// the engine truncates a negative non-aligned query time towards zero while the staleness markers use
		// timestamp.FromTime (floor): keep engine cases after the epoch
		ts = h.PickI64(r, bases[:3])
	}
	flip := []int{10, 25, 50}[r.Intn(3)]
	inPres := make([]bool, len(inputSeries))
	for i := range inPres {
		inPres[i] = r.Chance(60)
	}
	for k := 0; k < n && len(groups) > 0; k++ {
		if k > 0 {
			switch x := r.Intn(100); {
			case x < 8: // same timestamp again
			case x < 12:
				ts -= h.PickI64(r, []int64{1e6, 15 * sec, 1})
			default:
				ts += h.PickI64(r, stepsNs)
			}
		}
		if engine && r.Chance(75) {
			var vs []string
			for i, s := range inputSeries {
				if r.Chance(flip) {
					inPres[i] = !inPres[i]
					if !inPres[i] && r.Chance(50) { // explicit staleness marker for a vanished input
						vs = append(vs, fmt.Sprintf("%s@%016x", s, uint64(value.StaleNaN)))
					}
				}
				if inPres[i] {
					vs = append(vs, fmt.Sprintf("%s@%016x", s, valueBits[r.Intn(len(valueBits))]))
				}
			}
			if len(vs) > 0 {
				pt := floorDiv(ts, 1e6) - h.PickI64(r, []int64{0, 0, 0, 1, 1000, 299999, 300000})
				ops = append(ops, fmt.Sprintf("put %d %s", pt, strings.Join(vs, ";")))
			}
		}
		g := groups[r.Intn(len(groups))]
		// scripts
		var scs []string
		for i, rule := range g.rules {
			switch {
			case r.Chance(7):
				scs = append(scs, "X")
			case engine && len(rule.sels) == 1 && r.Chance(85):
				scs = append(scs, "E")
			default:
				var vs []string
				for j := range g.pools[i] {
					if r.Chance(flip) {
						g.pres[i][j] = !g.pres[i][j]
					}
					if g.pres[i][j] {
						vs = append(vs, fmt.Sprintf("%s@%016x", g.pools[i][j], valueBits[r.Intn(len(valueBits))]))
					}
				}
				if r.Chance(3) && len(vs) > 0 {
					vs = append(vs, vs[0])
				}
				r0 := r.Intn(len(vs) + 1)
				vs = append(vs[r0:], vs[:r0]...)
				v := "-"
				if len(vs) > 0 {
					v = strings.Join(vs, ";")
				}
				scs = append(scs, "V:"+v)
			}
		}
		sc := "-"
		if len(scs) > 0 {
			sc = strings.Join(scs, "|")
		}
		ops = append(ops, fmt.Sprintf("eval %s %d %s", g.gid, ts, sc))
		// reload
		if r.Chance(14) {
			genReload(r, g, groups, engine, wantConc, &ops)
			// several reloads within one interval: state owed from an earlier reload (staleSeries,
			// seriesInPreviousEval) must survive the later ones
			for k := 0; k < 2 && r.Chance(35); k++ {
				genReload(r, g, groups, engine, wantConc, &ops)
			}
		}
		if r.Chance(4) {
			i := r.Intn(len(groups))
			ops = append(ops, "remove "+groups[i].gid)
			gone := groups[i]
			groups = append(groups[:i:i], groups[i+1:]...)
			if r.Chance(50) { // the group comes back later (fresh state)
				ng := mk(gone.gid)
				groups = append(groups, ng)
				ops = append(ops, ng.loadOp())
			}
		}
	}
	ops = append(ops, "dump")
	return ops
}

// genReload mutates the rule list of g (and possibly of another group) and emits the load ops.
func genReload(r *h.Rng, g *genGroup, groups []*genGroup, engine, wantConc bool, ops *[]string) {
	old := append([]ruleSpec{}, g.rules...)
	oldPools, oldPres := g.pools, g.pres
	var other *genGroup
	nm := 1 + r.Intn(2)
	for m := 0; m < nm; m++ {
		switch x := r.Intn(100); {
		case x < 22 && len(g.rules) > 0: // remove a rule
			i := r.Intn(len(g.rules))
			g.rules = append(g.rules[:i:i], g.rules[i+1:]...)
		case x < 40: // add a rule
			i := r.Intn(len(g.rules) + 1)
			nr := genRule(r, engine, ruleNames)
			g.rules = append(g.rules[:i:i], append([]ruleSpec{nr}, g.rules[i:]...)...)
		case x < 52 && len(g.rules) > 0: // duplicate a rule (same name and labels), possibly with another expression
			i := r.Intn(len(g.rules))
			d := g.rules[i]
			if r.Chance(50) {
				d.sels = []selSpec{genSel(r, engine, ruleNames)}
			}
			j := r.Intn(len(g.rules) + 1)
			g.rules = append(g.rules[:j:j], append([]ruleSpec{d}, g.rules[j:]...)...)
		case x < 62 && len(g.rules) > 0: // rename
			i := r.Intn(len(g.rules))
			g.rules[i].name = h.Pick(r, ruleNames)
		case x < 72 && len(g.rules) > 0: // change rule labels
			i := r.Intn(len(g.rules))
			g.rules[i].rlabels = h.Pick(r, rlabelPool)
		case x < 82 && len(g.rules) > 1: // swap two rules
			i, j := r.Intn(len(g.rules)), r.Intn(len(g.rules))
			g.rules[i], g.rules[j] = g.rules[j], g.rules[i]
		case x < 90 && len(g.rules) > 0 && len(groups) > 1: // move a rule to the other group
			for _, o := range groups {
				if o != g {
					other = o
				}
			}
			i := r.Intn(len(g.rules))
			mv := g.rules[i]
			g.rules = append(g.rules[:i:i], g.rules[i+1:]...)
			other.rules = append(other.rules, mv)
		default: // change options only
			g.qoff = h.PickI64(r, qoffs)
			if r.Chance(30) {
				g.limit = r.Intn(3)
			}
		}
	}
	fix := func(x *genGroup, keep bool) {
		x.conc = wantConc && concSafe(x.rules)
		if keep && len(x.rules) == len(old) && r.Chance(60) {
			x.pools, x.pres = oldPools, oldPres
		} else {
			x.resetPools(r)
		}
		*ops = append(*ops, x.loadOp())
	}
	if other != nil && r.Chance(50) {
		fix(other, false)
		fix(g, true)
	} else {
		fix(g, true)
		if other != nil {
			fix(other, false)
		}
	}
}

func floorDiv(a, b int64) int64 {
	q := a / b
	if (a%b != 0) && ((a < 0) != (b < 0)) {
		q--
	}
	return q
}

func classify(c *h.Ctx, ops, outs []string) {
	nt := false
	for i, o := range outs {
		if strings.HasPrefix(ops[i], "eval") && strings.Contains(o, "@ok") && strings.Contains(o, "7ff0000000000002") || strings.HasPrefix(ops[i], "eval") && markerSeen(o) {
			nt = true
		}
		if strings.HasPrefix(ops[i], "load") && strings.HasPrefix(o, "batches") {
			c.Count("load:conc")
			if strings.Contains(o, "/") {
				c.Count("load:conc-multibatch")
			}
		}
	}
	if nt {
		c.NonTrivial(strings.Join(ops, "|"))
	}
}

// markerSeen: some rule or cleanup wrote an accepted staleness marker.
func markerSeen(o string) bool {
	for _, tok := range strings.Split(o, " ") {
		if strings.HasPrefix(tok, "c=") && strings.Contains(tok, "@ok") {
			return true
		}
		if strings.HasPrefix(tok, "r") {
			p := strings.SplitN(tok, ":", 3)
			if len(p) == 3 && strings.Contains(p[2], "@ok") {
				return true
			}
		}
	}
	return false
}

func main() {
	c := h.Init()
	defer c.Finish()
	if c.Replay != "" {
		for _, cs := range c.ReplayCases() {
			c.Case(strings.TrimPrefix(cs[0], "case "))
			runCase(c, cs[1:])
		}
		return
	}
	for i := 0; i < c.N; i++ {
		r := c.Rng.Fork()
		big := c.Tier == "thorough" && i%4 == 0
		ops := genCase(r, big)
		c.Case(fmt.Sprintf("t%d", i))
		outs := runCase(c, ops)
		classify(c, ops, outs)
	}
}
