// Suite nhcb (C36): textparse.NHCBParser (classic histogram -> native histogram with custom buckets)
// as a transformer over the entry stream of the parser it wraps.
//
// A case is one payload. Between the real inner parser (text/plain, OpenMetrics, protobuf, or a scripted
// parser replaying an arbitrary entry stream) and the real NHCBParser sits a recording shim: it records the
// inner entry stream exactly as the NHCB parser sees it (one `in …` op per inner entry) and lets the harness
// attribute every entry the wrapped parser returns to the inner entry pulled last (the op's output line).
//
//	cfg keep=<0|1> st=<0|1> src=<text|om|proto|synth> nin=<k>   -> ok
//	payload <hex>                                                -> -     (informational; replay re-parses it)
//	gen <labels> <ts|-> <cv> <cumcounts> <count> <sumbits>       -> -     (expected NHCB of one generated classic histogram)
//	in type|help|unit|comment|series|hist|err …                  -> wrapped entries attributed to it, " ; "-joined, or -
//	eof                                                          -> wrapped entries emitted at the inner EOF
package main

import (
	"encoding/binary"
	"errors"
	"fmt"
	"io"
	"math"
	"sort"
	"strconv"
	"strings"

	"github.com/gogo/protobuf/types"
	"github.com/prometheus/common/model"

	"github.com/prometheus/prometheus/model/exemplar"
	"github.com/prometheus/prometheus/model/histogram"
	"github.com/prometheus/prometheus/model/labels"
	"github.com/prometheus/prometheus/model/textparse"
	dto "github.com/prometheus/prometheus/prompb/io/prometheus/client"

	"verif/harness/h"
)

// ---------------------------------------------------------------- canonical printing

func bits(f float64) string { return fmt.Sprintf("%016x", math.Float64bits(f)) }

// cbits prints a computed float (NaN payload/sign is not specified by the property).
func cbits(f float64) string {
	if math.IsNaN(f) {
		return "nan"
	}
	return bits(f)
}

func lblStr(l labels.Labels) string {
	var parts []string
	l.Range(func(x labels.Label) { parts = append(parts, h.HexS(x.Name)+":"+h.HexS(x.Value)) })
	if len(parts) == 0 {
		return "-"
	}
	return strings.Join(parts, ",")
}

func tsStr(ts *int64) string {
	if ts == nil {
		return "-"
	}
	return strconv.FormatInt(*ts, 10)
}

func exStr(es []exemplar.Exemplar) string {
	if len(es) == 0 {
		return "-"
	}
	parts := make([]string, len(es))
	for i, e := range es {
		t := "-"
		if e.HasTs {
			t = strconv.FormatInt(e.Ts, 10)
		}
		parts[i] = lblStr(e.Labels) + "/" + bits(e.Value) + "/" + t
	}
	return strings.Join(parts, "~")
}

func join[T any](xs []T, f func(T) string) string {
	if len(xs) == 0 {
		return "-"
	}
	parts := make([]string, len(xs))
	for i, x := range xs {
		parts[i] = f(x)
	}
	return strings.Join(parts, ",")
}

func spanStr(s histogram.Span) string { return fmt.Sprintf("%d/%d", s.Offset, s.Length) }

func histStr(hh *histogram.Histogram, fh *histogram.FloatHistogram) string {
	i64 := func(x int64) string { return strconv.FormatInt(x, 10) }
	if hh != nil {
		return strings.Join([]string{"I", strconv.Itoa(int(hh.Schema)), strconv.FormatUint(hh.Count, 10), bits(hh.Sum),
			bits(hh.ZeroThreshold), strconv.FormatUint(hh.ZeroCount, 10), join(hh.CustomValues, bits),
			join(hh.PositiveSpans, spanStr), join(hh.PositiveBuckets, i64), join(hh.NegativeSpans, spanStr),
			join(hh.NegativeBuckets, i64), strconv.Itoa(int(hh.CounterResetHint))}, ":")
	}
	if fh != nil {
		return strings.Join([]string{"F", strconv.Itoa(int(fh.Schema)), cbits(fh.Count), bits(fh.Sum),
			bits(fh.ZeroThreshold), cbits(fh.ZeroCount), join(fh.CustomValues, bits),
			join(fh.PositiveSpans, spanStr), join(fh.PositiveBuckets, cbits), join(fh.NegativeSpans, spanStr),
			join(fh.NegativeBuckets, cbits), strconv.Itoa(int(fh.CounterResetHint))}, ":")
	}
	return "nil"
}

// ---------------------------------------------------------------- recorded inner entries

type rec struct {
	kind    string // type help unit comment series hist err
	name    string // type/help/unit
	text    string // help text, unit, comment, type
	bytes   string
	lset    labels.Labels
	val     float64
	ts      *int64
	st      int64
	ex      []exemplar.Exemplar
	hist    string
	h       *histogram.Histogram
	fh      *histogram.FloatHistogram
	exPos   int
	origIdx int
}

func (r *rec) opLine() string {
	switch r.kind {
	case "type", "help", "unit":
		return "in " + r.kind + " " + h.HexS(r.name) + " " + h.HexS(r.text)
	case "comment":
		return "in comment " + h.HexS(r.text)
	case "series":
		return "in series " + h.HexS(r.bytes) + " " + lblStr(r.lset) + " " + bits(r.val) + " " + tsStr(r.ts) + " " +
			strconv.FormatInt(r.st, 10) + " " + exStr(r.ex)
	case "hist":
		return "in hist " + h.HexS(r.bytes) + " " + lblStr(r.lset) + " " + tsStr(r.ts) + " " +
			strconv.FormatInt(r.st, 10) + " " + exStr(r.ex) + " " + r.hist
	}
	return "in err"
}

// shim records what the wrapped (inner) parser returns; it forwards every call.
type shim struct {
	inner textparse.Parser
	recs  []*rec
	eof   bool
	calls int
}

func (s *shim) cur() *rec {
	if len(s.recs) == 0 {
		return &rec{}
	}
	return s.recs[len(s.recs)-1]
}

func (s *shim) Next() (textparse.Entry, error) {
	s.calls++
	e, err := s.inner.Next()
	if err != nil {
		if errors.Is(err, io.EOF) {
			s.eof = true
		} else {
			s.recs = append(s.recs, &rec{kind: "err"})
		}
		return e, err
	}
	r := &rec{}
	switch e {
	case textparse.EntryType:
		n, t := s.inner.Type()
		r.kind, r.name, r.text = "type", string(n), string(t)
	case textparse.EntryHelp:
		n, t := s.inner.Help()
		r.kind, r.name, r.text = "help", string(n), string(t)
	case textparse.EntryUnit:
		n, t := s.inner.Unit()
		r.kind, r.name, r.text = "unit", string(n), string(t)
	case textparse.EntryComment:
		r.kind, r.text = "comment", string(s.inner.Comment())
	case textparse.EntrySeries:
		b, ts, v := s.inner.Series()
		r.kind, r.bytes, r.val = "series", string(b), v
		if ts != nil {
			t := *ts
			r.ts = &t
		}
		s.inner.Labels(&r.lset)
		r.lset = r.lset.Copy()
	case textparse.EntryHistogram:
		b, ts, hh, fh := s.inner.Histogram()
		r.kind, r.bytes, r.hist = "hist", string(b), histStr(hh, fh)
		if ts != nil {
			t := *ts
			r.ts = &t
		}
		s.inner.Labels(&r.lset)
		r.lset = r.lset.Copy()
	default:
		r.kind = "err"
	}
	s.recs = append(s.recs, r)
	return e, err
}
func (s *shim) Series() ([]byte, *int64, float64) { return s.inner.Series() }
func (s *shim) Histogram() ([]byte, *int64, *histogram.Histogram, *histogram.FloatHistogram) {
	return s.inner.Histogram()
}
func (s *shim) Help() ([]byte, []byte)            { return s.inner.Help() }
func (s *shim) Type() ([]byte, model.MetricType) { return s.inner.Type() }
func (s *shim) Unit() ([]byte, []byte)            { return s.inner.Unit() }
func (s *shim) Comment() []byte                   { return s.inner.Comment() }
func (s *shim) Labels(l *labels.Labels)           { s.inner.Labels(l) }
func (s *shim) Exemplar(e *exemplar.Exemplar) bool {
	ok := s.inner.Exemplar(e)
	if ok {
		c := *e
		c.Labels = c.Labels.Copy()
		r := s.cur()
		r.ex = append(r.ex, c)
	}
	return ok
}

func (s *shim) StartTimestamp() int64 {
	v := s.inner.StartTimestamp()
	s.cur().st = v
	return v
}

// synth replays a scripted entry stream.
type synth struct {
	recs []*rec
	pos  int
}

func (p *synth) cur() *rec { return p.recs[p.pos-1] }
func (p *synth) Next() (textparse.Entry, error) {
	if p.pos >= len(p.recs) {
		return textparse.EntryInvalid, io.EOF
	}
	p.pos++
	r := p.cur()
	r.exPos = 0
	switch r.kind {
	case "type":
		return textparse.EntryType, nil
	case "help":
		return textparse.EntryHelp, nil
	case "unit":
		return textparse.EntryUnit, nil
	case "comment":
		return textparse.EntryComment, nil
	case "series":
		return textparse.EntrySeries, nil
	case "hist":
		return textparse.EntryHistogram, nil
	}
	return textparse.EntryInvalid, errors.New("scripted parse error")
}

func (p *synth) tsPtr() *int64 {
	if p.cur().ts == nil {
		return nil
	}
	t := *p.cur().ts
	return &t
}
func (p *synth) Series() ([]byte, *int64, float64) { return []byte(p.cur().bytes), p.tsPtr(), p.cur().val }
func (p *synth) Histogram() ([]byte, *int64, *histogram.Histogram, *histogram.FloatHistogram) {
	return []byte(p.cur().bytes), p.tsPtr(), p.cur().h, p.cur().fh
}
func (p *synth) Help() ([]byte, []byte) { return []byte(p.cur().name), []byte(p.cur().text) }
func (p *synth) Type() ([]byte, model.MetricType) {
	return []byte(p.cur().name), model.MetricType(p.cur().text)
}
func (p *synth) Unit() ([]byte, []byte)  { return []byte(p.cur().name), []byte(p.cur().text) }
func (p *synth) Comment() []byte         { return []byte(p.cur().text) }
func (p *synth) Labels(l *labels.Labels) { *l = p.cur().lset }
func (p *synth) Exemplar(e *exemplar.Exemplar) bool {
	r := p.cur()
	if r.exPos >= len(r.ex) {
		return false
	}
	*e = r.ex[r.exPos]
	r.exPos++
	return true
}
func (p *synth) StartTimestamp() int64 { return p.cur().st }

// ---------------------------------------------------------------- running one case

type cfg struct {
	keep, st bool
	src      string
}

func b01(b bool) string {
	if b {
		return "1"
	}
	return "0"
}

// drive pulls the wrapped parser dry; outs[k] = entries returned while inner entry k was the last pulled
// (index len(recs) = the inner EOF).
func drive(c *h.Ctx, cf cfg, inner textparse.Parser) (*shim, map[int][]string, bool) {
	sh := &shim{inner: inner}
	outs := map[int][]string{}
	var p textparse.Parser
	panicked, _ := h.Try(func() {
		p = textparse.NewNHCBParser(sh, labels.NewSymbolTable(), cf.keep, cf.st)
		for iter := 0; iter < 100000; iter++ {
			e, err := p.Next()
			idx := len(sh.recs) - 1
			if sh.eof {
				idx = len(sh.recs)
			}
			if err != nil {
				if !errors.Is(err, io.EOF) {
					outs[idx] = append(outs[idx], "err")
				}
				return
			}
			var s string
			switch e {
			case textparse.EntryType:
				n, t := p.Type()
				s = "type " + h.Hex(n) + " " + h.HexS(string(t))
			case textparse.EntryHelp:
				n, t := p.Help()
				s = "help " + h.Hex(n) + " " + h.Hex(t)
			case textparse.EntryUnit:
				n, t := p.Unit()
				s = "unit " + h.Hex(n) + " " + h.Hex(t)
			case textparse.EntryComment:
				s = "comment " + h.Hex(p.Comment())
			case textparse.EntrySeries:
				b, ts, v := p.Series()
				var l labels.Labels
				p.Labels(&l)
				st := int64(0)
				if cf.st {
					st = p.StartTimestamp()
				}
				var es []exemplar.Exemplar
				for n := 0; n < 1000; n++ {
					var ex exemplar.Exemplar
					if !p.Exemplar(&ex) {
						break
					}
					es = append(es, ex)
				}
				s = "series " + h.Hex(b) + " " + lblStr(l) + " " + bits(v) + " " + tsStr(ts) + " " + strconv.FormatInt(st, 10) + " " + exStr(es)
			case textparse.EntryHistogram:
				b, ts, hh, fh := p.Histogram()
				var l labels.Labels
				p.Labels(&l)
				st := int64(0)
				if cf.st {
					st = p.StartTimestamp()
				}
				var es []exemplar.Exemplar
				for n := 0; n < 1000; n++ {
					var ex exemplar.Exemplar
					if !p.Exemplar(&ex) {
						break
					}
					es = append(es, ex)
				}
				if hh != nil && hh.Schema == histogram.CustomBucketsSchema || fh != nil && fh.Schema == histogram.CustomBucketsSchema {
					c.Count("out:nhcb")
				}
				s = "hist " + h.Hex(b) + " " + lblStr(l) + " " + tsStr(ts) + " " + strconv.FormatInt(st, 10) + " " + exStr(es) + " " + histStr(hh, fh)
			default:
				s = "invalid"
			}
			outs[idx] = append(outs[idx], s)
		}
		outs[len(sh.recs)] = append(outs[len(sh.recs)], "runaway")
	})
	return sh, outs, panicked
}

func emit(c *h.Ctx, cf cfg, payload []byte, gens []string, sh *shim, outs map[int][]string, panicked bool) {
	c.Op(fmt.Sprintf("cfg keep=%s st=%s src=%s nin=%d", b01(cf.keep), b01(cf.st), cf.src, len(sh.recs)), "ok")
	if payload != nil {
		c.Op("payload "+h.Hex(payload), "-")
	}
	for _, g := range gens {
		c.Op(g, "-")
	}
	o := func(k int) string {
		if len(outs[k]) == 0 {
			return "-"
		}
		return strings.Join(outs[k], " ; ")
	}
	for k, r := range sh.recs {
		c.Count("in:" + r.kind)
		c.Op(r.opLine(), o(k))
	}
	last := o(len(sh.recs))
	if panicked {
		last = "panic"
		c.Count("out:panic")
	}
	c.Op("eof", last)
}

func innerFor(cf cfg, payload []byte, recs []*rec) textparse.Parser {
	st := labels.NewSymbolTable()
	switch cf.src {
	case "text":
		return textparse.NewPromParser(payload, st, false)
	case "om":
		return textparse.NewOpenMetricsParser(payload, st, textparse.WithOMParserSTSeriesSkipped())
	case "omk":
		return textparse.NewOpenMetricsParser(payload, st)
	case "proto":
		return textparse.NewProtobufParser(payload, false, true, false, false, st)
	}
	return &synth{recs: recs}
}

// ---------------------------------------------------------------- generators

var (
	famNames = []string{"h", "rpc_seconds", "foo_bucket", "a_count", "x_sum", "lat"}
	lsets    = [][]string{{}, {"a", "b"}, {"a", "c"}, {"a", "b", "z", "1"}, {"job", "x"}, {"a", ""}}
	leFinite = []float64{-1, 0, 0.005, 0.5, 1, 2.5, 10, 1000, 1e6}
	mtypes   = []model.MetricType{model.MetricTypeHistogram, model.MetricTypeGauge, model.MetricTypeCounter, model.MetricTypeSummary,
		model.MetricTypeUnknown, model.MetricTypeGaugeHistogram, model.MetricTypeInfo}
)

type bucket struct {
	le  float64
	cum float64
}

// classic is one generated classic histogram (one label set).
type classic struct {
	name    string
	lbl     []string
	buckets []bucket // rendered order
	hasCnt  bool
	count   float64
	hasSum  bool
	sum     float64
	ts      *int64
	st      int64
	valid   bool // consistent cumulative counts
}

func fmtF(f float64) string {
	switch {
	case math.IsInf(f, 1):
		return "+Inf"
	case math.IsInf(f, -1):
		return "-Inf"
	case math.IsNaN(f):
		return "NaN"
	}
	return strconv.FormatFloat(f, 'g', -1, 64)
}

func genClassic(r *h.Rng, name string, lbl []string, floatCounts bool) classic {
	cl := classic{name: name, lbl: lbl, valid: true}
	n := r.Intn(5)
	les := map[float64]bool{}
	var bs []float64
	for i := 0; i < n; i++ {
		le := h.Pick(r, leFinite)
		if !les[le] {
			les[le] = true
			bs = append(bs, le)
		}
	}
	sort.Float64s(bs)
	cum := 0.0
	step := func() float64 {
		switch r.Intn(6) {
		case 0:
			return 0
		case 1:
			if floatCounts {
				return 0.5
			}
			return 1
		case 2:
			if floatCounts {
				return 2.25
			}
			return 7
		case 3:
			return float64(r.Intn(1000))
		case 4:
			if r.Chance(10) {
				return float64(uint64(1) << 53)
			}
			return 0
		}
		return float64(r.Intn(4))
	}
	for _, le := range bs {
		cum += step()
		cl.buckets = append(cl.buckets, bucket{le, cum})
	}
	cum += step()
	total := cum
	if r.Chance(75) {
		cl.buckets = append(cl.buckets, bucket{math.Inf(1), total})
	}
	cl.hasCnt = r.Chance(85)
	cl.count = total
	if !cl.hasCnt && (len(cl.buckets) == 0 || !math.IsInf(cl.buckets[len(cl.buckets)-1].le, 1)) {
		// without count and +Inf the total is the last finite bucket
		if len(cl.buckets) > 0 {
			cl.count = cl.buckets[len(cl.buckets)-1].cum
		} else {
			cl.count = 0
		}
	}
	cl.hasSum = r.Chance(85)
	if cl.hasSum {
		cl.sum = h.Pick(r, []float64{0, 1.5, -3, 324789.4, 1e100, math.Inf(1), math.NaN()})
	}
	// rare inconsistencies (not "valid": the judge does not demand a conversion for these)
	if r.Chance(6) && len(cl.buckets) > 0 {
		cl.valid = false
		switch r.Intn(4) {
		case 0:
			cl.hasCnt, cl.count = true, total+1 // count mismatch / larger than the last bucket
		case 1:
			cl.hasCnt, cl.count = true, math.Max(0, total-1)
			if cl.count == total {
				cl.count = total + 2
			}
		case 2:
			cl.buckets[r.Intn(len(cl.buckets))].cum = total + 5 // not cumulative
		case 3:
			cl.buckets[r.Intn(len(cl.buckets))].cum = -1
		}
	}
	// duplicates and order
	if r.Chance(12) && len(cl.buckets) > 0 {
		d := cl.buckets[r.Intn(len(cl.buckets))]
		at := r.Intn(len(cl.buckets) + 1)
		cl.buckets = append(cl.buckets[:at], append([]bucket{d}, cl.buckets[at:]...)...)
	}
	if r.Chance(20) {
		for i := len(cl.buckets) - 1; i > 0; i-- {
			j := r.Intn(i + 1)
			cl.buckets[i], cl.buckets[j] = cl.buckets[j], cl.buckets[i]
		}
	}
	return cl
}

// expectation of a valid classic histogram, computed directly from the generated numbers.
func (cl classic) genLine(ts *int64) string {
	m := map[float64]float64{}
	var les []float64
	for _, b := range cl.buckets {
		if _, ok := m[b.le]; !ok {
			m[b.le] = b.cum
			les = append(les, b.le)
		}
	}
	sort.Float64s(les)
	if len(les) == 0 || !math.IsInf(les[len(les)-1], 1) {
		les = append(les, math.Inf(1))
		m[math.Inf(1)] = cl.count
	}
	lb := labels.NewBuilder(labels.FromStrings(cl.lbl...))
	lb.Set("__name__", cl.name)
	var cv, counts []string
	for _, le := range les {
		if !math.IsInf(le, 1) {
			cv = append(cv, bits(le))
		}
		counts = append(counts, cbits(m[le]))
	}
	j := func(x []string) string {
		if len(x) == 0 {
			return "-"
		}
		return strings.Join(x, ",")
	}
	return "gen " + lblStr(lb.Labels()) + " " + tsStr(ts) + " " + j(cv) + " " + j(counts) + " " + bits(cl.count) + " " + bits(cl.sum)
}

type line struct {
	name string
	lbl  []string // pairs
	val  float64
	ts   *int64
	ex   string // OM exemplar suffix
}

func renderLabels(lbl []string) string {
	if len(lbl) == 0 {
		return ""
	}
	var parts []string
	for i := 0; i+1 < len(lbl); i += 2 {
		parts = append(parts, lbl[i]+"="+strconv.Quote(lbl[i+1]))
	}
	return "{" + strings.Join(parts, ",") + "}"
}

func (l line) render(om bool) string {
	s := l.name + renderLabels(l.lbl) + " " + fmtF(l.val)
	if l.ts != nil {
		if om {
			s += " " + strconv.FormatFloat(float64(*l.ts)/1000, 'f', 3, 64)
		} else {
			s += " " + strconv.FormatInt(*l.ts, 10)
		}
	}
	if om && l.ex != "" {
		s += " # " + l.ex
	}
	return s
}

func (cl classic) lines(r *h.Rng, om bool) []line {
	var out []line
	for _, b := range cl.buckets {
		lb := append(append([]string{}, cl.lbl...), "le", fmtF(b.le))
		if r.Chance(50) { // le first
			lb = append([]string{"le", fmtF(b.le)}, cl.lbl...)
		}
		l := line{name: cl.name + "_bucket", lbl: lb, val: b.cum, ts: cl.ts}
		if om && r.Chance(30) {
			l.ex = fmt.Sprintf(`{trace_id="t%d"} %s`, r.Intn(9), fmtF(h.Pick(r, []float64{0.5, -2, 8, 2e100})))
			if r.Chance(50) {
				l.ex += " " + strconv.FormatFloat(float64(r.Intn(100000))/1000, 'f', 3, 64)
			}
		}
		out = append(out, l)
	}
	var tail []line
	if cl.hasCnt {
		tail = append(tail, line{name: cl.name + "_count", lbl: cl.lbl, val: cl.count, ts: cl.ts})
	}
	if cl.hasSum {
		tail = append(tail, line{name: cl.name + "_sum", lbl: cl.lbl, val: cl.sum, ts: cl.ts})
	}
	if r.Chance(50) && len(tail) == 2 {
		tail[0], tail[1] = tail[1], tail[0]
	}
	switch r.Intn(4) {
	case 0:
		out = append(tail, out...)
	case 1:
		if len(out) > 0 && len(tail) > 0 {
			at := r.Intn(len(out) + 1)
			out = append(out[:at:at], append(tail, out[at:]...)...)
		} else {
			out = append(out, tail...)
		}
	default:
		out = append(out, tail...)
	}
	return out
}

func pickTs(r *h.Rng) *int64 {
	if r.Chance(45) {
		return nil
	}
	t := h.Pick(r, []int64{1000, 2000, 1520879607789, 0, 3000, 123456})
	return &t
}

// genText builds a text/plain or OpenMetrics payload plus the expectations of its convertible histograms.
// skipCreated: the inner OpenMetrics parser swallows `_created` lines (WithOMParserSTSeriesSkipped), so
// such a line does not end a collation.
func genText(c *h.Ctx, om, skipCreated bool) ([]byte, []string) {
	r := c.Rng
	var sb strings.Builder
	var gens []string
	// length of the payload right after the series of the histogram of the last `gen` line, as long as
	// nothing the NHCB parser sees follows it (-1 otherwise): that histogram is still being collated.
	genPendingLen := -1
	nfam := 1 + r.Intn(4)
	used := map[string]bool{}
	prevKey := ""
	for f := 0; f < nfam; f++ {
		name := h.Pick(r, famNames)
		if used[name] {
			name = fmt.Sprintf("%s%d", name, f)
		}
		used[name] = true
		typ := model.MetricTypeHistogram
		if r.Chance(35) {
			typ = h.Pick(r, mtypes)
			if !om {
				typ = h.Pick(r, mtypes[:4])
			}
		}
		if r.Chance(70) {
			fmt.Fprintf(&sb, "# HELP %s some help\n", name)
		}
		noType := r.Chance(5)
		if !noType {
			fmt.Fprintf(&sb, "# TYPE %s %s\n", name, typ)
		}
		if !om && r.Chance(10) {
			sb.WriteString("# just a comment\n")
		}
		if typ == model.MetricTypeHistogram {
			nls := 1 + r.Intn(3)
			perm := []int{0, 1, 2, 3, 4, 5}
			for i := len(perm) - 1; i > 0; i-- {
				j := r.Intn(i + 1)
				perm[i], perm[j] = perm[j], perm[i]
			}
			floatCounts := r.Chance(15)
			interleave := r.Chance(8) && nls > 1
			var all [][]line
			var cls []classic
			for k := 0; k < nls; k++ {
				cl := genClassic(r, name, lsets[perm[k]], floatCounts)
				cl.ts = pickTs(r)
				if om && r.Chance(40) {
					cl.st = h.Pick(r, []int64{1000, 1520872607123, 5000})
				}
				ls := cl.lines(r, om)
				if r.Chance(8) && len(ls) > 1 { // mixed timestamps inside one histogram
					ls[r.Intn(len(ls))].ts = pickTs(r)
					cl.valid = false
				}
				if cl.st != 0 {
					sec := strconv.FormatFloat(float64(cl.st)/1000, 'f', 3, 64)
					v, _ := strconv.ParseFloat(sec, 64)
					ls = append(ls, line{name: name + "_created", lbl: cl.lbl, val: v, ts: cl.ts})
				}
				all = append(all, ls)
				cls = append(cls, cl)
			}
			if interleave {
				c.Count("gen:interleaved")
				for i := 0; ; i++ {
					any := false
					for _, ls := range all {
						if i < len(ls) {
							sb.WriteString(ls[i].render(om) + "\n")
							any = true
						}
					}
					if !any {
						break
					}
				}
				prevKey = ""
				continue
			}
			for k, ls := range all {
				before := sb.Len()
				for _, l := range ls {
					sb.WriteString(l.render(om) + "\n")
				}
				cl := cls[k]
				key := name + renderLabels(cl.lbl)
				nser := len(cl.buckets)
				if cl.hasCnt {
					nser++
				}
				if cl.hasSum {
					nser++
				}
				if genPendingLen == before && nser == 0 && (len(ls) == 0 || skipCreated) {
					genPendingLen = sb.Len() // at most a swallowed `_created` line was added
				}
				if cl.valid && !noType && nser > 0 && key != prevKey {
					gens = append(gens, cl.genLine(cl.ts))
					c.Count("gen:classic")
					genPendingLen = sb.Len()
					if cl.st != 0 && !skipCreated {
						genPendingLen = -1 // the `_created` series has ended the collation
					}
				}
				prevKey = key
				if r.Chance(10) { // a stray series of the same family between label sets
					pending := genPendingLen == sb.Len()
					fmt.Fprintf(&sb, "%s_bucket 3\n", name)
					prevKey = ""
					if pending && len(cl.lbl) == 0 {
						// same name and (empty) label set as the histogram before it: passed through
						// (no le), but it does not end the collation
						genPendingLen = sb.Len()
					}
				}
			}
		} else {
			prevKey = ""
			n := 1 + r.Intn(3)
			for k := 0; k < n; k++ {
				sfx := h.Pick(r, []string{"", "", "_total", "_count", "_sum", "_bucket"})
				lbl := lsets[r.Intn(len(lsets)-1)]
				if typ == model.MetricTypeSummary && sfx == "" {
					lbl = append(append([]string{}, lbl...), "quantile", "0.5")
				}
				if sfx == "_bucket" && r.Chance(70) {
					lbl = append(append([]string{}, lbl...), "le", "1")
				}
				l := line{name: name + sfx, lbl: lbl, val: h.Pick(r, []float64{0, 1, 2.5, -1, math.NaN(), 1e9}), ts: pickTs(r)}
				sb.WriteString(l.render(om) + "\n")
			}
		}
	}
	if r.Chance(3) {
		// A parse error ends the stream: the wrapped parser hands the error on at once, the histogram
		// still being collated at that point is never converted (the scrape fails as a whole), so it
		// must not be expected.
		if len(gens) > 0 && genPendingLen == sb.Len() {
			gens = gens[:len(gens)-1]
			c.Count("gen:pending-at-error")
		}
		sb.WriteString("this is {not a metric\n")
		c.Count("gen:garbage")
	}
	if om {
		sb.WriteString("# EOF\n")
	}
	return []byte(sb.String()), gens
}

func tsProto(ms int64) *types.Timestamp {
	return &types.Timestamp{Seconds: ms / 1000, Nanos: int32(ms%1000) * 1000000}
}

func lblPairs(lbl []string) []dto.LabelPair {
	var out []dto.LabelPair
	for i := 0; i+1 < len(lbl); i += 2 {
		out = append(out, dto.LabelPair{Name: lbl[i], Value: lbl[i+1]})
	}
	return out
}

// genProto builds a protobuf payload: classic, native and mixed histogram families plus gauges; the
// protobuf parser (classic series kept, no conversion of its own) is the inner parser of the NHCB parser.
func genProto(c *h.Ctx) ([]byte, []string) {
	r := c.Rng
	var buf []byte
	var gens []string
	nfam := 1 + r.Intn(4)
	for f := 0; f < nfam; f++ {
		name := fmt.Sprintf("%s%d", h.Pick(r, famNames), f)
		mf := &dto.MetricFamily{Name: name, Help: "help " + name}
		if r.Chance(25) {
			mf.Type = dto.MetricType_GAUGE
			for k := 0; k < 1+r.Intn(2); k++ {
				m := dto.Metric{Label: lblPairs(lsets[k]), Gauge: &dto.Gauge{Value: float64(r.Intn(10))}}
				if r.Chance(50) {
					m.TimestampMs = h.Pick(r, []int64{1000, 2000, 3000})
				}
				mf.Metric = append(mf.Metric, m)
			}
		} else {
			mf.Type = dto.MetricType_HISTOGRAM
			floatCounts := r.Chance(15)
			nls := 1 + r.Intn(3)
			for k := 0; k < nls; k++ {
				cl := genClassic(r, name, lsets[k], floatCounts)
				cl.valid = true
				// protobuf cannot express disorder/duplicates/missing count: regenerate consistent numbers
				sort.Slice(cl.buckets, func(i, j int) bool { return cl.buckets[i].le < cl.buckets[j].le })
				cum := 0.0
				var bs []bucket
				for i, b := range cl.buckets {
					if i > 0 && b.le == cl.buckets[i-1].le {
						continue
					}
					cum += float64(r.Intn(4))
					if floatCounts && r.Chance(40) {
						cum += 0.5
					}
					bs = append(bs, bucket{b.le, cum})
				}
				cl.buckets = bs
				if len(bs) > 0 && math.IsInf(bs[len(bs)-1].le, 1) {
					cl.count = cum
				} else {
					cl.count = cum + float64(r.Intn(3))
				}
				cl.hasCnt, cl.hasSum = true, true
				if math.IsNaN(cl.sum) || math.IsInf(cl.sum, 0) {
					cl.sum = 1.5
				}
				hg := &dto.Histogram{SampleSum: cl.sum}
				if floatCounts {
					hg.SampleCountFloat = cl.count
				} else {
					hg.SampleCount = uint64(cl.count)
				}
				for _, b := range cl.buckets {
					pb := dto.Bucket{UpperBound: b.le}
					if floatCounts {
						pb.CumulativeCountFloat = b.cum
					} else {
						pb.CumulativeCount = uint64(b.cum)
					}
					if r.Chance(25) {
						pb.Exemplar = &dto.Exemplar{Label: lblPairs([]string{"trace_id", fmt.Sprintf("t%d", r.Intn(9))}), Value: 0.5}
						if r.Chance(70) {
							pb.Exemplar.Timestamp = tsProto(int64(1000 + r.Intn(5000)))
						}
					}
					hg.Bucket = append(hg.Bucket, pb)
				}
				if r.Chance(40) {
					cl.st = h.Pick(r, []int64{1000, 1520872607123, 5000})
					hg.StartTimestamp = tsProto(cl.st)
				}
				native := r.Chance(35)
				if native {
					c.Count("gen:proto-native")
					hg.Schema = 0
					hg.ZeroThreshold = 0.001
					if floatCounts {
						hg.PositiveSpan = []dto.BucketSpan{{Offset: 0, Length: 1}}
						hg.PositiveCount = []float64{cl.count}
					} else {
						hg.PositiveSpan = []dto.BucketSpan{{Offset: 0, Length: 1}}
						hg.PositiveDelta = []int64{int64(cl.count)}
					}
				}
				m := dto.Metric{Label: lblPairs(cl.lbl), Histogram: hg}
				if r.Chance(50) {
					t := h.Pick(r, []int64{1000, 2000, 3000})
					m.TimestampMs = t
					cl.ts = &t
				}
				mf.Metric = append(mf.Metric, m)
				// expectations only for histograms the protobuf parser certainly exposes as classic series
				if !native && len(cl.buckets) > 1 && math.IsInf(cl.buckets[len(cl.buckets)-1].le, 1) && f == 0 && k == 0 {
					gens = append(gens, cl.genLine(cl.ts))
					c.Count("gen:classic")
				}
			}
		}
		b, err := mf.Marshal()
		if err != nil {
			panic(err)
		}
		buf = binary.AppendUvarint(buf, uint64(len(b)))
		buf = append(buf, b...)
	}
	return buf, gens
}

var expoH = &histogram.Histogram{Schema: 0, Count: 3, Sum: 4.5, ZeroThreshold: 0.001, ZeroCount: 1,
	PositiveSpans: []histogram.Span{{Offset: 0, Length: 2}}, PositiveBuckets: []int64{1, 0}}
var expoFH = &histogram.FloatHistogram{Schema: 1, Count: 2.5, Sum: 1, PositiveSpans: []histogram.Span{{Offset: 1, Length: 1}}, PositiveBuckets: []float64{2.5}}

var synthVals = []float64{0, 1, 2, 3, 5, 10, 10, 18, 0.5, 2.5, -1, math.NaN(), math.Inf(1), 1e19, 9007199254740993, math.Copysign(0, -1), 1 << 62, 9223372036854775808.0}
var synthLe = []string{"0", "1", "1.0", "2.5", "+Inf", "+Inf", "Inf", "-1", "1e3", "0.005", "NaN", "abc", "", "-Inf", "1000", "inf", "1e-2", ".5"}

func mkLabels(name string, lbl []string) labels.Labels {
	b := labels.NewScratchBuilder(4)
	b.Add("__name__", name)
	for i := 0; i+1 < len(lbl); i += 2 {
		b.Add(lbl[i], lbl[i+1])
	}
	b.Sort()
	return b.Labels()
}

func synthEx(r *h.Rng) []exemplar.Exemplar {
	var es []exemplar.Exemplar
	for n := r.Intn(3) - 0; n > 0 && r.Chance(40); n-- {
		e := exemplar.Exemplar{Labels: labels.FromStrings("trace_id", fmt.Sprintf("t%d", r.Intn(5))), Value: float64(r.Intn(5))}
		if r.Bool() {
			e.HasTs, e.Ts = true, int64(r.Intn(3)*1000)
		}
		es = append(es, e)
	}
	return es
}

// genSynth scripts an arbitrary entry stream that keeps hitting the collect/emit/inhibit transitions.
func genSynth(c *h.Ctx) []*rec {
	r := c.Rng
	names := []string{"h", "g", "h_count", "foo_bucket"}
	var recs []*rec
	n := 1 + r.Intn(14)
	cur := "h"
	for i := 0; i < n; i++ {
		switch k := r.Intn(20); {
		case k < 3:
			cur = h.Pick(r, names)
			t := model.MetricTypeHistogram
			if r.Chance(25) {
				t = h.Pick(r, mtypes)
			}
			recs = append(recs, &rec{kind: "type", name: cur, text: string(t)})
		case k == 3:
			recs = append(recs, &rec{kind: h.Pick(r, []string{"help", "unit", "comment"}), name: cur, text: "txt"})
		case k == 4 && r.Chance(30):
			recs = append(recs, &rec{kind: "err"})
		case k <= 6:
			// exponential histogram
			nm := cur
			if r.Chance(20) {
				nm = h.Pick(r, names)
			}
			lbl := lsets[r.Intn(3)]
			rr := &rec{kind: "hist", lset: mkLabels(nm, lbl), bytes: nm + renderLabels(lbl), ts: pickTs(r), st: int64(r.Intn(3)) * 500, ex: synthEx(r)}
			if r.Bool() {
				rr.h = expoH
			} else {
				rr.fh = expoFH
			}
			rr.hist = histStr(rr.h, rr.fh)
			recs = append(recs, rr)
		default:
			// a burst of classic series of one label set
			lbl := lsets[r.Intn(3)]
			ts := pickTs(r)
			st := int64(r.Intn(3)) * 500
			m := 1 + r.Intn(5)
			cum := 0.0
			for j := 0; j < m; j++ {
				nm := cur
				if r.Chance(8) {
					nm = h.Pick(r, names)
				}
				sfx := h.Pick(r, []string{"_bucket", "_bucket", "_bucket", "_count", "_sum", "", "_created"})
				l := append([]string{}, lbl...)
				v := h.Pick(r, synthVals)
				if r.Chance(60) {
					cum += float64(r.Intn(4))
					v = cum
				}
				if sfx == "_bucket" && r.Chance(93) {
					l = append(l, "le", h.Pick(r, synthLe))
				}
				tt := ts
				if r.Chance(10) {
					tt = pickTs(r)
				}
				s2 := st
				if r.Chance(10) {
					s2 = int64(r.Intn(3)) * 500
				}
				recs = append(recs, &rec{kind: "series", lset: mkLabels(nm+sfx, l), bytes: nm + sfx + renderLabels(l), val: v, ts: tt, st: s2, ex: synthEx(r)})
			}
		}
	}
	return recs
}

// ---------------------------------------------------------------- replay

func parseLabels(s string) labels.Labels {
	if s == "-" {
		return labels.EmptyLabels()
	}
	b := labels.NewScratchBuilder(4)
	for _, p := range strings.Split(s, ",") {
		kv := strings.SplitN(p, ":", 2)
		if len(kv) != 2 {
			continue
		}
		b.Add(string(h.UnHex(kv[0])), string(h.UnHex(kv[1])))
	}
	return b.Labels()
}

func parseBits(s string) float64 {
	u, _ := strconv.ParseUint(s, 16, 64)
	return math.Float64frombits(u)
}

func parseTs(s string) *int64 {
	if s == "-" {
		return nil
	}
	v, _ := strconv.ParseInt(s, 10, 64)
	return &v
}

func parseEx(s string) []exemplar.Exemplar {
	if s == "-" {
		return nil
	}
	var es []exemplar.Exemplar
	for _, p := range strings.Split(s, "~") {
		f := strings.Split(p, "/")
		if len(f) != 3 {
			continue
		}
		e := exemplar.Exemplar{Labels: parseLabels(f[0]), Value: parseBits(f[1])}
		if f[2] != "-" {
			e.HasTs = true
			e.Ts, _ = strconv.ParseInt(f[2], 10, 64)
		}
		es = append(es, e)
	}
	return es
}

func parseRec(f []string) *rec {
	if len(f) < 2 {
		return &rec{kind: "err"}
	}
	switch f[1] {
	case "type", "help", "unit":
		if len(f) == 4 {
			return &rec{kind: f[1], name: string(h.UnHex(f[2])), text: string(h.UnHex(f[3]))}
		}
	case "comment":
		if len(f) == 3 {
			return &rec{kind: "comment", text: string(h.UnHex(f[2]))}
		}
	case "series":
		if len(f) == 8 {
			st, _ := strconv.ParseInt(f[6], 10, 64)
			return &rec{kind: "series", bytes: string(h.UnHex(f[2])), lset: parseLabels(f[3]), val: parseBits(f[4]), ts: parseTs(f[5]), st: st, ex: parseEx(f[7])}
		}
	case "hist":
		if len(f) == 8 {
			st, _ := strconv.ParseInt(f[5], 10, 64)
			r := &rec{kind: "hist", bytes: string(h.UnHex(f[2])), lset: parseLabels(f[3]), ts: parseTs(f[4]), st: st, ex: parseEx(f[6]), hist: f[7]}
			// the histogram value is opaque to the NHCB parser: replay one whose print equals the token if we can
			switch f[7] {
			case histStr(expoH, nil):
				r.h = expoH
			case histStr(nil, expoFH):
				r.fh = expoFH
			default:
				r.h, r.hist = expoH, histStr(expoH, nil)
			}
			return r
		}
	}
	return &rec{kind: "err"}
}

func replayCase(c *h.Ctx, ops []string) {
	cf := cfg{src: "synth"}
	var payload []byte
	var gens []string
	var recs []*rec
	var inLines []string
	for _, op := range ops {
		f := strings.Fields(op)
		if len(f) == 0 {
			continue
		}
		switch f[0] {
		case "cfg":
			for _, kv := range f[1:] {
				switch {
				case kv == "keep=1":
					cf.keep = true
				case kv == "st=1":
					cf.st = true
				case strings.HasPrefix(kv, "src="):
					cf.src = kv[4:]
				}
			}
		case "payload":
			if len(f) == 2 {
				payload = h.UnHex(f[1])
			}
		case "gen":
			gens = append(gens, op)
		case "in":
			recs = append(recs, parseRec(f))
			inLines = append(inLines, op)
		}
	}
	if payload != nil && cf.src != "synth" {
		// use the real inner parser if it still yields exactly the given entry stream
		sh, outs, pan := drive(c, cf, innerFor(cf, payload, nil))
		same := len(sh.recs) == len(inLines)
		for i := 0; same && i < len(inLines); i++ {
			same = sh.recs[i].opLine() == inLines[i]
		}
		if same {
			emit(c, cf, payload, gens, sh, outs, pan)
			return
		}
	}
	src := cf.src
	cf.src = "synth"
	sh, outs, pan := drive(c, cf, innerFor(cf, nil, recs))
	cf.src = src
	// keep the given op lines verbatim (the scripted parser replays them)
	emitReplay(c, cf, payload, gens, inLines, sh, outs, pan)
}

func emitReplay(c *h.Ctx, cf cfg, payload []byte, gens, inLines []string, sh *shim, outs map[int][]string, panicked bool) {
	c.Op(fmt.Sprintf("cfg keep=%s st=%s src=%s nin=%d", b01(cf.keep), b01(cf.st), cf.src, len(inLines)), "ok")
	if payload != nil {
		c.Op("payload "+h.Hex(payload), "-")
	}
	for _, g := range gens {
		c.Op(g, "-")
	}
	o := func(k int) string {
		if len(outs[k]) == 0 {
			return "-"
		}
		return strings.Join(outs[k], " ; ")
	}
	for k, l := range inLines {
		c.Op(l, o(k))
	}
	last := o(len(inLines))
	if panicked {
		last = "panic"
	}
	c.Op("eof", last)
}

func main() {
	c := h.Init()
	if c.Replay != "" {
		for _, cs := range c.ReplayCases() {
			c.Case(strings.TrimPrefix(cs[0], "case "))
			replayCase(c, cs[1:])
		}
		c.Finish()
		return
	}
	for i := 0; i < c.N; i++ {
		c.Case(fmt.Sprintf("%d-%d", c.Seed, i))
		r := c.Rng
		cf := cfg{keep: r.Chance(40), st: r.Chance(50)}
		var payload []byte
		var gens []string
		var recs []*rec
		switch k := r.Intn(10); {
		case k < 3:
			cf.src = "text"
			payload, gens = genText(c, false, false)
		case k < 6:
			cf.src = "om"
			if !cf.st {
				cf.src = "omk"
			}
			payload, gens = genText(c, true, cf.src == "om")
		case k < 7:
			cf.src = "proto"
			payload, gens = genProto(c)
		default:
			cf.src = "synth"
			recs = genSynth(c)
		}
		c.Count("src:" + cf.src)
		sh, outs, pan := drive(c, cf, innerFor(cf, payload, recs))
		emit(c, cf, payload, gens, sh, outs, pan)
		var key strings.Builder
		for _, rr := range sh.recs {
			key.WriteString(rr.opLine())
		}
		c.NonTrivial(fmt.Sprintf("%v%v%s", cf.keep, cf.st, key.String()))
	}
	c.Finish()
}
