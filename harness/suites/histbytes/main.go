// Suite histbytes (C11): the exact bytes of native histogram chunks (integer and float).
//
// The chunk-appender emulation is the one of suite hist (`cut`=1 emulates the head: new empty
// chunk, previous appender passed); here the observable is the encoded chunk, byte for byte.
//
//   capp <cut> <t> <hist>   -> same | new | recoded | err-…
//   cbytes                  -> i:<hex of Bytes()>|f:<hex of Bytes()>|…   every chunk, oldest first; `-` = no chunk
//                              (i = integer histogram chunk, f = float histogram chunk; all bytes
//                              incl. the 2-byte sample count and the header byte)
package main

import (
	"encoding/hex"
	"fmt"
	"strconv"
	"strings"

	"github.com/prometheus/prometheus/tsdb/chunkenc"

	"verif/harness/h"
	"verif/harness/histkit"
)

type chunkEnv struct {
	chunks []chunkenc.Chunk
	app    chunkenc.Appender
}

func encOf(x histkit.H) chunkenc.Encoding {
	if x.Float() {
		return chunkenc.EncFloatHistogram
	}
	return chunkenc.EncHistogram
}

// appendOp is chunkEnv.appendOp of suite hist, reporting the outcome class only.
func (e *chunkEnv) appendOp(cut bool, t int64, x histkit.H) string {
	var prev chunkenc.Appender
	if len(e.chunks) == 0 || cut || e.chunks[len(e.chunks)-1].Encoding() != encOf(x) {
		prev = e.app
		nc, err := chunkenc.NewEmptyChunk(encOf(x))
		if err != nil {
			return "err-newchunk"
		}
		e.chunks = append(e.chunks, nc)
		if e.app, err = nc.Appender(); err != nil {
			return "err-appender"
		}
	}
	var (
		newChunk chunkenc.Chunk
		recoded  bool
		app      chunkenc.Appender
		err      error
	)
	if x.Float() {
		newChunk, recoded, app, err = e.app.AppendFloatHistogram(prev, 0, t, x.F, false)
	} else {
		newChunk, recoded, app, err = e.app.AppendHistogram(prev, 0, t, x.I, false)
	}
	if err != nil {
		return "err-append"
	}
	e.app = app
	out := "same"
	if newChunk != nil {
		if recoded {
			e.chunks[len(e.chunks)-1] = newChunk
			out = "recoded"
		} else {
			e.chunks = append(e.chunks, newChunk)
			out = "new"
		}
	}
	return out
}

func (e *chunkEnv) bytes() string {
	if len(e.chunks) == 0 {
		return "-"
	}
	parts := make([]string, len(e.chunks))
	for i, c := range e.chunks {
		if c.Encoding() == chunkenc.EncHistogram {
			parts[i] = "i:" + hex.EncodeToString(c.Bytes())
		} else {
			parts[i] = "f:" + hex.EncodeToString(c.Bytes())
		}
	}
	return strings.Join(parts, "|")
}

func runCase(c *h.Ctx, ops []string) {
	ce := &chunkEnv{}
	for _, op := range ops {
		f := strings.Fields(op)
		out := "bad-op"
		if len(f) == 0 {
			f = []string{""}
		}
		p, pv := h.Try(func() {
			switch f[0] {
			case "capp":
				t, _ := strconv.ParseInt(f[2], 10, 64)
				out = ce.appendOp(f[1] == "1", t, histkit.Parse(f[3]))
				c.Count("capp:" + out)
			case "cbytes":
				out = ce.bytes()
				c.Count(fmt.Sprintf("cbytes:chunks:%d", min(len(ce.chunks), 8)))
			}
		})
		if p {
			out = "panic:" + strings.ReplaceAll(fmt.Sprint(pv), " ", "_")
			c.Count("panic:" + f[0])
		}
		c.Count("op:" + f[0])
		c.Op(op, out)
	}
}

func genCase(c *h.Ctx, r *h.Rng, maxLen int) []string {
	g := histkit.NewGen(r, c.Count)
	n := 2 + r.Intn(maxLen)
	var ops []string
	for i := 0; i < n; i++ {
		t, x := g.Step()
		cut := 0
		if r.Chance(6) {
			cut = 1
		}
		ops = append(ops, fmt.Sprintf("capp %d %d %s", cut, t, histkit.Tok(x)))
		if r.Chance(5) {
			ops = append(ops, "cbytes")
		}
	}
	ops = append(ops, "cbytes")
	return ops
}

func main() {
	c := h.Init()
	defer c.Finish()
	if c.Replay != "" {
		for _, cs := range c.ReplayCases() {
			c.Case(strings.TrimPrefix(cs[0], "case "))
			runCase(c, cs[1:])
		}
		return
	}
	maxLen := 40
	if c.Tier == "thorough" {
		maxLen = 120
	}
	for i := 0; i < c.N; i++ {
		r := c.Rng.Fork()
		ops := genCase(c, r, maxLen)
		c.Case(fmt.Sprintf("B%d", i))
		c.NonTrivial(strings.Join(ops, ";"))
		runCase(c, ops)
	}
}
