// Suite wal (C13): the real tsdb/wlog writer, Reader and LiveReader on generated logs.
// See lean/PromModel/Suites/WalSuite.lean for the op/output grammar.
// Huge records (1 MiB .. 128 MiB+1) travel as runs `r<n>x<byte>` in the judge-only ops `big*`.
// VERIF_WAL_TIMING=1 prints the duration of every op to stderr.
package main

import (
	"bytes"
	"errors"
	"fmt"
	"hash/fnv"
	"io"
	"os"
	"path/filepath"
	"runtime"
	"sort"
	"strconv"
	"strings"
	"time"

	"github.com/prometheus/common/promslog"

	"github.com/prometheus/prometheus/tsdb/wlog"
	"github.com/prometheus/prometheus/util/compression"

	"verif/harness/h"
)

const pageSize = 32768

// genRec must stay in sync with Prom.Wal.Suite.genRec.
func genRec(n, seed int) []byte {
	b := make([]byte, n)
	for j := range b {
		b[j] = byte(seed + 31*j + j/251)
	}
	return b
}

func fnv64(b []byte) string {
	hh := fnv.New64a()
	hh.Write(b)
	return fmt.Sprintf("%016x", hh.Sum64())
}

func recID(b []byte) string { return fmt.Sprintf("%d:%s", len(b), fnv64(b)) }

// Huge records (ops `big*`): records of bigThreshold bytes or more are fingerprinted by length, byte sum,
// smallest and largest byte — which the Lean judge computes in closed form for a run of one byte
// (Prom.Wal.Suite.fp / runFp; must stay in sync).
const bigThreshold = 1 << 19

func fp(b []byte) string {
	if len(b) < bigThreshold {
		return recID(b)
	}
	var sum uint64
	lo, hi := byte(255), byte(0)
	for _, x := range b {
		sum += uint64(x)
		lo = min(lo, x)
		hi = max(hi, x)
	}
	return fmt.Sprintf("%d:s%d:%d:%d", len(b), sum, lo, hi)
}

// bigBuf is the one buffer all run records are written from (allocated once, refilled per record).
var bigBuf []byte

const bigBufMin = 128<<20 + 1

func runRec(n int, fill byte, fresh bool) []byte {
	var r []byte
	if fresh {
		r = make([]byte, n)
	} else {
		if cap(bigBuf) < n {
			bigBuf = nil
			bigBuf = make([]byte, max(n, bigBufMin))
		}
		r = bigBuf[:n]
	}
	if n == 0 {
		return r
	}
	r[0] = fill
	for i := 1; i < n; i *= 2 {
		copy(r[i:], r[:i])
	}
	return r
}

func showRecs(rs []string) string {
	if len(rs) == 0 {
		return "-"
	}
	return strings.Join(rs, ",")
}

func classify(msg string) string {
	switch {
	case strings.Contains(msg, "last record is torn"):
		return "torn"
	case strings.Contains(msg, "read remaining zeros"):
		return "zeros-short"
	case strings.Contains(msg, "non-zero byte in padded page"), strings.Contains(msg, "non-zero byte in page term"):
		return "nonzero-pad"
	case strings.Contains(msg, "read remaining header"):
		return "hdr-short"
	case strings.Contains(msg, "invalid record size"):
		return "bad-size"
	case strings.Contains(msg, "record length greater than a single page"):
		return "too-long"
	case strings.Contains(msg, "unexpected checksum"):
		return "crc"
	case strings.Contains(msg, "unexpected full record"):
		return "seq-full"
	case strings.Contains(msg, "unexpected first record"):
		return "seq-first"
	case strings.Contains(msg, "unexpected middle record"):
		return "seq-middle"
	case strings.Contains(msg, "unexpected last record"):
		return "seq-last"
	case strings.Contains(msg, "unexpected record type"):
		return "bad-type"
	case strings.Contains(msg, "unexpected EOF"):
		return "data-short"
	}
	return "other:" + strings.ReplaceAll(strings.ReplaceAll(msg, " ", "_"), "\t", "_")
}

type state struct {
	root     string // temp dir of the case
	dir      string
	w        *wlog.WL
	pps      int
	mode     compression.Type
	closed   bool
	liveSeg  int
	liveF    *os.File
	liveLR   *wlog.LiveReader
	scratchN int
	hung     bool
	big      bool // ops `big*`: records are fingerprinted with fp, no byte-level outputs
}

func (s *state) id(b []byte) string {
	if s.big {
		return fp(b)
	}
	return recID(b)
}

var lrMetrics = wlog.NewLiveReaderMetrics(nil)

func (s *state) ensureOpen() {
	if s.w != nil || s.closed {
		return
	}
	if s.pps == 0 {
		s.pps = 2
		s.mode = compression.None
	}
	var err error
	s.w, err = wlog.NewSize(promslog.NewNopLogger(), nil, s.dir, s.pps*pageSize, s.mode)
	if err != nil {
		panic(err)
	}
}

func (s *state) cleanup() {
	if s.root == "" {
		return
	}
	if !s.hung { // a stuck op may hold the log's mutex; then only unlink the files
		if s.liveF != nil {
			s.liveF.Close()
		}
		if s.w != nil && !s.closed {
			s.w.Close()
		}
	}
	os.RemoveAll(s.root)
}

func segName(dir string, k int) string { return wlog.SegmentName(dir, k) }

func (s *state) nsegs() int {
	_, last, err := wlog.Segments(s.dir)
	if err != nil {
		panic(err)
	}
	return last + 1
}

func (s *state) segBytes(k int) []byte {
	b, err := os.ReadFile(segName(s.dir, k))
	if err != nil {
		panic(err)
	}
	return b
}

// scratch returns a new directory holding copies of segments 0..upto (inclusive).
func (s *state) scratch(upto int) string {
	s.scratchN++
	d := filepath.Join(s.root, fmt.Sprintf("scratch%d", s.scratchN))
	if err := os.MkdirAll(d, 0o777); err != nil {
		panic(err)
	}
	for k := 0; k <= upto && k < s.nsegs(); k++ {
		if err := os.WriteFile(segName(d, k), s.segBytes(k), 0o666); err != nil {
			panic(err)
		}
	}
	return d
}

func readDir(dir string, id func([]byte) string) string {
	sr, err := wlog.NewSegmentsReader(dir)
	if err != nil {
		panic(err)
	}
	defer sr.Close()
	r := wlog.NewReader(sr)
	var rs []string
	for r.Next() {
		rs = append(rs, id(r.Record()))
	}
	st := "eof"
	if err := r.Err(); err != nil {
		var ce *wlog.CorruptionErr
		if errors.As(err, &ce) {
			st = fmt.Sprintf("err:%s@%d:%d", classify(ce.Err.Error()), ce.Segment, ce.Offset)
		} else {
			st = "err:" + classify(err.Error())
		}
	}
	return showRecs(rs) + " " + st
}

func lrStatus(err error) string {
	if err == nil {
		return "err:nil"
	}
	if errors.Is(err, io.EOF) {
		return "eof"
	}
	return "err:" + classify(err.Error())
}

// growing exposes data[:limit] and reports io.EOF at the limit, like a file that is still being written.
type growing struct {
	data  []byte
	limit int
	pos   int
}

func (g *growing) Read(p []byte) (int, error) {
	if g.pos >= g.limit {
		return 0, io.EOF
	}
	n := copy(p, g.data[g.pos:g.limit])
	g.pos += n
	return n, nil
}

// liveObserve runs a fresh LiveReader over data, letting it see data[:c] for each cut c in turn.
func liveObserve(data []byte, cuts []int, id func([]byte) string) (per [][]string, status []string) {
	g := &growing{data: data}
	lr := wlog.NewLiveReader(promslog.NewNopLogger(), lrMetrics, g)
	prev := 0
	for _, c := range cuts {
		if c < prev {
			c = prev
		}
		if c > len(data) {
			c = len(data)
		}
		prev = c
		g.limit = c
		var rs []string
		for lr.Next() {
			rs = append(rs, id(lr.Record()))
		}
		st := lrStatus(lr.Err())
		per = append(per, rs)
		status = append(status, st)
		if st != "eof" {
			break
		}
	}
	return per, status
}

func showObs(per [][]string, status []string) string {
	parts := make([]string, len(per))
	for i := range per {
		parts[i] = showRecs(per[i]) + "/" + status[i]
	}
	return strings.Join(parts, ";")
}

func atoi(s string) int {
	n, err := strconv.Atoi(s)
	if err != nil {
		panic("bad number " + s)
	}
	return n
}

func parseInts(s string) []int {
	if s == "-" {
		return nil
	}
	var out []int
	for _, p := range strings.Split(s, ",") {
		out = append(out, atoi(p))
	}
	return out
}

func (s *state) exec(c *h.Ctx, op string) string {
	f := strings.Fields(op)
	if strings.HasPrefix(f[0], "big") {
		// huge-record ops: same operations, records fingerprinted with fp, record level only
		switch f[0] {
		case "bigopen", "biglog", "bigclose", "bigread", "bigliveread", "bigliveall":
			s.big = true
			f[0] = f[0][3:]
		default:
			return "bad-op"
		}
	}
	none := s.mode == compression.None || s.mode == ""
	switch f[0] {
	case "open":
		if s.w != nil || s.closed {
			return "bad-op"
		}
		s.pps = atoi(f[1])
		s.mode = compression.Type(f[2])
		s.ensureOpen()
		return "ok"
	case "log":
		if s.closed {
			return "closed"
		}
		s.ensureOpen()
		none = s.mode == compression.None
		var recs [][]byte
		if f[1] != "-" {
			runs := 0
			for _, p := range strings.Split(f[1], ",") {
				if s.big && strings.HasPrefix(p, "r") { // r<n>x<byte>: n copies of one byte
					ls := strings.SplitN(p[1:], "x", 2)
					if len(ls) != 2 || atoi(ls[1]) > 255 {
						panic("bad run " + p)
					}
					recs = append(recs, runRec(atoi(ls[0]), byte(atoi(ls[1])), runs > 0))
					runs++
					continue
				}
				ls := strings.SplitN(p, ":", 2)
				recs = append(recs, genRec(atoi(ls[0]), atoi(ls[1])))
			}
		}
		if err := s.w.Log(recs...); err != nil {
			return "error:" + classify(err.Error())
		}
		if !none || s.big {
			return "ok"
		}
		n := s.nsegs()
		cur := s.segBytes(n - 1)
		return fmt.Sprintf("ok segs=%d cur=%d:%s", n, len(cur), fnv64(cur))
	case "close":
		s.ensureOpen()
		none = s.mode == compression.None
		if !s.closed {
			if err := s.w.Close(); err != nil {
				return "error:" + classify(err.Error())
			}
			s.closed = true
		}
		if !none || s.big {
			return "ok"
		}
		var parts []string
		for k := 0; k < s.nsegs(); k++ {
			b := s.segBytes(k)
			parts = append(parts, fmt.Sprintf("%d:%s", len(b), fnv64(b)))
		}
		return "ok " + strings.Join(parts, ",")
	case "dump":
		s.ensureOpen()
		k, off, n := atoi(f[1]), atoi(f[2]), atoi(f[3])
		if k >= s.nsegs() {
			return "no-segment"
		}
		b := s.segBytes(k)
		if off > len(b) {
			off = len(b)
		}
		if off+n > len(b) {
			n = len(b) - off
		}
		return h.Hex(b[off : off+n])
	case "read":
		s.ensureOpen()
		return readDir(s.dir, s.id)
	case "readtrunc":
		s.ensureOpen()
		k, n := atoi(f[1]), atoi(f[2])
		d := s.scratch(k)
		defer os.RemoveAll(d)
		if k < s.nsegs() {
			b := s.segBytes(k)
			if n < len(b) {
				b = b[:n]
			}
			if err := os.WriteFile(segName(d, k), b, 0o666); err != nil {
				panic(err)
			}
		}
		return readDir(d, recID)
	case "readmut":
		s.ensureOpen()
		k, off, v := atoi(f[1]), atoi(f[2]), atoi(f[3])
		d := s.scratch(s.nsegs() - 1)
		defer os.RemoveAll(d)
		if k < s.nsegs() {
			b := s.segBytes(k)
			if off < len(b) {
				b[off] ^= byte(v)
			}
			if err := os.WriteFile(segName(d, k), b, 0o666); err != nil {
				panic(err)
			}
		}
		return readDir(d, recID)
	case "rawtrunc":
		s.ensureOpen()
		n := atoi(f[1])
		var all []byte
		for k := 0; k < s.nsegs(); k++ {
			all = append(all, s.segBytes(k)...)
		}
		if n < len(all) {
			all = all[:n]
		}
		r := wlog.NewReader(bytes.NewReader(all))
		var rs []string
		for r.Next() {
			rs = append(rs, recID(r.Record()))
		}
		st := "eof"
		if err := r.Err(); err != nil {
			var ce *wlog.CorruptionErr
			if errors.As(err, &ce) {
				st = "err:" + classify(ce.Err.Error())
			} else {
				st = "err:" + classify(err.Error())
			}
		}
		return showRecs(rs) + " " + st
	case "liveread":
		s.ensureOpen()
		var rs []string
		for {
			if s.liveF == nil {
				if s.liveSeg >= s.nsegs() {
					return showRecs(rs) + " eof"
				}
				var err error
				s.liveF, err = os.Open(segName(s.dir, s.liveSeg))
				if err != nil {
					panic(err)
				}
				s.liveLR = wlog.NewLiveReader(promslog.NewNopLogger(), lrMetrics, s.liveF)
			}
			for s.liveLR.Next() {
				rs = append(rs, s.id(s.liveLR.Record()))
			}
			st := lrStatus(s.liveLR.Err())
			if st != "eof" {
				return showRecs(rs) + " " + st
			}
			if s.liveSeg+1 < s.nsegs() {
				// the writer has moved on: this segment is complete
				s.liveF.Close()
				s.liveF = nil
				s.liveSeg++
				continue
			}
			return showRecs(rs) + " eof"
		}
	case "liveall":
		s.ensureOpen()
		perm := parseInts(f[1])
		var all []string
		for k := 0; k < s.nsegs(); k++ {
			b := s.segBytes(k)
			var cuts []int
			for _, p := range perm {
				cuts = append(cuts, len(b)*p/1000)
			}
			cuts = append(cuts, len(b))
			per, status := liveObserve(b, cuts, s.id)
			for _, rs := range per {
				all = append(all, rs...)
			}
			if st := status[len(status)-1]; st != "eof" {
				return showRecs(all) + " " + st
			}
		}
		return showRecs(all) + " eof"
	case "livecuts":
		s.ensureOpen()
		k := atoi(f[1])
		if k >= s.nsegs() {
			return "no-segment"
		}
		per, status := liveObserve(s.segBytes(k), parseInts(f[2]), recID)
		return showObs(per, status)
	case "livemut":
		s.ensureOpen()
		k, off, v := atoi(f[1]), atoi(f[2]), atoi(f[3])
		if k >= s.nsegs() {
			return "no-segment"
		}
		b := s.segBytes(k)
		if off < len(b) {
			b[off] ^= byte(v)
		}
		per, status := liveObserve(b, []int{len(b)}, recID)
		return showObs(per, status)
	}
	return "bad-op"
}

var caseSeq int

// tmpBase prefers a memory-backed directory: every segment close fsyncs, which dominates the run on disk.
func tmpBase() string {
	if d := os.Getenv("VERIF_TMP"); d != "" {
		return d
	}
	if st, err := os.Stat("/dev/shm"); err == nil && st.IsDir() {
		return "/dev/shm"
	}
	return ""
}

func runCase(c *h.Ctx, ops []string) {
	caseSeq++
	root, err := os.MkdirTemp(tmpBase(), "verif-wal-")
	if err != nil {
		panic(err)
	}
	s := &state{root: root, dir: filepath.Join(root, "wal")}
	defer s.cleanup()
	hung := false
	for _, op := range ops {
		// judge-only ops (`big*`): the observation travels in the op line (`<op> | <observation>`), the
		// implementation column is `-`; a replayed line has its old observation stripped and re-made.
		big := strings.HasPrefix(op, "big")
		if big {
			if i := strings.Index(op, " | "); i >= 0 {
				op = op[:i]
			}
		}
		emit := func(out string) {
			if big {
				c.Op(op+" | "+out, "-")
			} else {
				c.Op(op, out)
			}
		}
		deadline := opDeadline
		if big {
			deadline = bigOpDeadline
		}
		if hung {
			emit("abandoned")
			continue
		}
		// A reader that stops making progress must not stall the run: every op gets a deadline, and a case
		// whose op hangs is abandoned (the stuck goroutine is left behind; the process exits at the end).
		res := make(chan string, 1)
		t0 := time.Now()
		go func() {
			var out string
			if p, v := h.Try(func() { out = s.exec(c, op) }); p {
				out = "panic:" + strings.ReplaceAll(fmt.Sprint(v), " ", "_")
			}
			res <- out
		}()
		var out string
		select {
		case out = <-res:
		case <-time.After(deadline):
			out = "hang"
			hung = true
			c.Count("out:hang")
		}
		if strings.HasPrefix(out, "panic:") {
			c.Count("out:panic")
		}
		emit(out)
		if big && !hung {
			// collect the readers' record buffers now so that the next op reuses their pages: touching
			// fresh memory is by far the most expensive part of these cases
			runtime.GC()
		}
		if os.Getenv("VERIF_WAL_TIMING") != "" {
			fmt.Fprintf(os.Stderr, "%8.3fs %.60s\n", time.Since(t0).Seconds(), op)
		}
	}
	s.hung = hung
	if hung {
		hungCases++
	}
	if s.big && !hung {
		// drop the live reader's record buffer before the next case
		s.cleanup()
		s.root = ""
		s.liveLR = nil
		runtime.GC()
	}
}

const opDeadline = 8 * time.Second

// a 128 MiB record is written/read in well under a second; the margin is for a loaded machine
const bigOpDeadline = 120 * time.Second

var hungCases int

// ---- generation-side bookkeeping (targets boundary sizes and offsets; not an oracle) ----

type framePos struct{ seg, off, n int }

type sim struct {
	pps    int
	seg    int
	cur    int // bytes in the active segment
	frames []framePos
}

func (m *sim) left() int {
	return (pageSize - m.cur%pageSize) - 7 + (pageSize-7)*(m.pps-m.cur/pageSize-1)
}

func (m *sim) log(n int) {
	if n > m.left() {
		m.seg++
		m.cur = 0
	}
	for i := 0; i == 0 || n > 0; i++ {
		alloc := m.cur % pageSize
		l := min(n, pageSize-alloc-7)
		m.frames = append(m.frames, framePos{m.seg, m.cur, l})
		m.cur += 7 + l
		if pageSize-m.cur%pageSize < 7 {
			m.cur += pageSize - m.cur%pageSize
		}
		n -= l
	}
}

func pickSize(r *h.Rng, m *sim, budget int) int {
	room := pageSize - m.cur%pageSize - 7
	var n int
	switch r.Intn(14) {
	case 0:
		n = 0
	case 1:
		n = 1 + r.Intn(3)
	case 2, 3:
		n = r.Intn(200)
	case 4:
		n = room + r.Intn(3) - 1 // fills the page ±1
	case 5:
		n = room - 7 + r.Intn(3) - 1 // leaves exactly 7±1 bytes in the page
	case 6:
		n = room - r.Intn(9) // leaves 0..8
	case 7:
		n = (1+r.Intn(3))*(pageSize-7) + r.Intn(3) - 1
	case 8:
		n = m.left() + r.Intn(3) - 1 // segment remainder ±1
	case 9:
		n = room + (1+r.Intn(2))*(pageSize-7) + r.Intn(3) - 1 // ends exactly at a later page end ±1
	case 10:
		n = m.pps*(pageSize-7) + r.Intn(3) - 1 // a whole segment ±1
	case 11:
		n = m.pps*(pageSize-7) + 1 + r.Intn(40000) // larger than a segment
	case 12:
		n = 200 + r.Intn(5000)
	default:
		n = r.Intn(40000)
	}
	if n < 0 {
		n = 0
	}
	if n > budget {
		n = r.Intn(300)
	}
	return n
}

func genCase(c *h.Ctx, id string, mode string) {
	r := c.Rng
	ppsPool := []int{2, 2, 2, 3, 4}
	if c.Tier == "thorough" {
		ppsPool = []int{2, 2, 3, 4, 8}
	}
	pps := h.Pick(r, ppsPool)
	m := &sim{pps: pps}
	budget := (pps*3/2 + 1) * pageSize
	if r.Chance(25) {
		budget = (2*pps + 1) * pageSize
	}
	var ops []string
	ops = append(ops, fmt.Sprintf("open %d %s", pps, mode))
	nb := 1 + r.Intn(7)
	nrec := 0
	smallOnly := r.Chance(15) // many small records: page padding and zero-length records dominate
	for b := 0; b < nb; b++ {
		k := 1 + r.Intn(6)
		if r.Chance(20) {
			k = 1 + r.Intn(20)
		}
		if r.Chance(3) {
			k = 0
		}
		var parts []string
		for j := 0; j < k; j++ {
			var n int
			if smallOnly && !r.Chance(10) {
				n = r.Intn(40)
				if r.Chance(30) {
					n = 0
				}
			} else {
				n = pickSize(r, m, budget)
			}
			budget -= n + 7
			m.log(n)
			nrec++
			parts = append(parts, fmt.Sprintf("%d:%d", n, r.Intn(256)))
			c.Count(sizeClass(n, pps))
		}
		if len(parts) == 0 {
			ops = append(ops, "log -")
		} else {
			ops = append(ops, "log "+strings.Join(parts, ","))
		}
		if r.Chance(70) {
			ops = append(ops, "liveread")
		}
	}
	ops = append(ops, "close", "liveread", "read")
	c.Count("mode:" + mode)
	c.Count(fmt.Sprintf("pps:%d", pps))
	c.Count(fmt.Sprintf("segments:%d", min(m.seg+1, 4)))
	nseg := m.seg + 1
	segLen := func(k int) int { // final length of segment k per the bookkeeping (page aligned)
		end := 0
		for _, f := range m.frames {
			if f.seg == k && f.off+7+f.n > end {
				end = f.off + 7 + f.n
			}
		}
		return (end + pageSize - 1) / pageSize * pageSize
	}
	perm := func() string {
		n := 1 + r.Intn(6)
		ps := make([]int, n)
		for i := range ps {
			ps[i] = r.Intn(1001)
		}
		sort.Ints(ps)
		ss := make([]string, n)
		for i, p := range ps {
			ss[i] = strconv.Itoa(p)
		}
		return strings.Join(ss, ",")
	}
	ops = append(ops, "liveall "+perm())
	if mode == "none" && len(m.frames) > 0 {
		// interesting offsets: around fragment headers, fragment ends and page boundaries
		pickOff := func() (int, int) {
			f := h.Pick(r, m.frames)
			cands := []int{f.off, f.off + 1, f.off + 2, f.off + 3, f.off + 6, f.off + 7, f.off + 8, f.off + 7 + f.n - 1, f.off + 7 + f.n, f.off + 7 + f.n + 1,
				(f.off/pageSize + 1) * pageSize, (f.off/pageSize+1)*pageSize - 1, (f.off/pageSize+1)*pageSize + 1, f.off + 7 + r.Intn(f.n+1)}
			o := h.Pick(r, cands)
			if o < 0 {
				o = 0
			}
			return f.seg, o
		}
		ops = append(ops, fmt.Sprintf("dump 0 0 %d", 16+r.Intn(48)))
		for i := 0; i < 2; i++ {
			k, o := pickOff()
			lo := max(0, o-12)
			ops = append(ops, fmt.Sprintf("dump %d %d %d", k, lo, 32))
		}
		for i := 0; i < 3; i++ {
			k, o := pickOff()
			ops = append(ops, fmt.Sprintf("readtrunc %d %d", k, o))
		}
		for i := 0; i < 2; i++ {
			k, o := pickOff()
			tot := o
			for j := 0; j < k; j++ {
				tot += segLen(j)
			}
			ops = append(ops, fmt.Sprintf("rawtrunc %d", tot))
		}
		xorMasks := []int{1, 2, 3, 4, 5, 6, 7, 0x20, 0x40, 0x80, 0xe7, 0x81}
		for i := 0; i < 3; i++ {
			k, o := pickOff()
			// the value is an XOR mask; bits 3 and 4 (compression flags of a type byte) are never flipped
			ops = append(ops, fmt.Sprintf("readmut %d %d %d", k, o, h.Pick(r, xorMasks)))
		}
		for i := 0; i < 2; i++ {
			k, o := pickOff()
			ops = append(ops, fmt.Sprintf("livemut %d %d %d", k, o, h.Pick(r, xorMasks)))
		}
		for i := 0; i < 2; i++ {
			k := r.Intn(nseg)
			sl := segLen(k)
			var cuts []int
			nc := 2 + r.Intn(10)
			for j := 0; j < nc; j++ {
				kk, o := pickOff()
				if kk != k || r.Chance(20) {
					o = r.Intn(sl + 1)
				}
				cuts = append(cuts, min(o, sl))
			}
			sort.Ints(cuts)
			cuts = append(cuts, sl)
			ss := make([]string, len(cuts))
			for j, x := range cuts {
				ss[j] = strconv.Itoa(x)
			}
			ops = append(ops, fmt.Sprintf("livecuts %d %s", k, strings.Join(ss, ",")))
		}
	}
	c.Case(id)
	c.NonTrivial(strings.Join(ops[:min(len(ops), nb*2+2)], ";"))
	runCase(c, ops)
}

// ---- huge records (judge-only cases) ----

// ordSpecs draws k ordinary records `len:seed` (empty, tiny, around a page, a few pages).
func ordSpecs(r *h.Rng, k int) []string {
	var parts []string
	for j := 0; j < k; j++ {
		var n int
		switch r.Intn(6) {
		case 0:
			n = 0
		case 1:
			n = 1 + r.Intn(40)
		case 2:
			n = pageSize - 7 + r.Intn(3) - 1
		case 3:
			n = r.Intn(3 * pageSize)
		default:
			n = r.Intn(3000)
		}
		parts = append(parts, fmt.Sprintf("%d:%d", n, r.Intn(256)))
	}
	return parts
}

// How much reading a huge-record case does.  Every reader holds a decoded copy of the run, and touching
// fresh memory is what these cases cost, so the biggest ones read less.
const (
	bigFull   = iota // tailed while written, Reader, fresh LiveReaders over growing prefixes
	bigNoTail        // Reader, then fresh LiveReaders: one decoded copy at a time
	bigLite          // one LiveReader over the closed files, then Reader (uncompressed logs of 32 MiB and more)
)

// genBig: ordinary records, one run record of n bytes (optionally a second, different one), ordinary
// records; the log is tailed while written, closed, read with Reader and LiveReader.
func genBig(c *h.Ctx, id, mode string, pps, n, n2 int, level int) {
	r := c.Rng
	fill := 1 + r.Intn(255)
	var ops []string
	logOp := func(parts []string) {
		if len(parts) == 0 {
			ops = append(ops, "biglog -")
		} else {
			ops = append(ops, "biglog "+strings.Join(parts, ","))
		}
	}
	live := func(p int) {
		if r.Chance(p) && level == bigFull {
			ops = append(ops, "bigliveread")
		}
	}
	ops = append(ops, fmt.Sprintf("bigopen %d %s", pps, mode))
	logOp(ordSpecs(r, 1+r.Intn(3)))
	live(50)
	// the run record alone in its batch, or with ordinary records around it in the same batch
	run := []string{fmt.Sprintf("r%dx%d", n, fill)}
	if r.Chance(40) {
		run = append(ordSpecs(r, 1), run...)
	}
	if r.Chance(40) {
		run = append(run, ordSpecs(r, 1)...)
	}
	logOp(run)
	live(100)
	logOp(ordSpecs(r, 1+r.Intn(3)))
	if n2 > 0 {
		// a second run with another fill: the readers reuse their (larger or smaller) record buffers
		logOp([]string{fmt.Sprintf("r%dx%d", n2, (fill+1+r.Intn(254))%256)})
		live(50)
		logOp(ordSpecs(r, 1))
	}
	ops = append(ops, "bigclose")
	live(100)
	perm := fmt.Sprintf("bigliveall %d,%d", r.Intn(500), 500+r.Intn(501))
	if level == bigLite {
		ops = append(ops, "bigliveread", "bigread")
	} else {
		ops = append(ops, "bigread", perm)
	}
	c.Count("big:mode:" + mode)
	c.Count(fmt.Sprintf("big:pps:%d", pps))
	c.Count(fmt.Sprintf("big:size:2^%d", bitLen(n+1)-1))
	if n2 > 0 {
		c.Count("big:two-runs")
	}
	c.Count(fmt.Sprintf("big:level:%d", level))
	c.Case(id)
	c.NonTrivial(strings.Join(ops, ";"))
	runCase(c, ops)
}

func bitLen(n int) int {
	k := 0
	for ; n > 0; n >>= 1 {
		k++
	}
	return k
}

// genBigCases: quick = four cases (a 1 MiB+1 record uncompressed, 2 MiB-1 snappy, and 64 MiB+1 and
// 128 MiB+1 with zstd, whose on-disk size is a few KiB; the last one is not tailed, so that the whole
// tier touches about 128 MiB for the record written plus 128 MiB for decoded copies).
// thorough = the sizes 2^k-1, 2^k, 2^k+1 for k = 20..27 with zstd, snappy and none and one of three
// segment sizes (64 KiB, 256 KiB, the default 128 MiB) in rotation, zstd at 2^k+1 with all three;
// uncompressed from 32 MiB on only 2^k+1 and less reading (each such case moves about 1 GiB);
// plus cases with two runs.
func genBigCases(c *h.Ctx) {
	if c.Tier != "thorough" {
		genBig(c, "big0", "none", 2, 1<<20+1, 0, bigFull)
		genBig(c, "big1", "snappy", 8, 2<<20-1, 0, bigFull)
		genBig(c, "big2", "zstd", 2, 64<<20+1, 0, bigFull)
		genBig(c, "big3", "zstd", 4096, 128<<20+1, 0, bigNoTail)
		return
	}
	i := 0
	next := func() string { i++; return fmt.Sprintf("big%d", i-1) }
	ppsPool := []int{2, 8, 4096}
	rot := 0
	for k := 20; k <= 27; k++ {
		for d := -1; d <= 1; d++ {
			n := 1<<k + d
			rot++
			if d == 1 {
				for _, pps := range ppsPool {
					genBig(c, next(), "zstd", pps, n, 0, bigFull)
				}
			} else {
				genBig(c, next(), "zstd", ppsPool[(rot+2)%3], n, 0, bigFull)
			}
			genBig(c, next(), "snappy", ppsPool[rot%3], n, 0, bigFull)
			switch {
			case k < 25:
				genBig(c, next(), "none", ppsPool[(rot+1)%3], n, 0, bigFull)
			case d == 1:
				genBig(c, next(), "none", ppsPool[(rot+1)%3], n, 0, bigLite)
			}
		}
	}
	for _, mode := range []string{"snappy", "zstd"} {
		genBig(c, next(), mode, 2, 64<<20+1, 16<<20+1, bigFull)
		genBig(c, next(), mode, 4, 4<<20, 32<<20+1, bigFull)
		genBig(c, next(), mode, 4096, 32<<20-1, 32<<20-1, bigNoTail)
	}
	genBig(c, next(), "none", 2, 8<<20+1, 2<<20+1, bigFull)
	genBig(c, next(), "none", 4096, 1<<20, 4<<20+1, bigFull)
	genBig(c, next(), "none", 8, 2<<20-1, 2<<20-1, bigNoTail)
}

func sizeClass(n, pps int) string {
	switch {
	case n == 0:
		return "rec:0"
	case n <= 200:
		return "rec:1-200"
	case n < pageSize-7:
		return "rec:<page"
	case n <= pps*(pageSize-7):
		return "rec:multi-page"
	default:
		return "rec:>segment"
	}
}

func main() {
	c := h.Init()
	defer c.Finish()
	if c.Replay != "" {
		for _, cs := range c.ReplayCases() {
			c.Case(strings.TrimPrefix(cs[0], "case "))
			runCase(c, cs[1:])
		}
		return
	}
	for i := 0; i < c.N && hungCases < 4; i++ {
		mode := "none"
		switch {
		case i%8 == 5:
			mode = "snappy"
		case i%8 == 7:
			mode = "zstd"
		}
		genCase(c, fmt.Sprintf("w%d", i), mode)
	}
	// after the ordinary cases, so that those are the same as before for a given seed
	if c.N > 0 && hungCases < 4 {
		genBigCases(c)
	}
}
