// Suite rwsend (C40): a real remote.QueueManager (storage/remote/queue_manager.go) fed through
// StoreSeries/SeriesReset/Append/AppendHistograms against a scripted fake WriteClient that decodes the
// snappy-compressed protobuf (remote write 1.0 and 2.0) requests and records what the endpoint received.
//
// One case = one QueueManager (MinShards = MaxShards so that updateShardsLoop never reshards by itself;
// resharding is requested at generated points through the unexported reshardChan, exactly as
// updateShardsLoop does).  Two modes:
//
//	det   BatchSendDeadline is one hour (only full batches and flushes are sent), the feed is synchronous,
//	      the fake client blocks from the start of an epoch or not at all, every reshard is waited for, and a
//	      hard shutdown is forced with a 20 ms flush deadline while every Store call is blocked. Everything the
//	      endpoint observes per series is then determined by the ops, and the model must predict it exactly.
//	race  small BatchSendDeadline, the feed runs in its own goroutine (WAL order), the client is blocked and
//	      released and reshards are requested while the feed is running; only recoverable errors are scripted
//	      and the flush deadline is two minutes, so the model predicts complete in-order delivery and the raw
//	      observation (with its schedule dependent duplicates) is judged.
//
// ops:
//
//	cfg mode=<det|race> v=<1|2> cap=<c> mss=<m> n=<n> age=<0|1> bsd=<ms> [rl=1]
//	ext <hexname> <hexvalue> …       (rl=1, before the first feed op) the external labels; default none
//	rule <action> <l|u> <srcs> <sep> <regex> <modulus> <target> <replacement>
//	                                  (rl=1, before the first feed op) one write_relabel_config, in the line
//	                                  format of suite `relabel`; out `ok` | `invalid` (Validate rejects it, not used)
//	                                  Without rl=1: external labels ext="e" zone="z", rules drop d=~"1" and
//	                                  replace s -> t="x$1" (the legacy configuration)
//	lseries <ref> <seg> <hexname> <hexvalue> …   StoreSeries with these labels
//	script <id> <outcomes>            the batch whose first scripted sample is <id> is answered, attempt by
//	                                  attempt, r = recoverable error (request lost), R = recoverable error after
//	                                  the endpoint stored the request, u = non-recoverable error; then success
//	series <ref> <lid> <keep|drop|own> <seg>   StoreSeries (drop: carries d="1", dropped by write relabeling;
//	                                  own: carries its own value of the external label `ext`)
//	sreset <seg>                      SeriesReset
//	app <ref> <id> <f|h> <fresh|old>  one float / histogram sample through Append / AppendHistograms
//	block | release                   fake client: hold every Store call / let them go
//	reshard <n> <soft|hard>           request n shards (hard: det mode, client blocked, flush deadline 20 ms)
//	sync | pause <us>                 race mode: wait for the feeder / sleep
//	end <soft|hard> raw=… reached=… unrec=… okn=… att=… failed=… pend=… inc=<0|1>
//	                                  Stop(); the tokens after the mode are OBSERVATIONS of this run
//
// outputs: `ok` for every op but `end`, which prints
//
//	recv=<ref>:<id>.<id>…;… att=<n|*> failed=<n|*> retried=<n|*> old=<n> dser=<n> dunk=<n> bad=<n> sentdiff=<n> pend=<n|*> lbl=<ref>=<listing>[|<listing>];…
//
// recv is the raw per-series receive sequence in det mode and its first occurrences in race mode. A received
// sample is attributed to the ref of the `app` op with its id (the sample value), never by its labels; lbl lists
// per ref the distinct label sets (hexname:hexvalue,… in wire order) its samples arrived with. Whether a series
// is kept and which labels it must carry is decided on the Lean side only.
package main

import (
	"context"
	"errors"
	"fmt"
	"os"
	"runtime"
	"sort"
	"strconv"
	"strings"
	"sync"
	"time"

	"github.com/golang/snappy"
	remoteapi "github.com/prometheus/client_golang/exp/api/remote"
	"github.com/prometheus/common/model"

	"github.com/prometheus/prometheus/config"
	"github.com/prometheus/prometheus/model/histogram"
	"github.com/prometheus/prometheus/model/labels"
	"github.com/prometheus/prometheus/model/relabel"
	"github.com/prometheus/prometheus/prompb"
	writev2 "github.com/prometheus/prometheus/prompb/io/prometheus/write/v2"
	"github.com/prometheus/prometheus/storage/remote"
	"github.com/prometheus/prometheus/tsdb/chunks"
	"github.com/prometheus/prometheus/tsdb/record"

	"verif/harness/h"
)

// ---------------------------------------------------------------- fake endpoint

type item struct {
	key  string // label listing hexname:hexvalue,… in wire order
	t    int64
	id   int
	hist bool
}

type fakeClient struct {
	v2 bool

	mu        sync.Mutex
	gate      chan struct{} // non-nil while blocked
	script    map[int]string
	idRef     map[int]int             // sample id -> ref of its app op
	lbl       map[int]map[string]bool // ref -> label listings seen
	baseT     int64
	raw       map[int][]int // ref -> received ids in arrival order
	reached   map[int]bool  // ids stored by the endpoint in a request that was answered with an error
	unrec     map[int]bool  // ids of requests answered with a non-recoverable error
	okn       int           // samples in requests answered with success
	att       int           // samples in all Store calls (counted at entry)
	bad       int
	badDetail []string
}

func (c *fakeClient) Name() string     { return "verif" }
func (c *fakeClient) Endpoint() string { return "http://verif.invalid/write" }

func (c *fakeClient) decode(req []byte) ([]item, error) {
	raw, err := snappy.Decode(nil, req)
	if err != nil {
		return nil, err
	}
	var out []item
	b := labels.NewScratchBuilder(0)
	if c.v2 {
		var r writev2.Request
		if err := r.Unmarshal(raw); err != nil {
			return nil, err
		}
		for _, ts := range r.Timeseries {
			l, err := ts.ToLabels(&b, r.Symbols)
			if err != nil {
				return nil, err
			}
			for _, s := range ts.Samples {
				out = append(out, item{key: listing(l), t: s.Timestamp, id: int(s.Value)})
			}
			for _, hh := range ts.Histograms {
				out = append(out, item{key: listing(l), t: hh.Timestamp, id: int(hh.Sum), hist: true})
			}
		}
		return out, nil
	}
	var r prompb.WriteRequest
	if err := r.Unmarshal(raw); err != nil {
		return nil, err
	}
	for _, ts := range r.Timeseries {
		l := ts.ToLabels(&b, nil)
		for _, s := range ts.Samples {
			out = append(out, item{key: listing(l), t: s.Timestamp, id: int(s.Value)})
		}
		for _, hh := range ts.Histograms {
			out = append(out, item{key: listing(l), t: hh.Timestamp, id: int(hh.Sum), hist: true})
		}
	}
	return out, nil
}

var errFake = errors.New("fake endpoint error")

func (c *fakeClient) Store(ctx context.Context, req []byte, attempt int) (remote.WriteResponseStats, error) {
	items, err := c.decode(req)
	c.mu.Lock()
	if err != nil {
		c.bad++
		c.badDetail = append(c.badDetail, "undecodable")
	}
	c.att += len(items)
	c.mu.Unlock()
	for {
		c.mu.Lock()
		g := c.gate
		c.mu.Unlock()
		if g == nil {
			break
		}
		select {
		case <-g:
		case <-ctx.Done():
			return remote.WriteResponseStats{}, ctx.Err()
		}
	}
	c.mu.Lock()
	defer c.mu.Unlock()
	outcome := byte('k')
	for _, it := range items {
		if s, ok := c.script[it.id]; ok {
			if attempt < len(s) {
				outcome = s[attempt]
			}
			break
		}
	}
	record := func() {
		for _, it := range items {
			ref, ok := c.idRef[it.id]
			if !ok {
				c.bad++
				c.badDetail = append(c.badDetail, fmt.Sprintf("unknown-id:%d", it.id))
				continue
			}
			if c.lbl[ref] == nil {
				c.lbl[ref] = map[string]bool{}
			}
			c.lbl[ref][it.key] = true
			if it.t != c.baseT+int64(it.id) && it.t != c.baseT-3600_000+int64(it.id) {
				c.bad++
				c.badDetail = append(c.badDetail, fmt.Sprintf("timestamp:%d", it.id))
			}
			c.raw[ref] = append(c.raw[ref], it.id)
		}
	}
	switch outcome {
	case 'r':
		return remote.WriteResponseStats{}, remote.VerifRecoverable(errFake, 0)
	case 'R':
		record()
		for _, it := range items {
			c.reached[it.id] = true
		}
		return remote.WriteResponseStats{}, remote.VerifRecoverable(errFake, 0)
	case 'u':
		for _, it := range items {
			c.unrec[it.id] = true
		}
		return remote.WriteResponseStats{}, errFake
	}
	record()
	c.okn += len(items)
	rs := remote.WriteResponseStats{Confirmed: true}
	for _, it := range items {
		if it.hist {
			rs.Histograms++
		} else {
			rs.Samples++
		}
	}
	return rs, nil
}

func (c *fakeClient) block() {
	c.mu.Lock()
	if c.gate == nil {
		c.gate = make(chan struct{})
	}
	c.mu.Unlock()
}

func (c *fakeClient) release() {
	c.mu.Lock()
	if c.gate != nil {
		close(c.gate)
		c.gate = nil
	}
	c.mu.Unlock()
}

// ---------------------------------------------------------------- running one case

func listing(ls labels.Labels) string {
	var parts []string
	ls.Range(func(l labels.Label) {
		parts = append(parts, h.HexS(l.Name)+":"+h.HexS(l.Value))
	})
	if len(parts) == 0 {
		return "-"
	}
	return strings.Join(parts, ",")
}

func lblMap(m map[int]map[string]bool) string {
	var refs []int
	for r := range m {
		refs = append(refs, r)
	}
	sort.Ints(refs)
	var parts []string
	for _, r := range refs {
		var ls []string
		for l := range m[r] {
			ls = append(ls, l)
		}
		sort.Strings(ls)
		parts = append(parts, strconv.Itoa(r)+"="+strings.Join(ls, "|"))
	}
	if len(parts) == 0 {
		return "-"
	}
	return strings.Join(parts, ";")
}

func unhexPairs(f []string) (labels.Labels, bool) {
	if len(f)%2 != 0 {
		return labels.EmptyLabels(), false
	}
	kv := make([]string, len(f))
	for i, x := range f {
		kv[i] = string(h.UnHex(x))
	}
	return labels.FromStrings(kv...), true
}

// parseRule reads a `rule` line (format of suite relabel).
func parseRule(f []string) (*relabel.Config, error) {
	if len(f) != 8 {
		return nil, fmt.Errorf("bad rule arity")
	}
	cfg := &relabel.Config{Action: relabel.Action(f[0])}
	switch f[1] {
	case "l":
		cfg.NameValidationScheme = model.LegacyValidation
	case "u":
		cfg.NameValidationScheme = model.UTF8Validation
	default:
		return nil, fmt.Errorf("bad scheme")
	}
	switch f[2] {
	case "nil":
	case "none":
		cfg.SourceLabels = model.LabelNames{}
	default:
		for _, s := range strings.Split(f[2], ",") {
			cfg.SourceLabels = append(cfg.SourceLabels, model.LabelName(h.UnHex(s)))
		}
	}
	cfg.Separator = string(h.UnHex(f[3]))
	if f[4] == "D" {
		cfg.Regex = relabel.DefaultRelabelConfig.Regex
	} else {
		re, err := relabel.NewRegexp(string(h.UnHex(f[4])))
		if err != nil {
			return nil, err
		}
		cfg.Regex = re
	}
	m, err := strconv.ParseUint(f[5], 10, 64)
	if err != nil {
		return nil, err
	}
	cfg.Modulus = m
	cfg.TargetLabel = string(h.UnHex(f[6]))
	cfg.Replacement = string(h.UnHex(f[7]))
	return cfg, nil
}

func seriesLabels(lid int, kind string) labels.Labels {
	switch kind {
	case "drop":
		return labels.FromStrings("__name__", "m", "s", strconv.Itoa(lid), "d", "1")
	case "own":
		return labels.FromStrings("__name__", "m", "s", strconv.Itoa(lid), "ext", "own")
	}
	return labels.FromStrings("__name__", "m", "s", strconv.Itoa(lid))
}

func kv(tok string) (string, string) {
	i := strings.IndexByte(tok, '=')
	if i < 0 {
		return tok, ""
	}
	return tok[:i], tok[i+1:]
}

func atoi(s string) int { n, _ := strconv.Atoi(s); return n }

func idList(m map[int]bool) string {
	var xs []int
	for k := range m {
		xs = append(xs, k)
	}
	sort.Ints(xs)
	if len(xs) == 0 {
		return "-"
	}
	ss := make([]string, len(xs))
	for i, x := range xs {
		ss[i] = strconv.Itoa(x)
	}
	return strings.Join(ss, ".")
}

func seqMap(m map[int][]int, dedup bool) string {
	var refs []int
	for r := range m {
		refs = append(refs, r)
	}
	sort.Ints(refs)
	var parts []string
	for _, r := range refs {
		seen := map[int]bool{}
		var ss []string
		for _, id := range m[r] {
			if dedup && seen[id] {
				continue
			}
			seen[id] = true
			ss = append(ss, strconv.Itoa(id))
		}
		parts = append(parts, strconv.Itoa(r)+":"+strings.Join(ss, "."))
	}
	if len(parts) == 0 {
		return "-"
	}
	return strings.Join(parts, ";")
}

const (
	longWait  = 2 * time.Minute
	hardFlush = 20 * time.Millisecond
)

func runCase(c *h.Ctx, ops []string) {
	if len(ops) == 0 || !strings.HasPrefix(ops[0], "cfg ") {
		for _, op := range ops {
			c.Op(op, "bad-case")
		}
		return
	}
	mode, v, capa, mss, n0, age, bsd, explicit := "det", 1, 4, 2, 1, 0, 5, false
	for _, tok := range strings.Fields(ops[0])[1:] {
		k, val := kv(tok)
		switch k {
		case "mode":
			mode = val
		case "v":
			v = atoi(val)
		case "cap":
			capa = atoi(val)
		case "mss":
			mss = atoi(val)
		case "n":
			n0 = atoi(val)
		case "age":
			age = atoi(val)
		case "bsd":
			bsd = atoi(val)
		case "rl":
			explicit = val == "1"
		}
	}
	if mss < 1 || capa < 1 || n0 < 1 {
		for _, op := range ops {
			c.Op(op, "bad-case")
		}
		return
	}
	det := mode != "race"
	cfg := config.DefaultQueueConfig
	cfg.Capacity, cfg.MaxSamplesPerSend, cfg.MinShards, cfg.MaxShards = capa, mss, n0, n0
	cfg.MinBackoff, cfg.MaxBackoff = model.Duration(time.Millisecond), model.Duration(4*time.Millisecond)
	if det {
		cfg.BatchSendDeadline = model.Duration(time.Hour)
	} else {
		cfg.BatchSendDeadline = model.Duration(time.Duration(bsd) * time.Millisecond)
	}
	if age == 1 {
		cfg.SampleAgeLimit = model.Duration(10 * time.Minute)
	}
	baseT := time.Now().UnixMilli()
	cl := &fakeClient{v2: v == 2, script: map[int]string{}, idRef: map[int]int{}, lbl: map[int]map[string]bool{}, baseT: baseT,
		raw: map[int][]int{}, reached: map[int]bool{}, unrec: map[int]bool{}}
	proto := remoteapi.WriteV1MessageType
	if v == 2 {
		proto = remoteapi.WriteV2MessageType
	}
	rc := []*relabel.Config{
		{SourceLabels: model.LabelNames{"d"}, Separator: ";", Regex: relabel.MustNewRegexp("1"), Action: relabel.Drop, NameValidationScheme: model.UTF8Validation},
		{SourceLabels: model.LabelNames{"s"}, Separator: ";", Regex: relabel.MustNewRegexp("(.*)"), TargetLabel: "t", Replacement: "x$1", Action: relabel.Replace, NameValidationScheme: model.UTF8Validation},
	}
	extLabels := labels.FromStrings("ext", "e", "zone", "z")
	// configuration ops: the leading run of script/ext/rule ops (the QueueManager is built from them)
	cfgOut := map[int]string{}
	if explicit {
		extLabels, rc = labels.EmptyLabels(), nil
	}
	for i, op := range ops[1:] {
		f := strings.Fields(op)
		if len(f) == 0 || (f[0] != "script" && f[0] != "ext" && f[0] != "rule") {
			break
		}
		if !explicit || f[0] == "script" {
			continue
		}
		switch f[0] {
		case "ext":
			if ls, ok := unhexPairs(f[1:]); ok {
				extLabels = ls
				cfgOut[i+1] = "ok"
			}
		case "rule":
			r, err := parseRule(f[1:])
			if err != nil {
				cfgOut[i+1] = "unsupported"
				continue
			}
			var verr error
			if p, _ := h.Try(func() { verr = r.Validate(r.NameValidationScheme) }); p || verr != nil {
				cfgOut[i+1] = "invalid"
				continue
			}
			rc = append(rc, r)
			cfgOut[i+1] = "ok"
			c.Count("rule:" + f[1])
		}
	}
	dir := h.TempDir("rwsend")
	defer os.RemoveAll(dir)
	qm := remote.VerifNewQueueManager(dir, cfg, extLabels, rc, cl, longWait, proto, true)
	c.Op(ops[0], "ok")
	started := false
	inconclusive := false
	t0 := time.Now()

	feedOp := func(f []string) {
		switch f[0] {
		case "series":
			ref, lid, kind, seg := atoi(f[1]), atoi(f[2]), f[3], atoi(f[4])
			qm.StoreSeries([]record.RefSeries{{Ref: chunks.HeadSeriesRef(ref), Labels: seriesLabels(lid, kind)}}, seg)
		case "lseries":
			ls, _ := unhexPairs(f[3:])
			qm.StoreSeries([]record.RefSeries{{Ref: chunks.HeadSeriesRef(atoi(f[1])), Labels: ls}}, atoi(f[2]))
		case "sreset":
			qm.SeriesReset(atoi(f[1]))
		case "app":
			ref, id := atoi(f[1]), atoi(f[2])
			ts := baseT + int64(id)
			if f[4] == "old" {
				ts = baseT - 3600_000 + int64(id)
			}
			if f[3] == "h" {
				hh := &histogram.Histogram{Schema: 0, ZeroThreshold: 0.001, ZeroCount: 1, Count: 3, Sum: float64(id),
					PositiveSpans: []histogram.Span{{Offset: 0, Length: 1}}, PositiveBuckets: []int64{2}}
				qm.AppendHistograms([]record.RefHistogramSample{{Ref: chunks.HeadSeriesRef(ref), T: ts, H: hh}})
			} else {
				qm.Append([]record.RefSample{{Ref: chunks.HeadSeriesRef(ref), T: ts, V: float64(id)}})
			}
		}
	}

	feedCh := make(chan []string, 4096)
	var feedWG sync.WaitGroup
	var feedMu sync.Mutex
	feedQueued, feedDone := 0, 0
	if !det {
		feedWG.Add(1)
		go func() {
			defer feedWG.Done()
			for f := range feedCh {
				feedOp(f)
				feedMu.Lock()
				feedDone++
				feedMu.Unlock()
			}
		}()
	}
	waitFeed := func(limit time.Duration) bool {
		dl := time.Now().Add(limit)
		for {
			feedMu.Lock()
			ok := feedDone == feedQueued
			feedMu.Unlock()
			if ok {
				return true
			}
			if time.Now().After(dl) {
				return false
			}
			time.Sleep(200 * time.Microsecond)
		}
	}
	start := func() {
		if !started {
			qm.Start()
			started = true
		}
	}
	ended := false

	for i, op := range ops[1:] {
		f := strings.Fields(op)
		if len(f) == 0 || ended {
			c.Op(op, "bad-op")
			continue
		}
		switch f[0] {
		case "ext", "rule":
			if out, ok := cfgOut[i+1]; ok {
				c.Op(op, out)
			} else {
				c.Op(op, "bad-op")
			}
		case "script":
			if len(f) == 3 && !started {
				cl.mu.Lock()
				cl.script[atoi(f[1])] = f[2]
				cl.mu.Unlock()
				c.Op(op, "ok")
			} else {
				c.Op(op, "bad-op")
			}
		case "series", "lseries", "sreset", "app":
			if (f[0] == "series" && len(f) != 5) || (f[0] == "sreset" && len(f) != 2) || (f[0] == "app" && len(f) != 5) ||
				(f[0] == "lseries" && (len(f) < 3 || len(f)%2 != 1)) {
				c.Op(op, "bad-op")
				continue
			}
			start()
			if f[0] == "app" {
				cl.mu.Lock()
				cl.idRef[atoi(f[2])] = atoi(f[1])
				cl.mu.Unlock()
			}
			if det {
				feedOp(f)
			} else {
				feedMu.Lock()
				feedQueued++
				feedMu.Unlock()
				feedCh <- f
			}
			c.Op(op, "ok")
			c.Count("op:" + f[0])
		case "block":
			start()
			cl.block()
			c.Op(op, "ok")
		case "release":
			start()
			cl.release()
			c.Op(op, "ok")
		case "reshard":
			if len(f) != 3 || atoi(f[1]) < 1 {
				c.Op(op, "bad-op")
				continue
			}
			start()
			n := atoi(f[1])
			if det {
				_, _, gen0 := qm.VerifShardState()
				if f[2] == "hard" {
					qm.VerifSetFlushDeadline(hardFlush)
				} else {
					qm.VerifSetFlushDeadline(longWait)
				}
				if !qm.VerifReshard(n, longWait) {
					inconclusive = true
				} else {
					dl := time.Now().Add(2 * longWait)
					for {
						_, soft, gen := qm.VerifShardState()
						if gen != gen0 && !soft {
							break
						}
						if time.Now().After(dl) {
							inconclusive = true
							break
						}
						time.Sleep(100 * time.Microsecond)
					}
				}
				qm.VerifSetFlushDeadline(longWait)
			} else if !qm.VerifReshard(n, longWait) {
				inconclusive = true
			}
			c.Op(op, "ok")
			c.Count("op:reshard-" + f[2])
		case "sync":
			if !det && !waitFeed(longWait) {
				inconclusive = true
			}
			c.Op(op, "ok")
		case "pause":
			if len(f) == 2 {
				if us := atoi(f[1]); us > 0 {
					time.Sleep(time.Duration(us) * time.Microsecond)
				} else {
					runtime.Gosched()
				}
			}
			c.Op(op, "ok")
		case "end":
			start()
			hard := len(f) > 1 && f[1] == "hard" && det
			if !det {
				cl.release()
				if !waitFeed(longWait) {
					inconclusive = true
				}
			}
			if hard {
				qm.VerifSetFlushDeadline(hardFlush)
			} else {
				if det {
					cl.release()
				}
				qm.VerifSetFlushDeadline(longWait)
			}
			done := make(chan struct{})
			go func() { qm.Stop(); close(done) }()
			select {
			case <-done:
			case <-time.After(3 * longWait):
				inconclusive = true
			}
			cl.release()
			if !det {
				close(feedCh)
				feedWG.Wait()
			}
			ended = true
			if time.Since(t0) > longWait/2 {
				// far beyond anything a healthy run needs: a flush deadline may have been hit for lack of CPU
				inconclusive = true
			}
			cnt := qm.VerifCounters()
			cl.mu.Lock()
			inc := 0
			if inconclusive {
				inc = 1
			}
			hardSeen := hard
			for _, o := range ops {
				if strings.HasPrefix(o, "reshard ") && strings.HasSuffix(o, " hard") {
					hardSeen = true
				}
			}
			endMode := "soft"
			if hard {
				endMode = "hard"
			}
			pendN := int(cnt["pending"] + cnt["pending_histograms"])
			opLine := fmt.Sprintf("end %s raw=%s reached=%s unrec=%s okn=%d att=%d failed=%d pend=%d inc=%d", endMode, seqMap(cl.raw, false),
				idList(cl.reached), idList(cl.unrec), cl.okn, cl.att, int(cnt["failed"]+cnt["failed_histograms"]), pendN, inc)
			pend := strconv.Itoa(pendN)
			if det && hardSeen {
				pend = "*"
			}
			att, failed, retried := strconv.Itoa(cl.att), strconv.Itoa(int(cnt["failed"]+cnt["failed_histograms"])), strconv.Itoa(int(cnt["retried"]+cnt["retried_histograms"]))
			if !det {
				att, failed, retried = "*", failed, "*"
			} else if hardSeen {
				att, failed = "*", "*"
			}
			out := fmt.Sprintf("recv=%s att=%s failed=%s retried=%s old=%d dser=%d dunk=%d bad=%d sentdiff=%d pend=%s",
				seqMap(cl.raw, !det), att, failed, retried,
				int(cnt["dropped_old"]+cnt["droppedh_old"]), int(cnt["dropped_series"]+cnt["droppedh_series"]),
				int(cnt["dropped_unknown"]+cnt["droppedh_unknown"]), cl.bad,
				int(cnt["samples"]+cnt["histograms"])-cl.att, pend)
			out += " lbl=" + lblMap(cl.lbl)
			if cl.bad > 0 {
				out += " baddetail=" + h.HexS(strings.Join(cl.badDetail, "|"))
			}
			if inconclusive {
				out = "inconclusive"
				c.Count("inconclusive")
			}
			cl.mu.Unlock()
			c.Op(opLine, out)
			if len(cl.reached) > 0 {
				c.Count("run:with-reached-retry")
			}
			if len(cl.unrec) > 0 {
				c.Count("run:with-unrecoverable")
			}
			if hardSeen {
				c.Count("run:with-hard-shutdown")
			}
			if explicit {
				if int(cnt["dropped_series"]+cnt["droppedh_series"]) > 0 {
					c.Count("run:rl-samples-of-relabel-dropped-series")
				}
				if extLabels.Len() > 0 && len(rc) > 0 {
					c.Count("run:rl-ext-labels-and-rules")
				}
			}
			if int(cnt["enqueue_retries"]) > 0 {
				c.Count("run:append-waited-for-room")
			}
		default:
			c.Op(op, "bad-op")
		}
	}
	if !ended {
		// no end op (shrunk replay): shut down quietly
		cl.release()
		if !det {
			close(feedCh)
			feedWG.Wait()
		}
		if started {
			qm.Stop()
		}
	}
}

// ---------------------------------------------------------------- generation

var outcomesDet = []string{"r", "R", "rR", "Rr", "RR", "u", "ru", "Ru", "rrr", "u", "R"}
var outcomesRace = []string{"r", "R", "rR", "Rr", "RR", "rrr", "RRR"}

type gen struct {
	r      *h.Rng
	ops    []string
	nextID int
	refs   []int // declared refs
	decl   map[int]bool
	lid    int
	rl     bool     // explicit external labels + write relabel rules (cfg rl=1)
	extN   []string // names of the external labels of this case
}

// ---- external labels and write_relabel_configs (rl=1)
//
// Names: series carry __name__, s (a per-series id, so that series stay distinct unless a rule removes it)
// and a random subset of serNames; external labels take their names from extNames.  job and env are in
// both pools (collision: the series' own value must win), cluster/replica/region only ever come from the
// external labels.  Values come from one small pool so that keep/drop regexes hit and miss.
var serNames = []string{"job", "env", "dc", "team"}
var extNames = []string{"cluster", "replica", "region", "env", "job"}
var rlValues = []string{"eu", "us", "a", "b", "prod", "dev", "debug", "api", "A1"}

func hexPairs(kv ...string) string {
	p := make([]string, len(kv))
	for i, x := range kv {
		p[i] = h.HexS(x)
	}
	return strings.Join(p, " ")
}

func ruleLine(act string, srcs []string, sep, rx string, mod int, target, repl string) string {
	sl := "nil"
	if srcs != nil {
		sl = "none"
		if len(srcs) > 0 {
			p := make([]string, len(srcs))
			for i, x := range srcs {
				p[i] = h.HexS(x)
			}
			sl = strings.Join(p, ",")
		}
	}
	if rx != "D" {
		rx = h.HexS(rx)
	}
	return fmt.Sprintf("rule %s u %s %s %s %d %s %s", act, sl, h.HexS(sep), rx, mod, h.HexS(target), h.HexS(repl))
}

// pickRuleName: a label name a rule refers to; biased towards the external labels of the case.
func (g *gen) pickRuleName() string {
	r := g.r
	switch p := r.Intn(100); {
	case p < 55 && len(g.extN) > 0:
		return h.Pick(r, g.extN)
	case p < 70:
		return h.Pick(r, extNames)
	case p < 92:
		return h.Pick(r, serNames)
	case p < 96:
		return "s"
	}
	return "__name__"
}

func (g *gen) valueRegex(two bool) string {
	r := g.r
	one := func() string {
		switch r.Intn(6) {
		case 0:
			return h.Pick(r, rlValues) + "|" + h.Pick(r, rlValues)
		case 1:
			return ".+"
		case 2:
			return ".*"
		case 3:
			return "[a-e].*"
		}
		return h.Pick(r, rlValues)
	}
	if two {
		return one() + ";" + one()
	}
	return one()
}

func (g *gen) nameRegex() string {
	r := g.r
	n := 1 + r.Intn(3)
	parts := make([]string, n)
	for i := range parts {
		parts[i] = g.pickRuleName()
	}
	if r.Chance(15) {
		parts = append(parts, "re.*")
	}
	return strings.Join(parts, "|")
}

func (g *gen) genRule() []string {
	r := g.r
	srcs := func() []string {
		if r.Chance(30) {
			return []string{g.pickRuleName(), g.pickRuleName()}
		}
		return []string{g.pickRuleName()}
	}
	target := func() string {
		if r.Chance(25) {
			return h.Pick(r, []string{"tgt", "shard", "zz"})
		}
		return g.pickRuleName()
	}
	switch p := r.Intn(100); {
	case p < 24:
		sl := srcs()
		return []string{ruleLine("drop", sl, ";", g.valueRegex(len(sl) == 2), 0, "", "$1")}
	case p < 40:
		sl := srcs()
		rx := g.valueRegex(len(sl) == 2)
		if r.Chance(50) {
			rx = strings.ReplaceAll(rx, "debug", "eu") + "|.*" // keep rules that keep most series
		}
		return []string{ruleLine("keep", sl, ";", rx, 0, "", "$1")}
	case p < 54:
		return []string{ruleLine("labeldrop", nil, ";", g.nameRegex(), 0, "", "$1")}
	case p < 64:
		return []string{ruleLine("labelkeep", nil, ";", "__name__|s|"+g.nameRegex()+"|"+g.nameRegex(), 0, "", "$1")}
	case p < 82:
		sl := srcs()
		rx, repl := "(.*)", h.Pick(r, []string{"$1", "x$1", "const", "", "${1}_y"})
		if len(sl) == 2 {
			rx, repl = "(.*);(.*)", h.Pick(r, []string{"$1-$2", "$2", "$1", ""})
		} else if r.Chance(30) {
			rx = "D"
		} else if r.Chance(30) {
			rx = "(" + g.valueRegex(false) + ")"
		}
		return []string{ruleLine("replace", sl, ";", rx, 0, target(), repl)}
	case p < 88:
		act := h.Pick(r, []string{"dropequal", "keepequal"})
		return []string{ruleLine(act, []string{g.pickRuleName()}, ";", "D", 0, g.pickRuleName(), "$1")}
	case p < 92:
		act := h.Pick(r, []string{"lowercase", "uppercase"})
		return []string{ruleLine(act, []string{g.pickRuleName()}, ";", "D", 0, target(), "$1")}
	case p < 96:
		// hashmod over an (external) label, then keep one residue class
		out := []string{ruleLine("hashmod", srcs(), ";", "D", 2, "shard", "$1")}
		if r.Chance(50) {
			out = append(out, ruleLine("keep", []string{"shard"}, ";", h.Pick(r, []string{"0", "1"}), 0, "", "$1"))
		}
		return out
	}
	return []string{ruleLine("labelmap", nil, ";", "(cluster|replica|region|job)", 0, "", "x_$1")}
}

// genRL emits the ext and rule ops of an rl=1 case.
func (g *gen) genRL() {
	r := g.r
	n := r.Intn(4) // 0-3 external labels
	var kv []string
	seen := map[string]bool{}
	for i := 0; i < n; i++ {
		nm := h.Pick(r, extNames)
		if seen[nm] {
			continue
		}
		seen[nm] = true
		g.extN = append(g.extN, nm)
		kv = append(kv, nm, h.Pick(r, rlValues))
	}
	g.ops = append(g.ops, strings.TrimSpace("ext "+hexPairs(kv...)))
	for i, k := 0, r.Intn(5); i < k; i++ {
		g.ops = append(g.ops, g.genRule()...)
	}
}

func (g *gen) seriesLabelsRL() string {
	r := g.r
	kv := []string{"__name__", h.Pick(r, []string{"up", "m"}), "s", strconv.Itoa(g.lid)}
	for _, nm := range serNames {
		if r.Chance(45) {
			kv = append(kv, nm, h.Pick(r, rlValues))
		}
	}
	// sometimes the series has its own value of a label that is otherwise external-only
	if len(g.extN) > 0 && r.Chance(20) {
		nm := h.Pick(r, g.extN)
		dup := false
		for i := 0; i < len(kv); i += 2 {
			dup = dup || kv[i] == nm
		}
		if !dup {
			kv = append(kv, nm, h.Pick(r, rlValues))
		}
	}
	return hexPairs(kv...)
}

func (g *gen) declare(seg int) {
	ref := 1 + g.r.Intn(12)
	if g.decl[ref] {
		return
	}
	kind := "keep"
	switch p := g.r.Intn(100); {
	case p < 15:
		kind = "drop"
	case p < 30:
		kind = "own"
	}
	g.lid++
	g.decl[ref] = true
	g.refs = append(g.refs, ref)
	if g.rl {
		g.ops = append(g.ops, fmt.Sprintf("lseries %d %d %s", ref, seg, g.seriesLabelsRL()))
		return
	}
	g.ops = append(g.ops, fmt.Sprintf("series %d %d %s %d", ref, g.lid, kind, seg))
}

func (g *gen) pickRef() int {
	if len(g.refs) == 0 || g.r.Chance(6) {
		return 1 + g.r.Intn(14) // possibly never declared
	}
	return g.refs[g.r.Intn(len(g.refs))]
}

func genCase(c *h.Ctx, race, rl bool) []string {
	r := c.Rng
	g := &gen{r: r, decl: map[int]bool{}, rl: rl}
	capa, mss, n := int(r.Range(3, 10)), int(r.Range(2, 5)), int(r.Range(1, 4))
	if r.Chance(10) {
		mss = capa + 1 + r.Intn(2) // capacity below max_samples_per_send: one-slot channel
	}
	v := 1 + r.Intn(2)
	age := 0
	if r.Chance(30) {
		age = 1
	}
	mode := "det"
	if race {
		mode = "race"
	}
	bsd := []int{1, 2, 5, 20}[r.Intn(4)]
	cfgLine := fmt.Sprintf("cfg mode=%s v=%d cap=%d mss=%d n=%d age=%d bsd=%d", mode, v, capa, mss, n, age, bsd)
	if rl {
		cfgLine += " rl=1"
	}
	g.ops = append(g.ops, cfgLine)
	// which ids get a script is decided up front (ids are dense from 1)
	total := int(r.Range(8, 60))
	nScripts := r.Intn(5)
	for i := 0; i < nScripts; i++ {
		id := 1 + r.Intn(total)
		oc := outcomesDet
		if race {
			oc = outcomesRace
		}
		g.ops = append(g.ops, fmt.Sprintf("script %d %s", id, h.Pick(r, oc)))
	}
	if rl {
		g.genRL()
	}
	for i := 0; i < int(r.Range(2, 6)); i++ {
		g.declare(r.Intn(3))
	}
	chanCap := capa / mss
	if chanCap == 0 {
		chanCap = 1
	}
	bound := chanCap*mss + mss - 1
	blocked := false
	perShard := map[int]int{}
	reshardSinceBlock := false
	app := func() {
		ref := g.pickRef()
		if blocked && det(mode) {
			if perShard[ref%n] >= bound {
				return
			}
			perShard[ref%n]++
		}
		g.nextID++
		kind, fresh := "f", "fresh"
		if r.Chance(20) {
			kind = "h"
		}
		if age == 1 && r.Chance(12) {
			fresh = "old"
		}
		g.ops = append(g.ops, fmt.Sprintf("app %d %d %s %s", ref, g.nextID, kind, fresh))
	}
	for g.nextID < total {
		switch p := r.Intn(100); {
		case p < 70:
			// a burst: often exactly up to a batch boundary
			k := 1 + r.Intn(2*mss)
			for i := 0; i < k && g.nextID < total; i++ {
				app()
			}
			if blocked && det(mode) {
				// the feed cannot make progress once every shard is full: force a decision
				full := true
				for s := 0; s < n; s++ {
					if perShard[s] < bound {
						full = false
					}
				}
				if full {
					g.ops = append(g.ops, "release")
					blocked = false
				}
			}
		case p < 76:
			g.declare(r.Intn(3))
		case p < 79:
			g.ops = append(g.ops, fmt.Sprintf("sreset %d", 1+r.Intn(2)))
		case p < 90:
			nn := int(r.Range(1, 4))
			if race {
				if blocked && reshardSinceBlock {
					continue
				}
				g.ops = append(g.ops, fmt.Sprintf("reshard %d soft", nn))
				reshardSinceBlock = true
			} else {
				how := "soft"
				if blocked {
					if r.Chance(50) {
						how = "hard"
					} else {
						g.ops = append(g.ops, "release")
						blocked = false
					}
				}
				g.ops = append(g.ops, fmt.Sprintf("reshard %d %s", nn, how))
				n = nn
				perShard = map[int]int{}
				if !blocked && r.Chance(35) {
					g.ops = append(g.ops, "block")
					blocked = true
				}
			}
		case p < 95:
			if race {
				if blocked {
					g.ops = append(g.ops, "release")
					blocked, reshardSinceBlock = false, false
				} else {
					g.ops = append(g.ops, "block")
					blocked, reshardSinceBlock = true, false
				}
			} else if blocked {
				g.ops = append(g.ops, "release")
				blocked = false
			} else if g.nextID == 0 {
				g.ops = append(g.ops, "block")
				blocked = true
			}
		default:
			if race {
				if !blocked && r.Chance(50) {
					g.ops = append(g.ops, "sync")
				} else {
					g.ops = append(g.ops, fmt.Sprintf("pause %d", []int{0, 50, 300, 1500, 6000}[r.Intn(5)]))
				}
			}
		}
	}
	how := "soft"
	if !race && blocked && r.Chance(60) {
		how = "hard"
	}
	g.ops = append(g.ops, "end "+how)
	return g.ops
}

func det(mode string) bool { return mode != "race" }

// ---- directed cases: external labels x write relabel rules (boundary cases of StoreSeries' label pipeline)

type dcase struct {
	name   string
	ext    []string   // name, value, …
	rules  []string   // rule lines
	series [][]string // label pairs
}

func directedRL() []dcase {
	up := func(kv ...string) []string { return append([]string{"__name__", "up"}, kv...) }
	return []dcase{
		{"drop-on-ext-and-series-label+labeldrop-ext", []string{"cluster", "eu", "replica", "a"},
			[]string{ruleLine("drop", []string{"cluster", "job"}, ";", "eu;debug", 0, "", "$1"), ruleLine("labeldrop", nil, ";", "replica", 0, "", "$1")},
			[][]string{up("job", "api"), up("job", "debug"), up("job", "api", "cluster", "own"), up("job", "debug", "cluster", "own"), up("job", "debug", "cluster", "eu")}},
		{"keep-on-ext-label", []string{"env", "prod"},
			[]string{ruleLine("keep", []string{"env"}, ";", "prod", 0, "", "$1")},
			[][]string{up("job", "a"), up("job", "b", "env", "dev"), up("job", "c", "env", "prod")}},
		{"drop-on-ext-label-only", []string{"region", "us"},
			[]string{ruleLine("drop", []string{"region"}, ";", "us", 0, "", "$1")},
			[][]string{up("job", "a"), up("job", "b", "region", "eu"), up("job", "c", "region", "us")}},
		{"replace-ext-label-from-both", []string{"region", "r1", "cluster", "eu"},
			[]string{ruleLine("replace", []string{"region", "job"}, ";", "(.*);(.*)", 0, "region", "$1-$2"),
				ruleLine("replace", []string{"cluster"}, ";", "(.*)", 0, "job", "x$1")},
			[][]string{up("job", "api"), up(), up("region", "own", "job", "b")}},
		{"labelkeep-without-ext-names", []string{"cluster", "eu", "replica", "a", "env", "prod"},
			[]string{ruleLine("labelkeep", nil, ";", "__name__|job|env", 0, "", "$1")},
			[][]string{up("job", "api"), up("job", "b", "env", "dev", "dc", "x")}},
		{"keepequal-ext-vs-series", []string{"cluster", "eu"},
			[]string{ruleLine("keepequal", []string{"cluster"}, ";", "D", 0, "dc", "$1")},
			[][]string{up("dc", "eu"), up("dc", "us"), up("dc", "us", "cluster", "us"), up()}},
		{"delete-ext-by-empty-replacement+drop-on-missing", []string{"replica", "b", "cluster", "eu"},
			[]string{ruleLine("replace", []string{"replica"}, ";", "(.*)", 0, "replica", ""), ruleLine("drop", []string{"replica"}, ";", ".+", 0, "", "$1"),
				ruleLine("lowercase", []string{"cluster"}, ";", "D", 0, "tgt", "$1")},
			[][]string{up("job", "a"), up("job", "b", "replica", "x")}},
		{"hashmod-on-ext+labelmap", []string{"cluster", "eu", "job", "fallback"},
			[]string{ruleLine("hashmod", []string{"cluster", "s"}, ";", "D", 2, "shard", "$1"), ruleLine("labelmap", nil, ";", "(cluster|job)", 0, "", "x_$1")},
			[][]string{up("s", "1"), up("s", "2", "job", "own"), up("s", "3")}},
		{"no-ext-labels-rules-on-ext-names", nil,
			[]string{ruleLine("drop", []string{"cluster"}, ";", "eu", 0, "", "$1"), ruleLine("keep", []string{"cluster", "job"}, ";", ";.*", 0, "", "$1"),
				ruleLine("replace", []string{"cluster"}, ";", "D", 0, "tgt", "none")},
			[][]string{up("job", "a"), up("job", "b", "cluster", "eu"), up("job", "c", "cluster", "us")}},
		{"no-rules-ext-merge-only", []string{"cluster", "eu", "job", "ext"}, nil,
			[][]string{up("job", "a"), up(), up("cluster", "own")}},
	}
}

func (d dcase) ops(v, n int) []string {
	ops := []string{fmt.Sprintf("cfg mode=det v=%d cap=4 mss=2 n=%d age=0 bsd=5 rl=1", v, n)}
	ops = append(ops, strings.TrimSpace("ext "+hexPairs(d.ext...)))
	ops = append(ops, d.rules...)
	for i, kv := range d.series {
		ops = append(ops, fmt.Sprintf("lseries %d 0 %s", i+1, hexPairs(kv...)))
	}
	id := 0
	for round := 0; round < 3; round++ {
		for i := range d.series {
			id++
			kind := "f"
			if (id+round)%4 == 0 {
				kind = "h"
			}
			ops = append(ops, fmt.Sprintf("app %d %d %s fresh", i+1, id, kind))
		}
	}
	return append(ops, "end soft")
}

func main() {
	c := h.Init()
	defer c.Finish()
	if c.Replay != "" {
		for _, cs := range c.ReplayCases() {
			c.Case(strings.TrimPrefix(cs[0], "case "))
			runCase(c, cs[1:])
		}
		return
	}
	for i, d := range directedRL() {
		c.Case(fmt.Sprintf("x%d-%s", i, d.name))
		ops := d.ops(1+i%2, 1+i%3)
		c.NonTrivial(strings.Join(ops, ";"))
		c.Count("mode:x")
		runCase(c, ops)
	}
	for i := 0; i < c.N; i++ {
		race := i%3 == 2
		rl := i%5 == 1 || i%5 == 3 // 40% of the cases: generated external labels + write relabel rules
		name := "d"
		if race {
			name = "r"
		}
		if rl {
			name += "l"
		}
		c.Case(fmt.Sprintf("%s%d", name, i))
		ops := genCase(c, race, rl)
		c.NonTrivial(strings.Join(ops, ";"))
		c.Count("mode:" + name)
		runCase(c, ops)
	}
}
