// Suite config (C49): config.Load → Config.String → config.Load → Config.String on generated
// configurations (built from the config types' YAML schema, valid by construction apart from a small
// stream of deliberately invalid ones) and on every config/testdata/*.good.yml of the checked-out tree.
//
// ops (one case = one configuration):
//
//	load <hex yaml> <tree>     config.Load(yaml). <tree> is the generic YAML document (yaml.v2 MapSlice)
//	                           serialised as tokens: `{` (k:<key> node)* `}` | `[` node* `]` | s:<str> |
//	                           i:<int> | b:true|false | f:<text> | n      (strings %XX-escaped, see esc).
//	                           It is RECOMPUTED from the hex text on replay; the Lean model reads only it.
//	    out: ok <path>=<value> …   canonical dump of the MODELLED CORE of the loaded struct (reflect walk,
//	                           leaf paths sorted; `#` = length of a slice/map; nil pointer = `nil`)
//	       | err                  (first load rejected: outside the statement)
//	rt                         print, load again, print again
//	    out: ok same|differs <path>=<v1>=<v2> …   text fixpoint?, and every leaf path of the FULL dump
//	                           (all exported fields incl. service discovery and HTTP client configs;
//	                           config.Secret skipped; nil and empty slices/maps identified) whose value
//	                           differs between the first and the second load (`~` = path absent)
//	       | reload-err           (the printed configuration is rejected)
//	       | skip                 (no loaded configuration)
package main

import (
	"encoding/hex"
	"fmt"
	"net/url"
	"os"
	"path/filepath"
	"reflect"
	"regexp"
	"sort"
	"strconv"
	"strings"

	commoncfg "github.com/prometheus/common/config"
	"github.com/prometheus/common/promslog"
	yaml "go.yaml.in/yaml/v2"

	"github.com/prometheus/prometheus/config"
	_ "github.com/prometheus/prometheus/discovery/install"
	"github.com/prometheus/prometheus/model/labels"
	"github.com/prometheus/prometheus/model/relabel"

	"verif/harness/h"
)

// ---------------------------------------------------------------- escaping

func esc(s string) string {
	var b strings.Builder
	for i := 0; i < len(s); i++ {
		c := s[i]
		if c <= 0x20 || c >= 0x7f || c == '%' || c == '=' || c == '.' || c == '~' || c == '[' || c == ']' || c == '{' || c == '}' || c == '#' {
			fmt.Fprintf(&b, "%%%02X", c)
		} else {
			b.WriteByte(c)
		}
	}
	return b.String()
}

// ---------------------------------------------------------------- generic YAML tree → tokens

func treeTokens(v any, out *[]string) {
	switch x := v.(type) {
	case nil:
		*out = append(*out, "n")
	case yaml.MapSlice:
		*out = append(*out, "{")
		for _, it := range x {
			*out = append(*out, "k:"+esc(fmt.Sprint(it.Key)))
			treeTokens(it.Value, out)
		}
		*out = append(*out, "}")
	case []any:
		*out = append(*out, "[")
		for _, e := range x {
			treeTokens(e, out)
		}
		*out = append(*out, "]")
	case string:
		*out = append(*out, "s:"+esc(x))
	case bool:
		*out = append(*out, "b:"+strconv.FormatBool(x))
	case int:
		*out = append(*out, "i:"+strconv.Itoa(x))
	case int64:
		*out = append(*out, "i:"+strconv.FormatInt(x, 10))
	case uint64:
		*out = append(*out, "i:"+strconv.FormatUint(x, 10))
	case float64:
		*out = append(*out, "f:"+esc(strconv.FormatFloat(x, 'g', -1, 64)))
	default:
		*out = append(*out, "s:"+esc(fmt.Sprint(x)))
	}
}

func treeOf(text string) string {
	var ms yaml.MapSlice
	if err := yaml.Unmarshal([]byte(text), &ms); err != nil {
		return "n"
	}
	var toks []string
	if ms == nil {
		return "n"
	}
	treeTokens(ms, &toks)
	return strings.Join(toks, " ")
}

// ---------------------------------------------------------------- canonical dump of a loaded config

var (
	tSecret  = reflect.TypeOf(commoncfg.Secret(""))
	tLabels  = reflect.TypeOf(labels.Labels{})
	tRegexp  = reflect.TypeOf(relabel.Regexp{})
	tURL     = reflect.TypeOf(commoncfg.URL{})
	tNetURL  = reflect.TypeOf(url.URL{})
	tGoRegex = reflect.TypeOf(regexp.Regexp{})
)

func dump(v reflect.Value, path string, out map[string]string) {
	t := v.Type()
	switch t {
	case tSecret:
		return
	case tLabels:
		ls := v.Interface().(labels.Labels)
		out[path+"#"] = strconv.Itoa(ls.Len())
		ls.Range(func(l labels.Label) { out[path+"{"+esc(l.Name)+"}"] = esc(l.Value) })
		return
	case tRegexp:
		re := v.Interface().(relabel.Regexp)
		if re.Regexp == nil {
			out[path] = "nil"
		} else {
			out[path] = "re:" + esc(re.String())
		}
		return
	case tURL:
		u := v.Interface().(commoncfg.URL)
		if u.URL == nil {
			out[path] = "nil"
		} else {
			out[path] = esc(u.URL.String())
		}
		return
	case tNetURL:
		u := v.Interface().(url.URL)
		out[path] = esc(u.String())
		return
	case tGoRegex:
		out[path] = esc(v.Addr().Interface().(*regexp.Regexp).String())
		return
	}
	switch v.Kind() {
	case reflect.Bool:
		out[path] = strconv.FormatBool(v.Bool())
	case reflect.Int, reflect.Int8, reflect.Int16, reflect.Int32, reflect.Int64:
		out[path] = strconv.FormatInt(v.Int(), 10)
	case reflect.Uint, reflect.Uint8, reflect.Uint16, reflect.Uint32, reflect.Uint64:
		out[path] = strconv.FormatUint(v.Uint(), 10)
	case reflect.Float32, reflect.Float64:
		out[path] = fmt.Sprintf("f%016x", mathFloat64bits(v.Float()))
	case reflect.String:
		out[path] = esc(v.String())
	case reflect.Pointer:
		if v.IsNil() {
			out[path] = "nil"
		} else {
			dump(v.Elem(), path, out)
		}
	case reflect.Interface:
		if v.IsNil() {
			out[path] = "nil"
		} else {
			e := v.Elem()
			et := e.Type()
			for et.Kind() == reflect.Pointer {
				et = et.Elem()
			}
			dump(e, path+"<"+esc(et.Name())+">", out)
		}
	case reflect.Slice, reflect.Array:
		out[path+"#"] = strconv.Itoa(v.Len())
		for i := 0; i < v.Len(); i++ {
			dump(v.Index(i), path+"["+strconv.Itoa(i)+"]", out)
		}
	case reflect.Map:
		out[path+"#"] = strconv.Itoa(v.Len())
		for _, k := range v.MapKeys() {
			dump(v.MapIndex(k), path+"{"+esc(fmt.Sprint(k.Interface()))+"}", out)
		}
	case reflect.Struct:
		for i := 0; i < t.NumField(); i++ {
			f := t.Field(i)
			if !f.IsExported() {
				continue
			}
			p := f.Name
			if path != "" {
				p = path + "." + f.Name
			}
			dump(v.Field(i), p, out)
		}
	case reflect.Func, reflect.Chan, reflect.UnsafePointer:
		// skipped
	default:
		out[path] = "?" + esc(v.Kind().String())
	}
}

func dumpConfig(c *config.Config) map[string]string {
	out := map[string]string{}
	dump(reflect.ValueOf(c).Elem(), "", out)
	return out
}

var reIdx = regexp.MustCompile(`\[[0-9]+\]`)
var reKey = regexp.MustCompile(`\{[^}]*\}`)

// corePaths: the part of the struct the Lean model (PromModel/Config/Normalize.lean) computes.
var corePaths = map[string]bool{}

func init() {
	add := func(prefix string, names ...string) {
		for _, n := range names {
			corePaths[prefix+n] = true
		}
	}
	relabelFields := []string{"#", "[].SourceLabels#", "[].SourceLabels[]", "[].Separator", "[].Regex", "[].Modulus", "[].TargetLabel", "[].Replacement", "[].Action", "[].NameValidationScheme"}
	rel := func(p string) { add(p, relabelFields...) }
	add("GlobalConfig.", "ScrapeInterval", "ScrapeTimeout", "EvaluationInterval", "RuleQueryOffset", "QueryLogFile", "ScrapeFailureLogFile",
		"BodySizeLimit", "SampleLimit", "TargetLimit", "LabelLimit", "LabelNameLengthLimit", "LabelValueLengthLimit", "KeepDroppedTargets",
		"MetricNameValidationScheme", "MetricNameEscapingScheme", "ScrapeNativeHistograms", "ConvertClassicHistogramsToNHCB",
		"AlwaysScrapeClassicHistograms", "ExtraScrapeMetrics", "ScrapeProtocols#", "ScrapeProtocols[]", "ExternalLabels#", "ExternalLabels{}")
	add("Runtime.", "GoGC")
	add("", "RuleFiles#", "RuleFiles[]", "ScrapeConfigFiles#", "ScrapeConfigFiles[]", "ScrapeConfigs#", "RemoteWriteConfigs#", "RemoteReadConfigs#")
	add("ScrapeConfigs[].", "JobName", "HonorLabels", "HonorTimestamps", "TrackTimestampsStaleness", "ScrapeInterval", "ScrapeTimeout",
		"ScrapeProtocols#", "ScrapeProtocols[]", "ScrapeFallbackProtocol", "ScrapeNativeHistograms", "AlwaysScrapeClassicHistograms",
		"ConvertClassicHistogramsToNHCB", "ScrapeFailureLogFile", "MetricsPath", "Scheme", "EnableCompression", "BodySizeLimit", "SampleLimit",
		"TargetLimit", "LabelLimit", "LabelNameLengthLimit", "LabelValueLengthLimit", "NativeHistogramBucketLimit", "KeepDroppedTargets",
		"MetricNameValidationScheme", "MetricNameEscapingScheme", "ExtraScrapeMetrics")
	rel("ScrapeConfigs[].RelabelConfigs")
	rel("ScrapeConfigs[].MetricRelabelConfigs")
	add("RemoteWriteConfigs[].", "URL", "RemoteTimeout", "Name", "SendExemplars", "SendNativeHistograms", "RoundRobinDNS", "ProtobufMessage",
		"FailedRequestLogging", "QueueConfig.Capacity", "QueueConfig.MaxShards", "QueueConfig.MinShards", "QueueConfig.MaxSamplesPerSend",
		"QueueConfig.BatchSendDeadline", "QueueConfig.MinBackoff", "QueueConfig.MaxBackoff", "QueueConfig.RetryOnRateLimit",
		"QueueConfig.SampleAgeLimit", "MetadataConfig.Send", "MetadataConfig.SendInterval", "MetadataConfig.MaxSamplesPerSend")
	rel("RemoteWriteConfigs[].WriteRelabelConfigs")
	add("RemoteReadConfigs[].", "URL", "RemoteTimeout", "ChunkedReadLimit", "ReadRecent", "Name", "FilterExternalLabels")
	rel("AlertingConfig.AlertRelabelConfigs")
	add("AlertingConfig.", "AlertmanagerConfigs#")
	add("AlertingConfig.AlertmanagerConfigs[].", "Scheme", "PathPrefix", "Timeout", "APIVersion")
	rel("AlertingConfig.AlertmanagerConfigs[].RelabelConfigs")
	rel("AlertingConfig.AlertmanagerConfigs[].AlertRelabelConfigs")
	add("OTLPConfig.", "PromoteAllResourceAttributes", "PromoteResourceAttributes#", "PromoteResourceAttributes[]", "IgnoreResourceAttributes#",
		"IgnoreResourceAttributes[]", "TranslationStrategy", "KeepIdentifyingResourceAttributes", "ConvertHistogramsToNHCB", "PromoteScopeMetadata",
		"LabelNameUnderscoreSanitization", "LabelNamePreserveMultipleUnderscores")
	add("StorageConfig.", "TSDBConfig.OutOfOrderTimeWindow", "TSDBConfig.OutOfOrderTimeWindowFlag", "TSDBConfig.ChunkEncoding.Floats",
		"TSDBConfig.Retention.Time", "TSDBConfig.Retention.Size", "ExemplarsConfig", "ExemplarsConfig.MaxExemplars")
}

func isCore(path string) bool {
	p := reKey.ReplaceAllString(reIdx.ReplaceAllString(path, "[]"), "{}")
	return corePaths[p]
}

func sortedKeys(m map[string]string) []string {
	ks := make([]string, 0, len(m))
	for k := range m {
		ks = append(ks, k)
	}
	sort.Strings(ks)
	return ks
}

func mathFloat64bits(f float64) uint64 { return float64bits(f) }

// ---------------------------------------------------------------- the ops

type state struct {
	cfg *config.Config
}

var nop = promslog.NewNopLogger()

func doLoad(c *h.Ctx, st *state, text string) {
	st.cfg = nil
	var cfg *config.Config
	var err error
	panicked, pv := h.Try(func() { cfg, err = config.Load(text, nop) })
	op := "load " + hex.EncodeToString([]byte(text)) + " " + treeOf(text)
	if len(text) == 0 {
		op = "load - n"
	}
	switch {
	case panicked:
		c.Count("load:panic")
		c.Op(op, "panic "+esc(fmt.Sprint(pv)))
	case err != nil:
		c.Count("load:err")
		c.Op(op, "err")
	default:
		st.cfg = cfg
		d := dumpConfig(cfg)
		var sb strings.Builder
		sb.WriteString("ok")
		for _, k := range sortedKeys(d) {
			if isCore(k) {
				sb.WriteString(" " + k + "=" + d[k])
			}
		}
		c.Count("load:ok")
		c.Op(op, sb.String())
	}
}

func doRT(c *h.Ctx, st *state) {
	if st.cfg == nil {
		c.Op("rt", "skip")
		return
	}
	var out string
	panicked, pv := h.Try(func() {
		t1 := st.cfg.String()
		c2, err := config.Load(t1, nop)
		if err != nil {
			c.Count("rt:reload-err")
			out = "reload-err"
			return
		}
		t2 := c2.String()
		d1, d2 := dumpConfig(st.cfg), dumpConfig(c2)
		keys := map[string]string{}
		for k := range d1 {
			keys[k] = ""
		}
		for k := range d2 {
			keys[k] = ""
		}
		var diffs []string
		for _, k := range sortedKeys(keys) {
			a, okA := d1[k]
			b, okB := d2[k]
			if !okA {
				a = "~"
			}
			if !okB {
				b = "~"
			}
			if a != b {
				diffs = append(diffs, k+"="+a+"="+b)
			}
		}
		out = "ok "
		if t1 == t2 {
			out += "same"
		} else {
			out += "differs"
			c.Count("rt:text-differs")
		}
		if len(diffs) > 0 {
			c.Count("rt:struct-differs")
			out += " " + strings.Join(diffs, " ")
		} else {
			c.Count("rt:struct-equal")
		}
	})
	if panicked {
		out = "panic " + esc(fmt.Sprint(pv))
	}
	c.Op("rt", out)
}

func runCase(c *h.Ctx, lines []string) {
	st := &state{}
	for _, l := range lines {
		f := strings.Fields(l)
		if len(f) == 0 {
			continue
		}
		switch f[0] {
		case "load":
			text := ""
			if len(f) > 1 && f[1] != "-" {
				b, err := hex.DecodeString(f[1])
				if err != nil {
					c.Op(l, "bad-op")
					continue
				}
				text = string(b)
			}
			doLoad(c, st, text)
		case "rt":
			doRT(c, st)
		default:
			c.Op(l, "bad-op")
		}
	}
}

func runText(c *h.Ctx, id, text string) {
	c.Case(id)
	st := &state{}
	doLoad(c, st, text)
	// the statement excludes configurations with secrets (they are printed as <secret>)
	if st.cfg != nil && strings.Contains(st.cfg.String(), "<secret>") {
		c.Count("skipped-rt:secrets")
		return
	}
	doRT(c, st)
}

func main() {
	c := h.Init()
	// external label values are expanded from the environment by config.Load: make it empty
	os.Clearenv()
	if c.Replay != "" {
		for _, cs := range c.ReplayCases() {
			c.Case(strings.TrimPrefix(cs[0], "case "))
			runCase(c, cs[1:])
		}
		c.Finish()
		return
	}
	// Stream 0: the repository's own valid example configurations.
	repo := c.Extra["repo"]
	if repo == "" {
		repo = repoDir
	}
	files, _ := filepath.Glob(filepath.Join(repo, "config", "testdata", "*.good.yml"))
	sort.Strings(files)
	for _, f := range files {
		b, err := os.ReadFile(f)
		if err != nil {
			continue
		}
		c.Count("stream:testdata")
		c.NonTrivial("file:" + filepath.Base(f))
		runText(c, "file-"+strings.TrimSuffix(filepath.Base(f), ".good.yml"), string(b))
	}
	// Stream 1: one configuration per field of the regenerated-table kind: every modelled scalar set to its
	// kind's zero value, alone (this is the enumeration that finds every F16-style field).
	for i, text := range zeroProbes() {
		c.Count("stream:zero-probe")
		c.NonTrivial("zero:" + strconv.Itoa(i))
		runText(c, "zero-"+strconv.Itoa(i), text)
	}
	// Stream 2: random configurations.
	for i := 0; i < c.N; i++ {
		g := &gen{r: c.Rng, c: c}
		text := g.config()
		c.Count("stream:random")
		c.NonTrivial(text)
		runText(c, fmt.Sprintf("g%d-%d", c.Seed, i), text)
	}
	c.Finish()
}
